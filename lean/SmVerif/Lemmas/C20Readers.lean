/-
C20 helper lemmas for the reader models (Model/PyVal, CsvReaders, JsonReaders): which exception
classes each primitive and each loop can raise.
-/
import SmVerif.Model.PyVal
import SmVerif.Model.CsvReaders
import SmVerif.Model.JsonReaders

namespace Sm.Py

/-- every exception `r` can raise is of a class in `L` (declining is not an exception) -/
def Within {α : Type} (L : List Cls) (r : R α) : Prop := ∀ c, r = .error (.exc c) → c ∈ L

theorem Within.pure {α : Type} {L : List Cls} (a : α) : Within L (Pure.pure a : R α) := by
  intro c h; cases h

theorem Within.ok {α : Type} {L : List Cls} (a : α) : Within L (.ok a : R α) := by
  intro c h; cases h

theorem Within.raise {α : Type} {L : List Cls} {c : Cls} (h : c ∈ L) : Within L (raise c : R α) := by
  intro c' h'
  unfold Sm.Py.raise at h'
  injection h' with h'
  injection h' with h'
  subst h'; exact h

theorem Within.decline {α : Type} {L : List Cls} (w : String) : Within L (decline w : R α) := by
  intro c h
  unfold Sm.Py.decline at h
  injection h with h
  cases h

theorem Within.mono {α : Type} {L L' : List Cls} {r : R α} (h : Within L r) (hs : ∀ c, c ∈ L → c ∈ L') : Within L' r :=
  fun c hc => hs c (h c hc)

theorem Within.bind {α β : Type} {L : List Cls} {x : R α} {f : α → R β}
    (hx : Within L x) (hf : ∀ a, x = .ok a → Within L (f a)) : Within L (x >>= f) := by
  intro c h
  cases x with
  | error e =>
    have : (Except.error e : R β) = .error (.exc c) := h
    injection this with this
    subst this
    exact hx c rfl
  | ok a => exact hf a rfl c h

theorem Within.of_error {α : Type} {L : List Cls} {x : R α} (hx : Within L x) {e : Stop} {β : Type}
    (h : x = .error e) : Within L (.error e : R β) := by
  intro c hc
  injection hc with hc
  subst hc
  exact hx c h

end Sm.Py

namespace Sm.Py

macro "within_cases" f:ident : tactic =>
  `(tactic| (intro c; unfold $f; (repeat' (first | split | simp only [])) <;>
      (intro h; simp_all [Sm.Py.raise, Sm.Py.decline, pure, Except.pure])))

/-! ### primitives -/

theorem pyIntStr_within (s : List Char) : Within [.ValueError] (pyIntStr s) := by
  within_cases pyIntStr
theorem pyFloatStr_within (s : List Char) : Within [.ValueError] (pyFloatStr s) := by
  within_cases pyFloatStr
theorem pfLtTwo_within (p : PF) : Within [] (pfLtTwo p) := by
  within_cases pfLtTwo
theorem pfEqOne_within (p : PF) : Within [] (pfEqOne p) := by
  within_cases pfEqOne
theorem getKey_within (x : J) (k : List Char) : Within [.KeyError, .TypeError] (getKey x k) := by
  within_cases getKey
theorem getIdx0_within (x : J) : Within [.KeyError, .TypeError, .IndexError] (getIdx0 x) := by
  within_cases getIdx0
theorem getOr_within (x : J) (k : List Char) (d : J) : Within [.AttributeError] (getOr x k d) := by
  within_cases getOr
theorem strIn_within (k : List Char) (x : J) : Within [.TypeError] (strIn k x) := by
  within_cases strIn
theorem items_within (x : J) : Within [.AttributeError] (items x) := by
  within_cases items
theorem iter_within (x : J) : Within [.TypeError] (iter x) := by
  within_cases iter

theorem pyInt_within (x : J) : Within [.ValueError, .TypeError, .OverflowError] (pyInt x) := by
  unfold pyInt
  split
  any_goals exact Within.pure _
  any_goals exact Within.raise (by simp)
  exact (pyIntStr_within _).mono (by simp_all)

theorem pyFloatLtTwo_within (x : J) : Within [.ValueError, .TypeError, .OverflowError] (pyFloatLtTwo x) := by
  unfold pyFloatLtTwo
  split
  · split
    · exact Within.raise (by simp)
    · exact Within.pure _
  any_goals exact Within.pure _
  any_goals exact Within.raise (by simp)
  exact Within.bind ((pyFloatStr_within _).mono (by simp_all)) fun pf _ => (pfLtTwo_within pf).mono (by simp_all)

/-- a dict key that is present never raises -/
theorem getKey_obj_some {kvs : List (List Char × J)} {k : List Char} {v : J} (h : lookup k kvs = some v) :
    getKey (.obj kvs) k = .ok v := by
  simp [getKey, h, pure, Except.pure]

theorem getKey_ok_obj {x : J} {k : List Char} {v : J} (h : getKey x k = .ok v) :
    ∃ kvs, x = .obj kvs ∧ lookup k kvs = some v := by
  unfold getKey at h
  split at h
  · rename_i kvs
    split at h
    · rename_i v' hv
      simp [pure, Except.pure] at h
      exact ⟨kvs, rfl, by rw [hv, h]⟩
    · simp [raise] at h
  · simp [raise] at h

end Sm.Py

namespace Sm.JsonR

open Sm.Py Sm.CsvR

/-! ### LCA database reader -/

/-- every exception class the decoded-document part of `LCA_Database.load` can raise -/
def lcaDocClasses : List Cls :=
  [.ValueError, .TypeError, .KeyError, .AttributeError, .IndexError, .OverflowError, .AssertionError]

theorem getIdx_within (x : J) (i : Nat) : Within [.KeyError, .TypeError, .IndexError] (getIdx x i) := by
  within_cases getIdx

theorem lineagePairs_within (xs : List J) : Within [.KeyError, .TypeError, .IndexError] (lineagePairs xs) := by
  induction xs with
  | nil => exact Within.pure _
  | cons x xs ih =>
    unfold lineagePairs
    refine Within.bind (getIdx_within _ _) fun a _ => ?_
    refine Within.bind (getIdx_within _ _) fun b _ => ?_
    split
    · exact Within.raise (by simp)
    · exact Within.bind ih fun r _ => Within.pure _

theorem lidEntry_within (k : List Char) (v : J) : Within lcaDocClasses (lidEntry k v) := by
  unfold lidEntry
  refine Within.bind ((iter_within _).mono (by simp_all [lcaDocClasses])) fun xs _ => ?_
  refine Within.bind ((lineagePairs_within _).mono (by simp_all [lcaDocClasses])) fun ps _ => ?_
  refine Within.bind ((pyIntStr_within _).mono (by simp_all [lcaDocClasses])) fun i _ => ?_
  split
  · exact Within.raise (by simp [lcaDocClasses])
  · exact Within.pure _

theorem lidEntries_within (l : List (List Char × J)) (acc : List Int) (w : Nat) :
    Within lcaDocClasses (lidEntries l acc w).res := by
  induction l generalizing acc w with
  | nil => exact Within.pure _
  | cons kv rest ih =>
    obtain ⟨k, v⟩ := kv
    unfold lidEntries
    split
    · exact ih _ _
    · rename_i e he
      exact (lidEntry_within k v).of_error he

theorem hashEntry_within (k : List Char) (v : J) : Within lcaDocClasses (hashEntry k v) := by
  unfold hashEntry
  refine Within.bind ((iter_within _).mono (by simp_all [lcaDocClasses])) fun xs _ => ?_
  split
  · exact Within.raise (by simp [lcaDocClasses])
  · exact Within.bind ((pyIntStr_within _).mono (by simp_all [lcaDocClasses])) fun i _ => Within.pure _

theorem hashEntries_within (l : List (List Char × J)) (acc : List Int) (w : Nat) :
    Within lcaDocClasses (hashEntries l acc w).res := by
  induction l generalizing acc w with
  | nil => exact Within.pure _
  | cons kv rest ih =>
    obtain ⟨k, v⟩ := kv
    unfold hashEntries
    split
    · exact ih _ _
    · rename_i e he
      exact (hashEntry_within k v).of_error he

theorem intKeyed_within (l : List (List Char × J)) : Within [.ValueError] (intKeyed l) := by
  induction l with
  | nil => exact Within.pure _
  | cons kv rest ih =>
    obtain ⟨k, v⟩ := kv
    unfold intKeyed
    refine Within.bind (pyIntStr_within _) fun i _ => ?_
    refine Within.bind ih fun r _ => ?_
    split <;> exact Within.pure _

theorem maxPlusOne_within (vals : List J) : Within [.TypeError] (maxPlusOne vals) := by
  within_cases maxPlusOne

theorem lcaTooOld_within (d : J) : Within lcaDocClasses (lcaTooOld d) := by
  unfold lcaTooOld
  refine Within.bind ((pyFloatLtTwo_within _).mono (by simp_all [lcaDocClasses])) fun old _ => ?_
  split
  · exact Within.pure _
  · exact Within.bind ((strIn_within _ _).mono (by simp_all [lcaDocClasses])) fun b _ => Within.pure _

theorem lcaHeader_within (d : J) : Within lcaDocClasses (lcaHeader d) := by
  unfold lcaHeader
  refine Within.bind ((getKey_within _ _).mono (by simp_all [lcaDocClasses])) fun k _ => ?_
  refine Within.bind ((pyInt_within _).mono (by simp_all [lcaDocClasses])) fun ks _ => ?_
  refine Within.bind ((getKey_within _ _).mono (by simp_all [lcaDocClasses])) fun sc _ => ?_
  refine Within.bind ((pyInt_within _).mono (by simp_all [lcaDocClasses])) fun scv _ => ?_
  refine Within.bind ((getOr_within _ _ _).mono (by simp_all [lcaDocClasses])) fun m _ => ?_
  split
  · exact Within.pure _
  · split
    · exact Within.raise (by simp [lcaDocClasses])
    · split
      · exact Within.raise (by simp [lcaDocClasses])
      · exact Within.pure _

theorem lcaItems_within (d : J) (k : List Char) : Within lcaDocClasses (lcaItems d k) := by
  unfold lcaItems
  exact Within.bind ((getKey_within _ _).mono (by simp_all [lcaDocClasses])) fun l _ =>
    (items_within _).mono (by simp_all [lcaDocClasses])

theorem lcaTail_within (d : J) : Within lcaDocClasses (lcaTail d) := by
  unfold lcaTail
  refine Within.bind ((getKey_within _ _).mono (by simp_all [lcaDocClasses])) fun _ _ => ?_
  refine Within.bind ((getKey_within _ _).mono (by simp_all [lcaDocClasses])) fun ii _ => ?_
  refine Within.bind ((getKey_within _ _).mono (by simp_all [lcaDocClasses])) fun i2l _ => ?_
  refine Within.bind ((items_within _).mono (by simp_all [lcaDocClasses])) fun its _ => ?_
  refine Within.bind ((intKeyed_within _).mono (by simp_all [lcaDocClasses])) fun conv _ => ?_
  refine Within.bind ?_ fun ni _ => ?_
  · unfold nextIndexOf
    split
    · split
      · exact (maxPlusOne_within _).mono (by simp_all [lcaDocClasses])
      · exact Within.raise (by simp [lcaDocClasses])
    · exact Within.pure _
  · refine Within.bind ?_ fun nl _ => Within.pure _
    unfold nextLidOf
    split
    · exact Within.pure _
    · exact (maxPlusOne_within _).mono (by simp_all [lcaDocClasses])

theorem loadLcaDoc_within (d : J) : Within lcaDocClasses (loadLcaDoc d).res := by
  unfold loadLcaDoc
  split
  · exact Within.raise (by simp [lcaDocClasses])
  split
  · exact Within.raise (by simp [lcaDocClasses])
  split
  · rename_i e he; exact (lcaTooOld_within d).of_error he
  · exact Within.raise (by simp [lcaDocClasses])
  split
  · rename_i e he; exact (lcaHeader_within d).of_error he
  split
  · rename_i e he; exact (lcaItems_within d _).of_error he
  split
  · rename_i e he; exact (lidEntries_within _ _ _).of_error he
  split
  · rename_i e he; exact (lcaItems_within d _).of_error he
  split
  · rename_i e he; exact (hashEntries_within _ _ _).of_error he
  split
  · rename_i e he; exact (lcaTail_within d).of_error he
  · exact Within.pure _

end Sm.JsonR

namespace Sm.CsvR

open Sm.Py

/-! ### manifest reader -/

/-- what the manifest reader can raise besides what the `literal_eval` oracle raises -/
def manifestOwnClasses : List Cls := [.ValueError, .TypeError, .CsvError, .UnicodeDecodeError]

/-- what the with_abundance conversion lets out when the classes in `caught` are wrapped into ValueError -/
def litEscapes (caught : List Cls) : List Cls := .ValueError :: litClasses.filter (fun c => !caught.contains c)

def manifestClassesV (caught : List Cls) : List Cls := manifestOwnClasses ++ litEscapes caught

/-- the classes of the bare call (before the repair of C20.2) -/
def manifestClasses : List Cls := manifestOwnClasses ++ litClasses

/-- the oracle stays inside the documented exception range of `ast.literal_eval` -/
def LitOk (lit : Cell → Lit) : Prop := ∀ s c, lit s = .exc c → c ∈ litClasses

theorem lastIndex_none_iff (k : Cell) (fields : List Cell) : lastIndex k fields = none ↔ k ∉ fields := by
  induction fields with
  | nil => simp [lastIndex]
  | cons f fs ih =>
    unfold lastIndex
    cases h : lastIndex k fs with
    | some i =>
      have hm : k ∈ fs := by
        apply Classical.byContradiction
        intro hn
        rw [ih.2 hn] at h
        cases h
      simp [hm]
    | none =>
      have hn := ih.1 h
      by_cases hf : f = k
      · subst hf; simp
      · have hne : ¬ k = f := fun e => hf e.symm
        simp [hf, hn, hne]

/-- a column that is in the header is found by DictReader (as a cell or as `None`) -/
theorem cellOf_isSome {fields : List Cell} {k : Cell} (h : fields.contains k = true) (row : Row) :
    ∃ v, cellOf fields row k = some v := by
  unfold cellOf
  cases hl : lastIndex k fields with
  | none =>
    have := (lastIndex_none_iff k fields).1 hl
    simp at h
    exact absurd h this
  | some i => exact ⟨_, rfl⟩

theorem missingKey_false {fields : List Cell} (h : missingKey fields = false) {k : Cell} (hk : k ∈ requiredKeys) :
    fields.contains k = true := by
  unfold missingKey at h
  rw [List.any_eq_false] at h
  have := h k hk
  simpa using this

theorem intCell_within {v : Option Cell} : Within [.ValueError, .TypeError] (intCell (some v)) := by
  cases v with
  | none => exact Within.raise (by simp)
  | some c => exact (pyIntStr_within c).mono (by simp_all)

theorem boolCell_within {caught : List Cls} {lit : Cell → Lit} (hl : LitOk lit) {v : Option Cell} :
    Within (litEscapes caught) (boolCell caught lit (some v)) := by
  cases v with
  | none => exact Within.pure _
  | some c =>
    simp only [boolCell]
    split
    · exact Within.pure _
    · rename_i c' hc
      split
      · exact Within.raise (by simp [litEscapes])
      · rename_i hn
        refine Within.raise ?_
        unfold litEscapes
        refine List.mem_cons_of_mem _ (List.mem_filter.2 ⟨hl c c' hc, ?_⟩)
        simpa using hn
    · exact Within.decline _

theorem intCols_required : ∀ k ∈ intCols, k ∈ requiredKeys := by decide
theorem boolCol_required : boolCol ∈ requiredKeys := by decide

theorem convertRow_within {caught : List Cls} {lit : Cell → Lit} (hl : LitOk lit) {fields : List Cell} (hf : missingKey fields = false) (row : Row) :
    Within (manifestClassesV caught) (convertRow caught lit fields row) := by
  unfold convertRow
  split
  · rename_i c1 c2 c3 c4 hcols
    have hmem : ∀ k, k ∈ [c1, c2, c3, c4] → fields.contains k = true := fun k hk =>
      missingKey_false hf (intCols_required k (by rw [hcols]; exact hk))
    obtain ⟨v1, h1⟩ := cellOf_isSome (hmem c1 (by simp)) row
    obtain ⟨v2, h2⟩ := cellOf_isSome (hmem c2 (by simp)) row
    obtain ⟨v3, h3⟩ := cellOf_isSome (hmem c3 (by simp)) row
    obtain ⟨v4, h4⟩ := cellOf_isSome (hmem c4 (by simp)) row
    obtain ⟨vb, hb⟩ := cellOf_isSome (missingKey_false hf boolCol_required) row
    rw [h1, h2, h3, h4, hb]
    have hown : ∀ c, c ∈ [Cls.ValueError, Cls.TypeError] → c ∈ manifestClassesV caught := by
      intro c h
      unfold manifestClassesV manifestOwnClasses
      simp at h
      rcases h with rfl | rfl <;> simp
    refine Within.bind (intCell_within.mono hown) fun _ _ => ?_
    refine Within.bind (intCell_within.mono hown) fun _ _ => ?_
    refine Within.bind (intCell_within.mono hown) fun _ _ => ?_
    refine Within.bind (intCell_within.mono hown) fun _ _ => ?_
    refine Within.bind ((boolCell_within hl).mono (by intro c h; unfold manifestClassesV; exact List.mem_append.2 (Or.inr h))) fun _ _ => Within.pure _
  · exact Within.decline _

/-- the classes the byte stream under a CSV document hands in (a gzip stream that fails) -/
def docIo (doc : CsvDoc) : List Cls := doc.first.io ++ doc.tail.io

theorem tailStop_within {caught : List Cls} {t : Tail} {c : Cls} (h : t.stop = some c) : c ∈ manifestClassesV caught ++ t.io := by
  cases t <;> simp [Tail.stop] at h <;> subst h <;> simp [manifestClassesV, manifestOwnClasses, Tail.io]

theorem loadRows_within {caught : List Cls} {lit : Cell → Lit} (hl : LitOk lit) {fields : List Cell} (hf : missingKey fields = false)
    (tail : Tail) (rows : List Row) (acc : List MfRow) (w : Nat) :
    Within (manifestClassesV caught ++ tail.io) (loadRows caught lit fields tail rows acc w).res := by
  induction rows generalizing acc w with
  | nil =>
    unfold loadRows
    split
    · exact Within.pure _
    · rename_i c hc
      exact Within.raise (tailStop_within hc)
  | cons r rest ih =>
    cases r with
    | nil => unfold loadRows; exact ih _ _
    | cons c cs =>
      unfold loadRows
      split
      · exact ih _ _
      · rename_i e he
        exact ((convertRow_within hl hf _).mono (fun c h => List.mem_append.2 (Or.inl h))).of_error he

theorem versionIsOne_within (v : List Char) : Within [] (versionIsOne v) := by
  unfold versionIsOne
  split
  · exact pfEqOne_within _
  · exact Within.pure _
  · exact Within.decline _

theorem loadManifestV_within {caught : List Cls} {lit : Cell → Lit} (hl : LitOk lit) (doc : CsvDoc) :
    Within (manifestClassesV caught ++ docIo doc) (loadManifestV caught lit doc).res := by
  have own : ∀ c, c ∈ manifestOwnClasses → c ∈ manifestClassesV caught ++ docIo doc :=
    fun c h => List.mem_append.2 (Or.inl (List.mem_append.2 (Or.inl h)))
  have tl : ∀ c, c ∈ manifestClassesV caught ++ doc.tail.io → c ∈ manifestClassesV caught ++ docIo doc := by
    intro c h
    rcases List.mem_append.1 h with h | h
    · exact List.mem_append.2 (Or.inl h)
    · exact List.mem_append.2 (Or.inr (List.mem_append.2 (Or.inr h)))
  unfold loadManifestV
  split
  · exact Within.raise (own _ (by simp [manifestOwnClasses]))
  · rename_i c hc
    exact Within.raise (List.mem_append.2 (Or.inr (List.mem_append.2 (Or.inl (by simp [FirstLine.io, hc])))))
  · simp only []
    split
    · exact Within.decline _
    split
    · exact Within.raise (own _ (by simp [manifestOwnClasses]))
    split
    · rename_i e he
      exact ((versionIsOne_within _).mono (by simp)).of_error he
    · exact Within.raise (own _ (by simp [manifestOwnClasses]))
    · split
      · split
        · exact Within.raise (own _ (by simp [manifestOwnClasses]))
        · rename_i c hc
          exact Within.raise (tl _ (tailStop_within hc))
      · split
        · exact Within.raise (own _ (by simp [manifestOwnClasses]))
        · split
          · exact Within.raise (own _ (by simp [manifestOwnClasses]))
          · rename_i hmk
            exact (loadRows_within hl (by simpa using hmk) _ _ _ _).mono tl

/-- whatever list is wrapped, nothing outside the classes of the bare call can appear -/
theorem manifestClassesV_sub (caught : List Cls) : ∀ c, c ∈ manifestClassesV caught → c ∈ manifestClasses := by
  intro c h
  unfold manifestClassesV at h
  unfold manifestClasses
  rcases List.mem_append.1 h with h | h
  · exact List.mem_append.2 (Or.inl h)
  · unfold litEscapes at h
    rcases List.mem_cons.1 h with rfl | h
    · simp [litClasses]
    · exact List.mem_append.2 (Or.inr (List.mem_filter.1 h).1)

theorem loadManifest_within {lit : Cell → Lit} (hl : LitOk lit) (doc : CsvDoc) :
    Within (manifestClasses ++ docIo doc) (loadManifest lit doc).res :=
  (loadManifestV_within (caught := litCaught) hl doc).mono (by
    intro c h
    rcases List.mem_append.1 h with h | h
    · exact List.mem_append.2 (Or.inl (manifestClassesV_sub _ c h))
    · exact List.mem_append.2 (Or.inr h))

end Sm.CsvR

namespace Sm.CsvR

open Sm.Py

/-! ### picklist reader -/

def picklistClasses : List Cls :=
  [.ValueError, .CsvError, .AssertionError, .UnicodeDecodeError, .KeyError, .AttributeError, .TypeError]

/-- every valid coltype has a preprocessing function (the `preprocess[coltype]` lookup never fails) -/
theorem preOf_total : ∀ c ∈ metaColtypes ++ supportedColtypes, (preOf c).isSome = true := by decide

theorem argParts_within (a : List Char) : Within [.ValueError] (argParts a) := by
  within_cases argParts

theorem initPicklist_within (pf col ct : Cell) (st : Style) : Within [.ValueError] (initPicklist pf col ct st) := by
  unfold initPicklist
  split
  · exact Within.raise (by simp)
  rename_i hvalid
  split
  · exact Within.raise (by simp)
  split
  · rename_i hnone
    exfalso
    have hmem : ct ∈ metaColtypes ++ supportedColtypes := by
      simp at hvalid
      by_cases hm : ct ∈ metaColtypes
      · exact List.mem_append.2 (Or.inl hm)
      · exact List.mem_append.2 (Or.inr (hvalid hm))
    have := preOf_total ct hmem
    rw [hnone] at this
    cases this
  · exact Within.pure _

theorem fromArgs_within (a : List Char) : Within [.ValueError] (fromArgs a) := by
  unfold fromArgs
  split
  · rename_i e he; exact (argParts_within a).of_error he
  · exact initPicklist_within _ _ _ _
  · exact Within.raise (by simp)

theorem csvRowValue_within (pl : Picklist) (fields : List Cell) (row : Row) :
    Within [.KeyError, .AttributeError, .TypeError] (csvRowValue pl fields row) := by
  within_cases csvRowValue

/-- what the byte stream under a pickfile hands in: the gzip probe's own failure, a gzip stream failing later -/
def pickIo (doc : PickDoc) : List Cls :=
  (match doc.sniff with | some c => [c] | none => []) ++ doc.first.io ++ doc.tailRest.io ++ doc.tailAll.io

theorem tailStop_pick {t : Tail} {c : Cls} (h : t.stop = some c) : c ∈ picklistClasses ++ t.io := by
  cases t <;> simp [Tail.stop] at h <;> subst h <;> simp [picklistClasses, Tail.io]

theorem pickRows_within (pl : Picklist) (fields : List Cell) (tail : Tail) (rows : List Row) (acc : PickResult) (w : Nat) :
    Within (picklistClasses ++ tail.io) (pickRows pl fields tail rows acc w).res := by
  induction rows generalizing acc w with
  | nil =>
    unfold pickRows
    split
    · exact Within.pure _
    · rename_i c hc; exact Within.raise (tailStop_pick hc)
  | cons r rest ih =>
    cases r with
    | nil => unfold pickRows; exact ih _ _
    | cons c cs =>
      unfold pickRows
      split
      · rename_i e he
        exact ((csvRowValue_within pl fields _).mono (by intro c h; apply List.mem_append.2; left; simp_all [picklistClasses])).of_error he
      · exact ih _ _
      · split <;> exact ih _ _

theorem pickBody_within (doc : PickDoc) : Within (picklistClasses ++ doc.first.io) (pickBody doc) := by
  unfold pickBody
  split
  · split
    · exact Within.raise (by simp [picklistClasses])
    · rename_i c hc
      exact Within.raise (by simp [FirstLine.io, hc])
    · split
      · exact Within.pure _
      · exact Within.raise (by simp [picklistClasses])
  · exact Within.pure _

theorem pickBody_tail {doc : PickDoc} {rows : List Row} {tail : Tail} (h : pickBody doc = .ok (rows, tail)) :
    tail = doc.tailRest ∨ tail = doc.tailAll := by
  unfold pickBody at h
  split at h
  · split at h
    · simp [raise] at h
    · simp [raise] at h
    · split at h
      · simp [pure, Except.pure] at h; exact Or.inl h.2.symm
      · simp [raise] at h
  · simp [pure, Except.pure] at h; exact Or.inr h.2.symm

theorem loadPicklistV_within (incr : Bool) (pl : Picklist) (doc : PickDoc) :
    Within (picklistClasses ++ pickIo doc) (loadPicklistV incr pl doc).res := by
  have own : ∀ c, c ∈ picklistClasses → c ∈ picklistClasses ++ pickIo doc := fun c h => List.mem_append.2 (Or.inl h)
  unfold loadPicklistV
  split
  · exact Within.raise (own _ (by simp [picklistClasses]))
  split
  · rename_i c hc
    exact Within.raise (List.mem_append.2 (Or.inr (by simp [pickIo, hc])))
  split
  · exact Within.raise (own _ (by simp [picklistClasses]))
  split
  · rename_i e he
    exact ((pickBody_within doc).mono (by
      intro c h
      rcases List.mem_append.1 h with h | h
      · exact own c h
      · exact List.mem_append.2 (Or.inr (by simp [pickIo, h])))).of_error he
  · rename_i rows tail hb
    have htl : ∀ c, c ∈ picklistClasses ++ tail.io → c ∈ picklistClasses ++ pickIo doc := by
      intro c h
      rcases List.mem_append.1 h with h | h
      · exact own c h
      · rcases pickBody_tail hb with rfl | rfl
        · exact List.mem_append.2 (Or.inr (by simp [pickIo, h]))
        · exact List.mem_append.2 (Or.inr (by simp [pickIo, h]))
    split
    · split
      · exact Within.raise (own _ (by simp [picklistClasses]))
      · rename_i c hc; exact Within.raise (htl _ (tailStop_pick hc))
    · split
      · exact Within.raise (own _ (by simp [picklistClasses]))
      · split
        · exact Within.raise (own _ (by simp [picklistClasses]))
        · exact (pickRows_within _ _ _ _ _ _).mono htl

theorem loadPicklist_within (pl : Picklist) (doc : PickDoc) : Within (picklistClasses ++ pickIo doc) (loadPicklist pl doc).res :=
  loadPicklistV_within _ pl doc

end Sm.CsvR

namespace Sm.JsonR

open Sm.Py Sm.CsvR

/-! ### SBT index reader -/

/-- classes the reader raises by its own decisions on the decoded document -/
def sbtOwnClasses : List Cls :=
  [.KeyError, .TypeError, .IndexNotSupported, .AttributeError, .IndexError, .ValueError, .ModuleNotFoundError,
   .FileNotFoundError, .IsADirectoryError, .UnicodeDecodeError, .JSONDecodeError, .RecursionError]

/-- classes the file system hands in (a failing `os.makedirs`, an unreadable manifest path) -/
def envClasses (f : SbtFile) : List Cls :=
  (match f.mkdirExc with | some c => [c] | none => []) ++
  (match f.manifest with | .fs (.unreadable c) => [c] | .content csv => docIo csv | _ => []) ++
  (match f.zip with | .raises c => [c] | _ => []) ++
  (match f.openExc with | some c => [c] | none => [])

def sbtClasses (f : SbtFile) : List Cls := sbtOwnClasses ++ envClasses f ++ manifestClassesV litCaught

theorem own_sub (f : SbtFile) : ∀ c, c ∈ sbtOwnClasses → c ∈ sbtClasses f := fun c h => by
  unfold sbtClasses; simp [h]

theorem loaderOf_within' (v : J) : Within [.TypeError, .IndexNotSupported] (loaderOf v) := by
  within_cases loaderOf

theorem kt_own : ∀ c ∈ [Cls.KeyError, Cls.TypeError], c ∈ sbtOwnClasses := by decide

theorem loaderOf_within (v : J) : Within sbtOwnClasses (loaderOf v) :=
  (loaderOf_within' v).mono (by decide)

theorem factoryArgs_within (x : J) : Within sbtOwnClasses (factoryArgs x) := by
  unfold factoryArgs
  refine Within.bind ((iter_within _).mono (by simp_all [sbtOwnClasses])) fun xs _ => ?_
  split
  · exact Within.pure _
  · exact Within.raise (by simp [sbtOwnClasses])

theorem nodeLoad_within (n : J) : Within sbtOwnClasses (nodeLoad n) := by
  unfold nodeLoad
  split
  · refine Within.bind ((getKey_within _ _).mono (by simp_all [sbtOwnClasses])) fun _ _ => ?_
    exact Within.bind ((getKey_within _ _).mono (by simp_all [sbtOwnClasses])) fun _ _ => Within.pure _
  · exact Within.raise (by simp [sbtOwnClasses])

theorem leafLoad_within (n : J) : Within sbtOwnClasses (leafLoad n) := by
  unfold leafLoad
  refine Within.bind ((getKey_within _ _).mono (by simp_all [sbtOwnClasses])) fun _ _ => ?_
  refine Within.bind ((getKey_within _ _).mono (by simp_all [sbtOwnClasses])) fun _ _ => ?_
  exact Within.bind ((getKey_within _ _).mono (by simp_all [sbtOwnClasses])) fun _ _ => Within.pure _

theorem nodeOrLeaf_within (n : J) : Within sbtOwnClasses (nodeOrLeaf n) := by
  unfold nodeOrLeaf
  refine Within.bind ((getKey_within _ _).mono (by simp_all [sbtOwnClasses])) fun nm _ => ?_
  refine Within.bind ((strIn_within _ _).mono (by simp_all [sbtOwnClasses])) fun b _ => ?_
  split
  · exact Within.bind ((getKey_within _ _).mono (by simp_all [sbtOwnClasses])) fun _ _ => Within.pure _
  · exact Within.bind (leafLoad_within _) fun _ _ => Within.pure _

theorem mixedLoop_within (sk : Bool) (l : List (Int × J)) (ns ls : List Int) (mx : Int) (w : Nat) :
    Within sbtOwnClasses (mixedLoop sk l ns ls mx w).res := by
  induction l generalizing ns ls mx w with
  | nil => exact Within.pure _
  | cons kv rest ih =>
    obtain ⟨k, node⟩ := kv
    unfold mixedLoop
    split
    · exact ih _ _ _ _
    · split
      · rename_i e he; exact (nodeOrLeaf_within _).of_error he
      · exact ih _ _ _ _
      · exact ih _ _ _ _

theorem loopAll_within {g : J → R Unit} (hg : ∀ n, Within sbtOwnClasses (g n)) (l : List (Int × J)) (mx : Int) (w : Nat) :
    Within sbtOwnClasses (loopAll g l mx w).res := by
  induction l generalizing mx w with
  | nil => exact Within.pure _
  | cons kv rest ih =>
    obtain ⟨k, node⟩ := kv
    unfold loopAll
    split
    · rename_i e he; exact (hg _).of_error he
    · exact ih _ _

theorem sampleFile_within (f : SbtFile) (x : J) : Within sbtOwnClasses (sampleFile f x) := by
  unfold sampleFile
  refine Within.bind ((getKey_within _ _).mono (by simp_all [sbtOwnClasses])) fun fnm _ => ?_
  split
  · split
    any_goals exact Within.raise (by simp [sbtOwnClasses])
    exact Within.decline _
  · exact Within.raise (by simp [sbtOwnClasses])

theorem v1Check_within (f : SbtFile) (doc : J) : Within sbtOwnClasses (v1Check f doc) := by
  unfold v1Check
  refine Within.bind ((getIdx_within _ _).mono (by simp_all [sbtOwnClasses])) fun x _ => ?_
  split
  · exact Within.raise (by simp [sbtOwnClasses])
  · exact sampleFile_within _ _

theorem v2Check_within (f : SbtFile) (nodes : List (Int × J)) : Within sbtOwnClasses (v2Check f nodes) := by
  unfold v2Check
  split
  · exact Within.raise (by simp [sbtOwnClasses])
  · exact Within.raise (by simp [sbtOwnClasses])
  · exact sampleFile_within _ _

theorem intTable_within (doc : J) (key : List Char) : Within sbtOwnClasses (intTable doc key) := by
  unfold intTable
  refine Within.bind ((getKey_within _ _).mono (by simp_all [sbtOwnClasses])) fun n _ => ?_
  refine Within.bind ((items_within _).mono (by simp_all [sbtOwnClasses])) fun kvs _ => ?_
  exact Within.bind ((intKeyed_within _).mono (by simp_all [sbtOwnClasses])) fun c _ => Within.pure _

theorem factoryOf_within (doc : J) : Within sbtOwnClasses (factoryOf doc) := by
  unfold factoryOf
  refine Within.bind ((getKey_within _ _).mono (by simp_all [sbtOwnClasses])) fun fa _ => ?_
  refine Within.bind ((getKey_within _ _).mono (by simp_all [sbtOwnClasses])) fun a _ => ?_
  exact factoryArgs_within _

theorem failRun_within {α : Type} {L : List Cls} {x : R α} (hx : Within L x) {β : Type} {e : Stop} (h : x = .error e) (w : Nat) :
    Within L (failRun (α := β) e w).res := hx.of_error h

theorem loadV34_within (v : Nat) (doc : J) (nodes : List (Int × J)) (w0 : Nat) :
    Within sbtOwnClasses (loadV34 v doc nodes w0).res := by
  unfold loadV34
  split
  · exact Within.raise (by simp [sbtOwnClasses])
  split
  · rename_i e he; exact failRun_within (factoryOf_within doc) he _
  split
  · rename_i e he; exact failRun_within (mixedLoop_within _ _ _ _ _ _) he _
  split
  · rename_i e he; exact failRun_within ((getKey_within _ _).mono (by simp_all [sbtOwnClasses])) he _
  split
  · exact Within.decline _
  · exact Within.pure _

theorem loadV56_within (v : Nat) (doc : J) (nodes : List (Int × J)) (w0 : Nat) :
    Within sbtOwnClasses (loadV56 v doc nodes w0).res := by
  unfold loadV56
  split
  · rename_i e he; exact failRun_within (intTable_within doc _) he _
  split
  · exact Within.raise (by simp [sbtOwnClasses])
  split
  · rename_i e he; exact failRun_within (factoryOf_within doc) he _
  split
  · rename_i e he; exact failRun_within (loopAll_within nodeLoad_within _ _ _) he _
  split
  · rename_i e he; exact failRun_within (loopAll_within leafLoad_within _ _ _) he _
  split
  · rename_i e he; exact failRun_within ((getKey_within _ _).mono (by simp_all [sbtOwnClasses])) he _
  · exact Within.pure _

theorem runLoader_within (f : SbtFile) (v : Nat) (doc : J) : Within sbtOwnClasses (runLoader f v doc).res := by
  unfold runLoader
  split
  · split
    · rename_i e he; exact failRun_within (v1Check_within f doc) he _
    · exact Within.decline _
  split
  · rename_i e he; exact failRun_within (intTable_within doc _) he _
  split
  · split
    · rename_i e he; exact failRun_within (v2Check_within f _) he _
    · exact Within.decline _
  split
  · exact loadV34_within _ _ _ _
  · exact loadV56_within _ _ _ _

theorem pickStorage_within (f : SbtFile) (doc : J) : Within (sbtOwnClasses ++ envClasses f) (pickStorage f doc) := by
  have own : ∀ c, c ∈ sbtOwnClasses → c ∈ sbtOwnClasses ++ envClasses f := fun c h => List.mem_append.2 (Or.inl h)
  unfold pickStorage
  refine Within.bind ((getKey_within _ _).mono (fun c h => own c (kt_own c h))) fun st _ => ?_
  refine Within.bind ((getKey_within _ _).mono (fun c h => own c (kt_own c h))) fun be _ => ?_
  split
  · exact Within.raise (own _ (by simp [sbtOwnClasses]))
  split
  · split
    · exact Within.raise (own _ (by simp [sbtOwnClasses]))
    refine Within.bind ((getKey_within _ _).mono (fun c h => own c (kt_own c h))) fun args _ => ?_
    split
    · refine Within.bind ((getKey_within _ _).mono (fun c h => own c (kt_own c h))) fun p _ => ?_
      split
      · split
        · rename_i c hc
          exact Within.raise (List.mem_append.2 (Or.inr (by simp [envClasses, hc])))
        · exact Within.pure _
      · exact Within.raise (own _ (by simp [sbtOwnClasses]))
    · split
      · exact Within.raise (own _ (by simp [sbtOwnClasses]))
      split
      · exact Within.decline _
      split
      · exact Within.decline _
      · exact Within.raise (own _ (by simp [sbtOwnClasses]))
  · exact Within.raise (own _ (by simp [sbtOwnClasses]))

theorem manifestPath_within (doc : J) : Within sbtOwnClasses (manifestPath doc) := by
  unfold manifestPath
  refine Within.bind ((strIn_within _ _).mono (by simp_all [sbtOwnClasses])) fun b _ => ?_
  split
  · exact Within.bind ((getKey_within _ _).mono (by simp_all [sbtOwnClasses])) fun _ _ => Within.pure _
  · exact Within.pure _

theorem attachManifest_within {lit : Cell → Lit} (hl : LitOk lit) (f : SbtFile) (p : J) :
    Within (sbtClasses f) (attachManifest lit f p).res := by
  unfold attachManifest
  split
  · split <;> exact Within.raise (own_sub f _ (by simp [sbtOwnClasses]))
  · split
    · exact Within.raise (own_sub f _ (by simp [sbtOwnClasses]))
    · exact Within.raise (own_sub f _ (by simp [sbtOwnClasses]))
    · rename_i c hc
      exact Within.raise (by unfold sbtClasses; simp [envClasses, hc])
    · exact Within.decline _
    · exact Within.raise (own_sub f _ (by simp [sbtOwnClasses]))
    · split
      · rename_i e he
        rename_i csv hcsv _
        exact ((loadManifestV_within (caught := litCaught) hl _).mono (by
          intro c h
          unfold sbtClasses
          rcases List.mem_append.1 h with h | h
          · simp [h]
          · have : c ∈ envClasses f := by simp [envClasses, hcsv, h]
            simp [this])).of_error he
      · exact Within.pure _
  · exact Within.raise (own_sub f _ (by simp [sbtOwnClasses]))

theorem loadSbtDoc_within {lit : Cell → Lit} (hl : LitOk lit) (f : SbtFile) (doc : J) :
    Within (sbtClasses f) (loadSbtDoc lit f doc).res := by
  unfold loadSbtDoc
  split
  · rename_i e he
    refine failRun_within (x := sbtVersion doc) ?_ he _
    unfold sbtVersion
    split
    · exact (getKey_within _ _).mono (fun c h => own_sub f c (kt_own c h))
    · exact Within.pure _
  split
  · rename_i e he; exact failRun_within ((loaderOf_within _).mono (own_sub f)) he _
  split
  · rename_i e he
    refine failRun_within (x := storageFor f _ doc) ?_ he _
    unfold storageFor
    split
    · exact Within.pure _
    · exact (pickStorage_within f doc).mono (by
        intro c h
        unfold sbtClasses
        rcases List.mem_append.1 h with h | h
        · simp [h]
        · simp [h])
  split
  · rename_i e he; exact failRun_within ((runLoader_within f _ doc).mono (own_sub f)) he _
  split
  · rename_i e he; exact failRun_within ((manifestPath_within doc).mono (own_sub f)) he _
  · exact Within.pure _
  · split
    · rename_i e he; exact failRun_within (attachManifest_within hl f _) he _
    · exact Within.pure _

theorem loadSbt_within {lit : Cell → Lit} (hl : LitOk lit) (f : SbtFile) : Within (sbtClasses f) (loadSbt lit f).res := by
  unfold loadSbt
  split
  · rename_i c hc
    exact Within.raise (by unfold sbtClasses; simp [envClasses, hc])
  split
  · rename_i c hc
    split
    · exact Within.raise (own_sub f _ (by simp [sbtOwnClasses]))
    · exact Within.raise (by unfold sbtClasses; simp [envClasses, hc])
  split
  any_goals exact Within.raise (own_sub f _ (by simp [sbtOwnClasses]))
  exact loadSbtDoc_within hl f _

end Sm.JsonR

/-! ### work (loop iterations) -/

namespace Sm.CsvR

open Sm.Py

theorem loadRows_work (caught : List Cls) (lit : Cell → Lit) (fields : List Cell) (tail : Tail) (rows : List Row) (acc : List MfRow) (w : Nat) :
    (loadRows caught lit fields tail rows acc w).work ≤ w + rows.length + 1 := by
  induction rows generalizing acc w with
  | nil => unfold loadRows; split <;> simp
  | cons r rest ih =>
    cases r with
    | nil =>
      unfold loadRows
      have := ih acc (w + 1)
      simp only [List.length_cons]; omega
    | cons c cs =>
      unfold loadRows
      split
      · rename_i r _
        have := ih (r :: acc) (w + 1)
        simp only [List.length_cons]; omega
      · simp only [List.length_cons]; omega

/-- the manifest reader makes at most one pass over the rows (plus the fixed header checks) -/
theorem loadManifestV_work (caught : List Cls) (lit : Cell → Lit) (doc : CsvDoc) :
    (loadManifestV caught lit doc).work ≤ doc.rows.length + requiredKeys.length + 2 := by
  unfold loadManifestV
  split
  · simp
  · simp
  · simp only []
    split
    · simp
    split
    · simp
    split
    · simp
    · simp
    · split
      · split <;> simp
      · rename_i fields rest hrows
        split
        · simp
        · split
          · simp [hrows]; omega
          · have := loadRows_work caught lit fields doc.tail rest [] (1 + requiredKeys.length)
            simp [hrows]; omega

theorem loadManifest_work (lit : Cell → Lit) (doc : CsvDoc) :
    (loadManifest lit doc).work ≤ doc.rows.length + requiredKeys.length + 2 :=
  loadManifestV_work _ lit doc

theorem pickRows_work (pl : Picklist) (fields : List Cell) (tail : Tail) (rows : List Row) (acc : PickResult) (w : Nat) :
    (pickRows pl fields tail rows acc w).work ≤ w + rows.length + 1 := by
  induction rows generalizing acc w with
  | nil => unfold pickRows; split <;> simp
  | cons r rest ih =>
    cases r with
    | nil =>
      unfold pickRows
      have := ih acc (w + 1)
      simp only [List.length_cons]; omega
    | cons c cs =>
      unfold pickRows
      split
      · simp only [List.length_cons]; omega
      · have := ih { acc with nEmpty := acc.nEmpty + 1 } (w + 1)
        simp only [List.length_cons]; omega
      · split
        · rename_i v _ _
          have := ih { acc with dups := if acc.dups.contains v then acc.dups else acc.dups ++ [v] } (w + 1)
          simp only [List.length_cons]; omega
        · rename_i v _ _
          have := ih { acc with pickset := acc.pickset ++ [v] } (w + 1)
          simp only [List.length_cons]; omega

theorem pickBody_rows {doc : PickDoc} {rows : List Row} {tail : Tail} (h : pickBody doc = .ok (rows, tail)) :
    rows.length ≤ doc.rowsRest.length + doc.rowsAll.length := by
  unfold pickBody at h
  split at h
  · split at h
    · simp [raise] at h
    · simp [raise] at h
    · split at h
      · simp [pure, Except.pure] at h; rw [← h.1]; omega
      · simp [raise] at h
  · simp [pure, Except.pure] at h; rw [← h.1]; omega

/-- the picklist reader makes at most one pass over the rows -/
theorem loadPicklistV_work (incr : Bool) (pl : Picklist) (doc : PickDoc) :
    (loadPicklistV incr pl doc).work ≤ doc.rowsRest.length + doc.rowsAll.length + 2 := by
  unfold loadPicklistV
  split
  · simp
  split
  · simp
  split
  · simp
  split
  · simp
  · rename_i rows tail hb
    have hlen := pickBody_rows hb
    split
    · split <;> simp
    · rename_i fields rest
      split
      · simp
      · split
        · simp
        · have := pickRows_work pl fields tail rest ⟨0, [], []⟩ 1
          simp only [List.length_cons] at hlen
          omega

theorem loadPicklist_work (pl : Picklist) (doc : PickDoc) :
    (loadPicklist pl doc).work ≤ doc.rowsRest.length + doc.rowsAll.length + 2 :=
  loadPicklistV_work _ pl doc

end Sm.CsvR

namespace Sm.JsonR

open Sm.Py Sm.CsvR

theorem bind_ok {α β : Type} {x : R α} {f : α → R β} {b : β} (h : (x >>= f) = .ok b) : ∃ a, x = .ok a ∧ f a = .ok b := by
  cases x with
  | error e => cases h
  | ok a => exact ⟨a, rfl, h⟩

theorem iter_length {v : J} {xs : List J} (h : iter v = .ok xs) : xs.length ≤ v.size := by
  unfold iter at h
  split at h
  · simp [pure, Except.pure] at h; subst h
    rename_i ys
    have : ∀ l : List J, l.length ≤ sizeL l := by
      intro l
      induction l with
      | nil => simp [sizeL]
      | cons y ys ih =>
        have : 1 ≤ y.size := by cases y <;> simp [J.size] <;> omega
        simp [sizeL]; omega
    have := this ys
    simp [J.size]; omega
  · simp [pure, Except.pure] at h; subst h; simp [J.size]
  · simp [pure, Except.pure] at h; subst h
    rename_i kvs
    have : ∀ l : List (List Char × J), l.length ≤ sizeO l := by
      intro l
      induction l with
      | nil => simp [sizeO]
      | cons y ys ih => obtain ⟨k, v⟩ := y; simp [sizeO]; omega
    have := this kvs
    simp [J.size]; omega
  · simp [raise] at h

theorem length_le_sizeO (l : List (List Char × J)) : l.length ≤ sizeO l := by
  induction l with
  | nil => simp [sizeO]
  | cons y ys ih => obtain ⟨k, v⟩ := y; simp [sizeO]; omega

theorem taxlist_length : taxlist.length = 8 := by decide

theorem lidEntry_work {k : List Char} {v : J} {i : Int} {dw : Nat} (h : lidEntry k v = .ok (i, dw)) : dw ≤ 9 + v.size := by
  unfold lidEntry at h
  obtain ⟨xs, hxs, h⟩ := bind_ok h
  obtain ⟨ps, _, h⟩ := bind_ok h
  obtain ⟨j, _, h⟩ := bind_ok h
  split at h
  · simp [raise] at h
  · simp [pure, Except.pure] at h
    have := iter_length hxs
    rw [taxlist_length] at h
    omega

theorem lidEntries_work (l : List (List Char × J)) (acc : List Int) (w : Nat) :
    (lidEntries l acc w).work ≤ w + 10 * sizeO l := by
  induction l generalizing acc w with
  | nil => simp [lidEntries]
  | cons kv rest ih =>
    obtain ⟨k, v⟩ := kv
    unfold lidEntries
    split
    · rename_i i dw he
      have h1 := lidEntry_work he
      have h2 := ih (i :: acc) (w + dw)
      simp only [sizeO]; omega
    · simp only [sizeO]; omega

theorem hashEntry_work {k : List Char} {v : J} {i : Int} {dw : Nat} (h : hashEntry k v = .ok (i, dw)) : dw ≤ 1 + v.size := by
  unfold hashEntry at h
  obtain ⟨xs, hxs, h⟩ := bind_ok h
  split at h
  · simp [raise] at h
  · obtain ⟨j, _, h⟩ := bind_ok h
    simp [pure, Except.pure] at h
    have := iter_length hxs
    omega

theorem hashEntries_work (l : List (List Char × J)) (acc : List Int) (w : Nat) :
    (hashEntries l acc w).work ≤ w + 2 * sizeO l := by
  induction l generalizing acc w with
  | nil => simp [hashEntries]
  | cons kv rest ih =>
    obtain ⟨k, v⟩ := kv
    unfold hashEntries
    split
    · rename_i i dw he
      have h1 := hashEntry_work he
      have h2 := ih (i :: acc) (w + dw)
      simp only [sizeO]; omega
    · simp only [sizeO]; omega

theorem lookup_size {k : List Char} {kvs : List (List Char × J)} {v : J} (h : lookup k kvs = some v) : v.size ≤ sizeO kvs := by
  induction kvs with
  | nil => simp [lookup] at h
  | cons kv rest ih =>
    obtain ⟨k', v'⟩ := kv
    unfold lookup at h
    split at h
    · simp at h; subst h; simp [sizeO]; omega
    · have := ih h; simp [sizeO]; omega

/-- the entries of a dict stored under a key of the document are no bigger than the document -/
theorem lcaItems_size {d : J} {k : List Char} {l : List (List Char × J)} (h : lcaItems d k = .ok l) : sizeO l + 2 ≤ d.size := by
  unfold lcaItems at h
  obtain ⟨v, hv, h⟩ := bind_ok h
  obtain ⟨kvs, hd, hl⟩ := getKey_ok_obj hv
  unfold items at h
  split at h
  · simp [pure, Except.pure] at h; subst h
    have := lookup_size hl
    subst hd
    simp [J.size] at this ⊢; omega
  · simp [raise] at h

theorem intKeyed_length {l : List (List Char × J)} {r : List (Int × J)} (h : intKeyed l = .ok r) : r.length ≤ l.length := by
  induction l generalizing r with
  | nil => simp [intKeyed, pure, Except.pure] at h; subst h; simp
  | cons kv rest ih =>
    obtain ⟨k, v⟩ := kv
    unfold intKeyed at h
    obtain ⟨i, _, h⟩ := bind_ok h
    obtain ⟨r', hr', h⟩ := bind_ok h
    have := ih hr'
    split at h
    · simp [pure, Except.pure] at h; subst h
      have hf : (r'.filter (fun q => q.1 != i)).length ≤ r'.length := List.length_filter_le _ _
      simp only [List.length_cons]; omega
    · simp [pure, Except.pure] at h; subst h
      simp only [List.length_cons]; omega

theorem lcaTail_keys {d : J} {keys : List Int} {a b : Option Int} (h : lcaTail d = .ok (keys, a, b)) : keys.length + 2 ≤ d.size := by
  unfold lcaTail at h
  obtain ⟨_, _, h⟩ := bind_ok h
  obtain ⟨_, _, h⟩ := bind_ok h
  obtain ⟨i2l, hi, h⟩ := bind_ok h
  obtain ⟨its, hits, h⟩ := bind_ok h
  obtain ⟨conv, hconv, h⟩ := bind_ok h
  obtain ⟨_, _, h⟩ := bind_ok h
  obtain ⟨_, _, h⟩ := bind_ok h
  simp [pure, Except.pure] at h
  have h1 := intKeyed_length hconv
  have h2 : sizeO its + 2 ≤ d.size := lcaItems_size (k := s "idx_to_lid") (by unfold lcaItems; rw [hi]; exact hits)
  have h3 := length_le_sizeO its
  rw [← h.1]; simp; omega

theorem topLevelKeys_le (d : J) : topLevelKeys d ≤ d.size := by
  unfold topLevelKeys
  split
  · rename_i kvs; have := length_le_sizeO kvs; simp [J.size]; omega
  · omega

/-- **the LCA reader does work linear in the size of the decoded document** -/
theorem loadLcaDoc_work (d : J) : (loadLcaDoc d).work ≤ 15 * d.size := by
  unfold loadLcaDoc
  split
  · simp
  split
  · simp
  split
  · simp
  · simp
  split
  · simp
  split
  · simp
  rename_i lids hl
  have hls := lcaItems_size hl
  have hw1 := lidEntries_work lids [] 0
  split
  · simp only []; omega
  split
  · simp only []; omega
  rename_i hvs hh
  have hhs := lcaItems_size hh
  have hw2 := hashEntries_work hvs [] (lidEntries lids [] 0).work
  split
  · simp only []; omega
  split
  · simp only []; omega
  · rename_i idxKeys ni nl ht
    have hk := lcaTail_keys ht
    have ht := topLevelKeys_le d
    simp only []; omega

end Sm.JsonR

namespace Sm.JsonR

open Sm.Py Sm.CsvR

theorem mixedLoop_work (sk : Bool) (l : List (Int × J)) (ns ls : List Int) (mx : Int) (w : Nat) :
    (mixedLoop sk l ns ls mx w).work ≤ w + l.length := by
  induction l generalizing ns ls mx w with
  | nil => simp [mixedLoop]
  | cons kv rest ih =>
    obtain ⟨k, node⟩ := kv
    unfold mixedLoop
    split
    · have := ih ns ls mx (w + 1); simp only [List.length_cons]; omega
    · split
      · simp only [List.length_cons]; omega
      · have := ih (k :: ns) ls (max mx k) (w + 1); simp only [List.length_cons]; omega
      · have := ih ns (k :: ls) (max mx k) (w + 1); simp only [List.length_cons]; omega

theorem loopAll_work (g : J → R Unit) (l : List (Int × J)) (mx : Int) (w : Nat) :
    (loopAll g l mx w).work ≤ w + l.length := by
  induction l generalizing mx w with
  | nil => simp [loopAll]
  | cons kv rest ih =>
    obtain ⟨k, node⟩ := kv
    unfold loopAll
    split
    · simp only [List.length_cons]; omega
    · have := ih (max mx k) (w + 1); simp only [List.length_cons]; omega

theorem intTable_size {doc : J} {key : List Char} {c : List (Int × J)} {n : Nat} (h : intTable doc key = .ok (c, n)) :
    c.length ≤ n ∧ n + 2 ≤ doc.size := by
  unfold intTable at h
  obtain ⟨v, hv, h⟩ := bind_ok h
  obtain ⟨kvs, hk, h⟩ := bind_ok h
  obtain ⟨c', hc, h⟩ := bind_ok h
  simp [pure, Except.pure] at h
  have h1 := intKeyed_length hc
  have h2 : sizeO kvs + 2 ≤ doc.size := lcaItems_size (k := key) (by unfold lcaItems; rw [hv]; exact hk)
  have h3 := length_le_sizeO kvs
  rw [← h.1, ← h.2]; omega

/-- the part of the work that the size of the document does NOT bound: `range(max_node)` -/
def rangePart {α : Type} (r : Run α) (mx : α → Int) : Nat :=
  match r.res with
  | .ok a => rangeWork (mx a)
  | .error _ => 0

theorem loadV34_work (v : Nat) (doc : J) (nodes : List (Int × J)) (w0 : Nat) :
    (loadV34 v doc nodes w0).work ≤ w0 + nodes.length + rangePart (loadV34 v doc nodes w0) (·.maxNode) := by
  have hm := mixedLoop_work (v == 3) nodes [] [] 0 w0
  unfold rangePart
  unfold loadV34
  split
  · simp [failRun]
  split
  · simp [failRun]
  split
  · simp only [failRun]; omega
  split
  · simp only [failRun]; omega
  split
  · simp only [failRun]; omega
  · simp only [pure, Except.pure]; omega

theorem loadV56_work (v : Nat) (doc : J) (nodes : List (Int × J)) (w0 : Nat) :
    (loadV56 v doc nodes w0).work ≤ w0 + nodes.length + 2 * doc.size + rangePart (loadV56 v doc nodes w0) (·.maxNode) := by
  unfold rangePart
  unfold loadV56
  split
  · simp [failRun]; omega
  rename_i leaves w1 hl
  have hs := intTable_size hl
  have h1 := loopAll_work nodeLoad nodes 0 (w0 + w1)
  split
  · simp only [failRun]; omega
  split
  · simp only [failRun]; omega
  split
  · simp only [failRun]; omega
  rename_i mx1 _
  have h2 := loopAll_work leafLoad leaves mx1 (loopAll nodeLoad nodes 0 (w0 + w1)).work
  split
  · simp only [failRun]; omega
  split
  · simp only [failRun]; omega
  · simp only [pure, Except.pure]; omega

theorem runLoader_work (f : SbtFile) (v : Nat) (doc : J) :
    (runLoader f v doc).work ≤ 4 * doc.size + rangePart (runLoader f v doc) (·.maxNode) := by
  unfold rangePart
  unfold runLoader
  split
  · split <;> simp [failRun]
  split
  · simp [failRun]
  rename_i nodes w0 hn
  have hs := intTable_size hn
  split
  · split <;> (simp only [failRun]; omega)
  split
  · have := loadV34_work v doc nodes w0
    unfold rangePart at this
    omega
  · have := loadV56_work v doc nodes w0
    unfold rangePart at this
    omega

/-- the work the attached manifest can cost -/
def manifestPart (f : SbtFile) : Nat :=
  match f.manifest with
  | .content csv => csv.rows.length + requiredKeys.length + 2
  | _ => 0

theorem attachManifest_work (lit : Cell → Lit) (f : SbtFile) (p : J) :
    (attachManifest lit f p).work ≤ manifestPart f := by
  unfold attachManifest
  split
  · split <;> simp
  · split
    any_goals simp
    rename_i csv hcsv
    have := loadManifest_work lit csv
    have hm : manifestPart f = csv.rows.length + requiredKeys.length + 2 := by simp [manifestPart, hcsv]
    split <;> (simp only []; omega)
  · simp

/-- the iterations of `range(max_node)` made by the version loader that runs on this document -/
def sbtRange (f : SbtFile) (doc : J) : Nat :=
  match sbtVersion doc with
  | .ok ver =>
    match loaderOf ver with
    | .ok v => rangePart (runLoader f v doc) (·.maxNode)
    | .error _ => 0
  | .error _ => 0

/-- **SBT.load: all the work is linear in the document and the attached manifest, except for the
    enumeration of `range(max_node)`** -/
theorem loadSbtDoc_work (lit : Cell → Lit) (f : SbtFile) (doc : J) :
    (loadSbtDoc lit f doc).work ≤ 4 * doc.size + manifestPart f + sbtRange f doc := by
  unfold loadSbtDoc
  split
  · simp [failRun]
  rename_i ver hver
  split
  · simp [failRun]
  rename_i v hv
  have hr := runLoader_work f v doc
  have hsr : sbtRange f doc = rangePart (runLoader f v doc) (·.maxNode) := by simp [sbtRange, hver, hv]
  split
  · simp [failRun]
  split
  · simp only [failRun]; omega
  split
  · simp only [failRun]; omega
  · simp only []; omega
  · rename_i p _
    have := attachManifest_work lit f p
    split <;> (simp only [failRun]; omega)

end Sm.JsonR

/-! ### accepted ⇒ structure -/

namespace Sm.CsvR

open Sm.Py
open Sm.JsonR (bind_ok)

/-- every loaded row is the conversion of a non-blank data row, in order, and the reader saw the end of the file -/
theorem loadRows_ok {caught : List Cls} {lit : Cell → Lit} {fields : List Cell} {tail : Tail} (rows : List Row) (acc : List MfRow) (w : Nat)
    {out : List MfRow} (h : (loadRows caught lit fields tail rows acc w).res = .ok out) :
    tail = .eof ∧ ∃ ms, out = acc.reverse ++ ms ∧
      (rows.filter (fun r => !r.isEmpty)).map (convertRow caught lit fields) = ms.map Except.ok := by
  induction rows generalizing acc w with
  | nil =>
    unfold loadRows at h
    split at h
    · rename_i hs
      simp [pure, Except.pure] at h
      refine ⟨?_, [], by simp [h], by simp⟩
      cases tail <;> simp [Tail.stop] at hs ⊢
    · simp [raise] at h
  | cons r rest ih =>
    cases r with
    | nil =>
      unfold loadRows at h
      obtain ⟨ht, ms, hout, hf⟩ := ih acc (w + 1) h
      exact ⟨ht, ms, hout, by simpa using hf⟩
    | cons c cs =>
      unfold loadRows at h
      split at h
      · rename_i m hm
        obtain ⟨ht, ms, hout, hf⟩ := ih (m :: acc) (w + 1) h
        refine ⟨ht, m :: ms, by simp [hout], ?_⟩
        simp only [List.filter_cons, List.isEmpty_cons, Bool.not_false, if_true, List.map_cons, hm, hf]
      · cases h

/-- **an accepted manifest**: the header carries every required column, the reader reached the end of the
    file without a decoder or csv error, and the result is exactly the conversion of the non-blank data rows -/
theorem loadManifest_ok {caught : List Cls} {lit : Cell → Lit} {doc : CsvDoc} {out : List MfRow} (h : (loadManifestV caught lit doc).res = .ok out) :
    ∃ fields rest, doc.rows = fields :: rest ∧ missingKey fields = false ∧ doc.tail = .eof ∧
      (rest.filter (fun r => !r.isEmpty)).map (convertRow caught lit fields) = out.map Except.ok := by
  unfold loadManifestV at h
  split at h
  · simp [raise] at h
  · simp [raise] at h
  · simp only [] at h
    split at h
    · simp [decline] at h
    split at h
    · simp [raise] at h
    split at h
    · cases h
    · simp [raise] at h
    · split at h
      · split at h <;> simp [raise] at h
      · rename_i fields rest hrows
        split at h
        · simp [raise] at h
        · split at h
          · simp [raise] at h
          · rename_i hmk
            obtain ⟨ht, ms, hout, hf⟩ := loadRows_ok rest [] _ h
            exact ⟨fields, rest, hrows, by simpa using hmk, ht, by simpa [hout] using hf⟩

theorem intCell_ok {v : Option (Option Cell)} {i : Int} (h : intCell v = .ok i) : ∃ c, v = some (some c) ∧ pyIntStr c = .ok i := by
  unfold intCell at h
  split at h
  · simp [raise] at h
  · simp [raise] at h
  · exact ⟨_, rfl, h⟩

/-- in an accepted row the four integer columns are present as cells (not `None`) and parse as Python ints -/
theorem convertRow_ok {caught : List Cls} {lit : Cell → Lit} {fields : List Cell} {row : Row} {m : MfRow} (h : convertRow caught lit fields row = .ok m) :
    ∀ k ∈ intCols, ∃ c i, cellOf fields row k = some (some c) ∧ pyIntStr c = .ok i := by
  unfold convertRow at h
  split at h
  · rename_i c1 c2 c3 c4 hcols
    obtain ⟨a, ha, h⟩ := bind_ok h
    obtain ⟨b, hb, h⟩ := bind_ok h
    obtain ⟨c, hc, h⟩ := bind_ok h
    obtain ⟨d, hd, h⟩ := bind_ok h
    intro k hk
    rw [hcols] at hk
    simp at hk
    rcases hk with rfl | rfl | rfl | rfl
    · obtain ⟨x, hx, hp⟩ := intCell_ok ha; exact ⟨x, a, hx, hp⟩
    · obtain ⟨x, hx, hp⟩ := intCell_ok hb; exact ⟨x, b, hx, hp⟩
    · obtain ⟨x, hx, hp⟩ := intCell_ok hc; exact ⟨x, c, hx, hp⟩
    · obtain ⟨x, hx, hp⟩ := intCell_ok hd; exact ⟨x, d, hx, hp⟩
  · simp [decline] at h

end Sm.CsvR

namespace Sm.JsonR

open Sm.Py

theorem getKey_ok_lookup {kvs : List (List Char × J)} {k : List Char} {v : J} (h : getKey (.obj kvs) k = .ok v) :
    lookup k kvs = some v := by
  obtain ⟨kvs', he, hl⟩ := getKey_ok_obj h
  injection he with he
  subst he
  exact hl

def lcaRequired : List (List Char) :=
  [s "ksize", s "scaled", s "lid_to_lineage", s "hashval_to_idx", s "ident_to_name", s "ident_to_idx", s "idx_to_lid"]

/-- **an accepted LCA database**: a JSON object whose `type` is the demanded string and which carries all
    seven keys the reader needs (a `version`/`license` key is NOT among them: `version` may be any number ≥ 2
    or numeric string, `license` is never looked at) -/
theorem loadLcaDoc_ok {d : J} {info : LcaInfo} (h : (loadLcaDoc d).res = .ok info) :
    ∃ kvs, d = .obj kvs ∧ isStr ((lookup (s "type") kvs).getD .null) (s Gen.c20LcaType) = true ∧
      ∀ k ∈ lcaRequired, (lookup k kvs).isSome = true := by
  unfold loadLcaDoc at h
  split at h
  · simp [raise] at h
  split at h
  · simp [raise] at h
  rename_i htype
  split at h
  · cases h
  · simp [raise] at h
  split at h
  · cases h
  rename_i ksize scaled hhdr
  split at h
  · cases h
  rename_i lids hlids
  split at h
  · cases h
  split at h
  · cases h
  rename_i hvs hhvs
  split at h
  · cases h
  split at h
  · cases h
  rename_i idxKeys ni nl htail
  -- the document is an object: `getKey d "ksize"` succeeded
  unfold lcaHeader at hhdr
  obtain ⟨kv, hk, hhdr⟩ := bind_ok hhdr
  obtain ⟨_, _, hhdr⟩ := bind_ok hhdr
  obtain ⟨scv, hsc, _⟩ := bind_ok hhdr
  obtain ⟨kvs, hd, hlk⟩ := getKey_ok_obj hk
  subst hd
  refine ⟨kvs, rfl, ?_, ?_⟩
  · simpa [getOrNull] using htype
  · have h2 := getKey_ok_lookup hsc
    unfold lcaItems at hlids hhvs
    obtain ⟨_, h3, _⟩ := bind_ok hlids
    obtain ⟨_, h4, _⟩ := bind_ok hhvs
    unfold lcaTail at htail
    obtain ⟨_, h5, htail⟩ := bind_ok htail
    obtain ⟨_, h6, htail⟩ := bind_ok htail
    obtain ⟨_, h7, _⟩ := bind_ok htail
    have h3 := getKey_ok_lookup h3
    have h4 := getKey_ok_lookup h4
    have h5 := getKey_ok_lookup h5
    have h6 := getKey_ok_lookup h6
    have h7 := getKey_ok_lookup h7
    intro k hk
    simp [lcaRequired] at hk
    rcases hk with rfl | rfl | rfl | rfl | rfl | rfl | rfl <;> simp [*]

end Sm.JsonR
