/-
C19 helper lemmas, part 9: the comparison of signed doubles is a strict weak order (`GoodLt f64`), the
classification loop when `check_values` clamps its values, and what float arg-max / float threshold
tests say about the exact fractions.
-/
import SmVerif.Lemmas.TaxFloat2
import SmVerif.Lemmas.TaxClassify

namespace Sm.Tax

open Sm.F64

set_option linter.unusedSectionVars false
set_option linter.unusedSimpArgs false
variable {ν : Type} [DecidableEq ν] {α : Type}

/-! ### the value of a signed double and its order -/

def sfQ (x : SF) : ℚ := if x.neg then -x.a.toQ else x.a.toQ

theorem toQ_eq_zero_iff (x : F) : x.toQ = 0 ↔ x.m = 0 := by
  constructor
  · intro h
    by_contra hm
    have := toQ_pos x (Nat.pos_of_ne_zero hm)
    linarith
  · exact toQ_zero_of_m x

/-- `SF.lt` decides the order of the values (−0.0 and +0.0 are equal) -/
theorem sf_lt_iff (x y : SF) : SF.lt x y = true ↔ sfQ x < sfQ y := by
  have hx := toQ_nonneg x.a
  have hy := toQ_nonneg y.a
  unfold SF.lt sfQ
  cases hxn : x.neg <;> cases hyn : y.neg <;> simp only [Bool.false_eq_true, if_false, if_true]
  · rw [Bool.not_eq_true', ← Bool.not_eq_true, ge_iff, not_le]
  · constructor
    · intro h; cases h
    · intro h; linarith
  · rw [Bool.not_eq_true', Bool.and_eq_false_iff]
    constructor
    · rintro (h | h)
      · have : x.a.m ≠ 0 := by simpa using h
        have := toQ_pos x.a (Nat.pos_of_ne_zero this); linarith
      · have : y.a.m ≠ 0 := by simpa using h
        have := toQ_pos y.a (Nat.pos_of_ne_zero this); linarith
    · intro h
      by_cases hm : x.a.m = 0
      · right
        have hx0 := toQ_zero_of_m x.a hm
        have : y.a.toQ ≠ 0 := by intro e; rw [hx0, e] at h; simp at h
        have : y.a.m ≠ 0 := fun e => this ((toQ_eq_zero_iff _).mpr e)
        simpa using this
      · left; simpa using hm
  · rw [Bool.not_eq_true', ← Bool.not_eq_true, ge_iff, not_le]
    constructor <;> intro h <;> linarith

theorem sf_lt_false_iff (x y : SF) : SF.lt x y = false ↔ sfQ y ≤ sfQ x := by
  rw [← Bool.not_eq_true, sf_lt_iff, not_lt]

/-- **`GoodLt f64`**: the binary64 comparison used for sorting and thresholds is a strict weak order -/
theorem f64_goodLt : GoodLt f64 := by
  refine ⟨?_, ?_, ?_⟩
  · intro a b c h1 h2
    have h1' := (sf_lt_iff a b).mp h1
    have h2' := (sf_lt_iff b c).mp h2
    exact (sf_lt_iff a c).mpr (lt_trans h1' h2')
  · intro a b h1 h2 c
    have h1' := (sf_lt_false_iff a b).mp h1
    have h2' := (sf_lt_false_iff b a).mp h2
    have he : sfQ a = sfQ b := le_antisymm h2' h1'
    show SF.lt a c = SF.lt b c
    cases hb : SF.lt b c with
    | true => rw [sf_lt_iff] at hb ⊢; rw [he]; exact hb
    | false => rw [sf_lt_false_iff] at hb ⊢; rw [he]; exact hb
  · intro a b h
    have h' := (sf_lt_iff a b).mp h
    exact (sf_lt_false_iff b a).mpr (le_of_lt h')

theorem sfQ_nonneg (x : SF) (h : x.neg = false) : sfQ x = x.a.toQ := by unfold sfQ; simp [h]

/-! ### the classification loop when the check clamps -/

/-- as `LoopSpec`, for a check that keeps `cf f`, `cf fw` (e.g. `min(·, 1.0)`) and a threshold the clamp does
not cross -/
def LoopSpecC (A : Arith α) (cf : α → α) (thr : α) (l : List (Nat × Tbl α ν)) (c : Option (Cls α ν)) : Prop :=
  ∃ pre post r t x st, l = pre ++ (r, t) :: post ∧
    c = some ⟨st, r, x.1, cf x.2.f, cf x.2.fw, x.2.bp⟩ ∧ x ∈ t ∧
    (∀ y ∈ t, A.lt x.2.f y.2.f = false) ∧
    (∀ p ∈ pre, ∀ y ∈ p.2, A.lt y.2.f thr = true) ∧
    ((st = .match_ ∧ A.lt x.2.f thr = false) ∨ (st = .below ∧ A.lt x.2.f thr = true ∧ post = []))

theorem classifyLoop_specC (A : Arith α) (hA : GoodLt A) (cf : α → α) (thr : α)
    (l : List (Nat × Tbl α ν)) (last : Option (Cls α ν))
    (hne : ∀ p ∈ l, p.2 ≠ [])
    (rp : Option (Repair α))
    (hchk : ∀ p ∈ l, ∀ x ∈ p.2, checkValues A rp x.2.f x.2.fw = .ok (cf x.2.f, cf x.2.fw) ∧
      A.lt (cf x.2.f) thr = A.lt x.2.f thr) :
    ∃ c, classifyLoop A rp (some thr) l last = .ok c ∧ ((l = [] ∧ c = last) ∨ LoopSpecC A cf thr l c) := by
  induction l generalizing last with
  | nil => exact ⟨last, rfl, Or.inl ⟨rfl, rfl⟩⟩
  | cons p rest ih =>
    obtain ⟨r, t⟩ := p
    have hne' : ∀ p ∈ rest, p.2 ≠ [] := fun p hp => hne p (List.mem_cons_of_mem _ hp)
    have hchk' : ∀ p ∈ rest, ∀ x ∈ p.2, checkValues A rp x.2.f x.2.fw = .ok (cf x.2.f, cf x.2.fw) ∧
        A.lt (cf x.2.f) thr = A.lt x.2.f thr :=
      fun p hp => hchk p (List.mem_cons_of_mem _ hp)
    have htne : t ≠ [] := hne (r, t) (List.mem_cons_self ..)
    cases hs : sortDesc A t with
    | nil =>
      have := (sortDesc_perm A t).length_eq
      rw [hs] at this
      exact absurd (List.length_eq_zero_iff.mp this.symm) htne
    | cons x tl =>
      obtain ⟨hx, hmax⟩ := sortDesc_head_max A hA t x tl hs
      obtain ⟨lin, a⟩ := x
      obtain ⟨hc, hcl⟩ := hchk (r, t) (List.mem_cons_self ..) (lin, a) hx
      simp only at hc hcl
      unfold classifyLoop
      simp only [hs, hc, statusOf, hcl]
      by_cases hlt : A.lt a.f thr = true
      · simp only [hlt, if_true]
        obtain ⟨c, hc1, hc2⟩ := ih (some ⟨Status.below, r, lin, cf a.f, cf a.fw, a.bp⟩) hne' hchk'
        refine ⟨c, hc1, Or.inr ?_⟩
        have hall : ∀ y ∈ t, A.lt y.2.f thr = true := by
          intro y hy
          have h1 := hmax y hy
          cases hyx : A.lt y.2.f a.f with
          | true => exact hA.trans _ _ _ hyx hlt
          | false =>
            have := hA.total _ _ h1 hyx thr
            simp only at this
            rw [← this]; exact hlt
        rcases hc2 with ⟨hnil, hcl'⟩ | ⟨pre, post, r', t', x', st, hl, hcx, hx', hmax', hpre, hst⟩
        · subst hnil
          exact ⟨[], [], r, t, (lin, a), Status.below, rfl, hcl', hx, hmax, by simp, Or.inr ⟨rfl, hlt, rfl⟩⟩
        · refine ⟨(r, t) :: pre, post, r', t', x', st, by rw [hl]; rfl, hcx, hx', hmax', ?_, hst⟩
          intro p hp
          rcases List.mem_cons.mp hp with hp | hp
          · subst hp; exact hall
          · exact hpre p hp
      · have hlt' : A.lt a.f thr = false := by simpa using hlt
        simp only [hlt', Bool.false_eq_true, if_false]
        simp only [show (Status.match_ = Status.below) = False from by simp, if_false]
        exact ⟨_, rfl, Or.inr ⟨[], rest, r, t, (lin, a), Status.match_, rfl, rfl, hx, hmax, by simp, Or.inl ⟨rfl, hlt'⟩⟩⟩

/-! ### the repaired check, with its values -/

/-- `min(x, 1.0)` -/
def clamp1 (x : SF) : SF := if f64.lt f64.one x = true then f64.one else x

theorem checkValuesR_val (p : Repair SF) (n : Nat) (hp : RepairF p n) (f fw : SF)
    (hf : PosD f) (hfle : f.a.toQ ≤ p.onePlus.a.toQ) (hfw : PosD fw) (hfwle : fw.a.toQ ≤ p.onePlus.a.toQ) :
    checkValues f64 (some p) f fw = .ok (clamp1 f, clamp1 fw) := by
  unfold checkValues clamp1
  simp only
  have h1 : f64.lt p.onePlus f = false := lt_nonneg_false _ _ hp.one_nonneg hf.1 hfle
  have h2 : f64.lt p.onePlus fw = false := lt_nonneg_false _ _ hp.one_nonneg hfw.1 hfwle
  simp only [h1, h2, Bool.or_self, Bool.false_eq_true, if_false]
  have hone : PosD SF.one := ⟨rfl, by decide⟩
  have hpos : ∀ x : SF, PosD x → PosD (if f64.lt f64.one x = true then f64.one else x) := by
    intro x hx; split
    · exact hone
    · exact hx
  have hle0 : ∀ x : SF, PosD x → f64.le x f64.zero = false := by
    intro x hx
    unfold Arith.le
    have : f64.lt f64.zero x = true := by
      show SF.lt SF.zero x = true
      rw [lt_nonneg _ _ rfl hx.1, zero_toQ]; exact toQ_pos _ hx.2
    simp [this]
  have hlt0 : ∀ x : SF, PosD x → f64.lt x f64.zero = false := by
    intro x hx
    show SF.lt x SF.zero = false
    apply lt_nonneg_false _ _ hx.1 rfl
    rw [zero_toQ]; exact toQ_nonneg _
  have a1 := hle0 _ (hpos f hf)
  have a2 := hle0 _ (hpos fw hfw)
  have a3 := hlt0 _ (hpos fw hfw)
  cases hs : p.strict <;> simp only [a1, a2, a3, if_true, Bool.or_self, Bool.false_eq_true, if_false]

/-- clamping at 1.0 does not change the comparison with a threshold that is at most 1.0 -/
theorem clamp1_lt_thr (f thr : SF) (hf : f.neg = false) (ht : thr.neg = false) (ht1 : thr.a.toQ ≤ 1) :
    f64.lt (clamp1 f) thr = f64.lt f thr := by
  unfold clamp1
  by_cases h : f64.lt f64.one f = true
  · simp only [h, if_true]
    have h1 : (1 : ℚ) < f.a.toQ := by
      have := (lt_nonneg SF.one f rfl hf).mp h
      rwa [one_toQ] at this
    have e1 : f64.lt f64.one thr = false :=
      lt_nonneg_false SF.one thr rfl ht (by rw [one_toQ]; exact ht1)
    have e2 : f64.lt f thr = false := lt_nonneg_false f thr hf ht (by linarith)
    rw [e1, e2]
  · simp only [h, Bool.false_eq_true, if_false]

/-! ### float arg-max versus exact arg-max -/

/-- if the double of lineage `L` is not below the double of `Y` (both within the `Bnd2` bounds after `n` rows), and
`3·n·N·2^-53 < 1`, then `L` holds at least as many hashes as `Y` — exactly -/
theorem exact_max_of_float_max (KL KY N n : Nat) (hN : 0 < N) (hKY : KY ≤ N) (x y : SF)
    (hx : Within KL N n x) (hy : Within KY N n y) (hge : SF.lt x y = false)
    (hsmall : 3 * (n : ℚ) * N * u < 1) : KY ≤ KL := by
  have hu := u_pos
  by_contra hcon
  have hlt : KL + 1 ≤ KY := by omega
  have hxy : y.a.toQ ≤ x.a.toQ := by
    have := (sf_lt_false_iff x y).mp hge
    rwa [sfQ_nonneg x hx.1.1, sfQ_nonneg y hy.1.1] at this
  have hNq : (0 : ℚ) < N := by exact_mod_cast hN
  have hn0 : (0 : ℚ) ≤ n := Nat.cast_nonneg n
  have h3 : 2 * (n : ℚ) * u ≤ 1 := by
    have : (1 : ℚ) ≤ N := by exact_mod_cast hN
    have : 2 * (n : ℚ) * u ≤ 3 * (n : ℚ) * N * u := by
      have : (0 : ℚ) ≤ (n : ℚ) * u := by positivity
      nlinarith
    linarith
  have hup := one_add_u_pow_le n h3
  have hdn := one_sub_u_pow_ge n
  -- KY/N (1-u)^n ≤ y ≤ x ≤ KL/N (1+u)^n
  have h1 : (KY : ℚ) / N * (1 - u) ^ n ≤ (KL : ℚ) / N * (1 + u) ^ n := le_trans hy.2.1 (le_trans hxy hx.2.2)
  have hKLq : (0 : ℚ) ≤ (KL : ℚ) / N := by positivity
  have hKYq : (0 : ℚ) ≤ (KY : ℚ) / N := by positivity
  have h2 : (KY : ℚ) / N * (1 - (n : ℚ) * u) ≤ (KL : ℚ) / N * (1 + 2 * n * u) :=
    le_trans (mul_le_mul_of_nonneg_left hdn hKYq) (le_trans h1 (mul_le_mul_of_nonneg_left hup hKLq))
  rw [div_mul_eq_mul_div, div_mul_eq_mul_div, div_le_div_iff_of_pos_right hNq] at h2
  have hKq : (KL : ℚ) + 1 ≤ KY := by exact_mod_cast hlt
  have hKYN : (KY : ℚ) ≤ N := by exact_mod_cast hKY
  have hKL0 : (0 : ℚ) ≤ KL := Nat.cast_nonneg KL
  -- (KL+1)(1 - nu) ≤ KL(1 + 2nu)  ⇒  1 ≤ nu(3 KL + 1) ≤ 3 n N u
  have hnu : (0 : ℚ) ≤ (n : ℚ) * u := by positivity
  have hnu1 : (n : ℚ) * u ≤ 1 := by linarith
  have h4 : ((KL : ℚ) + 1) * (1 - (n : ℚ) * u) ≤ (KY : ℚ) * (1 - (n : ℚ) * u) :=
    mul_le_mul_of_nonneg_right hKq (by linarith)
  have h5 : 1 ≤ (n : ℚ) * u * (3 * KL + 1) := by nlinarith
  have h6 : (n : ℚ) * u * (3 * KL + 1) ≤ (n : ℚ) * u * (3 * N) := by
    apply mul_le_mul_of_nonneg_left _ hnu
    linarith
  nlinarith

/-- a rank at which some row is counted has a non-empty table, in any arithmetic -/
theorem sumAtRank_ne_nil (A : Arith α) (rows : List (RowV α ν)) (r : Nat)
    (h : ∃ row ∈ rows, counted row r = true) : sumAtRank A rows r ≠ [] := by
  have : ∀ (rows : List (RowV α ν)) (t0 : Tbl α ν), (t0 ≠ [] ∨ ∃ row ∈ rows, counted row r = true) →
      rows.foldl (fun t row => if counted row r then bump A (popTo row.lin r) row t else t) t0 ≠ [] := by
    intro rows
    induction rows with
    | nil => intro t0 h; rcases h with h | ⟨_, h, _⟩; exact h; cases h
    | cons x xs ihx =>
      intro t0 h
      simp only [List.foldl_cons]
      apply ihx
      by_cases hcx : counted x r = true
      · left
        simp only [hcx, if_true]
        cases t0 with
        | nil => simp [bump]
        | cons y ys =>
          obtain ⟨k0, a0⟩ := y
          unfold bump
          split <;> simp
      · rcases h with h | ⟨row', hrow', hc'⟩
        · left; simp only [hcx]; simpa using h
        · rcases List.mem_cons.mp hrow' with he | he
          · subst he; exact absurd hc' hcx
          · right; exact ⟨row', he, hc'⟩
  exact this rows [] (Or.inr h)

end Sm.Tax
