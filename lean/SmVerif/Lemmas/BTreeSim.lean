/-
Helper lemmas for C14: the abstraction `BT.abs` from the tree-backed sketch to the
array-backed one, the representation invariant `BInv`, the bookkeeping invariant
`CmOk` (`current_max` is the largest retained hash of a num sketch), and, operation
by operation, `abs (op b) = op (abs b)`.
-/
import SmVerif.Lemmas.BTreeSet
import SmVerif.Lemmas.MinHashInv

namespace Sm

open MH

namespace BT

/-- the array-backed sketch a tree-backed one stands for: same parameters, `mins` in
iteration order, the map's values in key order, the same md5 cache -/
def abs (b : BT) : MH :=
  { num := b.num, maxHash := b.maxHash, ksize := b.ksize, seed := b.seed, hf := b.hf,
    mins := b.mins, abunds := b.abunds.map (fun ab => ab.map Prod.snd), md5 := b.md5 }

@[simp] theorem abs_num (b : BT) : b.abs.num = b.num := rfl
@[simp] theorem abs_maxHash (b : BT) : b.abs.maxHash = b.maxHash := rfl
@[simp] theorem abs_ksize (b : BT) : b.abs.ksize = b.ksize := rfl
@[simp] theorem abs_seed (b : BT) : b.abs.seed = b.seed := rfl
@[simp] theorem abs_hf (b : BT) : b.abs.hf = b.hf := rfl
@[simp] theorem abs_mins (b : BT) : b.abs.mins = b.mins := rfl
@[simp] theorem abs_md5 (b : BT) : b.abs.md5 = b.md5 := rfl
theorem abs_abunds (b : BT) : b.abs.abunds = b.abunds.map (fun ab => ab.map Prod.snd) := rfl

@[simp] theorem abs_setCm (b : BT) (c : Nat) : ({ b with currentMax := c } : BT).abs = b.abs := rfl

@[simp] theorem abs_trackAbundance (b : BT) : b.abs.trackAbundance = b.trackAbundance := by
  simp [MH.trackAbundance, BT.trackAbundance, abs]

@[simp] theorem abs_scaled (b : BT) : b.abs.scaled = b.scaled := rfl

end BT

/-- representation invariant of the tree-backed sketch: the array it stands for is a
valid array-backed sketch and the map is keyed by exactly the retained hashes -/
structure BInv (b : BT) : Prop where
  inv : Inv b.abs
  keys : ∀ m, b.abunds = some m → m.map Prod.fst = b.mins

/-- `current_max` bookkeeping is right: on a num sketch it is the largest retained hash
(a scaled sketch never consults it; on an empty sketch the next add overwrites it) -/
def CmOk (b : BT) : Prop := b.num ≠ 0 → b.mins ≠ [] → b.currentMax = lastOr b.mins 0

theorem BInv.sorted {b : BT} (hb : BInv b) : Sorted b.mins := hb.inv.sorted

theorem BInv.keysSorted {b : BT} (hb : BInv b) {m : List (Nat × Nat)} (hm : b.abunds = some m) :
    Sorted (m.map Prod.fst) := by
  rw [hb.keys m hm]; exact hb.sorted

/-- the pair list of the array the tree stands for is the map itself -/
theorem BInv.pairs_abs {b : BT} (hb : BInv b) : b.abs.pairs = b.toVecAbunds := by
  unfold MH.pairs BT.toVecAbunds
  rw [BT.abs_abunds]
  cases hab : b.abunds with
  | none => rfl
  | some m =>
    simp only [Option.map_some, BT.abs_mins]
    rw [← hb.keys m hab]
    exact zip_map_fst_snd m

/-! ### new / clear / md5 / clone -/

theorem abs_new (sc k hf seed : Nat) (tr : Bool) (n : Nat) :
    (BT.new sc k hf seed tr n).abs = MH.new sc k hf seed tr n := by
  cases tr <;> rfl

theorem binv_new (sc k hf seed : Nat) (tr : Bool) (n : Nat) : BInv (BT.new sc k hf seed tr n) := by
  refine ⟨by rw [abs_new]; exact inv_new .., ?_⟩
  intro m hm
  cases tr <;> simp [BT.new] at hm ⊢
  exact hm.symm ▸ rfl

theorem cmOk_new (sc k hf seed : Nat) (tr : Bool) (n : Nat) : CmOk (BT.new sc k hf seed tr n) := by
  intro _ h; exact absurd rfl h

theorem abs_clear (b : BT) : b.clear.abs = b.abs.clear := by
  obtain ⟨num, maxHash, ksize, seed, hf, mins, abunds, cm, md5⟩ := b
  cases abunds <;> rfl

theorem binv_clear {b : BT} (hb : BInv b) : BInv b.clear := by
  refine ⟨by rw [abs_clear]; exact inv_clear hb.inv, ?_⟩
  intro m hm
  obtain ⟨num, maxHash, ksize, seed, hf, mins, abunds, cm, md5⟩ := b
  cases abunds <;> simp [BT.clear] at hm ⊢
  exact hm.symm ▸ rfl

theorem cmOk_clear (b : BT) : CmOk b.clear := by
  intro _ h; exact absurd rfl h

theorem abs_md5sum (b : BT) : b.md5sum.1.abs = b.abs.md5sum.1 ∧ b.md5sum.2 = b.abs.md5sum.2 := by
  obtain ⟨num, maxHash, ksize, seed, hf, mins, abunds, cm, md5⟩ := b
  cases md5 <;> exact ⟨rfl, rfl⟩

theorem md5sum_fields_bt (b : BT) :
    b.md5sum.1.mins = b.mins ∧ b.md5sum.1.abunds = b.abunds ∧ b.md5sum.1.num = b.num ∧
    b.md5sum.1.maxHash = b.maxHash ∧ b.md5sum.1.currentMax = b.currentMax := by
  obtain ⟨num, maxHash, ksize, seed, hf, mins, abunds, cm, md5⟩ := b
  cases md5 <;> simp [BT.md5sum]

theorem binv_md5sum {b : BT} (hb : BInv b) : BInv b.md5sum.1 := by
  refine ⟨by rw [(abs_md5sum b).1]; exact inv_md5sum hb.inv, ?_⟩
  obtain ⟨h1, h2, _⟩ := md5sum_fields_bt b
  intro m hm
  rw [h1]; rw [h2] at hm; exact hb.keys m hm

theorem cmOk_md5sum {b : BT} (hc : CmOk b) : CmOk b.md5sum.1 := by
  obtain ⟨h1, _, h3, _, h5⟩ := md5sum_fields_bt b
  unfold CmOk
  rw [h1, h3, h5]; exact hc

theorem abs_clone (b : BT) : b.clone.1.abs = b.abs.clone.1 ∧ b.clone.2.abs = b.abs.clone.2 := by
  obtain ⟨num, maxHash, ksize, seed, hf, mins, abunds, cm, md5⟩ := b
  cases md5 <;> exact ⟨rfl, rfl⟩

theorem clone_fields_bt (b : BT) :
    (b.clone.1.mins = b.mins ∧ b.clone.1.abunds = b.abunds ∧ b.clone.1.num = b.num ∧
      b.clone.1.currentMax = b.currentMax) ∧
    (b.clone.2.mins = b.mins ∧ b.clone.2.abunds = b.abunds ∧ b.clone.2.num = b.num ∧
      b.clone.2.currentMax = b.currentMax) := by
  obtain ⟨num, maxHash, ksize, seed, hf, mins, abunds, cm, md5⟩ := b
  cases md5 <;> simp [BT.clone, BT.md5sum]

theorem binv_clone {b : BT} (hb : BInv b) : BInv b.clone.1 ∧ BInv b.clone.2 := by
  obtain ⟨⟨h1, h2, _⟩, ⟨h3, h4, _⟩⟩ := clone_fields_bt b
  have hi := inv_clone hb.inv
  refine ⟨⟨by rw [(abs_clone b).1]; exact hi.1, ?_⟩, ⟨by rw [(abs_clone b).2]; exact hi.2, ?_⟩⟩
  · intro m hm; rw [h1]; rw [h2] at hm; exact hb.keys m hm
  · intro m hm; rw [h3]; rw [h4] at hm; exact hb.keys m hm

theorem cmOk_clone {b : BT} (hc : CmOk b) : CmOk b.clone.1 ∧ CmOk b.clone.2 := by
  obtain ⟨⟨h1, _, h3, h4⟩, ⟨h5, _, h7, h8⟩⟩ := clone_fields_bt b
  unfold CmOk
  rw [h1, h3, h4, h5, h7, h8]; exact ⟨hc, hc⟩

/-! ### remove_hash -/

theorem MH.removeHash_of_mem {s : MH} (hs : Sorted s.mins) {h : Nat} (hm : h ∈ s.mins) :
    s.removeHash h =
      { s with mins := s.mins.eraseIdx (lowerBound s.mins h),
               abunds := s.abunds.map (fun ab => ab.eraseIdx (lowerBound s.mins h)),
               md5 := none } := by
  unfold MH.removeHash
  have : findPos s.mins h = some (lowerBound s.mins h) :=
    findPos_eq_some_iff.2 ⟨rfl, (getElem?_lowerBound_iff_mem hs h).2 hm⟩
  simp only [this]

theorem MH.removeHash_of_not_mem {s : MH} (hs : Sorted s.mins) {h : Nat} (hm : h ∉ s.mins) :
    s.removeHash h = s := by
  unfold MH.removeHash
  have : findPos s.mins h = none :=
    findPos_eq_none_iff.2 (fun e => hm ((getElem?_lowerBound_iff_mem hs h).1 e))
  simp only [this]

/-- `remove_hash` before its `current_max` refresh -/
def BT.rmCore (b : BT) (h : Nat) : BT :=
  if b.mins.contains h then
    { b with mins := BSet.remove h b.mins, abunds := b.abunds.map (BMap.remove h), md5 := none }
  else b

theorem BT.removeHash_eq (b : BT) (h : Nat) :
    b.removeHash h =
      if h = (b.rmCore h).currentMax then
        { b.rmCore h with currentMax := BT.lastOr0 (b.rmCore h).mins }
      else b.rmCore h := rfl

theorem BT.removeHash_fields (b : BT) (h : Nat) :
    (b.removeHash h).abs = (b.rmCore h).abs ∧ (b.removeHash h).mins = (b.rmCore h).mins ∧
    (b.removeHash h).abunds = (b.rmCore h).abunds ∧ (b.removeHash h).num = (b.rmCore h).num := by
  rw [BT.removeHash_eq]
  split <;> exact ⟨rfl, rfl, rfl, rfl⟩

theorem BT.rmCore_currentMax (b : BT) (h : Nat) : (b.rmCore h).currentMax = b.currentMax := by
  unfold BT.rmCore; split <;> rfl

theorem BT.rmCore_num (b : BT) (h : Nat) : (b.rmCore h).num = b.num := by
  unfold BT.rmCore; split <;> rfl

theorem abs_removeHash {b : BT} (hb : BInv b) (h : Nat) :
    (b.removeHash h).abs = b.abs.removeHash h := by
  have hs := hb.sorted
  rw [(BT.removeHash_fields b h).1]
  unfold BT.rmCore
  by_cases hm : h ∈ b.mins
  · rw [if_pos (by simpa using hm), MH.removeHash_of_mem (by simpa using hs) (by simpa using hm)]
    obtain ⟨num, maxHash, ksize, seed, hf, mins, abunds, cm, md5⟩ := b
    simp only at hm hs
    cases abunds with
    | none => simp [BT.abs, BSet.remove_of_mem hs hm]
    | some m =>
      have hk : m.map Prod.fst = mins := hb.keys m rfl
      have hks : Sorted (m.map Prod.fst) := hk ▸ hs
      simp only [BT.abs, Option.map_some, BSet.remove_of_mem hs hm]
      rw [BMap.vals_remove_of_mem hks (hk ▸ hm), hk]
  · rw [if_neg (by simpa using hm), MH.removeHash_of_not_mem (by simpa using hs) (by simpa using hm)]

theorem binv_removeHash {b : BT} (hb : BInv b) (h : Nat) : BInv (b.removeHash h) := by
  refine ⟨by rw [abs_removeHash hb]; exact inv_removeHash hb.inv h, ?_⟩
  intro m hm
  obtain ⟨_, h2, h3, _⟩ := BT.removeHash_fields b h
  rw [h2]; rw [h3] at hm
  unfold BT.rmCore at hm ⊢
  by_cases hc : h ∈ b.mins
  · rw [if_pos (by simpa using hc)] at hm ⊢
    simp only [Option.map_eq_some_iff] at hm
    obtain ⟨m0, hm0, rfl⟩ := hm
    rw [BMap.keys_remove, hb.keys m0 hm0]
  · rw [if_neg (by simpa using hc)] at hm ⊢
    exact hb.keys m hm

theorem cmOk_removeHash {b : BT} (hb : BInv b) (hc : CmOk b) (h : Nat) : CmOk (b.removeHash h) := by
  have hs := hb.sorted
  rw [BT.removeHash_eq]
  split
  · intro _ _; rfl
  · rename_i hne
    rw [BT.rmCore_currentMax] at hne
    intro hn hne'
    rw [BT.rmCore_num] at hn
    rw [BT.rmCore_currentMax]
    unfold BT.rmCore at hne' ⊢
    by_cases hm : h ∈ b.mins
    · rw [if_pos (by simpa using hm)] at hne' ⊢
      simp only at hne' ⊢
      rw [BSet.remove_of_mem hs hm] at hne' ⊢
      have hbne : b.mins ≠ [] := by rintro e; rw [e] at hm; simp at hm
      have hcm := hc hn hbne
      have := lastOr_eraseIdx_of_ne hs hm (by rw [← hcm]; exact hne)
      rw [this.2]; exact hcm
    · rw [if_neg (by simpa using hm)] at hne' ⊢
      exact hc hn hne'

/-! ### add_hash_with_abundance (positive abundance) -/

/-- `addHashAb_eq` with the three fields it reads named separately -/
theorem addHashAb_eq' {s : MH} (hs : Inv s) (hx : Excl s) (h a : Nat) {num maxHash : Nat}
    {mins : List Nat} (e1 : s.num = num) (e2 : s.maxHash = maxHash) (e3 : s.mins = mins) :
    s.addHashAb h a =
      if h > maxHash ∧ maxHash ≠ 0 then s
      else if num = 0 ∧ maxHash = 0 then s
      else if a = 0 then s.removeHash h
      else if mins = [] ∨ h ≤ maxHash ∨ h ≤ lastOr mins U64MAX ∨ mins.length < num then
        if mins[lowerBound mins h]? = some h then s.modAt (lowerBound mins h) a
        else if num ≠ 0 ∧ mins.length + 1 > num then
          (s.insAt (lowerBound mins h) h a).dropL
        else s.insAt (lowerBound mins h) h a
      else s := by
  subst e1 e2 e3
  exact addHashAb_eq hs hx h a

theorem abs_addHashAb {b : BT} (hb : BInv b) (hx : Excl b.abs) (hc : CmOk b) (h : Nat) {a : Nat}
    (ha : 0 < a) : (b.addHashAb h a).abs = b.abs.addHashAb h a := by
  have hs := hb.sorted
  rw [addHashAb_eq' hb.inv hx h a (BT.abs_num b) (BT.abs_maxHash b) (BT.abs_mins b)]
  unfold BT.addHashAb
  by_cases h1 : h > b.maxHash ∧ b.maxHash ≠ 0
  · rw [if_pos h1, if_pos h1]
  rw [if_neg h1, if_neg h1]
  by_cases h2 : b.num = 0 ∧ b.maxHash = 0
  · rw [if_pos h2, if_pos h2]
  have ha0 : ¬ a = 0 := by omega
  rw [if_neg h2, if_neg h2, if_neg ha0, if_neg ha0]
  by_cases h4 : b.mins = []
  · -- empty sketch: the first hash
    have hcap : ¬ (b.num ≠ 0 ∧ b.mins.length + 1 > b.num) := by
      rw [h4]; simp only [List.length_nil]; omega
    rw [if_pos (by simp [h4]), if_pos (Or.inl h4), if_neg (by simp [h4]), if_neg hcap]
    obtain ⟨num, maxHash, ksize, seed, hf, mins, abunds, cm, md5⟩ := b
    simp only at h4
    subst h4
    cases abunds with
    | none => simp [BT.abs, MH.insAt, BSet.insert]
    | some m =>
      have hk : m.map Prod.fst = [] := hb.keys m rfl
      simp only [List.map_eq_nil_iff] at hk
      subst hk
      simp [BT.abs, MH.insAt, BSet.insert, BMap.insert]
  rw [if_neg (by simp [h4])]
  have hcond : (h ≤ b.maxHash ∨ h ≤ b.currentMax ∨ b.mins.length < b.num) ↔
      (b.mins = [] ∨ h ≤ b.maxHash ∨ h ≤ lastOr b.mins U64MAX ∨ b.mins.length < b.num) := by
    by_cases hn : b.num = 0
    · have hM : b.maxHash ≠ 0 := fun e => h2 ⟨hn, e⟩
      have : h ≤ b.maxHash := by
        apply Classical.byContradiction; intro hgt; exact h1 ⟨by omega, hM⟩
      simp [this]
    · have hcm := hc hn h4
      have : lastOr b.mins U64MAX = lastOr b.mins 0 := by
        rw [lastOr_eq_getLast h4, lastOr_eq_getLast h4]
      rw [hcm, this]
      simp [h4]
  by_cases h5 : h ≤ b.maxHash ∨ h ≤ b.currentMax ∨ b.mins.length < b.num
  · rw [if_pos h5, if_pos (hcond.1 h5)]
    simp only []
    by_cases hm : h ∈ b.mins
    · -- already present: abundance incremented, nothing else changes
      have hfound := (getElem?_lowerBound_iff_mem hs h).2 hm
      have hcap : ¬ (b.num ≠ 0 ∧ (BSet.insert h b.mins).length > b.num) := by
        rw [BSet.insert_of_mem hs hm]
        rintro ⟨hn, hgt⟩
        have := hb.inv.capped hn
        simp only [BT.abs_mins, BT.abs_num] at this
        omega
      rw [if_neg hcap, if_pos hfound]
      obtain ⟨num, maxHash, ksize, seed, hf, mins, abunds, cm, md5⟩ := b
      simp only at hm hs hfound
      have hcont : mins.contains h = true := by simpa using hm
      cases abunds with
      | none => simp [BT.abs, MH.modAt, BSet.insert_of_mem hs hm, hcont, hm]
      | some m =>
        have hk : m.map Prod.fst = mins := hb.keys m rfl
        simp only [BT.abs, MH.modAt, BSet.insert_of_mem hs hm, hcont, Option.map_some,
          Bool.not_true, Bool.false_eq_true, if_false, false_and]
        rw [BMap.vals_addTo, hk, if_pos hfound]
    · have hnf : ¬ b.mins[lowerBound b.mins h]? = some h :=
        fun e => hm ((getElem?_lowerBound_iff_mem hs h).1 e)
      have hlen : (BSet.insert h b.mins).length = b.mins.length + 1 := by
        rw [BSet.insert_of_not_mem hs hm]
        simp [List.length_insertIdx, lowerBound_le_length]
      rw [if_neg hnf, hlen]
      have hins := hs.insertIdx_lowerBound hnf
      have hinsne : b.mins.insertIdx (lowerBound b.mins h) h ≠ [] := by
        intro e
        have := congrArg List.length e
        simp [List.length_insertIdx, lowerBound_le_length] at this
      by_cases hcap : b.num ≠ 0 ∧ b.mins.length + 1 > b.num
      · -- inserted, then the largest is evicted
        rw [if_pos hcap, if_pos hcap]
        obtain ⟨num, maxHash, ksize, seed, hf, mins, abunds, cm, md5⟩ := b
        simp only at hm hs hnf hins hinsne
        cases abunds with
        | none =>
          simp only [BT.abs, MH.insAt, MH.dropL, BSet.insert_of_not_mem hs hm, BT.lastOr0,
            BSet.remove_last hins hinsne, Option.map_none]
        | some m =>
          have hk : m.map Prod.fst = mins := hb.keys m rfl
          have hk2 : (BMap.addTo h a m).map Prod.fst = mins.insertIdx (lowerBound mins h) h := by
            rw [BMap.keys_addTo, hk, BSet.insert_of_not_mem hs hm]
          have hne2 : BMap.addTo h a m ≠ [] := by
            intro e; rw [e] at hk2; exact hinsne hk2.symm
          simp only [BT.abs, MH.insAt, MH.dropL, BSet.insert_of_not_mem hs hm, BT.lastOr0,
            BSet.remove_last hins hinsne, Option.map_some]
          rw [← hk2, BMap.remove_last (hk2 ▸ hins) hne2, List.map_dropLast, BMap.vals_addTo, hk,
            if_neg hnf]
      · -- inserted
        rw [if_neg hcap, if_neg hcap]
        obtain ⟨num, maxHash, ksize, seed, hf, mins, abunds, cm, md5⟩ := b
        simp only at hm hs hnf
        have hcont : mins.contains h = false := by simpa using hm
        cases abunds with
        | none => simp [BT.abs, MH.insAt, BSet.insert_of_not_mem hs hm, hcont, hm]
        | some m =>
          have hk : m.map Prod.fst = mins := hb.keys m rfl
          simp only [BT.abs, MH.insAt, BSet.insert_of_not_mem hs hm, hcont, Option.map_some,
            Bool.not_false, if_true]
          rw [BMap.vals_addTo, hk, if_neg hnf]
  · rw [if_neg h5, if_neg (fun e => h5 (hcond.2 e))]

theorem keys_addHashAb {b : BT} (hb : BInv b) (h a : Nat) :
    ∀ m, (b.addHashAb h a).abunds = some m → m.map Prod.fst = (b.addHashAb h a).mins := by
  have hs := hb.sorted
  unfold BT.addHashAb
  simp only []
  split; exact hb.keys
  split; exact hb.keys
  split; exact hb.keys
  split
  · rename_i he
    have he' : b.mins = [] := by simpa using he
    intro m hm
    simp only [Option.map_eq_some_iff] at hm
    obtain ⟨m0, hm0, rfl⟩ := hm
    have hk := hb.keys m0 hm0
    rw [he'] at hk ⊢
    simp only [List.map_eq_nil_iff] at hk
    subst hk
    rfl
  split
  · split
    · intro m hm
      simp only [Option.map_eq_some_iff] at hm
      obtain ⟨m1, hm1, rfl⟩ := hm
      obtain ⟨m0, hm0, rfl⟩ := hm1
      rw [BMap.keys_remove, BMap.keys_addTo, hb.keys m0 hm0]
    · intro m hm
      simp only [Option.map_eq_some_iff] at hm
      obtain ⟨m0, hm0, rfl⟩ := hm
      rw [BMap.keys_addTo, hb.keys m0 hm0]
  · exact hb.keys

theorem binv_addHashAb {b : BT} (hb : BInv b) (hx : Excl b.abs) (hc : CmOk b) (h : Nat) {a : Nat}
    (ha : 0 < a) : BInv (b.addHashAb h a) :=
  ⟨by rw [abs_addHashAb hb hx hc h ha]; exact inv_addHashAb hb.inv hx h a, keys_addHashAb hb h a⟩

theorem cmOk_addHashAb {b : BT} (hb : BInv b) (hc : CmOk b) (h a : Nat) :
    CmOk (b.addHashAb h a) := by
  have hs := hb.sorted
  unfold BT.addHashAb
  simp only []
  split; exact hc
  split; exact hc
  split; exact hc
  split
  · rename_i he
    have he' : b.mins = [] := by simpa using he
    intro _ _
    simp only [he', BSet.insert, lastOr]
    rfl
  split
  · split
    · intro _ _; rfl
    · rename_i h4 _ _
      have h4' : b.mins ≠ [] := by simpa using h4
      intro hn _
      simp only at hn ⊢
      have hcm := hc hn h4'
      by_cases hm : h ∈ b.mins
      · have hcont : b.mins.contains h = true := by simpa using hm
        simp only [hcont, Bool.not_true, Bool.false_eq_true, false_and, if_false,
          BSet.insert_of_mem hs hm]
        exact hcm
      · have hcont : b.mins.contains h = false := by simpa using hm
        simp only [hcont, Bool.not_false, true_and, BSet.insert_of_not_mem hs hm]
        rw [lastOr_insertIdx_lowerBound hs h4' h hm, hcm]
  · exact hc

theorem Excl_abs_addHashAb {b : BT} (hx : Excl b.abs) (h a : Nat) : Excl (b.addHashAb h a).abs := by
  have : (b.addHashAb h a).num = b.num ∧ (b.addHashAb h a).maxHash = b.maxHash := by
    unfold BT.addHashAb
    simp only []
    repeat' split
    all_goals exact ⟨rfl, rfl⟩
  unfold Excl at hx ⊢
  simp only [BT.abs_num, BT.abs_maxHash] at hx ⊢
  rw [this.1, this.2]; exact hx

end Sm
