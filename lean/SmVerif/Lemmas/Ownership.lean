/-
Lemmas for C15 (ownership / aliasing model).

The central lemma is `step_shape`: whatever the operation, the heap after `step`
is of one of five shapes (unchanged / one unfrozen receiver cell rewritten /
one receiver cell frozen in place / one fresh cell appended and bound / one
handle re-bound to an existing cell that is frozen or comes from `flatten`).
Every property in `Props/C15.lean` follows from that classification without
unfolding any sketch-level function (`Py.copy`, `MH.merge`, … stay opaque).
-/
import SmVerif.Model.Ownership

namespace Sm.Own

/-- every bound handle points to an existing cell -/
def Heap.WF (hp : Heap) : Prop := ∀ h c, hp.cid h = some c → c < hp.cells.length

/-! ### handle-list helpers -/

theorem lookup_filter_ne (l : List (Nat × Nat)) (r r' : Nat) (h : r ≠ r') :
    (l.filter (fun p => p.1 ≠ r')).lookup r = l.lookup r := by
  induction l with
  | nil => rfl
  | cons p l ih =>
    obtain ⟨a, b⟩ := p
    by_cases ha : a = r'
    · subst ha
      have hra : (r == a) = false := by simpa using h
      rw [List.filter_cons_of_neg (by simp), ih]
      simp [List.lookup, hra]
    · rw [List.filter_cons_of_pos (by simpa using ha)]
      by_cases hr : r = a
      · subst hr
        simp [List.lookup]
      · have hra : (r == a) = false := by simpa using hr
        simp only [List.lookup, hra]
        exact ih

theorem cid_bind_self (hp : Heap) (r c : Nat) : (hp.bind r c).cid r = some c := by
  simp [Heap.bind, Heap.cid]

theorem cid_bind_ne (hp : Heap) (r r' c : Nat) (h : r ≠ r') :
    (hp.bind r' c).cid r = hp.cid r := by
  have : (r == r') = false := by simpa using h
  simp only [Heap.bind, Heap.cid, List.lookup, this]
  exact lookup_filter_ne hp.handles r r' h

theorem cells_bind (hp : Heap) (r c : Nat) : (hp.bind r c).cells = hp.cells := rfl

theorem cells_alloc (hp : Heap) (r : Nat) (v : MH) (fr : Bool) :
    (hp.alloc r v fr).cells = hp.cells ++ [Cell.mk v fr] := rfl

theorem cid_alloc_self (hp : Heap) (r : Nat) (v : MH) (fr : Bool) :
    (hp.alloc r v fr).cid r = some hp.cells.length := by
  simp [Heap.alloc, cid_bind_self]

theorem cid_alloc_ne (hp : Heap) (r r' : Nat) (v : MH) (fr : Bool) (h : r ≠ r') :
    (hp.alloc r' v fr).cid r = hp.cid r := by
  simp only [Heap.alloc]
  rw [cid_bind_ne _ _ _ _ h]
  rfl

theorem cell_eq (hp : Heap) (h : Nat) (cell : Cell) (hc : hp.cell h = some cell) :
    ∃ c, hp.cid h = some c ∧ hp.cells[c]? = some cell := by
  unfold Heap.cell at hc
  split at hc
  · next c hcid => exact ⟨c, hcid, hc⟩
  · cases hc

theorem cell_of_cid (hp : Heap) (h c : Nat) (hcid : hp.cid h = some c) :
    hp.cell h = hp.cells[c]? := by
  simp [Heap.cell, hcid]

/-! ### shape of one step -/

/-- the five possible shapes of the heap after one operation -/
inductive Shape (hp : Heap) (op : Op) : Heap → Prop
  | same : Shape hp op hp
  | write (h c : Nat) (cell : Cell) (v : MH) :
      receiver op = some h → isMutator op = true →
      hp.cid h = some c → hp.cells[c]? = some cell → cell.frozen = false →
      Shape hp op { hp with cells := hp.cells.set c (Cell.mk v false) }
  | freeze (h c : Nat) (cell : Cell) :
      op = .intoFrozen h → hp.cid h = some c → hp.cells[c]? = some cell →
      Shape hp op { hp with cells := hp.cells.set c (Cell.mk cell.val true) }
  | alloc (r : Nat) (v : MH) (fr : Bool) :
      receiver op = none → isMutator op = false →
      Shape hp op (hp.alloc r v fr)
  | alias (r h c : Nat) (cell : Cell) :
      receiver op = none → isMutator op = false →
      hp.cid h = some c → hp.cells[c]? = some cell →
      (cell.frozen = true ∨ op = .flatten r h) →
      Shape hp op (hp.bind r c)

theorem mutate_shape (hp : Heap) (op : Op) (h : Nat) (f : MH → Except MH.Err MH)
    (hr : receiver op = some h) (hm : isMutator op = true) :
    Shape hp op (hp.mutate h f).1 := by
  unfold Heap.mutate
  split
  · exact .same
  · next c hcid =>
    split
    · exact .same
    · next cell hcell =>
      by_cases hf : cell.frozen = true
      · simp only [hf, if_true]; exact .same
      · have hf' : cell.frozen = false := by simpa using hf
        simp only [hf', Bool.false_eq_true, if_false]
        cases f cell.val with
        | error e => exact .same
        | ok v => exact .write h c cell v hr hm hcid hcell hf'

theorem mutateP_shape (hp : Heap) (op : Op) (h : Nat) (f : MH → MH × Res)
    (hr : receiver op = some h) (hm : isMutator op = true) :
    Shape hp op (hp.mutateP h f).1 := by
  unfold Heap.mutateP
  split
  · exact .same
  · next c hcid =>
    split
    · exact .same
    · next cell hcell =>
      by_cases hf : cell.frozen = true
      · simp only [hf, if_true]; exact .same
      · have hf' : cell.frozen = false := by simpa using hf
        simp only [hf', Bool.false_eq_true, if_false]
        exact .write h c cell _ hr hm hcid hcell hf'

theorem mutateP_frozen (hp : Heap) (h : Nat) (f : MH → MH × Res) (cell : Cell)
    (hc : hp.cell h = some cell) (hf : cell.frozen = true) :
    hp.mutateP h f = (hp, .err "TypeError") := by
  obtain ⟨c, hcid, hcell⟩ := cell_eq hp h cell hc
  simp [Heap.mutateP, hcid, hcell, hf]

theorem fresh_shape (hp : Heap) (op : Op) (r : Nat) (x : Except MH.Err MH) (fr : Bool)
    (hr : receiver op = none) (hm : isMutator op = false) :
    Shape hp op (hp.fresh r x fr).1 := by
  unfold Heap.fresh
  split
  · exact .alloc r _ fr hr hm
  · exact .same

theorem alias_shape (hp : Heap) (op : Op) (r h : Nat) (cell : Cell)
    (hr : receiver op = none) (hm : isMutator op = false)
    (hc : hp.cell h = some cell) (hfr : cell.frozen = true ∨ op = .flatten r h) :
    Shape hp op (hp.alias r h) := by
  obtain ⟨c, hcid, hcell⟩ := cell_eq hp h cell hc
  simp only [Heap.alias, hcid]
  exact .alias r h c cell hr hm hcid hcell hfr

theorem step_shape (hp : Heap) (op : Op) : Shape hp op (step hp op).1 := by
  cases op with
  | new r num scaled track => exact fresh_shape _ _ _ _ _ rfl rfl
  | add h v => exact mutate_shape _ _ _ _ rfl rfl
  | addAb h v a => exact mutate_shape _ _ _ _ rfl rfl
  | addMany h vs => exact mutate_shape _ _ _ _ rfl rfl
  | removeMany h vs => exact mutate_shape _ _ _ _ rfl rfl
  | clear h => exact mutate_shape _ _ _ _ rfl rfl
  | merge h g =>
    simp only [step]
    split
    · exact mutate_shape _ _ _ _ rfl rfl
    · exact .same
  | setAbundances h ps c => exact mutate_shape _ _ _ _ rfl rfl
  | addSeq h sq f => exact mutateP_shape _ _ _ _ rfl rfl
  | addProt h sq => exact mutateP_shape _ _ _ _ rfl rfl
  | setTrack h b =>
    simp only [step]
    split
    · split
      · exact .same
      · exact mutate_shape _ _ _ _ rfl rfl
    · exact .same
  | intoFrozen h =>
    simp only [step]
    split
    · next c cell hcid hcell =>
      rw [cell_of_cid hp h c hcid] at hcell
      exact .freeze h c cell rfl hcid hcell
    · exact .same
  | toMutable r h =>
    simp only [step]
    split
    · exact fresh_shape _ _ _ _ _ rfl rfl
    · exact .same
  | toFrozen r h =>
    simp only [step]
    split
    · next c hc =>
      split
      · next hf => exact alias_shape _ _ _ _ c rfl rfl hc (.inl hf)
      · exact fresh_shape _ _ _ _ _ rfl rfl
    · exact .same
  | copy r h =>
    simp only [step]
    split
    · next c hc =>
      split
      · next hf => exact alias_shape _ _ _ _ c rfl rfl hc (.inl hf)
      · exact fresh_shape _ _ _ _ _ rfl rfl
    · exact .same
  | flatten r h =>
    simp only [step]
    split
    · next c hc =>
      split
      · exact fresh_shape _ _ _ _ _ rfl rfl
      · exact alias_shape _ _ _ _ c rfl rfl hc (.inr rfl)
      · exact .same
    · exact .same
  | downsample r h sc =>
    simp only [step]
    split
    · next c hc =>
      split
      · next hf => exact alias_shape _ _ _ _ c rfl rfl hc (.inl hf.1)
      · exact fresh_shape _ _ _ _ _ rfl rfl
    · exact .same
  | sigMinhash r h =>
    simp only [step]
    split
    · exact fresh_shape _ _ _ _ _ rfl rfl
    · exact .same
  | plus r h g =>
    simp only [step]
    split
    · split
      · exact .same
      · exact fresh_shape _ _ _ _ _ rfl rfl
    · exact .same
  | inter r h g =>
    simp only [step]
    split
    · exact fresh_shape _ _ _ _ _ rfl rfl
    · exact .same
  | readOnly name hs =>
    simp only [step]
    split <;> exact .same

/-! ### well-formedness -/

theorem wf_empty : Heap.empty.WF := by
  intro h c hc
  simp [Heap.empty, Heap.cid] at hc

theorem wf_of_shape (hp hp' : Heap) (op : Op) (hwf : hp.WF) (hs : Shape hp op hp') : hp'.WF := by
  cases hs with
  | same => exact hwf
  | write h c cell v _ _ _ _ _ =>
    intro h' c' hc'
    have := hwf h' c' hc'
    simpa using this
  | freeze h c cell _ _ _ =>
    intro h' c' hc'
    have := hwf h' c' hc'
    simpa using this
  | alloc r v fr _ _ =>
    intro h' c' hc'
    by_cases hr : h' = r
    · subst hr
      rw [cid_alloc_self] at hc'
      cases hc'
      simp [cells_alloc]
    · rw [cid_alloc_ne _ _ _ _ _ hr] at hc'
      have := hwf h' c' hc'
      simp [cells_alloc]; omega
  | alias r h c cell _ _ hcid hcell _ =>
    intro h' c' hc'
    by_cases hr : h' = r
    · subst hr
      rw [cid_bind_self] at hc'
      cases hc'
      exact hwf h c hcid
    · rw [cid_bind_ne _ _ _ _ hr] at hc'
      exact hwf h' c' hc'

theorem wf_step (hp : Heap) (op : Op) (hwf : hp.WF) : (step hp op).1.WF :=
  wf_of_shape hp _ op hwf (step_shape hp op)

theorem wf_foldl (ops : List Op) (hp : Heap) (hwf : hp.WF) :
    (ops.foldl (fun hp op => (step hp op).1) hp).WF := by
  induction ops generalizing hp with
  | nil => exact hwf
  | cons op ops ih => exact ih _ (wf_step hp op hwf)

/-! ### the C15 properties -/

theorem getElem?_set_ne' (l : List Cell) (i c : Nat) (x cell : Cell) (hne : i ≠ c)
    (hc : l[c]? = some cell) : (l.set i x)[c]? = some cell := by
  rw [List.getElem?_set_ne hne]; exact hc

theorem getElem?_append_old (l : List Cell) (x : Cell) (c : Nat) (cell : Cell)
    (hc : l[c]? = some cell) : (l ++ [x])[c]? = some cell := by
  have hlt : c < l.length := by
    rcases Nat.lt_or_ge c l.length with h | h
    · exact h
    · rw [List.getElem?_eq_none h] at hc; cases hc
  rw [List.getElem?_append_left hlt]; exact hc

theorem lt_of_getElem? (l : List Cell) (c : Nat) (cell : Cell) (hc : l[c]? = some cell) :
    c < l.length := by
  rcases Nat.lt_or_ge c l.length with h | h
  · exact h
  · rw [List.getElem?_eq_none h] at hc; cases hc

theorem step_frame' (hp : Heap) (op : Op) (c : Nat) (cell : Cell)
    (hc : hp.cells[c]? = some cell)
    (hne : ∀ h, receiver op = some h → hp.cid h ≠ some c) :
    (step hp op).1.cells[c]? = some cell := by
  have hs := step_shape hp op
  generalize (step hp op).1 = hp' at hs
  cases hs with
  | same => exact hc
  | write h c₀ cell₀ v hr _ hcid _ _ =>
    have : c₀ ≠ c := fun e => hne h hr (e ▸ hcid)
    exact getElem?_set_ne' _ _ _ _ _ this hc
  | freeze h c₀ cell₀ hop hcid _ =>
    have : c₀ ≠ c := fun e => hne h (by rw [hop]; rfl) (e ▸ hcid)
    exact getElem?_set_ne' _ _ _ _ _ this hc
  | alloc r v fr _ _ => exact getElem?_append_old _ _ _ _ hc
  | alias r h c₀ cell₀ _ _ _ _ _ => exact hc

theorem nonmutator_preserves' (hp : Heap) (op : Op) (hm : isMutator op = false) (c : Nat)
    (cell : Cell) (hc : hp.cells[c]? = some cell) :
    ∃ cell', (step hp op).1.cells[c]? = some cell' ∧ cell'.val = cell.val := by
  have hs := step_shape hp op
  generalize (step hp op).1 = hp' at hs
  cases hs with
  | same => exact ⟨cell, hc, rfl⟩
  | write h c₀ cell₀ v _ hm' _ _ _ => rw [hm] at hm'; cases hm'
  | freeze h c₀ cell₀ hop hcid hcell =>
    by_cases e : c₀ = c
    · subst e
      rw [hc] at hcell; cases hcell
      refine ⟨Cell.mk cell.val true, ?_, rfl⟩
      simp [List.getElem?_set_self (lt_of_getElem? _ _ _ hc)]
    · exact ⟨cell, getElem?_set_ne' _ _ _ _ _ e hc, rfl⟩
  | alloc r v fr _ _ => exact ⟨cell, getElem?_append_old _ _ _ _ hc, rfl⟩
  | alias r h c₀ cell₀ _ _ _ _ _ => exact ⟨cell, hc, rfl⟩

theorem mutate_frozen (hp : Heap) (h : Nat) (f : MH → Except MH.Err MH) (cell : Cell)
    (hc : hp.cell h = some cell) (hf : cell.frozen = true) :
    hp.mutate h f = (hp, .err "TypeError") := by
  obtain ⟨c, hcid, hcell⟩ := cell_eq hp h cell hc
  simp [Heap.mutate, hcid, hcell, hf]

theorem frozen_immutable' (hp : Heap) (op : Op) (h : Nat) (cell : Cell)
    (hm : isMutator op = true) (hr : receiver op = some h)
    (hc : hp.cell h = some cell) (hf : cell.frozen = true) :
    (step hp op).1 = hp := by
  cases op with
  | merge h' g =>
    simp only [receiver, Option.some.injEq] at hr
    subst hr
    simp only [step]
    split
    · rw [mutate_frozen hp _ _ cell hc hf]
    · rfl
  | setTrack h' b =>
    simp only [receiver, Option.some.injEq] at hr
    subst hr
    simp only [step, hc]
    split
    · rfl
    · rw [mutate_frozen hp _ _ cell hc hf]
  | add h' _ | addAb h' _ _ | addMany h' _ | removeMany h' _ | clear h' | setAbundances h' _ _ =>
    simp only [receiver, Option.some.injEq] at hr
    subst hr
    simp only [step, mutate_frozen hp _ _ cell hc hf]
  | addSeq h' _ _ | addProt h' _ =>
    simp only [receiver, Option.some.injEq] at hr
    subst hr
    simp only [step, mutateP_frozen hp _ _ cell hc hf]
  | _ => simp [isMutator] at hm

theorem frozen_refused' (hp : Heap) (op : Op) (h : Nat) (cell : Cell)
    (hm : isMutator op = true) (hr : receiver op = some h)
    (hc : hp.cell h = some cell) (hf : cell.frozen = true)
    (hst : ∀ b, op = .setTrack h b → cell.val.trackAbundance ≠ b)
    (hmg : ∀ g, op = .merge h g → (hp.cell g).isSome) :
    (step hp op).2 = .err "TypeError" := by
  cases op with
  | merge h' g =>
    simp only [receiver, Option.some.injEq] at hr
    subst hr
    have := hmg g rfl
    obtain ⟨o, ho⟩ := Option.isSome_iff_exists.mp this
    simp only [step, ho, mutate_frozen hp _ _ cell hc hf]
  | setTrack h' b =>
    simp only [receiver, Option.some.injEq] at hr
    subst hr
    have := hst b rfl
    simp only [step, hc, this, if_false, mutate_frozen hp _ _ cell hc hf]
  | add h' _ | addAb h' _ _ | addMany h' _ | removeMany h' _ | clear h' | setAbundances h' _ _ =>
    simp only [receiver, Option.some.injEq] at hr
    subst hr
    simp only [step, mutate_frozen hp _ _ cell hc hf]
  | addSeq h' _ _ | addProt h' _ =>
    simp only [receiver, Option.some.injEq] at hr
    subst hr
    simp only [step, mutateP_frozen hp _ _ cell hc hf]
  | _ => simp [isMutator] at hm

/-- a frozen cell is left exactly as it is by every operation -/
theorem frozen_cell_step (hp : Heap) (op : Op) (c : Nat) (cell : Cell)
    (hc : hp.cells[c]? = some cell) (hf : cell.frozen = true) :
    (step hp op).1.cells[c]? = some cell := by
  have hs := step_shape hp op
  generalize (step hp op).1 = hp' at hs
  cases hs with
  | same => exact hc
  | write h c₀ cell₀ v _ _ _ hcell hf₀ =>
    have : c₀ ≠ c := by
      intro e; subst e
      rw [hc] at hcell; cases hcell
      rw [hf] at hf₀; cases hf₀
    exact getElem?_set_ne' _ _ _ _ _ this hc
  | freeze h c₀ cell₀ hop hcid hcell =>
    by_cases e : c₀ = c
    · subst e
      rw [hc] at hcell; cases hcell
      have : Cell.mk cell.val true = cell := by
        cases cell; simp_all
      simp [List.getElem?_set_self (lt_of_getElem? _ _ _ hc), this]
    · exact getElem?_set_ne' _ _ _ _ _ e hc
  | alloc r v fr _ _ => exact getElem?_append_old _ _ _ _ hc
  | alias r h c₀ cell₀ _ _ _ _ _ => exact hc

theorem frozen_stays_frozen' (hp : Heap) (op : Op) (c : Nat) (cell : Cell)
    (hc : hp.cells[c]? = some cell) (hf : cell.frozen = true) :
    ∃ cell', (step hp op).1.cells[c]? = some cell' ∧ cell'.frozen = true :=
  ⟨cell, frozen_cell_step hp op c cell hc hf, hf⟩

theorem frozen_cell_foldl (ops : List Op) (hp : Heap) (c : Nat) (cell : Cell)
    (hc : hp.cells[c]? = some cell) (hf : cell.frozen = true) :
    (ops.foldl (fun hp op => (step hp op).1) hp).cells[c]? = some cell := by
  induction ops generalizing hp with
  | nil => exact hc
  | cons op ops ih => exact ih _ (frozen_cell_step hp op c cell hc hf)

theorem frozen_forever' (hp : Heap) (ops : List Op) (c : Nat) (cell : Cell)
    (_hwf : hp.WF) (hc : hp.cells[c]? = some cell) (hf : cell.frozen = true) :
    ∃ cell', (ops.foldl (fun hp op => (step hp op).1) hp).cells[c]? = some cell' ∧
      content cell' = content cell :=
  ⟨cell, frozen_cell_foldl ops hp c cell hc hf, rfl⟩

theorem fresh_ok (hp : Heap) (r : Nat) (x : Except MH.Err MH) (fr : Bool)
    (hok : (hp.fresh r x fr).2 = .ok) : ∃ v, (hp.fresh r x fr).1 = hp.alloc r v fr := by
  cases x with
  | ok v => exact ⟨v, rfl⟩
  | error e => simp [Heap.fresh] at hok

theorem to_mutable_alloc (hp : Heap) (r h : Nat)
    (hok : (step hp (.toMutable r h)).2 = .ok) :
    ∃ v, (step hp (.toMutable r h)).1 = hp.alloc r v false := by
  cases hcell : hp.cell h with
  | none => simp [step, hcell] at hok
  | some c =>
    simp only [step, hcell] at hok ⊢
    exact fresh_ok _ _ _ _ hok

theorem to_mutable_fresh' (hp : Heap) (r h : Nat) (_hwf : hp.WF)
    (hok : (step hp (.toMutable r h)).2 = .ok) :
    (step hp (.toMutable r h)).1.cid r = some hp.cells.length ∧
    ∃ cell, (step hp (.toMutable r h)).1.cells[hp.cells.length]? = some cell ∧
      cell.frozen = false := by
  obtain ⟨v, hv⟩ := to_mutable_alloc hp r h hok
  rw [hv]
  refine ⟨cid_alloc_self _ _ _ _, Cell.mk v false, ?_, rfl⟩
  simp [cells_alloc]

theorem copy_disjoint' (hp : Heap) (r h : Nat) (_hwf : hp.WF) (_hrh : r ≠ h)
    (hok : (step hp (.toMutable r h)).2 = .ok) (op : Op) (hrec : receiver op = some r)
    (c : Nat) (cell : Cell) (_hc : hp.cid h = some c) (hcell : hp.cells[c]? = some cell) :
    (step (step hp (.toMutable r h)).1 op).1.cells[c]? = some cell := by
  obtain ⟨v, hv⟩ := to_mutable_alloc hp r h hok
  rw [hv]
  apply step_frame'
  · rw [cells_alloc]; exact getElem?_append_old _ _ _ _ hcell
  · intro h' hh'
    rw [hrec] at hh'; cases hh'
    rw [cid_alloc_self]
    have := lt_of_getElem? _ _ _ hcell
    intro e; cases e; omega

theorem alias_only_frozen_or_flatten' (hp : Heap) (op : Op) (r c : Nat) (_hwf : hp.WF)
    (hnew : (step hp op).1.cid r = some c) (hold : hp.cid r ≠ some c)
    (hlt : c < hp.cells.length) :
    (∃ cell, hp.cells[c]? = some cell ∧ cell.frozen = true) ∨ (∃ h, op = .flatten r h) := by
  have hs := step_shape hp op
  generalize (step hp op).1 = hp' at hs hnew
  cases hs with
  | same => exact absurd hnew hold
  | write h c₀ cell₀ v _ _ _ _ _ => exact absurd hnew hold
  | freeze h c₀ cell₀ _ _ _ => exact absurd hnew hold
  | alloc r' v fr _ _ =>
    by_cases e : r = r'
    · subst e
      rw [cid_alloc_self] at hnew
      cases hnew; omega
    · rw [cid_alloc_ne _ _ _ _ _ e] at hnew
      exact absurd hnew hold
  | alias r' h c₀ cell₀ _ _ hcid hcell hfr =>
    by_cases e : r = r'
    · subst e
      rw [cid_bind_self] at hnew
      cases hnew
      rcases hfr with hf | hfl
      · exact .inl ⟨cell₀, hcell, hf⟩
      · exact .inr ⟨h, hfl⟩
    · rw [cid_bind_ne _ _ _ _ e] at hnew
      exact absurd hnew hold

end Sm.Own
