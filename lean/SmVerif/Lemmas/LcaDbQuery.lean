/-
Queries, refused insertions, `downsample_scaled` and JSON save/load against the log.
-/
import SmVerif.Lemmas.LcaDbInv

namespace Sm.Lca

open Sm.Lin Sm.Dict

/-! ### the empty database -/

theorem qrep_new (k s m : Nat) : QRep (Db.new k s m) [] := by
  constructor <;> simp [Db.new, identIdx, Db.idxsOf, idxsSpec, keys]

theorem lininv_new (k s m : Nat) : LinInv (Db.new k s m) := by
  constructor <;> simp [Db.new, keys]

/-! ### a refused insertion changes nothing -/

theorem insert_error {db : Db} {log : List Entry} (hq : QRep db log)
    {sig : Sig} {ident : String} {lineage : Lineage} {db' : Db} {e : Err}
    (h : db.insert sig ident lineage = (db', .error e)) : db' = db := by
  rw [insert_unfold] at h
  by_cases hk : sig.ksize ≠ db.ksize
  · simp [hk] at h; exact h.1.symm
  by_cases hm : sig.moltype ≠ db.moltype
  · simp [hk, hm] at h; exact h.1.symm
  simp only [hk, hm, if_false] at h
  cases hd : sig.downTo db.scaled with
  | error e' => simp [hd] at h; exact h.1.symm
  | ok kept =>
    simp only [hd] at h
    generalize (if ident = "" then sig.str else ident) = ident' at h
    by_cases hc : contains db.identToName ident' = true
    · simp [hc] at h; exact h.1.symm
    simp only [hc, Bool.false_eq_true, if_false] at h
    have hfresh : ident' ∉ log.map Entry.ident := by
      rw [← keys_identToName hq]
      intro hmem
      apply hc
      unfold contains
      exact get?_isSome_iff.mpr hmem
    have hgi : get? db.identToIdx ident' = none := by
      rw [hq.identToIdx]; exact get?_identIdx_none hfresh
    unfold Db.getIdentIndex at h
    simp only [hgi] at h
    simp only [Prod.mk.injEq] at h
    exact absurd h.2 (by simp)

/-! ### `get_lineage_assignments` -/

/-- the lineage of the signature with index `i`, if it has one -/
def lineageAt (log : List Entry) (i : Nat) : Option Lineage :=
  match log[i]? with
  | some e => if e.lineage = [] then none else some e.lineage
  | none => none

/-- loop body of `get_lineage_assignments` -/
def laStep (db : Db) (x : List Lineage) (idx : Nat) : Except Err (List Lineage) :=
  match get? db.idxToLid idx with
  | none => .ok x
  | some lid => match get? db.lidToLineage lid with
    | some lin => .ok (x ++ [lin])
    | none => .error .key

theorem laStep_spec {db : Db} {log : List Entry} (hq : QRep db log) (x : List Lineage) {i : Nat}
    (hi : i < log.length) : laStep db x i = .ok (x ++ (lineageAt log i).toList) := by
  unfold laStep lineageAt
  have he : log[i]? = some log[i] := List.getElem?_eq_getElem hi
  rw [he]
  by_cases hl : log[i].lineage = []
  · rw [hq.lineage_none i _ he hl]
    simp [hl]
  · obtain ⟨lid, h1, h2⟩ := hq.lineage_some i _ he hl
    rw [h1]
    simp only [h2, hl, if_false, Option.toList_some]

theorem foldlM_laStep {db : Db} {log : List Entry} (hq : QRep db log) (is : List Nat)
    (his : ∀ i ∈ is, i < log.length) (x : List Lineage) :
    is.foldlM (laStep db) x = .ok (x ++ is.filterMap (lineageAt log)) := by
  induction is generalizing x with
  | nil => simp [pure, Except.pure]
  | cons i is ih =>
    simp only [List.foldlM_cons, bind, Except.bind]
    rw [laStep_spec hq x (his i (by simp))]
    simp only
    rw [ih (fun j hj => his j (List.mem_cons_of_mem _ hj))]
    simp only [List.filterMap_cons, List.append_assoc]
    cases lineageAt log i <;> simp

theorem getLineageAssignments_eq {db : Db} {log : List Entry} (hq : QRep db log) (h minNum : Nat) :
    db.getLineageAssignments h minNum =
      .ok (if minNum ≠ 0 ∧ (idxsSpec log h).length < minNum then []
           else (idxsSpec log h).filterMap (lineageAt log)) := by
  unfold Db.getLineageAssignments
  rw [hq.index h]
  by_cases hmn : minNum ≠ 0 ∧ (idxsSpec log h).length < minNum
  · rw [if_pos hmn, if_pos hmn]
  · rw [if_neg hmn, if_neg hmn]
    have := foldlM_laStep hq (idxsSpec log h) (fun i hi => lt_of_mem_idxsSpec hi) []
    rw [List.nil_append] at this
    exact this

/-! ### `get_identifiers_for_hashval` -/

def idxIdent (log : List Entry) : List (Nat × String) :=
  (List.range log.length).filterMap (fun i => (log[i]?).map (fun e => (i, e.ident)))

theorem idxIdent_append (log : List Entry) (e : Entry) :
    idxIdent (log ++ [e]) = idxIdent log ++ [(log.length, e.ident)] := by
  unfold idxIdent
  simp only [List.length_append, List.length_cons, List.length_nil, Nat.zero_add]
  rw [List.range_succ, List.filterMap_append]
  congr 1
  · apply filterMap_congr'
    intro i hi
    rw [getElem?_append_singleton_lt log e (List.mem_range.mp hi)]
  · simp

theorem keys_idxIdent (log : List Entry) : keys (idxIdent log) = List.range log.length := by
  induction log using rev_ind with
  | h0 => rfl
  | hs l e ih =>
    rw [idxIdent_append, keys_append, ih]
    simp [keys, List.range_succ]

theorem get?_idxIdent (log : List Entry) (i : Nat) : get? (idxIdent log) i = (log[i]?).map Entry.ident := by
  induction log using rev_ind with
  | h0 => simp [idxIdent]
  | hs l e ih =>
    rw [idxIdent_append, get?_append, ih]
    by_cases hi : i < l.length
    · rw [getElem?_append_singleton_lt l e hi, List.getElem?_eq_getElem hi]
      simp
    · have hn : l[i]? = none := List.getElem?_eq_none (by omega)
      rw [hn]
      simp only [Option.map_none, get?]
      by_cases he : i = l.length
      · subst he; simp
      · have : (l ++ [e])[i]? = none := List.getElem?_eq_none (by simp; omega)
        simp [he, this]

theorem idxToIdent_eq {db : Db} {log : List Entry} (hq : QRep db log) : db.idxToIdent = .ok (idxIdent log) := by
  unfold Db.idxToIdent
  rw [hq.identToIdx]
  induction log using rev_ind with
  | h0 => simp [identIdx, idxIdent, pure, Except.pure]
  | hs l e ih =>
    -- the statement is about `identIdx` only: strengthen
    rw [identIdx_append, List.foldlM_append]
    have hgen : ∀ l : List Entry, (identIdx l).foldlM (fun d (p : String × Nat) =>
        if contains d p.2 then (.error .assertion : Except Err (List (Nat × String))) else .ok (set d p.2 p.1)) [] =
        .ok (idxIdent l) := by
      intro l
      induction l using rev_ind with
      | h0 => simp [identIdx, idxIdent, pure, Except.pure]
      | hs l e ih =>
        rw [identIdx_append, List.foldlM_append, ih]
        simp only [bind, Except.bind, List.foldlM_cons, List.foldlM_nil, pure, Except.pure]
        have hc : contains (idxIdent l) l.length = false := by
          unfold contains
          rw [get?_idxIdent]
          simp
        rw [hc]
        simp only [Bool.false_eq_true, if_false, Except.ok.injEq]
        rw [idxIdent_append]
        apply set_of_not_mem
        rw [keys_idxIdent]
        simp
    rw [hgen l]
    simp only [bind, Except.bind, List.foldlM_cons, List.foldlM_nil, pure, Except.pure]
    have hc : contains (idxIdent l) l.length = false := by
      unfold contains
      rw [get?_idxIdent]
      simp
    rw [hc]
    simp only [Bool.false_eq_true, if_false, Except.ok.injEq]
    rw [idxIdent_append]
    apply set_of_not_mem
    rw [keys_idxIdent]
    simp

theorem mapM_identifiers (log : List Entry) (is : List Nat) (his : ∀ i ∈ is, i < log.length) :
    is.mapM (fun idx => match get? (idxIdent log) idx with
      | some i => (.ok i : Except Err String)
      | none => .error .key) = .ok (is.filterMap (fun i => (log[i]?).map Entry.ident)) := by
  induction is with
  | nil => simp [pure, Except.pure]
  | cons i is ih =>
    have hi := his i (by simp)
    rw [List.mapM_cons, get?_idxIdent, List.getElem?_eq_getElem hi]
    simp only [Option.map_some, bind, Except.bind]
    rw [ih (fun j hj => his j (List.mem_cons_of_mem _ hj))]
    simp [pure, Except.pure, List.getElem?_eq_getElem hi]

theorem getIdentifiers_eq {db : Db} {log : List Entry} (hq : QRep db log) (h : Nat) :
    db.getIdentifiers h = .ok ((idxsSpec log h).filterMap (fun i => (log[i]?).map Entry.ident)) := by
  unfold Db.getIdentifiers
  rw [idxToIdent_eq hq, hq.index h]
  exact mapM_identifiers log _ (fun i hi => lt_of_mem_idxsSpec hi)

/-! ### `downsample_scaled` -/

/-- the entry after `downsample_scaled(S)` -/
def Entry.restrict (S : Nat) (e : Entry) : Entry := { e with kept := e.kept.filter (downKeep S) }

theorem get?_filter_key {β : Type} (q : Nat → Bool) (d : List (Nat × β)) (h : Nat) :
    get? (d.filter (fun p => q p.1)) h = if q h then get? d h else none := by
  induction d with
  | nil => simp
  | cons p rest ih =>
    obtain ⟨k, v⟩ := p
    simp only [List.filter_cons]
    by_cases hq : q k
    · simp only [hq, if_true, get?]
      by_cases hk : h = k
      · subst hk; simp [hq]
      · simp [hk, ih]
    · simp only [hq, Bool.false_eq_true, if_false, get?]
      by_cases hk : h = k
      · subst hk; simp [hq, ih]
      · simp [hk, ih]

theorem keys_filter_sublist {β : Type} (q : Nat × β → Bool) (d : List (Nat × β)) :
    (keys (d.filter q)).Sublist (keys d) := by
  rw [keys_eq_map, keys_eq_map]
  exact (List.filter_sublist).map _

theorem downsample_qrep {db db' : Db} {log : List Entry} (hq : QRep db log) {S : Nat}
    (h : db.downsampleScaled S = .ok db') (hne : S ≠ db.scaled) :
    QRep db' (log.map (Entry.restrict S)) ∧ db'.scaled = S := by
  unfold Db.downsampleScaled at h
  by_cases h1 : S = db.scaled
  · exact absurd h1 hne
  by_cases h2 : S < db.scaled
  · simp [h1, h2] at h
  simp only [h1, h2, if_false, Except.ok.injEq] at h
  subst h
  refine ⟨?_, rfl⟩
  have hmap_ident : (log.map (Entry.restrict S)).map Entry.ident = log.map Entry.ident := by
    rw [List.map_map]; rfl
  have hget : ∀ i : Nat, (log.map (Entry.restrict S))[i]? = (log[i]?).map (Entry.restrict S) := by
    intro i; simp
  constructor
  · simp [hq.nextIndex]
  · rw [hmap_ident]; exact hq.idents_nodup
  · simp only [hq.identToIdx]
    unfold identIdx
    simp only [List.length_map]
    apply filterMap_congr'
    intro i _
    rw [hget]
    cases log[i]? <;> rfl
  · simp only [hq.identToName, List.map_map]; rfl
  · intro i e he hl
    rw [hget] at he
    cases hle : log[i]? with
    | none => simp [hle] at he
    | some e0 =>
      simp [hle] at he
      subst he
      exact hq.lineage_some i e0 hle hl
  · intro i e he hl
    rw [hget] at he
    cases hle : log[i]? with
    | none => simp [hle] at he
    | some e0 =>
      simp [hle] at he
      subst he
      exact hq.lineage_none i e0 hle hl
  · intro i hi
    simp only [List.length_map] at hi
    exact hq.lineage_oob i hi
  · intro x
    unfold Db.idxsOf
    simp only
    rw [get?_filter_key (downKeep S)]
    have hold := hq.index x
    unfold Db.idxsOf at hold
    unfold idxsSpec
    simp only [List.length_map]
    by_cases hk : downKeep S x = true
    · simp only [hk, if_true]
      rw [hold]
      unfold idxsSpec
      apply List.filter_congr
      intro i _
      unfold holds
      rw [hget]
      cases log[i]? with
      | none => rfl
      | some e => simp [Entry.restrict, hk]
    · simp only [hk, Bool.false_eq_true, if_false, Option.getD_none]
      symm
      rw [List.filter_eq_nil_iff]
      intro i _
      unfold holds
      rw [hget]
      cases log[i]? with
      | none => simp
      | some e =>
        simp only [Option.map_some, Entry.restrict, List.contains_eq_mem, List.mem_filter, decide_eq_true_eq,
          not_and]
        intro _
        exact hk
  · exact (keys_filter_sublist _ _).nodup hq.hv_nodup
  · intro x s hs
    simp only at hs
    rw [get?_filter_key (downKeep S)] at hs
    by_cases hk : downKeep S x = true
    · simp only [hk, if_true] at hs; exact hq.hv_nonempty x s hs
    · simp [hk] at hs

theorem downsample_same {db db' : Db} {S : Nat} (h : db.downsampleScaled S = .ok db') (he : S = db.scaled) :
    db' = db := by
  unfold Db.downsampleScaled at h
  simp [he] at h
  exact h.symm

theorem downsample_lininv {db db' : Db} (hl : LinInv db) {S : Nat} (h : db.downsampleScaled S = .ok db') :
    LinInv db' := by
  unfold Db.downsampleScaled at h
  by_cases h1 : S = db.scaled
  · simp [h1] at h; subst h; exact hl
  by_cases h2 : S < db.scaled
  · simp [h1, h2] at h
  simp only [h1, h2, if_false, Except.ok.injEq] at h
  subst h
  exact ⟨hl.to_lid, hl.lid_lt, hl.lid_nodup, hl.lid_used⟩

end Sm.Lca
