/-
SqliteIndex as two tables: what a sequence of create-then-append sessions stores, what is refused, and
that `_load_sketches` rebuilds exactly the accepted signatures.
-/
import SmVerif.Lemmas.StorageMisc

namespace Sm.Storage

/-- the documented restriction of SqliteIndex: flat (`track = false`) scaled (`num = 0`) sketches, all at
    the scaled value of the first one accepted -/
def sqlOk (acc : List Sig) (ss : Sig) : Bool :=
  ss.num = 0 && !ss.track && (match acc.head? with
    | none => true
    | some f => f.scaled = ss.scaled)

/-- specification of the `add` loop: which signatures end up stored, which calls raise -/
def sqlSpecAdds (acc : List Sig) : List Sig → List Sig × List Bool
  | [] => (acc, [])
  | ss :: rest =>
    if sqlOk acc ss then ((sqlSpecAdds (acc ++ [ss]) rest).1, true :: (sqlSpecAdds (acc ++ [ss]) rest).2)
    else ((sqlSpecAdds acc rest).1, false :: (sqlSpecAdds acc rest).2)

def sqlSpecSessions (acc : List Sig) : List (List Sig) → List Sig × List (List Bool)
  | [] => (acc, [])
  | l :: rest =>
    ((sqlSpecSessions (sqlSpecAdds acc l).1 rest).1, (sqlSpecAdds acc l).2 :: (sqlSpecSessions (sqlSpecAdds acc l).1 rest).2)

/-- one accepted insert on the tables -/
def push (rs : Bool) (db : SqlDb) (ss : Sig) : SqlDb :=
  { sketches := db.sketches ++ [{ id := db.sketches.length + 1, row := mkRow ss none,
                                  seed := if rs then ss.seed else 42 }],
    hashes := db.hashes ++ ss.hashes.map fun h => (convertHashTo h.1, db.sketches.length + 1) }

def dbOf (rs : Bool) (acc : List Sig) : SqlDb := acc.foldl (push rs) SqlDb.empty

def SameScaled (acc : List Sig) : Prop := ∀ f, acc.head? = some f → ∀ a ∈ acc, a.scaled = f.scaled

/-- the largest rowid is the number of rows (ids are 1..n: nothing is ever deleted) -/
def MaxId (db : SqlDb) : Prop := (db.sketches.map (·.id)).foldl max 0 = db.sketches.length

theorem nextRowid_eq (db : SqlDb) (h : MaxId db) : nextRowid db = db.sketches.length + 1 := by
  unfold nextRowid; rw [h]

theorem maxId_push (rs : Bool) (db : SqlDb) (ss : Sig) (h : MaxId db) : MaxId (push rs db ss) := by
  unfold MaxId at h ⊢
  simp only [push, List.map_append, List.foldl_append, List.map_cons, List.map_nil, List.foldl_cons,
    List.foldl_nil, h, List.length_append, List.length_cons, List.length_nil]
  omega

theorem maxId_fold (rs : Bool) (acc : List Sig) : ∀ db, MaxId db → MaxId (acc.foldl (push rs) db) := by
  induction acc with
  | nil => intro db h; exact h
  | cons s t ih => intro db h; exact ih _ (maxId_push rs db s h)

theorem maxId_dbOf (rs : Bool) (acc : List Sig) : MaxId (dbOf rs acc) :=
  maxId_fold rs acc SqlDb.empty (by simp [MaxId, SqlDb.empty])

/-- with a NULL location the UNIQUE constraint never fires: a row always goes in, under the next rowid,
    and that rowid is what `last_insert_rowid()` then reports (whatever it reported before) -/
theorem insertRowOrIgnore_null (db : SqlDb) (r : Nat) (ss : Sig) (seed : Nat) (h : MaxId db) :
    insertRowOrIgnore db r (mkRow ss none) seed =
      ({ db with sketches := db.sketches ++ [{ id := db.sketches.length + 1, row := mkRow ss none, seed := seed }] },
       db.sketches.length + 1) := by
  unfold insertRowOrIgnore
  simp [mkRow, nextRowid_eq db h]

theorem insert_eq (rs : Bool) (acc : List Sig) (db : SqlDb) (r : Nat) (ss : Sig) (hmax : MaxId db) :
    SqlIndex.insert rs { db := db, scaled := acc.head?.map (·.scaled), lastRowid := r } ss =
      if sqlOk acc ss then .ok { db := push rs db ss, scaled := (acc ++ [ss]).head?.map (·.scaled),
                                 lastRowid := db.sketches.length + 1 }
      else .err .valueError := by
  unfold SqlIndex.insert sqlOk
  by_cases h1 : ss.num = 0
  · by_cases h2 : ss.track = true
    · simp [h1, h2]
    · have h2' : ss.track = false := by simpa using h2
      cases acc with
      | nil => simp [h1, h2', push, insertRowOrIgnore_null db r ss _ hmax]
      | cons f t =>
        by_cases h3 : f.scaled = ss.scaled
        · simp [h1, h2', h3, push, insertRowOrIgnore_null db r ss _ hmax]
        · simp [h1, h2', h3]
  · simp [h1]

theorem sameScaled_snoc (acc : List Sig) (ss : Sig) (h : SameScaled acc) (hok : sqlOk acc ss = true) :
    SameScaled (acc ++ [ss]) := by
  intro f hf a ha
  cases acc with
  | nil =>
    simp only [List.nil_append, List.head?_cons, Option.some.injEq] at hf
    simp only [List.nil_append, List.mem_singleton] at ha
    rw [ha, hf]
  | cons g t =>
    simp only [List.cons_append, List.head?_cons, Option.some.injEq] at hf
    subst hf
    simp only [List.cons_append, List.mem_cons, List.mem_append, List.not_mem_nil, or_false] at ha
    rcases ha with ha | ha | ha
    · rw [ha]
    · exact h g rfl a (by simp [ha])
    · subst ha
      simp only [sqlOk, List.head?_cons, Bool.and_eq_true, decide_eq_true_eq] at hok
      exact hok.2.symm

theorem sqlSessionAdds_eq (rs : Bool) (l : List Sig) : ∀ (acc : List Sig) (r : Nat),
    (sqlSessionAdds rs { db := dbOf rs acc, scaled := acc.head?.map (·.scaled), lastRowid := r } l).1.db =
        dbOf rs (sqlSpecAdds acc l).1 ∧
    (sqlSessionAdds rs { db := dbOf rs acc, scaled := acc.head?.map (·.scaled), lastRowid := r } l).2 =
        (sqlSpecAdds acc l).2 := by
  induction l with
  | nil => intro acc r; exact ⟨rfl, rfl⟩
  | cons ss rest ih =>
    intro acc r
    simp only [sqlSessionAdds, insert_eq rs acc _ r ss (maxId_dbOf rs acc), sqlSpecAdds]
    by_cases h : sqlOk acc ss = true
    · simp only [h, if_true]
      have e : push rs (dbOf rs acc) ss = dbOf rs (acc ++ [ss]) := by simp [dbOf, List.foldl_append]
      rw [e]
      obtain ⟨i1, i2⟩ := ih (acc ++ [ss]) ((dbOf rs acc).sketches.length + 1)
      exact ⟨i1, by rw [i2]⟩
    · have h' : sqlOk acc ss = false := by simpa using h
      simp only [h', Bool.false_eq_true, if_false]
      obtain ⟨i1, i2⟩ := ih acc r
      exact ⟨i1, by rw [i2]⟩

theorem sameScaled_adds (l : List Sig) : ∀ acc, SameScaled acc → SameScaled (sqlSpecAdds acc l).1 := by
  induction l with
  | nil => intro acc h; exact h
  | cons ss rest ih =>
    intro acc h
    simp only [sqlSpecAdds]
    by_cases hok : sqlOk acc ss = true
    · simp only [hok, if_true]; exact ih _ (sameScaled_snoc acc ss h hok)
    · simp only [hok]; exact ih _ h

theorem sketches_dbOf (rs : Bool) (acc : List Sig) :
    ∀ db, (acc.foldl (push rs) db).sketches.map (·.row) = db.sketches.map (·.row) ++ acc.map (mkRow · none) := by
  induction acc with
  | nil => intro db; simp
  | cons s t ih => intro db; simp [List.foldl_cons, ih, push, List.append_assoc]

theorem scaled_fold (rs : Bool) (acc : List Sig) :
    ∀ db, (acc.foldl (push rs) db).sketches.map (·.row.scaled) = db.sketches.map (·.row.scaled) ++ acc.map (·.scaled) := by
  induction acc with
  | nil => intro db; simp
  | cons s t ih => intro db; simp [List.foldl_cons, ih, push, mkRow, List.append_assoc]

theorem dedup_const (l : List Nat) (c : Nat) (h : ∀ a ∈ l, a = c) : dedup l = [] ∨ dedup l = [c] := by
  induction l with
  | nil => left; rfl
  | cons x t ih =>
    right
    have hx : x = c := h x (by simp)
    subst hx
    simp only [dedup]
    rcases ih (fun a ha => h a (by simp [ha])) with e | e
    · simp [e]
    · simp [e]

theorem open_dbOf (rs : Bool) (acc : List Sig) (h : SameScaled acc) :
    SqlIndex.open (dbOf rs acc) = .ok { db := dbOf rs acc, scaled := acc.head?.map (·.scaled), lastRowid := 0 } := by
  have hrows : (dbOf rs acc).sketches.map (·.row.scaled) = acc.map (·.scaled) := by
    have := scaled_fold rs acc SqlDb.empty
    simpa [dbOf, SqlDb.empty] using this
  unfold SqlIndex.open
  rw [hrows]
  cases acc with
  | nil => simp [dedup]
  | cons f t =>
    have hd : dedup ((f :: t).map (·.scaled)) = [f.scaled] := by
      simp only [List.map_cons, dedup]
      have hall : ∀ a ∈ t.map (·.scaled), a = f.scaled := by
        intro a ha
        simp only [List.mem_map] at ha
        obtain ⟨s, hs, e⟩ := ha
        rw [← e]; exact h f rfl s (by simp [hs])
      rcases dedup_const _ _ hall with e | e
      · simp [e]
      · simp [e]
    rw [hd]
    simp

theorem sqlSessions_eq (rs : Bool) (sessions : List (List Sig)) : ∀ acc, SameScaled acc →
    sqlSessions rs (dbOf rs acc) sessions =
      .ok (dbOf rs (sqlSpecSessions acc sessions).1, (sqlSpecSessions acc sessions).2) := by
  induction sessions with
  | nil => intro acc _; rfl
  | cons l rest ih =>
    intro acc h
    have hadds := sqlSessionAdds_eq rs l acc 0
    simp only [sqlSessions, open_dbOf rs acc h, hadds.1, hadds.2, ih _ (sameScaled_adds l acc h), sqlSpecSessions]

/-! ### loading -/

/-- what SqliteIndex can give back of a stored signature: everything, except that the seed is the recorded one -/
def sqlNorm (rs : Bool) (s : Sig) : Sig := { s with seed := if rs then s.seed else 42 }

def WFSql (s : Sig) : Prop := s.num = 0 ∧ s.track = false ∧ FlatSorted s.hashes ∧ ∀ h ∈ s.hashes, h.1 < 2 ^ 64

def Bounded (db : SqlDb) : Prop :=
  (∀ sk ∈ db.sketches, sk.id ≤ db.sketches.length) ∧ (∀ h ∈ db.hashes, h.2 ≤ db.sketches.length)

theorem bounded_push (rs : Bool) (db : SqlDb) (s : Sig) (h : Bounded db) : Bounded (push rs db s) := by
  refine ⟨?_, ?_⟩
  · intro sk hsk
    simp only [push, List.mem_append, List.mem_singleton, List.length_append, List.length_cons,
      List.length_nil] at hsk ⊢
    rcases hsk with hsk | hsk
    · have := h.1 sk hsk; omega
    · subst hsk; simp
  · intro x hx
    simp only [push, List.mem_append, List.mem_map, List.length_append, List.length_cons,
      List.length_nil] at hx ⊢
    rcases hx with hx | ⟨y, _, e⟩
    · have := h.2 x hx; omega
    · subst e; simp

theorem sqlLoadOne_old (rs : Bool) (db : SqlDb) (s : Sig) (h : Bounded db) (sk : SqlSketch) (hsk : sk ∈ db.sketches) :
    sqlLoadOne (push rs db s) sk = sqlLoadOne db sk := by
  have hid := h.1 sk hsk
  unfold sqlLoadOne
  have : (push rs db s).hashes.filter (fun p => decide (p.2 = sk.id)) = db.hashes.filter (fun p => decide (p.2 = sk.id)) := by
    simp only [push, List.filter_append]
    have : (s.hashes.map fun h => (convertHashTo h.1, db.sketches.length + 1)).filter (fun p => decide (p.2 = sk.id)) = [] := by
      rw [List.filter_eq_nil_iff]
      intro a ha
      simp only [List.mem_map] at ha
      obtain ⟨y, _, e⟩ := ha
      subst e
      simp only [decide_eq_true_eq]
      omega
    rw [this]; simp
  rw [this]

theorem sqlLoadOne_new (rs : Bool) (db : SqlDb) (s : Sig) (h : Bounded db) (hw : WFSql s) :
    sqlLoadOne (push rs db s) { id := db.sketches.length + 1, row := mkRow s none, seed := if rs then s.seed else 42 }
      = sqlNorm rs s := by
  unfold sqlLoadOne
  have hf : (push rs db s).hashes.filter (fun p => decide (p.2 = db.sketches.length + 1)) =
      s.hashes.map fun h => (convertHashTo h.1, db.sketches.length + 1) := by
    simp only [push, List.filter_append]
    have h1 : db.hashes.filter (fun p => decide (p.2 = db.sketches.length + 1)) = [] := by
      rw [List.filter_eq_nil_iff]
      intro a ha
      have := h.2 a ha
      simp only [decide_eq_true_eq]; omega
    have h2 : (s.hashes.map fun h => (convertHashTo h.1, db.sketches.length + 1)).filter
        (fun p => decide (p.2 = db.sketches.length + 1)) = s.hashes.map fun h => (convertHashTo h.1, db.sketches.length + 1) := by
      rw [List.filter_eq_self]
      intro a ha
      simp only [List.mem_map] at ha
      obtain ⟨y, _, e⟩ := ha
      subst e; simp
    rw [h1, h2]; simp
  simp only [hf, List.map_map]
  have hconv : s.hashes.map ((fun p : Int × Nat => convertHashFrom p.1) ∘ fun h => (convertHashTo h.1, db.sketches.length + 1))
      = s.hashes.map (·.1) := by
    apply List.map_congr_left
    intro a ha
    simp only [Function.comp]
    exact convert_roundtrip a.1 (hw.2.2.2 a ha)
  rw [hconv]
  have := foldl_insertHash_sorted s.hashes hw.2.2.1 [] (by intro y hy; cases hy)
  simp only [List.nil_append] at this
  rw [this]
  obtain ⟨h1, h2, _, _⟩ := hw
  cases s
  simp only at h1 h2
  subst h1; subst h2
  simp [sqlNorm, mkRow]

theorem sqlLoad_push (rs : Bool) (db : SqlDb) (s : Sig) (h : Bounded db) (hw : WFSql s) :
    sqlLoad (push rs db s) = sqlLoad db ++ [sqlNorm rs s] := by
  unfold sqlLoad
  have e : (push rs db s).sketches = db.sketches ++
      [(⟨db.sketches.length + 1, mkRow s none, if rs then s.seed else 42⟩ : SqlSketch)] := rfl
  rw [e, List.map_append]
  congr 1
  · apply List.map_congr_left
    intro sk hsk
    exact sqlLoadOne_old rs db s h sk hsk
  · simp only [List.map_cons, List.map_nil]
    rw [sqlLoadOne_new rs db s h hw]

theorem sqlLoad_fold (rs : Bool) (acc : List Sig) : ∀ db, Bounded db → (∀ s ∈ acc, WFSql s) →
    sqlLoad (acc.foldl (push rs) db) = sqlLoad db ++ acc.map (sqlNorm rs) := by
  induction acc with
  | nil => intro db _ _; simp
  | cons s t ih =>
    intro db hb hw
    simp only [List.foldl_cons]
    rw [ih _ (bounded_push rs db s hb) (fun x hx => hw x (by simp [hx])),
      sqlLoad_push rs db s hb (hw s (by simp))]
    simp [List.append_assoc]

theorem sqlLoad_dbOf (rs : Bool) (acc : List Sig) (hw : ∀ s ∈ acc, WFSql s) :
    sqlLoad (dbOf rs acc) = acc.map (sqlNorm rs) := by
  have := sqlLoad_fold rs acc SqlDb.empty (by simp [Bounded, SqlDb.empty]) hw
  simpa [dbOf, sqlLoad, SqlDb.empty] using this

theorem sqlManifest_dbOf (rs : Bool) (acc : List Sig) : sqlManifest (dbOf rs acc) = acc.map (mkRow · none) := by
  have := sketches_dbOf rs acc SqlDb.empty
  simpa [dbOf, sqlManifest, SqlDb.empty] using this

/-- everything the spec accepts was handed in, is flat and scaled -/
theorem sqlSpecAdds_mem (l : List Sig) : ∀ acc s, s ∈ (sqlSpecAdds acc l).1 → s ∈ acc ∨ (s ∈ l ∧ s.num = 0 ∧ s.track = false) := by
  induction l with
  | nil => intro acc s h; exact Or.inl h
  | cons x t ih =>
    intro acc s h
    simp only [sqlSpecAdds] at h
    by_cases hok : sqlOk acc x = true
    · simp only [hok, if_true] at h
      rcases ih _ s h with h' | h'
      · simp only [List.mem_append, List.mem_singleton] at h'
        rcases h' with h' | h'
        · exact Or.inl h'
        · subst h'
          simp only [sqlOk, Bool.and_eq_true, decide_eq_true_eq, Bool.not_eq_eq_eq_not, Bool.not_true] at hok
          exact Or.inr ⟨by simp, hok.1.1, hok.1.2⟩
      · exact Or.inr ⟨by simp [h'.1], h'.2⟩
    · simp only [hok] at h
      rcases ih _ s h with h' | h'
      · exact Or.inl h'
      · exact Or.inr ⟨by simp [h'.1], h'.2⟩

theorem sqlSpecSessions_mem (sessions : List (List Sig)) : ∀ acc s, s ∈ (sqlSpecSessions acc sessions).1 →
    s ∈ acc ∨ (s ∈ sessions.flatten ∧ s.num = 0 ∧ s.track = false) := by
  induction sessions with
  | nil => intro acc s h; exact Or.inl h
  | cons l rest ih =>
    intro acc s h
    simp only [sqlSpecSessions] at h
    rcases ih _ s h with h' | h'
    · rcases sqlSpecAdds_mem l acc s h' with h'' | h''
      · exact Or.inl h''
      · exact Or.inr ⟨by simp [h''.1], h''.2⟩
    · exact Or.inr ⟨by simp [h'.1], h'.2⟩

/-! ### append sessions -/

theorem sqlSpecSessions_append (a b : List (List Sig)) : ∀ acc,
    (sqlSpecSessions acc (a ++ b)).1 = (sqlSpecSessions (sqlSpecSessions acc a).1 b).1 := by
  induction a with
  | nil => intro acc; rfl
  | cons l rest ih => intro acc; simp only [List.cons_append, sqlSpecSessions, ih]

theorem sqlSpecAdds_prefix (l : List Sig) : ∀ acc, ∃ new, (sqlSpecAdds acc l).1 = acc ++ new ∧ ∀ s ∈ new, s ∈ l := by
  induction l with
  | nil => intro acc; exact ⟨[], by simp [sqlSpecAdds], by simp⟩
  | cons x t ih =>
    intro acc
    simp only [sqlSpecAdds]
    by_cases hok : sqlOk acc x = true
    · simp only [hok, if_true]
      obtain ⟨new, h1, h2⟩ := ih (acc ++ [x])
      refine ⟨x :: new, by rw [h1]; simp, ?_⟩
      intro s hs
      simp only [List.mem_cons] at hs ⊢
      rcases hs with hs | hs
      · exact Or.inl hs
      · exact Or.inr (h2 s hs)
    · simp only [hok]
      obtain ⟨new, h1, h2⟩ := ih acc
      exact ⟨new, h1, fun s hs => by simp [h2 s hs]⟩

theorem sqlSpecSessions_prefix (sessions : List (List Sig)) : ∀ acc,
    ∃ new, (sqlSpecSessions acc sessions).1 = acc ++ new ∧ ∀ s ∈ new, s ∈ sessions.flatten := by
  induction sessions with
  | nil => intro acc; exact ⟨[], by simp [sqlSpecSessions], by simp⟩
  | cons l rest ih =>
    intro acc
    obtain ⟨n1, h1, m1⟩ := sqlSpecAdds_prefix l acc
    obtain ⟨n2, h2, m2⟩ := ih (sqlSpecAdds acc l).1
    refine ⟨n1 ++ n2, by simp only [sqlSpecSessions]; rw [h2, h1]; simp, ?_⟩
    intro s hs
    simp only [List.mem_append] at hs
    simp only [List.flatten_cons, List.mem_append]
    rcases hs with hs | hs
    · exact Or.inl (m1 s hs)
    · exact Or.inr (m2 s hs)

end Sm.Storage
