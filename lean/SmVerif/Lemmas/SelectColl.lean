/-
C12 helper lemmas: `filterE`, the SQL path against `Sat`, merging of selection dicts, and the
`select` / `signatures` / `find` of the collection classes.
-/
import SmVerif.Lemmas.SelectSpec

namespace Sm.Select

open Sm.Gen (SelParam SelAttr SelExpr SelStmt StrOp PreFn Coltype PickSrc)

/-! ### filterE -/

theorem filterE_ok_of_forall {α : Type} {p : α → Except Err Bool} {f : α → Bool} {l : List α}
    (h : ∀ x ∈ l, p x = .ok (f x)) : filterE p l = .ok (l.filter f) := by
  induction l with
  | nil => rfl
  | cons x xs ih =>
    have hx := h x (List.mem_cons_self ..)
    have hxs := ih (fun y hy => h y (List.mem_cons_of_mem _ hy))
    simp only [filterE, hx, hxs, List.filter_cons]

/-- the Boolean a possibly raising predicate answered -/
def okVal (x : Except Err Bool) : Bool :=
  match x with
  | .ok b => b
  | .error _ => false

theorem filterE_ok_inv {α : Type} {p : α → Except Err Bool} {l r : List α} (h : filterE p l = .ok r) :
    (∀ x ∈ l, p x = .ok (okVal (p x))) ∧ r = l.filter (fun x => okVal (p x)) := by
  induction l generalizing r with
  | nil => simp [filterE] at h; subst h; simp
  | cons x xs ih =>
    simp only [filterE] at h
    cases hx : p x with
    | error e => simp [hx] at h
    | ok b =>
      simp only [hx] at h
      cases hxs : filterE p xs with
      | error e => simp [hxs] at h
      | ok r' =>
        simp only [hxs] at h
        injection h with h
        obtain ⟨h1, h2⟩ := ih hxs
        refine ⟨?_, ?_⟩
        · intro y hy
          rcases List.mem_cons.mp hy with rfl | hy
          · simp [hx, okVal]
          · exact h1 y hy
        · subst h
          rw [List.filter_cons, hx, h2]
          cases b <;> rfl

theorem filterE_error_inv {α : Type} {p : α → Except Err Bool} {l : List α} {e : Err} (h : filterE p l = .error e) :
    ∃ x ∈ l, p x = .error e := by
  induction l with
  | nil => simp [filterE] at h
  | cons x xs ih =>
    simp only [filterE] at h
    cases hx : p x with
    | error e' =>
      simp only [hx] at h
      injection h with h
      exact ⟨x, List.mem_cons_self .., by rw [hx, h]⟩
    | ok b =>
      simp only [hx] at h
      cases hxs : filterE p xs with
      | error e' =>
        simp only [hxs] at h
        injection h with h
        obtain ⟨y, hy, hpy⟩ := ih (by rw [hxs, h])
        exact ⟨y, List.mem_cons_of_mem _ hy, hpy⟩
      | ok r' => simp [hxs] at h

/-- a filter whose predicate never raises and is `f` on the list -/
theorem filterE_eq_filter {α : Type} {p : α → Except Err Bool} {f : α → Bool} {l r : List α}
    (h : filterE p l = .ok r) (hf : ∀ x ∈ l, ∀ b, p x = .ok b → b = f x) : r = l.filter f := by
  obtain ⟨h1, h2⟩ := filterE_ok_inv h
  rw [h2]
  apply List.filter_congr
  intro x hx
  exact hf x hx _ (h1 x hx)

/-! ### the SQL path against `Sat` -/

theorem rowRaw_sqlRow (ct : Coltype) (r : Row) : rowRaw ct (sqlRow r) = rowRaw ct r := by
  unfold sqlRow rowRaw
  split <;> rfl

theorem matchesRow_sqlRow (pl : Picklist) (r : Row) : pl.matchesRow (sqlRow r) = pl.matchesRow r := by
  unfold Picklist.matchesRow rowValueP
  rw [rowRaw_sqlRow]

theorem sqlRowPasses_eq (r : Row) (c : Crit) :
    sqlRowPasses r c = if refSqlWhere r c then (match c.picklist with
      | some pl => pl.matchesRow r
      | none => .ok true) else .ok false := by
  have h := sqlWherePasses_eq_ref r c
  unfold sqlWherePasses at h
  unfold sqlRowPasses
  rw [h, condE_ok]
  cases c.picklist <;> simp [matchesRow_sqlRow]

/-- with a clause for `abund` and the num compared by value, the SQL `WHERE` is the reference filter on every
    well-formed sketch (SQL asks `scaled > 0` where the reference asks `num == 0`: the same thing on a sketch) -/
theorem refSqlWhere_eq_satCore {s : Sig} (c : Crit) (loc : Nat) (hwf : WF s) :
    refSqlWhere (mkRow s loc) c = satCore c s := by
  unfold refSqlWhere satCore mkRow WF at *
  simp only [bne]
  cases h1 : c.ksizeBad s.ksize <;> cases h2 : c.molBad s.mol <;> cases h3 : c.cont <;> cases h4 : c.abundReq <;>
    cases h5 : s.abund <;>
    cases e1 : (c.scaledV == 0) <;> cases e2 : (s.scaled == 0) <;> cases e3 : (s.num == 0) <;>
    cases e4 : (c.numV == 0) <;> cases e5 : (c.numV == s.num) <;>
    first
      | rfl
      | (exfalso
         simp only [beq_iff_eq, beq_eq_false_iff_ne, ne_eq] at e1 e2 e3 e4 e5
         omega)

/-- a row made from a well-formed `s` passes the SQL selection iff `s` satisfies the request; never raises -/
theorem sqlRowPasses_total {s : Sig} (c : Crit) (loc : Nat) (hwf : WF s) :
    sqlRowPasses (mkRow s loc) c = .ok (Sat c s) := by
  rw [sqlRowPasses_eq, refSqlWhere_eq_satCore c loc hwf, Sat_eq]
  cases hc : satCore c s <;> simp
  unfold plOk
  cases hp : c.picklist <;> simp [matchesRow_total]

/-! ### LinearIndex -/

theorem linear_select_ok {sigs : List Sig} {c : Crit} {y : Coll} (hwf : ∀ s ∈ sigs, WF s)
    (h : ((Coll.linear sigs).select c).2 = .ok y) : y = .linear (sigs.filter (Sat c)) := by
  simp only [Coll.select] at h
  cases hf : filterE (selectSignature · c) sigs with
  | error e => simp [hf] at h
  | ok l =>
    simp only [hf] at h
    injection h with h
    rw [← h, filterE_eq_filter hf (fun s hs b hb => selectSignature_ok (hwf s hs) hb)]

theorem linear_select_error {sigs : List Sig} {c : Crit} {e : Err} (hwf : ∀ s ∈ sigs, WF s)
    (h : ((Coll.linear sigs).select c).2 = .error e) : e = .value ∧ c.incoherent = true := by
  simp only [Coll.select] at h
  cases hf : filterE (selectSignature · c) sigs with
  | ok l => simp [hf] at h
  | error e' =>
    simp only [hf] at h
    injection h with h
    obtain ⟨s, hs, hse⟩ := filterE_error_inv hf
    rw [← h]
    exact selectSignature_error (hwf s hs) hse

/-! ### manifest-based collections -/

/-- every manifest row was made by `make_manifest_row` from the signature it stands for -/
def RowsOf (rows : List (Row × Sig)) : Prop := ∀ rs ∈ rows, ∃ loc, rs.1 = mkRow rs.2 loc

/-- `MultiIndex.select` never refuses and keeps exactly the rows whose signature satisfies the request -/
theorem multi_select_total {rows : List (Row × Sig)} (c : Crit) (hrows : RowsOf rows) :
    ((Coll.multi rows).select c).2 = .ok (.multi (rows.filter (fun rs => Sat c rs.2))) := by
  simp only [Coll.select]
  rw [filterE_ok_of_forall (f := fun rs => Sat c rs.2)]
  intro rs hrs
  obtain ⟨loc, hloc⟩ := hrows rs hrs
  rw [hloc]
  exact rowPasses_total rs.2 c loc

/-! ### merged selection dicts: one merged predicate = the conjunction -/

theorem Sat_empty (s : Sig) : Sat {} s = true := rfl

theorem argMerge_absent {α : Type} (a : Arg α) : argMerge .absent a = a := by cases a <;> rfl
theorem optMerge_none {α : Type} (a : Option α) : optMerge none a = a := by cases a <;> rfl

theorem merge_empty (c : Crit) : Crit.merge {} c = c := by
  rcases c with ⟨ks, mt, sc, nm, ab, ct, pl⟩
  simp [Crit.merge, argMerge_absent, optMerge_none]

theorem isEmpty_iff (c : Crit) : c.isEmpty = true ↔ c = {} := by
  rcases c with ⟨ks, mt, sc, nm, ab, ct, pl⟩
  constructor
  · intro h
    simp only [Crit.isEmpty, Bool.and_eq_true, beq_iff_eq, Option.isNone_iff_eq_none] at h
    obtain ⟨⟨⟨⟨⟨⟨h1, h2⟩, h3⟩, h4⟩, h5⟩, h6⟩, h7⟩ := h
    subst h1 h2 h3 h4 h5 h6 h7
    rfl
  · intro h
    injection h with h1 h2 h3 h4 h5 h6 h7
    subst h1 h2 h3 h4 h5 h6 h7
    rfl

/-! per-field factors of `Sat` -/

def fK (s : Sig) (a : Arg Nat) : Bool := match a with | .val v => !(v != 0 && v != s.ksize) | _ => true
def fM (s : Sig) (a : Arg Mol) : Bool := match a with | .val v => !(v != s.mol) | _ => true
def fS (s : Sig) (a : Option Nat) : Bool := a.getD 0 == 0 || (s.scaled != 0 && s.num == 0)
def fC (s : Sig) (a : Option Bool) : Bool := !(a.getD false) || (s.scaled != 0 && s.num == 0)
def fN (s : Sig) (a : Option Nat) : Bool := a.getD 0 == 0 || (a.getD 0 == s.num && s.scaled == 0)
def fA (s : Sig) (a : Arg Bool) : Bool := match a with | .val true => s.abund | _ => true
def fP (s : Sig) (a : Option Picklist) : Bool := match a with | some pl => pl.hasSig s | none => true

theorem Sat_factors (c : Crit) (s : Sig) :
    Sat c s = (fK s c.ksize && fM s c.moltype && fS s c.scaled && fC s c.containment && fN s c.num
      && fA s c.abund && fP s c.picklist) := by
  rcases c with ⟨ks, mt, sc, nm, ab, ct, pl⟩
  have hk : (Crit.ksizeBad ⟨ks, mt, sc, nm, ab, ct, pl⟩ s.ksize) = !fK s ks := by
    cases ks <;> simp [Crit.ksizeBad, fK]
  have hm : (Crit.molBad ⟨ks, mt, sc, nm, ab, ct, pl⟩ s.mol) = !fM s mt := by
    cases mt <;> simp [Crit.molBad, fM]
  have ha : (!(Crit.abundReq ⟨ks, mt, sc, nm, ab, ct, pl⟩) || s.abund) = fA s ab := by
    rcases ab with _ | _ | (_ | _) <;> simp [Crit.abundReq, fA]
  have hsc : (!(Crit.scaledV ⟨ks, mt, sc, nm, ab, ct, pl⟩ != 0 || Crit.cont ⟨ks, mt, sc, nm, ab, ct, pl⟩)
      || (s.scaled != 0 && s.num == 0)) = (fS s sc && fC s ct) := by
    simp only [Crit.scaledV, Crit.cont, fS, fC, bne]
    cases (sc.getD 0 == 0) <;> cases (ct.getD false) <;> cases (!(s.scaled == 0) && s.num == 0) <;> rfl
  unfold Sat
  rw [hk, hm, ha, hsc]
  simp only [Crit.numV, fN, fP, Bool.not_not, Bool.and_assoc]
  cases pl <;> rfl

section mergefields
variable (s : Sig)

theorem fK_merge_lazy {o n : Arg Nat} (h : argConflictLazy o n = false) :
    fK s (argMerge o n) = (fK s o && fK s n) := by
  cases o <;> cases n <;> simp_all [argConflictLazy, argMerge, fK]

theorem fK_merge_zip {o n : Arg Nat} (h : argConflictZip o n = false) :
    fK s (argMerge o n) = (fK s o && fK s n) := by
  cases o <;> cases n <;> simp_all [argConflictZip, argMerge, fK]

theorem fM_merge_lazy {o n : Arg Mol} (h : argConflictLazy o n = false) :
    fM s (argMerge o n) = (fM s o && fM s n) := by
  cases o <;> cases n <;> simp_all [argConflictLazy, argMerge, fM]

theorem fM_merge_zip {o n : Arg Mol} (h : argConflictZip o n = false) :
    fM s (argMerge o n) = (fM s o && fM s n) := by
  cases o <;> cases n <;> simp_all [argConflictZip, argMerge, fM]

theorem fA_merge_lazy {o n : Arg Bool} (h : argConflictLazy o n = false) :
    fA s (argMerge o n) = (fA s o && fA s n) := by
  rcases o with _ | _ | (_ | _) <;> rcases n with _ | _ | (_ | _) <;> simp_all [argConflictLazy, argMerge, fA]

theorem fA_merge_zip {o n : Arg Bool} (h : argConflictZip o n = false) :
    fA s (argMerge o n) = (fA s o && fA s n) := by
  rcases o with _ | _ | (_ | _) <;> rcases n with _ | _ | (_ | _) <;> simp_all [argConflictZip, argMerge, fA]

theorem fS_merge {o n : Option Nat} (h : optConflict o n = false) :
    fS s (optMerge o n) = (fS s o && fS s n) := by
  cases o <;> cases n <;> simp_all [optConflict, optMerge, fS]

theorem fN_merge {o n : Option Nat} (h : optConflict o n = false) :
    fN s (optMerge o n) = (fN s o && fN s n) := by
  cases o <;> cases n <;> simp_all [optConflict, optMerge, fN]

theorem fC_merge {o n : Option Bool} (h : optConflict o n = false) :
    fC s (optMerge o n) = (fC s o && fC s n) := by
  cases o <;> cases n <;> simp_all [optConflict, optMerge, fC]

theorem fP_merge {o n : Option Picklist} (h : plConflict o n = false)
    (hid : ∀ p q, o = some p → n = some q → p.id = q.id → p = q) :
    fP s (optMerge o n) = (fP s o && fP s n) := by
  cases o with
  | none => cases n <;> simp [optMerge, fP]
  | some p =>
    cases n with
    | none => simp [optMerge, fP]
    | some q =>
      have : p = q := hid p q rfl rfl (by simpa [plConflict] using h)
      subst this
      simp [optMerge, fP]

end mergefields

/-- picklists are objects: two picklists carrying the same identity are the same picklist -/
def SamePl (c1 c2 : Crit) : Prop := ∀ p q, c1.picklist = some p → c2.picklist = some q → p.id = q.id → p = q

theorem Sat_merge_of_noconflict {c1 c2 : Crit} (s : Sig)
    (hk : fK s (argMerge c1.ksize c2.ksize) = (fK s c1.ksize && fK s c2.ksize))
    (hm : fM s (argMerge c1.moltype c2.moltype) = (fM s c1.moltype && fM s c2.moltype))
    (hs : fS s (optMerge c1.scaled c2.scaled) = (fS s c1.scaled && fS s c2.scaled))
    (hc : fC s (optMerge c1.containment c2.containment) = (fC s c1.containment && fC s c2.containment))
    (hn : fN s (optMerge c1.num c2.num) = (fN s c1.num && fN s c2.num))
    (ha : fA s (argMerge c1.abund c2.abund) = (fA s c1.abund && fA s c2.abund))
    (hp : fP s (optMerge c1.picklist c2.picklist) = (fP s c1.picklist && fP s c2.picklist)) :
    Sat (c1.merge c2) s = (Sat c1 s && Sat c2 s) := by
  rw [Sat_factors, Sat_factors c1, Sat_factors c2]
  simp only [Crit.merge]
  rw [hk, hm, hs, hc, hn, ha, hp]
  ac_rfl

theorem mergeLazy_sat {c1 c2 d : Crit} (s : Sig) (hid : SamePl c1 c2) (h : mergeLazy c1 c2 = .ok d) :
    Sat d s = (Sat c1 s && Sat c2 s) := by
  unfold mergeLazy at h
  split at h
  · cases h
  · rename_i hc
    injection h with h
    subst h
    simp only [Bool.or_eq_true, not_or, Bool.not_eq_true] at hc
    obtain ⟨⟨⟨⟨⟨⟨h1, h2⟩, h3⟩, h4⟩, h5⟩, h6⟩, h7⟩ := hc
    exact Sat_merge_of_noconflict s (fK_merge_lazy s h1) (fM_merge_lazy s h2) (fS_merge s h3) (fC_merge s h6)
      (fN_merge s h4) (fA_merge_lazy s h5) (fP_merge s h7 hid)

theorem mergeZip_sat {c1 c2 d : Crit} (s : Sig) (hid : SamePl c1 c2) (h : mergeZip c1 c2 = .ok d) :
    Sat d s = (Sat c1 s && Sat c2 s) := by
  unfold mergeZip at h
  split at h
  · rename_i he
    injection h with h
    subst h
    rw [(isEmpty_iff c1).mp he, Sat_empty, Bool.true_and]
  · split at h
    · cases h
    · rename_i hc
      injection h with h
      subst h
      simp only [Bool.or_eq_true, not_or, Bool.not_eq_true] at hc
      obtain ⟨⟨⟨⟨⟨⟨h1, h2⟩, h3⟩, h4⟩, h5⟩, h6⟩, h7⟩ := hc
      exact Sat_merge_of_noconflict s (fK_merge_zip s h1) (fM_merge_zip s h2) (fS_merge s h3) (fC_merge s h6)
        (fN_merge s h4) (fA_merge_zip s h5) (fP_merge s h7 hid)

/-! ### LazyLinearIndex and ZipFileLinearIndex without a manifest -/

theorem mergeLazy_empty (c : Crit) : mergeLazy {} c = .ok c := by
  unfold mergeLazy
  have h : (argConflictLazy ({} : Crit).ksize c.ksize || argConflictLazy ({} : Crit).moltype c.moltype
      || optConflict ({} : Crit).scaled c.scaled || optConflict ({} : Crit).num c.num
      || argConflictLazy ({} : Crit).abund c.abund || optConflict ({} : Crit).containment c.containment
      || plConflict ({} : Crit).picklist c.picklist) = false := by
    simp [argConflictLazy, optConflict, plConflict]
  rw [h]
  simp [merge_empty]

theorem filter_selectSignature {sigs l : List Sig} {d : Crit} (hwf : ∀ s ∈ sigs, WF s)
    (h : filterE (selectSignature · d) sigs = .ok l) : l = sigs.filter (Sat d) :=
  filterE_eq_filter h (fun s hs _ hb => selectSignature_ok (hwf s hs) hb)

theorem lazy_signatures {sigs l : List Sig} {d : Crit} (hwf : ∀ s ∈ sigs, WF s)
    (h : (Coll.lazy sigs d).signatures = .ok l) : l = sigs.filter (Sat d) :=
  filter_selectSignature hwf h

theorem lazy_select {sigs : List Sig} {d c : Crit} {z : Coll} (h : ((Coll.lazy sigs d).select c).2 = .ok z) :
    ∃ d', mergeLazy d c = .ok d' ∧ z = .lazy sigs d' := by
  simp only [Coll.select] at h
  cases hm : mergeLazy d c with
  | error e => simp [hm] at h
  | ok d' =>
    simp only [hm] at h
    injection h with h
    exact ⟨d', rfl, h.symm⟩

theorem zipNM_signatures {sigs l : List Sig} {d : Crit} (hwf : ∀ s ∈ sigs, WF s)
    (h : (Coll.zipNM sigs d).signatures = .ok l) : l = sigs.filter (Sat d) := by
  simp only [Coll.signatures] at h
  split at h
  · rename_i he
    injection h with h
    rw [← h, (isEmpty_iff d).mp he]
    exact (List.filter_eq_self.mpr (fun s _ => Sat_empty s)).symm
  · exact filter_selectSignature hwf h

theorem zipNM_select {sigs : List Sig} {d c : Crit} {z : Coll} (h : ((Coll.zipNM sigs d).select c).2 = .ok z) :
    ∃ d', mergeZip d c = .ok d' ∧ z = .zipNM sigs d' := by
  simp only [Coll.select] at h
  cases hm : mergeZip d c with
  | error e => simp [hm] at h
  | ok d' =>
    simp only [hm] at h
    injection h with h
    exact ⟨d', rfl, h.symm⟩

theorem mergeZip_empty (c : Crit) : mergeZip {} c = .ok c := by
  unfold mergeZip
  have : ({} : Crit).isEmpty = true := rfl
  rw [if_pos this]

/-! ### search -/

theorem baseFind_subset {sigs : Except Err (List Sig)} {q : Sig} {l l0 : List Sig}
    (h : baseFind sigs q = .ok l) (h0 : sigs = .ok l0) : l = l0.filter (overlaps q) ∧ l0.all (comparable q) = true := by
  subst h0
  simp only [baseFind] at h
  split at h
  · injection h with h
    exact ⟨h.symm, by assumption⟩
  · cases h

end Sm.Select
