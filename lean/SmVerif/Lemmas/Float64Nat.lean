/-
Natural-number level facts about the exact binary64 model (`Model/Float64.lean`):
the rounding shift `shiftRNE` is within half a unit, the pre-quotient of `divNat`
has 55 or 56 bits, and `divNat` in "normal form".
-/
import SmVerif.Model.Float64
import Mathlib.Tactic.Linarith
import Mathlib.Tactic.Ring

namespace Sm.F64

/-- `shiftRNE n d st` is `n / 2^d` rounded to an adjacent integer, within half a
unit of the exact quotient `(n + ρ/den) / 2^d`, where `ρ/den < 1` is the part below
`n`'s unit that `st` (sticky) summarises. -/
theorem shiftRNE_core (n d den ρ : Nat) (st : Bool) (hd : 0 < d) (hρ : ρ < den)
    (hst : st = true ↔ ρ ≠ 0) :
    2 * (shiftRNE n d st * 2 ^ d * den) ≤ 2 * (n * den + ρ) + 2 ^ d * den ∧
    2 * (n * den + ρ) ≤ 2 * (shiftRNE n d st * 2 ^ d * den) + 2 ^ d * den ∧
    (shiftRNE n d st = n / 2 ^ d ∨ shiftRNE n d st = n / 2 ^ d + 1) := by
  unfold shiftRNE
  rw [if_neg (by omega)]
  simp only []
  obtain ⟨k, rfl⟩ : ∃ k, d = k + 1 := ⟨d - 1, by omega⟩
  simp only [Nat.add_sub_cancel]
  have hP : 2 ^ (k + 1) = 2 * 2 ^ k := by rw [Nat.pow_succ]; ring
  have hHpos : 0 < 2 ^ k := Nat.pow_pos (by decide)
  rw [hP]
  generalize 2 ^ k = H at *
  have hn := Nat.div_add_mod n (2 * H)
  have hr := Nat.mod_lt n (show 0 < 2 * H by omega)
  generalize n / (2 * H) = q at *
  generalize n % (2 * H) = r at *
  subst hn
  have h1 : (r + 1) * den ≤ 2 * H * den := Nat.mul_le_mul_right den (by omega)
  have h2 : 1 * den ≤ H * den := Nat.mul_le_mul_right den (by omega)
  by_cases c1 : r > H
  · rw [if_pos c1]
    have h3 : (H + 1) * den ≤ r * den := Nat.mul_le_mul_right den (by omega)
    refine ⟨?_, ?_, Or.inr rfl⟩ <;> nlinarith
  · rw [if_neg c1]
    by_cases c2 : r = H
    · rw [if_pos c2]
      subst c2
      cases st with
      | true =>
        rw [if_pos rfl]
        refine ⟨?_, ?_, Or.inr rfl⟩ <;> nlinarith
      | false =>
        have hρ0 : ρ = 0 := by
          by_contra hne
          exact absurd (hst.2 hne) (by decide)
        subst hρ0
        rw [if_neg (by decide)]
        by_cases c3 : q % 2 = 1
        · rw [if_pos c3]
          refine ⟨?_, ?_, Or.inr rfl⟩ <;> nlinarith
        · rw [if_neg c3]
          refine ⟨?_, ?_, Or.inl rfl⟩ <;> nlinarith
    · rw [if_neg c2]
      have h3 : (r + 1) * den ≤ H * den := Nat.mul_le_mul_right den (by omega)
      refine ⟨?_, ?_, Or.inl rfl⟩ <;> nlinarith


theorem log2_bounds {n : Nat} (h : 0 < n) : 2 ^ Nat.log2 n ≤ n ∧ n < 2 ^ (Nat.log2 n + 1) :=
  ⟨Nat.log2_self_le (by omega), Nat.lt_log2_self⟩

theorem log2_eq_of_bounds {n k : Nat} (h1 : 2 ^ k ≤ n) (h2 : n < 2 ^ (k + 1)) : Nat.log2 n = k := by
  have hn : n ≠ 0 := by
    have : 0 < 2 ^ k := Nat.pow_pos (by decide)
    omega
  have a : k ≤ Nat.log2 n := (Nat.le_log2 hn).2 h1
  have b : Nat.log2 n < k + 1 := (Nat.log2_lt hn).2 h2
  omega

/-- the scaled operands of `divNat`: the pre-quotient lies in `[2^54, 2^56)` -/
theorem divNat_scale (a b : Nat) (ha : 0 < a) (hb : 0 < b) :
    let s : Int := 55 + (Nat.log2 b : Int) - (Nat.log2 a : Int)
    2 ^ 54 * (b * 2 ^ (-s).toNat) ≤ a * 2 ^ s.toNat ∧
    a * 2 ^ s.toNat < 2 ^ 56 * (b * 2 ^ (-s).toNat) := by
  obtain ⟨a1, a2⟩ := log2_bounds ha
  obtain ⟨b1, b2⟩ := log2_bounds hb
  generalize Nat.log2 a = la at *
  generalize Nat.log2 b = lb at *
  intro s
  have hsdef : s = 55 + (lb : Int) - (la : Int) := rfl
  by_cases hs : la ≤ 55 + lb
  · have e1 : s.toNat = 55 + lb - la := by omega
    have e2 : (-s).toNat = 0 := by omega
    rw [e1, e2, Nat.pow_zero, Nat.mul_one]
    generalize hk : 55 + lb - la = k
    have p1 : 2 ^ 54 * 2 ^ (lb + 1) = 2 ^ la * 2 ^ k := by
      rw [← Nat.pow_add, ← Nat.pow_add]; congr 1; omega
    have p2 : 2 ^ (la + 1) * 2 ^ k = 2 ^ 56 * 2 ^ lb := by
      rw [← Nat.pow_add, ← Nat.pow_add]; congr 1; omega
    have hk0 : 0 < 2 ^ k := Nat.pow_pos (by decide)
    constructor
    · calc 2 ^ 54 * b ≤ 2 ^ 54 * 2 ^ (lb + 1) := Nat.mul_le_mul_left _ (Nat.le_of_lt b2)
        _ = 2 ^ la * 2 ^ k := p1
        _ ≤ a * 2 ^ k := Nat.mul_le_mul_right _ a1
    · calc a * 2 ^ k < 2 ^ (la + 1) * 2 ^ k := Nat.mul_lt_mul_of_pos_right a2 hk0
        _ = 2 ^ 56 * 2 ^ lb := p2
        _ ≤ 2 ^ 56 * b := Nat.mul_le_mul_left _ b1
  · have e1 : s.toNat = 0 := by omega
    have e2 : (-s).toNat = la - (55 + lb) := by omega
    rw [e1, e2, Nat.pow_zero, Nat.mul_one]
    generalize hk : la - (55 + lb) = k
    have p1 : 2 ^ 54 * (2 ^ (lb + 1) * 2 ^ k) = 2 ^ la := by
      rw [← Nat.pow_add, ← Nat.pow_add]; congr 1; omega
    have p2 : 2 ^ (la + 1) = 2 ^ 56 * (2 ^ lb * 2 ^ k) := by
      rw [← Nat.pow_add, ← Nat.pow_add]; congr 1; omega
    have hk0 : 0 < 2 ^ k := Nat.pow_pos (by decide)
    constructor
    · calc 2 ^ 54 * (b * 2 ^ k) ≤ 2 ^ 54 * (2 ^ (lb + 1) * 2 ^ k) :=
            Nat.mul_le_mul_left _ (Nat.mul_le_mul_right _ (Nat.le_of_lt b2))
        _ = 2 ^ la := p1
        _ ≤ a := a1
    · calc a < 2 ^ (la + 1) := a2
        _ = 2 ^ 56 * (2 ^ lb * 2 ^ k) := p2
        _ ≤ 2 ^ 56 * (b * 2 ^ k) := Nat.mul_le_mul_left _ (Nat.mul_le_mul_right _ b1)

/-- `divNat` in normal form: a 53-bit mantissa `m` (or `2^53`, renormalised) within half
a unit in the last place of the exact quotient; everything scaled to naturals. -/
theorem divNat_nat (a b : Nat) (ha : 0 < a) (hb : 0 < b) :
    ∃ k1 k2 d m : Nat,
      (d = 2 ∨ d = 3) ∧ 2 ^ 52 ≤ m ∧ m ≤ 2 ^ 53 ∧
      2 * (m * 2 ^ d * (b * 2 ^ k2)) ≤ 2 * (a * 2 ^ k1) + 2 ^ d * (b * 2 ^ k2) ∧
      2 * (a * 2 ^ k1) ≤ 2 * (m * 2 ^ d * (b * 2 ^ k2)) + 2 ^ d * (b * 2 ^ k2) ∧
      divNat a b = if m = 2 ^ 53 then ⟨2 ^ 52, (d : Int) + 1 - ((k1 : Int) - (k2 : Int))⟩
                   else ⟨m, (d : Int) - ((k1 : Int) - (k2 : Int))⟩ := by
  have hsc := divNat_scale a b ha hb
  unfold divNat
  rw [if_neg (by omega)]
  simp only [] at hsc ⊢
  generalize hs : (55 + (Nat.log2 b : Int) - (Nat.log2 a : Int)) = s at *
  have hs' : s = (s.toNat : Int) - ((-s).toNat : Int) := by omega
  generalize hnum : a * 2 ^ s.toNat = num at *
  generalize hden : b * 2 ^ (-s).toNat = den at *
  obtain ⟨l1, l2⟩ := hsc
  have hdpos : 0 < den := by
    rw [← hden]; exact Nat.mul_pos hb (Nat.pow_pos (by decide))
  have hn1 : 2 ^ 54 ≤ num / den := (Nat.le_div_iff_mul_le hdpos).2 l1
  have hn2 : num / den < 2 ^ 56 := (Nat.div_lt_iff_lt_mul hdpos).2 l2
  have hsplit := Nat.div_add_mod' num den
  have hρ := Nat.mod_lt num hdpos
  generalize hn : num / den = n at *
  generalize hr : num % den = ρ at *
  have hn0 : n ≠ 0 := by omega
  have hbl : bitlen n = Nat.log2 n + 1 := by unfold bitlen; rw [if_neg hn0]
  have hlog : Nat.log2 n = 54 ∨ Nat.log2 n = 55 := by
    have x1 : 54 ≤ Nat.log2 n := (Nat.le_log2 hn0).2 hn1
    have x2 : Nat.log2 n < 56 := (Nat.log2_lt hn0).2 hn2
    omega
  have hlb := log2_bounds (n := n) (by omega)
  generalize hd : bitlen n - 53 = d at *
  have hd' : (d = 2 ∧ 2 ^ 54 ≤ n ∧ n < 2 ^ 55) ∨ (d = 3 ∧ 2 ^ 55 ≤ n ∧ n < 2 ^ 56) := by
    rcases hlog with h | h
    · left; rw [h] at hlb hbl; exact ⟨by omega, hlb.1, hlb.2⟩
    · right; rw [h] at hlb hbl; exact ⟨by omega, hlb.1, hlb.2⟩
  have hcore := shiftRNE_core n d den ρ (decide (ρ ≠ 0)) (by omega) hρ (by simp)
  generalize shiftRNE n d (decide (ρ ≠ 0)) = m at *
  obtain ⟨c1, c2, c3⟩ := hcore
  rw [hsplit] at c1 c2
  refine ⟨s.toNat, (-s).toNat, d, m, by omega, ?_, ?_, ?_, ?_, ?_⟩
  · rcases hd' with ⟨rfl, x1, x2⟩ | ⟨rfl, x1, x2⟩ <;> omega
  · rcases hd' with ⟨rfl, x1, x2⟩ | ⟨rfl, x1, x2⟩ <;> omega
  · rw [hden, hnum]; exact c1
  · rw [hden, hnum]; exact c2
  · rw [← hs']


/-- integers below `2^53` convert exactly -/
theorem ofNat_small (n : Nat) (h0 : 0 < n) (h : n < 2 ^ 53) :
    ofNat n = ⟨n * 2 ^ (52 - Nat.log2 n), (Nat.log2 n : Int) - 52⟩ := by
  obtain ⟨a1, a2⟩ := log2_bounds h0
  have hla : Nat.log2 n ≤ 52 := by
    have : Nat.log2 n < 53 := (Nat.log2_lt (by omega)).2 h
    omega
  have hl1 : Nat.log2 1 = 0 := by decide
  unfold ofNat divNat
  rw [if_neg (by omega), hl1]
  generalize Nat.log2 n = la at *
  simp only []
  have e1 : ((55 : Int) + ((0 : Nat) : Int) - (la : Int)).toNat = (52 - la) + 3 := by omega
  have e2 : (-((55 : Int) + ((0 : Nat) : Int) - (la : Int))).toNat = 0 := by omega
  rw [e1, e2]
  simp only [Nat.pow_zero, Nat.mul_one, Nat.div_one, Nat.mod_one]
  generalize hk : 52 - la = k
  have hpow : 2 ^ (k + 3) = 2 ^ k * 8 := by rw [Nat.pow_add]
  have hlog : Nat.log2 (n * 2 ^ (k + 3)) = 55 := by
    apply log2_eq_of_bounds
    · calc 2 ^ 55 = 2 ^ la * 2 ^ (k + 3) := by rw [← Nat.pow_add]; congr 1; omega
        _ ≤ n * 2 ^ (k + 3) := Nat.mul_le_mul_right _ a1
    · calc n * 2 ^ (k + 3) < 2 ^ (la + 1) * 2 ^ (k + 3) :=
            Nat.mul_lt_mul_of_pos_right a2 (Nat.pow_pos (by decide))
        _ = 2 ^ (55 + 1) := by rw [← Nat.pow_add]; congr 1; omega
  have hne : n * 2 ^ (k + 3) ≠ 0 := Nat.ne_of_gt (Nat.mul_pos h0 (Nat.pow_pos (by decide)))
  have hbl : bitlen (n * 2 ^ (k + 3)) - 53 = 3 := by
    unfold bitlen; rw [if_neg hne, hlog]
  rw [hbl]
  have hq : n * 2 ^ (k + 3) / 2 ^ 3 = n * 2 ^ k := by
    rw [hpow, ← Nat.mul_assoc]; exact Nat.mul_div_cancel _ (by decide)
  have hr : n * 2 ^ (k + 3) % 2 ^ 3 = 0 := by
    rw [hpow, ← Nat.mul_assoc]; exact Nat.mul_mod_left _ _
  have hsh : shiftRNE (n * 2 ^ (k + 3)) 3 (decide ((0 : Nat) ≠ 0)) = n * 2 ^ k := by
    unfold shiftRNE
    rw [if_neg (by decide)]
    simp only [hq, hr]
    rw [if_neg (by decide), if_neg (by decide)]
  rw [hsh]
  have hlt : n * 2 ^ k < 2 ^ 53 := by
    calc n * 2 ^ k < 2 ^ (la + 1) * 2 ^ k :=
          Nat.mul_lt_mul_of_pos_right a2 (Nat.pow_pos (by decide))
      _ = 2 ^ 53 := by rw [← Nat.pow_add]; congr 1; omega
  rw [if_neg (by omega)]
  congr 1
  omega


/-- ties-away rounding of `m / 2^k` is within half a unit -/
theorem roundAway_core (m k : Nat) (hk : 0 < k) :
    let R := if m % 2 ^ k ≥ 2 ^ (k - 1) then m / 2 ^ k + 1 else m / 2 ^ k
    2 * (R * 2 ^ k) ≤ 2 * m + 2 ^ k ∧ 2 * m ≤ 2 * (R * 2 ^ k) + 2 ^ k := by
  obtain ⟨j, rfl⟩ : ∃ j, k = j + 1 := ⟨k - 1, by omega⟩
  simp only [Nat.add_sub_cancel]
  have hP : 2 ^ (j + 1) = 2 * 2 ^ j := by rw [Nat.pow_succ]; ring
  have hHpos : 0 < 2 ^ j := Nat.pow_pos (by decide)
  rw [hP]
  generalize 2 ^ j = H at *
  have hn := Nat.div_add_mod m (2 * H)
  have hr := Nat.mod_lt m (show 0 < 2 * H by omega)
  generalize m / (2 * H) = q at *
  generalize m % (2 * H) = r at *
  subst hn
  by_cases c : r ≥ H
  · rw [if_pos c]; constructor <;> nlinarith
  · rw [if_neg c]; constructor <;> nlinarith

end Sm.F64
