/-
C06, the base-pair threshold of `prefetch`: `calc_threshold_from_bp` computes
`(float(bp) / scaled) / query_size` and `find` compares `shared / query_size >= threshold` in
doubles.  This file shows that, for `bp ≤ 2^50`, that float test is EXACTLY the integer test
`shared * scaled ≥ bp` -- including thresholds lying exactly on a score boundary.

Tools: a relational description `IsRN x v` ("`v` is `x` correctly rounded to 53 bits") satisfied by
`divNat` and `div`; it is monotone, exact on integers below `2^53`, invariant under scaling by
powers of two, and single-valued on quotients of integers below `2^53` (those are never ties).
-/
import SmVerif.Lemmas.SearchFloat
import SmVerif.Lemmas.SearchSpec
import Mathlib.Data.Nat.GCD.Basic

namespace Sm.F64

/-- `v` is a value the positive rational `x` rounds to (nearest, 53-bit mantissa, any tie-break) -/
def IsRN (x v : ℚ) : Prop :=
  ∃ (m : Nat) (e : Int), v = (m : ℚ) * 2 ^ e ∧ 2 ^ 52 ≤ m ∧ m ≤ 2 ^ 53 ∧
    (2 : ℚ) ^ 52 * 2 ^ e ≤ x ∧ x < 2 ^ 53 * 2 ^ e ∧ |(m : ℚ) * 2 ^ e - x| ≤ 2 ^ e / 2

theorem isRN_divNat {a b : Nat} (ha : 0 < a) (hb : 0 < b) : IsRN ((a : ℚ) / b) (divNat a b).val := by
  obtain ⟨m, e, h1, h2, h3, h4, h5, h6⟩ := divNat_binade a b ha hb
  exact ⟨m, e, h1, h2, h3, h4, h5, h6⟩

theorem IsRN.scale {x v : ℚ} (h : IsRN x v) (k : Int) : IsRN (x * 2 ^ k) (v * 2 ^ k) := by
  obtain ⟨m, e, h1, h2, h3, h4, h5, h6⟩ := h
  have hk : (0 : ℚ) < 2 ^ k := two_zpow_pos k
  refine ⟨m, e + k, ?_, h2, h3, ?_, ?_, ?_⟩
  · rw [h1, zpow_add₀ two_ne_zero]; ring
  · rw [zpow_add₀ two_ne_zero]
    calc (2 : ℚ) ^ 52 * (2 ^ e * 2 ^ k) = (2 ^ 52 * 2 ^ e) * 2 ^ k := by ring
      _ ≤ x * 2 ^ k := mul_le_mul_of_nonneg_right h4 hk.le
  · rw [zpow_add₀ two_ne_zero]
    calc x * 2 ^ k < (2 ^ 53 * 2 ^ e) * 2 ^ k := mul_lt_mul_of_pos_right h5 hk
      _ = 2 ^ 53 * (2 ^ e * 2 ^ k) := by ring
  · rw [zpow_add₀ two_ne_zero]
    have : (m : ℚ) * (2 ^ e * 2 ^ k) - x * 2 ^ k = ((m : ℚ) * 2 ^ e - x) * 2 ^ k := by ring
    rw [this, abs_mul, abs_of_pos hk]
    calc |(m : ℚ) * 2 ^ e - x| * 2 ^ k ≤ (2 ^ e / 2) * 2 ^ k := mul_le_mul_of_nonneg_right h6 hk.le
      _ = 2 ^ e * 2 ^ k / 2 := by ring

theorem isRN_div {x y : F} (hx : 0 < x.m) (hy : 0 < y.m) : IsRN (x.val / y.val) (div x y).val := by
  have hq := isRN_divNat hx hy
  have hqpos := divNat_pos x.m y.m hx hy
  have := hq.scale (x.e - y.e)
  have hym : (y.m : ℚ) ≠ 0 := by exact_mod_cast (Nat.pos_iff_ne_zero.1 hy)
  have e1 : x.val / y.val = (x.m : ℚ) / y.m * 2 ^ (x.e - y.e) := by
    unfold F.val
    rw [zpow_sub₀ two_ne_zero]
    have : (2 : ℚ) ^ y.e ≠ 0 := (two_zpow_pos _).ne'
    field_simp
  have e2 : (div x y).val = (divNat x.m y.m).val * 2 ^ (x.e - y.e) := by
    unfold div
    simp only []
    rw [if_neg (by omega)]
    unfold F.val
    simp only []
    rw [show (divNat x.m y.m).e + x.e - y.e = (divNat x.m y.m).e + (x.e - y.e) by ring,
      zpow_add₀ two_ne_zero]
    ring
  rw [e1, e2]
  exact this

/-- monotone: a strictly larger real never rounds to a smaller value -/
theorem IsRN.mono {x y v w : ℚ} (hxy : x < y) (hv : IsRN x v) (hw : IsRN y w) : v ≤ w := by
  obtain ⟨mx, ex, vx, x1, x2, x3, x4, x5⟩ := hv
  obtain ⟨my, ey, vy, y1, y2, y3, y4, y5⟩ := hw
  rw [vx, vy]
  have hX : (0 : ℚ) < 2 ^ ex := two_zpow_pos _
  have hY : (0 : ℚ) < 2 ^ ey := two_zpow_pos _
  have mx2 : (mx : ℚ) ≤ 2 ^ 53 := by exact_mod_cast x2
  have my1 : (2 : ℚ) ^ 52 ≤ my := by exact_mod_cast y1
  rcases lt_trichotomy ex ey with hlt' | heq | hgt
  · have hstep : (2 : ℚ) ^ ex * 2 ≤ 2 ^ ey := by
      have : ex + 1 ≤ ey := by omega
      calc (2 : ℚ) ^ ex * 2 = 2 ^ (ex + 1) := by rw [zpow_add₀ two_ne_zero, zpow_one]
        _ ≤ 2 ^ ey := zpow_le_zpow_right₀ (by norm_num) this
    calc (mx : ℚ) * 2 ^ ex ≤ 2 ^ 53 * 2 ^ ex := mul_le_mul_of_nonneg_right mx2 hX.le
      _ = 2 ^ 52 * (2 ^ ex * 2) := by ring
      _ ≤ 2 ^ 52 * 2 ^ ey := by apply mul_le_mul_of_nonneg_left hstep; positivity
      _ ≤ my * 2 ^ ey := mul_le_mul_of_nonneg_right my1 hY.le
  · subst heq
    have hx' : |(mx : ℚ) - x / 2 ^ ex| ≤ 1 / 2 := by
      have : (mx : ℚ) - x / 2 ^ ex = ((mx : ℚ) * 2 ^ ex - x) / 2 ^ ex := by field_simp
      rw [this, abs_div, abs_of_pos hX, div_le_iff₀ hX]
      linarith
    have hy' : |(my : ℚ) - y / 2 ^ ex| ≤ 1 / 2 := by
      have : (my : ℚ) - y / 2 ^ ex = ((my : ℚ) * 2 ^ ex - y) / 2 ^ ex := by field_simp
      rw [this, abs_div, abs_of_pos hX, div_le_iff₀ hX]
      linarith
    have := nearest_mono (div_lt_div_of_pos_right hxy hX) hx' hy'
    have : (mx : ℚ) ≤ my := by exact_mod_cast this
    exact mul_le_mul_of_nonneg_right this hX.le
  · exfalso
    have hstep : (2 : ℚ) ^ ey * 2 ≤ 2 ^ ex := by
      have : ey + 1 ≤ ex := by omega
      calc (2 : ℚ) ^ ey * 2 = 2 ^ (ey + 1) := by rw [zpow_add₀ two_ne_zero, zpow_one]
        _ ≤ 2 ^ ex := zpow_le_zpow_right₀ (by norm_num) this
    have : y < x := by
      calc y < 2 ^ 53 * 2 ^ ey := y4
        _ = 2 ^ 52 * (2 ^ ey * 2) := by ring
        _ ≤ 2 ^ 52 * 2 ^ ex := by apply mul_le_mul_of_nonneg_left hstep; positivity
        _ ≤ x := x3
    linarith

/-- the binade exponent is determined by the real -/
theorem binade_unique {x : ℚ} {e e' : Int} (h1 : (2 : ℚ) ^ 52 * 2 ^ e ≤ x) (h2 : x < 2 ^ 53 * 2 ^ e')
    : e ≤ e' := by
  by_contra hc
  have : e' + 1 ≤ e := by omega
  have hstep : (2 : ℚ) ^ e' * 2 ≤ 2 ^ e := by
    calc (2 : ℚ) ^ e' * 2 = 2 ^ (e' + 1) := by rw [zpow_add₀ two_ne_zero, zpow_one]
      _ ≤ 2 ^ e := zpow_le_zpow_right₀ (by norm_num) this
  have : x < x := by
    calc x < 2 ^ 53 * 2 ^ e' := h2
      _ = 2 ^ 52 * (2 ^ e' * 2) := by ring
      _ ≤ 2 ^ 52 * 2 ^ e := by apply mul_le_mul_of_nonneg_left hstep; positivity
      _ ≤ x := h1
  exact lt_irrefl _ this

/-- integers below `2^53` are representable: rounding them is exact -/
theorem IsRN.exact_nat {k : Nat} {v : ℚ} (h : IsRN (k : ℚ) v) (hk : k < 2 ^ 53) : v = k := by
  obtain ⟨m, e, hv, h1, h2, h3, h4, h5⟩ := h
  have hE : (0 : ℚ) < 2 ^ e := two_zpow_pos _
  have hk' : (k : ℚ) < 2 ^ 53 := by exact_mod_cast hk
  -- e ≤ 0
  have he : e ≤ 0 := by
    by_contra hc
    have : (1 : Int) ≤ e := by omega
    have h2e : (2 : ℚ) ≤ 2 ^ e := by
      calc (2 : ℚ) = 2 ^ (1 : Int) := by norm_num
        _ ≤ 2 ^ e := zpow_le_zpow_right₀ (by norm_num) this
    have : (2 : ℚ) ^ 52 * 2 ≤ k := le_trans (by apply mul_le_mul_of_nonneg_left h2e; positivity) h3
    norm_num at this hk'
    linarith
  obtain ⟨j, hj⟩ : ∃ j : Nat, e = -(j : Int) := ⟨(-e).toNat, by omega⟩
  subst hj
  rw [zpow_neg, zpow_natCast] at hv h5
  have hJ : (0 : ℚ) < 2 ^ j := by positivity
  -- |m - k * 2^j| ≤ 1/2 between integers
  have h5' : |(m : ℚ) - (k * 2 ^ j : Nat)| ≤ 1 / 2 := by
    have : (m : ℚ) - ((k * 2 ^ j : Nat) : ℚ) = ((m : ℚ) * (2 ^ j)⁻¹ - k) * 2 ^ j := by
      push_cast; field_simp
    rw [this, abs_mul, abs_of_pos hJ]
    calc |(m : ℚ) * (2 ^ j)⁻¹ - k| * 2 ^ j ≤ ((2 ^ j)⁻¹ / 2) * 2 ^ j := mul_le_mul_of_nonneg_right h5 hJ.le
      _ = 1 / 2 := by field_simp
  have hmk : m = k * 2 ^ j := by
    rw [abs_le] at h5'
    have a1 : (m : ℚ) < ((k * 2 ^ j : Nat) : ℚ) + 1 := by linarith
    have a2 : ((k * 2 ^ j : Nat) : ℚ) < (m : ℚ) + 1 := by linarith
    have b1 : m < k * 2 ^ j + 1 := by exact_mod_cast a1
    have b2 : k * 2 ^ j < m + 1 := by exact_mod_cast a2
    omega
  rw [hv, hmk]
  push_cast
  field_simp

/-- a quotient of two integers below `2^53` is never exactly halfway between two 53-bit values -/
theorem no_tie {a b m : Nat} {e : Int} (ha : a < 2 ^ 53) (hb : 0 < b) (hm : 2 ^ 52 ≤ m)
    (h : (a : ℚ) / b = ((m : ℚ) + 1 / 2) * 2 ^ e) : False := by
  have hb' : (b : ℚ) ≠ 0 := by exact_mod_cast (Nat.pos_iff_ne_zero.1 hb)
  have hodd : Nat.Coprime 2 (2 * m + 1) := (Nat.coprime_mul_left_add_right 2 1 m).2 (by decide)
  -- in every case a ≥ 2 m + 1
  have key : 2 * m + 1 ≤ a := by
    rcases le_or_gt e 0 with he | he
    · obtain ⟨j, hj⟩ : ∃ j : Nat, e = -(j : Int) := ⟨(-e).toNat, by omega⟩
      subst hj
      rw [zpow_neg, zpow_natCast] at h
      -- a * 2^(j+1) = (2m+1) * b
      have hN : a * 2 ^ (j + 1) = (2 * m + 1) * b := by
        have hJ : (2 : ℚ) ^ j ≠ 0 := by positivity
        have : (a : ℚ) * 2 ^ (j + 1) = (2 * (m : ℚ) + 1) * b := by
          rw [div_eq_iff hb'] at h
          rw [h, pow_succ]
          field_simp
        exact_mod_cast this
      have hdvd : 2 ^ (j + 1) ∣ b := by
        apply Nat.Coprime.dvd_of_dvd_mul_left (Nat.Coprime.pow_left (j + 1) hodd)
        exact ⟨a, by rw [← hN]; ring⟩
      obtain ⟨c, hc⟩ := hdvd
      have hc0 : 0 < c := by
        rcases Nat.eq_zero_or_pos c with h0 | h0
        · subst h0; omega
        · exact h0
      have hP : 0 < 2 ^ (j + 1) := Nat.pow_pos (by decide)
      have : a = (2 * m + 1) * c := by
        have h2 : a * 2 ^ (j + 1) = ((2 * m + 1) * c) * 2 ^ (j + 1) := by rw [hN, hc]; ring
        exact Nat.eq_of_mul_eq_mul_right hP h2
      rw [this]
      exact Nat.le_mul_of_pos_right _ hc0
    · obtain ⟨j, hj⟩ : ∃ j : Nat, e = (j : Int) + 1 := ⟨(e - 1).toNat, by omega⟩
      subst hj
      rw [zpow_add₀ two_ne_zero, zpow_natCast, zpow_one] at h
      have hN : a = (2 * m + 1) * (b * 2 ^ j) := by
        have : (a : ℚ) = (2 * (m : ℚ) + 1) * (b * 2 ^ j) := by
          rw [div_eq_iff hb'] at h
          rw [h]; ring
        exact_mod_cast this
      rw [hN]
      exact Nat.le_mul_of_pos_right _ (Nat.mul_pos hb (Nat.pow_pos (by decide)))
  have : 2 ^ 53 < 2 * m + 1 := by omega
  omega

/-- single-valued on quotients of integers below `2^53` -/
theorem IsRN.unique {a b : Nat} {v w : ℚ} (ha : a < 2 ^ 53) (hb : 0 < b)
    (hv : IsRN ((a : ℚ) / b) v) (hw : IsRN ((a : ℚ) / b) w) : v = w := by
  obtain ⟨m, e, vx, x1, x2, x3, x4, x5⟩ := hv
  obtain ⟨m', e', vy, y1, y2, y3, y4, y5⟩ := hw
  have he : e = e' := le_antisymm (binade_unique x3 y4) (binade_unique y3 x4)
  subst he
  have hE : (0 : ℚ) < 2 ^ e := two_zpow_pos _
  have hx' : |(m : ℚ) - (a : ℚ) / b / 2 ^ e| ≤ 1 / 2 := by
    have : (m : ℚ) - (a : ℚ) / b / 2 ^ e = ((m : ℚ) * 2 ^ e - a / b) / 2 ^ e := by field_simp
    rw [this, abs_div, abs_of_pos hE, div_le_iff₀ hE]
    linarith
  have hy' : |(m' : ℚ) - (a : ℚ) / b / 2 ^ e| ≤ 1 / 2 := by
    have : (m' : ℚ) - (a : ℚ) / b / 2 ^ e = ((m' : ℚ) * 2 ^ e - a / b) / 2 ^ e := by field_simp
    rw [this, abs_div, abs_of_pos hE, div_le_iff₀ hE]
    linarith
  rw [abs_le] at hx' hy'
  have hmm : m = m' := by
    by_contra hne
    rcases Nat.lt_or_gt_of_ne hne with hlt | hgt
    · -- m + 1 ≤ m': the real is m + 1/2
      have h1 : (m : ℚ) + 1 ≤ m' := by exact_mod_cast hlt
      have hy : (a : ℚ) / b / 2 ^ e = (m : ℚ) + 1 / 2 := by linarith [hx'.1, hx'.2, hy'.1, hy'.2]
      apply no_tie ha hb x1 (e := e)
      rw [← hy]; field_simp
    · have h1 : (m' : ℚ) + 1 ≤ m := by exact_mod_cast hgt
      have hy : (a : ℚ) / b / 2 ^ e = (m' : ℚ) + 1 / 2 := by linarith [hx'.1, hx'.2, hy'.1, hy'.2]
      apply no_tie ha hb y1 (e := e)
      rw [← hy]; field_simp
  rw [vx, vy, hmm]

/-- weak monotonicity on quotients of integers below `2^53` -/
theorem IsRN.mono_le {a b : Nat} {y v w : ℚ} (ha : a < 2 ^ 53) (hb : 0 < b) (hxy : y ≤ (a : ℚ) / b)
    (hv : IsRN y v) (hw : IsRN ((a : ℚ) / b) w) : v ≤ w := by
  rcases lt_or_eq_of_le hxy with h | h
  · exact IsRN.mono h hv hw
  · rw [h] at hv
    exact le_of_eq (IsRN.unique ha hb hv hw)

/-- relative error of a rounded value -/
theorem IsRN.rel {x v : ℚ} (h : IsRN x v) : |v - x| ≤ v / 2 ^ 53 ∧ 0 < v := by
  obtain ⟨m, e, hv, h1, h2, h3, h4, h5⟩ := h
  have hE : (0 : ℚ) < 2 ^ e := two_zpow_pos _
  have hm : (2 : ℚ) ^ 52 ≤ m := by exact_mod_cast h1
  rw [hv]
  constructor
  · calc |(m : ℚ) * 2 ^ e - x| ≤ 2 ^ e / 2 := h5
      _ = 2 ^ 52 * 2 ^ e / 2 ^ 53 := by norm_num; ring
      _ ≤ m * 2 ^ e / 2 ^ 53 := by
        apply div_le_div_of_nonneg_right _ (by positivity)
        exact mul_le_mul_of_nonneg_right hm hE.le
  · have : (0 : ℚ) < m := lt_of_lt_of_le (by positivity) hm
    exact mul_pos this hE

end Sm.F64

namespace Sm.Search

open Sm.F64

/-- **the float test of `prefetch` is the integer test on base pairs**: with the threshold
`calc_threshold_from_bp(bp, scaled, query_size)`, a containment score `shared / query_size` passes
iff `shared ≠ 0` and `shared * scaled ≥ bp` -- exactly, boundaries included. -/
theorem bp_threshold_exact {bp S n sh : Nat} (hS : 0 < S) (hS' : S < 2 ^ 53) (hn : 0 < n)
    (hn' : n < 2 ^ 53) (hsh : sh ≤ n) (hbp : bp ≤ 2 ^ 50) {t : F}
    (ht : calcThresholdFromBp bp S n = .ok t) (b : Bool) :
    JS.passes ⟨.containment, t, b⟩ ⟨sh, n⟩ = true ↔ (sh ≠ 0 ∧ bp ≤ sh * S) := by
  rw [Search.passes_iff]
  simp only [Ratio.toF]
  unfold calcThresholdFromBp at ht
  by_cases hbp0 : bp = 0
  · rw [if_pos hbp0] at ht
    cases ht
    subst hbp0
    have : ge (divNat sh n) ⟨0, 0⟩ = true := by
      rw [ge_iff_val]; rw [val_zero_mant rfl]; exact F.val_nonneg _
    simp [this, Nat.pos_iff_ne_zero.1 hn]
  · rw [if_neg hbp0] at ht
    simp only [] at ht
    split at ht
    · cases ht
    · cases ht
      have hbpp : 0 < bp := Nat.pos_of_ne_zero hbp0
      have hbp53 : bp < 2 ^ 53 := lt_of_le_of_lt hbp (by decide)
      obtain ⟨ebp, mbp⟩ := ofNat_exact bp hbpp hbp53
      obtain ⟨eS, mS⟩ := ofNat_exact S hS hS'
      obtain ⟨en, mn⟩ := ofNat_exact n hn hn'
      have r1 := isRN_div mbp mS
      rw [ebp, eS] at r1
      have t1pos : 0 < (F64.div (F64.ofNat bp) (F64.ofNat S)).m := (div_spec _ _ mbp mS).1
      have r2 := isRN_div t1pos mn
      rw [en] at r2
      rw [ge_iff_val]
      generalize (F64.div (F64.div (F64.ofNat bp) (F64.ofNat S)) (F64.ofNat n)).val = tv at r2 ⊢
      generalize (F64.div (F64.ofNat bp) (F64.ofNat S)).val = t1 at r1 r2
      have hn0 : n ≠ 0 := Nat.pos_iff_ne_zero.1 hn
      have hSq : (0 : ℚ) < S := by exact_mod_cast hS
      have hnq : (0 : ℚ) < n := by exact_mod_cast hn
      have hbq : (0 : ℚ) < bp := by exact_mod_cast hbpp
      constructor
      · -- returned ⇒ overlap in bp meets the threshold (error analysis)
        intro ⟨⟨hsh0, _⟩, hle⟩
        refine ⟨hsh0, ?_⟩
        by_contra hlt
        have hlt' : sh * S + 1 ≤ bp := by omega
        have hshp : 0 < sh := Nat.pos_of_ne_zero hsh0
        have r3 := isRN_divNat hshp hn
        obtain ⟨b3, p3⟩ := r3.rel
        obtain ⟨b1, p1⟩ := r1.rel
        obtain ⟨b2, p2⟩ := r2.rel
        generalize (divNat sh n).val = rv at hle b3 p3
        rw [abs_le] at b1 b2 b3
        have hq : ((sh : ℚ) * S + 1) ≤ bp := by exact_mod_cast hlt'
        have hbq' : (bp : ℚ) ≤ 2 ^ 50 := by exact_mod_cast hbp
        -- rv (1 - ε) ≤ sh/n ; t1 (1 + ε) ≥ bp/S ; tv (1 + ε) ≥ t1/n
        have c3 : rv * (1 - 1 / 2 ^ 53) ≤ (sh : ℚ) / n := by linarith [b3.2]
        have c1 : (bp : ℚ) / S ≤ t1 * (1 + 1 / 2 ^ 53) := by linarith [b1.1]
        have c2 : t1 / n ≤ tv * (1 + 1 / 2 ^ 53) := by linarith [b2.1]
        -- multiply out
        have d3 : rv * (1 - 1 / 2 ^ 53) * n ≤ sh := by
          have := mul_le_mul_of_nonneg_right c3 hnq.le
          rwa [div_mul_cancel₀ _ hnq.ne'] at this
        have d1 : (bp : ℚ) ≤ t1 * (1 + 1 / 2 ^ 53) * S := by
          have := mul_le_mul_of_nonneg_right c1 hSq.le
          rwa [div_mul_cancel₀ _ hSq.ne'] at this
        have d2 : t1 ≤ tv * (1 + 1 / 2 ^ 53) * n := by
          have := mul_le_mul_of_nonneg_right c2 hnq.le
          rwa [div_mul_cancel₀ _ hnq.ne'] at this
        -- bp ≤ tv (1+ε)^2 n S ≤ rv (1+ε)^2 n S ; sh S ≥ rv (1-ε) n S
        have e1 : (bp : ℚ) ≤ rv * (1 + 1 / 2 ^ 53) * (1 + 1 / 2 ^ 53) * n * S := by
          have h1 : t1 * (1 + 1 / 2 ^ 53) * S ≤ tv * (1 + 1 / 2 ^ 53) * n * (1 + 1 / 2 ^ 53) * S := by
            apply mul_le_mul_of_nonneg_right _ hSq.le
            apply mul_le_mul_of_nonneg_right d2 (by norm_num)
          have h2 : tv * (1 + 1 / 2 ^ 53) * n * (1 + 1 / 2 ^ 53) * S
              ≤ rv * (1 + 1 / 2 ^ 53) * n * (1 + 1 / 2 ^ 53) * S := by
            apply mul_le_mul_of_nonneg_right _ hSq.le
            apply mul_le_mul_of_nonneg_right _ (by norm_num)
            apply mul_le_mul_of_nonneg_right _ hnq.le
            apply mul_le_mul_of_nonneg_right hle (by norm_num)
          linarith
        have e3 : rv * (1 - 1 / 2 ^ 53) * n * S ≤ (bp : ℚ) - 1 := by
          have := mul_le_mul_of_nonneg_right d3 hSq.le
          linarith
        -- let P = rv n S > 0:  bp ≤ P (1+ε)^2 and P (1-ε) ≤ bp - 1, bp ≤ 2^50: contradiction
        have hP : 0 < rv * n * S := mul_pos (mul_pos p3 hnq) hSq
        generalize hPd : rv * n * S = P at hP
        have f1 : (bp : ℚ) ≤ P * ((1 + 1 / 2 ^ 53) * (1 + 1 / 2 ^ 53)) := by rw [← hPd]; linarith
        have f3 : P * (1 - 1 / 2 ^ 53) ≤ (bp : ℚ) - 1 := by rw [← hPd]; linarith
        -- P ≤ (bp-1)/(1-ε) ≤ 2^51
        have g1 : P ≤ 2 ^ 51 := by
          have : P * (1 - 1 / 2 ^ 53) ≤ 2 ^ 50 := by linarith
          norm_num at this ⊢
          linarith
        norm_num at f1 f3 g1
        linarith
      · -- overlap in bp meets the threshold ⇒ returned (monotonicity, exactness, uniqueness)
        intro ⟨hsh0, hge⟩
        refine ⟨⟨hsh0, hn0⟩, ?_⟩
        have hshp : 0 < sh := Nat.pos_of_ne_zero hsh0
        have hsh53 : sh < 2 ^ 53 := lt_of_le_of_lt hsh hn'
        have r3 := isRN_divNat hshp hn
        -- t1 ≤ sh
        have hsh1 : IsRN ((sh : ℚ) / (1 : Nat)) (divNat sh 1).val := isRN_divNat hshp (by decide)
        have hexact : (divNat sh 1).val = sh := by
          apply IsRN.exact_nat _ hsh53
          simpa using hsh1
        have hq : (bp : ℚ) / S ≤ (sh : ℚ) / (1 : Nat) := by
          rw [Nat.cast_one, div_one, div_le_iff₀ hSq]
          exact_mod_cast hge
        have ht1 : t1 ≤ sh := by
          have := IsRN.mono_le hsh53 (by decide) hq r1 hsh1
          rwa [hexact] at this
        have hq2 : t1 / n ≤ (sh : ℚ) / n := div_le_div_of_nonneg_right ht1 hnq.le
        exact IsRN.mono_le hsh53 hn hq2 r2 r3

end Sm.Search
