/-
The scaled <-> max_hash conversions on the exact binary64 model: every `1 ≤ S ≤ 2^31`
survives every conversion pipeline.  Analytic proof from the `2^-53` relative error of
each correctly rounded operation; only `S = 1` (special-cased by the code) is evaluated.
-/
import SmVerif.Lemmas.Float64Lemmas
import SmVerif.Model.Scaled

namespace Sm

open F64 Gen

/-! ### pure arithmetic over ℚ -/

/-- a relative error bound on `f ≈ N / s`, multiplied out -/
theorem rel_mul {f s N : ℚ} (hs : 0 < s) (h : |f - N / s| ≤ f / 2 ^ 53) :
    |f * s - N| ≤ f * s / 2 ^ 53 := by
  have e : f * s - N = (f - N / s) * s := by field_simp
  rw [e, abs_mul, abs_of_pos hs]
  calc |f - N / s| * s ≤ f / 2 ^ 53 * s := mul_le_mul_of_nonneg_right h hs.le
    _ = f * s / 2 ^ 53 := by ring

theorem abs_mul_le {x y c s : ℚ} (hs : 0 < s) (h : |x - y| ≤ c) : |x * s - y * s| ≤ c * s := by
  have e : x * s - y * s = (x - y) * s := by ring
  rw [e, abs_mul, abs_of_pos hs]
  exact mul_le_mul_of_nonneg_right h hs.le

/-- first stage: the threshold `M` computed for `2 ≤ S ≤ 2^32` is between `2^31` and `2^63 + 2^12` -/
theorem stage1 {S f1 N1 M : ℚ} (hS2 : 2 ≤ S) (hS : S ≤ 2 ^ 32) (hN1 : |N1 - 2 ^ 64| ≤ 1)
    (H1 : |f1 - N1 / S| ≤ f1 / 2 ^ 53) (H2 : |M - f1| ≤ 1) (hf1 : 0 ≤ f1) :
    2 ^ 31 ≤ M ∧ M ≤ 2 ^ 63 + 2 ^ 12 := by
  have hS0 : (0 : ℚ) < S := by linarith
  have hA := rel_mul hS0 H1
  rw [abs_le] at hA hN1 H2
  have h1 : f1 * S ≤ f1 * 2 ^ 32 := mul_le_mul_of_nonneg_left hS hf1
  have h2 : f1 * 2 ≤ f1 * S := mul_le_mul_of_nonneg_left hS2 hf1
  constructor <;> linarith

/-- second stage: the value fed to the final round-to-nearest is within `< 1/2` of `S` -/
theorem master {S f1 M M' f2 N1 N2 : ℚ} (hS2 : 2 ≤ S) (hS : S ≤ 2 ^ 31)
    (hN1 : |N1 - 2 ^ 64| ≤ 1) (hN2 : |N2 - 2 ^ 64| ≤ 1)
    (H1 : |f1 - N1 / S| ≤ f1 / 2 ^ 53) (H2 : |M - f1| ≤ 1)
    (H3 : |M' - M| ≤ M' / 2 ^ 53) (hM' : 0 < M') (H4 : |f2 - N2 / M'| ≤ f2 / 2 ^ 53) :
    |f2 - S| < 1 / 2 := by
  have hS0 : (0 : ℚ) < S := by linarith
  have hA := rel_mul hS0 H1
  have hB := rel_mul hM' H4
  have hD := abs_mul_le hS0 H2
  have hC := abs_mul_le hS0 H3
  rw [abs_le] at hA hB hC hD hN1 hN2
  -- atoms: f1 * S, f2 * M', M * S, M' * S
  have hBC : |f2 * M' - M' * S| ≤ S + 7000 := by
    rw [abs_le]; constructor <;> linarith
  have hClow : 2 ^ 64 - 2 ^ 32 ≤ M' * S := by linarith
  by_contra hcon
  rw [not_lt] at hcon
  have e : f2 * M' - M' * S = (f2 - S) * M' := by ring
  rw [e, abs_mul, abs_of_pos hM'] at hBC
  have h3 : 1 / 2 * M' ≤ |f2 - S| * M' := mul_le_mul_of_nonneg_right hcon hM'.le
  have h4 : M' ≤ 2 ^ 32 + 14000 := by linarith
  have h5 : M' * S ≤ (2 ^ 32 + 14000) * 2 ^ 31 := mul_le_mul h4 hS hS0.le (by norm_num)
  linarith


/-! ### the model functions, unfolded for the configuration in `Sm.Gen` -/

theorem ofNat_two64 : F64.ofNat (2 ^ 64) = ⟨2 ^ 52, 12⟩ := by decide +kernel

theorem val_two64 : (F64.ofNat (2 ^ 64)).val = 2 ^ 64 := by
  rw [ofNat_two64]; simp only [F.val]; norm_num

theorem pos_two64 : 0 < (F64.ofNat (2 ^ 64)).m := by rw [ofNat_two64]; decide

/-- the double Rust's `max_hash_for_scaled` truncates -/
def xR (S : Nat) : F := F64.div (F64.ofNat (2 ^ 64)) (F64.ofNat S)

theorem mhR_eq {S : Nat} (h : 2 ≤ S) : mhR S = min (F64.floor (xR S)) (2 ^ 64 - 1) := by
  obtain ⟨s, rfl⟩ : ∃ s, S = s + 2 := ⟨S - 2, by omega⟩
  rfl

theorem scR_eq {M : Nat} (h : M ≠ 0) :
    scR M = min (F64.roundHalfAway (F64.div (F64.ofNat (2 ^ 64)) (F64.ofNat M))) (2 ^ 64 - 1) := by
  obtain ⟨s, rfl⟩ : ∃ s, M = s + 1 := ⟨M - 1, by omega⟩
  rfl

theorem scP_eq {M : Nat} (h : M ≠ 0) :
    scP M = min (F64.roundHalfEven (F64.divNat (2 ^ 64 - 1) M)) (2 ^ 64 - 1) := by
  unfold scP
  rw [if_neg h]
  rfl

theorem mhP_eq {S : Nat} (h : 2 ≤ S) :
    mhP S = min (F64.roundHalfEven (F64.divNat (2 ^ 64 - 1) S)) (2 ^ 64 - 1) := by
  unfold mhP
  rw [if_neg (by omega), if_neg (by omega)]
  rfl


theorem u64max_cast : ((2 ^ 64 - 1 : Nat) : ℚ) = 2 ^ 64 - 1 := by norm_num

/-- the Rust threshold for `2 ≤ S ≤ 2^32`: the floor of a double within `2^-53` of `2^64 / S` -/
theorem mhR_facts {S : Nat} (h2 : 2 ≤ S) (hS : S ≤ 2 ^ 32) :
    mhR S = F64.floor (xR S) ∧ 0 < (xR S).val ∧
    |(xR S).val - 2 ^ 64 / (S : ℚ)| ≤ (xR S).val / 2 ^ 53 ∧
    |(mhR S : ℚ) - (xR S).val| ≤ 1 ∧
    2 ^ 31 ≤ (mhR S : ℚ) ∧ (mhR S : ℚ) ≤ 2 ^ 63 + 2 ^ 12 := by
  have hSlt : S < 2 ^ 53 := by
    have : (2 : Nat) ^ 32 < 2 ^ 53 := by decide
    omega
  obtain ⟨eS, pS⟩ := ofNat_exact S (by omega) hSlt
  obtain ⟨pX, hX⟩ := div_spec _ _ pos_two64 pS
  rw [val_two64, eS] at hX
  have hfl := floor_spec (xR S)
  have hXpos : 0 < (xR S).val := F.val_pos pX
  have H2 : |(F64.floor (xR S) : ℚ) - (xR S).val| ≤ 1 := by
    rw [abs_le]; constructor <;> linarith [hfl.1, hfl.2]
  have hS2' : (2 : ℚ) ≤ S := by exact_mod_cast h2
  have hS' : (S : ℚ) ≤ 2 ^ 32 := by exact_mod_cast hS
  have st := stage1 hS2' hS' (by norm_num) hX H2 hXpos.le
  have hle : F64.floor (xR S) ≤ 2 ^ 64 - 1 := by
    have : (F64.floor (xR S) : ℚ) ≤ ((2 ^ 64 - 1 : Nat) : ℚ) := by
      rw [u64max_cast]; linarith [st.2]
    exact_mod_cast this
  have heq : mhR S = F64.floor (xR S) := by
    rw [mhR_eq h2]; exact Nat.min_eq_left hle
  rw [heq]
  exact ⟨rfl, hXpos, hX, H2, st.1, st.2⟩

theorem mhR_le_u64max (S : Nat) : mhR S ≤ 2 ^ 64 - 1 := by
  match S with
  | 0 => decide
  | 1 => decide
  | s + 2 => rw [mhR_eq (by omega)]; exact Nat.min_le_right _ _

theorem mhR_pos {S : Nat} (h1 : 1 ≤ S) (h2 : S ≤ 2 ^ 32) : mhR S ≠ 0 := by
  rcases Nat.lt_or_ge S 2 with h | h
  · have : S = 1 := by omega
    subst this; decide
  · have := (mhR_facts h h2).2.2.2.2.1
    intro h0
    rw [h0] at this
    norm_num at this

theorem mhR_antitone {S1 S2 : Nat} (h1 : 1 ≤ S1) (h : S1 ≤ S2) (h2 : S2 ≤ 2 ^ 32) :
    mhR S2 ≤ mhR S1 := by
  rcases Nat.eq_or_lt_of_le h with rfl | hlt
  · exact Nat.le_refl _
  rcases Nat.lt_or_ge S1 2 with hs | hs
  · have : S1 = 1 := by omega
    subst this
    exact mhR_le_u64max S2
  · obtain ⟨e1, p1, r1, -, -, -⟩ := mhR_facts hs (by omega)
    obtain ⟨e2, p2, r2, -, -, -⟩ := mhR_facts (S := S2) (by omega) h2
    have hS1 : (2 : ℚ) ≤ S1 := by exact_mod_cast hs
    have hS12 : (S1 : ℚ) + 1 ≤ S2 := by exact_mod_cast hlt
    have hS2 : (S2 : ℚ) ≤ 2 ^ 32 := by exact_mod_cast h2
    have hS1p : (0 : ℚ) < S1 := by linarith
    have hS2p : (0 : ℚ) < S2 := by linarith
    have a1 := rel_mul hS1p r1
    have a2 := rel_mul hS2p r2
    rw [abs_le] at a1 a2
    -- x2 * (S2 (1 - ε)) ≤ 2^64 ≤ x1 * (S1 (1 + ε)) and S1 (1 + ε) ≤ S2 (1 - ε)
    have hval : (xR S2).val ≤ (xR S1).val := by
      have hc : (0 : ℚ) < S2 * (1 - 1 / 2 ^ 53) := by
        apply mul_pos hS2p; norm_num
      have hcc : (S1 : ℚ) * (1 + 1 / 2 ^ 53) ≤ S2 * (1 - 1 / 2 ^ 53) := by
        nlinarith
      have k1 : (xR S2).val * (S2 * (1 - 1 / 2 ^ 53)) ≤ (xR S1).val * (S1 * (1 + 1 / 2 ^ 53)) := by
        linarith
      have k2 : (xR S1).val * (S1 * (1 + 1 / 2 ^ 53)) ≤ (xR S1).val * (S2 * (1 - 1 / 2 ^ 53)) :=
        mul_le_mul_of_nonneg_left hcc p1.le
      exact le_of_mul_le_mul_right (le_trans k1 k2) hc
    have f1 := floor_spec (xR S1)
    have f2 := floor_spec (xR S2)
    rw [e1, e2]
    have : (F64.floor (xR S2) : ℚ) < F64.floor (xR S1) + 1 := by linarith [f1.2, f2.1]
    have : F64.floor (xR S2) < F64.floor (xR S1) + 1 := by exact_mod_cast this
    omega


/-! ### round trips -/

theorem nat_cast_pos_of {M : Nat} (h : (2 : ℚ) ^ 31 ≤ M) : 0 < M := by
  have : (0 : ℚ) < M := by linarith [show (0 : ℚ) < 2 ^ 31 by norm_num]
  exact_mod_cast this

/-- Python `scaled` of a threshold `M` obtained in a first stage from `S` -/
theorem scP_of_stage {S M : Nat} {f1 N1 : ℚ} (h2 : 2 ≤ S) (hS : S ≤ 2 ^ 31)
    (hN1 : |N1 - 2 ^ 64| ≤ 1) (H1 : |f1 - N1 / (S : ℚ)| ≤ f1 / 2 ^ 53)
    (H2 : |(M : ℚ) - f1| ≤ 1) (hM : (2 : ℚ) ^ 31 ≤ M) : scP M = S := by
  have hMpos : 0 < M := nat_cast_pos_of hM
  have hMq : (0 : ℚ) < M := by exact_mod_cast hMpos
  rw [scP_eq (by omega)]
  have sp := divNat_spec (2 ^ 64 - 1) M (by decide) hMpos
  have H4 := sp.2.2
  rw [u64max_cast] at H4
  have hS2' : (2 : ℚ) ≤ S := by exact_mod_cast h2
  have hS' : (S : ℚ) ≤ 2 ^ 31 := by exact_mod_cast hS
  have H3 : |(M : ℚ) - M| ≤ (M : ℚ) / 2 ^ 53 := by
    rw [sub_self, abs_zero]; positivity
  have key := master hS2' hS' hN1 (by norm_num) H1 H2 H3 hMq H4
  have := nat_eq_of_close (roundHalfEven_spec _) key
  rw [this]
  apply Nat.min_eq_left
  have : (2 : Nat) ^ 31 ≤ 2 ^ 64 - 1 := by decide
  omega

/-- Rust `scaled` of a threshold `M` obtained in a first stage from `S` -/
theorem scR_of_stage {S M : Nat} {f1 N1 : ℚ} (h2 : 2 ≤ S) (hS : S ≤ 2 ^ 31)
    (hN1 : |N1 - 2 ^ 64| ≤ 1) (H1 : |f1 - N1 / (S : ℚ)| ≤ f1 / 2 ^ 53)
    (H2 : |(M : ℚ) - f1| ≤ 1) (hM : (2 : ℚ) ^ 31 ≤ M) : scR M = S := by
  have hMpos : 0 < M := nat_cast_pos_of hM
  rw [scR_eq (by omega)]
  obtain ⟨pM, H3⟩ := ofNat_spec M hMpos
  obtain ⟨-, H4⟩ := div_spec _ _ pos_two64 pM
  rw [val_two64] at H4
  have hS2' : (2 : ℚ) ≤ S := by exact_mod_cast h2
  have hS' : (S : ℚ) ≤ 2 ^ 31 := by exact_mod_cast hS
  have key := master hS2' hS' hN1 (by norm_num) H1 H2 H3 (F.val_pos pM) H4
  have := nat_eq_of_close (roundHalfAway_spec _) key
  rw [this]
  apply Nat.min_eq_left
  have : (2 : Nat) ^ 31 ≤ 2 ^ 64 - 1 := by decide
  omega

theorem scP_mhR {S : Nat} (h1 : 1 ≤ S) (h2 : S ≤ 2 ^ 31) : scP (mhR S) = S := by
  rcases Nat.lt_or_ge S 2 with h | h
  · have : S = 1 := by omega
    subst this; decide +kernel
  · have h32 : S ≤ 2 ^ 32 := by
      have : (2 : Nat) ^ 31 ≤ 2 ^ 32 := by decide
      omega
    obtain ⟨-, -, r, a, lo, -⟩ := mhR_facts h h32
    exact scP_of_stage h h2 (by norm_num) r a lo

theorem scR_mhR {S : Nat} (h1 : 1 ≤ S) (h2 : S ≤ 2 ^ 31) : scR (mhR S) = S := by
  rcases Nat.lt_or_ge S 2 with h | h
  · have : S = 1 := by omega
    subst this; decide +kernel
  · have h32 : S ≤ 2 ^ 32 := by
      have : (2 : Nat) ^ 31 ≤ 2 ^ 32 := by decide
      omega
    obtain ⟨-, -, r, a, lo, -⟩ := mhR_facts h h32
    exact scR_of_stage h h2 (by norm_num) r a lo

/-- the Python threshold for `2 ≤ S ≤ 2^32` -/
theorem mhP_facts {S : Nat} (h2 : 2 ≤ S) (hS : S ≤ 2 ^ 32) :
    ∃ f1 : ℚ, |f1 - (2 ^ 64 - 1) / (S : ℚ)| ≤ f1 / 2 ^ 53 ∧ |(mhP S : ℚ) - f1| ≤ 1 ∧
    2 ^ 31 ≤ (mhP S : ℚ) := by
  have sp := divNat_spec (2 ^ 64 - 1) S (by decide) (by omega)
  have H1 := sp.2.2
  rw [u64max_cast] at H1
  have hpos := F.val_pos (divNat_pos (2 ^ 64 - 1) S (by decide) (by omega))
  have hr := roundHalfEven_spec (F64.divNat (2 ^ 64 - 1) S)
  have H2 : |(F64.roundHalfEven (F64.divNat (2 ^ 64 - 1) S) : ℚ) - (F64.divNat (2 ^ 64 - 1) S).val| ≤ 1 :=
    le_trans hr (by norm_num)
  have hS2' : (2 : ℚ) ≤ S := by exact_mod_cast h2
  have hS' : (S : ℚ) ≤ 2 ^ 32 := by exact_mod_cast hS
  have st := stage1 hS2' hS' (by norm_num) H1 H2 hpos.le
  have hle : F64.roundHalfEven (F64.divNat (2 ^ 64 - 1) S) ≤ 2 ^ 64 - 1 := by
    have : (F64.roundHalfEven (F64.divNat (2 ^ 64 - 1) S) : ℚ) ≤ ((2 ^ 64 - 1 : Nat) : ℚ) := by
      rw [u64max_cast]; linarith [st.2]
    exact_mod_cast this
  have heq : mhP S = F64.roundHalfEven (F64.divNat (2 ^ 64 - 1) S) := by
    rw [mhP_eq h2]; exact Nat.min_eq_left hle
  rw [heq]
  exact ⟨_, H1, H2, st.1⟩

theorem scP_mhP {S : Nat} (h1 : 1 ≤ S) (h2 : S ≤ 2 ^ 31) : scP (mhP S) = S := by
  rcases Nat.lt_or_ge S 2 with h | h
  · have : S = 1 := by omega
    subst this; decide +kernel
  · have h32 : S ≤ 2 ^ 32 := by
      have : (2 : Nat) ^ 31 ≤ 2 ^ 32 := by decide
      omega
    obtain ⟨f1, r, a, lo⟩ := mhP_facts h h32
    exact scP_of_stage h h2 (by norm_num) r a lo

/-- Rust's `scaled()` never reports 0 for a non-zero `u64` threshold -/
theorem scR_ne_zero {M : Nat} (h0 : M ≠ 0) (hU : M < 2 ^ 64) : scR M ≠ 0 := by
  have hMpos : 0 < M := by omega
  rw [scR_eq h0]
  obtain ⟨pM, H3⟩ := ofNat_spec M hMpos
  obtain ⟨pX, H4⟩ := div_spec _ _ pos_two64 pM
  rw [val_two64] at H4
  have hy := F.val_pos pM
  have hx := F.val_pos pX
  have hr := roundHalfAway_spec (F64.div (F64.ofNat (2 ^ 64)) (F64.ofNat M))
  generalize (F64.div (F64.ofNat (2 ^ 64)) (F64.ofNat M)).val = x at *
  generalize (F64.ofNat M).val = y at *
  have hM' : (M : ℚ) ≤ 2 ^ 64 := by
    have : M ≤ 2 ^ 64 := by omega
    exact_mod_cast this
  have a := rel_mul hy H4
  rw [abs_le] at a H3 hr
  -- y ≤ 2^64 / (1 - ε), x * y ≥ 2^64 / (1 + ε), hence x > 1/2
  have hxhalf : 1 / 2 < x := by
    by_contra hc
    rw [not_lt] at hc
    have : x * y ≤ 1 / 2 * y := mul_le_mul_of_nonneg_right hc hy.le
    linarith
  generalize F64.roundHalfAway (F64.div (F64.ofNat (2 ^ 64)) (F64.ofNat M)) = R at *
  have hR : (0 : ℚ) < (R : ℚ) := by linarith [hr.1]
  have hR' : 0 < R := by exact_mod_cast hR
  have : 0 < 2 ^ 64 - 1 := by decide
  omega

end Sm
