/-
C07 / C08, the instance tie, part 3: the shared-MinHash instance of the gather model (`mhOps`, what the driver
runs against the real code) is simulated by the list-sketch instance (`lsOps`, on which the theorems are
proved), through the abstraction `ofMH`.
-/
import SmVerif.Lemmas.GatherSimOps
import SmVerif.Lemmas.GatherSim

set_option autoImplicit false

namespace Sm.Gather

open Sm

/-- a valid scaled sketch of the collection `(k, hf, seed)` and its list sketch -/
def SimR (k hf seed : Nat) (m : MH) (l : LS) : Prop := SInv k hf seed m ∧ l = ofMH m

/-- the scaled values gather may ask for -/
def SimP (sc : Nat) : Prop := 1 ≤ sc ∧ sc ≤ 2 ^ 31

/-- **every sketch operation gather uses commutes with `ofMH`** -/
theorem mh_ls_sim (k hf seed : Nat) : SkSim mhOps lsOps (SimR k hf seed) SimP where
  scaled := by
    rintro a b ⟨_, rfl⟩; rfl
  scaledP := by
    rintro a b ⟨ha, rfl⟩
    exact ⟨ha.scaled_spec.1, ha.scaled_spec.2.1⟩
  Pmax := by
    rintro x y ⟨x1, x2⟩ ⟨y1, y2⟩
    exact ⟨le_trans x1 (le_max_left _ _), max_le x2 y2⟩
  num := by
    rintro a b ⟨ha, rfl⟩
    exact ha.num
  mins := by
    rintro a b ⟨_, rfl⟩; rfl
  track := by
    rintro a b ⟨_, rfl⟩; rfl
  pairs := by
    rintro a b ⟨_, rfl⟩
    exact (ofMH_pairs a).symm
  dsM := by
    rintro a b sc a' ⟨ha, rfl⟩ ⟨h1, h2⟩ h
    obtain ⟨r1, r2⟩ := sim_dsM ha h1 h2 h
    exact ⟨_, r2, r1, rfl⟩
  dsF := by
    rintro a b sc a' ⟨ha, rfl⟩ ⟨h1, h2⟩ h
    obtain ⟨r1, r2⟩ := sim_dsF ha h1 h2 h
    exact ⟨_, r2, r1, rfl⟩
  flat := by
    rintro a b a' ⟨ha, rfl⟩ h
    obtain ⟨r1, r2⟩ := sim_flat ha h
    exact ⟨_, rfl, r1, r2.symm⟩
  and := by
    rintro a b a2 b2 r ⟨ha, rfl⟩ ⟨ha2, rfl⟩ h
    obtain ⟨r1, r2⟩ := sim_and ha ha2 h
    exact ⟨_, r2, r1, rfl⟩
  cc := by
    rintro a b a2 b2 n ⟨ha, rfl⟩ ⟨ha2, rfl⟩ h
    exact sim_cc ha ha2 h
  compatible := by
    rintro a b a2 b2 ⟨ha, rfl⟩ ⟨ha2, rfl⟩
    exact sim_compatible ha ha2
  interSize := by
    rintro a b a2 b2 v ⟨ha, rfl⟩ ⟨_, rfl⟩ h
    exact sim_interSize ha h
  copyAndClear := by
    rintro a b r ⟨ha, rfl⟩ h
    obtain ⟨r1, r2⟩ := sim_copyAndClear ha h
    exact ⟨_, rfl, r1, r2.symm⟩
  toMutable := by
    rintro a b ⟨ha, rfl⟩
    obtain ⟨r1, r2⟩ := sim_toMutable ha
    exact ⟨r1, r2.symm⟩
  removeFrom := by
    rintro a b a2 b2 ⟨ha, rfl⟩ ⟨_, rfl⟩
    obtain ⟨r1, r2⟩ := sim_removeFrom ha a2
    exact ⟨r1, r2.symm⟩

variable {σ : Type} {ops : ScoreOps σ} {k hf seed : Nat}

/-- the abstraction of a signature / a database -/
def sigOfMH (s : Sig MH) : Sig LS := ⟨s.md5, s.name, ofMH s.mh⟩

theorem rsig_ofMH {s : Sig MH} (h : SInv k hf seed s.mh) : RSig (SimR k hf seed) s (sigOfMH s) :=
  ⟨rfl, rfl, h, rfl⟩

theorem forall2_sigOfMH : ∀ {db : List (Sig MH)}, (∀ d ∈ db, SInv k hf seed d.mh) →
    List.Forall₂ (RSig (SimR k hf seed)) db (db.map sigOfMH) := by
  intro db
  induction db with
  | nil => intro _; exact List.Forall₂.nil
  | cons d rest ih =>
    intro h
    exact List.Forall₂.cons (rsig_ofMH (h d List.mem_cons_self))
      (ih (fun x hx => h x (List.mem_cons_of_mem _ hx)))

/-- **the prefetch counter the shared-MinHash instance builds is the one the list-sketch instance builds** -/
theorem counterGather_transfer {db : List (Sig MH)} (hdb : ∀ d ∈ db, SInv k hf seed d.mh) {q : MH}
    (hq : SInv k hf seed q) (thr : Nat) {c : Counter MH} (h : counterGather mhOps db q thr = .ok c) :
    ∃ c', counterGather lsOps (db.map sigOfMH) (ofMH q) thr = .ok c' ∧ RCnt (SimR k hf seed) SimP c c' :=
  sim_counterGather (mh_ls_sim k hf seed) (forall2_sigOfMH hdb) ⟨hq, rfl⟩ thr h

/-- **a whole prefetch-mode gather (counters, `__init__`, any number of rounds) on the shared MinHash model returns
exactly the `GatherResult` records of the list-sketch run on the abstracted inputs** -- so every theorem of
`Props/C07.lean` about `GD.run lsOps` describes what the shared-model instance (the one the driver compares
with the real code on every case) reports -/
theorem gather_transfer {q : MH} (hq : SInv k hf seed q) {dbs : List (List (Sig MH))}
    (hdbs : ∀ db ∈ dbs, ∀ d ∈ db, SInv k hf seed d.mh) (thr : Nat) (ign : Bool)
    {cs : List (Counter MH)} (hcs : List.Forall₂ (fun db c => counterGather mhOps db q thr = .ok c) dbs cs)
    {g : GD MH} (hg : GD.init mhOps q (cs.map CObj.cg) thr ign none none = .ok g) (n : Nat)
    {gf : GD MH} {rs : List (GRes σ)} (hrun : g.run mhOps ops n = .ok (gf, rs)) :
    ∃ cs' g' gf', List.Forall₂ (fun db c => counterGather lsOps (db.map sigOfMH) (ofMH q) thr = .ok c) dbs cs' ∧
      GD.init lsOps (ofMH q) (cs'.map CObj.cg) thr ign none none = .ok g' ∧
      g'.run lsOps ops n = .ok (gf', rs) ∧ gf'.query = ofMH gf.query := by
  have S := mh_ls_sim k hf seed
  -- counters
  have hcnt : ∃ cs', List.Forall₂ (fun db c => counterGather lsOps (db.map sigOfMH) (ofMH q) thr = .ok c) dbs cs' ∧
      List.Forall₂ (RObj (SimR k hf seed) SimP) (cs.map CObj.cg) (cs'.map CObj.cg) := by
    clear hg
    induction hcs with
    | nil => exact ⟨[], List.Forall₂.nil, List.Forall₂.nil⟩
    | @cons db c dbs' cs' hd _ ih =>
      obtain ⟨c', hc', rc⟩ := counterGather_transfer (hdbs db List.mem_cons_self) hq thr hd
      obtain ⟨rest', hr1, hr2⟩ := ih (fun d hd' => hdbs d (List.mem_cons_of_mem _ hd'))
      exact ⟨c' :: rest', List.Forall₂.cons hc' hr1, List.Forall₂.cons rc hr2⟩
  obtain ⟨cs', hcs', rcs⟩ := hcnt
  obtain ⟨g', hg', rg⟩ := sim_init S (⟨hq, rfl⟩ : SimR k hf seed q (ofMH q)) rcs thr ign
    (ni1 := none) (id1 := none) (ni2 := none) (id2 := none) trivial trivial hg
  obtain ⟨gf', hrun', rgf⟩ := sim_run S n rg hrun
  exact ⟨cs', g', gf', hcs', hg', hrun', rgf.query.2⟩

/-- one round, from related states -/
theorem next_transfer {g : GD MH} {g' : GD LS} (hrel : RGD (SimR k hf seed) SimP g g')
    {gn : GD MH} {r : Option (GRes σ)} (h : g.next mhOps ops = .ok (gn, r)) :
    ∃ gn', g'.next lsOps ops = .ok (gn', r) ∧ RGD (SimR k hf seed) SimP gn gn' :=
  sim_next (mh_ls_sim k hf seed) hrel h

end Sm.Gather
