/-
The order law `ScoreLaws` holds for the *exact* value of `MinHash.contained_by`:
`min(1, c / (d * (1 - (1 - 1/s)^(d*s))))` over ℚ.  (The code evaluates this expression in
doubles through libm `pow`; that the rounded value keeps the strict order is checked by the
correspondence streams, not proved.)
-/
import SmVerif.Lemmas.GatherFindBest
import Mathlib.Algebra.Order.Field.Basic
import Mathlib.Tactic.Positivity
import Mathlib.Tactic.Linarith
import Mathlib.Tactic.FieldSimp
import Mathlib.Algebra.Order.Ring.Pow

set_option autoImplicit false

namespace Sm.Gather

open Sm

/-- the bias factor `1 - (1 - 1/s)^(d*s)` -/
def biasQ (d s : Nat) : ℚ := 1 - (1 - 1 / (s : ℚ)) ^ (d * s)

/-- `contained_by` in exact arithmetic -/
def containedQ (c d s : Nat) : ℚ := min 1 ((c : ℚ) / ((d : ℚ) * biasQ d s))

/-- scores as exact rationals with the code's formula -/
def qOps : ScoreOps ℚ where
  contained := containedQ
  ofF := fun x => (x.m : ℚ) * (2 : ℚ) ^ x.e
  gt := fun a b => decide (b < a)
  ge := fun a b => decide (b ≤ a)
  isZero := fun a => decide (a = 0)
  ltOne := fun a => decide (a < 1)
  std := fun _ => 0
  str := fun _ => ""

/-- `(1 - 1/s)^s ≤ 1/2` for `s ≥ 2` (Bernoulli) -/
theorem pow_le_half {s : Nat} (hs : 2 ≤ s) : (1 - 1 / (s : ℚ)) ^ s ≤ 1 / 2 := by
  have hsq : (2 : ℚ) ≤ s := by exact_mod_cast hs
  have hpos : (0 : ℚ) < (s : ℚ) - 1 := by linarith
  -- (s/(s-1))^s ≥ 1 + s/(s-1) ≥ 2
  have hb : 1 + (s : ℚ) * (1 / ((s : ℚ) - 1)) ≤ (1 + 1 / ((s : ℚ) - 1)) ^ s :=
    one_add_mul_le_pow (by have : (0 : ℚ) ≤ 1 / ((s : ℚ) - 1) := by positivity
                           linarith) s
  have h2 : (2 : ℚ) ≤ (1 + 1 / ((s : ℚ) - 1)) ^ s := by
    have : (1 : ℚ) ≤ (s : ℚ) * (1 / ((s : ℚ) - 1)) := by
      rw [mul_one_div, le_div_iff₀ hpos]; linarith
    linarith
  have heq : (1 - 1 / (s : ℚ)) * (1 + 1 / ((s : ℚ) - 1)) = 1 := by
    have : (s : ℚ) ≠ 0 := by positivity
    have : (s : ℚ) - 1 ≠ 0 := ne_of_gt hpos
    field_simp
    ring
  have hx0 : (0 : ℚ) ≤ 1 - 1 / (s : ℚ) := by
    have : 1 / (s : ℚ) ≤ 1 := by
      rw [div_le_one (by positivity)]; linarith
    linarith
  have hprod : (1 - 1 / (s : ℚ)) ^ s * (1 + 1 / ((s : ℚ) - 1)) ^ s = 1 := by
    rw [← mul_pow, heq, one_pow]
  have hy : (0 : ℚ) < (1 + 1 / ((s : ℚ) - 1)) ^ s := by positivity
  have : (1 - 1 / (s : ℚ)) ^ s = 1 / (1 + 1 / ((s : ℚ) - 1)) ^ s := by
    rw [eq_div_iff (ne_of_gt hy)]
    exact hprod
  rw [this, div_le_div_iff₀ hy (by norm_num)]
  linarith

theorem nat_lt_two_pow (d : Nat) : (d : ℚ) < 2 ^ d := by
  have := Nat.lt_two_pow_self (n := d)
  exact_mod_cast this

/-- the bias factor is so close to 1 that `d - 1 < d * bias`: an overlap below `d` never reaches the clamp -/
theorem bias_close {d s : Nat} (hd : 0 < d) (hs : 1 ≤ s) : (d : ℚ) - 1 < (d : ℚ) * biasQ d s ∧ 0 < biasQ d s ∧ biasQ d s ≤ 1 := by
  unfold biasQ
  have hdq : (0 : ℚ) < d := by exact_mod_cast hd
  have key : (d : ℚ) * (1 - 1 / (s : ℚ)) ^ (d * s) < 1 ∧ 0 ≤ (1 - 1 / (s : ℚ)) ^ (d * s) := by
    rcases Nat.lt_or_ge s 2 with h1 | h2
    · have : s = 1 := by omega
      subst this
      have hd0 : d ≠ 0 := by omega
      simp [hd0]
    · have hx0 : (0 : ℚ) ≤ 1 - 1 / (s : ℚ) := by
        have hsq : (1 : ℚ) ≤ s := by exact_mod_cast hs
        have : 1 / (s : ℚ) ≤ 1 := by
          rw [div_le_one (by positivity)]; exact hsq
        linarith
      have hp : (1 - 1 / (s : ℚ)) ^ (d * s) ≤ (1 / 2) ^ d := by
        rw [Nat.mul_comm, pow_mul]
        exact pow_le_pow_left₀ (pow_nonneg hx0 s) (pow_le_half h2) d
      refine ⟨?_, pow_nonneg hx0 _⟩
      have h2d : (0 : ℚ) < 2 ^ d := by positivity
      have : (d : ℚ) * (1 / 2) ^ d < 1 := by
        rw [one_div, inv_pow, ← div_eq_mul_inv, div_lt_one h2d]
        exact nat_lt_two_pow d
      calc (d : ℚ) * (1 - 1 / (s : ℚ)) ^ (d * s) ≤ (d : ℚ) * (1 / 2) ^ d :=
            mul_le_mul_of_nonneg_left hp hdq.le
        _ < 1 := this
  obtain ⟨k1, k2⟩ := key
  refine ⟨by nlinarith, ?_, by linarith⟩
  -- bias > 1 - 1/d ≥ 0
  have : (1 - 1 / (s : ℚ)) ^ (d * s) < 1 / d := by
    rw [lt_div_iff₀ hdq]; linarith [mul_comm (d : ℚ) ((1 - 1 / (s : ℚ)) ^ (d * s))]
  have hd1 : 1 / (d : ℚ) ≤ 1 := by
    rw [div_le_one hdq]; exact_mod_cast hd
  linarith

/-- **the exact `contained_by` is strictly increasing in the overlap** (fixed query size and scaled) -/
theorem qOps_laws : ScoreLaws qOps := by
  constructor
  intro c c' d s hc hc' hd hs
  show decide (containedQ c' d s < containedQ c d s) = decide (c' < c)
  obtain ⟨b1, b2, b3⟩ := bias_close hd hs
  have hdq : (0 : ℚ) < d := by exact_mod_cast hd
  have hden : (0 : ℚ) < (d : ℚ) * biasQ d s := mul_pos hdq b2
  -- below d the quotient is below 1; at d it is ≥ 1
  have hlt1 : ∀ x : Nat, x < d → (x : ℚ) / ((d : ℚ) * biasQ d s) < 1 := by
    intro x hx
    rw [div_lt_one hden]
    have : (x : ℚ) ≤ (d : ℚ) - 1 := by
      have : x + 1 ≤ d := hx
      have : ((x + 1 : Nat) : ℚ) ≤ d := by exact_mod_cast this
      push_cast at this; linarith
    linarith
  have hge1 : (1 : ℚ) ≤ (d : ℚ) / ((d : ℚ) * biasQ d s) := by
    rw [le_div_iff₀ hden]
    nlinarith
  have hval : ∀ x : Nat, x ≤ d → containedQ x d s = if x = d then 1 else (x : ℚ) / ((d : ℚ) * biasQ d s) := by
    intro x hx
    unfold containedQ
    by_cases he : x = d
    · subst he; rw [if_pos rfl]; exact min_eq_left hge1
    · rw [if_neg he]; exact min_eq_right (hlt1 x (by omega)).le
  have mono : ∀ x y : Nat, x ≤ d → y ≤ d → x < y → containedQ x d s < containedQ y d s := by
    intro x y hx hy hxy
    rw [hval x hx, hval y hy, if_neg (by omega)]
    by_cases he : y = d
    · rw [if_pos he]; exact hlt1 x (by omega)
    · rw [if_neg he]
      exact div_lt_div_of_pos_right (by exact_mod_cast hxy) hden
  by_cases h : c' < c
  · rw [decide_eq_true h, decide_eq_true (mono c' c hc' hc h)]
  · rw [decide_eq_false h]
    have hle : c ≤ c' := by omega
    rcases Nat.eq_or_lt_of_le hle with he | hl
    · subst he; simp
    · have := mono c c' hc hc' hl
      rw [decide_eq_false (not_lt.2 this.le)]

end Sm.Gather
