/-
C06: what follows for ANY container whose `find` is the generic scan over a list of scored
candidates `H` that holds exactly the stored sketches sharing a hash with the query, each once with
its score (`Scored`): plain search = brute force; best-only search returns only brute-force matches
of the original threshold and every maximal one.  Used for SqliteIndex and LCA_Database.
-/
import SmVerif.Lemmas.SearchSqlFind

namespace Sm.Search

open Sm F64

/-- `H` lists exactly the entries of `E` with a positive overlap `ov`, each once, with score `f` -/
structure Scored (E : List (Nat × MH)) (f : MH → Ratio) (ov : MH → Nat) (H : List Hit) : Prop where
  nodup : (H.map Hit.idx).Nodup
  mem : ∀ x, x ∈ H ↔ ∃ s, (x.idx, s) ∈ E ∧ x.score = f s ∧ 0 < ov s
  /-- a score with a non-zero numerator has a positive overlap -/
  pos : ∀ p ∈ E, (f p.2).n ≠ 0 → 0 < ov p.2

theorem scoreFn_n_pos {m : Mode} {q sh su t : Nat} (h : (scoreFn m q sh su t).n ≠ 0) : 0 < sh := by
  by_contra h0
  have : sh = 0 := by omega
  subst this
  exact h (scoreFn_n_zero _ _ _ _)

namespace Scored

variable {E : List (Nat × MH)} {f : MH → Ratio} {ov : MH → Nat} {H : List Hit}

theorem nodup_scan (h : Scored E f ov H) (js : JS) : (((scan js H).2).map Hit.idx).Nodup :=
  List.Nodup.sublist (List.Sublist.map _ ((scan_sound js H).trans List.filter_sublist)) h.nodup

/-- whatever the mode of the search: everything returned is a stored sketch with its score, and
passes the ORIGINAL threshold -/
theorem sound (h : Scored E f ov H) (js : JS) {x : Hit} (hx : x ∈ (scan js H).2) :
    ∃ s, (x.idx, s) ∈ E ∧ x.score = f s ∧ js.passes x.score = true := by
  have := (scan_sound js H).subset hx
  unfold bruteHits at this
  obtain ⟨h1, h2⟩ := List.mem_filter.1 this
  obtain ⟨s, hs, hsc, _⟩ := (h.mem x).1 h1
  exact ⟨s, hs, hsc, h2⟩

/-- every stored sketch whose score passes and is maximal among the passing ones is returned -/
theorem max (h : Scored E f ov H) (js : JS) {i : Nat} {s : MH} (hs : (i, s) ∈ E)
    (hp : js.passes (f s) = true)
    (hmax : ∀ p ∈ E, js.passes (f p.2) = true → ge (f s).toF (f p.2).toF = true) :
    (⟨i, f s⟩ : Hit) ∈ (scan js H).2 := by
  have hpos : 0 < ov s := h.pos (i, s) hs ((passes_iff js _).1 hp).1.1
  apply scan_max js H ⟨i, f s⟩ ((h.mem _).2 ⟨s, hs, rfl, hpos⟩) hp
  intro y hy hpy
  obtain ⟨t, ht, hsc, _⟩ := (h.mem y).1 hy
  rw [hsc] at hpy ⊢
  exact hmax (y.idx, t) ht hpy

/-- plain search: exactly the stored sketches whose score passes -/
theorem plain (h : Scored E f ov H) (js : JS) (hb : js.bestOnly = false) (x : Hit) :
    x ∈ (scan js H).2 ↔ ∃ s, (x.idx, s) ∈ E ∧ x.score = f s ∧ js.passes x.score = true := by
  constructor
  · exact h.sound js
  · intro ⟨s, hs, hsc, hp⟩
    rw [scan_plain hb]
    unfold bruteHits
    refine List.mem_filter.2 ⟨(h.mem x).2 ⟨s, hs, hsc, ?_⟩, hp⟩
    rw [hsc] at hp
    exact h.pos (x.idx, s) hs ((passes_iff js _).1 hp).1.1

/-- the score may be replaced by one that agrees with it on the stored sketches -/
theorem congr {g : MH → Ratio} (h : Scored E f ov H) (hfg : ∀ p ∈ E, f p.2 = g p.2) : Scored E g ov H := by
  refine ⟨h.nodup, ?_, ?_⟩
  · intro x
    rw [h.mem x]
    constructor
    · intro ⟨s, hs, hsc, hp⟩; exact ⟨s, hs, by rw [hsc, hfg (x.idx, s) hs], hp⟩
    · intro ⟨s, hs, hsc, hp⟩; exact ⟨s, hs, by rw [hsc, hfg (x.idx, s) hs], hp⟩
  · intro p hp hn
    exact h.pos p hp (by rw [hfg p hp]; exact hn)

end Scored

/-! ### SqliteIndex -/

/-- `SqliteIndex.find` (after the query has been prepared) is the scan over exactly the stored
sketches that share a hash with the query, each once, scored with `sqlScore` -/
theorem sqlCore_scored {sc : Nat} {sks : List (Nat × MH)} (hn : (sks.map Prod.fst).Nodup)
    (hU : ∀ p ∈ sks, ∀ h ∈ p.2.mins, h < 2 ^ 64) {q' : MH} (hQne : q'.mins ≠ [])
    (hQb : ∀ h ∈ q'.mins, h ≤ q'.maxHash) (hQU : ∀ h ∈ q'.mins, h < 2 ^ 64) (js : JS) :
    ∃ H, sqlCore (sqlOf sc sks) js q' = .ok (scan js H) ∧
      Scored sks (sqlScore js.mode q') (fun s => (s.mins.filter (fun h => decide (h ∈ q'.mins))).length) H := by
  obtain ⟨cands, hc, hnd, hmem⟩ := matchingSketches_spec (sc := sc) hn hU hQne hQb hQU
  refine ⟨cands.map (fun p => ⟨p.1, scoreFn js.mode q'.mins.length p.2 ((sqlOf sc sks).loadSketchSize p.1 q'.maxHash)
      (q'.mins.length + (sqlOf sc sks).loadSketchSize p.1 q'.maxHash - p.2)⟩), ?_, ?_, ?_, ?_⟩
  · unfold sqlCore
    rw [hc]
    simp only []
    rw [sqlLoop_eq_scan _ _ js.mode cands js rfl]
  · rw [List.map_map]
    exact hnd
  · intro x
    rw [List.mem_map]
    constructor
    · intro ⟨p, hp, hx⟩
      obtain ⟨i, n⟩ := p
      obtain ⟨s, hs, hn', hpos⟩ := (hmem i n).1 hp
      subst hx
      refine ⟨s, hs, ?_, by rw [← hn']; exact hpos⟩
      simp only [sqlScore]
      rw [loadSketchSize_of hn hs (hU _ hs), hn']
    · intro ⟨s, hs, hsc, hpos⟩
      refine ⟨(x.idx, (s.mins.filter (fun h => decide (h ∈ q'.mins))).length), (hmem _ _).2 ⟨s, hs, rfl, hpos⟩, ?_⟩
      obtain ⟨xi, xs⟩ := x
      simp only [] at hsc hs ⊢
      rw [hsc]
      simp only [sqlScore]
      rw [loadSketchSize_of hn hs (hU _ hs)]
  · intro p _ hne
    unfold sqlScore at hne
    exact scoreFn_n_pos hne

theorem specScore_n_zero_of_empty (m : Mode) (Sq Sd : Nat) (Q D : List Nat)
    (h : Q.filter (fun x => decide (x ≤ mhR (max Sq Sd))) = []) : (specScore m Sq Sd Q D).n = 0 := by
  unfold specScore specSizes
  simp only []
  rw [h]
  exact scoreFn_n_zero _ _ _ _

/-- `SqliteIndex.find` (either variant of the source) on a database of flat scaled-`Sd` sketches, for
any search object: the scan over exactly the stored sketches sharing a hash with the prepared query,
each once, scored with the specification score.  Without the early return (`early = false`) this
needs a query that is not empty after downsampling. -/
theorem findSqliteV_scored (early : Bool) (js : JS) (sks : List (Nat × MH)) (Sd Sq : Nat) (q : MH)
    (hq : Flat q Sq) (hn : (sks.map Prod.fst).Nodup) (hSd : Sd ≤ 2 ^ 31)
    (hsks : ∀ p ∈ sks, Flat p.2 Sd)
    (hne : early = false → q.mins.filter (fun x => decide (x ≤ mhR (max Sq Sd))) ≠ []) :
    ∃ ov H, findSqliteV early (sqlOf Sd sks) js q = .ok (scan js H) ∧
      Scored sks (fun s => specScore js.mode Sq Sd q.mins s.mins) ov H := by
  have hprep : ∃ q', (if Sd > Py.scaledProp q then liftE (Py.downsample q none (some Sd)) else .ok q) = .ok q' ∧
      Flat q' (max Sq Sd) ∧ q'.mins = q.mins.filter (fun x => decide (x ≤ mhR (max Sq Sd))) := by
    rw [hq.scaledProp]
    by_cases hgt : Sd > Sq
    · rw [if_pos hgt]
      obtain ⟨r, h1, h2, h3, _⟩ := downsample_flat hq (Nat.le_of_lt hgt) hSd
      have hmax : max Sq Sd = Sd := Nat.max_eq_right (Nat.le_of_lt hgt)
      rw [hmax]
      exact ⟨r, by rw [h1]; rfl, h2, h3⟩
    · rw [if_neg hgt]
      have hmax : max Sq Sd = Sq := Nat.max_eq_left (by omega)
      rw [hmax]
      exact ⟨q, rfl, hq, hq.filter_self.symm⟩
  obtain ⟨q', hq1, hq2, hq3⟩ := hprep
  have hcompat : js.checkIsCompatible q = .ok () := by
    unfold JS.checkIsCompatible
    rw [hq.scaledProp, hq.track]
    have := hq.lo
    rw [if_neg (by omega), if_neg (by simp)]
  by_cases hempty : q.mins.filter (fun x => decide (x ≤ mhR (max Sq Sd))) = []
  · -- the early return
    have he : early = true := by
      cases early with
      | true => rfl
      | false => exact absurd hempty (hne rfl)
    subst he
    refine ⟨fun _ => 0, [], ?_, ⟨by simp, ?_, ?_⟩⟩
    · unfold findSqliteV
      rw [hcompat]
      simp only [sqlOf]
      rw [hq1]
      simp only []
      rw [hq3, hempty]
      rfl
    · intro x
      simp
    · intro p _ hnz
      exact absurd (specScore_n_zero_of_empty js.mode Sq Sd q.mins p.2.mins hempty) hnz
  · have hU : ∀ p ∈ sks, ∀ h ∈ p.2.mins, h < 2 ^ 64 := fun p hp => (hsks p hp).u64
    have hQb : ∀ h ∈ q'.mins, h ≤ q'.maxHash := fun h hh => hq2.inv.bounded hq2.mh_ne h hh
    obtain ⟨H, e, hS⟩ := sqlCore_scored (sc := Sd) hn hU (q' := q') (by rw [hq3]; exact hempty) hQb hq2.u64 js
    refine ⟨_, H, ?_, hS.congr (fun p hp => sqlScore_eq_spec js.mode hq2 hq3 (hsks p hp))⟩
    unfold findSqliteV
    rw [hcompat]
    simp only [sqlOf]
    rw [hq1]
    simp only []
    have hnotempty : q'.mins.isEmpty = false := by
      rw [hq3]
      cases hl : q.mins.filter (fun x => decide (x ≤ mhR (max Sq Sd))) with
      | nil => exact absurd hl hempty
      | cons _ _ => rfl
    rw [hnotempty, Bool.and_false]
    exact e

/-- the same for the variant the current source has: the non-empty-query hypothesis is needed only if
the source lacks the early return -/
theorem findSqlite_scored (js : JS) (sks : List (Nat × MH)) (Sd Sq : Nat) (q : MH)
    (hq : Flat q Sq) (hn : (sks.map Prod.fst).Nodup) (hSd : Sd ≤ 2 ^ 31)
    (hsks : ∀ p ∈ sks, Flat p.2 Sd)
    (hne : Gen.sqlEmptyQueryReturnsNothing = false → q.mins.filter (fun x => decide (x ≤ mhR (max Sq Sd))) ≠ []) :
    ∃ ov H, findSqlite (sqlOf Sd sks) js q = .ok (scan js H) ∧
      Scored sks (fun s => specScore js.mode Sq Sd q.mins s.mins) ov H :=
  findSqliteV_scored _ js sks Sd Sq q hq hn hSd hsks hne

end Sm.Search
