/-
A whole `GatherDatabases` iteration (prefetch mode, database sketches at one scaled value)
on list sketches: the state invariant and what one call of `__next__` does.
-/
import SmVerif.Lemmas.GatherRound

set_option autoImplicit false

namespace Sm.Gather

open Sm

theorem dn_idem (s : Nat) (l : List Nat) : dn s (dn s l) = dn s l := by
  unfold dn
  rw [List.filter_filter]
  apply List.filter_congr
  intro x _; simp

theorem dn_diffL (s : Nat) (Q B : List Nat) : dn s (diffL (dn s Q) B) = diffL (dn s Q) B := by
  unfold diffL
  rw [dn_filter, dn_idem]

/-- state invariant of a prefetch-mode gather run: query at `sq`, every database sketch at `sd`,
counters loaded with the candidate lists `cls` -/
structure GInv (sq sd : Nat) (cls : List (List (Sig LS))) (g : GD LS) : Prop where
  orig_sorted : Sorted g.origSigMh.hs
  q_sorted : Sorted g.query.hs
  q_scaled : g.query.scaled = g.cmpScaled
  cmp : g.cmpScaled = sq ∨ g.cmpScaled = max sq sd
  cand_ok : ∀ cl ∈ cls, ∀ d ∈ cl, d.mh.WF ∧ d.mh.scaled = sd
  counters : AllInv (max sq sd) (dn (max sq sd) g.query.hs) cls g.counters
  size : g.query.hs.length < 2 ^ 53

/-- the unassigned hashes at the comparison resolution -/
def GD.unassigned (sq sd : Nat) (g : GD LS) : List Nat := dn (max sq sd) g.query.hs

/-- accounting invariant: `Q0` = the hashes gather starts from (the identified part of the query, at
the query's scaled), `NI0` = the never-identified part; both are carried downsampled to `cmp_scaled` -/
structure AInv (sq sd : Nat) (Q0 NI0 : List Nat) (g : GD LS) : Prop where
  bounds : 1 ≤ sq ∧ sq ≤ 2 ^ 31 ∧ 1 ≤ sd ∧ sd ≤ 2 ^ 31
  oq_hs : g.origQueryMh.hs = dn g.cmpScaled Q0
  oq_sc : g.origQueryMh.scaled = g.cmpScaled
  ni_hs : g.noidentMh.hs = dn g.cmpScaled NI0
  ni_sc : g.noidentMh.scaled = g.cmpScaled
  nsum : g.noidentSum = wsum g.origQueryAbunds (dn g.cmpScaled NI0)
  tot : g.totalWeighted = wsum g.origQueryAbunds (dn g.cmpScaled Q0) + g.noidentSum

variable {σ : Type} {ops : ScoreOps σ}

/-- `_update_scaled` keeps the accounting invariant (database sketches at `sd`) -/
theorem AInv.updateScaled {sq sd : Nat} {Q0 NI0 : List Nat} {g g1 : GD LS}
    (ha : AInv sq sd Q0 NI0 g) (hcmp : g.cmpScaled = sq ∨ g.cmpScaled = max sq sd)
    (hu : g.updateScaled lsOps sd = .ok g1) :
    AInv sq sd Q0 NI0 g1 ∧ g1.cmpScaled = max sq sd := by
  obtain ⟨u1, _, _, _, _, _, u7, _, u9, u10⟩ := updateScaled_ls hu
  obtain ⟨b1, b2, b3, b4⟩ := ha.bounds
  have hcs : g1.cmpScaled = max sq sd := by
    rw [u1]; rcases hcmp with h1 | h1 <;> rw [h1] <;> omega
  by_cases hc : g.cmpScaled = max g.cmpScaled sd
  · have := u9 hc
    subst this
    exact ⟨ha, hcs⟩
  · obtain ⟨_, _, v3, v4, v5, v6⟩ := u10 hc
    have hsq : g.cmpScaled = sq := by
      rcases hcmp with h1 | h1
      · exact h1
      · exfalso; apply hc; rw [h1]; omega
    have hsd : g1.cmpScaled = sd := by rw [u1, hsq]; rw [hsq] at hc; omega
    have hle : sq ≤ sd := by rw [hsq] at hc; omega
    refine ⟨⟨ha.bounds, ?_, ?_, ?_, ?_, ?_, ?_⟩, hcs⟩
    · rw [v3, hsd, LS.dsv_hs, ha.oq_hs, hsq, dn_dn b1 hle b4]
    · rw [v3, hsd]; rfl
    · rw [v4, hsd, LS.dsv_hs, ha.ni_hs, hsq, dn_dn b1 hle b4]
    · rw [v4, hsd]; rfl
    · rw [v5, u7, hsd, ha.ni_hs, hsq, dn_dn b1 hle b4]
    · rw [v6, u7, hsd, ha.oq_hs, hsq, dn_dn b1 hle b4]

/-- **one round** (`greedy_max`, `removes_exactly`, `stops_only_below`, and the invariant) -/
theorem next_spec (laws : ScoreLaws ops) {sq sd : Nat} {cls : List (List (Sig LS))} {g g' : GD LS}
    {r : Option (GRes σ)} {Q0 NI0 : List Nat} (hinv : GInv sq sd cls g) (ha : AInv sq sd Q0 NI0 g)
    (h : g.next lsOps ops = .ok (g', r))
    {s : Nat} {Q : List Nat} (hs : s = max sq sd) (hQ : Q = g.unassigned sq sd) :
    match r with
    | none => g'.query = g.query ∧ GInv sq sd cls g' ∧ AInv sq sd Q0 NI0 g' ∧
        (Q = [] ∨ ∀ cl ∈ cls, Stuck s g.thresholdBp Q cl)
    | some res => ∃ best ∈ cls.flatten,
        res.name = best.name ∧ res.md5 = best.md5 ∧
        (∀ d ∈ cls.flatten, ovl Q (dn s d.mh.hs) ≤ ovl Q (dn s best.mh.hs)) ∧
        reaches g.thresholdBp s Q.length (ovl Q (dn s best.mh.hs)) ∧ Q ≠ [] ∧
        res.isectCur = Q.filter (inL (dn s best.mh.hs)) ∧ res.isectCur ≠ [] ∧
        g'.unassigned sq sd = diffL Q (dn s best.mh.hs) ∧ g'.query.hs = diffL Q (dn s best.mh.hs) ∧
        g'.cmpScaled = s ∧ res.cmpScaled = s ∧ res.rank = g.resultN ∧ g'.resultN = g.resultN + 1 ∧
        g'.thresholdBp = g.thresholdBp ∧ GInv sq sd cls g' ∧ AInv sq sd Q0 NI0 g' ∧
        g'.origSigMh = g.origSigMh ∧ g'.origQueryAbunds = g.origQueryAbunds ∧
        g'.trackAbundance = g.trackAbundance ∧
        ColsOK ops res best s s g.origSigMh.hs g.query.hs g.origQueryAbunds g.trackAbundance g.resultN
          (wsum g.origQueryAbunds (dn s Q0) + wsum g.origQueryAbunds (dn s NI0)
            - (wsum g.origQueryAbunds (diffL Q (dn s best.mh.hs)) + wsum g.origQueryAbunds (dn s NI0)))
          ((dn s Q0).length + (dn s NI0).length) ((dn s NI0).length * s)
          (wsum g.origQueryAbunds (dn s Q0) + wsum g.origQueryAbunds (dn s NI0)) g.origSigMh.scaled := by
  have hQ' : Q = dn s g.query.hs := by rw [hQ, hs]; rfl
  have hinvc : AllInv s Q cls g.counters := by rw [hQ', hs]; exact hinv.counters
  have hQs : Sorted Q := by rw [hQ']; exact sorted_dn hinv.q_sorted _
  have hQlen : Q.length < 2 ^ 53 := by
    rw [hQ']; exact Nat.lt_of_le_of_lt (List.length_filter_le _ _) hinv.size
  have hqle : g.query.scaled ≤ s := by
    rw [hinv.q_scaled]; rcases hinv.cmp with h1 | h1 <;> rw [h1] <;> omega
  unfold GD.next at h
  by_cases h0 : len lsOps g.query = 0
  · rw [if_pos h0] at h
    simp only [Except.ok.injEq, Prod.mk.injEq] at h
    obtain ⟨rfl, rfl⟩ := h
    refine ⟨rfl, hinv, ha, Or.inl ?_⟩
    have : g.query.hs = [] := List.eq_nil_of_length_eq_zero h0
    rw [hQ', this]; rfl
  rw [if_neg h0] at h
  cases hf : findBest lsOps ops g.counters g.query g.thresholdBp with
  | error e => rw [hf] at h; cases h
  | ok fr =>
    obtain ⟨cs, b⟩ := fr
    rw [hf] at h
    have hs1 : 1 ≤ s := by rw [hs]; have := ha.bounds.1; omega
    have hfb := findBest_spec laws hs1 hQlen (cur := g.query) hQ'.symm hinv.q_sorted hqle hinvc hf
    cases b with
    | none =>
      simp only [Except.ok.injEq, Prod.mk.injEq] at h
      obtain ⟨rfl, rfl⟩ := h
      simp only [] at hfb
      refine ⟨rfl, ⟨hinv.orig_sorted, hinv.q_sorted, hinv.q_scaled, hinv.cmp, hinv.cand_ok, ?_, hinv.size⟩,
        ⟨ha.bounds, ha.oq_hs, ha.oq_sc, ha.ni_hs, ha.ni_sc, ha.nsum, ha.tot⟩, Or.inr hfb.2⟩
      have := hfb.1
      rw [hQ', hs] at this
      exact this
    | some x =>
      obtain ⟨sc, best, inter⟩ := x
      simp only [] at h hfb
      obtain ⟨⟨b1, b2, b3, b4, b5, b6, b7⟩, hcnt⟩ := hfb
      simp only [] at b1 b2 b3 b4 b5 b6 b7 hcnt
      obtain ⟨cl, hcl, hbcl⟩ := mem_flatten_iff.1 b1
      obtain ⟨hbwf, hbsd⟩ := hinv.cand_ok cl hcl best hbcl
      obtain ⟨hb0, g1, res, hu, hq1, hb1, hg', hr, hbuild⟩ := report_ls h
      subst hr
      obtain ⟨u1, u2, u3, u4, u5, u6, u7, u8, _, _⟩ := updateScaled_ls hu
      simp only [] at u1 u2 u3 u4 u5 u6 u7 u8 hq1
      have hcs : g1.cmpScaled = s := by
        rw [u1, hbsd]
        rcases hinv.cmp with h1 | h1 <;> rw [h1] <;> omega
      have hq1s : Sorted g1.query.hs := by rw [u2]; exact hinv.q_sorted
      have hs2 : max g1.query.scaled best.mh.scaled = s := by
        rw [u2]
        show max g.query.scaled best.mh.scaled = s
        rw [hinv.q_scaled, hbsd]
        rcases hinv.cmp with h1 | h1 <;> rw [h1] <;> omega
      have hbr := buildResult_ls (by rw [u4]; exact hinv.orig_sorted) hbwf.sorted hq1s hbuild
      rw [hs2, hcs] at hbr
      have ha0 : AInv sq sd Q0 NI0 { g with counters := cs } :=
        ⟨ha.bounds, ha.oq_hs, ha.oq_sc, ha.ni_hs, ha.ni_sc, ha.nsum, ha.tot⟩
      rw [hbsd] at hu
      obtain ⟨ha1, _⟩ := ha0.updateScaled hinv.cmp hu
      have hcs' : g1.cmpScaled = max sq sd := by rw [hcs, hs]
      have hcols : ColsOK ops res best s s g.origSigMh.hs g.query.hs g.origQueryAbunds g.trackAbundance g.resultN
          (wsum g.origQueryAbunds (dn s Q0) + wsum g.origQueryAbunds (dn s NI0)
            - (wsum g.origQueryAbunds (diffL Q (dn s best.mh.hs)) + wsum g.origQueryAbunds (dn s NI0)))
          ((dn s Q0).length + (dn s NI0).length) ((dn s NI0).length * s)
          (wsum g.origQueryAbunds (dn s Q0) + wsum g.origQueryAbunds (dn s NI0)) g.origSigMh.scaled := by
        have e1 := ha1.oq_hs
        have e2 := ha1.ni_hs
        have e3 := ha1.ni_sc
        have e4 := ha1.nsum
        have e5 := ha1.tot
        rw [hcs] at e1 e2 e3 e4 e5
        rw [e4] at e5
        rw [e1, e2, e3, e4, e5, u2, u4, u6, u7, u8, ← hQ'] at hbr
        exact hbr
      have hbr' := hbr
      unfold ColsOK at hbr'
      simp only [] at hbr'
      obtain ⟨r1, r2, r3, r4, _, r6, _, _, _, _, _, _, _, _, _, _, _, _, _, _, _, _, _, r24, _, _⟩ := hbr'
      have hq1hs : g1.query.hs = g.query.hs := by rw [u2]
      rw [hq1hs, ← hQ'] at r6 r24
      rw [← r6] at r24
      have hg'q : g'.query.hs = diffL Q (dn s best.mh.hs) := by
        rw [hg']
        show (LS.removeFrom (g1.query.dsv g1.cmpScaled) (best.mh.dsv g1.cmpScaled).flat).hs = _
        rw [LS.removeFrom_hs, hcs]
        show diffL (dn s g1.query.hs) (dn s best.mh.hs) = _
        rw [hq1hs, hQ']
      have hun : g'.unassigned sq sd = diffL Q (dn s best.mh.hs) := by
        unfold GD.unassigned
        rw [hg'q, ← hs, hQ']
        exact dn_diffL _ _ _
      have hg'cs : g'.cmpScaled = s := by rw [hg']; exact hcs
      refine ⟨best, b1, r1, r2, b7, b4, b6, r6, r24, hun, hg'q, hg'cs, r4, ?_, ?_, ?_, ?_, ?_, ?_, ?_, ?_, hcols⟩
      · rw [r3, u6]
      · rw [hg']; show g1.resultN + 1 = _; rw [u6]
      · rw [hg']; show g1.thresholdBp = _; rw [u5]
      · refine ⟨?_, ?_, ?_, Or.inr (hs ▸ hg'cs), hinv.cand_ok, ?_, ?_⟩
        · rw [hg']; show Sorted g1.origSigMh.hs; rw [u4]; exact hinv.orig_sorted
        · rw [hg'q]; exact sorted_diffL hQs _
        · rw [hg']; show (LS.removeFrom (g1.query.dsv g1.cmpScaled) (best.mh.dsv g1.cmpScaled).flat).scaled = _
          rw [LS.removeFrom_scaled]; rfl
        · have : g'.counters = cs := by rw [hg']; show g1.counters = cs; rw [u3]
          rw [this]
          have e : dn (max sq sd) g'.query.hs = diffL Q (dn s best.mh.hs) := hun
          rw [e, ← hs]
          exact hcnt
        · rw [hg'q]
          exact Nat.lt_of_le_of_lt (List.length_filter_le _ _) hQlen
      · rw [hg']
        exact ⟨ha1.bounds, ha1.oq_hs, ha1.oq_sc, ha1.ni_hs, ha1.ni_sc, ha1.nsum, ha1.tot⟩
      · rw [hg']; exact u4
      · rw [hg']; exact u7
      · rw [hg']; exact u8

/-- **termination measure**: a reported round strictly shrinks the unassigned set -/
theorem next_decreases (laws : ScoreLaws ops) {sq sd : Nat} {cls : List (List (Sig LS))} {g g' : GD LS}
    {res : GRes σ} {Q0 NI0 : List Nat} (hinv : GInv sq sd cls g) (ha : AInv sq sd Q0 NI0 g)
    (h : g.next lsOps ops = .ok (g', some res)) :
    (g'.unassigned sq sd).length < (g.unassigned sq sd).length := by
  have := next_spec laws hinv ha h rfl rfl
  simp only [] at this
  obtain ⟨best, _, _, _, _, _, _, h6, h7, h8, _⟩ := this
  rw [h8]
  have hsp := length_split (g.unassigned sq sd) (dn (max sq sd) best.mh.hs)
  have hpos : 0 < ovl (g.unassigned sq sd) (dn (max sq sd) best.mh.hs) := by
    unfold ovl
    rw [← h6]
    exact List.length_pos_of_ne_nil h7
  omega

/-- **whole run** (`uniq_disjoint`, `fractions_sum`): the unique overlaps of the reported rounds are
pairwise disjoint subsets of the initial unassigned set, and together with what is left unassigned they
account for every initial hash exactly once -/
theorem run_accounting (laws : ScoreLaws ops) {sq sd : Nat} {cls : List (List (Sig LS))} {Q0 NI0 : List Nat} :
    ∀ (n : Nat) (g gf : GD LS) (rs : List (GRes σ)), GInv sq sd cls g → AInv sq sd Q0 NI0 g →
      g.run lsOps ops n = .ok (gf, rs) →
      (rs.map (·.isectCur)).Pairwise List.Disjoint ∧
      (∀ r ∈ rs, ∀ x ∈ r.isectCur, x ∈ g.unassigned sq sd) ∧
      (∀ x ∈ gf.unassigned sq sd, x ∈ g.unassigned sq sd) ∧
      sumNats (rs.map (fun r => r.isectCur.length)) + (gf.unassigned sq sd).length
        = (g.unassigned sq sd).length ∧
      GInv sq sd cls gf ∧ AInv sq sd Q0 NI0 gf := by
  intro n
  induction n with
  | zero =>
    intro g gf rs hinv ha h
    simp only [GD.run, Except.ok.injEq, Prod.mk.injEq] at h
    obtain ⟨rfl, rfl⟩ := h
    exact ⟨List.Pairwise.nil, by simp, fun x hx => hx, by simp [sumNats], hinv, ha⟩
  | succ n ih =>
    intro g gf rs hinv ha h
    simp only [GD.run] at h
    cases hn : g.next lsOps ops with
    | error e => rw [hn] at h; cases h
    | ok pr =>
      obtain ⟨g', r⟩ := pr
      rw [hn] at h
      have hsp := next_spec laws hinv ha hn rfl rfl
      cases r with
      | none =>
        simp only [Except.ok.injEq, Prod.mk.injEq] at h
        obtain ⟨rfl, rfl⟩ := h
        simp only [] at hsp
        obtain ⟨hq, hi, hai, _⟩ := hsp
        have : g'.unassigned sq sd = g.unassigned sq sd := by unfold GD.unassigned; rw [hq]
        rw [this]
        exact ⟨List.Pairwise.nil, by simp, fun x hx => hx, by simp [sumNats], hi, hai⟩
      | some res =>
        simp only [] at h hsp
        obtain ⟨best, _, _, _, _, _, _, h6, _, h8, _, _, _, _, _, _, hi, hai, _⟩ := hsp
        cases hr : g'.run lsOps ops n with
        | error e => rw [hr] at h; cases h
        | ok rr =>
          obtain ⟨g'', rs'⟩ := rr
          rw [hr] at h
          simp only [Except.ok.injEq, Prod.mk.injEq] at h
          obtain ⟨rfl, rfl⟩ := h
          obtain ⟨i1, i2, i3, i4, i5, i6⟩ := ih g' g'' rs' hi hai hr
          have hsub' : ∀ x ∈ g'.unassigned sq sd, x ∈ g.unassigned sq sd ∧ x ∉ dn (max sq sd) best.mh.hs := by
            intro x hx; rw [h8] at hx; exact mem_diffL.1 hx
          refine ⟨?_, ?_, ?_, ?_, i5, i6⟩
          · simp only [List.map_cons, List.pairwise_cons]
            refine ⟨?_, i1⟩
            intro U hU
            obtain ⟨r', hr', rfl⟩ := List.mem_map.1 hU
            intro x hx1 hx2
            rw [h6, List.mem_filter, inL_iff] at hx1
            exact (hsub' x (i2 r' hr' x hx2)).2 hx1.2
          · intro r' hr' x hx
            rcases List.mem_cons.1 hr' with rfl | hr'
            · rw [h6] at hx; exact (List.mem_filter.1 hx).1
            · exact (hsub' x (i2 r' hr' x hx)).1
          · intro x hx; exact (hsub' x (i3 x hx)).1
          · have hsplit := length_split (g.unassigned sq sd) (dn (max sq sd) best.mh.hs)
            have hU : res.isectCur.length = ovl (g.unassigned sq sd) (dn (max sq sd) best.mh.hs) := by
              rw [h6]; rfl
            rw [h8] at i4
            simp only [List.map_cons, sumNats, List.foldr_cons] at i4 ⊢
            omega

/-- **termination**: the number of reported rounds is bounded by the number of unassigned hashes
(every reported round strictly shrinks that set) -/
theorem run_length_le (laws : ScoreLaws ops) {sq sd : Nat} {cls : List (List (Sig LS))} {Q0 NI0 : List Nat} :
    ∀ (n : Nat) (g gf : GD LS) (rs : List (GRes σ)), GInv sq sd cls g → AInv sq sd Q0 NI0 g →
      g.run lsOps ops n = .ok (gf, rs) → rs.length ≤ (g.unassigned sq sd).length := by
  intro n
  induction n with
  | zero =>
    intro g gf rs _ _ h
    simp only [GD.run, Except.ok.injEq, Prod.mk.injEq] at h
    obtain ⟨_, rfl⟩ := h
    simp
  | succ n ih =>
    intro g gf rs hinv ha h
    simp only [GD.run] at h
    cases hn : g.next lsOps ops with
    | error e => rw [hn] at h; cases h
    | ok pr =>
      obtain ⟨g', r⟩ := pr
      rw [hn] at h
      cases r with
      | none =>
        simp only [Except.ok.injEq, Prod.mk.injEq] at h
        obtain ⟨_, rfl⟩ := h
        simp
      | some res =>
        simp only [] at h
        have hdec := next_decreases laws hinv ha hn
        have hsp := next_spec laws hinv ha hn rfl rfl
        simp only [] at hsp
        obtain ⟨best, _, _, _, _, _, _, _, _, _, _, _, _, _, _, _, hi, hai, _⟩ := hsp
        cases hr : g'.run lsOps ops n with
        | error e => rw [hr] at h; cases h
        | ok rr =>
          obtain ⟨g'', rs'⟩ := rr
          rw [hr] at h
          simp only [Except.ok.injEq, Prod.mk.injEq] at h
          obtain ⟨_, rfl⟩ := h
          have := ih g' g'' rs' hi hai hr
          simp only [List.length_cons]
          omega

/-- with enough fuel the iteration ends by itself: the last call of `__next__` raised `StopIteration` -/
theorem run_stops (laws : ScoreLaws ops) {sq sd : Nat} {cls : List (List (Sig LS))} {Q0 NI0 : List Nat} :
    ∀ (n : Nat) (g gf : GD LS) (rs : List (GRes σ)), GInv sq sd cls g → AInv sq sd Q0 NI0 g →
      (g.unassigned sq sd).length < n → g.run lsOps ops n = .ok (gf, rs) →
      ∃ gl, GInv sq sd cls gl ∧ gl.unassigned sq sd = gf.unassigned sq sd ∧
        gl.next lsOps ops = .ok (gf, none) := by
  intro n
  induction n with
  | zero => intro g gf rs _ _ hlt _; omega
  | succ n ih =>
    intro g gf rs hinv ha hlt h
    simp only [GD.run] at h
    cases hn : g.next lsOps ops with
    | error e => rw [hn] at h; cases h
    | ok pr =>
      obtain ⟨g', r⟩ := pr
      rw [hn] at h
      cases r with
      | none =>
        simp only [Except.ok.injEq, Prod.mk.injEq] at h
        obtain ⟨rfl, rfl⟩ := h
        have hsp := next_spec laws hinv ha hn rfl rfl
        simp only [] at hsp
        refine ⟨g, hinv, ?_, hn⟩
        unfold GD.unassigned; rw [hsp.1]
      | some res =>
        simp only [] at h
        have hdec := next_decreases laws hinv ha hn
        have hsp := next_spec laws hinv ha hn rfl rfl
        simp only [] at hsp
        obtain ⟨best, _, _, _, _, _, _, _, _, _, _, _, _, _, _, _, hi, hai, _⟩ := hsp
        cases hr : g'.run lsOps ops n with
        | error e => rw [hr] at h; cases h
        | ok rr =>
          obtain ⟨g'', rs'⟩ := rr
          rw [hr] at h
          simp only [Except.ok.injEq, Prod.mk.injEq] at h
          obtain ⟨rfl, rfl⟩ := h
          exact ih g' g'' rs' hi hai (by omega) hr

end Sm.Gather
