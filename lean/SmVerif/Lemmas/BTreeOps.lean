/-
Helper lemmas for C14, continued: the folds (`add_many`, `add_many_with_abund`,
`add_from`, `remove_many`), `merge`, `downsample_scaled`, the `From` conversions and
the serde round trip, each as `abs (op b) = op (abs b)` plus what happens to the
invariants `BInv` / `CmOk`.
-/
import SmVerif.Lemmas.BTreeSim

namespace Sm

open MH

/-! ### folds -/

theorem sim_addManyAb {b : BT} (hb : BInv b) (hx : Excl b.abs) (hc : CmOk b)
    (ps : List (Nat × Nat)) (hpos : ∀ p ∈ ps, 0 < p.2) :
    (b.addManyAb ps).abs = b.abs.addManyAb ps ∧ BInv (b.addManyAb ps) ∧ CmOk (b.addManyAb ps) := by
  induction ps generalizing b with
  | nil => exact ⟨rfl, hb, hc⟩
  | cons p ps ih =>
    have hp : 0 < p.2 := hpos p (by simp)
    have h1 := abs_addHashAb hb hx hc p.1 hp
    have := ih (binv_addHashAb hb hx hc p.1 hp) (Excl_abs_addHashAb hx p.1 p.2)
      (cmOk_addHashAb hb hc p.1 p.2) (fun q hq => hpos q (List.mem_cons_of_mem _ hq))
    unfold BT.addManyAb MH.addManyAb at this ⊢
    simp only [List.foldl_cons]
    rw [← h1]
    exact this

theorem sim_addMany {b : BT} (hb : BInv b) (hx : Excl b.abs) (hc : CmOk b) (xs : List Nat) :
    (b.addMany xs).abs = b.abs.addMany xs ∧ BInv (b.addMany xs) ∧ CmOk (b.addMany xs) := by
  induction xs generalizing b with
  | nil => exact ⟨rfl, hb, hc⟩
  | cons x xs ih =>
    have h1 : (b.addHash x).abs = b.abs.addHash x := abs_addHashAb hb hx hc x Nat.one_pos
    have := ih (b := b.addHash x) (binv_addHashAb hb hx hc x Nat.one_pos)
      (Excl_abs_addHashAb hx x 1) (cmOk_addHashAb hb hc x 1)
    unfold BT.addMany MH.addMany at this ⊢
    simp only [List.foldl_cons]
    rw [← h1]
    exact this

theorem Excl_abs_addMany {b : BT} (hx : Excl b.abs) (xs : List Nat) : Excl (b.addMany xs).abs := by
  induction xs generalizing b with
  | nil => exact hx
  | cons x xs ih => exact ih (b := b.addHash x) (Excl_abs_addHashAb hx x 1)

theorem Excl_abs_addManyAb {b : BT} (hx : Excl b.abs) (ps : List (Nat × Nat)) :
    Excl (b.addManyAb ps).abs := by
  induction ps generalizing b with
  | nil => exact hx
  | cons p ps ih => exact ih (b := b.addHashAb p.1 p.2) (Excl_abs_addHashAb hx p.1 p.2)

theorem sim_removeMany {b : BT} (hb : BInv b) (xs : List Nat) :
    (b.removeMany xs).abs = b.abs.removeMany xs ∧ BInv (b.removeMany xs) := by
  induction xs generalizing b with
  | nil => exact ⟨rfl, hb⟩
  | cons x xs ih =>
    have h1 := abs_removeHash hb x
    have := ih (binv_removeHash hb x)
    unfold BT.removeMany MH.removeMany at this ⊢
    simp only [List.foldl_cons]
    rw [← h1]
    exact this

theorem cmOk_removeMany {b : BT} (hb : BInv b) (hc : CmOk b) (xs : List Nat) :
    CmOk (b.removeMany xs) := by
  induction xs generalizing b with
  | nil => exact hc
  | cons x xs ih => exact ih (b := b.removeHash x) (binv_removeHash hb x) (cmOk_removeHash hb hc x)

theorem removeHash_num_maxHash (b : BT) (h : Nat) :
    (b.removeHash h).num = b.num ∧ (b.removeHash h).maxHash = b.maxHash := by
  rw [BT.removeHash_eq]
  unfold BT.rmCore
  repeat' split
  all_goals exact ⟨rfl, rfl⟩

theorem Excl_abs_removeMany {b : BT} (hx : Excl b.abs) (xs : List Nat) :
    Excl (b.removeMany xs).abs := by
  induction xs generalizing b with
  | nil => exact hx
  | cons x xs ih =>
    apply ih (b := b.removeHash x)
    have := removeHash_num_maxHash b x
    unfold Excl at hx ⊢
    simp only [BT.abs_num, BT.abs_maxHash] at hx ⊢
    rw [this.1, this.2]; exact hx

/-! ### merge -/

theorem checkCompatible_abs (b o : BT) : b.checkCompatible o = b.abs.checkCompatible o.abs := rfl

theorem mergedOf_keys {s o : MH} (hs : InvW s) (ho : InvW o) :
    (mergedOf s o).map Prod.fst =
      if s.num = 0 then BSet.union s.mins o.mins else (BSet.union s.mins o.mins).take s.num := by
  have hk : (mergeP s.pairs o.pairs).map Prod.fst = BSet.union s.mins o.mins := by
    rw [keys_mergeP, pairs_keys hs, pairs_keys ho]
  unfold mergedOf
  by_cases hn : s.num = 0
  · rw [if_neg (by omega), if_pos hn, hk]
  · rw [if_neg hn]
    split
    · rw [List.map_take, hk]
    · rename_i hlen
      have : (BSet.union s.mins o.mins).length ≤ s.num := by
        rw [← hk, List.length_map]; omega
      rw [hk, List.take_of_length_le this]

theorem mergedOf_vals {s o : MH} (hs : InvW s) (ho : InvW o) :
    (mergedOf s o).map Prod.snd =
      ((mergedOf s o).map Prod.fst).map (fun h => cnt s.pairs h + cnt o.pairs h) := by
  have hsk : Sorted (s.pairs.map Prod.fst) := by rw [pairs_keys hs]; exact hs.sorted
  have hok : Sorted (o.pairs.map Prod.fst) := by rw [pairs_keys ho]; exact ho.sorted
  have hM := sorted_keys_mergeP _ _ hsk hok
  have hfull : (mergeP s.pairs o.pairs).map Prod.snd =
      ((mergeP s.pairs o.pairs).map Prod.fst).map (fun h => cnt s.pairs h + cnt o.pairs h) := by
    rw [vals_eq_map_cnt hM]
    apply List.map_congr_left
    intro k _
    exact cnt_mergeP k _ _ hsk hok
  unfold mergedOf
  split
  · rw [List.map_take, List.map_take, hfull, List.map_take]
  · exact hfull

theorem MH.ext_fields {a b : MH} (h1 : a.num = b.num) (h2 : a.maxHash = b.maxHash)
    (h3 : a.ksize = b.ksize) (h4 : a.seed = b.seed) (h5 : a.hf = b.hf) (h6 : a.mins = b.mins)
    (h7 : a.abunds = b.abunds) (h8 : a.md5 = b.md5) : a = b := by
  obtain ⟨_, _, _, _, _, _, _, _⟩ := a
  obtain ⟨_, _, _, _, _, _, _, _⟩ := b
  simp only at h1 h2 h3 h4 h5 h6 h7 h8
  subst h1 h2 h3 h4 h5 h6 h7 h8
  rfl

theorem mergeCore_mins (b o : BT) :
    (b.mergeCore o).mins =
      if b.num = 0 then BSet.union b.mins o.mins else (BSet.union b.mins o.mins).take b.num := rfl

theorem mergeCore_abunds (b o : BT) :
    (b.mergeCore o).abunds =
      match b.abunds with
      | some ab => some ((b.mergeCore o).mins.map (fun h => (h, BT.mergedAbund ab o h)))
      | none => none := by
  unfold BT.mergeCore
  cases b.abunds <;> rfl

theorem abs_mergeCore {b o : BT} (hb : BInv b) (ho : BInv o) :
    (b.mergeCore o).abs =
      { b.abs with mins := (mergedOf b.abs o.abs).map Prod.fst,
                   abunds := if b.abs.abunds.isSome
                             then some ((mergedOf b.abs o.abs).map Prod.snd) else none,
                   md5 := none } := by
  have hk : (mergedOf b.abs o.abs).map Prod.fst = (b.mergeCore o).mins := by
    rw [mergeCore_mins]
    exact mergedOf_keys hb.inv.toW ho.inv.toW
  have hv := mergedOf_vals hb.inv.toW ho.inv.toW
  have hpo : ∀ h, cnt o.abs.pairs h =
      (match o.abunds with
        | some oab => (BMap.get oab h).getD 0
        | none => if o.mins.contains h then 1 else 0) := by
    intro h
    rw [ho.pairs_abs]
    unfold BT.toVecAbunds
    cases hoab : o.abunds with
    | none =>
      simp only [cnt_ones]
      by_cases hm : h ∈ o.mins <;> simp [hm]
    | some oab => rfl
  apply MH.ext_fields <;> try rfl
  · exact hk.symm
  · show (b.mergeCore o).abunds.map (fun ab => ab.map Prod.snd) = _
    rw [mergeCore_abunds, hv, hk]
    cases hab : b.abunds with
    | none => simp [BT.abs_abunds, hab]
    | some ab =>
      have hpb : ∀ h, cnt b.abs.pairs h = (BMap.get ab h).getD 0 := by
        intro h
        rw [hb.pairs_abs]
        unfold BT.toVecAbunds
        rw [hab]
        rfl
      simp only [BT.abs_abunds, hab, Option.map_some, Option.isSome_some, if_true, List.map_map]
      congr 1
      apply List.map_congr_left
      intro h _
      simp only [Function.comp, BT.mergedAbund, Nat.zero_add]
      rw [hpb h, hpo h]
      rfl

theorem abs_merge {b o : BT} (hb : BInv b) (ho : BInv o) :
    (b.merge o).map BT.abs = b.abs.merge o.abs := by
  unfold BT.merge MH.merge
  rw [checkCompatible_abs]
  cases hc : b.abs.checkCompatible o.abs with
  | error e => rfl
  | ok u =>
    simp only [bind, Except.bind, pure, Except.pure, Except.map]
    rw [abs_mergeCore hb ho]
    rfl

theorem merge_ok_bt {b o r : BT} (h : b.merge o = .ok r) : r = b.mergeCore o := by
  unfold BT.merge at h
  cases hc : b.checkCompatible o with
  | error e => rw [hc] at h; simp [bind, Except.bind] at h
  | ok u =>
    rw [hc] at h
    simp only [bind, Except.bind, pure, Except.pure, Except.ok.injEq] at h
    exact h.symm

/-- the two merges succeed or fail together, and on success the results correspond -/
theorem sim_merge {b o r : BT} (hb : BInv b) (ho : BInv o) (h : b.merge o = .ok r) :
    b.abs.merge o.abs = .ok r.abs ∧ BInv r := by
  have h1 := abs_merge hb ho
  rw [h] at h1
  simp only [Except.map] at h1
  refine ⟨h1.symm, ?_⟩
  refine ⟨inv_merge hb.inv ho.inv h1.symm, ?_⟩
  rw [merge_ok_bt h]
  intro m hm
  unfold BT.mergeCore at hm ⊢
  simp only [] at hm ⊢
  cases hab : b.abunds with
  | none => rw [hab] at hm; simp at hm
  | some ab =>
    rw [hab] at hm
    simp only [Option.some.injEq] at hm
    rw [← hm, List.map_map]
    simp [Function.comp_def]

theorem merge_err_bt {b o : BT} {e : MH.Err} (h : b.merge o = .error e) :
    b.abs.merge o.abs = .error e := by
  unfold BT.merge at h
  unfold MH.merge
  rw [← checkCompatible_abs]
  cases hc : b.checkCompatible o with
  | error e' =>
    rw [hc] at h
    simp only [bind, Except.bind, Except.error.injEq] at h ⊢
    exact h
  | ok u => rw [hc] at h; simp [bind, Except.bind, pure, Except.pure] at h

theorem mergeCore_frame (b o : BT) :
    (b.mergeCore o).num = b.num ∧ (b.mergeCore o).maxHash = b.maxHash := ⟨rfl, rfl⟩

/-- the repaired merge: same content, `current_max` right -/
theorem mergeFix_eq {b o : BT} :
    b.mergeFix o = (b.merge o).map (fun r => { r with currentMax := BT.lastOr0 r.mins }) := by
  unfold BT.mergeFix BT.merge
  cases b.checkCompatible o <;> rfl

theorem cmOk_setLast (r : BT) : CmOk { r with currentMax := BT.lastOr0 r.mins } := by
  intro _ _; rfl

/-! ### downsample_scaled -/

theorem sim_downsampleScaled {b r : BT} (hb : BInv b) (hx : Excl b.abs) {sc : Nat}
    (hc : CmOk b) (h : b.downsampleScaled sc = .ok r) :
    b.abs.downsampleScaled sc = .ok r.abs ∧ BInv r ∧ CmOk r ∧ Excl r.abs := by
  unfold BT.downsampleScaled at h
  unfold MH.downsampleScaled
  by_cases h1 : b.scaled = sc ∨ b.scaled = 0
  · have h1' : b.abs.scaled = sc ∨ b.abs.scaled = 0 := h1
    rw [if_pos h1] at h
    cases h
    rw [if_pos h1']
    exact ⟨rfl, hb, hc, hx⟩
  · have h1' : ¬ (b.abs.scaled = sc ∨ b.abs.scaled = 0) := h1
    rw [if_neg h1] at h
    rw [if_neg h1']
    by_cases h2 : b.scaled > sc
    · rw [if_pos h2] at h; cases h
    · have h2' : ¬ b.abs.scaled > sc := h2
      rw [if_neg h2] at h
      rw [if_neg h2']
      cases h
      have hn : b.num = 0 := by
        rcases hx with hx | hx
        · exact hx
        · exfalso; apply h1; right
          unfold BT.scaled
          simp only [BT.abs_maxHash] at hx
          rw [hx]; exact scR_zero
      have htr : b.abs.abunds.isSome = b.abunds.isSome := by
        rw [BT.abs_abunds]; cases b.abunds <;> rfl
      have hnew : MH.new sc b.abs.ksize b.abs.hf b.abs.seed b.abs.abunds.isSome b.abs.num =
          (BT.new sc b.ksize b.hf b.seed b.abunds.isSome b.num).abs := by
        rw [htr]; exact (abs_new ..).symm
      have hxn : Excl (BT.new sc b.ksize b.hf b.seed b.abunds.isSome b.num).abs := by
        rw [abs_new]; exact Excl.new (Or.inr hn)
      rw [hnew, htr, hb.pairs_abs]
      simp only []
      by_cases h3 : b.abunds.isSome = true
      · rw [if_pos h3, if_pos h3]
        have := sim_addManyAb (binv_new ..) hxn (cmOk_new _ _ _ _ _ _) b.toVecAbunds (by
          rw [← hb.pairs_abs]; exact pairs_pos hb.inv.toW)
        exact ⟨by rw [this.1], this.2.1, this.2.2, Excl_abs_addManyAb hxn _⟩
      · rw [if_neg h3, if_neg h3]
        have := sim_addMany (binv_new ..) hxn (cmOk_new _ _ _ _ _ _) b.mins
        exact ⟨by rw [this.1]; rfl, this.2.1, this.2.2, Excl_abs_addMany hxn _⟩

theorem downsampleScaled_err {b : BT} {sc : Nat} {e : MH.Err}
    (h : b.downsampleScaled sc = .error e) : b.abs.downsampleScaled sc = .error e := by
  unfold BT.downsampleScaled at h
  unfold MH.downsampleScaled
  by_cases h1 : b.scaled = sc ∨ b.scaled = 0
  · rw [if_pos h1] at h; cases h
  · have h1' : ¬ (b.abs.scaled = sc ∨ b.abs.scaled = 0) := h1
    rw [if_neg h1] at h
    rw [if_neg h1']
    by_cases h2 : b.scaled > sc
    · have h2' : b.abs.scaled > sc := h2
      rw [if_pos h2] at h
      rw [if_pos h2']
      cases h
      rfl
    · rw [if_neg h2] at h; cases h

/-! ### conversions -/

/-- `mhR (scR m) = m`: the threshold survives the detour through `scaled()` that both
`From` conversions make (a theorem of C03 for thresholds of scaled values ≤ 2^31) -/
def Stable (m : Nat) : Prop := mhR (scR m) = m

theorem intoVec_eq (b : BT) :
    b.intoVec = { b.abs with maxHash := mhR (scR b.maxHash), md5 := none } := by
  obtain ⟨num, maxHash, ksize, seed, hf, mins, abunds, cm, md5⟩ := b
  cases abunds <;> rfl

theorem ofVec_abs {v : MH} (hv : Inv v) :
    (BT.ofVec v).abs = { v with maxHash := mhR (scR v.maxHash), md5 := none } := by
  obtain ⟨num, maxHash, ksize, seed, hf, mins, abunds, md5⟩ := v
  have hs : Sorted mins := hv.sorted
  cases abunds with
  | none => simp [BT.ofVec, BT.abs, BT.new, MH.scaled, BSet.ofList_of_sorted hs]
  | some ab =>
    have hal : ab.length = mins.length := hv.aligned ab rfl
    have hk : (mins.zip ab).map Prod.fst = mins := List.map_fst_zip (Nat.le_of_eq hal.symm)
    have hv' : (mins.zip ab).map Prod.snd = ab := List.map_snd_zip (Nat.le_of_eq hal)
    have hks : Sorted ((mins.zip ab).map Prod.fst) := by rw [hk]; exact hs
    simp only [BT.ofVec, BT.abs, BT.new, MH.scaled, BSet.ofList_of_sorted hs, Option.map_some]
    rw [BMap.ofList_of_sorted hks, hv']

theorem ofVec_keys {v : MH} (hv : Inv v) :
    ∀ m, (BT.ofVec v).abunds = some m → m.map Prod.fst = (BT.ofVec v).mins := by
  obtain ⟨num, maxHash, ksize, seed, hf, mins, abunds, md5⟩ := v
  have hs : Sorted mins := hv.sorted
  intro m hm
  cases abunds with
  | none => simp [BT.ofVec] at hm
  | some ab =>
    have hal : ab.length = mins.length := hv.aligned ab rfl
    have hk : (mins.zip ab).map Prod.fst = mins := List.map_fst_zip (Nat.le_of_eq hal.symm)
    have hks : Sorted ((mins.zip ab).map Prod.fst) := by rw [hk]; exact hs
    simp only [BT.ofVec, BSet.ofList_of_sorted hs, Option.map_some, Option.some.injEq] at hm ⊢
    rw [← hm, BMap.ofList_of_sorted hks, hk]

theorem Inv.setMaxHashMd5 {v : MH} (hv : Inv v) {m : Nat} (hm : m = v.maxHash) (d : Option Digest) :
    Inv { v with maxHash := m, md5 := d } := by
  subst hm
  exact ⟨hv.sorted, hv.aligned, hv.positive, hv.bounded, hv.capped⟩

/-! ### serde round trip -/

/-- the JSON both `Serialize` impls write for the content of `b`, with `d` as its md5 field -/
def BT.jsonWith (b : BT) (d : Digest) : BT.Json :=
  { num := b.num, ksize := b.ksize, seed := b.seed, maxHash := b.maxHash, mins := b.mins, md5 := d,
    abundances := b.abunds.map (fun ab => ab.map Prod.snd), molecule := b.hf }

theorem BT.serialize_eq (b : BT) : b.serialize.2 = b.jsonWith b.md5sum.2 := by
  obtain ⟨num, maxHash, ksize, seed, hf, mins, abunds, cm, md5⟩ := b
  cases md5 <;> rfl

theorem MH.serialize_abs (b : BT) : b.abs.serialize.2 = b.jsonWith b.md5sum.2 := by
  obtain ⟨num, maxHash, ksize, seed, hf, mins, abunds, cm, md5⟩ := b
  cases md5 <;> rfl

theorem BT.ext_fields {a b : BT} (h1 : a.num = b.num) (h2 : a.maxHash = b.maxHash)
    (h3 : a.ksize = b.ksize) (h4 : a.seed = b.seed) (h5 : a.hf = b.hf) (h6 : a.mins = b.mins)
    (h7 : a.abunds = b.abunds) (h8 : a.currentMax = b.currentMax) (h9 : a.md5 = b.md5) : a = b := by
  obtain ⟨_, _, _, _, _, _, _, _, _⟩ := a
  obtain ⟨_, _, _, _, _, _, _, _, _⟩ := b
  simp only at h1 h2 h3 h4 h5 h6 h7 h8 h9
  subst h1 h2 h3 h4 h5 h6 h7 h8 h9
  rfl

theorem ite_num_of_excl {num maxHash : Nat} (h : num = 0 ∨ maxHash = 0) :
    (if maxHash ≠ 0 then 0 else num) = num := by
  rcases h with h | h <;> simp [h]

/-- `Deserialize` (as first found) of a sketch's own JSON gives the sketch back, except that the md5
cache is empty (the md5 string of the file is not trusted) and `current_max` is recomputed only on
the abundance branch -/
theorem BT.deserialize_jsonWith {b : BT} (hb : BInv b) (hx : Excl b.abs) (d : Digest) :
    BT.deserialize (b.jsonWith d) =
      { b with md5 := none,
               currentMax := if b.abunds.isSome then BT.lastOr0 b.mins else 0 } := by
  have hs := hb.sorted
  have hnum : (if b.maxHash ≠ 0 then 0 else b.num) = b.num := ite_num_of_excl hx
  have hkeys := hb.keys
  obtain ⟨num, maxHash, ksize, seed, hf, mins, abunds, cm, md5⟩ := b
  simp only at hs hnum
  cases abunds with
  | none =>
    simp only [BT.jsonWith, BT.deserialize, Option.map_none, BSet.ofList_of_sorted hs]
    apply BT.ext_fields <;> first | rfl | exact hnum
  | some m =>
    have hk : m.map Prod.fst = mins := hkeys m rfl
    have hz : mins.zip (m.map Prod.snd) = m := by rw [← hk]; exact zip_map_fst_snd m
    have hms : Sorted (m.map Prod.fst) := by rw [hk]; exact hs
    simp only [BT.jsonWith, BT.deserialize, Option.map_some, hz, sortPairs_of_sorted hms, hk,
      BSet.ofList_of_sorted hs, BMap.ofList_of_sorted hms]
    apply BT.ext_fields <;> first | rfl | exact hnum

theorem MH.deserialize_jsonWith {b : BT} (hb : BInv b) (hx : Excl b.abs) (d : Digest) :
    MH.deserialize (b.jsonWith d) = { b.abs with md5 := none } := by
  have hs := hb.sorted
  have hnum : (if b.maxHash ≠ 0 then 0 else b.num) = b.num := ite_num_of_excl hx
  have hkeys := hb.keys
  obtain ⟨num, maxHash, ksize, seed, hf, mins, abunds, cm, md5⟩ := b
  simp only at hs hnum
  cases abunds with
  | none =>
    simp only [BT.jsonWith, MH.deserialize, Option.map_none, sortNats_of_sorted hs]
    apply MH.ext_fields <;> first | rfl | exact hnum
  | some m =>
    have hk : m.map Prod.fst = mins := hkeys m rfl
    have hz : mins.zip (m.map Prod.snd) = m := by rw [← hk]; exact zip_map_fst_snd m
    have hms : Sorted (m.map Prod.fst) := by rw [hk]; exact hs
    simp only [BT.jsonWith, MH.deserialize, Option.map_some, hz, sortPairs_of_sorted hms, hk]
    apply MH.ext_fields <;> first | rfl | exact hnum

theorem abs_jsonWith {b : BT} (hb : BInv b) (hx : Excl b.abs) (d : Digest) :
    (BT.deserialize (b.jsonWith d)).abs = MH.deserialize (b.jsonWith d) ∧
    BInv (BT.deserialize (b.jsonWith d)) ∧
    (BT.deserialize (b.jsonWith d)).num = b.num ∧
    (BT.deserialize (b.jsonWith d)).maxHash = b.maxHash ∧
    (BT.deserialize (b.jsonWith d)).mins = b.mins := by
  rw [BT.deserialize_jsonWith hb hx, MH.deserialize_jsonWith hb hx]
  refine ⟨rfl, ⟨?_, hb.keys⟩, rfl, rfl, rfl⟩
  exact hb.inv.congr rfl rfl rfl rfl

theorem abs_json {b : BT} (hb : BInv b) (hx : Excl b.abs) :
    (BT.deserialize b.serialize.2).abs = MH.deserialize b.abs.serialize.2 ∧
    BInv (BT.deserialize b.serialize.2) ∧
    (BT.deserialize b.serialize.2).num = b.num ∧
    (BT.deserialize b.serialize.2).maxHash = b.maxHash ∧
    (BT.deserialize b.serialize.2).mins = b.mins := by
  rw [BT.serialize_eq, MH.serialize_abs]
  exact abs_jsonWith hb hx _

end Sm
