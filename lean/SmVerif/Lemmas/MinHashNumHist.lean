/-
num sketches, every removal-free history: the sketch is the first `num` entries of the unbounded reference
sketch (no capacity, threshold 2^64-1) of the same history — through `add_hash`, `add_hash_with_abundance`,
`add_many`, `set_abundances`, `merge` / `+=`, `+` and `copy`, across sketches (`NumHist` trees) — and the reference
sketch holds exactly the distinct hashes offered, ascending (`sortDedup`).  Hence a num sketch holds exactly the
`num` smallest distinct hashes offered (`num_sketch_is_bottom_n`).

What removals do, exactly (`num_remove_exact`): a removal erases the hash if it is retained and restores nothing;
the sketch stays the bottom-`num` of the live set iff the hash was not retained or nothing had been evicted, and
is otherwise exactly one short: the bottom-(`num`-1) of the live set.
-/
import SmVerif.Lemmas.MinHashOps

namespace Sm

open MH

/-! ### list facts -/

theorem take_cons_take {α} (x : α) (xs : List α) (n : Nat) : (x :: xs.take n).take n = (x :: xs).take n := by
  cases n with
  | zero => rfl
  | succ m => simp [List.take_take]

/-- truncating the operands first does not change the first `n` entries of the merged walk -/
theorem mergeP_take : ∀ (n : Nat) (xs ys : List (Nat × Nat)),
    (mergeP xs ys).take n = (mergeP (xs.take n) (ys.take n)).take n := by
  intro n
  induction n with
  | zero => intro xs ys; simp
  | succ n ih =>
    intro xs ys
    cases xs with
    | nil => simp [List.take_take]
    | cons x xs =>
      cases ys with
      | nil => simp [List.take_take]
      | cons y ys =>
        rw [List.take_succ_cons, List.take_succ_cons, mergeP_cons_cons, mergeP_cons_cons]
        split
        · rw [List.take_succ_cons, List.take_succ_cons]
          congr 1
          rw [ih (x :: xs) ys, ih (x :: xs.take n) (ys.take n), take_cons_take, List.take_take, Nat.min_self]
        · split
          · rw [List.take_succ_cons, List.take_succ_cons]
            congr 1
            exact ih xs ys
          · rw [List.take_succ_cons, List.take_succ_cons]
            congr 1
            rw [ih xs (y :: ys), ih (xs.take n) (y :: ys.take n), take_cons_take, List.take_take, Nat.min_self]

/-- erasing from the first `n` entries against taking the first entries of the erased list -/
theorem take_erase (h : Nat) : ∀ (l : List Nat) (n : Nat),
    (l.take n).erase h =
      if h ∈ l.take n ∧ n < l.length then (l.erase h).take (n - 1) else (l.erase h).take n := by
  intro l
  induction l with
  | nil => intro n; simp
  | cons x xs ih =>
    intro n
    cases n with
    | zero => simp
    | succ m =>
      rw [List.take_succ_cons]
      by_cases hx : x = h
      · subst hx
        simp only [List.erase_cons_head, List.mem_cons, true_or, true_and, List.length_cons,
          Nat.add_lt_add_iff_right, Nat.add_sub_cancel]
        split
        · rfl
        · rw [List.take_of_length_le (by omega), List.take_of_length_le (by omega)]
      · have hx' : (x == h) = false := by simpa using hx
        rw [List.erase_cons_tail (by simpa using hx), List.erase_cons_tail (by simpa using hx), ih m]
        have hmem : (h ∈ x :: xs.take m) ↔ h ∈ xs.take m := by
          simp only [List.mem_cons]
          constructor
          · rintro (e | e)
            · exact absurd e.symm hx
            · exact e
          · exact Or.inr
        simp only [hmem, List.length_cons, Nat.add_lt_add_iff_right, Nat.add_sub_cancel]
        split
        · rename_i hc
          have hm : 1 ≤ m := by
            rcases Nat.eq_zero_or_pos m with e | e
            · subst e; simp at hc
            · exact e
          obtain ⟨k, rfl⟩ : ∃ k, m = k + 1 := ⟨m - 1, by omega⟩
          simp
        · simp

theorem eraseIdx_lowerBound_eq_erase {l : List Nat} {h : Nat} (hf : l[lowerBound l h]? = some h) :
    l.eraseIdx (lowerBound l h) = l.erase h := by
  induction l with
  | nil => simp
  | cons x xs ih =>
    rw [lowerBound_cons] at hf ⊢
    split at hf
    · rename_i hlt
      rw [if_pos hlt]
      simp only [List.getElem?_cons_succ] at hf
      rw [List.eraseIdx_cons_succ, ih hf, List.erase_cons_tail (by simp; omega)]
    · rename_i hge
      rw [if_neg hge]
      simp only [List.getElem?_cons_zero, Option.some.injEq] at hf
      subst hf
      simp

theorem removeHash_mins {s : MH} (hs : Sorted s.mins) (h : Nat) : (s.removeHash h).mins = s.mins.erase h := by
  unfold MH.removeHash
  split
  · rename_i pos hpos
    obtain ⟨rfl, hf⟩ := findPos_eq_some_iff.1 hpos
    exact eraseIdx_lowerBound_eq_erase hf
  · rename_i hnone
    have hnf := findPos_eq_none_iff.1 hnone
    symm
    apply List.erase_of_not_mem
    intro hm
    exact hnf ((getElem?_lowerBound_iff_mem hs h).2 hm)

/-! ### the representation relation -/

/-- `s` (a num sketch) is the first `num` entries of the unbounded reference sketch `u` -/
structure NumRep (s u : MH) : Prop where
  invS : Inv s
  invU : Inv u
  num : s.num ≠ 0
  sM : s.maxHash = 0
  uN : u.num = 0
  uM : u.maxHash = U64MAX
  track : s.trackAbundance = u.trackAbundance
  ksize : s.ksize = u.ksize
  hf : s.hf = u.hf
  seed : s.seed = u.seed
  rep : s.pairs = u.pairs.take s.num

theorem NumRep.mins {s u : MH} (h : NumRep s u) : s.mins = u.mins.take s.num := by
  have := congrArg (List.map Prod.fst) h.rep
  rwa [List.map_take, pairs_keys h.invS.toW, pairs_keys h.invU.toW] at this

theorem NumRep.exclS {s u : MH} (h : NumRep s u) : Excl s := Or.inr h.sM
theorem NumRep.exclU {s u : MH} (h : NumRep s u) : Excl u := Or.inl h.uN

theorem trackAbundance_new (sc k hf seed : Nat) (tr : Bool) (n : Nat) :
    (MH.new sc k hf seed tr n).trackAbundance = tr := by
  cases tr <;> rfl

theorem NumRep.new (k hf seed : Nat) (tr : Bool) {n : Nat} (hn : n ≠ 0) :
    NumRep (MH.new 0 k hf seed tr n) (MH.new 1 k hf seed tr 0) where
  invS := inv_new ..
  invU := inv_new ..
  num := hn
  sM := rfl
  uN := rfl
  uM := rfl
  track := by rw [trackAbundance_new, trackAbundance_new]
  ksize := rfl
  hf := rfl
  seed := rfl
  rep := by cases tr <;> simp [MH.new, MH.pairs, ones]

theorem NumRep.addHashAb {s u : MH} (h : NumRep s u) {x a : Nat} (ha : 0 < a) (hx : x ≤ U64MAX) :
    NumRep (s.addHashAb x a) (u.addHashAb x a) := by
  have fs := addHashAb_frame s x a
  have fu := addHashAb_frame u x a
  refine ⟨inv_addHashAb h.invS h.exclS x a, inv_addHashAb h.invU h.exclU x a, ?_, ?_, ?_, ?_, ?_, ?_, ?_, ?_, ?_⟩
  · rw [fs.1]; exact h.num
  · rw [fs.2.1]; exact h.sM
  · rw [fu.1]; exact h.uN
  · rw [fu.2.1]; exact h.uM
  · rw [fs.2.2.2.2.2, fu.2.2.2.2.2]; exact h.track
  · rw [fs.2.2.1, fu.2.2.1]; exact h.ksize
  · rw [fs.2.2.2.2.1, fu.2.2.2.2.1]; exact h.hf
  · rw [fs.2.2.2.1, fu.2.2.2.1]; exact h.seed
  · rw [fs.1]
    exact num_add_take' h.invS h.invU h.num h.sM h.uN h.uM h.track h.rep x a ha hx

theorem NumRep.addHash {s u : MH} (h : NumRep s u) {x : Nat} (hx : x ≤ U64MAX) :
    NumRep (s.addHash x) (u.addHash x) := h.addHashAb Nat.one_pos hx

theorem NumRep.addMany {s u : MH} (h : NumRep s u) {l : List Nat} (hl : ∀ x ∈ l, x ≤ U64MAX) :
    NumRep (s.addMany l) (u.addMany l) := by
  unfold MH.addMany
  induction l generalizing s u with
  | nil => exact h
  | cons x xs ih =>
    exact ih (h.addHash (hl x (by simp))) (fun y hy => hl y (List.mem_cons_of_mem _ hy))

theorem NumRep.addManyAb {s u : MH} (h : NumRep s u) {l : List (Nat × Nat)}
    (hl : ∀ p ∈ l, p.1 ≤ U64MAX ∧ 0 < p.2) : NumRep (s.addManyAb l) (u.addManyAb l) := by
  unfold MH.addManyAb
  induction l generalizing s u with
  | nil => exact h
  | cons p ps ih =>
    exact ih (h.addHashAb (hl p (by simp)).2 (hl p (by simp)).1)
      (fun q hq => hl q (List.mem_cons_of_mem _ hq))

theorem NumRep.pyAddHashWithAbundance {s u r : MH} (h : NumRep s u) {x a : Nat} (ha : 0 < a)
    (hx : x ≤ U64MAX) (hr : Py.addHashWithAbundance s x a = .ok r) :
    ∃ w, Py.addHashWithAbundance u x a = .ok w ∧ NumRep r w := by
  unfold Py.addHashWithAbundance at hr ⊢
  split at hr
  · rename_i ht
    cases hr
    rw [if_pos (by rw [← h.track]; exact ht)]
    exact ⟨_, rfl, h.addHashAb ha hx⟩
  · cases hr

/-- `set_abundances(values, clear=False)` with positive values -/
theorem NumRep.pySetAbundances {s u r : MH} (h : NumRep s u) {ps : List (Nat × Nat)}
    (hl : ∀ p ∈ ps, p.1 ≤ U64MAX ∧ 0 < p.2) (hr : Py.setAbundances s ps false = .ok r) :
    ∃ w, Py.setAbundances u ps false = .ok w ∧ NumRep r w := by
  unfold Py.setAbundances at hr ⊢
  split at hr
  · rename_i ht
    cases hr
    rw [if_pos (by rw [← h.track]; exact ht)]
    refine ⟨_, rfl, ?_⟩
    unfold MH.ffiSetAbundances
    simp only [Bool.false_eq_true, if_false]
    apply h.addManyAb
    intro p hp
    exact hl p ((sortPairs_perm ps).mem_iff.1 hp)
  · cases hr

/-- `merge` / `+=` of two num sketches with the same `num` -/
theorem NumRep.merge {s u o v r : MH} (hs : NumRep s u) (ho : NumRep o v) (hn : o.num = s.num)
    (hr : s.merge o = .ok r) : ∃ w, u.merge v = .ok w ∧ NumRep r w := by
  obtain ⟨⟨hk, hhf, hM, hseed⟩, hreq⟩ := merge_ok hr
  have hcompat : ∃ w, u.merge v = .ok w :=
    merge_eq_ok_of (by rw [← hs.ksize, ← ho.ksize]; exact hk) (by rw [← hs.hf, ← ho.hf]; exact hhf)
      (by rw [hs.uM, ho.uM]) (by rw [← hs.seed, ← ho.seed]; exact hseed)
  obtain ⟨w, hw⟩ := hcompat
  refine ⟨w, hw, ?_⟩
  have fr := merge_frame hr
  have fw := merge_frame hw
  have hmS : mergedOf s o = (mergeP s.pairs o.pairs).take s.num := by
    unfold mergedOf
    split
    · rfl
    · rw [List.take_of_length_le (by have := hs.num; omega)]
  have hmU : mergedOf u v = mergeP u.pairs v.pairs := by
    unfold mergedOf
    rw [if_neg (fun hc => hc.2 hs.uN)]
  have hkey : (mergeP s.pairs o.pairs).take s.num = (mergeP u.pairs v.pairs).take s.num := by
    rw [hs.rep, ho.rep, hn, ← mergeP_take]
  refine ⟨inv_merge hs.invS ho.invS hr, inv_merge hs.invU ho.invU hw, ?_, ?_, ?_, ?_, ?_, ?_, ?_, ?_, ?_⟩
  · rw [fr.1]; exact hs.num
  · rw [fr.2.1]; exact hs.sM
  · rw [fw.1]; exact hs.uN
  · rw [fw.2.1]; exact hs.uM
  · rw [fr.2.2.2.2.2, fw.2.2.2.2.2]; exact hs.track
  · rw [fr.2.2.1, fw.2.2.1]; exact hs.ksize
  · rw [fr.2.2.2.2.1, fw.2.2.2.2.1]; exact hs.hf
  · rw [fr.2.2.2.1, fw.2.2.2.1]; exact hs.seed
  · rw [fr.1, merge_pairs hr, merge_pairs hw, hmS, hmU, hkey, ← hs.track]
    split
    · rfl
    · simp [ones, List.map_take]

/-- a fresh sketch from the Python constructor with the parameters of a num sketch -/
theorem mkMinHash_num {n k hf seed : Nat} {tr : Bool} (hn : n ≠ 0) :
    Py.mkMinHash n k hf seed tr 0 0 = .ok (MH.new 0 k hf seed tr n) := by
  unfold Py.mkMinHash
  simp [hn]

/-- `copy` / `to_mutable`: the copy is represented by the merge of the empty reference with `u` (same content) -/
theorem NumRep.pyCopy {s u r : MH} (h : NumRep s u) (hr : Py.copy s = .ok r) :
    ∃ w, (MH.new 1 u.ksize u.hf u.seed u.trackAbundance 0).merge u = .ok w ∧ NumRep r w := by
  unfold Py.copy at hr
  rw [h.sM, mkMinHash_num h.num] at hr
  simp only [bind, Except.bind] at hr
  have h0 : NumRep (MH.new 0 s.ksize s.hf s.seed s.trackAbundance s.num)
      (MH.new 1 u.ksize u.hf u.seed u.trackAbundance 0) := by
    rw [← h.ksize, ← h.hf, ← h.seed, ← h.track]
    exact NumRep.new _ _ _ _ h.num
  exact h0.merge h rfl hr

/-- `a + b` (and `a | b`): copy, then merge -/
theorem NumRep.pyAdd {s u o v r : MH} (hs : NumRep s u) (ho : NumRep o v) (hr : Py.add s o = .ok r) :
    ∃ c w, (MH.new 1 u.ksize u.hf u.seed u.trackAbundance 0).merge u = .ok c ∧ c.merge v = .ok w ∧
      NumRep r w := by
  unfold Py.add at hr
  split at hr
  · cases hr
  · rename_i hnum
    cases hc : Py.copy s with
    | error e => simp [hc, bind, Except.bind] at hr
    | ok n =>
      simp only [hc, bind, Except.bind] at hr
      obtain ⟨c, hc1, hc2⟩ := hs.pyCopy hc
      have hn : o.num = n.num := by
        have := (merge_frame (show (MH.new 0 s.ksize s.hf s.seed s.trackAbundance s.num).merge s = .ok n from by
          have := hc
          unfold Py.copy at this
          rw [hs.sM, mkMinHash_num hs.num] at this
          simpa [bind, Except.bind] using this)).1
        rw [this]
        have h1 := hs.num
        have h2 := ho.num
        simp only [MH.new] at *
        by_cases he : s.num = o.num
        · exact he.symm
        · exact absurd ⟨h1, h2, he⟩ hnum
      obtain ⟨w, hw1, hw2⟩ := hc2.merge ho hn hr
      exact ⟨c, w, hc1, hw1, hw2⟩

/-! ### what removals do, exactly -/

/-- a removal erases the hash if it is retained and restores nothing: the sketch is still the bottom-`num` of the
reference (fed the same removal) iff the hash was not retained or nothing had been evicted; otherwise it is exactly
one short — the bottom-(`num`-1) -/
theorem num_remove_exact' {s u : MH} (h : NumRep s u) (x : Nat) :
    (s.removeHash x).mins = s.mins.erase x ∧
    (u.removeHash x).mins = u.mins.erase x ∧
    (s.removeHash x).mins =
      if x ∈ s.mins ∧ s.num < u.mins.length then (u.removeHash x).mins.take (s.num - 1)
      else (u.removeHash x).mins.take s.num := by
  have h1 := removeHash_mins (s := s) h.invS.sorted x
  have h2 := removeHash_mins (s := u) h.invU.sorted x
  refine ⟨h1, h2, ?_⟩
  rw [h1, h2, h.mins]
  exact take_erase x u.mins s.num

/-- the representation survives a removal iff the removed hash was not retained or nothing had been evicted -/
theorem num_remove_keeps_rep_iff {s u : MH} (h : NumRep s u) (x : Nat) :
    (s.removeHash x).mins = (u.removeHash x).mins.take s.num ↔ ¬ (x ∈ s.mins ∧ s.num < u.mins.length) := by
  have h3 := (num_remove_exact' h x).2.2
  have h2 := (num_remove_exact' h x).2.1
  constructor
  · intro he hc
    rw [if_pos hc, h2] at h3
    rw [h2] at he
    -- the two truncations differ in length
    have hmem : x ∈ u.mins := by
      have := h.mins ▸ hc.1
      exact List.mem_of_mem_take this
    have hl : (u.mins.erase x).length = u.mins.length - 1 := List.length_erase_of_mem hmem
    have := congrArg List.length (h3.symm.trans he)
    rw [List.length_take, List.length_take, hl] at this
    have := h.num
    omega
  · intro hc
    rw [h3, if_neg hc]

/-! ### retained counts are the reference's counts -/

theorem cnt_take_of_mem (x : Nat) : ∀ (ps : List (Nat × Nat)) (n : Nat),
    x ∈ (ps.take n).map Prod.fst → cnt (ps.take n) x = cnt ps x := by
  intro ps
  induction ps with
  | nil => intro n _; simp
  | cons q ps ih =>
    intro n hm
    cases n with
    | zero => simp at hm
    | succ m =>
      rw [List.take_succ_cons] at hm ⊢
      rw [cnt_cons', cnt_cons']
      split
      · rfl
      · rename_i hne
        apply ih
        simp only [List.map_cons, List.mem_cons] at hm
        rcases hm with e | hm
        · exact absurd e hne
        · exact hm

/-- every retained hash carries the count the reference carries (the total offered) -/
theorem NumRep.count_eq {s u : MH} (h : NumRep s u) {x : Nat} (hx : x ∈ s.mins) : count s x = count u x := by
  rw [count_eq_cnt, count_eq_cnt, h.rep]
  apply cnt_take_of_mem
  rw [← h.rep, pairs_keys h.invS.toW]
  exact hx

/-! ### the specification: the distinct hashes offered, ascending -/

def insertSorted (x : Nat) : List Nat → List Nat
  | [] => [x]
  | y :: ys => if x < y then x :: y :: ys else if x = y then y :: ys else y :: insertSorted x ys

/-- ascending list of the distinct members of `l` -/
def sortDedup (l : List Nat) : List Nat := l.foldr insertSorted []

theorem mem_insertSorted (x z : Nat) : ∀ l : List Nat, z ∈ insertSorted x l ↔ z = x ∨ z ∈ l := by
  intro l
  induction l with
  | nil => simp [insertSorted]
  | cons y ys ih =>
    unfold insertSorted
    split
    · simp
    · split
      · rename_i _ he
        subst he
        simp
      · simp only [List.mem_cons, ih]
        constructor
        · rintro (e | e | e)
          · exact Or.inr (Or.inl e)
          · exact Or.inl e
          · exact Or.inr (Or.inr e)
        · rintro (e | e | e)
          · exact Or.inr (Or.inl e)
          · exact Or.inl e
          · exact Or.inr (Or.inr e)

theorem sorted_insertSorted (x : Nat) : ∀ l : List Nat, Sorted l → Sorted (insertSorted x l) := by
  intro l
  induction l with
  | nil => intro _; simp [insertSorted, Sorted]
  | cons y ys ih =>
    intro hs
    unfold insertSorted
    split
    · rename_i hlt
      refine List.Pairwise.cons ?_ hs
      intro z hz
      rcases List.mem_cons.1 hz with rfl | hz
      · exact hlt
      · have := hs.head_lt z hz; omega
    · split
      · exact hs
      · rename_i h1 h2
        refine List.Pairwise.cons ?_ (ih hs.tail)
        intro z hz
        rcases (mem_insertSorted x z ys).1 hz with rfl | hz
        · omega
        · exact hs.head_lt z hz

theorem mem_sortDedup (z : Nat) : ∀ l : List Nat, z ∈ sortDedup l ↔ z ∈ l := by
  intro l
  induction l with
  | nil => simp [sortDedup]
  | cons x xs ih =>
    show z ∈ insertSorted x (sortDedup xs) ↔ _
    rw [mem_insertSorted, ih]
    simp

theorem sorted_sortDedup : ∀ l : List Nat, Sorted (sortDedup l) := by
  intro l
  induction l with
  | nil => simp [sortDedup, Sorted]
  | cons x xs ih => exact sorted_insertSorted x _ ih

/-- a strictly ascending list with the members of `l` IS `sortDedup l` -/
theorem eq_sortDedup {m l : List Nat} (hs : Sorted m) (h : ∀ x, x ∈ m ↔ x ∈ l) : m = sortDedup l :=
  hs.ext (sorted_sortDedup l) (fun x => (h x).trans (mem_sortDedup x l).symm)

/-! ### the unbounded reference sketch holds exactly what was offered -/

/-- an unbounded reference sketch: no capacity, threshold 2^64-1 -/
structure IsRef (u : MH) : Prop where
  inv : Inv u
  num : u.num = 0
  max : u.maxHash = U64MAX

theorem NumRep.isRef {s u : MH} (h : NumRep s u) : IsRef u := ⟨h.invU, h.uN, h.uM⟩

theorem IsRef.new (k hf seed : Nat) (tr : Bool) : IsRef (MH.new 1 k hf seed tr 0) := ⟨inv_new .., rfl, rfl⟩

theorem IsRef.addHashAb {u : MH} (h : IsRef u) (x a : Nat) : IsRef (u.addHashAb x a) := by
  have f := addHashAb_frame u x a
  exact ⟨inv_addHashAb h.inv (Or.inl h.num) x a, f.1.trans h.num, f.2.1.trans h.max⟩

theorem IsRef.mem_addHashAb {u : MH} (h : IsRef u) {x a : Nat} (ha : 0 < a) (hx : x ≤ U64MAX) (z : Nat) :
    z ∈ (u.addHashAb x a).mins ↔ z = x ∨ z ∈ u.mins := by
  rw [mem_iff_count_pos' (h.addHashAb x a).inv, mem_iff_count_pos' h.inv,
    count_addHashAb_scaled' h.inv h.num (by rw [h.max]; exact U64MAX_ne_zero)]
  unfold specAdd
  rw [if_neg (by rw [h.max]; omega), if_neg (by omega)]
  by_cases hz : z = x
  · subst hz
    simp only [if_true, true_or, iff_true]
    split <;> omega
  · simp [hz]

theorem IsRef.addMany {u : MH} (h : IsRef u) (l : List Nat) : IsRef (u.addMany l) := by
  unfold MH.addMany
  induction l generalizing u with
  | nil => exact h
  | cons x xs ih => exact ih (h.addHashAb x 1)

theorem IsRef.mem_addMany {u : MH} (h : IsRef u) {l : List Nat} (hl : ∀ x ∈ l, x ≤ U64MAX) (z : Nat) :
    z ∈ (u.addMany l).mins ↔ z ∈ l ∨ z ∈ u.mins := by
  unfold MH.addMany
  induction l generalizing u with
  | nil => simp
  | cons x xs ih =>
    have h1 : IsRef (u.addHash x) := h.addHashAb x 1
    have h2 : z ∈ (u.addHash x).mins ↔ z = x ∨ z ∈ u.mins := h.mem_addHashAb Nat.one_pos (hl x (by simp)) z
    rw [List.foldl_cons, ih h1 (fun y hy => hl y (List.mem_cons_of_mem _ hy)), h2]
    simp only [List.mem_cons]
    constructor
    · rintro (e | e | e)
      · exact Or.inl (Or.inr e)
      · exact Or.inl (Or.inl e)
      · exact Or.inr e
    · rintro ((e | e) | e)
      · exact Or.inr (Or.inl e)
      · exact Or.inl e
      · exact Or.inr (Or.inr e)

theorem IsRef.addManyAb {u : MH} (h : IsRef u) (l : List (Nat × Nat)) : IsRef (u.addManyAb l) := by
  unfold MH.addManyAb
  induction l generalizing u with
  | nil => exact h
  | cons p ps ih => exact ih (h.addHashAb p.1 p.2)

theorem IsRef.mem_addManyAb {u : MH} (h : IsRef u) {l : List (Nat × Nat)}
    (hl : ∀ p ∈ l, p.1 ≤ U64MAX ∧ 0 < p.2) (z : Nat) :
    z ∈ (u.addManyAb l).mins ↔ z ∈ l.map Prod.fst ∨ z ∈ u.mins := by
  unfold MH.addManyAb
  induction l generalizing u with
  | nil => simp
  | cons p ps ih =>
    rw [List.foldl_cons, ih (h.addHashAb p.1 p.2) (fun q hq => hl q (List.mem_cons_of_mem _ hq))]
    rw [h.mem_addHashAb (hl p (by simp)).2 (hl p (by simp)).1]
    simp only [List.map_cons, List.mem_cons]
    constructor
    · rintro (e | e | e)
      · exact Or.inl (Or.inr e)
      · exact Or.inl (Or.inl e)
      · exact Or.inr e
    · rintro ((e | e) | e)
      · exact Or.inr (Or.inl e)
      · exact Or.inl e
      · exact Or.inr (Or.inr e)

theorem IsRef.merge {u v w : MH} (hu : IsRef u) (hv : IsRef v) (hw : u.merge v = .ok w) :
    IsRef w ∧ ∀ z, z ∈ w.mins ↔ z ∈ u.mins ∨ z ∈ v.mins := by
  have f := merge_frame hw
  refine ⟨⟨inv_merge hu.inv hv.inv hw, f.1.trans hu.num, f.2.1.trans hu.max⟩, ?_⟩
  intro z
  obtain ⟨_, rfl⟩ := merge_ok hw
  have hm : mergedOf u v = mergeP u.pairs v.pairs := by
    unfold mergedOf
    rw [if_neg (fun hc => hc.2 hu.num)]
  simp only [hm, mem_keys_mergeP, pairs_keys hu.inv.toW, pairs_keys hv.inv.toW]

/-! ### histories across sketches -/

/-- a removal-free history of one num sketch, possibly built from other sketches' histories -/
inductive NumHist where
  | fresh (track : Bool)                         -- `MinHash(n, k, track_abundance=…)`
  | add (t : NumHist) (h : Nat)                  -- `add_hash`
  | addAb (t : NumHist) (h a : Nat)              -- `add_hash_with_abundance`
  | addMany (t : NumHist) (l : List Nat)         -- `add_many`
  | setAb (t : NumHist) (ps : List (Nat × Nat))  -- `set_abundances(…, clear=False)`
  | merge (a b : NumHist)                        -- `a.merge(b)` / `a += b`
  | plus (a b : NumHist)                         -- `a + b` / `a | b`
  | copy (t : NumHist)                           -- `copy()` / `to_mutable()`

namespace NumHist

/-- every hash offered anywhere in the history -/
def offered : NumHist → List Nat
  | fresh _ => []
  | add t h => h :: t.offered
  | addAb t h _ => h :: t.offered
  | addMany t l => l ++ t.offered
  | setAb t ps => ps.map Prod.fst ++ t.offered
  | merge a b => a.offered ++ b.offered
  | plus a b => a.offered ++ b.offered
  | copy t => t.offered

/-- hashes are u64 values, abundances are positive (abundance 0 is a removal) -/
def WF : NumHist → Prop
  | fresh _ => True
  | add t h => t.WF ∧ h ≤ U64MAX
  | addAb t h a => t.WF ∧ h ≤ U64MAX ∧ 0 < a
  | addMany t l => t.WF ∧ ∀ x ∈ l, x ≤ U64MAX
  | setAb t ps => t.WF ∧ ∀ p ∈ ps, p.1 ≤ U64MAX ∧ 0 < p.2
  | merge a b => a.WF ∧ b.WF
  | plus a b => a.WF ∧ b.WF
  | copy t => t.WF

/-- the history run on num sketches of capacity `n` through the Python API -/
def eval (n k hf seed : Nat) : NumHist → Except MH.Err MH
  | fresh tr => Py.mkMinHash n k hf seed tr 0 0
  | add t h => do let s ← t.eval n k hf seed; pure (s.addHash h)
  | addAb t h a => do let s ← t.eval n k hf seed; Py.addHashWithAbundance s h a
  | addMany t l => do let s ← t.eval n k hf seed; pure (s.addMany l)
  | setAb t ps => do let s ← t.eval n k hf seed; Py.setAbundances s ps false
  | merge a b => do let x ← a.eval n k hf seed; let y ← b.eval n k hf seed; x.merge y
  | plus a b => do let x ← a.eval n k hf seed; let y ← b.eval n k hf seed; Py.add x y
  | copy t => do let s ← t.eval n k hf seed; Py.copy s

/-- the same history on unbounded reference sketches -/
def ref (k hf seed : Nat) : NumHist → Except MH.Err MH
  | fresh tr => .ok (MH.new 1 k hf seed tr 0)
  | add t h => do let u ← t.ref k hf seed; pure (u.addHash h)
  | addAb t h a => do let u ← t.ref k hf seed; Py.addHashWithAbundance u h a
  | addMany t l => do let u ← t.ref k hf seed; pure (u.addMany l)
  | setAb t ps => do let u ← t.ref k hf seed; Py.setAbundances u ps false
  | merge a b => do let x ← a.ref k hf seed; let y ← b.ref k hf seed; x.merge y
  | plus a b => do
    let x ← a.ref k hf seed
    let y ← b.ref k hf seed
    let c ← (MH.new 1 x.ksize x.hf x.seed x.trackAbundance 0).merge x
    c.merge y
  | copy t => do let x ← t.ref k hf seed; (MH.new 1 x.ksize x.hf x.seed x.trackAbundance 0).merge x

end NumHist

theorem bind_ok {ε α β} {x : Except ε α} {f : α → Except ε β} {r : β} (h : (x >>= f) = .ok r) :
    ∃ a, x = .ok a ∧ f a = .ok r := by
  cases x with
  | error e => simp [bind, Except.bind] at h
  | ok a => exact ⟨a, rfl, h⟩

/-- **the num sketch of a removal-free history is the first `n` entries of the reference of the same history** -/
theorem numHist_rep {n k hf seed : Nat} (hn : n ≠ 0) : ∀ (t : NumHist) {s : MH}, t.WF →
    t.eval n k hf seed = .ok s → ∃ u, t.ref k hf seed = .ok u ∧ NumRep s u ∧ s.num = n := by
  intro t
  induction t with
  | fresh tr =>
    intro s _ he
    simp only [NumHist.eval, mkMinHash_num hn] at he
    cases he
    exact ⟨_, rfl, NumRep.new k hf seed tr hn, rfl⟩
  | add t h ih =>
    intro s hw he
    obtain ⟨s0, h0, he⟩ := bind_ok he
    cases he
    obtain ⟨u, hu, hr, hnum⟩ := ih hw.1 h0
    refine ⟨u.addHash h, by simp [NumHist.ref, hu, bind, Except.bind, pure, Except.pure], hr.addHash hw.2, ?_⟩
    exact (addHashAb_frame s0 h 1).1.trans hnum
  | addAb t h a ih =>
    intro s hw he
    obtain ⟨s0, h0, he⟩ := bind_ok he
    obtain ⟨u, hu, hr, hnum⟩ := ih hw.1 h0
    obtain ⟨w, hw1, hw2⟩ := hr.pyAddHashWithAbundance hw.2.2 hw.2.1 he
    refine ⟨w, by simp [NumHist.ref, hu, bind, Except.bind, hw1], hw2, ?_⟩
    unfold Py.addHashWithAbundance at he
    split at he
    · cases he; exact (addHashAb_frame s0 h a).1.trans hnum
    · cases he
  | addMany t l ih =>
    intro s hw he
    obtain ⟨s0, h0, he⟩ := bind_ok he
    cases he
    obtain ⟨u, hu, hr, hnum⟩ := ih hw.1 h0
    exact ⟨u.addMany l, by simp [NumHist.ref, hu, bind, Except.bind, pure, Except.pure], hr.addMany hw.2,
      (addMany_frame s0 l).1.trans hnum⟩
  | setAb t ps ih =>
    intro s hw he
    obtain ⟨s0, h0, he⟩ := bind_ok he
    obtain ⟨u, hu, hr, hnum⟩ := ih hw.1 h0
    obtain ⟨w, hw1, hw2⟩ := hr.pySetAbundances hw.2 he
    refine ⟨w, by simp [NumHist.ref, hu, bind, Except.bind, hw1], hw2, ?_⟩
    unfold Py.setAbundances at he
    split at he
    · cases he
      unfold MH.ffiSetAbundances
      simp only [Bool.false_eq_true, if_false]
      exact (addManyAb_frame s0 _).1.trans hnum
    · cases he
  | merge a b iha ihb =>
    intro s hw he
    obtain ⟨x, hx, he⟩ := bind_ok he
    obtain ⟨y, hy, he⟩ := bind_ok he
    obtain ⟨u, hu, hru, hnu⟩ := iha hw.1 hx
    obtain ⟨v, hv, hrv, hnv⟩ := ihb hw.2 hy
    obtain ⟨w, hw1, hw2⟩ := hru.merge hrv (hnv.trans hnu.symm) he
    exact ⟨w, by simp [NumHist.ref, hu, hv, bind, Except.bind, hw1], hw2, (merge_frame he).1.trans hnu⟩
  | plus a b iha ihb =>
    intro s hw he
    obtain ⟨x, hx, he⟩ := bind_ok he
    obtain ⟨y, hy, he⟩ := bind_ok he
    obtain ⟨u, hu, hru, hnu⟩ := iha hw.1 hx
    obtain ⟨v, hv, hrv, hnv⟩ := ihb hw.2 hy
    obtain ⟨c, w, hc, hw1, hw2⟩ := hru.pyAdd hrv he
    refine ⟨w, by simp [NumHist.ref, hu, hv, bind, Except.bind, hc, hw1], hw2, ?_⟩
    -- `+` keeps the receiver's num
    unfold Py.add at he
    split at he
    · cases he
    · obtain ⟨cp, hcp, he⟩ := bind_ok he
      have f1 := (merge_frame he).1
      unfold Py.copy at hcp
      obtain ⟨a0, ha0, hcp⟩ := bind_ok hcp
      have f2 := (merge_frame hcp).1
      have f3 := (mkMinHash_frame ha0).1
      rw [f1, f2, f3]; exact hnu
  | copy t ih =>
    intro s hw he
    obtain ⟨s0, h0, he⟩ := bind_ok he
    obtain ⟨u, hu, hr, hnum⟩ := ih hw h0
    obtain ⟨w, hw1, hw2⟩ := hr.pyCopy he
    refine ⟨w, by simp [NumHist.ref, hu, bind, Except.bind, hw1], hw2, ?_⟩
    unfold Py.copy at he
    obtain ⟨a0, ha0, he⟩ := bind_ok he
    rw [(merge_frame he).1, (mkMinHash_frame ha0).1]; exact hnum

/-- the reference sketch of a history holds exactly the hashes offered -/
theorem numHist_ref_mem {k hf seed : Nat} : ∀ (t : NumHist) {u : MH}, t.WF →
    t.ref k hf seed = .ok u → IsRef u ∧ ∀ z, z ∈ u.mins ↔ z ∈ t.offered := by
  intro t
  induction t with
  | fresh tr =>
    intro u _ he
    cases he
    exact ⟨IsRef.new .., fun z => by simp [MH.new, NumHist.offered]⟩
  | add t h ih =>
    intro u hw he
    obtain ⟨u0, h0, he⟩ := bind_ok he
    cases he
    obtain ⟨hr, hm⟩ := ih hw.1 h0
    refine ⟨hr.addHashAb h 1, fun z => ?_⟩
    unfold MH.addHash
    rw [hr.mem_addHashAb Nat.one_pos hw.2, hm]
    simp [NumHist.offered]
  | addAb t h a ih =>
    intro u hw he
    obtain ⟨u0, h0, he⟩ := bind_ok he
    obtain ⟨hr, hm⟩ := ih hw.1 h0
    unfold Py.addHashWithAbundance at he
    split at he
    · cases he
      refine ⟨hr.addHashAb h a, fun z => ?_⟩
      rw [hr.mem_addHashAb hw.2.2 hw.2.1, hm]
      simp [NumHist.offered]
    · cases he
  | addMany t l ih =>
    intro u hw he
    obtain ⟨u0, h0, he⟩ := bind_ok he
    cases he
    obtain ⟨hr, hm⟩ := ih hw.1 h0
    refine ⟨hr.addMany l, fun z => ?_⟩
    rw [hr.mem_addMany hw.2, hm]
    simp [NumHist.offered]
  | setAb t ps ih =>
    intro u hw he
    obtain ⟨u0, h0, he⟩ := bind_ok he
    obtain ⟨hr, hm⟩ := ih hw.1 h0
    unfold Py.setAbundances at he
    split at he
    · cases he
      unfold MH.ffiSetAbundances
      simp only [Bool.false_eq_true, if_false]
      have hl : ∀ p ∈ MH.sortPairs ps, p.1 ≤ U64MAX ∧ 0 < p.2 :=
        fun p hp => hw.2 p ((sortPairs_perm ps).mem_iff.1 hp)
      refine ⟨hr.addManyAb _, fun z => ?_⟩
      rw [hr.mem_addManyAb hl, hm]
      have : z ∈ (MH.sortPairs ps).map Prod.fst ↔ z ∈ ps.map Prod.fst :=
        ((sortPairs_perm ps).map Prod.fst).mem_iff
      rw [this]
      simp [NumHist.offered]
    · cases he
  | merge a b iha ihb =>
    intro u hw he
    obtain ⟨x, hx, he⟩ := bind_ok he
    obtain ⟨y, hy, he⟩ := bind_ok he
    obtain ⟨hrx, hmx⟩ := iha hw.1 hx
    obtain ⟨hry, hmy⟩ := ihb hw.2 hy
    obtain ⟨hr, hm⟩ := hrx.merge hry he
    refine ⟨hr, fun z => ?_⟩
    rw [hm, hmx, hmy]
    simp [NumHist.offered]
  | plus a b iha ihb =>
    intro u hw he
    obtain ⟨x, hx, he⟩ := bind_ok he
    obtain ⟨y, hy, he⟩ := bind_ok he
    obtain ⟨c, hc, he⟩ := bind_ok he
    obtain ⟨hrx, hmx⟩ := iha hw.1 hx
    obtain ⟨hry, hmy⟩ := ihb hw.2 hy
    obtain ⟨hrc, hmc⟩ := (IsRef.new x.ksize x.hf x.seed x.trackAbundance).merge hrx hc
    obtain ⟨hr, hm⟩ := hrc.merge hry he
    refine ⟨hr, fun z => ?_⟩
    rw [hm, hmc, hmx, hmy]
    simp [NumHist.offered, MH.new]
  | copy t ih =>
    intro u hw he
    obtain ⟨x, hx, he⟩ := bind_ok he
    obtain ⟨hrx, hmx⟩ := ih hw hx
    obtain ⟨hr, hm⟩ := (IsRef.new x.ksize x.hf x.seed x.trackAbundance).merge hrx he
    refine ⟨hr, fun z => ?_⟩
    rw [hm, hmx]
    simp [NumHist.offered, MH.new]

/-- **num semantics.**  After any removal-free history — adds, add_many, abundance adds, set_abundances, merges,
`+`, copies, across any number of sketches with the same `num` — a num sketch holds exactly the `num` smallest
distinct hashes offered anywhere in the history. -/
theorem num_sketch_is_bottom_n' {n k hf seed : Nat} (hn : n ≠ 0) (t : NumHist) {s : MH} (hw : t.WF)
    (he : t.eval n k hf seed = .ok s) : s.mins = (sortDedup t.offered).take n := by
  obtain ⟨u, hu, hr, hnum⟩ := numHist_rep hn t hw he
  obtain ⟨href, hm⟩ := numHist_ref_mem t hw hu
  rw [hr.mins, hnum, eq_sortDedup href.inv.sorted hm]

end Sm
