/-
Index version 3 after a FULL save: `load … 3 …` builds the internal nodes without `min_n_below` and runs
`_fill_min_n_below`, which must ESTABLISH the size half of `Cover`.

* `V3Inv` / `V3Strong`: the loop invariant of `_fill_up(fill_min_n_below)` on an insertion-shaped tree whose nodes
  carry no value (queue strictly descending, queue below everything visited, a node has a value iff its children are
  marked visited, everything above the head of the queue is visited, every recorded value is a proper bound).
* `v3_step` (one pop), `fillLoop_v3`, `fillMinNBelow_v3` (the run terminates without raising and establishes `Final`
  at every internal node), `load_v3_eq`, `load_v3_spec`.
* (c) `load_v3_total`, (a)+(b) `cover_after_load_v3`, (e) `searchable_after_load_v3`, `search_after_load_v3`.
* `SmallLeaves` is needed: `giant_loop`, `v3_giant_inner`, `cover_after_load_v3_needs_small`.
-/
import SmVerif.Lemmas.SBTV3Aux

namespace Sm.SBT

open Sm.NG

/-! ### what `_fill_min_n_below` never touches -/

/-- a node without its `min_n_below` -/
def strip (n : INode) : INode := { n with minN := none }

/-- the recorded `min_n_below` at position `x`, if any -/
def minAt (s : Tree) (x : Nat) : Option Nat := (s.nodes.get? x).bind (·.minN)

theorem minAt_set (t0 : Tree) (ns : PMap INode) (pp : Nat) (n' : INode) (x : Nat) :
    minAt { t0 with nodes := PMap.set ns pp n' } x = if x = pp then n'.minN else minAt { t0 with nodes := ns } x := by
  unfold minAt
  show (PMap.get? (PMap.set ns pp n') x).bind _ = _
  rw [PMap.get?_set]
  split <;> rfl

theorem minAt_of_get {s : Tree} {x : Nat} {n : INode} (h : s.nodes.get? x = some n) : minAt s x = n.minN := by
  unfold minAt; rw [h]; rfl

theorem isSome_of_strip {a b : Option INode} (h : a.map strip = b.map strip) : a.isSome = b.isSome := by
  cases a <;> cases b <;> simp_all

/-- every leaf has fewer than `sys.maxsize` hashes (a Python list cannot be that long) -/
def SmallLeaves (t : Tree) : Prop := ∀ p l, t.leaves.get? p = some l → l.hashes.length < maxsize

/-- the value recorded at `x` is a proper size bound for every leaf below `x` -/
def Final (t0 s : Tree) (x : Nat) : Prop :=
  ∃ v, minAt s x = some v ∧ v < maxsize ∧
    ∀ p l, t0.leaves.get? p = some l → x ∈ ancestors t0.d p → v ≤ max 1 l.hashes.length

/-! ### the fold of `fill_min_n_below` -/

def minFold (s : Tree) (pp : Nat) (init : Nat) : Nat :=
  (List.range s.d).foldl (fun m i =>
    match s.at (child s.d pp i) with
    | .leaf l => min l.hashes.length m
    | .node c => min (c.minN.getD maxsize) m
    | .none => m) init

theorem fillMinFn_eq (s : Tree) (pp : Nat) (n : INode) :
    fillMinFn s pp n = ({ n with minN := some (clamp (minFold s pp (n.minN.getD maxsize))) },
      n.minN.getD maxsize != clamp (minFold s pp (n.minN.getD maxsize))) := rfl

theorem minFold_step_le (s : Tree) (pp : Nat) (m i : Nat) :
    (match s.at (child s.d pp i) with
      | .leaf l => min l.hashes.length m
      | .node c => min (c.minN.getD maxsize) m
      | .none => m) ≤ m := by
  split
  · exact Nat.min_le_right _ _
  · exact Nat.min_le_right _ _
  · exact Nat.le_refl _

theorem minFold_le_init (s : Tree) (pp init : Nat) : minFold s pp init ≤ init :=
  foldl_le_init _ (minFold_step_le s pp) _ _

theorem minFold_le_leaf {s : Tree} {pp i : Nat} {l : Leaf} (init : Nat) (hi : i < s.d)
    (hl : s.leaves.get? (child s.d pp i) = some l) : minFold s pp init ≤ l.hashes.length := by
  refine foldl_le_of_mem _ (minFold_step_le s pp) (a := i) ?_ _ _ (List.mem_range.mpr hi)
  intro m
  rw [at_leaf hl]
  exact Nat.min_le_left _ _

theorem minFold_le_node {s : Tree} {pp i : Nat} {c : INode} (init : Nat) (hi : i < s.d)
    (hl : s.leaves.get? (child s.d pp i) = none) (hn : s.nodes.get? (child s.d pp i) = some c) :
    minFold s pp init ≤ c.minN.getD maxsize := by
  refine foldl_le_of_mem _ (minFold_step_le s pp) (a := i) ?_ _ _ (List.mem_range.mpr hi)
  intro m
  rw [at_node hl hn]
  exact Nat.min_le_left _ _

/-! ### one iteration of `_fill_up` when the parent is a present node and the popped position is unvisited -/

theorem fillUpLoop_step {fixed : Bool} {fn : Tree → Nat → INode → INode × Bool} {fuel : Nat} {s : Tree}
    {visited rest : List Nat} {c : Nat} {n : INode} (hc : c ≠ 0) (hl : s.leaves.get? (parent s.d c) = none)
    (hn : s.nodes.get? (parent s.d c) = some n) (hv : visited.contains c = false) :
    fillUpLoop fixed fn (fuel + 1) s visited (c :: rest) =
      fillUpLoop fixed fn fuel { s with nodes := s.nodes.set (parent s.d c) (fn s (parent s.d c) n).1 }
        (((List.range s.d).map (child s.d (parent s.d c))).reverse ++ c :: visited)
        (if (fn s (parent s.d c) n).2 = true then
          ((List.range s.d).map (child s.d (parent s.d c))).foldl (fun q x => removeFirst x q) rest ++ [parent s.d c]
         else ((List.range s.d).map (child s.d (parent s.d c))).foldl (fun q x => removeFirst x q) rest) := by
  rw [fillUpLoop_cons, if_neg hc]
  have hat : s.at (parent s.d c) = .node n := at_node hl hn
  have hfs : fillStep fixed s (parent s.d c) = .ok (some (s, false)) := by
    unfold fillStep; rw [hat]; rfl
  rw [hfs]
  simp only [hv, Bool.false_eq_true, ↓reduceIte, hat, Bool.or_false]

/-! ### the loop invariant -/

/-- the part of the invariant that needs `SmallLeaves` (so that every processed node is re-queued) -/
structure V3Strong (t0 : Tree) (m M : Nat) (s : Tree) (visited queue : List Nat) : Prop where
  /-- everything above the head of the queue has been visited -/
  above : ∀ p, 1 ≤ p → p ≤ M → (∀ x ∈ queue, x < p) → p ∈ visited
  /-- a position is only marked visited when its parent is processed -/
  vis : ∀ v ∈ visited, 1 ≤ v → v ≤ M → (minAt s (parent t0.d v)).isSome = true
  /-- leaves and processed nodes are queued until they are visited -/
  live : ∀ p, 1 ≤ p → p ≤ M → (m ≤ p ∨ (minAt s p).isSome = true) → p ∈ queue ∨ p ∈ visited
  final : ∀ x, (minAt s x).isSome = true → Final t0 s x

structure V3Inv (t0 : Tree) (m M : Nat) (s : Tree) (visited queue : List Nat) : Prop where
  same : SameF t0 s
  nodes : ∀ p, (s.nodes.get? p).map strip = (t0.nodes.get? p).map strip
  pos : ∀ x, minAt s x ≠ some 0
  sorted : queue.Pairwise (· > ·)
  qle : ∀ x ∈ queue, x ≤ M
  qlt : ∀ x ∈ queue, ∀ v ∈ visited, x < v
  /-- a processed node has all its children marked visited -/
  kids : ∀ x, (minAt s x).isSome = true → ∀ j, j < t0.d → child t0.d x j ∈ visited
  /-- an internal position in the queue has been processed -/
  qproc : ∀ x ∈ queue, x < m → (minAt s x).isSome = true
  strong : SmallLeaves t0 → V3Strong t0 m M s visited queue

theorem v3_step {t0 : Tree} {m M : Nat} (hd : 2 ≤ t0.d) (hs : Shape t0 m M) (hlow : t0.d * (m - 1) + 1 ≤ M)
    {ns : PMap INode} {visited rest : List Nat} {c : Nat} (hc0 : c ≠ 0)
    (hinv : V3Inv t0 m M { t0 with nodes := ns } visited (c :: rest)) :
    ∃ n, ns.get? (parent t0.d c) = some n ∧ t0.leaves.get? (parent t0.d c) = none ∧ visited.contains c = false ∧
      ∀ Q', Q' = (if (fillMinFn { t0 with nodes := ns } (parent t0.d c) n).2 = true then
            ((List.range t0.d).map (child t0.d (parent t0.d c))).foldl (fun q x => removeFirst x q) rest ++ [parent t0.d c]
          else ((List.range t0.d).map (child t0.d (parent t0.d c))).foldl (fun q x => removeFirst x q) rest) →
      V3Inv t0 m M { t0 with nodes := ns.set (parent t0.d c) (fillMinFn { t0 with nodes := ns } (parent t0.d c) n).1 }
        (((List.range t0.d).map (child t0.d (parent t0.d c))).reverse ++ c :: visited) Q' ∧
      (∀ x ∈ Q', x < c) := by
  have hd0 : 0 < t0.d := by omega
  have hc1 : 0 < c := Nat.pos_of_ne_zero hc0
  have hcM : c ≤ M := hinv.qle c List.mem_cons_self
  have hpp : parent t0.d c < m := parent_lt_of_le_mul hd0 hc1 (Nat.le_trans hcM hs.Mdm)
  obtain ⟨hb1, hb2⟩ := child_block (d := t0.d) hd0 hc1
  have hppc : parent t0.d c < c := parent_lt hc1
  have hsome : ∀ p, (ns.get? p).isSome = (t0.nodes.get? p).isSome := fun p => isSome_of_strip (hinv.nodes p)
  obtain ⟨n, hn⟩ : ∃ n, ns.get? (parent t0.d c) = some n :=
    Option.isSome_iff_exists.mp (by rw [hsome]; exact (hs.nodes _).mpr hpp)
  have hlpp : t0.leaves.get? (parent t0.d c) = none := (hs.node_at hpp).2
  have hcv : c ∉ visited := fun h => Nat.lt_irrefl _ (hinv.qlt c List.mem_cons_self c h)
  obtain ⟨hrest_lt, hrest_sorted⟩ := List.pairwise_cons.mp hinv.sorted
  -- the parent has not been processed yet
  have hunproc : minAt { t0 with nodes := ns } (parent t0.d c) = none := by
    cases hm : minAt { t0 with nodes := ns } (parent t0.d c) with
    | none => rfl
    | some v =>
      exfalso
      have := hinv.kids (parent t0.d c) (by rw [hm]; rfl) (c - (t0.d * parent t0.d c + 1)) (by omega)
      have e : child t0.d (parent t0.d c) (c - (t0.d * parent t0.d c + 1)) = c := by unfold child; omega
      rw [e] at this
      exact hcv this
  have hnmin : n.minN = none := by
    rw [← minAt_of_get (s := { t0 with nodes := ns }) hn]; exact hunproc
  refine ⟨n, hn, hlpp, by simpa using hcv, ?_⟩
  -- the new node
  generalize hF : minFold { t0 with nodes := ns } (parent t0.d c) maxsize = F
  have hfn : fillMinFn { t0 with nodes := ns } (parent t0.d c) n =
      ({ n with minN := some (clamp F) }, maxsize != clamp F) := by
    rw [fillMinFn_eq, hnmin]; simp only [Option.getD_none, hF]
  rw [hfn]
  simp only
  have hmin' : ∀ x, minAt { t0 with nodes := ns.set (parent t0.d c) { n with minN := some (clamp F) } } x =
      if x = parent t0.d c then some (clamp F) else minAt { t0 with nodes := ns } x := fun x => minAt_set _ _ _ _ _
  have hmono : ∀ x, (minAt { t0 with nodes := ns } x).isSome = true →
      (minAt { t0 with nodes := ns.set (parent t0.d c) { n with minN := some (clamp F) } } x).isSome = true := by
    intro x hx; rw [hmin']; split
    · rfl
    · exact hx
  -- the queue after the siblings are removed
  have hnodup : rest.Nodup := List.Pairwise.imp (fun h => by omega) hrest_sorted
  rw [foldl_removeFirst_eq_filter _ hnodup]
  generalize hQ0 : rest.filter (fun y => !((List.range t0.d).map (child t0.d (parent t0.d c))).contains y) = Q0
  have hQ0mem : ∀ x, x ∈ Q0 ↔ (x ∈ rest ∧ ¬ (t0.d * parent t0.d c + 1 ≤ x ∧ x ≤ t0.d * parent t0.d c + t0.d)) := by
    intro x
    rw [← hQ0, List.mem_filter, ← mem_sibs_iff]
    simp
  have hQ0sorted : Q0.Pairwise (· > ·) := by
    rw [← hQ0]; exact List.Pairwise.sublist List.filter_sublist hrest_sorted
  have hQ0lt : ∀ x ∈ Q0, x < t0.d * parent t0.d c + 1 := by
    intro x hx
    obtain ⟨h1, h2⟩ := (hQ0mem x).mp hx
    have := hrest_lt x h1
    omega
  have hQ0gt : ∀ x ∈ Q0, parent t0.d c < x := by
    intro x hx
    obtain ⟨h1, _⟩ := (hQ0mem x).mp hx
    apply Classical.byContradiction
    intro hle
    have hxle : x ≤ parent t0.d c := by omega
    have h3 := hinv.qproc x (List.mem_cons_of_mem _ h1) (by omega)
    have h4 := hinv.kids x h3 0 hd0
    have h5 := hinv.qlt c List.mem_cons_self _ h4
    have h6 := child_zero_mono (d := t0.d) hxle
    unfold child at h5 h6
    omega
  have hppd : parent t0.d c ≤ t0.d * parent t0.d c := Nat.le_mul_of_pos_left _ hd0
  intro Q' hQ'
  have hQ'mem : ∀ x ∈ Q', x ∈ Q0 ∨ x = parent t0.d c := by
    intro x hx
    rw [hQ'] at hx
    split at hx
    · rcases List.mem_append.mp hx with h | h
      · exact Or.inl h
      · exact Or.inr (by simpa using h)
    · exact Or.inl hx
  have hQ'sorted : Q'.Pairwise (· > ·) := by
    rw [hQ']
    split
    · rw [List.pairwise_append]
      refine ⟨hQ0sorted, List.pairwise_singleton _ _, ?_⟩
      intro a ha b hb
      have : b = parent t0.d c := by simpa using hb
      rw [this]; exact hQ0gt a ha
    · exact hQ0sorted
  have hvis' : ∀ v, v ∈ ((List.range t0.d).map (child t0.d (parent t0.d c))).reverse ++ c :: visited ↔
      ((t0.d * parent t0.d c + 1 ≤ v ∧ v ≤ t0.d * parent t0.d c + t0.d) ∨ v = c ∨ v ∈ visited) := by
    intro v
    rw [List.mem_append, List.mem_reverse, mem_sibs_iff, List.mem_cons]
  refine ⟨⟨⟨rfl, rfl, rfl, rfl, rfl, rfl, rfl⟩, ?_, ?_, hQ'sorted, ?_, ?_, ?_, ?_, ?_⟩, ?_⟩
  · -- nodes
    intro p
    show (PMap.get? (PMap.set ns _ _) p).map strip = _
    rw [PMap.get?_set]
    split
    · rename_i hp; subst hp
      rw [← hinv.nodes (parent t0.d c)]
      show _ = (PMap.get? ns (parent t0.d c)).map strip
      rw [hn]; rfl
    · exact hinv.nodes p
  · -- pos
    intro x
    rw [hmin']
    split
    · exact clamp_ne_zero _
    · exact hinv.pos x
  · -- qle
    intro x hx
    rcases hQ'mem x hx with h | h
    · exact hinv.qle x (List.mem_cons_of_mem _ ((hQ0mem x).mp h).1)
    · have := hs.mM; omega
  · -- qlt
    intro x hx v hv
    rw [hvis'] at hv
    rcases hQ'mem x hx with h | h
    · have h1 := hQ0lt x h
      have h2 := ((hQ0mem x).mp h).1
      rcases hv with hv | hv | hv
      · omega
      · have := hrest_lt x h2; omega
      · exact hinv.qlt x (List.mem_cons_of_mem _ h2) v hv
    · rcases hv with hv | hv | hv
      · omega
      · omega
      · have := hinv.qlt c List.mem_cons_self v hv; omega
  · -- kids
    intro x hx j hj
    rw [hvis']
    rw [hmin'] at hx
    split at hx
    · rename_i hxp; subst hxp
      left; unfold child; omega
    · right; right; exact hinv.kids x hx j hj
  · -- qproc
    intro x hx hxm
    rcases hQ'mem x hx with h | h
    · exact hmono x (hinv.qproc x (List.mem_cons_of_mem _ ((hQ0mem x).mp h).1) hxm)
    · rw [hmin', if_pos h]; rfl
  · -- the strong part
    intro hsm
    have old := hinv.strong hsm
    -- the popped position contributes a value below `maxsize`
    have hFlt : F < maxsize := by
      have hci : c - (t0.d * parent t0.d c + 1) < t0.d := by omega
      have e : child t0.d (parent t0.d c) (c - (t0.d * parent t0.d c + 1)) = c := by unfold child; omega
      by_cases hcm : c < m
      · obtain ⟨cn, hcn⟩ : ∃ cn, ns.get? c = some cn :=
          Option.isSome_iff_exists.mp (by rw [hsome]; exact (hs.nodes _).mpr hcm)
        have hlc : t0.leaves.get? c = none := (hs.node_at hcm).2
        have h1 := hinv.qproc c List.mem_cons_self hcm
        obtain ⟨v, hv, hvlt, _⟩ := old.final c h1
        rw [minAt_of_get (s := { t0 with nodes := ns }) hcn] at hv
        have := minFold_le_node (s := { t0 with nodes := ns }) (pp := parent t0.d c) maxsize hci
          (by rw [e]; exact hlc) (by rw [e]; exact hcn)
        rw [hF, hv] at this
        simp only [Option.getD_some] at this
        omega
      · obtain ⟨⟨l, hl⟩, _⟩ := hs.leaf_at (by omega) hcM
        have := minFold_le_leaf (s := { t0 with nodes := ns }) (pp := parent t0.d c) maxsize hci
          (by rw [e]; exact hl)
        rw [hF] at this
        have := hsm c l hl
        omega
    have hagain : (maxsize != clamp F) = true := by
      have := clamp_lt_maxsize hFlt
      simp only [bne_iff_ne, ne_eq]; omega
    have hppQ : parent t0.d c ∈ Q' := by
      rw [hQ', if_pos hagain]; simp
    have hQ0Q : ∀ x ∈ Q0, x ∈ Q' := by
      intro x hx; rw [hQ', if_pos hagain]; exact List.mem_append_left _ hx
    refine ⟨?_, ?_, ?_, ?_⟩
    · -- above
      intro p hp1 hpM hall
      rw [hvis']
      have hpp_lt : parent t0.d c < p := hall _ hppQ
      by_cases h1 : c < p
      · right; right
        apply old.above p hp1 hpM
        intro x hx
        rcases List.mem_cons.mp hx with rfl | hx
        · exact h1
        · have := hrest_lt x hx; omega
      · by_cases h2 : p = c
        · right; left; exact h2
        · by_cases h3 : t0.d * parent t0.d c + 1 ≤ p
          · left; omega
          · right; right
            apply Classical.byContradiction
            intro hpv
            have hprest : p ∉ rest := by
              intro hpr
              have := hall p (hQ0Q p ((hQ0mem p).mpr ⟨hpr, by omega⟩))
              omega
            have hpq : ¬ (p ∈ c :: rest ∨ p ∈ visited) := by
              rintro (h | h)
              · rcases List.mem_cons.mp h with h | h
                · exact h2 h
                · exact hprest h
              · exact hpv h
            have hnl : ¬ (m ≤ p ∨ (minAt { t0 with nodes := ns } p).isSome = true) :=
              fun h => hpq (old.live p hp1 hpM h)
            have hpm : p < m := by omega
            have hz1 : 1 ≤ child t0.d p 0 := by unfold child; omega
            have hzM : child t0.d p 0 ≤ M := by
              have : t0.d * p ≤ t0.d * (m - 1) := Nat.mul_le_mul_left _ (by omega)
              unfold child; omega
            have hznv : child t0.d p 0 ∉ visited := by
              intro hz
              have := old.vis _ hz hz1 hzM
              rw [parent_child hd0] at this
              exact hnl (Or.inr this)
            have hzc : child t0.d p 0 ≤ c := by
              apply Classical.byContradiction
              intro hgt
              apply hznv
              apply old.above _ hz1 hzM
              intro x hx
              rcases List.mem_cons.mp hx with rfl | hx
              · omega
              · have := hrest_lt x hx; omega
            have := le_parent_of_child_zero_le hd0 hzc
            omega
    · -- vis
      intro v hv hv1 hvM
      rw [hvis'] at hv
      rcases hv with hv | hv | hv
      · have e : parent t0.d v = parent t0.d c := by
          have : v = child t0.d (parent t0.d c) (v - (t0.d * parent t0.d c + 1)) := by unfold child; omega
          rw [this, parent_child (by omega)]
        rw [e, hmin', if_pos rfl]; rfl
      · rw [hv, hmin', if_pos rfl]; rfl
      · exact hmono _ (old.vis v hv hv1 hvM)
    · -- live
      intro p hp1 hpM hor
      rw [hvis']
      by_cases hpp' : p = parent t0.d c
      · left; rw [hpp']; exact hppQ
      · rw [hmin', if_neg hpp'] at hor
        rcases old.live p hp1 hpM hor with h | h
        · rcases List.mem_cons.mp h with h | h
          · right; right; left; exact h
          · by_cases hsib : t0.d * parent t0.d c + 1 ≤ p ∧ p ≤ t0.d * parent t0.d c + t0.d
            · right; left; exact hsib
            · left; exact hQ0Q p ((hQ0mem p).mpr ⟨h, hsib⟩)
        · right; right; right; exact h
    · -- final
      intro x hx
      by_cases hxp : x = parent t0.d c
      · subst hxp
        refine ⟨clamp F, by rw [hmin', if_pos rfl], clamp_lt_maxsize hFlt, ?_⟩
        intro p l hl ha
        apply clamp_le_max
        obtain ⟨i, hi, hcase⟩ := below_cases hd0 ha
        rcases hcase with rfl | hy
        · have := minFold_le_leaf (s := { t0 with nodes := ns }) (pp := parent t0.d c) maxsize hi hl
          rw [hF] at this; omega
        · -- an internal child `y` with the leaf below it
          have hpM : p ≤ M := ((hs.leaves p).mp (by rw [hl]; rfl)).2
          have hym : child t0.d (parent t0.d c) i < m := ancestor_lt hd0 (Nat.le_trans hpM hs.Mdm) hy
          obtain ⟨cy, hcy⟩ : ∃ cy, ns.get? (child t0.d (parent t0.d c) i) = some cy :=
            Option.isSome_iff_exists.mp (by rw [hsome]; exact (hs.nodes _).mpr hym)
          have hly : t0.leaves.get? (child t0.d (parent t0.d c) i) = none := (hs.node_at hym).2
          have hzgt : c < child t0.d (child t0.d (parent t0.d c) i) 0 :=
            grandchild_gt hd0 (by unfold child; omega) hb2
          have hzM : child t0.d (child t0.d (parent t0.d c) i) 0 ≤ M := by
            have : t0.d * child t0.d (parent t0.d c) i ≤ t0.d * (m - 1) := Nat.mul_le_mul_left _ (by omega)
            unfold child at this ⊢; omega
          have hzv := old.above _ (by omega) hzM (by
            intro x hx
            rcases List.mem_cons.mp hx with rfl | hx
            · exact hzgt
            · have := hrest_lt x hx; omega)
          have hyproc := old.vis _ hzv (by omega) hzM
          rw [parent_child hd0] at hyproc
          obtain ⟨vy, hvy, _, hvyle⟩ := old.final _ hyproc
          rw [minAt_of_get (s := { t0 with nodes := ns }) hcy] at hvy
          have := minFold_le_node (s := { t0 with nodes := ns }) (pp := parent t0.d c) maxsize hi hly hcy
          rw [hF, hvy] at this
          simp only [Option.getD_some] at this
          have := hvyle p l hl hy
          omega
      · rw [hmin', if_neg hxp] at hx
        obtain ⟨v, hv, hvlt, hvle⟩ := old.final x hx
        exact ⟨v, by rw [hmin', if_neg hxp]; exact hv, hvlt, hvle⟩
  · -- everything left in the queue is below the popped position
    intro x hx
    rcases hQ'mem x hx with h | h
    · exact hrest_lt x ((hQ0mem x).mp h).1
    · omega

/-! ### the whole run -/

/-- what the run leaves behind -/
structure V3Post (t0 : Tree) (m : Nat) (s : Tree) : Prop where
  same : SameF t0 s
  nodes : ∀ p, (s.nodes.get? p).map strip = (t0.nodes.get? p).map strip
  pos : ∀ x, minAt s x ≠ some 0
  final : SmallLeaves t0 → ∀ x, x < m → Final t0 s x

theorem v3_done {t0 : Tree} {m M : Nat} (hd : 2 ≤ t0.d) (hlow : t0.d * (m - 1) + 1 ≤ M) {s : Tree}
    {visited queue : List Nat} (hinv : V3Inv t0 m M s visited queue) (hq : ∀ x ∈ queue, x = 0) : V3Post t0 m s := by
  refine ⟨hinv.same, hinv.nodes, hinv.pos, ?_⟩
  intro hsm x hx
  have st := hinv.strong hsm
  have hd0 : 0 < t0.d := by omega
  have hz1 : 1 ≤ child t0.d x 0 := by unfold child; omega
  have hzM : child t0.d x 0 ≤ M := by
    have : t0.d * x ≤ t0.d * (m - 1) := Nat.mul_le_mul_left _ (by omega)
    unfold child; omega
  have hv := st.above _ hz1 hzM (by intro y hy; rw [hq y hy]; omega)
  have := st.vis _ hv hz1 hzM
  rw [parent_child hd0] at this
  exact st.final x this

theorem fillLoop_v3 {fixed : Bool} {t0 : Tree} {m M : Nat} (hd : 2 ≤ t0.d) (hs : Shape t0 m M)
    (hlow : t0.d * (m - 1) + 1 ≤ M) : ∀ (fuel : Nat) (s : Tree) (visited queue : List Nat),
    V3Inv t0 m M s visited queue → 1 ≤ fuel → (∀ x ∈ queue, x + 2 ≤ fuel) →
    ∃ s', fillUpLoop fixed fillMinFn fuel s visited queue = .ok s' ∧ V3Post t0 m s' := by
  intro fuel
  induction fuel with
  | zero => intro s visited queue _ h; omega
  | succ fuel ih =>
    intro s visited queue hinv _ hfuel
    cases queue with
    | nil =>
      exact ⟨s, fillUpLoop_nil _ _ _ _ _, v3_done hd hlow hinv (fun x hx => by cases hx)⟩
    | cons c rest =>
      by_cases hc0 : c = 0
      · subst hc0
        have hrest : rest = [] := by
          cases rest with
          | nil => rfl
          | cons y ys =>
            have := (List.pairwise_cons.mp hinv.sorted).1 y List.mem_cons_self
            omega
        subst hrest
        refine ⟨s, ?_, v3_done hd hlow hinv (fun x hx => by simpa using hx)⟩
        rw [fillUpLoop_cons]; simp
      · obtain ⟨ns, rfl⟩ : ∃ ns, s = { t0 with nodes := ns } := ⟨s.nodes, hinv.same.eq⟩
        obtain ⟨n, hn, hl, hv, hstep⟩ := v3_step hd hs hlow hc0 hinv
        obtain ⟨hinv', hlt⟩ := hstep _ rfl
        rw [fillUpLoop_step (s := { t0 with nodes := ns }) hc0 hl hn hv]
        have hcf := hfuel c List.mem_cons_self
        exact ih _ _ _ hinv' (by omega) (fun x hx => by have := hlt x hx; omega)

theorem v3_init {t0 : Tree} {m M : Nat} (hs : Shape t0 m M) (hnd : (PMap.keys t0.leaves).Nodup)
    (hnone : ∀ p n, t0.nodes.get? p = some n → n.minN = none) :
    V3Inv t0 m M t0 [] (sortDesc (PMap.keys t0.leaves)) := by
  have hmin : ∀ x, minAt t0 x = none := by
    intro x
    unfold minAt
    cases h : t0.nodes.get? x with
    | none => rfl
    | some n => exact hnone x n h
  have hq : ∀ x, x ∈ sortDesc (PMap.keys t0.leaves) ↔ (m ≤ x ∧ x ≤ M) := by
    intro x
    rw [mem_sortDesc hnd, PMap.mem_keys_iff]
    exact hs.leaves x
  refine ⟨SameF.refl _, fun _ => rfl, ?_, sortDesc_sorted hnd, ?_, ?_, ?_, ?_, ?_⟩
  · intro x; rw [hmin]; simp
  · intro x hx; exact ((hq x).mp hx).2
  · intro x _ v hv; cases hv
  · intro x hx; rw [hmin] at hx; cases hx
  · intro x hx hxm; have := ((hq x).mp hx).1; omega
  · intro _
    refine ⟨?_, ?_, ?_, ?_⟩
    · intro p _ hpM hall
      have := hall M ((hq M).mpr ⟨hs.mM, Nat.le_refl _⟩)
      omega
    · intro v hv; cases hv
    · intro p _ hpM hor
      rcases hor with h | h
      · exact Or.inl ((hq p).mpr ⟨h, hpM⟩)
      · rw [hmin] at h; cases h
    · intro x hx; rw [hmin] at hx; cases hx

theorem fillFuel_ge {t0 : Tree} {M : Nat} (h : M ∈ PMap.keys t0.leaves) : M + 2 ≤ t0.fillFuel := by
  unfold Tree.fillFuel
  have h1 : M ≤ listMax (PMap.keys t0.leaves ++ t0.missing ++ PMap.keys t0.nodes) :=
    le_listMax (List.mem_append_left _ (List.mem_append_left _ h))
  generalize listMax (PMap.keys t0.leaves ++ t0.missing ++ PMap.keys t0.nodes) = L at h1
  have h2 : 4 * (L + 2) ≤ 4 * (L + 2) * (t0.d + 2) := Nat.le_mul_of_pos_right _ (by omega)
  omega

/-- **`_fill_min_n_below` on a tree whose nodes carry no `min_n_below`**: it terminates without raising,
changes nothing but the `min_n_below` entries, never records 0, and (when no leaf has `sys.maxsize` hashes)
leaves at every internal node a proper bound for all leaves below it -/
theorem fillMinNBelow_v3 {fixed : Bool} {t0 : Tree} {m M : Nat} (hd : 2 ≤ t0.d) (hs : Shape t0 m M)
    (hlow : t0.d * (m - 1) + 1 ≤ M) (hnd : (PMap.keys t0.leaves).Nodup)
    (hnone : ∀ p n, t0.nodes.get? p = some n → n.minN = none) :
    ∃ t', fillMinNBelow fixed t0 = .ok t' ∧ V3Post t0 m t' := by
  unfold fillMinNBelow fillUp
  have hM : M ∈ PMap.keys t0.leaves := PMap.mem_keys_iff.mpr ((hs.leaves M).mpr ⟨hs.mM, Nat.le_refl _⟩)
  have hf := fillFuel_ge hM
  refine fillLoop_v3 hd hs hlow _ _ _ _ (v3_init hs hnd hnone) (by omega) ?_
  intro x hx
  have : x ≤ M := by
    rw [mem_sortDesc hnd, PMap.mem_keys_iff] at hx
    exact ((hs.leaves x).mp hx).2
  omega

/-! ### `load … 3 …` -/

/-- the internal nodes `_load_v3` builds: no `min_n_below` metadata -/
def loadNodes3 (im : Image) : PMap INode :=
  im.nodes.map (fun kv => (kv.1, (fun (sn : SavedNode) => (⟨none, some sn.data, true, none⟩ : INode)) kv.2))

/-- the tree `_load_v3` hands to `_fill_min_n_below` -/
def v3Tree (im : Image) (cm : Option Nat) : Tree :=
  { d := im.d, sizes := im.sizes, nodes := loadNodes3 im, leaves := im.leaves,
    missing := (List.range (listMax (0 :: (im.nodes.keys ++ im.leaves.keys)))).filter
      (fun i => !(PMap.has (loadNodes3 im) i) && !(PMap.has im.leaves i)),
    nextNode := 0, cacheMax := cm, cache := [] }

theorem load_v3_eq (fixed : Bool) (im : Image) (cm : Option Nat) :
    load fixed im 3 cm = if im.leaves.isEmpty then .error .value else fillMinNBelow fixed (v3Tree im cm) := rfl

theorem loadNodes3_get? (im : Image) (p : Nat) :
    PMap.get? (loadNodes3 im) p = (PMap.get? im.nodes p).map (fun sn => (⟨none, some sn.data, true, none⟩ : INode)) :=
  PMap.get?_map_val im.nodes (fun (sn : SavedNode) => (⟨none, some sn.data, true, none⟩ : INode)) p

theorem v3Tree_missing (im : Image) (cm : Option Nat) : (v3Tree im cm).missing = loadMissing im := by
  unfold v3Tree loadMissing
  simp only
  apply List.filter_congr
  intro i _
  have h1 : PMap.has (loadNodes3 im) i = PMap.has (loadNodes im) i := by
    unfold PMap.has
    rw [loadNodes3_get?]
    have : PMap.get? (loadNodes im) i = _ :=
      PMap.get?_map_val im.nodes (fun (sn : SavedNode) => (⟨none, some sn.data, true, sn.minN⟩ : INode)) i
    rw [this]
    simp
  rw [h1]

/-- what `save` + `_load_v3` makes of an internal node before `_fill_min_n_below` runs -/
def reloaded3 (sizes : List Nat) (n : INode) : INode := ⟨none, some (n.data sizes), true, none⟩

theorem v3Tree_save_get? (t : Tree) (cm : Option Nat) (p : Nat) :
    (v3Tree (save t (fun _ => false)) cm).nodes.get? p = (t.nodes.get? p).map (reloaded3 t.sizes) := by
  show PMap.get? (loadNodes3 _) p = _
  rw [loadNodes3_get?, save_nodes_get?]
  simp only [Bool.false_eq_true, ↓reduceIte, Option.map_map]
  rfl

theorem v3Tree_save_shape {t : Tree} {m M : Nat} (hs : Shape t m M) (cm : Option Nat) :
    Shape (v3Tree (save t (fun _ => false)) cm) m M ∧ (v3Tree (save t (fun _ => false)) cm).missing = [] := by
  have hmiss : (v3Tree (save t (fun _ => false)) cm).missing = [] := by
    rw [v3Tree_missing]; exact loadMissing_save_shape hs
  refine ⟨⟨hs.m1, hs.mM, hs.Mdm, ?_, hs.leaves, ?_⟩, hmiss⟩
  · intro p
    rw [v3Tree_save_get?, Option.isSome_map]
    exact hs.nodes p
  · intro a ha; rw [hmiss] at ha; cases ha

theorem strip_eq {a b : INode} (h : strip a = strip b) :
    a.mem = b.mem ∧ a.stored = b.stored ∧ a.hasStorage = b.hasStorage := by
  cases a; cases b
  simp only [strip, INode.mk.injEq] at h
  exact ⟨h.1, h.2.1, h.2.2.1⟩

/-- the nodes after the run, in terms of the saved tree -/
theorem v3_nodes_of_post {t : Tree} {cm : Option Nat} {m : Nat} {t' : Tree}
    (hp : V3Post (v3Tree (save t (fun _ => false)) cm) m t') (p : Nat) :
    (t'.nodes.get? p).isSome = (t.nodes.get? p).isSome ∧
    ∀ n', t'.nodes.get? p = some n' → ∃ n, t.nodes.get? p = some n ∧
      n'.mem = none ∧ n'.stored = some (n.data t.sizes) ∧ n'.hasStorage = true := by
  have h := hp.nodes p
  rw [v3Tree_save_get?] at h
  refine ⟨?_, ?_⟩
  · rw [isSome_of_strip h, Option.isSome_map]
  · intro n' hn'
    rw [hn'] at h
    cases hn : t.nodes.get? p with
    | none => rw [hn] at h; cases h
    | some n =>
      rw [hn] at h
      simp only [Option.map_some, Option.some.injEq] at h
      obtain ⟨h1, h2, h3⟩ := strip_eq h
      exact ⟨n, rfl, h1, h2, h3⟩

/-- **`save` + `load … 3 …` of an insertion-built tree**: the load terminates without raising (any cache bound,
either `_rebuild_node`), returns the same leaves and node positions with nothing missing, clean nodes, an empty
node cache, no recorded `min_n_below = 0`, and — provided no leaf has `sys.maxsize` or more hashes — `Cover` -/
theorem load_v3_spec {d : Nat} {sizes : List Nat} (hd : 2 ≤ d) (hsz : SizesOK sizes) {t : Tree}
    (hr : Reach d sizes t) (hne : t.leaves ≠ []) (cm : Option Nat) (fixed : Bool) :
    ∃ t', load fixed (save t (fun _ => false)) 3 cm = .ok t' ∧
      t'.leaves = t.leaves ∧ t'.d = t.d ∧ t'.sizes = t.sizes ∧ t'.missing = [] ∧ t'.cache = [] ∧ t'.cacheMax = cm ∧
      (∀ p, (t'.nodes.get? p).isSome = (t.nodes.get? p).isSome) ∧
      Base t' ∧ Clean t' ∧ MinPos t' ∧ LowInv t' ∧ (SmallLeaves t → Cover t') := by
  obtain ⟨⟨hb, hc, _⟩, hdd, _, _⟩ := reach_inv hd hsz hr
  have hnd := reach_leaves_nodup hd hsz hr
  rcases reach_lowInv hd hsz hr with he | ⟨m, M, hs, hlow⟩
  · exact absurd he.2.1 hne
  · obtain ⟨hs0, hm0⟩ := v3Tree_save_shape hs cm
    have hd2 : 2 ≤ (v3Tree (save t (fun _ => false)) cm).d := hb.d2
    have hnone : ∀ p n, (v3Tree (save t (fun _ => false)) cm).nodes.get? p = some n → n.minN = none := by
      intro p n hn
      rw [v3Tree_save_get?] at hn
      cases hq : t.nodes.get? p with
      | none => rw [hq] at hn; cases hn
      | some n0 => rw [hq] at hn; cases hn; rfl
    obtain ⟨t', hrun, hpost⟩ := fillMinNBelow_v3 (fixed := fixed) hd2 hs0 hlow hnd hnone
    have hnodes := v3_nodes_of_post hpost
    obtain ⟨e1, e2, e3, e4, _, e6, e7⟩ := hpost.same
    have hs' : Shape t' m M := by
      refine ⟨hs.m1, hs.mM, by rw [e3]; exact hs.Mdm, ?_, ?_, ?_⟩
      · intro p; rw [(hnodes p).1]; exact hs.nodes p
      · intro p; rw [e1]; exact hs.leaves p
      · intro a ha; rw [e2, hm0] at ha; cases ha
    refine ⟨t', ?_, e1, e3, e4, by rw [e2, hm0], e7, e6, fun p => (hnodes p).1, ?_, ?_, ?_, ?_, ?_⟩
    · rw [load_v3_eq, if_neg]
      · exact hrun
      · have : List.isEmpty t.leaves = false := not_isEmpty_of_get? ((hs.leaves m).mpr ⟨Nat.le_refl _, hs.mM⟩)
        show ¬ (List.isEmpty t.leaves = true)
        rw [this]; simp
    · -- Base
      refine ⟨by rw [e3]; exact hb.d2, by rw [e4]; exact hb.sizes, ?_⟩
      intro p n' hn'
      obtain ⟨n, hn, h1, h2, _⟩ := (hnodes p).2 n' hn'
      rw [e4]
      show DataOK t.sizes n'
      have := data_ok hb.sizes (hb.nodesOK p n hn)
      refine ⟨fun g hg => ?_, fun g hg => ?_⟩
      · rw [h1] at hg; cases hg
      · rw [h2] at hg; cases hg; exact this
    · -- Clean
      intro p n' hn' _
      obtain ⟨n, _, h1, _⟩ := (hnodes p).2 n' hn'
      exact h1
    · -- MinPos
      intro p n' hn'
      have := hpost.pos p
      rw [minAt_of_get hn'] at this
      exact this
    · exact Or.inr ⟨m, M, hs', by rw [e3]; exact hlow⟩
    · -- Cover
      intro hsm p l hl a ha
      rw [e1] at hl
      rw [e3] at ha
      have ha' : a ∈ ancestors t.d p := ha
      obtain ⟨h1, na, hna, hh⟩ := hs.cover_some hc hl ha'
      have ham : a < m := (hs.nodes a).mp (by rw [hna]; rfl)
      obtain ⟨v, hv, _, hvle⟩ := hpost.final hsm a ham
      refine ⟨by rw [e1]; exact h1, ?_⟩
      obtain ⟨n', hn'⟩ : ∃ n', t'.nodes.get? a = some n' :=
        Option.isSome_iff_exists.mp (by rw [(hnodes a).1, hna]; rfl)
      rw [hn']
      simp only
      obtain ⟨n, hn, h1', h2', _⟩ := (hnodes a).2 n' hn'
      have : n = na := by rw [hna] at hn; cases hn; rfl
      subst this
      rw [minAt_of_get hn'] at hv
      refine ⟨?_, v, hv, hvle p l hl ha'⟩
      intro x hx
      have hdata : n'.data t'.sizes = n.data t.sizes := by
        show (match n'.mem with
          | some g => g
          | none => match n'.stored with
            | some g => g
            | none => NG.new t'.sizes 1) = _
        rw [h1', h2']
      rw [hdata]
      exact hh.1 x hx

/-- **(c) the version-3 load of a fully saved insertion-built tree never raises** and the fuel of the model
suffices: any cache bound, either `_rebuild_node` (it is never invoked), no hypothesis on the leaf sizes -/
theorem load_v3_total {d : Nat} {sizes : List Nat} (hd : 2 ≤ d) (hsz : SizesOK sizes) {t : Tree}
    (hr : Reach d sizes t) (hne : t.leaves ≠ []) (cm : Option Nat) (fixed : Bool) :
    ∃ t', load fixed (save t (fun _ => false)) 3 cm = .ok t' := by
  obtain ⟨t', h, _⟩ := load_v3_spec hd hsz hr hne cm fixed
  exact ⟨t', h⟩

theorem load_v3_nonempty {fixed : Bool} {t t' : Tree} {omitted : Nat → Bool} {cm : Option Nat}
    (h : load fixed (save t omitted) 3 cm = .ok t') : t.leaves ≠ [] := by
  intro he
  rw [load_v3_eq] at h
  have : (save t omitted).leaves = [] := he
  rw [this] at h
  simp at h

/-- **(a)+(b) `_fill_min_n_below` establishes `Cover` after a version-3 load** of a fully saved insertion-built
tree (any cache bound, either `_rebuild_node`).  Added hypothesis: `SmallLeaves t` (no signature has `sys.maxsize`
or more hashes); it is needed, see `cover_after_load_v3_needs_small`. -/
theorem cover_after_load_v3 {d : Nat} {sizes : List Nat} (hd : 2 ≤ d) (hsz : SizesOK sizes) {t t' : Tree}
    (hr : Reach d sizes t) (hsm : SmallLeaves t) (cm : Option Nat) {fixed : Bool}
    (h : load fixed (save t (fun _ => false)) 3 cm = .ok t') :
    Base t' ∧ Cover t' ∧ t'.leaves = t.leaves ∧ t'.d = t.d ∧ t'.sizes = t.sizes ∧ t'.missing = [] ∧
    (∀ p, (t'.nodes.get? p).isSome = (t.nodes.get? p).isSome) := by
  obtain ⟨t2, h2, hl, hdd, hss, hm, _, _, hiso, hb, _, _, _, hc⟩ :=
    load_v3_spec hd hsz hr (load_v3_nonempty h) cm fixed
  rw [h2] at h; cases h
  exact ⟨hb, hc hsm, hl, hdd, hss, hm, hiso⟩

/-- **(e) the loaded tree is searchable** (either `unload`) -/
theorem searchable_after_load_v3 {d : Nat} {sizes : List Nat} (hd : 2 ≤ d) (hsz : SizesOK sizes) {t t' : Tree}
    (hr : Reach d sizes t) (hsm : SmallLeaves t) (cm : Option Nat) {fixed : Bool}
    (h : load fixed (save t (fun _ => false)) 3 cm = .ok t') (keep : Bool) :
    Searchable keep t' ∧ t'.leaves = t.leaves := by
  obtain ⟨t2, h2, hl, _, _, hm, hcache, _, _, hb, hcl, hmp, hlow, hc⟩ :=
    load_v3_spec hd hsz hr (load_v3_nonempty h) cm fixed
  rw [h2] at h; cases h
  refine ⟨⟨hb, hc hsm, CleanV.of_clean hcl, hmp, minSome_of_lowInv hb (hc hsm) hlow, ?_,
    allPresent_of_nomissing hm⟩, hl⟩
  intro c hc'; rw [hcache] at hc'; cases hc'

/-- **(e) searching a version-3-loaded tree**: never raises and returns exactly the linear scan over the stored
signatures (any cache bound, any query, either `_rebuild_node`, either `unload`), and can be repeated -/
theorem search_after_load_v3 {d : Nat} {sizes : List Nat} (hd : 2 ≤ d) (hsz : SizesOK sizes) {t t' : Tree}
    (hr : Reach d sizes t) (hsm : SmallLeaves t) (cm : Option Nat) {fixed : Bool}
    (h : load fixed (save t (fun _ => false)) 3 cm = .ok t') (fixed' keep : Bool) (q : Query) :
    Searchable keep (search fixed' keep t' q).1 ∧ (search fixed' keep t' q).1.leaves = t.leaves ∧
    ∃ ls, (search fixed' keep t' q).2 = .ok ls ∧
      ∀ l, l ∈ ls ↔ (leafPasses q l = true ∧ ∃ p, t.leaves.get? p = some l) := by
  obtain ⟨hs, hl⟩ := searchable_after_load_v3 hd hsz hr hsm cm h keep
  obtain ⟨h1, h2, ls, h3, h4⟩ := search_exact (fixed := fixed') hs q
  refine ⟨h1, h2.trans hl, ls, h3, ?_⟩
  intro l
  rw [h4 l, hl]

/-! ### `SmallLeaves` is needed

`fill_min_n_below` reports a change by comparing the new value with the old one, where "no value yet" reads as
`sys.maxsize`.  If every signature below a node had `sys.maxsize` hashes the first computed value would equal
that default, the node would not be re-queued, and its parent — when it has no leaf child of its own — would never
be processed.  (Unreachable in CPython, where `len` cannot reach `sys.maxsize`; the model's lists are unbounded.) -/

/-- every leaf has at least `sys.maxsize` hashes -/
def AllGiant (t : Tree) : Prop := ∀ p l, t.leaves.get? p = some l → maxsize ≤ l.hashes.length

theorem fillUpLoop_skip {fixed : Bool} {fn : Tree → Nat → INode → INode × Bool} {fuel : Nat} {s : Tree}
    {visited rest : List Nat} {c : Nat} {n : INode} (hc : c ≠ 0) (hl : s.leaves.get? (parent s.d c) = none)
    (hn : s.nodes.get? (parent s.d c) = some n) (hv : visited.contains c = true) :
    fillUpLoop fixed fn (fuel + 1) s visited (c :: rest) = fillUpLoop fixed fn fuel s visited rest := by
  rw [fillUpLoop_cons, if_neg hc]
  have hat : s.at (parent s.d c) = .node n := at_node hl hn
  have hfs : fillStep fixed s (parent s.d c) = .ok (some (s, false)) := by
    unfold fillStep; rw [hat]; rfl
  rw [hfs]
  simp only [hv, ↓reduceIte]

theorem removeFirst_subset {x y : Nat} : ∀ {q : List Nat}, y ∈ removeFirst x q → y ∈ q := by
  intro q
  induction q with
  | nil => intro h; cases h
  | cons z zs ih =>
    intro h
    unfold removeFirst at h
    split at h
    · exact List.mem_cons_of_mem _ h
    · rcases List.mem_cons.mp h with h | h
      · rw [h]; exact List.mem_cons_self
      · exact List.mem_cons_of_mem _ (ih h)

theorem foldl_removeFirst_subset {y : Nat} : ∀ (sibs : List Nat) {q : List Nat},
    y ∈ sibs.foldl (fun q x => removeFirst x q) q → y ∈ q := by
  intro sibs
  induction sibs with
  | nil => intro q h; exact h
  | cons z zs ih => intro q h; rw [List.foldl_cons] at h; exact removeFirst_subset (ih h)

theorem foldl_fixed {α : Type} (f : Nat → α → Nat) (x : Nat) (hf : ∀ a, f x a = x) : ∀ (l : List α), l.foldl f x = x := by
  intro l
  induction l with
  | nil => rfl
  | cons a l ih => rw [List.foldl_cons, hf, ih]

structure GInv (t0 : Tree) (m M : Nat) (s : Tree) (queue : List Nat) : Prop where
  same : SameF t0 s
  iso : ∀ p, (s.nodes.get? p).isSome = (t0.nodes.get? p).isSome
  qleaf : ∀ x ∈ queue, m ≤ x ∧ x ≤ M
  vals : ∀ x v, minAt s x = some v → v = maxsize
  inner : ∀ x, (∀ j, j < t0.d → ¬ (m ≤ child t0.d x j ∧ child t0.d x j ≤ M)) → minAt s x = none

/-- with giant leaves only the parents of leaves are ever processed: nothing is re-queued -/
theorem giant_loop {fixed : Bool} {t0 : Tree} {m M : Nat} (hd : 2 ≤ t0.d) (hs : Shape t0 m M) (hg : AllGiant t0) :
    ∀ (fuel : Nat) (s : Tree) (visited queue : List Nat) (t' : Tree), GInv t0 m M s queue →
    fillUpLoop fixed fillMinFn fuel s visited queue = .ok t' → GInv t0 m M t' [] := by
  intro fuel
  induction fuel with
  | zero => intro s visited queue t' _ h; rw [fillUpLoop_zero] at h; cases h
  | succ fuel ih =>
    intro s visited queue t' hinv h
    cases queue with
    | nil => rw [fillUpLoop_nil] at h; cases h; exact hinv
    | cons c rest =>
      have hd0 : 0 < t0.d := by omega
      obtain ⟨hcm, hcM⟩ := hinv.qleaf c List.mem_cons_self
      have hc0 : c ≠ 0 := by have := hs.m1; omega
      have hc1 : 0 < c := Nat.pos_of_ne_zero hc0
      obtain ⟨ns, rfl⟩ : ∃ ns, s = { t0 with nodes := ns } := ⟨s.nodes, hinv.same.eq⟩
      have hpp : parent t0.d c < m := parent_lt_of_le_mul hd0 hc1 (Nat.le_trans hcM hs.Mdm)
      obtain ⟨n, hn⟩ : ∃ n, ns.get? (parent t0.d c) = some n :=
        Option.isSome_iff_exists.mp (by rw [hinv.iso]; exact (hs.nodes _).mpr hpp)
      have hl : t0.leaves.get? (parent t0.d c) = none := (hs.node_at hpp).2
      have hrestleaf : ∀ x ∈ rest, m ≤ x ∧ x ≤ M := fun x hx => hinv.qleaf x (List.mem_cons_of_mem _ hx)
      cases hv : visited.contains c with
      | true =>
        rw [fillUpLoop_skip (s := { t0 with nodes := ns }) hc0 hl hn hv] at h
        exact ih _ _ _ _ ⟨hinv.same, hinv.iso, hrestleaf, hinv.vals, hinv.inner⟩ h
      | false =>
        rw [fillUpLoop_step (s := { t0 with nodes := ns }) hc0 hl hn hv] at h
        -- the value computed is `maxsize` again
        have horig : n.minN.getD maxsize = maxsize := by
          cases hm : n.minN with
          | none => rfl
          | some v =>
            have := hinv.vals (parent t0.d c) v (by rw [minAt_of_get (s := { t0 with nodes := ns }) hn]; exact hm)
            rw [this]; rfl
        have hfold : minFold { t0 with nodes := ns } (parent t0.d c) maxsize = maxsize := by
          unfold minFold
          apply foldl_fixed
          intro i
          split
          · rename_i l hat
            have hl' : t0.leaves.get? (child t0.d (parent t0.d c) i) = some l := by
              unfold Tree.at at hat
              split at hat
              · rename_i l' hl'; cases hat; exact hl'
              · split at hat <;> cases hat
            have := hg _ l hl'
            omega
          · rename_i cn hat
            obtain ⟨_, hcn⟩ := at_node_inv hat
            cases hm : cn.minN with
            | none => simp
            | some v =>
              have := hinv.vals _ v (by rw [minAt_of_get hcn]; exact hm)
              rw [this]; simp
          · rfl
        have hclamp : clamp maxsize = maxsize := by
          unfold clamp; rw [if_neg]; have := one_lt_maxsize; omega
        have hfn : fillMinFn { t0 with nodes := ns } (parent t0.d c) n =
            ({ n with minN := some maxsize }, false) := by
          rw [fillMinFn_eq, horig, hfold, hclamp]; simp
        rw [hfn] at h
        simp only [Bool.false_eq_true, ↓reduceIte] at h
        refine ih { t0 with nodes := ns.set (parent t0.d c) { n with minN := some maxsize } } _ _ _
          ⟨⟨rfl, rfl, rfl, rfl, rfl, rfl, rfl⟩, ?_, ?_, ?_, ?_⟩ h
        · intro p
          show (PMap.get? (PMap.set ns _ _) p).isSome = _
          rw [PMap.get?_set]
          split
          · rename_i hp; subst hp
            rw [← hinv.iso]; show _ = (PMap.get? ns _).isSome; rw [hn]; rfl
          · exact hinv.iso p
        · intro x hx
          exact hrestleaf x (foldl_removeFirst_subset _ hx)
        · intro x v hx
          rw [minAt_set] at hx
          split at hx
          · cases hx; rfl
          · exact hinv.vals x v hx
        · intro x hx
          rw [minAt_set]
          split
          · rename_i hxp; subst hxp
            exfalso
            obtain ⟨hb1, hb2⟩ := child_block (d := t0.d) hd0 hc1
            apply hx (c - (t0.d * parent t0.d c + 1)) (by omega)
            have e : child t0.d (parent t0.d c) (c - (t0.d * parent t0.d c + 1)) = c := by unfold child; omega
            rw [e]; exact ⟨hcm, hcM⟩
          · exact hinv.inner x hx

/-- **with giant leaves the version-3 load leaves every internal node without a leaf child unprocessed** -/
theorem v3_giant_inner {d : Nat} {sizes : List Nat} (hd : 2 ≤ d) (hsz : SizesOK sizes) {t t' : Tree}
    (hr : Reach d sizes t) (hg : AllGiant t) (cm : Option Nat) {fixed : Bool}
    (h : load fixed (save t (fun _ => false)) 3 cm = .ok t') {m M : Nat} (hs : Shape t m M) :
    ∀ x, (∀ j, j < t.d → ¬ (m ≤ child t.d x j ∧ child t.d x j ≤ M)) → minAt t' x = none := by
  obtain ⟨⟨hb, _, _⟩, _⟩ := reach_inv hd hsz hr
  have hnd := reach_leaves_nodup hd hsz hr
  obtain ⟨hs0, _⟩ := v3Tree_save_shape hs cm
  rw [load_v3_eq] at h
  split at h
  · cases h
  · have hq : ∀ x, x ∈ sortDesc (PMap.keys t.leaves) ↔ (m ≤ x ∧ x ≤ M) := by
      intro x
      rw [mem_sortDesc hnd, PMap.mem_keys_iff]
      exact hs.leaves x
    have hinit : GInv (v3Tree (save t (fun _ => false)) cm) m M (v3Tree (save t (fun _ => false)) cm)
        (sortDesc (PMap.keys t.leaves)) := by
      have hmin : ∀ x, minAt (v3Tree (save t (fun _ => false)) cm) x = none := by
        intro x
        unfold minAt
        rw [v3Tree_save_get?]
        cases t.nodes.get? x <;> rfl
      refine ⟨SameF.refl _, fun _ => rfl, fun x hx => (hq x).mp hx, ?_, fun x _ => hmin x⟩
      intro x v hx; rw [hmin] at hx; cases hx
    exact (giant_loop (fixed := fixed) (t0 := v3Tree (save t (fun _ => false)) cm) hb.d2 hs0 hg _ _ _ _ _ hinit h).inner

/-- a signature with `sys.maxsize` hashes -/
def giantLeaf : Leaf := ⟨0, List.replicate maxsize 0⟩

theorem giantLeaf_len : giantLeaf.hashes.length = maxsize := by
  show (List.replicate maxsize 0).length = maxsize
  exact List.length_replicate

def AllG (t : Tree) : Prop := ∀ p l, t.leaves.get? p = some l → l = giantLeaf

theorem sizesOK3 : SizesOK [3] := by intro s hs; simp at hs; omega

theorem giant_ins_node {t : Tree} {m M : Nat} (hr : Reach 2 [3] t) (hs : Shape t m M) (hg : AllG t)
    (hP : parent 2 (M + 1) < m) : ∃ t', Reach 2 [3] t' ∧ Shape t' m (M + 1) ∧ AllG t' := by
  obtain ⟨⟨hb, hc, hsh⟩, hd2, _, _⟩ := reach_inv (by decide) sizesOK3 hr
  obtain ⟨t', h1, _, _, hs', _, _, _, hl'⟩ := insert_under_node (fixed := true) hb hc hs giantLeaf (by rw [hd2]; exact hP)
  refine ⟨t', Reach.ins true false giantLeaf hr (by rw [addNode_eq_core hsh]; exact h1), hs', ?_⟩
  intro p l hl
  rw [hl', PMap.get?_set] at hl
  split at hl
  · cases hl; rfl
  · exact hg p l hl

theorem giant_ins_leaf {t : Tree} {m M : Nat} (hr : Reach 2 [3] t) (hs : Shape t m M) (hg : AllG t)
    (hP : parent 2 (M + 1) = m) : ∃ t', Reach 2 [3] t' ∧ Shape t' (m + 1) (M + 2) ∧ AllG t' := by
  obtain ⟨⟨hb, hc, hsh⟩, hd2, _, _⟩ := reach_inv (by decide) sizesOK3 hr
  obtain ⟨t', l0, hl0, h1, _, _, hs', _, _, _, hl'⟩ :=
    insert_under_leaf (fixed := true) hb hc hs giantLeaf (by rw [hd2]; exact hP)
  refine ⟨t', Reach.ins true false giantLeaf hr (by rw [addNode_eq_core hsh]; exact h1), hs', ?_⟩
  intro p l hl
  rw [hl', PMap.get?_erase, PMap.get?_set, PMap.get?_set] at hl
  split at hl
  · cases hl
  · split at hl
    · cases hl; rfl
    · split at hl
      · cases hl; exact hg m l0 hl0
      · exact hg p l hl

/-- four giant signatures inserted into an empty binary tree: internal nodes 0, 1, 2, leaves 3 … 6 -/
theorem giant_tree : ∃ t, Reach 2 [3] t ∧ Shape t 3 6 ∧ AllG t := by
  have hr0 : Reach 2 [3] (Tree.new 2 [3]) := Reach.new
  obtain ⟨t1, h1, _, _, hs1, _, _, _, hl1⟩ :=
    insert_first (fixed := true) (t := Tree.new 2 [3]) (by decide) sizesOK3 ⟨rfl, rfl, rfl⟩ giantLeaf
  have hr1 : Reach 2 [3] t1 :=
    Reach.ins true false giantLeaf hr0 (by rw [addNode_eq_core (Or.inl ⟨rfl, rfl, rfl⟩)]; exact h1)
  have hg1 : AllG t1 := by
    intro p l hl
    rw [hl1, PMap.get?_set, PMap.get?_nil] at hl
    split at hl
    · cases hl; rfl
    · cases hl
  obtain ⟨t2, hr2, hs2, hg2⟩ := giant_ins_node hr1 hs1 hg1 (by decide)
  obtain ⟨t3, hr3, hs3, hg3⟩ := giant_ins_leaf hr2 hs2 hg2 (by decide)
  obtain ⟨t4, hr4, hs4, hg4⟩ := giant_ins_leaf hr3 hs3 hg3 (by decide)
  exact ⟨t4, hr4, hs4, hg4⟩

/-- **`cover_after_load_v3` is false without `SmallLeaves`**: four signatures of `sys.maxsize` hashes each,
`d = 2`; after `save` + `load … 3 …` (either `_rebuild_node`, any cache bound) the load succeeds but the root
carries no `min_n_below`, so `Cover` fails (and a search would raise "no min_n_below on this tree") -/
theorem cover_after_load_v3_needs_small :
    ∃ t : Tree, Reach 2 [3] t ∧ ¬ SmallLeaves t ∧ ∀ (fixed : Bool) (cm : Option Nat),
      ∃ t', load fixed (save t (fun _ => false)) 3 cm = .ok t' ∧ ¬ Cover t' ∧ minAt t' 0 = none := by
  obtain ⟨t, hr, hs, hg⟩ := giant_tree
  obtain ⟨_, hd2, _, _⟩ := reach_inv (by decide) sizesOK3 hr
  obtain ⟨⟨l3, hl3⟩, _⟩ := hs.leaf_at (p := 3) (by decide) (by decide)
  have e3 : l3 = giantLeaf := hg 3 l3 hl3
  subst e3
  have hne : t.leaves ≠ [] := by
    intro he; rw [he] at hl3; cases hl3
  refine ⟨t, hr, ?_, ?_⟩
  · intro hsm
    have := hsm 3 giantLeaf hl3
    rw [giantLeaf_len] at this
    exact Nat.lt_irrefl _ this
  · intro fixed cm
    obtain ⟨t', h, hl, hdd, _, hm, _, _, hiso, _⟩ := load_v3_spec (by decide) sizesOK3 hr hne cm fixed
    have hgiant : AllGiant t := by
      intro p l hpl
      rw [hg p l hpl, giantLeaf_len]
      exact Nat.le_refl _
    have hroot : minAt t' 0 = none := by
      apply v3_giant_inner (by decide) sizesOK3 hr hgiant cm h hs
      intro j hj
      rw [hd2] at hj ⊢
      unfold child; omega
    refine ⟨t', h, ?_, hroot⟩
    intro hc
    have ha : 0 ∈ ancestors t'.d 3 := by rw [hdd, hd2]; decide
    obtain ⟨_, h2⟩ := hc 3 giantLeaf (by rw [hl]; exact hl3) 0 ha
    obtain ⟨n0, hn0⟩ : ∃ n0, t'.nodes.get? 0 = some n0 :=
      Option.isSome_iff_exists.mp (by rw [hiso]; exact (hs.nodes 0).mpr (by decide))
    rw [hn0] at h2
    obtain ⟨_, v, hv, _⟩ := h2
    rw [minAt_of_get hn0, hv] at hroot
    cases hroot

end Sm.SBT
