/-
Association lists `(hash, abundance)` with strictly ascending keys:
the count function `cnt`, its behaviour under the positional edits made at
`lowerBound`, extensionality, and the two-cursor loops `mergeP`, `interL`,
`inflateJoin`, `sortPairs`.
-/
import SmVerif.Lemmas.ListLemmas

namespace Sm

/-- count carried for key `x` by an association list (0 = absent) -/
def cnt (ps : List (Nat × Nat)) (x : Nat) : Nat := (ps.lookup x).getD 0

@[simp] theorem cnt_nil (x : Nat) : cnt [] x = 0 := rfl

theorem cnt_cons (k v : Nat) (ps : List (Nat × Nat)) (x : Nat) :
    cnt ((k, v) :: ps) x = if x = k then v else cnt ps x := by
  unfold cnt
  rw [List.lookup_cons]
  by_cases h : x = k
  · simp [h]
  · have : (x == k) = false := by simp [h]
    simp [this, h]

theorem cnt_cons' (q : Nat × Nat) (ps : List (Nat × Nat)) (x : Nat) :
    cnt (q :: ps) x = if x = q.1 then q.2 else cnt ps x := cnt_cons q.1 q.2 ps x

theorem cnt_eq_zero_of_not_mem {ps : List (Nat × Nat)} {x : Nat} (h : x ∉ ps.map Prod.fst) :
    cnt ps x = 0 := by
  induction ps with
  | nil => rfl
  | cons q ps ih =>
    simp only [List.map_cons, List.mem_cons, not_or] at h
    rw [cnt_cons', if_neg h.1, ih h.2]

theorem cnt_pos_iff {ps : List (Nat × Nat)} (hpos : ∀ q ∈ ps, 0 < q.2) (x : Nat) :
    0 < cnt ps x ↔ x ∈ ps.map Prod.fst := by
  induction ps with
  | nil => simp
  | cons q ps ih =>
    rw [cnt_cons']
    have hq := hpos q (by simp)
    have ih' := ih (fun r hr => hpos r (List.mem_cons_of_mem _ hr))
    by_cases h : x = q.1
    · simp [h, hq]
    · rw [if_neg h, ih']; simp [h]

theorem cnt_eq_zero_of_lt {ps : List (Nat × Nat)} {x : Nat} (h : ∀ k ∈ ps.map Prod.fst, x < k) :
    cnt ps x = 0 :=
  cnt_eq_zero_of_not_mem (fun hm => Nat.lt_irrefl _ (h x hm))

theorem cnt_ones (l : List Nat) (x : Nat) : cnt (ones l) x = if x ∈ l then 1 else 0 := by
  induction l with
  | nil => simp [ones]
  | cons y ys ih =>
    have : ones (y :: ys) = (y, 1) :: ones ys := rfl
    rw [this, cnt_cons, ih]
    by_cases h : x = y <;> simp [h]

/-! ### edits at `lowerBound` -/

theorem cnt_insertIdx_lowerBound (ps : List (Nat × Nat)) (h a x : Nat) :
    cnt (ps.insertIdx (lowerBound (ps.map Prod.fst) h) (h, a)) x =
      if x = h then a else cnt ps x := by
  induction ps with
  | nil => simp [cnt_cons]
  | cons q ps ih =>
    by_cases hq : q.1 < h
    · rw [List.map_cons, lowerBound_cons_lt hq, List.insertIdx_succ_cons, cnt_cons', cnt_cons', ih]
      by_cases hx : x = h
      · have : x ≠ q.1 := by omega
        simp [hx]
        intro e; omega
      · simp [hx]
    · rw [List.map_cons, lowerBound_cons_ge hq, List.insertIdx_zero, cnt_cons]

theorem cnt_modify_lowerBound (ps : List (Nat × Nat)) (h x : Nat) (g : Nat → Nat)
    (hf : (ps.map Prod.fst)[lowerBound (ps.map Prod.fst) h]? = some h) :
    cnt (ps.modify (lowerBound (ps.map Prod.fst) h) (fun q => (q.1, g q.2))) x =
      if x = h then g (cnt ps h) else cnt ps x := by
  induction ps with
  | nil => simp at hf
  | cons q ps ih =>
    by_cases hq : q.1 < h
    · rw [List.map_cons, lowerBound_cons_lt hq] at hf ⊢
      simp only [List.getElem?_cons_succ] at hf
      rw [List.modify_succ_cons, cnt_cons', cnt_cons', cnt_cons', ih hf]
      by_cases hx : x = h
      · have : x ≠ q.1 := by omega
        have : h ≠ q.1 := by omega
        simp [*]
      · simp [hx]
    · rw [List.map_cons, lowerBound_cons_ge hq] at hf ⊢
      simp only [List.getElem?_cons_zero, Option.some.injEq] at hf
      rw [List.modify_zero_cons, cnt_cons, cnt_cons', cnt_cons', hf]
      by_cases hx : x = h <;> simp [hx]

theorem cnt_eraseIdx_lowerBound (ps : List (Nat × Nat)) (h x : Nat)
    (hs : Sorted (ps.map Prod.fst))
    (hf : (ps.map Prod.fst)[lowerBound (ps.map Prod.fst) h]? = some h) :
    cnt (ps.eraseIdx (lowerBound (ps.map Prod.fst) h)) x = if x = h then 0 else cnt ps x := by
  induction ps with
  | nil => simp at hf
  | cons q ps ih =>
    by_cases hq : q.1 < h
    · rw [List.map_cons, lowerBound_cons_lt hq] at hf ⊢
      simp only [List.getElem?_cons_succ] at hf
      rw [List.eraseIdx_cons_succ, cnt_cons', cnt_cons', ih hs.tail hf]
      by_cases hx : x = h
      · have : x ≠ q.1 := by omega
        have : h ≠ q.1 := by omega
        simp [*]
      · simp [hx]
    · rw [List.map_cons, lowerBound_cons_ge hq] at hf ⊢
      simp only [List.getElem?_cons_zero, Option.some.injEq] at hf
      rw [List.eraseIdx_cons_zero, cnt_cons', hf]
      by_cases hx : x = h
      · simp only [hx, if_true]
        apply cnt_eq_zero_of_lt
        intro k hk
        have := hs.head_lt k hk
        omega
      · simp [hx]

theorem cnt_eq_zero_of_not_found {ps : List (Nat × Nat)} {h : Nat}
    (hs : Sorted (ps.map Prod.fst))
    (hnf : (ps.map Prod.fst)[lowerBound (ps.map Prod.fst) h]? ≠ some h) : cnt ps h = 0 :=
  cnt_eq_zero_of_not_mem (fun hm => hnf ((getElem?_lowerBound_iff_mem hs h).2 hm))

/-! ### extensionality -/

theorem pairs_ext {ps qs : List (Nat × Nat)}
    (hp : Sorted (ps.map Prod.fst)) (hq : Sorted (qs.map Prod.fst))
    (hpp : ∀ q ∈ ps, 0 < q.2) (hqp : ∀ q ∈ qs, 0 < q.2)
    (h : ∀ x, cnt ps x = cnt qs x) : ps = qs := by
  induction ps generalizing qs with
  | nil =>
    cases qs with
    | nil => rfl
    | cons r qs =>
      have h1 := h r.1
      rw [cnt_cons', if_pos rfl, cnt_nil] at h1
      have := hqp r (by simp)
      omega
  | cons p ps ih =>
    cases qs with
    | nil =>
      have h1 := h p.1
      rw [cnt_cons', if_pos rfl, cnt_nil] at h1
      have := hpp p (by simp)
      omega
    | cons r qs =>
      have hp0 := hpp p (by simp)
      have hr0 := hqp r (by simp)
      have hpz : cnt ps p.1 = 0 := cnt_eq_zero_of_lt (hp.head_lt)
      have hrz : cnt qs r.1 = 0 := cnt_eq_zero_of_lt (hq.head_lt)
      have hkey : p.1 = r.1 := by
        rcases Nat.lt_trichotomy p.1 r.1 with hlt | heq | hgt
        · exfalso
          have h1 := h p.1
          rw [cnt_cons', cnt_cons', if_pos rfl, if_neg (by omega)] at h1
          have : cnt qs p.1 = 0 := cnt_eq_zero_of_lt (fun k hk => by
            have := hq.head_lt k hk; simp only [List.map_cons] at *; omega)
          omega
        · exact heq
        · exfalso
          have h1 := h r.1
          rw [cnt_cons', cnt_cons', if_pos rfl, if_neg (by omega)] at h1
          have : cnt ps r.1 = 0 := cnt_eq_zero_of_lt (fun k hk => by
            have := hp.head_lt k hk; simp only [List.map_cons] at *; omega)
          omega
      have hval : p.2 = r.2 := by
        have h1 := h p.1
        rw [cnt_cons', cnt_cons', if_pos rfl, if_pos hkey] at h1
        exact h1
      have hpr : p = r := Prod.ext hkey hval
      subst hpr
      congr 1
      apply ih hp.tail hq.tail (fun q hq' => hpp q (List.mem_cons_of_mem _ hq'))
        (fun q hq' => hqp q (List.mem_cons_of_mem _ hq'))
      intro x
      by_cases hx : x = p.1
      · rw [hx, hpz, hrz]
      · have h1 := h x
        rw [cnt_cons', cnt_cons', if_neg hx, if_neg hx] at h1
        exact h1

/-! ### double induction for the two-cursor loops -/

theorem two_cursor_induct {α β} {motive : List α → List β → Prop}
    (nl : ∀ ys, motive [] ys) (nr : ∀ x xs, motive (x :: xs) [])
    (step : ∀ x xs y ys, motive (x :: xs) ys → motive xs ys → motive xs (y :: ys) →
      motive (x :: xs) (y :: ys)) : ∀ xs ys, motive xs ys := by
  intro xs
  induction xs with
  | nil => exact nl
  | cons x xs ihx =>
    intro ys
    induction ys with
    | nil => exact nr x xs
    | cons y ys ihy => exact step x xs y ys ihy (ihx ys) (ihx (y :: ys))

/-! ### `mergeP` -/

@[simp] theorem mergeP_nil_left (ys : List (Nat × Nat)) : mergeP [] ys = ys := rfl

@[simp] theorem mergeP_nil_right (xs : List (Nat × Nat)) : mergeP xs [] = xs := by
  cases xs <;> rfl

theorem mergeP_cons_cons (x : Nat × Nat) (xs : List (Nat × Nat)) (y : Nat × Nat)
    (ys : List (Nat × Nat)) :
    mergeP (x :: xs) (y :: ys) =
      if y.1 < x.1 then y :: mergeP (x :: xs) ys
      else if y.1 = x.1 then (x.1, y.2 + x.2) :: mergeP xs ys
      else x :: mergeP xs (y :: ys) := rfl

theorem mem_keys_mergeP (k : Nat) : ∀ (xs ys : List (Nat × Nat)),
    k ∈ (mergeP xs ys).map Prod.fst ↔ k ∈ xs.map Prod.fst ∨ k ∈ ys.map Prod.fst := by
  apply two_cursor_induct
  · intro ys; simp
  · intro x xs; simp
  · intro x xs y ys ih1 ih2 ih3
    rw [mergeP_cons_cons]
    split
    · simp only [List.map_cons, List.mem_cons] at ih1 ⊢
      rw [ih1]
      grind
    · split
      · rename_i _ he
        simp only [List.map_cons, List.mem_cons] at ih2 ⊢
        rw [ih2, he]
        grind
      · simp only [List.map_cons, List.mem_cons] at ih3 ⊢
        rw [ih3]
        grind

theorem sorted_keys_mergeP : ∀ (xs ys : List (Nat × Nat)),
    Sorted (xs.map Prod.fst) → Sorted (ys.map Prod.fst) → Sorted ((mergeP xs ys).map Prod.fst) := by
  apply two_cursor_induct
  · intro ys _ h; simpa using h
  · intro x xs h _; simpa using h
  · intro x xs y ys ih1 ih2 ih3 hx hy
    have hxt : Sorted (xs.map Prod.fst) := Sorted.tail hx
    have hyt : Sorted (ys.map Prod.fst) := Sorted.tail hy
    have hxh := Sorted.head_lt hx
    have hyh := Sorted.head_lt hy
    rw [mergeP_cons_cons]
    split
    · rename_i hlt
      rw [List.map_cons]
      refine List.pairwise_cons.2 ⟨?_, ih1 hx hyt⟩
      intro k hk
      rcases (mem_keys_mergeP k _ _).1 hk with hk | hk
      · rw [List.map_cons] at hk
        rcases List.mem_cons.1 hk with rfl | hk
        · exact hlt
        · have := hxh k hk; omega
      · exact hyh k hk
    · split
      · rename_i _ he
        rw [List.map_cons]
        refine List.pairwise_cons.2 ⟨?_, ih2 hxt hyt⟩
        intro k hk
        rcases (mem_keys_mergeP k _ _).1 hk with hk | hk
        · exact hxh k hk
        · have := hyh k hk; omega
      · rename_i hnlt hne
        rw [List.map_cons]
        refine List.pairwise_cons.2 ⟨?_, ih3 hxt hy⟩
        intro k hk
        rcases (mem_keys_mergeP k _ _).1 hk with hk | hk
        · exact hxh k hk
        · rw [List.map_cons] at hk
          rcases List.mem_cons.1 hk with rfl | hk
          · omega
          · have := hyh k hk; omega

theorem pos_mergeP : ∀ (xs ys : List (Nat × Nat)),
    (∀ q ∈ xs, 0 < q.2) → (∀ q ∈ ys, 0 < q.2) → ∀ q ∈ mergeP xs ys, 0 < q.2 := by
  apply two_cursor_induct
  · intro ys _ h; simpa using h
  · intro x xs h _; simpa using h
  · intro x xs y ys ih1 ih2 ih3 hx hy
    have hxt : ∀ q ∈ xs, 0 < q.2 := fun q hq => hx q (List.mem_cons_of_mem _ hq)
    have hyt : ∀ q ∈ ys, 0 < q.2 := fun q hq => hy q (List.mem_cons_of_mem _ hq)
    have hx0 := hx x (by simp)
    have hy0 := hy y (by simp)
    rw [mergeP_cons_cons]
    split
    · intro q hq
      rcases List.mem_cons.1 hq with rfl | hq
      · exact hy0
      · exact ih1 hx hyt q hq
    · split
      · intro q hq
        rcases List.mem_cons.1 hq with rfl | hq
        · simp only; omega
        · exact ih2 hxt hyt q hq
      · intro q hq
        rcases List.mem_cons.1 hq with rfl | hq
        · exact hx0
        · exact ih3 hxt hy q hq

theorem cnt_mergeP (z : Nat) : ∀ (xs ys : List (Nat × Nat)),
    Sorted (xs.map Prod.fst) → Sorted (ys.map Prod.fst) →
    cnt (mergeP xs ys) z = cnt xs z + cnt ys z := by
  apply two_cursor_induct
  · intro ys _ _; simp
  · intro x xs _ _; simp
  · intro x xs y ys ih1 ih2 ih3 hx hy
    have hxt : Sorted (xs.map Prod.fst) := Sorted.tail hx
    have hyt : Sorted (ys.map Prod.fst) := Sorted.tail hy
    have hxh := Sorted.head_lt hx
    have hyh := Sorted.head_lt hy
    rw [mergeP_cons_cons]
    split
    · rename_i hlt
      rw [cnt_cons', ih1 hx hyt, cnt_cons' y]
      by_cases hz : z = y.1
      · have : cnt (x :: xs) z = 0 := by
          apply cnt_eq_zero_of_lt
          intro k hk
          rw [List.map_cons] at hk
          rcases List.mem_cons.1 hk with rfl | hk
          · omega
          · have := hxh k hk; omega
        simp only [if_pos hz, this]; omega
      · simp [hz]
    · split
      · rename_i _ he
        rw [cnt_cons, ih2 hxt hyt, cnt_cons' x, cnt_cons' y, he]
        by_cases hz : z = x.1
        · simp [hz]; omega
        · simp [hz]
      · rename_i hnlt hne
        rw [cnt_cons', ih3 hxt hy, cnt_cons' x]
        by_cases hz : z = x.1
        · have : cnt (y :: ys) z = 0 := by
            apply cnt_eq_zero_of_lt
            intro k hk
            rw [List.map_cons] at hk
            rcases List.mem_cons.1 hk with rfl | hk
            · omega
            · have := hyh k hk; omega
          simp only [if_pos hz, this]; omega
        · simp [hz]

/-! ### `interL` -/

@[simp] theorem interL_nil_left (ys : List Nat) : interL [] ys = [] := rfl

@[simp] theorem interL_nil_right (xs : List Nat) : interL xs [] = [] := by
  cases xs <;> rfl

theorem interL_cons_cons (x : Nat) (xs : List Nat) (y : Nat) (ys : List Nat) :
    interL (x :: xs) (y :: ys) =
      if x < y then interL xs (y :: ys)
      else if y < x then interL (x :: xs) ys
      else x :: interL xs ys := rfl

theorem interL_sublist : ∀ (xs ys : List Nat), (interL xs ys).Sublist xs := by
  apply two_cursor_induct
  · intro ys; simp
  · intro x xs; simp
  · intro x xs y ys ih1 ih2 ih3
    rw [interL_cons_cons]
    split
    · exact List.Sublist.cons _ ih3
    · split
      · exact ih1
      · exact List.Sublist.cons_cons _ ih2

theorem interL_subset_right : ∀ (xs ys : List Nat), ∀ z ∈ interL xs ys, z ∈ ys := by
  apply two_cursor_induct
  · intro ys; simp
  · intro x xs; simp
  · intro x xs y ys ih1 ih2 ih3
    rw [interL_cons_cons]
    split
    · exact ih3
    · split
      · intro z hz; exact List.mem_cons_of_mem _ (ih1 z hz)
      · intro z hz
        rcases List.mem_cons.1 hz with rfl | hz
        · have : z = y := by omega
          subst this; exact List.mem_cons_self
        · exact List.mem_cons_of_mem _ (ih2 z hz)

/-! ### `inflateJoin` -/

@[simp] theorem inflateJoin_nil_left (ys : List (Nat × Nat)) : MH.inflateJoin [] ys = [] := rfl

@[simp] theorem inflateJoin_nil_right (xs : List Nat) : MH.inflateJoin xs [] = [] := by
  cases xs <;> rfl

theorem inflateJoin_cons_cons (x : Nat) (xs : List Nat) (y : Nat × Nat) (ys : List (Nat × Nat)) :
    MH.inflateJoin (x :: xs) (y :: ys) =
      if x < y.1 then MH.inflateJoin xs (y :: ys)
      else if y.1 < x then MH.inflateJoin (x :: xs) ys
      else (x, y.2) :: MH.inflateJoin xs ys := rfl

theorem inflateJoin_keys_sublist : ∀ (xs : List Nat) (ys : List (Nat × Nat)),
    ((MH.inflateJoin xs ys).map Prod.fst).Sublist xs := by
  apply two_cursor_induct
  · intro ys; simp
  · intro x xs; simp
  · intro x xs y ys ih1 ih2 ih3
    rw [inflateJoin_cons_cons]
    split
    · exact List.Sublist.cons _ ih3
    · split
      · exact ih1
      · exact List.Sublist.cons_cons _ ih2

theorem inflateJoin_subset : ∀ (xs : List Nat) (ys : List (Nat × Nat)),
    ∀ q ∈ MH.inflateJoin xs ys, q ∈ ys := by
  apply two_cursor_induct
  · intro ys; simp
  · intro x xs; simp
  · intro x xs y ys ih1 ih2 ih3
    rw [inflateJoin_cons_cons]
    split
    · exact ih3
    · split
      · intro z hz; exact List.mem_cons_of_mem _ (ih1 z hz)
      · intro z hz
        rcases List.mem_cons.1 hz with rfl | hz
        · have : x = y.1 := by omega
          rw [this]; exact List.mem_cons_self
        · exact List.mem_cons_of_mem _ (ih2 z hz)

/-! ### `sortPairs` -/

theorem insertPair_perm (p : Nat × Nat) (l : List (Nat × Nat)) :
    (MH.insertPair p l).Perm (p :: l) := by
  induction l with
  | nil => exact List.Perm.refl _
  | cons q qs ih =>
    unfold MH.insertPair
    split
    · exact List.Perm.refl _
    · exact ((List.Perm.cons q ih).trans (List.Perm.swap p q qs))

theorem sortPairs_perm (ps : List (Nat × Nat)) : (MH.sortPairs ps).Perm ps := by
  induction ps with
  | nil => exact List.Perm.refl _
  | cons p ps ih =>
    have : MH.sortPairs (p :: ps) = MH.insertPair p (MH.sortPairs ps) := rfl
    rw [this]
    exact (insertPair_perm p _).trans (List.Perm.cons p ih)

end Sm
