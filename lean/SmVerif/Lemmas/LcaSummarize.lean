/-
`summarize` end to end: database side (`get_lineage_assignments` of every database),
`gather_assignments`, `count_lca_for_assignments`, the aggregation loop — against a
specification written on the logs of inserted signatures only.
-/
import SmVerif.Lemmas.LcaGather
import SmVerif.Lemmas.LcaDbQuery
import SmVerif.Lemmas.LineageLca
import SmVerif.Lemmas.LineageAgg

namespace Sm.Lca

open Sm.Lin Sm.Dict

/-! ### the specification side -/

/-- the lineages of the inserted signatures (of all databases) that hold `h`, one per signature -/
def linsOf (logs : List (List Entry)) (h : Nat) : List Lineage :=
  (logs.map (fun log => (idxsSpec log h).filterMap (lineageAt log))).flatten

/-- the query hashes some inserted signature with a lineage holds -/
def specAssigned (logs : List (List Entry)) (hashvals : List (Nat × Nat)) : List (Nat × Nat) :=
  hashvals.filter (fun hc => !(linsOf logs hc.1).isEmpty)

/-- total weight of the assigned query hashes whose LCA (over the lineages of their holders) satisfies `S` -/
def specSum (logs : List (List Entry)) (hashvals : List (Nat × Nat)) (ign : Bool) (S : Lineage → Bool) : Nat :=
  ((specAssigned logs hashvals).map
    (fun hc => if S (lcaOf (linsOf logs hc.1)).1 then (if ign then 1 else hc.2) else 0)).sum

/-- total weight of the hashes whose LCA is exactly `l` -/
def lcaTotal (logs : List (List Entry)) (hashvals : List (Nat × Nat)) (ign : Bool) (l : Lineage) : Nat :=
  specSum logs hashvals ign (fun x => decide (x = l))

/-! ### the databases answer with the lineages of the holders -/

theorem lookDbs_eq (dbs : List (Db × List Entry)) (hq : ∀ p ∈ dbs, QRep p.1 p.2) (h : Nat) :
    lookDbs (dbs.map Prod.fst) h = (dbs.map Prod.snd).map (fun log => (idxsSpec log h).filterMap (lineageAt log)) := by
  unfold lookDbs
  rw [List.map_map, List.map_map]
  apply List.map_congr_left
  intro p hp
  simp only [Function.comp]
  rw [getLineageAssignments_eq (hq p hp) h 0]
  simp

/-! ### the keys of `gather_assignments` -/

def assignedB (look : Nat → List (List Lineage)) (h : Nat) : Bool := (look h).any (fun l => !l.isEmpty)

theorem keys_gatherOne (h : Nat) (L : List (List Lineage)) (asg : List (Nat × List Lineage)) :
    keys (gatherOne h asg L) =
      if L.any (fun l => !l.isEmpty) then (if h ∈ keys asg then keys asg else keys asg ++ [h]) else keys asg := by
  unfold gatherOne
  induction L generalizing asg with
  | nil => simp
  | cons lins rest ih =>
    simp only [List.foldl_cons, List.any_cons]
    by_cases he : lins.isEmpty = true
    · simp only [he, if_true, Bool.not_true, Bool.false_or]
      exact ih asg
    · simp only [he, Bool.false_eq_true, if_false, Bool.not_false, Bool.true_or, if_true]
      rw [ih]
      have hin : h ∈ keys (set asg h (updateSet ((get? asg h).getD []) lins)) := mem_keys_set.mpr (Or.inr rfl)
      simp only [hin, if_true, ite_self]
      by_cases hk : h ∈ keys asg
      · simp only [hk, if_true]; exact keys_set_of_mem _ hk
      · simp only [hk, if_false]; exact keys_set_of_not_mem _ hk

theorem keys_gather_fold (look : Nat → List (List Lineage)) (hs : List Nat) (acc : List (Nat × List Lineage))
    (hnd : hs.Nodup) (hdis : ∀ h ∈ hs, h ∉ keys acc) :
    keys (hs.foldl (fun asg h => gatherOne h asg (look h)) acc) = keys acc ++ hs.filter (assignedB look) := by
  induction hs generalizing acc with
  | nil => simp
  | cons x xs ih =>
    simp only [List.nodup_cons] at hnd
    simp only [List.foldl_cons]
    have hx : x ∉ keys acc := hdis x (by simp)
    have hk := keys_gatherOne x (look x) acc
    rw [ih _ hnd.2]
    · rw [hk, List.filter_cons]
      unfold assignedB
      by_cases ha : (look x).any (fun l => !l.isEmpty) = true
      · simp only [ha, if_true, hx, if_false, List.append_assoc, List.cons_append, List.nil_append]
      · simp only [ha, Bool.false_eq_true, if_false]
    · intro h hh
      rw [hk]
      have hne : h ≠ x := fun e => hnd.1 (e ▸ hh)
      have hacc := hdis h (List.mem_cons_of_mem _ hh)
      by_cases ha : (look x).any (fun l => !l.isEmpty) = true
      · simp only [ha, if_true, hx, if_false, List.mem_append, List.mem_cons, List.not_mem_nil, or_false, not_or]
        exact ⟨hacc, hne⟩
      · simp only [ha, Bool.false_eq_true, if_false]; exact hacc

theorem keys_gatherWith (look : Nat → List (List Lineage)) (hs : List Nat) (hnd : hs.Nodup) :
    keys (gatherWith look hs) = hs.filter (assignedB look) := by
  rw [gatherWith_eq, keys_gather_fold look hs [] hnd (by simp [keys])]
  simp [keys]

/-! ### sums over the gathered table -/

theorem map_eq_map_keys {β γ : Type} (d : List (Nat × β)) (hnd : (keys d).Nodup) (F : Nat → Option β → γ) :
    d.map (fun a => F a.1 (some a.2)) = (keys d).map (fun h => F h (get? d h)) := by
  rw [keys_eq_map, List.map_map]
  apply List.map_congr_left
  intro a ha
  simp only [Function.comp]
  have ha' : (a.1, a.2) ∈ d := by simpa using ha
  rw [get?_of_mem_nodup hnd ha']

theorem flatten_ne_nil_iff (L : List (List Lineage)) : L.flatten ≠ [] ↔ L.any (fun l => !l.isEmpty) = true := by
  induction L with
  | nil => simp
  | cons x xs ih =>
    cases x with
    | nil => simpa using ih
    | cons a as => simp

/-- what `count_lca_for_assignments` sums over the gathered table, on the query hashes themselves -/
theorem hashSum_gather (look : Nat → List (List Lineage)) (hs : List Nat) (hnd : hs.Nodup)
    (w : Option (List (Nat × Nat))) (S : Lineage → Bool) :
    hashSum w S (gatherWith look hs) =
      ((hs.filter (assignedB look)).map
        (fun h => if S (lcaOf (look h).flatten).1 then weightOf w h else 0)).sum := by
  obtain ⟨hi, hmem⟩ := gather_spec look hs
  unfold hashSum
  have e1 := map_eq_map_keys (gatherWith look hs) hi.nodup
    (fun h o => if S (lcaOf (o.getD [])).1 then weightOf w h else 0)
  simp only [Option.getD_some] at e1
  rw [e1, keys_gatherWith look hs hnd]
  apply map_sum_congr
  intro h hh
  have hass : assignedB look h = true := (List.mem_filter.mp hh).2
  have hin : h ∈ hs := (List.mem_filter.mp hh).1
  have hfl : (look h).flatten ≠ [] := (flatten_ne_nil_iff _).mpr hass
  have hG : ∀ l, l ∈ (get? (gatherWith look hs) h).getD [] ↔ l ∈ (look h).flatten := by
    intro l
    have := hmem h l
    unfold G at this
    rw [this, List.mem_flatten]
    constructor
    · rintro ⟨_, lins, h1, h2⟩; exact ⟨lins, h1, h2⟩
    · rintro ⟨lins, h1, h2⟩; exact ⟨hin, lins, h1, h2⟩
  have hGne : (get? (gatherWith look hs) h).getD [] ≠ [] := by
    obtain ⟨l, hl⟩ := List.exists_mem_of_ne_nil _ hfl
    exact List.ne_nil_of_mem ((hG l).mpr hl)
  rw [lcaOf_congr_mem hGne hfl hG]

/-- `count_lca_for_assignments` never fails on a gathered table when every query hash has a weight -/
theorem countLca_gather_ok (look : Nat → List (List Lineage)) (hs : List Nat)
    (w : Option (List (Nat × Nat))) (hw : ∀ h ∈ hs, (wOf w h).isSome) :
    ∃ counts, countLca (gatherWith look hs) w = .ok counts := by
  obtain ⟨hi, hmem⟩ := gather_spec look hs
  have hall : ∀ a ∈ gatherWith look hs, a.2 ≠ [] ∧ (wOf w a.1).isSome := by
    intro a ha
    have hg := get?_of_mem_nodup hi.nodup ha
    refine ⟨hi.nonempty a.1 a.2 hg, hw a.1 ?_⟩
    obtain ⟨l, hl⟩ := List.exists_mem_of_ne_nil _ (hi.nonempty a.1 a.2 hg)
    have := (hmem a.1 l).mp (by unfold G; rw [hg]; exact hl)
    exact this.1
  unfold countLca
  generalize gatherWith look hs = asg at hall
  have : ∀ acc : List (Lineage × Nat), ∃ counts, asg.foldlM (countStep w) acc = .ok counts := by
    induction asg with
    | nil => intro acc; exact ⟨acc, rfl⟩
    | cons a as ih =>
      intro acc
      simp only [List.foldlM_cons, bind, Except.bind]
      obtain ⟨hne, hws⟩ := hall a (by simp)
      obtain ⟨c, hc⟩ := Option.isSome_iff_exists.mp hws
      have hstep : countStep w acc a = .ok (bump acc (lcaOf a.2).1 c) := by
        unfold countStep buildTree lcaOf
        have : a.2.isEmpty = false := by
          cases h : a.2 with
          | nil => exact absurd h hne
          | cons _ _ => rfl
        simp [this, hc]
      rw [hstep]
      exact ih (fun x hx => hall x (List.mem_cons_of_mem _ hx)) _
  exact this []

/-! ### from the query hashes to the specification -/

theorem assignedB_lookSpec (logs : List (List Entry)) (h : Nat) :
    assignedB (fun h => logs.map (fun log => (idxsSpec log h).filterMap (lineageAt log))) h =
      !(linsOf logs h).isEmpty := by
  unfold assignedB linsOf
  have := flatten_ne_nil_iff (logs.map (fun log => (idxsSpec log h).filterMap (lineageAt log)))
  cases hA : (logs.map (fun log => (idxsSpec log h).filterMap (lineageAt log))).any (fun l => !l.isEmpty) with
  | true =>
    have := this.mpr hA
    cases hf : (logs.map (fun log => (idxsSpec log h).filterMap (lineageAt log))).flatten with
    | nil => exact absurd hf this
    | cons _ _ => rfl
  | false =>
    cases hf : (logs.map (fun log => (idxsSpec log h).filterMap (lineageAt log))).flatten with
    | nil => rfl
    | cons a as =>
      have : (logs.map (fun log => (idxsSpec log h).filterMap (lineageAt log))).flatten ≠ [] := by simp [hf]
      rw [(flatten_ne_nil_iff _).mp this] at hA
      cases hA

/-- sums over the assigned query hashes, keyed by hash, are sums over the (hash, count) pairs -/
theorem sum_keys_filter (hashvals : List (Nat × Nat)) (hnd : (keys hashvals).Nodup) (q : Nat → Bool)
    (F : Nat → Nat → Nat) :
    (((keys hashvals).filter q).map (fun h => F h ((get? hashvals h).getD 0))).sum =
      ((hashvals.filter (fun hc => q hc.1)).map (fun hc => F hc.1 hc.2)).sum := by
  induction hashvals with
  | nil => rfl
  | cons x xs ih =>
    obtain ⟨k, c⟩ := x
    simp only [keys, List.nodup_cons] at hnd
    have hrest : ((keys xs).filter q).map (fun h => F h ((get? ((k, c) :: xs) h).getD 0)) =
        ((keys xs).filter q).map (fun h => F h ((get? xs h).getD 0)) := by
      apply List.map_congr_left
      intro h hh
      have : h ≠ k := fun e => hnd.1 (e ▸ (List.mem_filter.mp hh).1)
      simp [get?, this]
    have hkeys : keys ((k, c) :: xs) = k :: keys xs := rfl
    have hkc : (get? ((k, c) :: xs) k).getD 0 = c := by simp [get?]
    rw [hkeys]
    by_cases hq : q k = true
    · have hl : (k :: keys xs).filter q = k :: (keys xs).filter q := by simp [List.filter_cons, hq]
      have hr : ((k, c) :: xs).filter (fun hc => q hc.1) = (k, c) :: xs.filter (fun hc => q hc.1) := by
        simp [List.filter_cons, hq]
      rw [hl, hr, List.map_cons, List.sum_cons, List.map_cons, List.sum_cons, hrest, ih hnd.2, hkc]
    · have hl : (k :: keys xs).filter q = (keys xs).filter q := by simp [List.filter_cons, hq]
      have hr : ((k, c) :: xs).filter (fun hc => q hc.1) = xs.filter (fun hc => q hc.1) := by
        simp [List.filter_cons, hq]
      rw [hl, hr, hrest, ih hnd.2]

/-- the sums of `count_lca_for_assignments` over the gathered answers of the databases are the
    specification's sums over the logs -/
theorem hashSum_eq_specSum (dbs : List (Db × List Entry)) (hq : ∀ p ∈ dbs, QRep p.1 p.2)
    (hashvals : List (Nat × Nat)) (hnd : (keys hashvals).Nodup) (ign : Bool) (S : Lineage → Bool) :
    hashSum (if ign || hashvals.isEmpty then none else some hashvals) S
        (gatherWith (lookDbs (dbs.map Prod.fst)) (keys hashvals)) =
      specSum (dbs.map Prod.snd) hashvals ign S := by
  have hlook : lookDbs (dbs.map Prod.fst) =
      fun h => (dbs.map Prod.snd).map (fun log => (idxsSpec log h).filterMap (lineageAt log)) := by
    funext h; exact lookDbs_eq dbs hq h
  rw [hlook, hashSum_gather _ _ hnd]
  unfold specSum specAssigned
  by_cases hign : ign = true
  · subst hign
    simp only [Bool.true_or, if_true]
    have hw : ∀ h, weightOf none h = 1 := fun _ => rfl
    simp only [hw]
    have := sum_keys_filter hashvals hnd
      (assignedB (fun h => (dbs.map Prod.snd).map (fun log => (idxsSpec log h).filterMap (lineageAt log))))
      (fun h _ => if S (lcaOf (linsOf (dbs.map Prod.snd) h)).1 then 1 else 0)
    simp only [linsOf] at this ⊢
    refine this.trans ?_
    congr 3
    funext hc
    exact assignedB_lookSpec (dbs.map Prod.snd) hc.1
  · have hign' : ign = false := by cases ign <;> simp_all
    subst hign'
    cases hashvals with
    | nil => simp [keys]
    | cons x xs =>
      simp only [Bool.false_or, List.isEmpty_cons, Bool.false_eq_true, if_false]
      have hw : ∀ h, weightOf (some (x :: xs)) h = (get? (x :: xs) h).getD 0 := fun _ => rfl
      simp only [hw]
      have := sum_keys_filter (x :: xs) hnd
        (assignedB (fun h => (dbs.map Prod.snd).map (fun log => (idxsSpec log h).filterMap (lineageAt log))))
        (fun h c => if S (lcaOf (linsOf (dbs.map Prod.snd) h)).1 then c else 0)
      simp only [linsOf] at this ⊢
      refine this.trans ?_
      congr 3
      funext hc
      exact assignedB_lookSpec (dbs.map Prod.snd) hc.1

end Sm.Lca
