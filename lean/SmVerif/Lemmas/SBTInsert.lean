/-
`add_node` preserves the Cover invariant on every tree reachable by insertions, for every
branching factor `d ≥ 2`, and keeps the tree in the shape "internal nodes at 0..m-1, leaves at
m..M" (so positions are unique and no leaf lies beneath a leaf).
-/
import SmVerif.Lemmas.SBTCover

namespace Sm.SBT

open Sm.NG

/-- the shape of every tree built by insertions: internal nodes exactly at `0 .. m-1`,
leaves exactly at `m .. M`; whatever `_missing_nodes` still lists (the list never shrinks) is an
internal position, where a node is present by now -/
structure Shape (t : Tree) (m M : Nat) : Prop where
  m1 : 1 ≤ m
  mM : m ≤ M
  Mdm : M ≤ t.d * m
  nodes : ∀ p, (t.nodes.get? p).isSome = true ↔ p < m
  leaves : ∀ p, (t.leaves.get? p).isSome = true ↔ (m ≤ p ∧ p ≤ M)
  missing : ∀ a ∈ t.missing, a < m

theorem rebuild_present {fixed : Bool} {f : Nat} {t : Tree} {a : Nat} {n : INode}
    (h : t.nodes.get? a = some n) : rebuild fixed (f + 1) t a = .ok t := by
  simp [rebuild, h]

theorem rebuildFuel_succ (t : Tree) : t.rebuildFuel = (listMax t.missing + 1) + 1 := rfl

theorem modNode_of_some {t : Tree} {p : Nat} {n : INode} (f : INode → INode) (h : t.nodes.get? p = some n) :
    t.modNode p f = { t with nodes := t.nodes.set p (f n) } := by
  simp [Tree.modNode, h]

/-- the ancestor walk of `add_node` when every ancestor is present: every node on the walk
ends up covering the new leaf, everything else only grows -/
theorem walkUp_spec (fixed : Bool) (l : Leaf) : ∀ (as : List Nat) (t : Tree), Base t →
    (∀ a ∈ as, (t.nodes.get? a).isSome = true) →
    ∃ t', walkUp fixed l as t = .ok t' ∧ Base t' ∧ t'.leaves = t.leaves ∧ t'.missing = t.missing ∧
      t'.d = t.d ∧ t'.sizes = t.sizes ∧
      (∀ q, t.nodes.get? q = none → t'.nodes.get? q = none) ∧
      (∀ q n, t.nodes.get? q = some n → ∃ n', t'.nodes.get? q = some n' ∧
        (∀ l', Holds t.sizes n l' → Holds t.sizes n' l') ∧ (q ∈ as → Holds t.sizes n' l)) := by
  intro as
  induction as with
  | nil =>
    intro t hb _
    exact ⟨t, rfl, hb, rfl, rfl, rfl, rfl, fun _ h => h, fun q n h => ⟨n, h, fun _ h => h, by simp⟩⟩
  | cons a as ih =>
    intro t hb hpres
    obtain ⟨n, hn⟩ := Option.isSome_iff_exists.mp (hpres a (List.mem_cons_self))
    have hnOK := hb.nodesOK a n hn
    let t1 : Tree := { t with nodes := t.nodes.set a (leafUpdate t.sizes l n) }
    have hb1 : Base t1 := by
      refine ⟨hb.d2, hb.sizes, ?_⟩
      intro q nq hq
      show DataOK t.sizes nq
      simp only [t1, PMap.get?_set] at hq
      split at hq
      · simp only [Option.some.injEq] at hq; subst hq
        exact leafUpdate_dataOK hb.sizes l hnOK
      · exact hb.nodesOK q nq hq
    have hpres1 : ∀ b ∈ as, (t1.nodes.get? b).isSome = true := by
      intro b hbm
      simp only [t1, PMap.get?_set]
      split
      · rfl
      · exact hpres b (List.mem_cons_of_mem _ hbm)
    obtain ⟨t', hw, hb', hl', hm', hd', hs', hnone, hsome⟩ := ih t1 hb1 hpres1
    refine ⟨t', ?_, hb', hl', hm', hd', hs', ?_, ?_⟩
    · simp only [walkUp, rebuildFuel_succ, rebuild_present hn, bind, Except.bind, hn, modNode_of_some _ hn]
      exact hw
    · intro q hq
      apply hnone
      simp only [t1, PMap.get?_set]
      split
      · rename_i h; subst h; rw [hn] at hq; cases hq
      · exact hq
    · intro q nq hq
      by_cases hqa : q = a
      · subst hqa
        rw [hn] at hq; cases hq
        have h1 : t1.nodes.get? q = some (leafUpdate t.sizes l n) := by simp [t1, PMap.get?_set]
        obtain ⟨n', hn', hmono, _⟩ := hsome q _ h1
        refine ⟨n', hn', ?_, ?_⟩
        · intro l' hl
          exact hmono l' (((leafUpdate_ext hb.sizes l n) hnOK).2 l' hl)
        · intro _
          exact hmono l (leafUpdate_holds hb.sizes l hnOK)
      · have h1 : t1.nodes.get? q = some nq := by simp [t1, PMap.get?_set, hqa, hq]
        obtain ⟨n', hn', hmono, hin⟩ := hsome q _ h1
        refine ⟨n', hn', hmono, ?_⟩
        intro hmem
        rcases List.mem_cons.mp hmem with h | h
        · exact absurd h hqa
        · exact hin h


theorem not_isEmpty_of_get? {α : Type} {m : PMap α} {p : Nat} (h : (PMap.get? m p).isSome = true) :
    List.isEmpty m = false := by
  cases hm : List.isEmpty m with
  | false => rfl
  | true =>
    have := (PMap.isEmpty_iff.mp hm) p
    rw [this] at h; cases h

theorem Shape.minLeaf {t : Tree} {m M : Nat} (hs : Shape t m M) : listMin t.leaves.keys = m := by
  apply listMin_eq
  · exact PMap.mem_keys_iff.mpr ((hs.leaves m).mpr ⟨Nat.le_refl _, hs.mM⟩)
  · intro y hy
    exact ((hs.leaves y).mp (PMap.mem_keys_iff.mp hy)).1

theorem Shape.maxLeaf {t : Tree} {m M : Nat} (hs : Shape t m M) : listMax t.leaves.keys = M := by
  apply listMax_eq
  · exact PMap.mem_keys_iff.mpr ((hs.leaves M).mpr ⟨hs.mM, Nat.le_refl _⟩)
  · intro y hy
    exact ((hs.leaves y).mp (PMap.mem_keys_iff.mp hy)).2

/-- `new_node_pos` on an insertion-built tree: the next position is `max leaf + 1`; the hole
search below the smallest leaf never finds anything -/
theorem newNodePos_shape {t : Tree} {m M : Nat} (hs : Shape t m M) :
    newNodePos t = ({ t with nextNode := M + 1 }, M + 1) := by
  have hn : List.isEmpty t.nodes = false := not_isEmpty_of_get? ((hs.nodes 0).mpr (by have := hs.m1; omega))
  have hl : List.isEmpty t.leaves = false :=
    not_isEmpty_of_get? ((hs.leaves m).mpr ⟨Nat.le_refl _, hs.mM⟩)
  have hhole : (List.range m).find? (fun i => !t.nodes.has i && !t.leaves.has i && !t.missing.contains i) = none := by
    rw [List.find?_eq_none]
    intro i hi
    have : t.nodes.has i = true := (hs.nodes i).mpr (List.mem_range.mp hi)
    simp [this]
  unfold newNodePos
  simp only [hn, hl, Bool.false_eq_true, ↓reduceIte, hs.minLeaf, hs.maxLeaf, hhole, ite_self]


/-- state after the parent-level step of `add_node`, before the ancestor walk: every ancestor of
every leaf is a present node that already covers it, except that the ancestors in `as` do not
cover the new leaf `l` yet -/
def PreCover (t1 : Tree) (l : Leaf) (as : List Nat) : Prop :=
  ∀ q lq, t1.leaves.get? q = some lq → ∀ a ∈ ancestors t1.d q,
    t1.leaves.get? a = none ∧ ∃ na, t1.nodes.get? a = some na ∧ (Holds t1.sizes na lq ∨ (lq = l ∧ a ∈ as))

theorem walk_cover {fixed : Bool} {l : Leaf} {as : List Nat} {t1 : Tree} (hb1 : Base t1)
    (hpres : ∀ a ∈ as, (t1.nodes.get? a).isSome = true) (hpre : PreCover t1 l as) :
    ∃ t', walkUp fixed l as t1 = .ok t' ∧ Base t' ∧ Cover t' ∧ t'.leaves = t1.leaves ∧
      t'.missing = t1.missing ∧ t'.d = t1.d ∧ t'.sizes = t1.sizes ∧
      (∀ q, (t'.nodes.get? q).isSome = (t1.nodes.get? q).isSome) := by
  obtain ⟨t', hw, hb', hl', hm', hd', hs', hnone, hsome⟩ := walkUp_spec fixed l as t1 hb1 hpres
  refine ⟨t', hw, hb', ?_, hl', hm', hd', hs', ?_⟩
  · intro q lq hq a ha
    rw [hl'] at hq
    rw [hd'] at ha
    obtain ⟨h1, na, hna, hor⟩ := hpre q lq hq a ha
    obtain ⟨n', hn', hmono, hin⟩ := hsome a na hna
    refine ⟨by rw [hl']; exact h1, ?_⟩
    rw [hn', hs']
    rcases hor with h | ⟨rfl, hmem⟩
    · exact hmono _ h
    · exact hin hmem
  · intro q
    cases hq : t1.nodes.get? q with
    | none => rw [hnone q hq]
    | some n => obtain ⟨n', hn', _⟩ := hsome q n hq; rw [hn']; rfl

theorem Shape.node_at {t : Tree} {m M p : Nat} (hs : Shape t m M) (hp : p < m) :
    (∃ n, t.nodes.get? p = some n) ∧ t.leaves.get? p = none := by
  refine ⟨Option.isSome_iff_exists.mp ((hs.nodes p).mpr hp), ?_⟩
  cases h : t.leaves.get? p with
  | none => rfl
  | some v =>
    have := (hs.leaves p).mp (by simp [h])
    omega

theorem Shape.leaf_at {t : Tree} {m M p : Nat} (hs : Shape t m M) (h1 : m ≤ p) (h2 : p ≤ M) :
    (∃ l, t.leaves.get? p = some l) ∧ t.nodes.get? p = none := by
  refine ⟨Option.isSome_iff_exists.mp ((hs.leaves p).mpr ⟨h1, h2⟩), ?_⟩
  cases h : t.nodes.get? p with
  | none => rfl
  | some v =>
    have := (hs.nodes p).mp (by simp [h])
    omega

/-- in an insertion-built tree a covered leaf's ancestors are all present nodes -/
theorem Shape.cover_some {t : Tree} {m M : Nat} (hs : Shape t m M) (hc : Cover t) {q : Nat} {lq : Leaf}
    (hq : t.leaves.get? q = some lq) {a : Nat} (ha : a ∈ ancestors t.d q) :
    t.leaves.get? a = none ∧ ∃ na, t.nodes.get? a = some na ∧ Holds t.sizes na lq := by
  obtain ⟨h1, h2⟩ := hc q lq hq a ha
  refine ⟨h1, ?_⟩
  cases hn : t.nodes.get? a with
  | none =>
    rw [hn] at h2
    have := (hs.nodes a).mpr (hs.missing a h2)
    rw [hn] at this; cases this
  | some na => rw [hn] at h2; exact ⟨na, rfl, h2⟩


theorem parent_succ (d M : Nat) : parent d (M + 1) = M / d := by simp [parent]

theorem at_node {t : Tree} {p : Nat} {n : INode} (h1 : t.leaves.get? p = none) (h2 : t.nodes.get? p = some n) :
    t.at p = .node n := by simp [Tree.at, h1, h2]

theorem at_leaf {t : Tree} {p : Nat} {l : Leaf} (h1 : t.leaves.get? p = some l) :
    t.at p = .leaf l := by simp [Tree.at, h1]

/-- case 2 of `add_node`: the parent of the new position is an internal node -/
theorem insert_under_node {fixed : Bool} {t : Tree} {m M : Nat} (hb : Base t) (hc : Cover t)
    (hs : Shape t m M) (l : Leaf) (hP : parent t.d (M + 1) < m) :
    ∃ t', addNodeCore fixed t l = .ok t' ∧ Base t' ∧ Cover t' ∧ Shape t' m (M + 1) ∧ t'.d = t.d ∧
      t'.sizes = t.sizes ∧ t'.missing = t.missing ∧ t'.leaves = t.leaves.set (M + 1) l := by
  obtain ⟨⟨n, hn⟩, hlP⟩ := hs.node_at hP
  have hnOK := hb.nodesOK _ n hn
  have hd0 : 0 < t.d := by have := hb.d2; omega
  let P := parent t.d (M + 1)
  let t1 : Tree := { t with nodes := t.nodes.set P (leafUpdate t.sizes l n), leaves := t.leaves.set (M + 1) l,
                            nextNode := M + 1 }
  have hb1 : Base t1 := by
    refine ⟨hb.d2, hb.sizes, ?_⟩
    intro q nq hq
    show DataOK t.sizes nq
    simp only [t1, PMap.get?_set] at hq
    split at hq
    · simp only [Option.some.injEq] at hq; subst hq
      exact leafUpdate_dataOK hb.sizes l hnOK
    · exact hb.nodesOK q nq hq
  have hpres : ∀ a ∈ ancestors t.d P, (t1.nodes.get? a).isSome = true := by
    intro a ha
    have := mem_ancestors_lt ha
    simp only [t1, PMap.get?_set]
    split
    · rfl
    · exact (hs.nodes a).mpr (by omega)
  have hanc : ancestors t.d (M + 1) = P :: ancestors t.d P := ancestors_pos (by omega)
  have hpre : PreCover t1 l (ancestors t.d P) := by
    intro q lq hq a ha
    change a ∈ ancestors t.d q at ha
    simp only [t1, PMap.get?_set] at hq
    have halt := mem_ancestors_lt ha
    split at hq
    · -- the new leaf
      rename_i hqM
      simp only [Option.some.injEq] at hq
      subst hq; subst hqM
      rw [hanc] at ha
      have haM : a < m := by
        rcases List.mem_cons.mp ha with h | h
        · rw [h]; exact hP
        · have := mem_ancestors_lt h; omega
      refine ⟨?_, ?_⟩
      · simp only [t1, PMap.get?_set]
        rw [if_neg (by omega)]
        exact (hs.node_at haM).2
      · rcases List.mem_cons.mp ha with h | h
        · refine ⟨leafUpdate t.sizes l n, by simp [t1, PMap.get?_set, h], Or.inl ?_⟩
          exact leafUpdate_holds hb.sizes l hnOK
        · obtain ⟨na, hna⟩ := (hs.node_at haM).1
          by_cases haP : a = P
          · refine ⟨leafUpdate t.sizes l n, by simp [t1, PMap.get?_set, haP], Or.inr ⟨rfl, h⟩⟩
          · exact ⟨na, by simp [t1, PMap.get?_set, haP, hna], Or.inr ⟨rfl, h⟩⟩
    · -- an old leaf
      obtain ⟨h1, na, hna, hh⟩ := hs.cover_some hc hq ha
      have hqM : q ≤ M := ((hs.leaves q).mp (by simp [hq])).2
      refine ⟨?_, ?_⟩
      · simp only [t1, PMap.get?_set]
        rw [if_neg (by omega)]; exact h1
      · by_cases haP : a = P
        · refine ⟨leafUpdate t.sizes l n, by simp [t1, PMap.get?_set, haP], Or.inl ?_⟩
          have : na = n := by rw [haP] at hna; rw [hn] at hna; cases hna; rfl
          subst this
          exact ((leafUpdate_ext hb.sizes l na) hnOK).2 lq hh
        · exact ⟨na, by simp [t1, PMap.get?_set, haP, hna], Or.inl hh⟩
  obtain ⟨t', hw, hb', hc', hl', hm', hd', hs', hiso⟩ := walk_cover (fixed := fixed) hb1 hpres hpre
  refine ⟨t', ?_, hb', hc', ?_, hd', hs', hm', hl'⟩
  · unfold addNodeCore
    simp only [newNodePos_shape hs, Nat.succ_ne_zero, ↓reduceIte, bind, Except.bind, pure, Except.pure]
    rw [at_node (by exact hlP) (by exact hn)]
    exact hw
  · have hlt : M < t.d * m := by
      have : M / t.d < m := by rw [← parent_succ]; exact hP
      exact (Nat.div_lt_iff_lt_mul hd0).mp this |> fun h => by rw [Nat.mul_comm]; exact h
    refine ⟨hs.m1, by have := hs.mM; omega, by rw [hd']; show M + 1 ≤ t.d * m; omega, ?_, ?_, by rw [hm']; exact hs.missing⟩
    · intro q
      rw [hiso q]
      simp only [t1, PMap.get?_set]
      split
      · rename_i h; simp [h]; exact hP
      · exact hs.nodes q
    · intro q
      rw [hl']
      simp only [t1, PMap.get?_set]
      split
      · rename_i h; simp [h]; have := hs.mM; omega
      · rename_i h
        rw [hs.leaves q]
        constructor
        · intro ⟨h1, h2⟩; exact ⟨h1, by omega⟩
        · intro ⟨h1, h2⟩; exact ⟨h1, by omega⟩


/-- case 1 of `add_node`: the parent of the new position is a leaf; it becomes an internal
node, the displaced leaf moves to its first child and the new leaf to the second -/
theorem insert_under_leaf {fixed : Bool} {t : Tree} {m M : Nat} (hb : Base t) (hc : Cover t)
    (hs : Shape t m M) (l : Leaf) (hP : parent t.d (M + 1) = m) :
    ∃ t' l0, t.leaves.get? m = some l0 ∧ addNodeCore fixed t l = .ok t' ∧ Base t' ∧ Cover t' ∧
      Shape t' (m + 1) (M + 2) ∧ t'.d = t.d ∧ t'.sizes = t.sizes ∧ t'.missing = t.missing ∧
      t'.leaves = ((t.leaves.set (M + 1) l0).set (M + 2) l).erase m := by
  obtain ⟨⟨l0, hl0⟩, hnm⟩ := hs.leaf_at (Nat.le_refl m) hs.mM
  have hd0 : 0 < t.d := by have := hb.d2; omega
  have hd2 := hb.d2
  have hM : M = t.d * m := by
    have h1 : M / t.d = m := by rw [← parent_succ]; exact hP
    have h2 := Nat.mul_div_le M t.d
    rw [h1] at h2
    have := hs.Mdm
    omega
  have hc1 : child t.d m 0 = M + 1 := by simp [child, hM]
  have hc2 : child t.d m 1 = M + 2 := by simp [child, hM]
  have hm1 := hs.m1
  have hmM := hs.mM
  let nn := leafUpdate t.sizes l (leafUpdate t.sizes l0 INode.fresh)
  have hfOK : DataOK t.sizes (leafUpdate t.sizes l0 INode.fresh) :=
    leafUpdate_dataOK hb.sizes l0 (fresh_dataOK _)
  have hnnOK : DataOK t.sizes nn := leafUpdate_dataOK hb.sizes l hfOK
  have hnn_l : Holds t.sizes nn l := leafUpdate_holds hb.sizes l hfOK
  have hnn_l0 : Holds t.sizes nn l0 :=
    ((leafUpdate_ext hb.sizes l _) hfOK).2 l0 (leafUpdate_holds hb.sizes l0 (fresh_dataOK _))
  let t1 : Tree := { t with nodes := t.nodes.set m nn,
                            leaves := ((t.leaves.set (M + 1) l0).set (M + 2) l).erase m,
                            nextNode := M + 1 }
  have hb1 : Base t1 := by
    refine ⟨hb.d2, hb.sizes, ?_⟩
    intro q nq hq
    show DataOK t.sizes nq
    simp only [t1, PMap.get?_set] at hq
    split at hq
    · simp only [Option.some.injEq] at hq; subst hq; exact hnnOK
    · exact hb.nodesOK q nq hq
  have hpres : ∀ a ∈ ancestors t.d m, (t1.nodes.get? a).isSome = true := by
    intro a ha
    have := mem_ancestors_lt ha
    simp only [t1, PMap.get?_set]
    split
    · rfl
    · exact (hs.nodes a).mpr (by omega)
  have hleaf1 : ∀ a, a ≤ m → t1.leaves.get? a = none := by
    intro a ha
    simp only [t1, PMap.get?_erase, PMap.get?_set]
    split
    · rfl
    · rw [if_neg (by omega), if_neg (by omega)]
      exact (hs.node_at (by omega)).2
  have hnode1 : ∀ a, a < m → t1.nodes.get? a = t.nodes.get? a := by
    intro a ha
    simp only [t1, PMap.get?_set]
    rw [if_neg (by omega)]
  have hpre : PreCover t1 l (ancestors t.d m) := by
    intro q lq hq a ha
    change a ∈ ancestors t.d q at ha
    simp only [t1, PMap.get?_erase, PMap.get?_set] at hq
    split at hq
    · cases hq
    · rename_i hqm
      split at hq
      · -- the new leaf at c2
        rename_i hq2
        simp only [Option.some.injEq] at hq
        subst hq; subst hq2
        rw [← hc2, ancestors_child (by omega : 1 < t.d)] at ha
        rcases List.mem_cons.mp ha with h | h
        · subst h
          exact ⟨hleaf1 _ (Nat.le_refl _), nn, by simp [t1, PMap.get?_set], Or.inl hnn_l⟩
        · have hlt := mem_ancestors_lt h
          obtain ⟨na, hna⟩ := (hs.node_at hlt).1
          exact ⟨hleaf1 a (by omega), na, by rw [hnode1 a hlt]; exact hna, Or.inr ⟨rfl, h⟩⟩
      · split at hq
        · -- the displaced leaf at c1
          rename_i hq1
          simp only [Option.some.injEq] at hq
          subst hq; subst hq1
          rw [← hc1, ancestors_child (by omega : 0 < t.d)] at ha
          rcases List.mem_cons.mp ha with h | h
          · subst h
            exact ⟨hleaf1 _ (Nat.le_refl _), nn, by simp [t1, PMap.get?_set], Or.inl hnn_l0⟩
          · have hlt := mem_ancestors_lt h
            obtain ⟨_, na, hna, hh⟩ := hs.cover_some hc hl0 h
            exact ⟨hleaf1 a (by omega), na, by rw [hnode1 a hlt]; exact hna, Or.inl hh⟩
        · -- any other leaf
          obtain ⟨h1, na, hna, hh⟩ := hs.cover_some hc hq ha
          have halt := mem_ancestors_lt ha
          have hqM : q ≤ M := ((hs.leaves q).mp (by simp [hq])).2
          have ham : a < m := by
            have := (hs.nodes a).mp (by simp [hna]); exact this
          exact ⟨hleaf1 a (by omega), na, by rw [hnode1 a ham]; exact hna, Or.inl hh⟩
  obtain ⟨t', hw, hb', hc', hl', hm', hd', hs', hiso⟩ := walk_cover (fixed := fixed) hb1 hpres hpre
  refine ⟨t', l0, hl0, ?_, hb', hc', ?_, hd', hs', hm', hl'⟩
  · unfold addNodeCore
    simp only [newNodePos_shape hs, Nat.succ_ne_zero, ↓reduceIte, bind, Except.bind, pure, Except.pure]
    rw [hP, at_leaf (by exact hl0)]
    simp only [hc1, hc2]
    rw [if_neg (by omega)]
    exact hw
  · refine ⟨by omega, by omega, ?_, ?_, ?_, by rw [hm']; intro a ha; have := hs.missing a ha; omega⟩
    · rw [hd']; show M + 2 ≤ t.d * (m + 1)
      rw [Nat.mul_add, ← hM]; omega
    · intro q
      rw [hiso q]
      simp only [t1, PMap.get?_set]
      split
      · rename_i h; simp [h]
      · rename_i h
        rw [hs.nodes q]; omega
    · intro q
      rw [hl']
      simp only [t1, PMap.get?_erase, PMap.get?_set]
      split
      · rename_i h; simp [h]; omega
      · rename_i h
        split
        · rename_i h2; simp [h2]; omega
        · split
          · rename_i h3; simp [h3]; omega
          · rw [hs.leaves q]; omega


/-- a tree nothing has been inserted into -/
def IsEmpty (t : Tree) : Prop := t.nodes = [] ∧ t.leaves = [] ∧ t.missing = []

/-- the first insertion: root node at 0, leaf at 1 -/
theorem insert_first {fixed : Bool} {t : Tree} (hd : 2 ≤ t.d) (hsz : SizesOK t.sizes) (he : IsEmpty t) (l : Leaf) :
    ∃ t', addNodeCore fixed t l = .ok t' ∧ Base t' ∧ Cover t' ∧ Shape t' 1 1 ∧ t'.d = t.d ∧ t'.sizes = t.sizes ∧
      t'.missing = t.missing ∧ t'.leaves = PMap.set [] 1 l := by
  obtain ⟨hn, hl, hm⟩ := he
  have hp1 : parent t.d 1 = 0 := by simp [parent]
  let n0 := leafUpdate t.sizes l INode.fresh
  let t' : Tree := { t with nodes := PMap.set (PMap.set [] 0 INode.fresh) 0 n0, leaves := PMap.set [] 1 l, nextNode := 2 }
  have hn0OK : DataOK t.sizes n0 := leafUpdate_dataOK hsz l (fresh_dataOK _)
  have hget : ∀ q, t'.nodes.get? q = if q = 0 then some n0 else none := by
    intro q; simp only [t', PMap.get?_set, PMap.get?_nil]; split <;> simp_all
  have hgetl : ∀ q, t'.leaves.get? q = if q = 1 then some l else none := by
    intro q; simp only [t', PMap.get?_set, PMap.get?_nil]
  refine ⟨t', ?_, ?_, ?_, ?_, rfl, rfl, rfl, rfl⟩
  · unfold addNodeCore newNodePos
    simp only [hn, hl, List.isEmpty_nil, ↓reduceIte, bind, Except.bind, pure, Except.pure]
    have : List.isEmpty (PMap.set ([] : PMap INode) 0 INode.fresh) = false := rfl
    simp only [this, Bool.false_eq_true, ↓reduceIte, Nat.succ_ne_zero, hp1, Tree.at, PMap.get?_nil,
      PMap.get?_set, ancestors_zero, walkUp]
    rfl
  · refine ⟨hd, hsz, ?_⟩
    intro q nq hq
    rw [hget q] at hq
    split at hq
    · simp only [Option.some.injEq] at hq; subst hq; exact hn0OK
    · cases hq
  · intro q lq hq a ha
    rw [hgetl q] at hq
    split at hq
    · rename_i hq1
      simp only [Option.some.injEq] at hq; subst hq; subst hq1
      change a ∈ ancestors t.d 1 at ha
      rw [ancestors_pos (by omega), hp1, ancestors_zero] at ha
      simp only [List.mem_singleton] at ha
      subst ha
      refine ⟨by rw [hgetl]; simp, ?_⟩
      rw [hget]; simp only [↓reduceIte]
      exact leafUpdate_holds hsz _ (fresh_dataOK _)
    · cases hq
  · refine ⟨Nat.le_refl _, Nat.le_refl _, by show 1 ≤ t.d * 1; omega, ?_, ?_, by intro a ha; rw [show t'.missing = t.missing from rfl, hm] at ha; cases ha⟩
    · intro q; rw [hget]; split <;> simp <;> omega
    · intro q; rw [hgetl]; split <;> simp <;> omega

/-- what holds of every tree built by insertions alone -/
def InsInv (t : Tree) : Prop :=
  Base t ∧ Cover t ∧ (IsEmpty t ∨ ∃ m M, Shape t m M)

theorem sortAsc_ins_mem {x y : Nat} : ∀ {l : List Nat}, y ∈ sortAsc.ins x l → y = x ∨ y ∈ l := by
  intro l
  induction l with
  | nil => intro h; simp [sortAsc.ins] at h; exact Or.inl h
  | cons z zs ih =>
    intro h
    simp only [sortAsc.ins] at h
    split at h
    · rcases List.mem_cons.mp h with h | h
      · exact Or.inl h
      · exact Or.inr h
    · rcases List.mem_cons.mp h with h | h
      · exact Or.inr (by simp [h])
      · rcases ih h with h | h
        · exact Or.inl h
        · exact Or.inr (List.mem_cons_of_mem _ h)

theorem mem_of_mem_sortAsc {l : List Nat} {y : Nat} (h : y ∈ sortAsc l) : y ∈ l := by
  unfold sortAsc at h
  have gen : ∀ (l acc : List Nat), y ∈ l.foldl (fun acc x => sortAsc.ins x acc) acc → y ∈ acc ∨ y ∈ l := by
    intro l
    induction l with
    | nil => intro acc h; exact Or.inl h
    | cons x xs ih =>
      intro acc h
      simp only [List.foldl_cons] at h
      rcases ih _ h with h | h
      · rcases sortAsc_ins_mem h with h | h
        · exact Or.inr (by simp [h])
        · exact Or.inl h
      · exact Or.inr (List.mem_cons_of_mem _ h)
  rcases gen l [] h with h | h
  · cases h
  · exact h

/-- the repair step of the current `add_node` does nothing when every listed node is present -/
theorem rebuildMissing_present {fixed : Bool} : ∀ (ps : List Nat) (t : Tree),
    (∀ p ∈ ps, (t.nodes.get? p).isSome = true) → rebuildMissing fixed ps t = .ok t := by
  intro ps
  induction ps with
  | nil => intro t _; rfl
  | cons p ps ih =>
    intro t h
    obtain ⟨n, hn⟩ := Option.isSome_iff_exists.mp (h p (List.mem_cons_self))
    simp only [rebuildMissing, rebuildFuel_succ, rebuild_present hn, bind, Except.bind]
    exact ih t (fun q hq => h q (List.mem_cons_of_mem _ hq))

/-- on an insertion-shaped (or empty) tree `add_node` is its body: nothing needs repairing -/
theorem addNode_eq_core {fixed pre : Bool} {t : Tree} (h : IsEmpty t ∨ ∃ m M, Shape t m M) (l : Leaf) :
    addNode fixed pre t l = addNodeCore fixed t l := by
  have hp : rebuildMissing fixed (sortAsc t.missing) t = .ok t := by
    apply rebuildMissing_present
    intro p hp
    have hp' := mem_of_mem_sortAsc hp
    rcases h with he | ⟨m, M, hs⟩
    · rw [he.2.2] at hp'; cases hp'
    · exact (hs.nodes p).mpr (hs.missing p hp')
  unfold addNode
  cases pre
  · simp [bind, Except.bind, pure, Except.pure]
  · simp [hp, bind, Except.bind]

/-- the body of `add_node` never fails on an insertion-shaped tree and keeps the invariant -/
theorem addNodeCore_inv {fixed : Bool} {t : Tree} (h : InsInv t) (l : Leaf) :
    ∃ t', addNodeCore fixed t l = .ok t' ∧ InsInv t' ∧ t'.d = t.d ∧ t'.sizes = t.sizes ∧
      t'.missing = t.missing ∧
      (∃ p, t'.leaves.get? p = some l) ∧
      (∀ p0 l0, t.leaves.get? p0 = some l0 → ∃ p', t'.leaves.get? p' = some l0) := by
  obtain ⟨hb, hc, hsh⟩ := h
  rcases hsh with he | ⟨m, M, hs⟩
  · obtain ⟨t', h1, hb', hc', hs', hd', hz', hm', hl'⟩ := insert_first (fixed := fixed) hb.d2 hb.sizes he l
    refine ⟨t', h1, ⟨hb', hc', Or.inr ⟨1, 1, hs'⟩⟩, hd', hz', hm', ⟨1, by rw [hl']; simp [PMap.get?_set]⟩, ?_⟩
    intro p0 l0 h0
    rw [he.2.1] at h0; cases h0
  · have hle : parent t.d (M + 1) ≤ m := by
      rw [parent_succ]
      have hd0 : 0 < t.d := by have := hb.d2; omega
      apply Nat.div_le_of_le_mul
      exact hs.Mdm
    rcases Nat.lt_or_eq_of_le hle with hP | hP
    · obtain ⟨t', h1, hb', hc', hs', hd', hz', hm', hl'⟩ := insert_under_node (fixed := fixed) hb hc hs l hP
      refine ⟨t', h1, ⟨hb', hc', Or.inr ⟨_, _, hs'⟩⟩, hd', hz', hm', ⟨M + 1, by rw [hl']; simp [PMap.get?_set]⟩, ?_⟩
      intro p0 l0 h0
      have : p0 ≤ M := ((hs.leaves p0).mp (by simp [h0])).2
      exact ⟨p0, by rw [hl', PMap.get?_set, if_neg (by omega)]; exact h0⟩
    · obtain ⟨t', lm, hlm, h1, hb', hc', hs', hd', hz', hm', hl'⟩ := insert_under_leaf (fixed := fixed) hb hc hs l hP
      have hmM := hs.mM
      refine ⟨t', h1, ⟨hb', hc', Or.inr ⟨_, _, hs'⟩⟩, hd', hz', hm',
        ⟨M + 2, by rw [hl']; simp only [PMap.get?_erase, PMap.get?_set]; rw [if_neg (by omega)]; simp⟩, ?_⟩
      intro p0 l0 h0
      have hp0 := (hs.leaves p0).mp (by simp [h0])
      by_cases hpm : p0 = m
      · subst hpm
        rw [hlm] at h0; cases h0
        exact ⟨M + 1, by rw [hl']; simp only [PMap.get?_erase, PMap.get?_set]
                         rw [if_neg (by omega), if_neg (by omega)]; simp⟩
      · exact ⟨p0, by rw [hl']; simp only [PMap.get?_erase, PMap.get?_set]
                      rw [if_neg hpm, if_neg (by omega), if_neg (by omega)]; exact h0⟩

/-- **`add_node` never fails on an insertion-built tree, and keeps the invariant**, for every
`d ≥ 2`, every filter shape, every leaf (empty and single-hash sketches included) and every
variant of the source (`_rebuild_node` older/repaired, with or without the repair step) -/
theorem addNode_inv {fixed pre : Bool} {t : Tree} (h : InsInv t) (l : Leaf) :
    ∃ t', addNode fixed pre t l = .ok t' ∧ InsInv t' ∧ t'.d = t.d ∧ t'.sizes = t.sizes ∧
      (∃ p, t'.leaves.get? p = some l) ∧
      (∀ p0 l0, t.leaves.get? p0 = some l0 → ∃ p', t'.leaves.get? p' = some l0) := by
  rw [addNode_eq_core h.2.2]
  obtain ⟨t', h1, h2, h3, h4, _, h6, h7⟩ := addNodeCore_inv (fixed := fixed) h l
  exact ⟨t', h1, h2, h3, h4, h6, h7⟩

theorem addNode_missing {fixed pre : Bool} {t t' : Tree} (h : InsInv t) {l : Leaf}
    (ha : addNode fixed pre t l = .ok t') : t'.missing = t.missing := by
  rw [addNode_eq_core h.2.2] at ha
  obtain ⟨t2, h1, _, _, _, h5, _⟩ := addNodeCore_inv (fixed := fixed) h l
  rw [h1] at ha; cases ha; exact h5

/-- trees reachable from an empty tree by any sequence of insertions (any variant of the source) -/
inductive Reach (d : Nat) (sizes : List Nat) : Tree → Prop
  | new : Reach d sizes (Tree.new d sizes)
  | ins {t t' : Tree} (fixed pre : Bool) (l : Leaf) :
      Reach d sizes t → addNode fixed pre t l = .ok t' → Reach d sizes t'

theorem new_inv {d : Nat} {sizes : List Nat} (hd : 2 ≤ d) (hs : SizesOK sizes) : InsInv (Tree.new d sizes) := by
  refine ⟨⟨hd, hs, ?_⟩, ?_, Or.inl ⟨rfl, rfl, rfl⟩⟩
  · intro p n h; simp [Tree.new, PMap.get?_nil] at h
  · intro p l h; simp [Tree.new, PMap.get?_nil] at h

theorem reach_inv {d : Nat} {sizes : List Nat} (hd : 2 ≤ d) (hs : SizesOK sizes) {t : Tree}
    (h : Reach d sizes t) : InsInv t ∧ t.d = d ∧ t.sizes = sizes ∧ t.missing = [] := by
  induction h with
  | new => exact ⟨new_inv hd hs, rfl, rfl, rfl⟩
  | ins fixed pre l _ hadd ih =>
    obtain ⟨hinv, hd', hs', hm'⟩ := ih
    obtain ⟨t2, h2, hinv2, hd2, hs2, _⟩ := addNode_inv (fixed := fixed) (pre := pre) hinv l
    have hm2 := addNode_missing hinv hadd
    rw [h2] at hadd
    cases hadd
    exact ⟨hinv2, by rw [hd2, hd'], by rw [hs2, hs'], by rw [hm2, hm']⟩

end Sm.SBT
