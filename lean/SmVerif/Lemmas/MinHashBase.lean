/-
Helper lemmas for C01 (and reused by C03/C04/C05/C14): the representation
invariant of the `MH` model and the `count` abstraction.
-/
import SmVerif.Lemmas.PairLemmas

namespace Sm

open MH

/-- representation invariant of a sketch -/
structure Inv (s : MH) : Prop where
  sorted : Sorted s.mins
  aligned : ∀ ab, s.abunds = some ab → ab.length = s.mins.length
  positive : ∀ ab, s.abunds = some ab → ∀ a ∈ ab, 0 < a
  bounded : s.maxHash ≠ 0 → ∀ h ∈ s.mins, h ≤ s.maxHash
  capped : s.num ≠ 0 → s.mins.length ≤ s.num

/-- the count a sketch carries for hash `x` (0 = absent; flat sketches carry 1) -/
def count (s : MH) (x : Nat) : Nat := ((s.pairs).lookup x).getD 0

/-- a sketch is either a num sketch or a scaled sketch, not both.  The Python
constructor enforces this; the Rust constructor does not, and `add_hash_with_abundance`
only respects the capacity `num` when it holds (see `capped_counterexample`). -/
def Excl (s : MH) : Prop := s.num = 0 ∨ s.maxHash = 0

/-- `Inv` without the capacity clause (holds in the middle of `addHashAb`) -/
structure InvW (s : MH) : Prop where
  sorted : Sorted s.mins
  aligned : ∀ ab, s.abunds = some ab → ab.length = s.mins.length
  positive : ∀ ab, s.abunds = some ab → ∀ a ∈ ab, 0 < a
  bounded : s.maxHash ≠ 0 → ∀ h ∈ s.mins, h ≤ s.maxHash

theorem Inv.toW {s : MH} (h : Inv s) : InvW s := ⟨h.sorted, h.aligned, h.positive, h.bounded⟩

theorem InvW.toInv {s : MH} (h : InvW s) (hc : s.num ≠ 0 → s.mins.length ≤ s.num) : Inv s :=
  ⟨h.sorted, h.aligned, h.positive, h.bounded, hc⟩

theorem count_eq_cnt (s : MH) (x : Nat) : count s x = cnt s.pairs x := rfl

/-! ### the three positional edits `addHashAb` is made of -/

namespace MH

def insAt (s : MH) (p h a : Nat) : MH :=
  { s with mins := s.mins.insertIdx p h,
           abunds := s.abunds.map (fun ab => ab.insertIdx p a), md5 := none }

def dropL (s : MH) : MH :=
  { s with mins := s.mins.dropLast, abunds := s.abunds.map List.dropLast, md5 := none }

def modAt (s : MH) (p a : Nat) : MH :=
  { s with abunds := s.abunds.map (fun ab => ab.modify p (· + a)) }

end MH

/-! ### `pairs` -/

theorem pairs_keys {s : MH} (hs : InvW s) : s.pairs.map Prod.fst = s.mins := by
  unfold MH.pairs
  split
  · rename_i ab hab
    exact List.map_fst_zip (Nat.le_of_eq (hs.aligned ab hab).symm)
  · simp [ones, Function.comp_def]

theorem pairs_pos {s : MH} (hs : InvW s) : ∀ q ∈ s.pairs, 0 < q.2 := by
  unfold MH.pairs
  split
  · rename_i ab hab
    intro q hq
    exact hs.positive ab hab q.2 (List.of_mem_zip hq).2
  · intro q hq
    simp only [ones, List.mem_map] at hq
    obtain ⟨y, _, rfl⟩ := hq
    exact Nat.one_pos

theorem pairs_length {s : MH} (hs : InvW s) : s.pairs.length = s.mins.length := by
  rw [← pairs_keys hs, List.length_map]

theorem pairs_none {s : MH} (h : s.abunds = none) : s.pairs = ones s.mins := by
  unfold MH.pairs; rw [h]

theorem pairs_some {s : MH} {ab : List Nat} (h : s.abunds = some ab) : s.pairs = s.mins.zip ab := by
  unfold MH.pairs; rw [h]

/-- the abundance stored for a freshly inserted hash -/
def stored (s : MH) (a : Nat) : Nat := if s.trackAbundance then a else 1

theorem pairs_insAt {s : MH} (hs : InvW s) (p h a : Nat) :
    (s.insAt p h a).pairs = s.pairs.insertIdx p (h, stored s a) := by
  obtain ⟨num, maxHash, ksize, seed, hf, mins, abunds, md5⟩ := s
  cases abunds with
  | none => simp [MH.pairs, MH.insAt, stored, MH.trackAbundance, ones, map_insertIdx']
  | some ab =>
    have := hs.aligned ab rfl
    simp only at this
    simp [MH.pairs, MH.insAt, stored, MH.trackAbundance, zip_insertIdx _ _ _ _ _ this.symm]

theorem pairs_dropL {s : MH} (hs : InvW s) : s.dropL.pairs = s.pairs.dropLast := by
  obtain ⟨num, maxHash, ksize, seed, hf, mins, abunds, md5⟩ := s
  cases abunds with
  | none => simp [MH.pairs, MH.dropL, ones, List.map_dropLast]
  | some ab =>
    have := hs.aligned ab rfl
    simp only at this
    simp [MH.pairs, MH.dropL, zip_dropLast _ _ this.symm]

theorem pairs_modAt (s : MH) (p a : Nat) :
    (s.modAt p a).pairs =
      if s.trackAbundance then s.pairs.modify p (fun q => (q.1, q.2 + a)) else s.pairs := by
  obtain ⟨num, maxHash, ksize, seed, hf, mins, abunds, md5⟩ := s
  cases abunds with
  | none => simp [MH.pairs, MH.modAt, MH.trackAbundance]
  | some ab => simp [MH.pairs, MH.modAt, MH.trackAbundance, zip_modify_right]

theorem pairs_eraseAt {s : MH} (hs : InvW s) (p : Nat) :
    ({ s with mins := s.mins.eraseIdx p, abunds := s.abunds.map (fun ab => ab.eraseIdx p),
              md5 := none } : MH).pairs = s.pairs.eraseIdx p := by
  obtain ⟨num, maxHash, ksize, seed, hf, mins, abunds, md5⟩ := s
  cases abunds with
  | none => simp [MH.pairs, ones, map_eraseIdx']
  | some ab =>
    have := hs.aligned ab rfl
    simp only at this
    simp [MH.pairs, zip_eraseIdx _ _ _ this.symm]

/-! ### weak invariant through the positional edits -/

theorem invW_insAt {s : MH} (hs : InvW s) {h a : Nat}
    (hnf : s.mins[lowerBound s.mins h]? ≠ some h) (ha : 0 < a)
    (hb : s.maxHash ≠ 0 → h ≤ s.maxHash) : InvW (s.insAt (lowerBound s.mins h) h a) := by
  have hle := lowerBound_le_length s.mins h
  refine ⟨hs.sorted.insertIdx_lowerBound hnf, ?_, ?_, ?_⟩
  · intro ab hab
    simp only [MH.insAt, Option.map_eq_some_iff] at hab
    obtain ⟨ab0, hab0, rfl⟩ := hab
    have := hs.aligned ab0 hab0
    simp only [MH.insAt, List.length_insertIdx, this, hle, if_true]
  · intro ab hab
    simp only [MH.insAt, Option.map_eq_some_iff] at hab
    obtain ⟨ab0, hab0, rfl⟩ := hab
    have hal := hs.aligned ab0 hab0
    intro x hx
    rcases (List.mem_insertIdx (by omega)).1 hx with rfl | hx
    · exact ha
    · exact hs.positive ab0 hab0 x hx
  · intro hM x hx
    simp only [MH.insAt] at hM hx
    rcases (List.mem_insertIdx hle).1 hx with rfl | hx
    · exact hb hM
    · exact hs.bounded hM x hx

theorem invW_dropL {s : MH} (hs : InvW s) : InvW s.dropL := by
  refine ⟨hs.sorted.dropLast, ?_, ?_, ?_⟩
  · intro ab hab
    simp only [MH.dropL, Option.map_eq_some_iff] at hab
    obtain ⟨ab0, hab0, rfl⟩ := hab
    simp [MH.dropL, hs.aligned ab0 hab0]
  · intro ab hab
    simp only [MH.dropL, Option.map_eq_some_iff] at hab
    obtain ⟨ab0, hab0, rfl⟩ := hab
    intro x hx
    exact hs.positive ab0 hab0 x (mem_dropLast' hx)
  · intro hM x hx
    exact hs.bounded hM x (mem_dropLast' hx)

theorem invW_modAt {s : MH} (hs : InvW s) (p a : Nat) : InvW (s.modAt p a) := by
  refine ⟨hs.sorted, ?_, ?_, hs.bounded⟩
  · intro ab hab
    simp only [MH.modAt, Option.map_eq_some_iff] at hab
    obtain ⟨ab0, hab0, rfl⟩ := hab
    simp [MH.modAt, hs.aligned ab0 hab0]
  · intro ab hab
    simp only [MH.modAt, Option.map_eq_some_iff] at hab
    obtain ⟨ab0, hab0, rfl⟩ := hab
    intro x hx
    rw [List.mem_iff_getElem?] at hx
    obtain ⟨i, hi⟩ := hx
    rw [List.getElem?_modify] at hi
    cases hget : ab0[i]? with
    | none => simp [hget] at hi
    | some v =>
      have hv := hs.positive ab0 hab0 v (List.mem_of_getElem? hget)
      simp only [hget, Option.map_eq_map, Option.map_some, Option.some.injEq] at hi
      split at hi <;> omega

/-! ### `new`, `clear`, `removeHash` -/

theorem inv_new (sc k hf seed : Nat) (tr : Bool) (n : Nat) : Inv (MH.new sc k hf seed tr n) := by
  refine ⟨by simp [MH.new, Sorted], ?_, ?_, by simp [MH.new], by simp [MH.new]⟩
  · intro ab hab
    cases tr <;> simp [MH.new] at hab ⊢
    exact hab ▸ rfl
  · intro ab hab
    cases tr <;> simp [MH.new] at hab
    subst hab; simp

theorem inv_clear {s : MH} (_hs : Inv s) : Inv s.clear := by
  refine ⟨by simp [MH.clear, Sorted], ?_, ?_, by simp [MH.clear], by simp [MH.clear]⟩
  · intro ab hab
    simp only [MH.clear, Option.map_eq_some_iff] at hab
    obtain ⟨_, _, rfl⟩ := hab
    rfl
  · intro ab hab
    simp only [MH.clear, Option.map_eq_some_iff] at hab
    obtain ⟨_, _, rfl⟩ := hab
    simp

theorem invW_eraseAt {s : MH} (hs : InvW s) (p : Nat) :
    InvW ({ s with mins := s.mins.eraseIdx p, abunds := s.abunds.map (fun ab => ab.eraseIdx p),
                   md5 := none } : MH) := by
  refine ⟨hs.sorted.eraseIdx p, ?_, ?_, ?_⟩
  · intro ab hab
    simp only [Option.map_eq_some_iff] at hab
    obtain ⟨ab0, hab0, rfl⟩ := hab
    simp [List.length_eraseIdx, hs.aligned ab0 hab0]
  · intro ab hab
    simp only [Option.map_eq_some_iff] at hab
    obtain ⟨ab0, hab0, rfl⟩ := hab
    intro x hx
    exact hs.positive ab0 hab0 x (List.mem_of_mem_eraseIdx hx)
  · intro hM x hx
    exact hs.bounded hM x (List.mem_of_mem_eraseIdx hx)

theorem inv_removeHash {s : MH} (hs : Inv s) (h : Nat) : Inv (s.removeHash h) := by
  unfold MH.removeHash
  split
  · rename_i pos _
    refine (invW_eraseAt hs.toW pos).toInv ?_
    intro hn
    have := hs.capped hn
    have := (List.eraseIdx_sublist s.mins pos).length_le
    simp only at *
    omega
  · exact hs

end Sm
