/-
`merge`: what it returns, the invariant, the counts (scaled) and the
`num`-smallest characterisation (num).
-/
import SmVerif.Lemmas.MinHashCount

namespace Sm

open MH

theorem checkCompatible_cases (s o : MH) : (∃ e, s.checkCompatible o = .error e) ∨
    (s.checkCompatible o = .ok () ∧
      s.ksize = o.ksize ∧ s.hf = o.hf ∧ s.maxHash = o.maxHash ∧ s.seed = o.seed) := by
  unfold MH.checkCompatible
  repeat' split
  all_goals simp_all

theorem checkCompatible_ok_of {s o : MH} (h1 : s.ksize = o.ksize) (h2 : s.hf = o.hf)
    (h3 : s.maxHash = o.maxHash) (h4 : s.seed = o.seed) : s.checkCompatible o = .ok () := by
  unfold MH.checkCompatible
  simp [h1, h2, h3, h4]

/-- the pair list `merge` stores -/
def mergedOf (s o : MH) : List (Nat × Nat) :=
  if (mergeP s.pairs o.pairs).length > s.num ∧ s.num ≠ 0 then (mergeP s.pairs o.pairs).take s.num
  else mergeP s.pairs o.pairs

theorem merge_ok {s o r : MH} (h : s.merge o = .ok r) :
    (s.ksize = o.ksize ∧ s.hf = o.hf ∧ s.maxHash = o.maxHash ∧ s.seed = o.seed) ∧
    r = { s with mins := (mergedOf s o).map Prod.fst,
                 abunds := if s.abunds.isSome
                           then some ((mergedOf s o).map Prod.snd) else none,
                 md5 := none } := by
  unfold MH.merge at h
  rcases checkCompatible_cases s o with ⟨e, he⟩ | ⟨hok, hc⟩
  · rw [he] at h
    simp [bind, Except.bind] at h
  · rw [hok] at h
    simp only [bind, Except.bind, pure, Except.pure, Except.ok.injEq] at h
    exact ⟨hc, h.symm⟩

theorem merge_eq_ok_of {s o : MH} (h1 : s.ksize = o.ksize) (h2 : s.hf = o.hf)
    (h3 : s.maxHash = o.maxHash) (h4 : s.seed = o.seed) : ∃ r, s.merge o = .ok r := by
  unfold MH.merge
  rw [checkCompatible_ok_of h1 h2 h3 h4]
  exact ⟨_, rfl⟩

theorem mergedOf_sublist (s o : MH) : (mergedOf s o).Sublist (mergeP s.pairs o.pairs) := by
  unfold mergedOf
  split
  · exact List.take_sublist _ _
  · exact List.Sublist.refl _

theorem mergedOf_length (s o : MH) (hn : s.num ≠ 0) : (mergedOf s o).length ≤ s.num := by
  unfold mergedOf
  split
  · simp [List.length_take]; omega
  · omega

theorem merge_frame {s o r : MH} (h : s.merge o = .ok r) :
    r.num = s.num ∧ r.maxHash = s.maxHash ∧ r.ksize = s.ksize ∧ r.seed = s.seed ∧ r.hf = s.hf ∧
    r.trackAbundance = s.trackAbundance := by
  obtain ⟨_, rfl⟩ := merge_ok h
  refine ⟨rfl, rfl, rfl, rfl, rfl, ?_⟩
  simp only [MH.trackAbundance]
  split <;> simp_all

theorem inv_merge {s o r : MH} (hs : Inv s) (ho : Inv o) (hr : s.merge o = .ok r) : Inv r := by
  obtain ⟨⟨_, _, hM, _⟩, rfl⟩ := merge_ok hr
  have hsub := mergedOf_sublist s o
  have hks : Sorted (s.pairs.map Prod.fst) := by rw [pairs_keys hs.toW]; exact hs.sorted
  have hko : Sorted (o.pairs.map Prod.fst) := by rw [pairs_keys ho.toW]; exact ho.sorted
  refine ⟨?_, ?_, ?_, ?_, ?_⟩
  · exact (sorted_keys_mergeP _ _ hks hko).sublist (hsub.map Prod.fst)
  · intro ab hab
    simp only at hab
    split at hab
    · cases hab; simp
    · cases hab
  · intro ab hab
    simp only at hab
    split at hab
    · cases hab
      intro a ha
      obtain ⟨q, hq, rfl⟩ := List.mem_map.1 ha
      exact pos_mergeP _ _ (pairs_pos hs.toW) (pairs_pos ho.toW) q (hsub.subset hq)
    · cases hab
  · intro hM0 x hx
    simp only at hM0 hx
    have hx' := (hsub.map Prod.fst).subset hx
    rcases (mem_keys_mergeP x _ _).1 hx' with hx' | hx'
    · rw [pairs_keys hs.toW] at hx'
      exact hs.bounded hM0 x hx'
    · rw [pairs_keys ho.toW] at hx'
      rw [hM]
      exact ho.bounded (by rw [← hM]; exact hM0) x hx'
  · intro hn
    simp only [List.length_map] at hn ⊢
    exact mergedOf_length s o hn

theorem merge_pairs {s o r : MH} (hr : s.merge o = .ok r) :
    r.pairs = if s.trackAbundance then mergedOf s o
              else ones ((mergedOf s o).map Prod.fst) := by
  obtain ⟨_, rfl⟩ := merge_ok hr
  by_cases hb : s.trackAbundance = true
  · rw [if_pos hb]
    unfold MH.pairs
    simp only [MH.trackAbundance] at hb
    simp only [hb, if_true, zip_map_fst_snd]
  · rw [if_neg hb]
    unfold MH.pairs
    simp only [MH.trackAbundance] at hb
    simp only [hb]
    rfl

/-- merge: counts add when both sides track abundance; otherwise the result is
flat and holds the union -/
theorem count_merge_scaled' {s o r : MH} (hs : Inv s) (ho : Inv o) (hn : s.num = 0)
    (hr : s.merge o = .ok r) (x : Nat) :
    r.trackAbundance = s.trackAbundance ∧
    count r x = if s.trackAbundance then count s x + count o x
                else min 1 (count s x + count o x) := by
  refine ⟨(merge_frame hr).2.2.2.2.2, ?_⟩
  have hks : Sorted (s.pairs.map Prod.fst) := by rw [pairs_keys hs.toW]; exact hs.sorted
  have hko : Sorted (o.pairs.map Prod.fst) := by rw [pairs_keys ho.toW]; exact ho.sorted
  have hm : mergedOf s o = mergeP s.pairs o.pairs := by
    unfold mergedOf
    rw [if_neg (fun hc => hc.2 hn)]
  rw [count_eq_cnt, merge_pairs hr, hm]
  simp only [count_eq_cnt]
  by_cases hb : s.trackAbundance = true
  · rw [if_pos hb, if_pos hb]
    exact cnt_mergeP x _ _ hks hko
  · rw [if_neg hb, if_neg hb, cnt_ones]
    have h1 := cnt_pos_iff (pairs_pos hs.toW) x
    have h2 := cnt_pos_iff (pairs_pos ho.toW) x
    have h3 := mem_keys_mergeP x s.pairs o.pairs
    by_cases hmem : x ∈ (mergeP s.pairs o.pairs).map Prod.fst
    · rw [if_pos hmem]
      rcases h3.1 hmem with h | h
      · have := h1.2 h; omega
      · have := h2.2 h; omega
    · rw [if_neg hmem]
      have n1 : ¬ 0 < cnt s.pairs x := fun hc => hmem (h3.2 (Or.inl (h1.1 hc)))
      have n2 : ¬ 0 < cnt o.pairs x := fun hc => hmem (h3.2 (Or.inr (h2.1 hc)))
      omega

/-- merging num sketches keeps the `num` smallest of the sorted union -/
theorem num_merge_take' {s o r : MH} (hr : s.merge o = .ok r) (hn : s.num ≠ 0) :
    r.pairs.map Prod.fst = ((mergeP s.pairs o.pairs).take s.num).map Prod.fst := by
  have hm : mergedOf s o = (mergeP s.pairs o.pairs).take s.num := by
    unfold mergedOf
    split
    · rfl
    · rw [List.take_of_length_le (by omega)]
  rw [merge_pairs hr, ← hm]
  split
  · rfl
  · simp [ones, Function.comp_def]

end Sm
