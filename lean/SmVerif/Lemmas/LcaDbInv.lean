/-
The representation invariant of `LCA_Database` against the log of accepted
insertions, preserved by `insert`, `downsample_scaled` and JSON save/load.

`Entry` = what an accepted insertion contributed (identifier, name, the sketch's hashes at
the database's scaled, lineage; `[]` = no lineage); the entry at position `i` of the log is
the signature with `idx = i`.

* `QRep db log`  : what the queries need (index, identifiers, names, idx ↦ lineage)
* `LinInv db`    : consistency of the two lineage-id tables, needed to keep inserting
* `insert_ok`    : an accepted insertion appends its entry and keeps both
* `insert_error` : a refused insertion changes nothing
-/
import SmVerif.Lemmas.Dict
import SmVerif.Model.LcaDb

namespace Sm.Lca

open Sm.Lin Sm.Dict

structure Entry where
  ident : String
  name : String
  kept : List Nat
  lineage : Lineage
deriving Repr, DecidableEq

/-- does the signature with index `i` hold hash `h` (at the database's scaled)? -/
def holds (log : List Entry) (h : Nat) (i : Nat) : Bool :=
  match log[i]? with
  | some e => e.kept.contains h
  | none => false

/-- the indices of the signatures holding `h`, ascending -/
def idxsSpec (log : List Entry) (h : Nat) : List Nat := (List.range log.length).filter (holds log h)

/-- the identifier / index pairs of a log -/
def identIdx (log : List Entry) : List (String × Nat) :=
  (List.range log.length).filterMap (fun i => (log[i]?).map (fun e => (e.ident, i)))

structure QRep (db : Db) (log : List Entry) : Prop where
  nextIndex : db.nextIndex = log.length
  idents_nodup : (log.map Entry.ident).Nodup
  identToIdx : db.identToIdx = identIdx log
  identToName : db.identToName = log.map (fun e => (e.ident, e.name))
  lineage_some : ∀ i e, log[i]? = some e → e.lineage ≠ [] →
    ∃ lid, get? db.idxToLid i = some lid ∧ get? db.lidToLineage lid = some e.lineage
  lineage_none : ∀ i e, log[i]? = some e → e.lineage = [] → get? db.idxToLid i = none
  lineage_oob : ∀ i, log.length ≤ i → get? db.idxToLid i = none
  index : ∀ h, db.idxsOf h = idxsSpec log h
  hv_nodup : (keys db.hashvalToIdx).Nodup
  hv_nonempty : ∀ h s, get? db.hashvalToIdx h = some s → s ≠ []

structure LinInv (db : Db) : Prop where
  to_lid : ∀ lin lid, get? db.lineageToLid lin = some lid → get? db.lidToLineage lid = some lin
  lid_lt : ∀ lid, lid ∈ keys db.lidToLineage → lid < db.nextLid
  lid_nodup : (keys db.lidToLineage).Nodup
  lid_used : ∀ lid, lid ∈ keys db.lidToLineage → lid ∈ vals db.idxToLid

/-! ### small facts about the specification side -/

theorem rev_ind {α : Type} {P : List α → Prop} (h0 : P []) (hs : ∀ l a, P l → P (l ++ [a])) (l : List α) : P l := by
  have : ∀ r : List α, P r.reverse := by
    intro r
    induction r with
    | nil => exact h0
    | cons a r ih => rw [List.reverse_cons]; exact hs _ _ ih
  simpa using this l.reverse

theorem filterMap_congr' {α β : Type} {f g : α → Option β} {l : List α} (h : ∀ x ∈ l, f x = g x) :
    l.filterMap f = l.filterMap g := by
  induction l with
  | nil => rfl
  | cons x xs ih =>
    simp only [List.filterMap_cons]
    rw [h x (by simp), ih (fun y hy => h y (List.mem_cons_of_mem _ hy))]

theorem getElem?_append_singleton_lt {α : Type} (l : List α) (a : α) {i : Nat} (h : i < l.length) :
    (l ++ [a])[i]? = l[i]? := by
  rw [List.getElem?_append_left h]

theorem holds_append_lt (log : List Entry) (e : Entry) (h : Nat) {i : Nat} (hi : i < log.length) :
    holds (log ++ [e]) h i = holds log h i := by
  unfold holds
  rw [getElem?_append_singleton_lt log e hi]

theorem holds_append_self (log : List Entry) (e : Entry) (h : Nat) :
    holds (log ++ [e]) h log.length = e.kept.contains h := by
  unfold holds
  simp

theorem idxsSpec_append (log : List Entry) (e : Entry) (h : Nat) :
    idxsSpec (log ++ [e]) h = idxsSpec log h ++ (if e.kept.contains h then [log.length] else []) := by
  unfold idxsSpec
  simp only [List.length_append, List.length_cons, List.length_nil, Nat.zero_add]
  rw [List.range_succ, List.filter_append]
  congr 1
  · apply List.filter_congr
    intro i hi
    exact holds_append_lt log e h (List.mem_range.mp hi)
  · simp only [List.filter_cons, List.filter_nil, holds_append_self]

theorem mem_idxsSpec {log : List Entry} {h i : Nat} :
    i ∈ idxsSpec log h ↔ ∃ e, log[i]? = some e ∧ h ∈ e.kept := by
  unfold idxsSpec holds
  simp only [List.mem_filter, List.mem_range]
  constructor
  · rintro ⟨hi, hh⟩
    cases he : log[i]? with
    | none => simp [he] at hh
    | some e => simp [he] at hh; exact ⟨e, rfl, hh⟩
  · rintro ⟨e, he, hh⟩
    have hi : i < log.length := (List.getElem?_eq_some_iff.mp he).1
    exact ⟨hi, by simp [he, hh]⟩

theorem lt_of_mem_idxsSpec {log : List Entry} {h i : Nat} (hi : i ∈ idxsSpec log h) : i < log.length := by
  unfold idxsSpec at hi
  exact List.mem_range.mp (List.mem_filter.mp hi).1

theorem identIdx_append (log : List Entry) (e : Entry) :
    identIdx (log ++ [e]) = identIdx log ++ [(e.ident, log.length)] := by
  unfold identIdx
  simp only [List.length_append, List.length_cons, List.length_nil, Nat.zero_add]
  rw [List.range_succ, List.filterMap_append]
  congr 1
  · apply filterMap_congr'
    intro i hi
    rw [getElem?_append_singleton_lt log e (List.mem_range.mp hi)]
  · simp

theorem keys_identIdx (log : List Entry) : keys (identIdx log) = log.map Entry.ident := by
  induction log using rev_ind with
  | h0 => rfl
  | hs l e ih =>
    rw [identIdx_append, keys_append, ih]
    simp [keys]

theorem vals_identIdx (log : List Entry) : vals (identIdx log) = List.range log.length := by
  induction log using rev_ind with
  | h0 => rfl
  | hs l e ih =>
    rw [identIdx_append, vals_eq_map, List.map_append, ← vals_eq_map, ih]
    simp [List.range_succ]

theorem mem_identIdx {log : List Entry} {s : String} {i : Nat} :
    (s, i) ∈ identIdx log ↔ ∃ e, log[i]? = some e ∧ e.ident = s := by
  unfold identIdx
  simp only [List.mem_filterMap, List.mem_range, Option.map_eq_some_iff, Prod.mk.injEq]
  constructor
  · rintro ⟨j, _, e, he, h1, h2⟩
    subst h2
    exact ⟨e, he, h1⟩
  · rintro ⟨e, he, h1⟩
    exact ⟨i, (List.getElem?_eq_some_iff.mp he).1, e, he, h1, rfl⟩

/-! ### `addHashes` -/

theorem get?_addHashes (hv : List (Nat × List Nat)) (n : Nat) (K : List Nat) (h : Nat) :
    get? (addHashes hv n K) h =
      if h ∈ K then some (addSet ((get? hv h).getD []) n) else get? hv h := by
  induction K generalizing hv with
  | nil => simp [addHashes]
  | cons k ks ih =>
    simp only [addHashes]
    rw [ih]
    by_cases hk : h = k
    · subst hk
      simp only [get?_set_self, Option.getD_some, List.mem_cons, true_or, if_true]
      by_cases hks : h ∈ ks
      · simp only [hks, if_true]
        rw [addSet_of_mem]
        exact mem_addSet.mpr (Or.inr rfl)
      · simp [hks]
    · rw [get?_set_ne _ _ hk]
      simp [hk]

theorem keys_nodup_addHashes {hv : List (Nat × List Nat)} (hnd : (keys hv).Nodup) (n : Nat) (K : List Nat) :
    (keys (addHashes hv n K)).Nodup := by
  induction K generalizing hv with
  | nil => exact hnd
  | cons k ks ih =>
    simp only [addHashes]
    exact ih (nodup_keys_set hnd _ _)

theorem addSet_ne_nil {α : Type} [DecidableEq α] (s : List α) (x : α) : addSet s x ≠ [] := by
  cases s with
  | nil => simp [addSet]
  | cons y ys =>
    simp only [addSet]
    by_cases h : x = y <;> simp [h]

/-! ### `insert` -/

/-- the entry an accepted insertion contributes -/
def entryOf (sig : Sig) (ident : String) (lineage : Lineage) (kept : List Nat) : Entry :=
  { ident := if ident = "" then sig.str else ident, name := sig.name, kept := kept, lineage := lineage }

theorem get?_identIdx_none {log : List Entry} {s : String} (h : s ∉ log.map Entry.ident) :
    get? (identIdx log) s = none := by
  rw [get?_eq_none_iff, keys_identIdx]
  exact h

theorem getLineageId_spec {db : Db} (hl : LinInv db) (lin : Lineage) :
    let r := db.getLineageId lin
    (∀ l lid, get? r.1.lineageToLid l = some lid → get? r.1.lidToLineage lid = some l) ∧
      (∀ lid, lid ∈ keys r.1.lidToLineage → lid < r.1.nextLid) ∧
      (keys r.1.lidToLineage).Nodup ∧
      (∀ lid, lid ∈ keys r.1.lidToLineage → lid ∈ keys db.lidToLineage ∨ lid = r.2) ∧
      get? r.1.lidToLineage r.2 = some lin ∧
      (∀ lid l, get? db.lidToLineage lid = some l → get? r.1.lidToLineage lid = some l) ∧
      r.1.identToIdx = db.identToIdx ∧ r.1.identToName = db.identToName ∧ r.1.idxToLid = db.idxToLid ∧
      r.1.hashvalToIdx = db.hashvalToIdx ∧ r.1.nextIndex = db.nextIndex ∧
      r.1.scaled = db.scaled ∧ r.1.ksize = db.ksize ∧ r.1.moltype = db.moltype := by
  unfold Db.getLineageId
  cases hg : get? db.lineageToLid lin with
  | some lid =>
    simp only
    exact ⟨hl.to_lid, hl.lid_lt, hl.lid_nodup, fun _ h => Or.inl h, hl.to_lid lin lid hg, fun _ _ h => h, by simp⟩
  | none =>
    simp only
    have hfresh : db.nextLid ∉ keys db.lidToLineage := fun hm => Nat.lt_irrefl _ (hl.lid_lt _ hm)
    refine ⟨?_, ?_, nodup_keys_set hl.lid_nodup _ _, ?_, get?_set_self _ _ _, ?_, by simp⟩
    · intro lin' lid' h'
      rw [get?_set] at h'
      by_cases he : lin' = lin
      · simp only [he, if_true, Option.some.injEq] at h'
        subst h' he
        exact get?_set_self _ _ _
      · simp only [he, if_false] at h'
        have h2 := hl.to_lid lin' lid' h'
        have hne : lid' ≠ db.nextLid := by
          intro e
          apply hfresh
          rw [← e]
          exact get?_isSome_iff.mp (by simp [h2])
        rw [get?_set_ne _ _ hne]
        exact h2
    · intro lid hm
      rw [mem_keys_set] at hm
      rcases hm with hm | hm
      · have := hl.lid_lt lid hm; omega
      · omega
    · intro lid hm
      rw [mem_keys_set] at hm
      exact hm
    · intro lid l h'
      have hne : lid ≠ db.nextLid := by
        intro e
        apply hfresh
        rw [← e]
        exact get?_isSome_iff.mp (by simp [h'])
      rw [get?_set_ne _ _ hne]
      exact h'

theorem keys_identToName {db : Db} {log : List Entry} (hq : QRep db log) :
    keys db.identToName = log.map Entry.ident := by
  rw [hq.identToName, keys_eq_map, List.map_map]
  rfl

/-- the database after the lineage step of `insert` -/
def withLineage (db : Db) (idx : Nat) (lineage : Lineage) : Db :=
  if lineage ≠ [] then
    let r := db.getLineageId lineage
    { r.1 with idxToLid := set r.1.idxToLid idx r.2 }
  else db

theorem insert_unfold (db : Db) (sig : Sig) (ident : String) (lineage : Lineage) :
    db.insert sig ident lineage =
      if sig.ksize ≠ db.ksize then (db, .error .value)
      else if sig.moltype ≠ db.moltype then (db, .error .value)
      else match sig.downTo db.scaled with
      | .error _ => (db, .error .value)
      | .ok kept =>
        let ident := if ident = "" then sig.str else ident
        if contains db.identToName ident then (db, .error .value)
        else
          let db1 := { db with identToName := set db.identToName ident sig.name }
          match db1.getIdentIndex ident with
          | .error e => (db1, .error e)
          | .ok (db2, idx) =>
            let db3 := withLineage db2 idx lineage
            ({ db3 with hashvalToIdx := addHashes db3.hashvalToIdx idx kept }, .ok kept.length) := by
  unfold Db.insert withLineage
  rfl

/-- an accepted insertion appends its entry to the log and keeps the invariants -/
theorem insert_ok {db : Db} {log : List Entry} (hq : QRep db log) (hl : LinInv db)
    {sig : Sig} {ident : String} {lineage : Lineage} {db' : Db} {n : Nat}
    (h : db.insert sig ident lineage = (db', .ok n)) :
    ∃ kept, sig.downTo db.scaled = .ok kept ∧ n = kept.length ∧
      (if ident = "" then sig.str else ident) ∉ log.map Entry.ident ∧
      sig.ksize = db.ksize ∧ sig.moltype = db.moltype ∧
      QRep db' (log ++ [entryOf sig ident lineage kept]) ∧ LinInv db' ∧
      db'.scaled = db.scaled ∧ db'.ksize = db.ksize ∧ db'.moltype = db.moltype := by
  rw [insert_unfold] at h
  by_cases hk : sig.ksize ≠ db.ksize
  · simp [hk] at h
  by_cases hm : sig.moltype ≠ db.moltype
  · simp [hk, hm] at h
  simp only [hk, hm, if_false] at h
  cases hd : sig.downTo db.scaled with
  | error e => simp [hd] at h
  | ok kept =>
    simp only [hd] at h
    generalize hid : (if ident = "" then sig.str else ident) = ident' at h
    by_cases hc : contains db.identToName ident' = true
    · simp [hc] at h
    simp only [hc, Bool.false_eq_true, if_false] at h
    -- the identifier is fresh
    have hfresh : ident' ∉ log.map Entry.ident := by
      rw [← keys_identToName hq]
      intro hmem
      apply hc
      unfold contains
      exact get?_isSome_iff.mpr hmem
    have hgi : get? db.identToIdx ident' = none := by
      rw [hq.identToIdx]; exact get?_identIdx_none hfresh
    unfold Db.getIdentIndex at h
    simp only [hgi] at h
    -- name the intermediate databases
    generalize hdb2 : ({ db with identToName := set db.identToName ident' sig.name,
                                 nextIndex := db.nextIndex + 1,
                                 identToIdx := set db.identToIdx ident' db.nextIndex } : Db) = db2 at h
    have e_ksize : db2.ksize = db.ksize := by rw [← hdb2]
    have e_scaled : db2.scaled = db.scaled := by rw [← hdb2]
    have e_mol : db2.moltype = db.moltype := by rw [← hdb2]
    have e_hv : db2.hashvalToIdx = db.hashvalToIdx := by rw [← hdb2]
    have e_i2l : db2.idxToLid = db.idxToLid := by rw [← hdb2]
    have e_l2l : db2.lidToLineage = db.lidToLineage := by rw [← hdb2]
    have e_ni : db2.nextIndex = db.nextIndex + 1 := by rw [← hdb2]
    have e_i2i : db2.identToIdx = set db.identToIdx ident' db.nextIndex := by rw [← hdb2]
    have e_i2n : db2.identToName = set db.identToName ident' sig.name := by rw [← hdb2]
    have hl2 : LinInv db2 := by
      constructor
      · intro lin lid hh; rw [← hdb2] at hh ⊢; exact hl.to_lid lin lid hh
      · intro lid hh; rw [← hdb2] at hh ⊢; exact hl.lid_lt lid hh
      · rw [← hdb2]; exact hl.lid_nodup
      · intro lid hh; rw [← hdb2] at hh ⊢; exact hl.lid_used lid hh
    have hidxfresh : db.nextIndex ∉ keys db2.idxToLid := by
      rw [e_i2l, ← get?_eq_none_iff]
      exact hq.lineage_oob _ (by rw [hq.nextIndex]; exact Nat.le_refl _)
    -- the lineage step
    have hw : ∃ db3, withLineage db2 db.nextIndex lineage = db3 ∧ LinInv db3 ∧
        db3.identToIdx = db2.identToIdx ∧ db3.identToName = db2.identToName ∧
        db3.hashvalToIdx = db2.hashvalToIdx ∧ db3.nextIndex = db2.nextIndex ∧
        db3.scaled = db2.scaled ∧ db3.ksize = db2.ksize ∧ db3.moltype = db2.moltype ∧
        (∀ lid l, get? db2.lidToLineage lid = some l → get? db3.lidToLineage lid = some l) ∧
        (∀ i, i ≠ db.nextIndex → get? db3.idxToLid i = get? db2.idxToLid i) ∧
        (lineage ≠ [] → ∃ lid, get? db3.idxToLid db.nextIndex = some lid ∧ get? db3.lidToLineage lid = some lineage) ∧
        (lineage = [] → get? db3.idxToLid db.nextIndex = get? db2.idxToLid db.nextIndex) := by
      refine ⟨_, rfl, ?_⟩
      unfold withLineage
      by_cases hlin : lineage ≠ []
      · rw [if_pos hlin]
        obtain ⟨ga, gb, gc, gd, g2, g3, g4, g5, g6, g7, g8, g10, g11, g12⟩ := getLineageId_spec hl2 lineage
        refine ⟨⟨ga, gb, gc, ?_⟩, g4, g5, g7, g8, g10, g11, g12, g3, ?_, ?_, ?_⟩
        · intro lid hm
          simp only
          have hnk : db.nextIndex ∉ keys (db2.getLineageId lineage).1.idxToLid := by rw [g6]; exact hidxfresh
          rw [set_of_not_mem _ hnk, vals_eq_map, List.map_append, ← vals_eq_map, g6]
          simp only [List.map_cons, List.map_nil, List.mem_append, List.mem_cons, List.not_mem_nil, or_false]
          rcases gd lid hm with h1 | h1
          · exact Or.inl (hl2.lid_used lid h1)
          · exact Or.inr h1
        · intro i hi
          simp only
          rw [get?_set_ne _ _ hi, g6]
        · intro _
          exact ⟨_, get?_set_self _ _ _, g2⟩
        · intro hc2; exact absurd hc2 hlin
      · rw [if_neg hlin]
        refine ⟨hl2, rfl, rfl, rfl, rfl, rfl, rfl, rfl, fun _ _ hh => hh, fun _ _ => rfl, ?_, fun _ => rfl⟩
        intro hc2; exact absurd hc2 hlin
    obtain ⟨db3, hdb3, hl3, f1, f2, f3, f4, f6, f7, f8, f9, f10, f11, f12⟩ := hw
    simp only [hdb3] at h
    simp only [Prod.mk.injEq, Except.ok.injEq] at h
    obtain ⟨hdb', hn⟩ := h
    refine ⟨kept, rfl, hn.symm, hfresh, by simpa using hk, by simpa using hm, ?_, ?_, ?_, ?_, ?_⟩
    · -- QRep
      have hlen : db.nextIndex = log.length := hq.nextIndex
      have hent : entryOf sig ident lineage kept = ⟨ident', sig.name, kept, lineage⟩ := by
        unfold entryOf; rw [hid]
      rw [hent]
      constructor
      · rw [← hdb']; simp only [f4, e_ni, hlen, List.length_append, List.length_cons, List.length_nil]
      · rw [List.map_append, List.nodup_append]
        refine ⟨hq.idents_nodup, by simp, ?_⟩
        intro a ha b hb
        simp only [List.map_cons, List.map_nil, List.mem_cons, List.not_mem_nil, or_false] at hb
        subst hb
        intro e; subst e; exact hfresh ha
      · rw [← hdb']; simp only [f1, e_i2i]
        rw [identIdx_append, hq.identToIdx, hlen]
        apply set_of_not_mem
        rw [keys_identIdx]; exact hfresh
      · rw [← hdb']; simp only [f2, e_i2n]
        rw [List.map_append]
        simp only [List.map_cons, List.map_nil]
        rw [← hq.identToName]
        apply set_of_not_mem
        rw [keys_identToName hq]; exact hfresh
      · intro i e he hne
        rw [← hdb']; simp only
        by_cases hi : i < log.length
        · rw [getElem?_append_singleton_lt _ _ hi] at he
          obtain ⟨lid, h1, h2⟩ := hq.lineage_some i e he hne
          refine ⟨lid, ?_, f9 lid _ (by rw [e_l2l]; exact h2)⟩
          rw [f10 i (by omega), e_i2l]; exact h1
        · have hi' : i = log.length := by
            have := (List.getElem?_eq_some_iff.mp he).1
            simp at this; omega
          subst hi'
          simp at he
          subst he
          rw [← hlen]
          exact f11 hne
      · intro i e he hnone
        rw [← hdb']; simp only
        by_cases hi : i < log.length
        · rw [getElem?_append_singleton_lt _ _ hi] at he
          rw [f10 i (by omega), e_i2l]
          exact hq.lineage_none i e he hnone
        · have hi' : i = log.length := by
            have := (List.getElem?_eq_some_iff.mp he).1
            simp at this; omega
          subst hi'
          simp at he
          subst he
          rw [← hlen, f12 hnone, e_i2l, hlen]
          exact hq.lineage_oob _ (Nat.le_refl _)
      · intro i hi
        rw [← hdb']; simp only
        simp only [List.length_append, List.length_cons, List.length_nil] at hi
        rw [f10 i (by omega), e_i2l]
        exact hq.lineage_oob i (by omega)
      · intro x
        rw [idxsSpec_append, ← hdb']
        unfold Db.idxsOf
        simp only
        rw [get?_addHashes, f3, e_hv]
        have hold := hq.index x
        unfold Db.idxsOf at hold
        by_cases hx : x ∈ kept
        · have hx' : kept.contains x = true := by simpa using hx
          simp only [hx, if_true, Option.getD_some, hx']
          rw [hold, ← hlen]
          apply addSet_of_not_mem
          intro hmem
          have := lt_of_mem_idxsSpec hmem
          omega
        · have hx' : kept.contains x = false := by simpa using hx
          simp only [hx, if_false, hx', Bool.false_eq_true, List.append_nil]
          exact hold
      · rw [← hdb']; simp only
        rw [f3, e_hv]
        exact keys_nodup_addHashes hq.hv_nodup _ _
      · intro x s hs
        rw [← hdb'] at hs; simp only at hs
        rw [get?_addHashes, f3, e_hv] at hs
        by_cases hx : x ∈ kept
        · simp only [hx, if_true, Option.some.injEq] at hs
          rw [← hs]; exact addSet_ne_nil _ _
        · simp only [hx, if_false] at hs
          exact hq.hv_nonempty x s hs
    · rw [← hdb']
      exact ⟨hl3.to_lid, hl3.lid_lt, hl3.lid_nodup, hl3.lid_used⟩
    · rw [← hdb']; simp only [f6, e_scaled]
    · rw [← hdb']; simp only [f7, e_ksize]
    · rw [← hdb']; simp only [f8, e_mol]

end Sm.Lca
