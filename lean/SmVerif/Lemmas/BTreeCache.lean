/-
C11 for the tree-backed sketch: the md5 cache of `KmerMinHashBTree` is empty or holds the digest
of the current k-mer size and hashes, in every state reachable through any of its operations
(both variants of the four D14 sites), for ANY parameters (no num/scaled exclusivity needed:
the only structural fact used is that `mins` iterates in strictly ascending order, which every
operation of a `BTreeSet` maintains).
-/
import SmVerif.Lemmas.BTreeOps
import SmVerif.Model.SketchParams

namespace Sm

open MH

/-- the cache is empty or valid -/
def CacheInvB (b : BT) : Prop := b.md5 = none ∨ b.md5 = some b.digest

/-- strictly ascending hashes + valid cache -/
structure SC (b : BT) : Prop where
  sorted : Sorted b.mins
  cache : CacheInvB b

/-! ### sortedness of the set primitives -/

theorem BSet.sorted_insert {l : List Nat} (hs : Sorted l) (h : Nat) : Sorted (BSet.insert h l) := by
  rw [BSet.insert_eq]
  split
  · exact hs
  · rename_i hne; exact hs.insertIdx_lowerBound hne

theorem BSet.remove_sublist (h : Nat) (l : List Nat) : (BSet.remove h l).Sublist l := by
  induction l with
  | nil => exact List.Sublist.refl _
  | cons x xs ih =>
    unfold BSet.remove
    split
    · exact List.sublist_cons_self x xs
    · exact ih.cons₂ x

theorem BSet.sorted_remove {l : List Nat} (hs : Sorted l) (h : Nat) : Sorted (BSet.remove h l) :=
  hs.sublist (BSet.remove_sublist h l)

theorem ones_keys (l : List Nat) : (ones l).map Prod.fst = l := by
  simp [ones, Function.comp_def]

theorem BSet.sorted_union {xs ys : List Nat} (hx : Sorted xs) (hy : Sorted ys) :
    Sorted (BSet.union xs ys) := by
  have := sorted_keys_mergeP (ones xs) (ones ys) (by rw [ones_keys]; exact hx) (by rw [ones_keys]; exact hy)
  rw [keys_mergeP, ones_keys, ones_keys] at this
  exact this

theorem BSet.sorted_ofList (l : List Nat) : Sorted (BSet.ofList l) := by
  unfold BSet.ofList
  suffices h : ∀ (l acc : List Nat), Sorted acc → Sorted (l.foldl (fun acc h => BSet.insert h acc) acc) by
    exact h l [] (by simp [Sorted])
  intro l
  induction l with
  | nil => intro acc h; exact h
  | cons x xs ih => intro acc h; exact ih _ (BSet.sorted_insert h x)

/-! ### the invariant through every operation -/

theorem SC.setCm {b : BT} (h : SC b) (c : Nat) : SC { b with currentMax := c } := ⟨h.sorted, h.cache⟩

theorem sc_of_none {b : BT} (hs : Sorted b.mins) (h : b.md5 = none) : SC b := ⟨hs, Or.inl h⟩

theorem sc_new (sc k hf seed : Nat) (tr : Bool) (n : Nat) : SC (BT.new sc k hf seed tr n) :=
  sc_of_none (by simp [BT.new, Sorted]) rfl

theorem sc_template (p : Sketch.CP) (k : Nat) (m : Sketch.Mol) : SC (Sketch.template p k m) :=
  sc_of_none (by simp [Sketch.template, Sorted]) rfl

theorem sc_clear (b : BT) : SC b.clear := sc_of_none (by simp [BT.clear, Sorted]) rfl

theorem sc_rmCore {b : BT} (h : SC b) (x : Nat) : SC (b.rmCore x) := by
  unfold BT.rmCore
  split
  · exact sc_of_none (BSet.sorted_remove h.sorted x) rfl
  · exact h

theorem sc_removeHash {b : BT} (h : SC b) (x : Nat) : SC (b.removeHash x) := by
  rw [BT.removeHash_eq]
  split
  · exact (sc_rmCore h x).setCm _
  · exact sc_rmCore h x

theorem sc_addHashAb {b : BT} (h : SC b) (x a : Nat) : SC (b.addHashAb x a) := by
  unfold BT.addHashAb
  simp only []
  split; exact h
  split; exact h
  split; exact h
  split
  · exact sc_of_none (BSet.sorted_insert h.sorted x) rfl
  split
  · split
    · exact sc_of_none (BSet.sorted_remove (BSet.sorted_insert h.sorted x) _) rfl
    · refine ⟨BSet.sorted_insert h.sorted x, ?_⟩
      by_cases hm : x ∈ b.mins
      · have hc : b.mins.contains x = true := by simpa using hm
        have hi := BSet.insert_of_mem h.sorted hm
        unfold CacheInvB BT.digest
        simp only [hc, Bool.not_true, Bool.false_eq_true, if_false, hi]
        exact h.cache
      · have hc : b.mins.contains x = false := by simpa using hm
        unfold CacheInvB
        simp only [hc, Bool.not_false, if_true]
        exact Or.inl trivial
  · exact h

theorem sc_addHashAbFix {b : BT} (h : SC b) (x a : Nat) : SC (b.addHashAbFix x a) := by
  unfold BT.addHashAbFix
  split; exact h
  split; exact h
  split
  · exact sc_removeHash h x
  · exact sc_addHashAb h x a

theorem sc_foldl {α} {f : BT → α → BT} (hf : ∀ b a, SC b → SC (f b a)) {b : BT} (h : SC b) (l : List α) :
    SC (l.foldl f b) := by
  induction l generalizing b with
  | nil => exact h
  | cons a as ih => exact ih (hf b a h)

theorem sc_addMany {b : BT} (h : SC b) (xs : List Nat) : SC (b.addMany xs) :=
  sc_foldl (fun b a hb => sc_addHashAb hb a 1) h xs
theorem sc_addManyFix {b : BT} (h : SC b) (xs : List Nat) : SC (b.addManyFix xs) :=
  sc_foldl (fun b a hb => sc_addHashAbFix hb a 1) h xs
theorem sc_addManyAb {b : BT} (h : SC b) (ps : List (Nat × Nat)) : SC (b.addManyAb ps) :=
  sc_foldl (fun b p hb => sc_addHashAb hb p.1 p.2) h ps
theorem sc_addManyAbFix {b : BT} (h : SC b) (ps : List (Nat × Nat)) : SC (b.addManyAbFix ps) :=
  sc_foldl (fun b p hb => sc_addHashAbFix hb p.1 p.2) h ps
theorem sc_removeMany {b : BT} (h : SC b) (xs : List Nat) : SC (b.removeMany xs) :=
  sc_foldl (fun b a hb => sc_removeHash hb a) h xs

theorem sc_mergeCore {b o : BT} (hb : SC b) (ho : SC o) : SC (b.mergeCore o) := by
  refine sc_of_none ?_ rfl
  rw [mergeCore_mins]
  split
  · exact BSet.sorted_union hb.sorted ho.sorted
  · exact (BSet.sorted_union hb.sorted ho.sorted).take _

theorem sc_merge {b o r : BT} (hb : SC b) (ho : SC o) (h : b.merge o = .ok r) : SC r := by
  rw [merge_ok_bt h]; exact sc_mergeCore hb ho

theorem sc_mergeFix {b o r : BT} (hb : SC b) (ho : SC o) (h : b.mergeFix o = .ok r) : SC r := by
  rw [mergeFix_eq] at h
  cases hm : b.merge o with
  | error e => rw [hm] at h; cases h
  | ok r0 =>
    rw [hm] at h
    simp only [Except.map, Except.ok.injEq] at h
    subst h
    exact (sc_merge hb ho hm).setCm _

theorem sc_md5sum {b : BT} (h : SC b) : SC b.md5sum.1 ∧ b.md5sum.2 = b.digest := by
  obtain ⟨num, maxHash, ksize, seed, hf, mins, abunds, cm, md5⟩ := b
  cases md5 with
  | none => exact ⟨⟨h.sorted, Or.inr rfl⟩, rfl⟩
  | some d =>
    rcases h.cache with hc | hc
    · cases hc
    · simp only [Option.some.injEq] at hc
      exact ⟨h, hc⟩

theorem sc_clone {b : BT} (h : SC b) : SC b.clone.1 ∧ SC b.clone.2 := by
  have hm := sc_md5sum h
  unfold BT.clone
  refine ⟨hm.1, ⟨hm.1.sorted, Or.inr ?_⟩⟩
  simp only [hm.2, BT.digest]
  obtain ⟨h1, _⟩ := md5sum_fields_bt b
  have hk : b.md5sum.1.ksize = b.ksize := by
    obtain ⟨num, maxHash, ksize, seed, hf, mins, abunds, cm, md5⟩ := b
    cases md5 <;> rfl
  rw [h1, hk]

theorem sc_downsampleScaled {b r : BT} (h : SC b) {sc : Nat} (hr : b.downsampleScaled sc = .ok r) : SC r := by
  unfold BT.downsampleScaled at hr
  split at hr
  · cases hr; exact h
  · split at hr
    · cases hr
    · cases hr
      split
      · exact sc_addManyAb (sc_new ..) _
      · exact sc_addMany (sc_new ..) _

theorem sc_downsampleScaledFix {b r : BT} (h : SC b) {sc : Nat} (hr : b.downsampleScaledFix sc = .ok r) :
    SC r := by
  unfold BT.downsampleScaledFix at hr
  split at hr
  · cases hr; exact h
  · split at hr
    · cases hr
    · cases hr
      split
      · exact sc_addManyAbFix (sc_new ..) _
      · exact sc_addManyFix (sc_new ..) _

theorem sc_downsampleMaxHash {b r : BT} (h : SC b) {m : Nat} (hr : b.downsampleMaxHash m = .ok r) : SC r := by
  unfold BT.downsampleMaxHash at hr
  split at hr
  · cases hr; exact h
  · exact sc_downsampleScaled h hr

theorem sc_downsampleMaxHashFix {b r : BT} (h : SC b) {m : Nat} (hr : b.downsampleMaxHashFix m = .ok r) :
    SC r := by
  unfold BT.downsampleMaxHashFix at hr
  split at hr
  · cases hr; exact h
  · exact sc_downsampleScaledFix h hr

theorem sc_ofVec (v : MH) : SC (BT.ofVec v) :=
  sc_of_none (by show Sorted (BSet.ofList v.mins); exact BSet.sorted_ofList _) rfl

theorem sc_ofVecFix (v : MH) : SC (BT.ofVecFix v) := (sc_ofVec v).setCm _

theorem sc_deserialize (j : BT.Json) : SC (BT.deserialize j) := by
  unfold BT.deserialize
  simp only []
  split
  · exact sc_of_none (BSet.sorted_ofList _) rfl
  · exact sc_of_none (BSet.sorted_ofList _) rfl

theorem sc_deserializeFix (j : BT.Json) : SC (BT.deserializeFix j) := (sc_deserialize j).setCm _

theorem sc_enableAbundance {b r : BT} (h : SC b) (hr : b.enableAbundance = .ok r) : SC r := by
  unfold BT.enableAbundance at hr
  split at hr
  · cases hr
  · cases hr; exact ⟨h.sorted, h.cache⟩

theorem sc_disableAbundance {b : BT} (h : SC b) : SC b.disableAbundance := ⟨h.sorted, h.cache⟩

theorem sc_setHashFunction {b r : BT} (h : SC b) {k : Nat} (hr : b.setHashFunction k = .ok r) : SC r := by
  unfold BT.setHashFunction at hr
  split at hr
  · cases hr; exact h
  · split at hr
    · cases hr
    · cases hr; exact ⟨h.sorted, h.cache⟩

/-! ### reachable states -/

/-- every state of a tree-backed sketch reachable from a constructor through its operations
(current source and, for the record, the four D14 sites as first found) -/
inductive BT.Reach : BT → Prop
  | new (sc k hf seed : Nat) (tr : Bool) (n : Nat) : Reach (BT.new sc k hf seed tr n)
  | builder (p : Sketch.CP) (k : Nat) (m : Sketch.Mol) : Reach (Sketch.template p k m)
  | fromVec (v : MH) : Reach (BT.ofVecFix v)
  | deserialize (j : BT.Json) : Reach (BT.deserializeFix j)
  | add {b : BT} (h : Reach b) (x a : Nat) : Reach (b.addHashAbFix x a)
  | addMany {b : BT} (h : Reach b) (xs : List Nat) : Reach (b.addManyFix xs)
  | addManyAb {b : BT} (h : Reach b) (ps : List (Nat × Nat)) : Reach (b.addManyAbFix ps)
  | addFrom {b o : BT} (h : Reach b) (ho : Reach o) : Reach (b.addFromFix o)
  | remove {b : BT} (h : Reach b) (x : Nat) : Reach (b.removeHash x)
  | removeMany {b : BT} (h : Reach b) (xs : List Nat) : Reach (b.removeMany xs)
  | clear {b : BT} (h : Reach b) : Reach b.clear
  | merge {b o r : BT} (h : Reach b) (ho : Reach o) (hr : b.mergeFix o = .ok r) : Reach r
  | md5 {b : BT} (h : Reach b) : Reach b.md5sum.1
  | cloneSrc {b : BT} (h : Reach b) : Reach b.clone.1
  | clone {b : BT} (h : Reach b) : Reach b.clone.2
  | downsample {b r : BT} (h : Reach b) (sc : Nat) (hr : b.downsampleScaledFix sc = .ok r) : Reach r
  | downsampleMax {b r : BT} (h : Reach b) (m : Nat) (hr : b.downsampleMaxHashFix m = .ok r) : Reach r
  | enableAbundance {b r : BT} (h : Reach b) (hr : b.enableAbundance = .ok r) : Reach r
  | disableAbundance {b : BT} (h : Reach b) : Reach b.disableAbundance
  | setHashFunction {b r : BT} (h : Reach b) (k : Nat) (hr : b.setHashFunction k = .ok r) : Reach r
  -- the four D14 sites as first found
  | addOld {b : BT} (h : Reach b) (x a : Nat) : Reach (b.addHashAb x a)
  | mergeOld {b o r : BT} (h : Reach b) (ho : Reach o) (hr : b.merge o = .ok r) : Reach r
  | fromVecOld (v : MH) : Reach (BT.ofVec v)
  | deserializeOld (j : BT.Json) : Reach (BT.deserialize j)

theorem sc_reachable {b : BT} (h : BT.Reach b) : SC b := by
  induction h with
  | new => exact sc_new ..
  | builder => exact sc_template ..
  | fromVec v => exact sc_ofVecFix v
  | deserialize j => exact sc_deserializeFix j
  | add _ x a ih => exact sc_addHashAbFix ih x a
  | addMany _ xs ih => exact sc_addManyFix ih xs
  | addManyAb _ ps ih => exact sc_addManyAbFix ih ps
  | addFrom _ _ ih _ => exact sc_addManyFix ih _
  | remove _ x ih => exact sc_removeHash ih x
  | removeMany _ xs ih => exact sc_removeMany ih xs
  | clear _ _ => exact sc_clear _
  | merge _ _ hr ih iho => exact sc_mergeFix ih iho hr
  | md5 _ ih => exact (sc_md5sum ih).1
  | cloneSrc _ ih => exact (sc_clone ih).1
  | clone _ ih => exact (sc_clone ih).2
  | downsample _ sc hr ih => exact sc_downsampleScaledFix ih hr
  | downsampleMax _ m hr ih => exact sc_downsampleMaxHashFix ih hr
  | enableAbundance _ hr ih => exact sc_enableAbundance ih hr
  | disableAbundance _ ih => exact sc_disableAbundance ih
  | setHashFunction _ k hr ih => exact sc_setHashFunction ih hr
  | addOld _ x a ih => exact sc_addHashAb ih x a
  | mergeOld _ _ hr ih iho => exact sc_merge ih iho hr
  | fromVecOld v => exact sc_ofVec v
  | deserializeOld j => exact sc_deserialize j

end Sm
