/-
Helper lemmas for C04, part 3: what each set operation of the API layer does
to the `count` abstraction of valid scaled sketches (intersection, flatten,
inflate — Rust and Python —, downsample, `__add__`).
-/
import SmVerif.Lemmas.SetOps

namespace Sm

open MH

theorem new_scaled {sc k hf seed : Nat} {tr : Bool} (h : mhR sc ≠ 0) :
    Scaled (MH.new sc k hf seed tr 0) := ⟨inv_new .., rfl, h⟩

/-! ### intersection -/

theorem intersection_scaled {s o : MH} {v : List Nat × Nat} (hn : s.num = 0)
    (h : s.intersection o = .ok v) :
    v.1 = interL s.mins o.mins ∧
    (s.ksize = o.ksize ∧ s.hf = o.hf ∧ s.maxHash = o.maxHash ∧ s.seed = o.seed) := by
  unfold MH.intersection at h
  rcases checkCompatible_cases s o with ⟨e, he⟩ | ⟨hok, hc⟩
  · rw [he] at h; simp [bind, Except.bind] at h
  · rw [hok] at h
    simp only [bind, Except.bind, hn, ne_eq, not_true_eq_false, if_false, pure, Except.pure,
      Except.ok.injEq] at h
    subst h
    exact ⟨rfl, hc⟩

theorem pyIntersection_spec {s o s' r : MH} (hs : Scaled s) (ho : Inv o)
    (hr : Py.intersection s o = .ok (s', r)) :
    Scaled r ∧ r.trackAbundance = false ∧ r.maxHash = s.maxHash ∧
    s.trackAbundance = false ∧ o.trackAbundance = false ∧ s.maxHash = o.maxHash ∧
    (∀ x, count r x = if x ∈ s.mins ∧ x ∈ o.mins then 1 else 0) := by
  unfold Py.intersection at hr
  split at hr
  · cases hr
  · rename_i htr
    have hts : s.trackAbundance = false := by
      cases h : s.trackAbundance <;> simp_all
    have hto : o.trackAbundance = false := by
      cases h : o.trackAbundance <;> simp_all
    unfold MH.ffiIntersection at hr
    cases hi : s.intersection o with
    | error e => simp [hi, bind, Except.bind] at hr
    | ok v =>
      obtain ⟨c, n⟩ := v
      simp only [hi, bind, Except.bind, pure, Except.pure, Except.ok.injEq, Prod.mk.injEq] at hr
      obtain ⟨_, rfl⟩ := hr
      obtain ⟨hc, hcomp⟩ := intersection_scaled hs.num hi
      simp only at hc
      subst hc
      have cf := (clone_fields s).2
      have hcl : Scaled s.clone.2.clear :=
        ⟨inv_clear (inv_clone hs.inv).2, by show s.clone.2.num = 0; rw [cf.2.2.2]; exact hs.num,
          by show s.clone.2.maxHash ≠ 0; rw [cf.2.2.1]; exact hs.max⟩
      have hclM : s.clone.2.clear.maxHash = s.maxHash := cf.2.2.1
      have hclT : s.clone.2.clear.trackAbundance = false := by
        have : s.abunds = none := by simpa [MH.trackAbundance] using hts
        simp [MH.clear, MH.trackAbundance, cf.2.1, this]
      have hres := hcl.addMany (interL s.mins o.mins)
      have fr := addMany_frame s.clone.2.clear (interL s.mins o.mins)
      refine ⟨hres, fr.2.2.2.2.2.trans hclT, fr.2.1.trans hclM, hts, hto, hcomp.2.2.1, ?_⟩
      intro x
      rw [count_addMany_scaled hcl, hclM, hclT, count_clear']
      simp only [mem_interL _ _ hs.inv.sorted ho.sorted]
      by_cases c : x > s.maxHash
      · have : x ∉ s.mins := fun hm => by have := hs.inv.bounded hs.max x hm; omega
        simp [c, this]
      · simp [c]

/-! ### flatten -/

theorem pyFlatten_spec {s r : MH} (hs : Scaled s) (hst : Stable s.maxHash)
    (hr : Py.flatten s = .ok (some r)) :
    Scaled r ∧ r.trackAbundance = false ∧ r.maxHash = s.maxHash ∧
    (r.ksize = s.ksize ∧ r.hf = s.hf ∧ r.seed = s.seed) ∧
    (∀ x, count r x = min 1 (count s x)) := by
  unfold Py.flatten at hr
  split at hr
  · rw [hs.num] at hr
    cases ha : Py.mkMinHash 0 s.ksize s.hf s.seed false s.maxHash 0 with
    | error e => simp [ha, bind, Except.bind] at hr
    | ok a =>
      simp only [ha, bind, Except.bind, pure, Except.pure, Except.ok.injEq, Option.some.injEq] at hr
      subst hr
      obtain ⟨hsa, haM, haT, hae, hk, hh, hsd⟩ := fresh_scaled hs.max hst ha
      have fr := addMany_frame a s.mins
      refine ⟨hsa.addMany s.mins, fr.2.2.2.2.2.trans haT, fr.2.1.trans haM,
        ⟨fr.2.2.1.trans hk, fr.2.2.2.2.1.trans hh, fr.2.2.2.1.trans hsd⟩, ?_⟩
      intro x
      show count (a.addMany s.mins) x = _
      rw [count_addMany_scaled hsa, haM, haT, count_eq_zero_of_empty hsa.inv hae]
      by_cases c : x > s.maxHash
      · rw [if_pos c, count_eq_zero_of_gt hs c]; rfl
      · rw [if_neg c]
        have hm := mem_iff_count_pos' hs.inv x
        by_cases hx : x ∈ s.mins
        · have := hm.1 hx
          simp [hx]; omega
        · have : ¬ 0 < count s x := fun h => hx (hm.2 h)
          simp [hx]; omega
  · simp [pure, Except.pure] at hr

theorem pyFlattenD_spec {s r : MH} (hs : Scaled s) (hst : Stable s.maxHash)
    (hr : Py.flattenD s = .ok r) :
    Scaled r ∧ r.trackAbundance = false ∧ r.maxHash = s.maxHash ∧
    (r.ksize = s.ksize ∧ r.hf = s.hf ∧ r.seed = s.seed) ∧
    (∀ x, count r x = min 1 (count s x)) := by
  unfold Py.flattenD at hr
  split at hr
  · rename_i r' hf
    cases hr
    exact pyFlatten_spec hs hst hf
  · rename_i hf
    cases hr
    have ht : s.trackAbundance = false := by
      unfold Py.flatten at hf
      split at hf
      · cases h : Py.mkMinHash s.num s.ksize s.hf s.seed false s.maxHash 0 <;>
          simp [h, bind, Except.bind, pure, Except.pure] at hf
      · rename_i h; simpa using h
    refine ⟨hs, ht, rfl, ⟨rfl, rfl, rfl⟩, ?_⟩
    intro x
    have := count_le_of_flat hs.inv ht x
    omega
  · cases hr

/-! ### inflate -/

theorem inflate_spec {s o r : MH} (hs : Inv s) (ho : Inv o) (hr : s.inflate o = .ok r) :
    Inv r ∧ r.trackAbundance = true ∧ r.maxHash = s.maxHash ∧ r.num = s.num ∧
    s.maxHash = o.maxHash ∧ o.trackAbundance = true ∧
    (∀ x, count r x = if x ∈ s.mins then count o x else 0) := by
  have hir := inv_inflate hs ho hr
  unfold MH.inflate at hr
  rcases checkCompatible_cases s o with ⟨e, he⟩ | ⟨hok, hc⟩
  · rw [he] at hr; simp [bind, Except.bind] at hr
  · rw [hok] at hr
    simp only [bind, Except.bind] at hr
    cases hab : o.abunds with
    | none => simp [hab] at hr
    | some ab =>
      simp only [hab, pure, Except.pure, Except.ok.injEq] at hr
      subst hr
      refine ⟨hir, rfl, rfl, rfl, hc.2.2.1, by simp [MH.trackAbundance, hab], ?_⟩
      intro x
      have hp : ({ s with mins := (MH.inflateJoin s.mins (o.mins.zip ab)).map Prod.fst,
                          abunds := some ((MH.inflateJoin s.mins (o.mins.zip ab)).map Prod.snd),
                          md5 := none } : MH).pairs = MH.inflateJoin s.mins (o.mins.zip ab) := by
        simp only [MH.pairs, zip_map_fst_snd]
      rw [count_eq_cnt, hp, count_eq_cnt, pairs_some hab]
      apply cnt_inflateJoin x _ _ hs.sorted
      rw [← pairs_some hab, pairs_keys ho.toW]
      exact ho.sorted

/-- the pairs `MinHash.inflate` hands to `set_abundances` -/
def inflateAbunds (s o : MH) : List (Nat × Nat) :=
  s.mins.map (fun h => (h, (o.pairs.lookup h).getD 0))

theorem inflateAbunds_keys (s o : MH) : (inflateAbunds s o).map Prod.fst = s.mins := by
  simp [inflateAbunds, Function.comp_def]

theorem cnt_inflateAbunds {s : MH} (hs : Inv s) (o : MH) (x : Nat) :
    cnt (inflateAbunds s o) x = if x ∈ s.mins then count o x else 0 := by
  split
  · rename_i hx
    apply cnt_of_mem_nodup
    · rw [inflateAbunds_keys]; exact hs.sorted.nodup
    · exact List.mem_map.2 ⟨x, hx, rfl⟩
  · rename_i hx
    apply cnt_eq_zero_of_not_mem
    rw [inflateAbunds_keys]; exact hx

/-! ### downsample -/

theorem pyDownsample_spec {s r : MH} {sc : Nat} (hs : Scaled s)
    (hr : Py.downsample s none (some sc) = .ok r) (h0 : mhR (scP (mhP sc)) ≠ 0) :
    Scaled r ∧ r.trackAbundance = s.trackAbundance ∧ r.maxHash = mhR (scP (mhP sc)) ∧
    (r.ksize = s.ksize ∧ r.hf = s.hf ∧ r.seed = s.seed) ∧
    (∀ x, count r x = if x ≤ r.maxHash then count s x else 0) := by
  unfold Py.downsample Py.downsampleParams at hr
  simp only at hr
  split at hr
  · cases hr
  · rename_i n mh hp
    split at hp
    · cases hp
    · split at hp
      · cases hp
      · simp only [Except.ok.injEq, Prod.mk.injEq] at hp
        obtain ⟨rfl, rfl⟩ := hp
        unfold Py.downsampleWith at hr
        split at hr
        · cases hr
        · rename_i a ha
          have hmh : mhP sc ≠ 0 := by
            intro h0
            rw [h0] at ha
            simp [Py.mkMinHash] at ha
          have ea := mkMinHash_of_maxHash hmh ha
          have fa := new_fields (scP (mhP sc)) s.ksize s.hf s.seed s.trackAbundance 0
          rw [← ea] at fa
          split at hr
          · rename_i htr
            unfold Py.setAbundances at hr
            rw [if_pos (fa.2.2.2.1.trans htr)] at hr
            cases hr
            have e : a.ffiSetAbundances s.pairs true = a.clear.addManyAb (MH.sortPairs s.pairs) := by
              simp [MH.ffiSetAbundances]
            have f := addManyAb_frame a.clear (MH.sortPairs s.pairs)
            have hT : a.clear.trackAbundance = a.trackAbundance := by
              simp only [MH.clear, MH.trackAbundance]; cases a.abunds <;> rfl
            have hrM' : a.maxHash ≠ 0 := by rw [fa.1]; exact h0
            have hsa : Scaled a := ⟨ea ▸ inv_new .., fa.2.1, hrM'⟩
            have hnd : (s.pairs.map Prod.fst).Nodup := by
              rw [pairs_keys hs.inv.toW]; exact hs.inv.sorted.nodup
            have h := count_ffiSetAbundances_clear hsa s.pairs hnd
            have hmx : (a.ffiSetAbundances s.pairs true).maxHash = a.maxHash := by rw [e]; exact f.2.1
            refine ⟨h.1, ?_, hmx.trans fa.1, ?_, ?_⟩
            · rw [e]; exact (f.2.2.2.2.2.trans hT).trans fa.2.2.2.1
            · rw [e]
              exact ⟨f.2.2.1.trans fa.2.2.2.2.1, f.2.2.2.2.1.trans fa.2.2.2.2.2.1,
                f.2.2.2.1.trans fa.2.2.2.2.2.2⟩
            · intro x
              rw [h.2 x, hmx, fa.2.2.2.1, htr, if_pos rfl]
              by_cases c : x > a.maxHash
              · rw [if_pos c, if_neg (by omega)]
              · rw [if_neg c, if_pos (by omega)]; rfl
          · rename_i htr
            cases hr
            have f := addMany_frame a s.mins
            have hrM' : a.maxHash ≠ 0 := by rw [fa.1]; exact h0
            have hsa : Scaled a := ⟨ea ▸ inv_new .., fa.2.1, hrM'⟩
            have hts : s.trackAbundance = false := by simpa using htr
            have haT : a.trackAbundance = false := fa.2.2.2.1.trans hts
            have hmx : (a.addFrom s).maxHash = a.maxHash := f.2.1
            refine ⟨hsa.addMany s.mins, (f.2.2.2.2.2.trans haT).trans hts.symm, hmx.trans fa.1,
              ⟨f.2.2.1.trans fa.2.2.2.2.1, f.2.2.2.2.1.trans fa.2.2.2.2.2.1,
                f.2.2.2.1.trans fa.2.2.2.2.2.2⟩, ?_⟩
            intro x
            show count (a.addMany s.mins) x = _
            rw [count_addMany_scaled hsa, haT, count_eq_zero_of_empty hsa.inv fa.2.2.1, hmx,
              count_flat hs.inv hts]
            by_cases c : x > a.maxHash
            · have c' : ¬ x ≤ a.maxHash := by omega
              simp [c, c']
            · have c' : x ≤ a.maxHash := by omega
              simp [c, c']

theorem ffiSetAbundances_frame (a : MH) (ps : List (Nat × Nat)) :
    (a.ffiSetAbundances ps true).maxHash = a.maxHash ∧
    (a.ffiSetAbundances ps true).trackAbundance = a.trackAbundance ∧
    (a.ffiSetAbundances ps true).ksize = a.ksize ∧
    (a.ffiSetAbundances ps true).hf = a.hf ∧
    (a.ffiSetAbundances ps true).seed = a.seed := by
  have f := addManyAb_frame a.clear (MH.sortPairs ps)
  have e : a.ffiSetAbundances ps true = a.clear.addManyAb (MH.sortPairs ps) := by
    simp [MH.ffiSetAbundances]
  rw [e]
  have hT : a.clear.trackAbundance = a.trackAbundance := by
    simp only [MH.clear, MH.trackAbundance]; cases a.abunds <;> rfl
  exact ⟨f.2.1, f.2.2.2.2.2.trans hT, f.2.2.1, f.2.2.2.2.1, f.2.2.2.1⟩

/-- Python `MinHash.inflate`: an empty copy of the abundance source `o`, downsampled to the
scaled value of the flat sketch `s`, then `set_abundances` with the abundances `o` has for the
hashes of `s`.  The result is a sketch at the threshold of `s`. -/
theorem pyInflate_spec {s o r : MH} (hs : Scaled s) (ho : Scaled o) (hst : Stable o.maxHash)
    (hsd : StableDown s.maxHash) (hr : Py.inflate s o = .ok r) :
    Scaled r ∧ r.trackAbundance = true ∧ r.maxHash = s.maxHash ∧
    s.trackAbundance = false ∧ o.trackAbundance = true ∧
    (r.ksize = o.ksize ∧ r.hf = o.hf ∧ r.seed = o.seed) ∧
    (∀ x, count r x = if x ∈ s.mins then count o x else 0) := by
  unfold Py.inflate at hr
  split at hr
  · rename_i hcond
    have hts : s.trackAbundance = false := by
      cases h : s.trackAbundance <;> simp_all
    have hto : o.trackAbundance = true := hcond.2
    cases ha : Py.copyAndClear o with
    | error e => simp [ha, bind, Except.bind] at hr
    | ok am =>
      simp only [ha, bind, Except.bind] at hr
      unfold Py.copyAndClear at ha
      rw [ho.num, hto] at ha
      obtain ⟨hsa, _, haT, _, hk, hh, hsd'⟩ := fresh_scaled ho.max hst ha
      split at hr
      · cases hr
      · rename_i am' hd
        have hsp : Py.scaledProp s = scP s.maxHash := by
          unfold Py.scaledProp; rw [if_pos hs.max]
        rw [hsp] at hd
        have h0 : mhR (scP (mhP (scP s.maxHash))) ≠ 0 := by rw [hsd]; exact hs.max
        obtain ⟨hsa', hT', hM', hF', _⟩ := pyDownsample_spec hsa hd h0
        have hM'' : am'.maxHash = s.maxHash := hM'.trans hsd
        unfold Py.setAbundances at hr
        rw [if_pos (hT'.trans haT)] at hr
        cases hr
        have hnd : ((inflateAbunds s o).map Prod.fst).Nodup := by
          rw [inflateAbunds_keys]; exact hs.inv.sorted.nodup
        have h := count_ffiSetAbundances_clear hsa' (inflateAbunds s o) hnd
        have fr := ffiSetAbundances_frame am' (inflateAbunds s o)
        refine ⟨h.1, fr.2.1.trans (hT'.trans haT), fr.1.trans hM'', hts, hto,
          ⟨(fr.2.2.1.trans hF'.1).trans hk, (fr.2.2.2.1.trans hF'.2.1).trans hh,
            (fr.2.2.2.2.trans hF'.2.2).trans hsd'⟩, ?_⟩
        intro x
        show count (am'.ffiSetAbundances (inflateAbunds s o) true) x = _
        rw [h.2 x, hM'', hT', haT, cnt_inflateAbunds hs.inv]
        by_cases c : x > s.maxHash
        · have : x ∉ s.mins := fun hm => by have := hs.inv.bounded hs.max x hm; omega
          rw [if_pos c, if_neg this]
        · rw [if_neg c]; rfl
  · cases hr

/-! ### `__add__` -/

theorem merge_congr_left {c s o r r' : MH} (h1 : c.mins = s.mins) (h2 : c.abunds = s.abunds)
    (h3 : c.num = s.num) (hr : c.merge o = .ok r) (hr' : s.merge o = .ok r') :
    r.mins = r'.mins ∧ r.abunds = r'.abunds := by
  obtain ⟨_, rfl⟩ := merge_ok hr
  obtain ⟨_, rfl⟩ := merge_ok hr'
  have hp : c.pairs = s.pairs := by unfold MH.pairs; rw [h1, h2]
  have hm : mergedOf c o = mergedOf s o := by unfold mergedOf; rw [hp, h3]
  simp only [hm, h2]
  exact ⟨trivial, trivial⟩

/-- `a + b` / `a | b`: a copy of `a`, merged with `b` -/
theorem pyAdd_spec {s o r : MH} (hs : Scaled s) (ho : Inv o) (hr : Py.add s o = .ok r) :
    Scaled r ∧ r.trackAbundance = s.trackAbundance ∧ r.maxHash = s.maxHash ∧
    s.maxHash = o.maxHash ∧
    (∀ x, count r x = if s.trackAbundance then count s x + count o x
                      else min 1 (count s x + count o x)) := by
  unfold Py.add at hr
  split at hr
  · cases hr
  · cases hc : Py.copy s with
    | error e => simp [hc, bind, Except.bind] at hr
    | ok n =>
      simp only [hc, bind, Except.bind] at hr
      have hcc := pyCopy_content hs.inv hc
      have hn : Scaled n := ⟨hs.inv.of_eq hcc.1 hcc.2.1 hcc.2.2.2.1 hcc.2.2.1,
        hcc.2.2.1.trans hs.num, by rw [hcc.2.2.2.1]; exact hs.max⟩
      have hf := merge_frame hr
      have htr : n.trackAbundance = s.trackAbundance := hcc.2.2.2.2.2.2.2
      refine ⟨⟨inv_merge hn.inv ho hr, hf.1.trans hn.num, by rw [hf.2.1]; exact hn.max⟩,
        hf.2.2.2.2.2.trans htr, hf.2.1.trans hcc.2.2.2.1,
        hcc.2.2.2.1.symm.trans (merge_ok hr).1.2.2.1, ?_⟩
      intro x
      rw [(count_merge_scaled' hn.inv ho hn.num hr x).2, htr, count_congr hcc.1 hcc.2.1 x]

end Sm
