/-
Generic list facts used by the `MH` invariant / count lemmas:
`lowerBound`, strict ascendingness, `zip`/`map` through positional edits and
`lookup` through positional edits at `lowerBound`.
-/
import SmVerif.Model.MinHash

namespace Sm

def Sorted (l : List Nat) : Prop := l.Pairwise (· < ·)

/-! ### positional edits commute with `zip` / `map` -/

theorem zip_insertIdx {α β} (p : Nat) (a : α) (b : β) :
    ∀ (l₁ : List α) (l₂ : List β), l₁.length = l₂.length →
      (l₁.insertIdx p a).zip (l₂.insertIdx p b) = (l₁.zip l₂).insertIdx p (a, b) := by
  induction p with
  | zero => intro l₁ l₂ _; simp
  | succ p ih =>
    intro l₁ l₂ hl
    cases l₁ with
    | nil => cases l₂ with
      | nil => simp
      | cons y ys => simp at hl
    | cons x xs => cases l₂ with
      | nil => simp at hl
      | cons y ys =>
        simp only [List.length_cons, Nat.add_right_cancel_iff] at hl
        simp [List.insertIdx_succ_cons, ih xs ys hl]

theorem zip_eraseIdx {α β} (p : Nat) :
    ∀ (l₁ : List α) (l₂ : List β), l₁.length = l₂.length →
      (l₁.eraseIdx p).zip (l₂.eraseIdx p) = (l₁.zip l₂).eraseIdx p := by
  induction p with
  | zero => intro l₁ l₂ hl; cases l₁ <;> cases l₂ <;> simp at hl ⊢
  | succ p ih =>
    intro l₁ l₂ hl
    cases l₁ with
    | nil => simp
    | cons x xs => cases l₂ with
      | nil => simp at hl
      | cons y ys =>
        simp only [List.length_cons, Nat.add_right_cancel_iff] at hl
        simp [ih xs ys hl]

theorem zip_modify_right {α β} (g : β → β) (p : Nat) :
    ∀ (l₁ : List α) (l₂ : List β),
      l₁.zip (l₂.modify p g) = (l₁.zip l₂).modify p (fun q => (q.1, g q.2)) := by
  induction p with
  | zero => intro l₁ l₂; cases l₁ <;> cases l₂ <;> simp
  | succ p ih =>
    intro l₁ l₂
    cases l₁ with
    | nil => simp
    | cons x xs => cases l₂ with
      | nil => simp
      | cons y ys => simp [ih xs ys]

theorem zip_take {α β} (n : Nat) :
    ∀ (l₁ : List α) (l₂ : List β), (l₁.take n).zip (l₂.take n) = (l₁.zip l₂).take n := by
  induction n with
  | zero => intro l₁ l₂; simp
  | succ n ih =>
    intro l₁ l₂
    cases l₁ with
    | nil => simp
    | cons x xs => cases l₂ with
      | nil => simp
      | cons y ys => simp [ih xs ys]

theorem zip_dropLast {α β} (l₁ : List α) (l₂ : List β) (hl : l₁.length = l₂.length) :
    l₁.dropLast.zip l₂.dropLast = (l₁.zip l₂).dropLast := by
  simp only [List.dropLast_eq_take, List.length_zip, hl, Nat.min_self]
  exact zip_take _ _ _

theorem map_insertIdx' {α β} (f : α → β) (p : Nat) (a : α) :
    ∀ (l : List α), (l.insertIdx p a).map f = (l.map f).insertIdx p (f a) := by
  induction p with
  | zero => intro l; simp
  | succ p ih =>
    intro l
    cases l with
    | nil => simp
    | cons x xs => simp [List.insertIdx_succ_cons, ih xs]

theorem map_eraseIdx' {α β} (f : α → β) (p : Nat) :
    ∀ (l : List α), (l.eraseIdx p).map f = (l.map f).eraseIdx p := by
  induction p with
  | zero => intro l; cases l <;> simp
  | succ p ih =>
    intro l
    cases l with
    | nil => simp
    | cons x xs => simp [ih xs]

theorem mem_dropLast' {α} {a : α} {l : List α} (h : a ∈ l.dropLast) : a ∈ l :=
  (List.dropLast_sublist l).subset h

/-! ### `lowerBound` -/

@[simp] theorem lowerBound_nil (h : Nat) : lowerBound [] h = 0 := rfl

theorem lowerBound_cons (x : Nat) (xs : List Nat) (h : Nat) :
    lowerBound (x :: xs) h = if x < h then lowerBound xs h + 1 else 0 := rfl

theorem lowerBound_cons_lt {x : Nat} {xs : List Nat} {h : Nat} (hx : x < h) :
    lowerBound (x :: xs) h = lowerBound xs h + 1 := by simp [lowerBound_cons, hx]

theorem lowerBound_cons_ge {x : Nat} {xs : List Nat} {h : Nat} (hx : ¬ x < h) :
    lowerBound (x :: xs) h = 0 := by simp [lowerBound_cons, hx]

theorem lowerBound_le_length (l : List Nat) (h : Nat) : lowerBound l h ≤ l.length := by
  induction l with
  | nil => simp
  | cons x xs ih => rw [lowerBound_cons]; split <;> simp; exact ih

/-- every element before the insertion point is smaller -/
theorem lt_of_lt_lowerBound {l : List Nat} {h i : Nat} (hi : i < lowerBound l h) {y : Nat}
    (hy : l[i]? = some y) : y < h := by
  induction l generalizing i with
  | nil => simp at hi
  | cons x xs ih =>
    rw [lowerBound_cons] at hi
    split at hi
    · cases i with
      | zero => simp at hy; omega
      | succ i => simp at hy; exact ih (by omega) hy
    · omega

theorem lowerBound_eq_length_iff {l : List Nat} {h : Nat} :
    lowerBound l h = l.length ↔ ∀ y ∈ l, y < h := by
  induction l with
  | nil => simp
  | cons x xs ih =>
    rw [lowerBound_cons]
    split
    · rename_i hx; simp [ih, hx]
    · rename_i hx; simp [hx]

/-! ### strict ascendingness through the edits `addHashAb` / `removeHash` make -/

theorem Sorted.eraseIdx {l : List Nat} (hs : Sorted l) (p : Nat) : Sorted (l.eraseIdx p) :=
  List.Pairwise.sublist (List.eraseIdx_sublist l p) hs

theorem Sorted.dropLast {l : List Nat} (hs : Sorted l) : Sorted l.dropLast :=
  List.Pairwise.sublist (List.dropLast_sublist l) hs

theorem Sorted.take {l : List Nat} (hs : Sorted l) (n : Nat) : Sorted (l.take n) :=
  List.Pairwise.sublist (List.take_sublist n l) hs

theorem Sorted.sublist {l l' : List Nat} (hs : Sorted l) (h : l'.Sublist l) : Sorted l' :=
  List.Pairwise.sublist h hs

theorem Sorted.tail {x : Nat} {xs : List Nat} (hs : Sorted (x :: xs)) : Sorted xs :=
  (List.pairwise_cons.1 hs).2

theorem Sorted.head_lt {x : Nat} {xs : List Nat} (hs : Sorted (x :: xs)) : ∀ y ∈ xs, x < y :=
  (List.pairwise_cons.1 hs).1

theorem Sorted.insertIdx_lowerBound {l : List Nat} (hs : Sorted l) {h : Nat}
    (hne : l[lowerBound l h]? ≠ some h) : Sorted (l.insertIdx (lowerBound l h) h) := by
  induction l with
  | nil => simp [Sorted]
  | cons x xs ih =>
    by_cases hx : x < h
    · rw [lowerBound_cons_lt hx] at hne ⊢
      simp only [List.getElem?_cons_succ] at hne
      rw [List.insertIdx_succ_cons]
      refine List.pairwise_cons.2 ⟨?_, ih hs.tail hne⟩
      intro y hy
      rcases (List.mem_insertIdx (lowerBound_le_length xs h)).1 hy with rfl | hy
      · exact hx
      · exact hs.head_lt y hy
    · rw [lowerBound_cons_ge hx] at hne ⊢
      simp only [List.getElem?_cons_zero] at hne
      have hlt : h < x := by
        have : x ≠ h := fun e => hne (by rw [e])
        omega
      rw [List.insertIdx_zero]
      refine List.pairwise_cons.2 ⟨?_, hs⟩
      intro y hy
      rcases List.mem_cons.1 hy with rfl | hy
      · exact hlt
      · exact Nat.lt_trans hlt (hs.head_lt y hy)

/-- on a strictly ascending list `binary_search` finds `h` iff `h` is a member -/
theorem getElem?_lowerBound_iff_mem {l : List Nat} (hs : Sorted l) (h : Nat) :
    l[lowerBound l h]? = some h ↔ h ∈ l := by
  induction l with
  | nil => simp
  | cons x xs ih =>
    by_cases hx : x < h
    · rw [lowerBound_cons_lt hx]
      simp only [List.getElem?_cons_succ, List.mem_cons, ih hs.tail]
      constructor
      · exact Or.inr
      · rintro (rfl | hm)
        · omega
        · exact hm
    · rw [lowerBound_cons_ge hx]
      simp only [List.getElem?_cons_zero, List.mem_cons, Option.some.injEq]
      constructor
      · intro e; exact Or.inl e.symm
      · rintro (rfl | hm)
        · rfl
        · have := hs.head_lt h hm; omega

theorem findPos_eq_some_iff {l : List Nat} {h p : Nat} :
    findPos l h = some p ↔ p = lowerBound l h ∧ l[lowerBound l h]? = some h := by
  unfold findPos
  simp only
  split <;> rename_i hc
  · simp [hc, eq_comm]
  · simp [hc]

theorem findPos_eq_none_iff {l : List Nat} {h : Nat} :
    findPos l h = none ↔ l[lowerBound l h]? ≠ some h := by
  unfold findPos
  simp only
  split <;> rename_i hc <;> simp [hc]

/-- two strictly ascending lists with the same members are equal -/
theorem Sorted.ext {l l' : List Nat} (hl : Sorted l) (hl' : Sorted l')
    (h : ∀ x, x ∈ l ↔ x ∈ l') : l = l' := by
  induction l generalizing l' with
  | nil =>
    cases l' with
    | nil => rfl
    | cons y ys => exact absurd ((h y).2 (by simp)) (by simp)
  | cons x xs ih =>
    cases l' with
    | nil => exact absurd ((h x).1 (by simp)) (by simp)
    | cons y ys =>
      have hxy : x = y := by
        have h1 := (h x).1 (by simp)
        have h2 := (h y).2 (by simp)
        rcases List.mem_cons.1 h1 with e | h1
        · exact e
        rcases List.mem_cons.1 h2 with e | h2
        · exact e.symm
        have := hl.head_lt y h2
        have := hl'.head_lt x h1
        omega
      subst hxy
      congr 1
      apply ih hl.tail hl'.tail
      intro z
      constructor
      · intro hz
        have hlt := hl.head_lt z hz
        rcases List.mem_cons.1 ((h z).1 (List.mem_cons_of_mem _ hz)) with e | hz'
        · omega
        · exact hz'
      · intro hz
        have hlt := hl'.head_lt z hz
        rcases List.mem_cons.1 ((h z).2 (List.mem_cons_of_mem _ hz)) with e | hz'
        · omega
        · exact hz'

/-! ### `lastOr` -/

theorem lastOr_eq_getLast {l : List Nat} (hne : l ≠ []) (d : Nat) : lastOr l d = l.getLast hne := by
  unfold lastOr
  rw [List.getLast?_eq_some_getLast hne]

theorem Sorted.le_getLast {l : List Nat} (hs : Sorted l) (hne : l ≠ []) :
    ∀ y ∈ l, y ≤ l.getLast hne := by
  induction l with
  | nil => exact absurd rfl hne
  | cons x xs ih =>
    intro y hy
    by_cases hxs : xs = []
    · subst hxs; simp at hy ⊢; omega
    · rw [List.getLast_cons hxs]
      rcases List.mem_cons.1 hy with rfl | hy
      · exact Nat.le_of_lt (hs.head_lt _ (List.getLast_mem hxs))
      · exact ih hs.tail hxs y hy

theorem not_le_lastOr_of_all_lt {l : List Nat} {h : Nat} (hne : l ≠ [])
    (hall : ∀ y ∈ l, y < h) (d : Nat) : ¬ h ≤ lastOr l d := by
  rw [lastOr_eq_getLast hne]
  have := hall _ (List.getLast_mem hne)
  omega

theorem le_lastOr_of_not_all_lt {l : List Nat} {h : Nat} (hs : Sorted l)
    (hnot : ¬ ∀ y ∈ l, y < h) (d : Nat) : h ≤ lastOr l d := by
  have hne : l ≠ [] := by rintro rfl; simp at hnot
  rw [lastOr_eq_getLast hne]
  apply Classical.byContradiction
  intro hc
  apply hnot
  intro y hy
  have := hs.le_getLast hne y hy
  omega

end Sm
