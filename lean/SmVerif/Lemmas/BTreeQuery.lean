/-
Helper lemmas for C14: the read-only queries (`intersection_size`, `count_common`) of the
tree-backed sketch answer what the array-backed sketch it stands for answers.
-/
import SmVerif.Lemmas.BTreeHist

namespace Sm

open MH

theorem mergeMap_abs {b o : BT} (hb : BInv b) (ho : BInv o) :
    (∃ e, b.merge o = .error e ∧ b.abs.merge o.abs = .error e) ∨
    (∃ r, b.merge o = .ok r ∧ b.abs.merge o.abs = .ok r.abs ∧ BInv r) := by
  cases hm : b.merge o with
  | error e => exact Or.inl ⟨e, rfl, merge_err_bt hm⟩
  | ok r => exact Or.inr ⟨r, rfl, (sim_merge hb ho hm).1, (sim_merge hb ho hm).2⟩

theorem intersectionSize_abs {b o : BT} (hb : BInv b) (ho : BInv o) :
    b.intersectionSize o = b.abs.intersectionSize o.abs := by
  unfold BT.intersectionSize MH.intersectionSize MH.intersection
  rw [checkCompatible_abs]
  cases hc : b.abs.checkCompatible o.abs with
  | error e => rfl
  | ok u =>
    simp only [bind, Except.bind]
    by_cases hn : b.num ≠ 0
    · have hn' : b.abs.num ≠ 0 := hn
      rw [if_pos hn, if_pos hn']
      have hnew : (BT.new b.scaled b.ksize b.hf b.seed b.abunds.isSome b.num).abs =
          MH.new b.abs.scaled b.abs.ksize b.abs.hf b.abs.seed b.abs.abunds.isSome b.abs.num := by
        have htr : b.abs.abunds.isSome = b.abunds.isSome := by
          rw [BT.abs_abunds]; cases b.abunds <;> rfl
        rw [htr]; exact abs_new ..
      rcases mergeMap_abs (binv_new b.scaled b.ksize b.hf b.seed b.abunds.isSome b.num) hb with
        ⟨e, h1, h2⟩ | ⟨c1, h1, h2, h3⟩
      · rw [h1, ← hnew, h2]
      · rw [h1, ← hnew, h2]
        simp only []
        rcases mergeMap_abs h3 ho with ⟨e, h4, h5⟩ | ⟨c2, h4, h5, _⟩
        · rw [h4, h5]
        · rw [h4, h5]; rfl
    · have hn' : ¬ b.abs.num ≠ 0 := hn
      rw [if_neg hn, if_neg hn']
      rfl

theorem countCommon_abs {b o : BT} (hb : BInv b) (ho : BInv o) (hxb : Excl b.abs)
    (hxo : Excl o.abs) (ds : Bool) : b.countCommon o ds = b.abs.countCommon o.abs ds := by
  unfold BT.countCommon MH.countCommon
  by_cases hd : ds = true ∧ b.scaled ≠ o.scaled
  · have hd' : ds = true ∧ b.abs.scaled ≠ o.abs.scaled := hd
    rw [if_pos hd, if_pos hd']
    -- the pair (first, second)
    have key : ∀ (f s : BT), BInv f → BInv s → Excl s.abs →
        (do let d ← (s.clone.2).downsampleScaled f.scaled
            f.checkCompatible d
            pure (interL f.mins d.mins).length : Except MH.Err Nat) =
        (do let d ← (s.abs.clone.2).downsampleScaled f.abs.scaled
            f.abs.checkCompatible d
            pure (interL f.abs.mins d.mins).length) := by
      intro f s _ hs hxs
      have hc2 := (binv_clone hs).2
      have hx2 : Excl s.clone.2.abs := by rw [(abs_clone s).2]; exact hxs.clone.2
      rcases C14.downB_cases_stale false hc2 hx2 f.scaled with ⟨e, h1, h2⟩ | ⟨r, h1, h2, _⟩
      · have h1' : s.clone.2.downsampleScaled f.scaled = .error e := h1
        rw [(abs_clone s).2] at h2
        rw [h1']
        show _ = (do let d ← (s.abs.clone.2).downsampleScaled f.scaled; _)
        rw [h2]; rfl
      · have h1' : s.clone.2.downsampleScaled f.scaled = .ok r := h1
        rw [(abs_clone s).2] at h2
        rw [h1']
        show _ = (do let d ← (s.abs.clone.2).downsampleScaled f.scaled; _)
        rw [h2]
        simp only [bind, Except.bind]
        rw [checkCompatible_abs]
        rfl
    by_cases hg : b.scaled > o.scaled
    · have hg' : b.abs.scaled > o.abs.scaled := hg
      simp only [if_pos hg, if_pos hg']
      exact key b o hb ho hxo
    · have hg' : ¬ b.abs.scaled > o.abs.scaled := hg
      simp only [if_neg hg, if_neg hg']
      exact key o b ho hb hxb
  · have hd' : ¬ (ds = true ∧ b.abs.scaled ≠ o.abs.scaled) := hd
    rw [if_neg hd, if_neg hd', checkCompatible_abs]
    rfl

end Sm
