/-
C19 helper lemmas, part 5: the decision logic of `build_classification_result`, for any
arithmetic whose `<` is a strict total (pre)order.
-/
import SmVerif.Lemmas.TaxProps

namespace Sm.Tax

set_option linter.unusedSectionVars false
set_option linter.unusedSimpArgs false
variable {ν : Type} [DecidableEq ν] {α : Type}

def clsOf (st : Status) (r : Nat) (x : Lineage ν × Acc α) : Cls α ν := ⟨st, r, x.1, x.2.f, x.2.fw, x.2.bp⟩

/-- what the loop returns, stated from the outside: the list of (rank, table) pairs splits as
`pre ++ (r, t) :: post`; the answer is a best-supported lineage `x` of `t`; nothing in `pre` meets the
threshold; either `x` meets it (status match) or it does not and `(r, t)` is the last pair (below_threshold) -/
def LoopSpec (A : Arith α) (thr : α) (l : List (Nat × Tbl α ν)) (c : Option (Cls α ν)) : Prop :=
  ∃ pre post r t x st, l = pre ++ (r, t) :: post ∧ c = some (clsOf st r x) ∧ x ∈ t ∧
    (∀ y ∈ t, A.lt x.2.f y.2.f = false) ∧
    (∀ p ∈ pre, ∀ y ∈ p.2, A.lt y.2.f thr = true) ∧
    ((st = .match_ ∧ A.lt x.2.f thr = false) ∨ (st = .below ∧ A.lt x.2.f thr = true ∧ post = []))

theorem classifyLoop_spec (A : Arith α) (hA : GoodLt A) (thr : α) (l : List (Nat × Tbl α ν)) (last : Option (Cls α ν))
    (hne : ∀ p ∈ l, p.2 ≠ [])
    (rp : Option (Repair α))
    (hchk : ∀ p ∈ l, ∀ x ∈ p.2, checkValues A rp x.2.f x.2.fw = .ok (x.2.f, x.2.fw)) :
    ∃ c, classifyLoop A rp (some thr) l last = .ok c ∧ ((l = [] ∧ c = last) ∨ LoopSpec A thr l c) := by
  induction l generalizing last with
  | nil => exact ⟨last, rfl, Or.inl ⟨rfl, rfl⟩⟩
  | cons p rest ih =>
    obtain ⟨r, t⟩ := p
    have hne' : ∀ p ∈ rest, p.2 ≠ [] := fun p hp => hne p (List.mem_cons_of_mem _ hp)
    have hchk' : ∀ p ∈ rest, ∀ x ∈ p.2, checkValues A rp x.2.f x.2.fw = .ok (x.2.f, x.2.fw) :=
      fun p hp => hchk p (List.mem_cons_of_mem _ hp)
    have htne : t ≠ [] := hne (r, t) (List.mem_cons_self ..)
    -- the sorted table is non-empty
    cases hs : sortDesc A t with
    | nil =>
      have := (sortDesc_perm A t).length_eq
      rw [hs] at this
      exact absurd (List.length_eq_zero_iff.mp this.symm) htne
    | cons x tl =>
      obtain ⟨hx, hmax⟩ := sortDesc_head_max A hA t x tl hs
      obtain ⟨lin, a⟩ := x
      have hc := hchk (r, t) (List.mem_cons_self ..) (lin, a) hx
      simp only at hc
      unfold classifyLoop
      simp only [hs, hc, statusOf]
      by_cases hlt : A.lt a.f thr = true
      · simp only [hlt, if_true]
        obtain ⟨c, hc1, hc2⟩ := ih (some ⟨Status.below, r, lin, a.f, a.fw, a.bp⟩) hne' hchk'
        refine ⟨c, hc1, Or.inr ?_⟩
        have hall : ∀ y ∈ t, A.lt y.2.f thr = true := by
          intro y hy
          have h1 := hmax y hy
          -- y ≤ x < thr
          cases hyx : A.lt y.2.f a.f with
          | true => exact hA.trans _ _ _ hyx hlt
          | false =>
            have := hA.total _ _ h1 hyx thr
            simp only at this
            rw [← this]; exact hlt
        rcases hc2 with ⟨hnil, hcl⟩ | ⟨pre, post, r', t', x', st, hl, hcx, hx', hmax', hpre, hst⟩
        · subst hnil
          refine ⟨[], [], r, t, (lin, a), Status.below, rfl, ?_, hx, hmax, by simp, Or.inr ⟨rfl, hlt, rfl⟩⟩
          rw [hcl]; rfl
        · refine ⟨(r, t) :: pre, post, r', t', x', st, by rw [hl]; rfl, hcx, hx', hmax', ?_, hst⟩
          intro p hp
          rcases List.mem_cons.mp hp with hp | hp
          · subst hp; exact hall
          · exact hpre p hp
      · have hlt' : A.lt a.f thr = false := by simpa using hlt
        simp only [hlt', Bool.false_eq_true, if_false]
        simp only [show (Status.match_ = Status.below) = False from by simp, if_false]
        refine ⟨_, rfl, Or.inr ⟨[], rest, r, t, (lin, a), Status.match_, rfl, rfl, hx, hmax, by simp, Or.inl ⟨rfl, hlt'⟩⟩⟩

/-! the summarized ranks -/

theorem mem_summarizedRanks (nranks : Nat) (rows : List (RowV α ν)) (r : Nat) :
    r ∈ summarizedRanks nranks rows ↔ r < nranks ∧ ∃ row ∈ rows, counted row r = true := by
  unfold summarizedRanks
  simp [List.mem_filter, List.any_eq_true]

theorem summarizedRanks_sorted (nranks : Nat) (rows : List (RowV α ν)) :
    (summarizedRanks nranks rows).Pairwise (· < ·) := by
  unfold summarizedRanks
  exact List.Pairwise.filter _ List.pairwise_lt_range

theorem tbl_ne_nil_of_mem (g : Gather ν) (nranks r : Nat) (h : r ∈ summarizedRanks nranks g.toQ) : g.tbl r ≠ [] := by
  rw [mem_summarizedRanks] at h
  obtain ⟨_, row, hrow, hc⟩ := h
  have : popTo row.lin r ∈ (g.tbl r).map Prod.fst := by
    unfold Gather.tbl; rw [mem_keys]; exact ⟨row, hrow, hc, rfl⟩
  intro he
  rw [he] at this
  cases this

end Sm.Tax
