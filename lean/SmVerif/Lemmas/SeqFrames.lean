/-
Translated DNA, beyond clean ACGT:

* Part A — strand symmetry for EVERY byte string: complementing twice (`cc`) fixes the letters the
  codon table knows (A C G T N) and sends every other byte to a byte the table does not know, so a
  codon and its double complement translate alike; hence the six frames of `revcomp s` are a
  permutation of the six frames of `s`.
* Part B — the three reading frames of a strand are, as a multiset, the translations of ALL
  nucleotide windows of length 3k of that strand; hence two pieces overlapping by 3k-1 bases
  offer the multiset of the whole.
-/
import SmVerif.Lemmas.SeqRelations

namespace Sm.Seq

/-! ### codons: take / drop / map -/

theorem codons_take : ∀ (k : Nat) (l : List Nat), codons (l.take (3 * k)) = (codons l).take k
  | 0, l => by simp [codons]
  | k + 1, [] => by simp [codons]
  | k + 1, [_] => by rw [List.take_of_length_le (by simp; omega)]; simp [codons]
  | k + 1, [_, _] => by rw [List.take_of_length_le (by simp; omega)]; simp [codons]
  | k + 1, a :: b :: c :: rest => by
    have ih := codons_take k rest
    rw [show 3 * (k + 1) = 3 * k + 1 + 1 + 1 by omega]
    simp only [List.take_succ_cons, codons, ih]

theorem codons_drop : ∀ (i : Nat) (l : List Nat), codons (l.drop (3 * i)) = (codons l).drop i
  | 0, l => by simp
  | i + 1, [] => by simp [codons]
  | i + 1, [_] => by rw [List.drop_eq_nil_of_le (by simp; omega)]; simp [codons]
  | i + 1, [_, _] => by rw [List.drop_eq_nil_of_le (by simp; omega)]; simp [codons]
  | i + 1, a :: b :: c :: rest => by
    have ih := codons_drop i rest
    rw [show 3 * (i + 1) = 3 * i + 1 + 1 + 1 by omega]
    simp only [List.drop_succ_cons, codons, ih]

theorem codons_map (g : Nat → Nat) : ∀ (l : List Nat), codons (l.map g) = (codons l).map (List.map g)
  | [] => by simp [codons]
  | [_] => by simp [codons]
  | [_, _] => by simp [codons]
  | a :: b :: c :: rest => by simp [codons, codons_map g rest]

theorem length_of_mem_codons : ∀ {l : List Nat} {c : List Nat}, c ∈ codons l → c.length = 3
  | [], c, h => by simp [codons] at h
  | [_], c, h => by simp [codons] at h
  | [_, _], c, h => by simp [codons] at h
  | a :: b :: d :: rest, c, h => by
    simp only [codons, List.mem_cons] at h
    rcases h with rfl | h
    · rfl
    · exact length_of_mem_codons h

/-- the amino-acid string a run of nucleotides translates to (first base = first codon position) -/
def aaOf (hf : HashFn) (w : List Nat) : List Nat := (codons w).map (residue hf)

theorem frameSpec_eq (hash : List Nat → Nat) (hf : HashFn) (k : Nat) (strand : List Nat) (f : Nat) :
    frameSpec hash hf k strand f = (windows k (aaOf hf (strand.drop f))).map hash := rfl

theorem aaOf_take (hf : HashFn) (k : Nat) (l : List Nat) : aaOf hf (l.take (3 * k)) = (aaOf hf l).take k := by
  simp [aaOf, codons_take, List.map_take]

theorem aaOf_drop (hf : HashFn) (i : Nat) (l : List Nat) : aaOf hf (l.drop (3 * i)) = (aaOf hf l).drop i := by
  simp [aaOf, codons_drop, List.map_drop]

theorem length_aaOf (hf : HashFn) (l : List Nat) : (aaOf hf l).length = l.length / 3 := by
  simp [aaOf, length_codons]

/-! ### Part A: double complement -/

/-- complementing twice -/
def cc (b : Nat) : Nat := complement (complement b)

theorem revcomp_revcomp_eq_map_cc (u : List Nat) : revcomp (revcomp u) = u.map cc := by
  unfold revcomp
  simp only [List.map_reverse, List.reverse_reverse, List.map_map]
  rfl

theorem lookup_none_of_ge (l : List (Nat × Nat)) (b n : Nat) (h : ∀ p ∈ l, p.1 < n) (hb : n ≤ b) :
    l.lookup b = none := by
  induction l with
  | nil => rfl
  | cons p l ih =>
    obtain ⟨k, v⟩ := p
    have hk : k < n := h (k, v) (List.mem_cons_self ..)
    have hne : (b == k) = false := by simp; omega
    simp only [List.lookup, hne]
    exact ih (fun p hp => h p (List.mem_cons_of_mem _ hp))

theorem complement_of_ge {b : Nat} (hb : 256 ≤ b) : complement b = 0 := by
  unfold complement
  rw [lookup_none_of_ge Gen.complementEntries b 256 (by decide) hb]
  rfl

/-- the letters that occur in keys of the (regenerated) codon table -/
def keyLetters : List Nat := (Gen.codonEntries.flatMap (·.1)).eraseDups

/-- on bytes: the double complement of `b` is a codon-table letter only if it is `b` itself, and it
    fixes every codon-table letter (re-checked against the regenerated tables) -/
theorem cc_table_bytes : ∀ b < 256, (cc b ∈ keyLetters → cc b = b) ∧ (b ∈ keyLetters → cc b = b) := by
  decide +kernel

theorem cc_zero_not_key : cc 256 ∉ keyLetters ∧ cc 256 = complement 0 := by decide +kernel

theorem cc_table (b : Nat) : (cc b ∈ keyLetters → cc b = b) ∧ (b ∈ keyLetters → cc b = b) := by
  by_cases hb : b < 256
  · exact cc_table_bytes b hb
  · have h256 : cc b = cc 256 := by
      unfold cc
      rw [complement_of_ge (b := b) (by omega), complement_of_ge (b := 256) (Nat.le_refl 256)]
    have hkeys : ∀ x ∈ keyLetters, x < 256 := by decide +kernel
    constructor
    · intro h
      rw [h256] at h
      exact absurd h cc_zero_not_key.1
    · intro h
      exact absurd (hkeys b h) hb

theorem key_letters_of_entry : ∀ e ∈ Gen.codonEntries, ∀ x ∈ e.1, x ∈ keyLetters := by decide +kernel

/-- a codon equals a table key iff its double complement does -/
theorem map_cc_eq_key_iff (c key : List Nat) (hkey : ∀ x ∈ key, x ∈ keyLetters) :
    c.map cc = key ↔ c = key := by
  induction c generalizing key with
  | nil => cases key <;> simp
  | cons a c ih =>
    cases key with
    | nil => simp
    | cons x key =>
      have hx : x ∈ keyLetters := hkey x (List.mem_cons_self ..)
      have hrest : ∀ y ∈ key, y ∈ keyLetters := fun y hy => hkey y (List.mem_cons_of_mem _ hy)
      simp only [List.map_cons, List.cons.injEq, ih key hrest]
      constructor
      · rintro ⟨h1, h2⟩
        refine ⟨?_, h2⟩
        have := (cc_table a).1 (h1 ▸ hx)
        rw [← this, h1]
      · rintro ⟨h1, h2⟩
        refine ⟨?_, h2⟩
        subst h1
        exact (cc_table a).2 hx

theorem lookup_congr_keys {β : Type} (c c' : List Nat) :
    ∀ (l : List (List Nat × β)), (∀ e ∈ l, (c' = e.1 ↔ c = e.1)) → l.lookup c' = l.lookup c
  | [], _ => rfl
  | (k, v) :: l, h => by
    have hk := h (k, v) (List.mem_cons_self ..)
    have ih := lookup_congr_keys c c' l (fun e he => h e (List.mem_cons_of_mem _ he))
    simp only [List.lookup]
    by_cases hc : c = k
    · have hc' : c' = k := hk.2 hc
      simp [hc, hc']
    · have hc' : ¬ c' = k := fun h' => hc (hk.1 h')
      have e1 : (c == k) = false := by simpa using hc
      have e2 : (c' == k) = false := by simpa using hc'
      simp only [e1, e2, ih]

/-- a codon and its double complement translate alike -/
theorem codonLookup_map_cc (c : List Nat) : codonLookup (c.map cc) = codonLookup c := by
  unfold codonLookup
  apply lookup_congr_keys
  intro e he
  exact map_cc_eq_key_iff c e.1 (key_letters_of_entry e he)

theorem aaOf_map_cc (hf : HashFn) (l : List Nat) : aaOf hf (l.map cc) = aaOf hf l := by
  unfold aaOf
  rw [codons_map, List.map_map]
  apply List.map_congr_left
  intro c _
  simp [residue, codonLookup_map_cc]

theorem frameSpec_map_cc (hash : List Nat → Nat) (hf : HashFn) (k : Nat) (u : List Nat) (f : Nat) :
    frameSpec hash hf k (u.map cc) f = frameSpec hash hf k u f := by
  rw [frameSpec_eq, frameSpec_eq, ← List.map_drop, aaOf_map_cc]

/-- strand symmetry, every byte string: the six frames of (any re-casing of) the reverse complement
    are a permutation of the six frames of the sequence -/
theorem sixFrames_revcomp_perm_all (hash : List Nat → Nat) (hf : HashFn) (k : Nat) (s t : List Nat)
    (ht : upper t = revcomp (upper s)) :
    (sixFrames hash hf k t).Perm (sixFrames hash hf k s) := by
  unfold sixFrames
  simp only [ht, revcomp_revcomp_eq_map_cc, frameSpec_map_cc, List.flatMap_cons, List.flatMap_nil,
    List.append_nil]
  exact (List.perm_append_comm).append ((List.perm_append_comm).append List.perm_append_comm)

theorem revcomp_ascii (u : List Nat) : ∀ b ∈ revcomp u, b < 128 := by
  intro b hb
  simp only [revcomp, List.mem_map] at hb
  obtain ⟨a, _, rfl⟩ := hb
  exact complement_lt a

/-! ### Part B: frames = all nucleotide windows -/

/-- the three forward reading frames of a strand, concatenated -/
def strandFrames (hash : List Nat → Nat) (hf : HashFn) (k : Nat) (u : List Nat) : List Nat :=
  frameSpec hash hf k u 0 ++ frameSpec hash hf k u 1 ++ frameSpec hash hf k u 2

/-- the translation of every nucleotide window of length 3k, hashed -/
def ntWindowHashes (hash : List Nat → Nat) (hf : HashFn) (k : Nat) (u : List Nat) : List Nat :=
  (windows (3 * k) u).map (fun w => hash (aaOf hf w))

theorem frame_shift (hash : List Nat → Nat) (hf : HashFn) (k : Nat) (hk : 1 ≤ k) (x : Nat) (u : List Nat) :
    ∃ H, frameSpec hash hf k (x :: u) 0 = H ++ frameSpec hash hf k u 2 ∧
         ntWindowHashes hash hf k (x :: u) = H ++ ntWindowHashes hash hf k u := by
  match u with
  | [] =>
    refine ⟨[], ?_, ?_⟩
    · simp [frameSpec_eq, aaOf, codons, windows_nil_pos hk]
    · simp [ntWindowHashes, windows_of_length_lt (show ([x] : List Nat).length < 3 * k by simp; omega),
        windows_nil_pos (show 0 < 3 * k by omega)]
  | [y] =>
    refine ⟨[], ?_, ?_⟩
    · simp [frameSpec_eq, aaOf, codons, windows_nil_pos hk]
    · simp [ntWindowHashes, windows_of_length_lt (show ([x, y] : List Nat).length < 3 * k by simp; omega),
        windows_of_length_lt (show ([y] : List Nat).length < 3 * k by simp; omega)]
  | y :: z :: u'' =>
    have hA : aaOf hf (x :: y :: z :: u'') = residue hf [x, y, z] :: aaOf hf u'' := by simp [aaOf, codons]
    have hlenA := length_aaOf hf u''
    by_cases hc : 3 * k ≤ (y :: z :: u'').length + 1
    · have hc' : k ≤ (aaOf hf u'').length + 1 := by rw [hlenA]; simp at hc; omega
      refine ⟨[hash (aaOf hf ((x :: y :: z :: u'').take (3 * k)))], ?_, ?_⟩
      · rw [frameSpec_eq, frameSpec_eq]
        simp only [List.drop_zero, List.drop_succ_cons]
        rw [hA, windows_cons_of_le hc', List.map_cons, aaOf_take, hA]
        rfl
      · unfold ntWindowHashes
        rw [windows_cons_of_le hc]
        rfl
    · have hc' : ¬ k ≤ (aaOf hf u'').length + 1 := by rw [hlenA]; simp at hc; omega
      refine ⟨[], ?_, ?_⟩
      · rw [frameSpec_eq, frameSpec_eq]
        simp only [List.drop_zero, List.drop_succ_cons]
        rw [hA, windows_of_length_lt (by simp; omega), windows_of_length_lt (by omega)]
        rfl
      · unfold ntWindowHashes
        rw [windows_of_length_lt (by simp at hc ⊢; omega), windows_of_length_lt (by simp at hc ⊢; omega)]
        rfl

/-- the three frames of a strand are, as a multiset, the translations of all its 3k-windows -/
theorem strandFrames_perm (hash : List Nat → Nat) (hf : HashFn) (k : Nat) (hk : 1 ≤ k) :
    ∀ (u : List Nat), (strandFrames hash hf k u).Perm (ntWindowHashes hash hf k u)
  | [] => by
    simp [strandFrames, ntWindowHashes, frameSpec_eq, aaOf, codons, windows_nil_pos hk,
      windows_nil_pos (show 0 < 3 * k by omega)]
  | x :: u => by
    have ih := strandFrames_perm hash hf k hk u
    obtain ⟨H, h0, hW⟩ := frame_shift hash hf k hk x u
    have h1 : frameSpec hash hf k (x :: u) 1 = frameSpec hash hf k u 0 := by simp [frameSpec_eq]
    have h2 : frameSpec hash hf k (x :: u) 2 = frameSpec hash hf k u 1 := by simp [frameSpec_eq]
    unfold strandFrames at ih ⊢
    rw [h0, h1, h2, hW]
    have : (H ++ frameSpec hash hf k u 2 ++ frameSpec hash hf k u 0 ++ frameSpec hash hf k u 1).Perm
        (H ++ (frameSpec hash hf k u 0 ++ frameSpec hash hf k u 1 ++ frameSpec hash hf k u 2)) := by
      apply List.perm_iff_count.2
      intro a
      simp only [List.count_append]
      omega
    exact this.trans (ih.append_left H)

theorem sixFrames_perm_strands (hash : List Nat → Nat) (hf : HashFn) (k : Nat) (seq : List Nat) :
    (sixFrames hash hf k seq).Perm
      (strandFrames hash hf k (upper seq) ++ strandFrames hash hf k (revcomp (upper seq))) := by
  unfold sixFrames strandFrames
  simp only [List.flatMap_cons, List.flatMap_nil, List.append_nil]
  apply List.perm_iff_count.2
  intro a
  simp only [List.count_append]
  omega

/-- six frames = translations of all 3k-windows of both strands (multiset) -/
theorem sixFrames_perm_windows (hash : List Nat → Nat) (hf : HashFn) (k : Nat) (hk : 1 ≤ k) (seq : List Nat) :
    (sixFrames hash hf k seq).Perm
      (ntWindowHashes hash hf k (upper seq) ++ ntWindowHashes hash hf k (revcomp (upper seq))) :=
  (sixFrames_perm_strands hash hf k seq).trans
    ((strandFrames_perm hash hf k hk _).append (strandFrames_perm hash hf k hk _))

theorem revcomp_append (x y : List Nat) : revcomp (x ++ y) = revcomp y ++ revcomp x := by
  simp [revcomp]

theorem ntWindowHashes_overlap (hash : List Nat → Nat) (hf : HashFn) (k : Nat) (hk : 1 ≤ k)
    (a b c : List Nat) (hb : b.length = 3 * k - 1) :
    ntWindowHashes hash hf k (a ++ b ++ c) =
      ntWindowHashes hash hf k (a ++ b) ++ ntWindowHashes hash hf k (b ++ c) := by
  unfold ntWindowHashes
  rw [windows_append_overlap (by omega) a b c hb, List.map_append]

/-- two pieces overlapping by 3k-1 bases: together they offer exactly the multiset of the whole -/
theorem sixFrames_pieces_perm (hash : List Nat → Nat) (hf : HashFn) (k : Nat) (hk : 1 ≤ k)
    (a b c : List Nat) (hb : b.length = 3 * k - 1) :
    (sixFrames hash hf k (a ++ b ++ c)).Perm
      (sixFrames hash hf k (a ++ b) ++ sixFrames hash hf k (b ++ c)) := by
  have hub : (upper b).length = 3 * k - 1 := by rw [length_upper]; exact hb
  have hrb : (revcomp (upper b)).length = 3 * k - 1 := by rw [length_revcomp]; exact hub
  have hw := sixFrames_perm_windows hash hf k hk (a ++ b ++ c)
  have h1 := sixFrames_perm_windows hash hf k hk (a ++ b)
  have h2 := sixFrames_perm_windows hash hf k hk (b ++ c)
  simp only [upper_append, revcomp_append] at hw h1 h2
  rw [ntWindowHashes_overlap hash hf k hk _ _ _ hub] at hw
  rw [← List.append_assoc (revcomp (upper c)), ntWindowHashes_overlap hash hf k hk _ _ _ hrb] at hw
  refine (hw.trans ?_).trans (h1.append h2).symm
  apply List.perm_iff_count.2
  intro x
  simp only [List.count_append]
  omega

end Sm.Seq
