/-
C19 helper lemmas, part 1: the per-rank tables over exact rationals.

`psum P g t` = sum of a projection `g` of the accumulators of the keys satisfying `P`.
Main facts: `psum_sumAtRank` (what a table holds for any set of lineages is the sum over
the rows counted at the rank whose popped lineage is in the set), `keys_nodup`,
`mem_sumAtRank_row` (every key comes from a row).
-/
import SmVerif.Model.Tax
import Mathlib.Tactic.Linarith
import Mathlib.Tactic.Ring
import Mathlib.Tactic.NormNum
import Mathlib.Algebra.Order.Field.Rat
import Mathlib.Algebra.BigOperators.Group.List.Basic
import Mathlib.Algebra.Order.BigOperators.Group.List

namespace Sm.Tax

/-- exact rational arithmetic -/
def ratA : Arith ℚ :=
  { zero := 0, one := 1, add := fun a b => a + b, sub := fun a b => a - b, lt := fun a b => decide (a < b) }

@[simp] theorem ratA_zero : ratA.zero = 0 := rfl
@[simp] theorem ratA_one : ratA.one = 1 := rfl
@[simp] theorem ratA_add (a b : ℚ) : ratA.add a b = a + b := rfl
@[simp] theorem ratA_sub (a b : ℚ) : ratA.sub a b = a - b := rfl
@[simp] theorem ratA_lt (a b : ℚ) : ratA.lt a b = decide (a < b) := rfl
@[simp] theorem ratA_le (a b : ℚ) : ratA.le a b = decide (a ≤ b) := by
  unfold Arith.le
  simp only [ratA_lt]
  by_cases h : a ≤ b
  · simp [h, not_lt.mpr h]
  · simp [h, not_le.mp h]
@[simp] theorem ratA_isZero (a : ℚ) : ratA.isZero a = decide (a = 0) := by
  simp only [Arith.isZero, ratA_lt, ratA_zero]
  by_cases h : a = 0
  · simp [h]
  · rcases lt_or_gt_of_ne h with h1 | h1
    · simp [h1, h]
    · simp [h1, h]

set_option linter.unusedSectionVars false
set_option linter.unusedSimpArgs false
variable {ν : Type} [DecidableEq ν]

/-- the projections of an accumulator / a row the three dictionaries hold -/
structure Proj (ν : Type) where
  acc : Acc ℚ → ℚ
  row : RowV ℚ ν → ℚ
  new : ∀ r : RowV ℚ ν, acc ⟨r.f, r.fw, r.bp⟩ = row r
  add : ∀ (a : Acc ℚ) (r : RowV ℚ ν), acc ⟨a.f + r.f, a.fw + r.fw, a.bp + r.bp⟩ = acc a + row r

def projF : Proj ν := ⟨(·.f), (·.f), by intro r; rfl, by intro a r; rfl⟩
def projFw : Proj ν := ⟨(·.fw), (·.fw), by intro r; rfl, by intro a r; rfl⟩
def projBp : Proj ν :=
  ⟨fun a => (a.bp : ℚ), fun r => (r.bp : ℚ), by intro r; rfl, by intro a r; push_cast; ring⟩

/-- sum of a projection over the entries whose key satisfies `P` -/
def psum (P : Lineage ν → Bool) (g : Acc ℚ → ℚ) (t : Tbl ℚ ν) : ℚ :=
  ((t.filter (fun x => P x.1)).map (fun x => g x.2)).sum

@[simp] theorem psum_nil (P : Lineage ν → Bool) (g : Acc ℚ → ℚ) : psum P g ([] : Tbl ℚ ν) = 0 := rfl

theorem psum_cons (P : Lineage ν → Bool) (g : Acc ℚ → ℚ) (x : Lineage ν × Acc ℚ) (t : Tbl ℚ ν) :
    psum P g (x :: t) = (if P x.1 then g x.2 else 0) + psum P g t := by
  unfold psum
  by_cases h : P x.1 <;> simp [List.filter_cons, h]

theorem psum_bump (P : Lineage ν → Bool) (p : Proj ν) (key : Lineage ν) (row : RowV ℚ ν) (t : Tbl ℚ ν) :
    psum P p.acc (bump ratA key row t) = psum P p.acc t + (if P key then p.row row else 0) := by
  induction t with
  | nil =>
    simp only [bump, ratA_add, ratA_zero, psum_cons, psum_nil]
    by_cases h : P key <;> simp [h, p.new]
  | cons x t ih =>
    obtain ⟨k, a⟩ := x
    unfold bump
    by_cases hk : k = key
    · subst hk
      simp only [if_true, ratA_add, psum_cons]
      by_cases h : P k <;> simp [h, p.add] ; ring
    · simp only [hk, if_false, psum_cons, ih]
      ring

/-- the rows that `summarize_up_ranks` adds under a lineage satisfying `P` at rank `r` -/
def rowsUnder (P : Lineage ν → Bool) (r : Nat) (rows : List (RowV ℚ ν)) : List (RowV ℚ ν) :=
  rows.filter (fun row => counted row r && P (popTo row.lin r))

theorem psum_foldl (P : Lineage ν → Bool) (p : Proj ν) (r : Nat) (rows : List (RowV ℚ ν)) (t0 : Tbl ℚ ν) :
    psum P p.acc (rows.foldl (fun t row => if counted row r then bump ratA (popTo row.lin r) row t else t) t0)
      = psum P p.acc t0 + ((rowsUnder P r rows).map p.row).sum := by
  induction rows generalizing t0 with
  | nil => simp [rowsUnder]
  | cons row rows ih =>
    simp only [List.foldl_cons, rowsUnder, List.filter_cons]
    rw [ih]
    by_cases hc : counted row r
    · simp only [hc, if_true, psum_bump, Bool.true_and]
      by_cases hp : P (popTo row.lin r)
      · simp only [hp, if_true, List.map_cons, List.sum_cons, rowsUnder]; ring
      · simp only [hp, rowsUnder]; simp
    · simp only [hc, rowsUnder]; simp

/-- **what a table holds**: for any set `P` of lineages, the entries of the rank-`r` table
with key in `P` sum to the sum over the rows counted at `r` whose popped lineage is in `P` -/
theorem psum_sumAtRank (P : Lineage ν → Bool) (p : Proj ν) (r : Nat) (rows : List (RowV ℚ ν)) :
    psum P p.acc (sumAtRank ratA rows r) = ((rowsUnder P r rows).map p.row).sum := by
  unfold sumAtRank
  rw [psum_foldl]; simp

/-! keys -/

theorem keys_bump (key : Lineage ν) (row : RowV ℚ ν) (t : Tbl ℚ ν) :
    (bump ratA key row t).map Prod.fst = if key ∈ t.map Prod.fst then t.map Prod.fst else t.map Prod.fst ++ [key] := by
  induction t with
  | nil => simp [bump]
  | cons x t ih =>
    obtain ⟨k, a⟩ := x
    unfold bump
    by_cases hk : k = key
    · subst hk; simp
    · simp only [hk, if_false, List.map_cons, ih, List.mem_cons]
      have hk' : ¬ key = k := fun h => hk h.symm
      by_cases hm : key ∈ t.map Prod.fst
      · simp [hm]
      · simp [hm, hk']

theorem keys_nodup_bump (key : Lineage ν) (row : RowV ℚ ν) (t : Tbl ℚ ν) (h : (t.map Prod.fst).Nodup) :
    ((bump ratA key row t).map Prod.fst).Nodup := by
  rw [keys_bump]
  by_cases hm : key ∈ t.map Prod.fst
  · simp [hm, h]
  · simp only [hm, if_false]
    rw [List.nodup_append]
    refine ⟨h, by simp, ?_⟩
    intro a ha b hb
    simp at hb
    subst hb
    intro hab; subst hab; exact hm ha

theorem keys_nodup_foldl (r : Nat) (rows : List (RowV ℚ ν)) (t0 : Tbl ℚ ν) (h : (t0.map Prod.fst).Nodup) :
    ((rows.foldl (fun t row => if counted row r then bump ratA (popTo row.lin r) row t else t) t0).map Prod.fst).Nodup := by
  induction rows generalizing t0 with
  | nil => simpa
  | cons row rows ih =>
    simp only [List.foldl_cons]
    apply ih
    by_cases hc : counted row r
    · simp only [hc, if_true]; exact keys_nodup_bump _ _ _ h
    · simp only [hc]; simpa using h

/-- a lineage occurs once in a rank's table -/
theorem keys_nodup (r : Nat) (rows : List (RowV ℚ ν)) : ((sumAtRank ratA rows r).map Prod.fst).Nodup := by
  unfold sumAtRank
  exact keys_nodup_foldl r rows [] (by simp)

theorem mem_keys_foldl (r : Nat) (rows : List (RowV ℚ ν)) (t0 : Tbl ℚ ν) (L : Lineage ν) :
    L ∈ (rows.foldl (fun t row => if counted row r then bump ratA (popTo row.lin r) row t else t) t0).map Prod.fst
      ↔ L ∈ t0.map Prod.fst ∨ ∃ row ∈ rows, counted row r = true ∧ popTo row.lin r = L := by
  induction rows generalizing t0 with
  | nil => simp
  | cons row rows ih =>
    simp only [List.foldl_cons]
    rw [ih]
    by_cases hc : counted row r
    · simp only [hc, if_true, keys_bump]
      by_cases hm : popTo row.lin r ∈ t0.map Prod.fst
      · simp only [hm, if_true, List.mem_cons, exists_eq_or_imp]
        constructor
        · rintro (h | h)
          · exact Or.inl h
          · exact Or.inr (Or.inr h)
        · rintro (h | ⟨_, h⟩ | h)
          · exact Or.inl h
          · exact Or.inl (h ▸ hm)
          · exact Or.inr h
      · simp only [hm, if_false]
        rw [List.mem_append, List.mem_singleton]
        simp only [List.mem_cons, exists_eq_or_imp]
        constructor
        · rintro ((h | h) | h)
          · exact Or.inl h
          · exact Or.inr (Or.inl ⟨hc, h.symm⟩)
          · exact Or.inr (Or.inr h)
        · rintro (h | ⟨_, h⟩ | h)
          · exact Or.inl (Or.inl h)
          · exact Or.inl (Or.inr h.symm)
          · exact Or.inr h
    · simp [hc]

/-- the keys of a rank's table are exactly the popped lineages of the rows counted at the rank -/
theorem mem_keys (r : Nat) (rows : List (RowV ℚ ν)) (L : Lineage ν) :
    L ∈ (sumAtRank ratA rows r).map Prod.fst ↔ ∃ row ∈ rows, counted row r = true ∧ popTo row.lin r = L := by
  unfold sumAtRank
  rw [mem_keys_foldl]; simp

/-- with distinct keys, the entries selected by `· = L` are the one entry of `L` -/
theorem psum_eq_of_mem (g : Acc ℚ → ℚ) (t : Tbl ℚ ν) (h : (t.map Prod.fst).Nodup) (L : Lineage ν) (a : Acc ℚ)
    (hm : (L, a) ∈ t) : psum (fun K => decide (K = L)) g t = g a := by
  induction t with
  | nil => cases hm
  | cons x t ih =>
    obtain ⟨k, b⟩ := x
    rw [psum_cons]
    simp only [List.map_cons, List.nodup_cons] at h
    rcases List.mem_cons.mp hm with heq | hin
    · cases heq
      have : psum (fun K => decide (K = L)) g t = 0 := by
        unfold psum
        have : t.filter (fun x => decide (x.1 = L)) = [] := by
          rw [List.filter_eq_nil_iff]
          intro y hy hyL
          simp at hyL
          exact h.1 (hyL ▸ List.mem_map_of_mem (f := Prod.fst) hy)
        rw [this]; rfl
      simp [this]
    · have hk : k ≠ L := by
        intro hkl; subst hkl
        exact h.1 (List.mem_map_of_mem (f := Prod.fst) hin)
      simp [hk, ih h.2 hin]

/-- **rank_sum on the table**: the accumulator of lineage `L` at rank `r` holds the sums over
the rows counted at `r` whose popped lineage is `L` -/
theorem entry_eq_sum (p : Proj ν) (r : Nat) (rows : List (RowV ℚ ν)) (L : Lineage ν) (a : Acc ℚ)
    (hm : (L, a) ∈ sumAtRank ratA rows r) :
    p.acc a = ((rowsUnder (fun K => decide (K = L)) r rows).map p.row).sum := by
  rw [← psum_sumAtRank, psum_eq_of_mem p.acc _ (keys_nodup r rows) L a hm]

end Sm.Tax
