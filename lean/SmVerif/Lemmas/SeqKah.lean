/-
`kmers_and_hashes` for translated DNA and for amino-acid input: the k-mer strings it yields
and the fact that each hash is paired with the k-mer that produced it.
-/
import SmVerif.Lemmas.SeqFrames

namespace Sm.Seq

/-- the nucleotide k-mers (3k bases) of one reading frame of a strand, left to right -/
def frameKmers (k : Nat) (s : List Nat) (f : Nat) : List (List Nat) :=
  (List.range ((s.length - f) / 3 + 1 - k)).map (fun i => ((s.drop f).drop (3 * i)).take (3 * k))

/-- all six frames, in the order `kmers_and_hashes` yields them -/
def sixFrameKmersSpec (k : Nat) (u : List Nat) : List (List Nat) :=
  [0, 1, 2].flatMap (fun f => frameKmers k u f ++ frameKmers k (revcomp u) f)

theorem range3_eq (stop : Int) (n : Nat) (h : (stop ≤ 0 ∧ n = 0) ∨ (0 < stop ∧ n = (stop.toNat + 2) / 3)) :
    Py.range3 stop = (List.range n).map (· * 3) := by
  unfold Py.range3
  rcases h with ⟨h1, rfl⟩ | ⟨h1, rfl⟩
  · simp [h1]
  · rw [if_neg (by omega)]

/-- the Python loop yields exactly the frame's k-mers -/
theorem kmersOf_eq (k : Nat) (hk : 1 ≤ k) (s : List Nat) (f : Nat) :
    Py.kmersOf (k * 3) s f = frameKmers k s f := by
  unfold Py.kmersOf frameKmers
  have hcount : ((((s.length : Int) - ((k * 3 : Nat) : Int) + 1 - (f : Int)) ≤ 0 ∧ (s.length - f) / 3 + 1 - k = 0) ∨
      (0 < ((s.length : Int) - ((k * 3 : Nat) : Int) + 1 - (f : Int)) ∧
        (s.length - f) / 3 + 1 - k = (((s.length : Int) - ((k * 3 : Nat) : Int) + 1 - (f : Int)).toNat + 2) / 3)) := by
    omega
  rw [range3_eq _ _ hcount, List.map_map]
  apply List.map_congr_left
  intro i _
  simp only [Function.comp, List.drop_drop]
  rw [show i * 3 + f = f + 3 * i by omega, show k * 3 = 3 * k by omega]

/-- the hashes of a frame are the hashes of the translations of its k-mers, in order -/
theorem frameSpec_eq_kmers (hash : List Nat → Nat) (hf : HashFn) (k : Nat) (s : List Nat) (f : Nat) :
    frameSpec hash hf k s f = (frameKmers k s f).map (fun w => hash (aaOf hf w)) := by
  rw [frameSpec_eq, ← range_map_windows, length_aaOf, List.length_drop]
  unfold frameKmers
  rw [List.map_map, List.map_map]
  apply List.map_congr_left
  intro i _
  simp only [Function.comp]
  rw [aaOf_take, aaOf_drop]

theorem sixFrames_eq_kmers (hash : List Nat → Nat) (hf : HashFn) (k : Nat) (seq : List Nat) :
    sixFrames hash hf k seq = (sixFrameKmersSpec k (upper seq)).map (fun w => hash (aaOf hf w)) := by
  unfold sixFrames sixFrameKmersSpec
  simp only [List.flatMap_cons, List.flatMap_nil, List.append_nil, List.map_append, frameSpec_eq_kmers]

theorem sixFrameKmers_eq (k : Nat) (hk : 1 ≤ k) (u : List Nat) :
    Py.sixFrameKmers (k * 3) u (revcomp u) = sixFrameKmersSpec k u := by
  unfold Py.sixFrameKmers sixFrameKmersSpec
  simp only [kmersOf_eq k hk]

/-- `screed.rc` agrees with the code's own reverse complement on sequences of A C G T N -/
theorem screedRc_eq (u : List Nat) (h : ∀ b ∈ u, b ∈ [65, 67, 71, 84, 78]) :
    Py.screedRc u = some (revcomp u) := by
  unfold Py.screedRc
  have hall : u.all (fun b => [65, 67, 71, 84, 78].contains b) = true := by
    rw [List.all_eq_true]
    intro b hb
    simpa using h b hb
  rw [if_pos hall]
  congr 1
  unfold revcomp
  apply List.map_congr_left
  intro b hb
  have hb' := h b (List.mem_reverse.1 hb)
  simp only [List.mem_cons, List.mem_nil_iff, or_false] at hb'
  rcases hb' with rfl | rfl | rfl | rfl | rfl <;> decide

theorem acgtn_ascii (u : List Nat) (h : ∀ b ∈ u, b ∈ [65, 67, 71, 84, 78]) : ∀ b ∈ u, b < 128 := by
  intro b hb
  have hb' := h b hb
  simp only [List.mem_cons, List.mem_nil_iff, or_false] at hb'
  rcases hb' with rfl | rfl | rfl | rfl | rfl <;> omega

theorem sixFrames_short (hash : List Nat → Nat) (hf : HashFn) (k : Nat) (seq : List Nat)
    (h : seq.length < 3 * k) : sixFrames hash hf k seq = [] := by
  have := length_sixFrames hash hf k seq
  have h0 : (sixFrames hash hf k seq).length = 0 := by omega
  exact List.eq_nil_of_length_eq_zero h0

/-- when no forward codon is malformed UTF-8 (e.g. ASCII input) translated DNA yields its six frames -/
theorem translateSpec_of_utf8 (hash : List Nat → Nat) (hf : HashFn) (k : Nat) (seq : List Nat)
    (hutf : codonsUtf8 seq = true) : translateSpec hash hf seq k = (sixFrames hash hf k seq, .done) := by
  unfold translateSpec
  by_cases h1 : seq.length < 3 * k
  · simp [h1, sixFrames_short hash hf k seq h1]
  · simp [h1, hutf]

theorem codonsUtf8_of_upper_ascii (t : List Nat) (h : ∀ b ∈ upper t, b < 128) : codonsUtf8 t = true := by
  have := codonsUtf8_of_ascii (upper t) h
  simpa [codonsUtf8, upper_upper] using this

/-- `kmers_and_hashes(dna)` on a protein / Dayhoff / HP sketch, for a sequence of A C G T N in any
    case: the 3k-base k-mers of frame 0 forward, frame 0 reverse complement, frame 1 forward, …,
    each paired with the hash of ITS OWN translation -/
theorem kmersAndHashes_pairs_translate (hash : List Nat → Nat) (h0 : ∀ w, hash w ≠ 0) (hf : HashFn)
    (hhf : hf ≠ .dna) (k : Nat) (hk : 1 ≤ k) (bs : List Nat)
    (hacgtn : ∀ b ∈ upper bs, b ∈ [65, 67, 71, 84, 78]) :
    Py.kmersAndHashes hash hf k bs false false =
      .ok ((sixFrameKmersSpec k (upper bs)).map (fun w => (w, some (hash (aaOf hf w))))) := by
  have hdna : hf.isDna = false := by cases hf <;> simp [HashFn.isDna] at hhf ⊢
  have hK : k * 3 / 3 = k := by omega
  have hascii := acgtn_ascii _ hacgtn
  have hutf : codonsUtf8 (upper bs) = true := codonsUtf8_of_ascii _ hascii
  have hit := iterate_translate_eq_spec hash (upper bs) (k * 3) false hf hhf (by omega)
  rw [hK] at hit
  have hspec : translateSpec hash hf (upper bs) k = (sixFrames hash hf k (upper bs), .done) := by
    unfold translateSpec
    by_cases h1 : (upper bs).length < 3 * k
    · simp [h1, sixFrames_short hash hf k (upper bs) h1]
    · simp [h1, hutf]
  have hnz := sixFrames_ne_zero hash h0 hf k (upper bs)
  have hfilt : (sixFrames hash hf k (upper bs)).filter (· != 0) = sixFrames hash hf k (upper bs) := by
    rw [List.filter_eq_self]
    intro x hx
    simpa using hnz x hx
  have e2 : Py.seqToHashes hash hf k (upper bs) false false false = .ok (sixFrames hash hf k (upper bs)) := by
    simp [Py.seqToHashes, Py.rustK, hdna, seqToHashesFfi, hit, hspec, hfilt]
  have hlen : ((upper bs).length + 1 - k * 3) * 2 = (sixFrames hash hf k (upper bs)).length := by
    have := length_sixFrames hash hf k (upper bs)
    omega
  unfold Py.kmersAndHashes
  simp only [e2, hdna, Bool.not_false, Bool.and_self, if_true, Bool.false_eq_true, if_false, List.length_map,
    hlen, bne_self_eq_false, screedRc_eq _ hacgtn, sixFrameKmers_eq k hk]
  rw [sixFrames_eq_kmers, upper_upper, List.map_map, zip_map_self]
  rfl

/-- … and the same with `force=True` -/
theorem kmersAndHashes_pairs_translate_force (hash : List Nat → Nat) (h0 : ∀ w, hash w ≠ 0) (hf : HashFn)
    (hhf : hf ≠ .dna) (k : Nat) (hk : 1 ≤ k) (bs : List Nat)
    (hacgtn : ∀ b ∈ upper bs, b ∈ [65, 67, 71, 84, 78]) :
    Py.kmersAndHashes hash hf k bs true false =
      .ok ((sixFrameKmersSpec k (upper bs)).map (fun w => (w, some (hash (aaOf hf w))))) := by
  rw [kmersAndHashes_translate_force_irrelevant hash h0 hf hhf k hk bs]
  exact kmersAndHashes_pairs_translate hash h0 hf hhf k hk bs hacgtn

theorem proteinSpec_eq (hash : List Nat → Nat) (hf : HashFn) (hhf : hf ≠ .dna) (seq : List Nat) (k : Nat) :
    proteinSpec hash hf seq k = (windows k (upper seq)).map (fun w => hash (protEnc hf w)) := by
  cases hf with
  | dna => exact absurd rfl hhf
  | protein => simp [proteinSpec, protEnc]
  | dayhoff => simp [proteinSpec, protEnc, windows_map, List.map_map, Function.comp_def]
  | hp => simp [proteinSpec, protEnc, windows_map, List.map_map, Function.comp_def]

/-- `kmers_and_hashes(aa, is_protein=True)`: every window of k letters of the upper-cased input,
    paired with the hash of its own (Dayhoff / HP re-encoded) letters -/
theorem kmersAndHashes_pairs_protein (hash : List Nat → Nat) (h0 : ∀ w, hash w ≠ 0) (hf : HashFn)
    (hhf : hf ≠ .dna) (k : Nat) (bs : List Nat) (force : Bool) :
    Py.kmersAndHashes hash hf k bs force true =
      .ok ((windows k (upper bs)).map (fun w => (w, some (hash (protEnc hf w))))) := by
  have hdna : hf.isDna = false := by cases hf <;> simp [HashFn.isDna] at hhf ⊢
  have hK : k * 3 / 3 = k := by omega
  have hit := iterate_protein_eq_spec hash (upper bs) (k * 3) force hf hhf
  rw [hK, proteinSpec_eq hash hf hhf, upper_upper] at hit
  have hne : ∀ x ∈ (windows k (upper bs)).map (fun w => hash (protEnc hf w)), x ≠ 0 := by
    intro x hx
    simp only [List.mem_map] at hx
    obtain ⟨w, _, rfl⟩ := hx
    exact h0 _
  have hfilt : ((windows k (upper bs)).map (fun w => hash (protEnc hf w))).filter (· != 0)
      = (windows k (upper bs)).map (fun w => hash (protEnc hf w)) := by
    rw [List.filter_eq_self]
    intro x hx
    simpa using hne x hx
  have hmap : ((windows k (upper bs)).map (fun w => hash (protEnc hf w))).map
      (fun h => if h == 0 then none else some h)
      = ((windows k (upper bs)).map (fun w => hash (protEnc hf w))).map some := by
    apply List.map_congr_left
    intro x hx
    have : (x == 0) = false := by simpa using hne x hx
    simp [this]
  have e : Py.seqToHashes hash hf k (upper bs) force force true =
      .ok ((windows k (upper bs)).map (fun w => hash (protEnc hf w))) := by
    cases force <;> simp [Py.seqToHashes, Py.rustK, hdna, seqToHashesFfi, hit, hfilt]
  have hlw := length_windows (k := k) (upper bs)
  unfold Py.kmersAndHashes
  simp only [e]
  cases force
  · simp only [hdna, Bool.not_false, Bool.not_true, Bool.and_false, Bool.false_eq_true, if_false,
      List.length_map, hlw, bne_self_eq_false]
    rw [range_map_windows, List.map_map, zip_map_self]
    rfl
  · simp only [hdna, Bool.not_false, Bool.not_true, Bool.and_false, Bool.false_eq_true, if_false, if_true,
      hmap, List.length_map, hlw, bne_self_eq_false]
    rw [range_map_windows, List.map_map, zip_map_self]
    rfl

/-- k = 0 on a protein / Dayhoff / HP sketch (outside the property, recorded): translating any DNA,
    even the empty string, ends in a Rust panic (`windows(0)`, or the UTF-8 unwrap before it),
    which the FFI turns into a Python exception; nothing is hashed -/
theorem iterate_translate_k0 (hash : List Nat → Nat) (seq : List Nat) (K : Nat) (force : Bool) (hf : HashFn)
    (hhf : hf ≠ .dna) (hk : K / 3 = 0) :
    iterate hash seq K force false hf =
      ([], .err (if (codons (upper seq)).all utf8Valid then .panicWindow0 else .panicUtf8)) := by
  have hdna : hf.isDna = false := by cases hf <;> simp [HashFn.isDna] at hhf ⊢
  unfold iterate fuelFor
  rw [show 2 * seq.length + 4 = (2 * seq.length + 3) + 1 by omega]
  by_cases hu : (codons (upper seq)).all utf8Valid = true
  · simp [collect, next, new, hdna, hk, nextTranslate, fillBuffer, frameHashes, toAA_eq, hu]
  · simp [collect, next, new, hdna, hk, nextTranslate, fillBuffer, frameHashes, toAA_eq, hu]

end Sm.Seq
