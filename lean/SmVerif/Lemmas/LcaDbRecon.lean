/-
`_signatures` against the log: domain, content and names of the rebuilt sketches.
-/
import SmVerif.Lemmas.LcaDbSig

namespace Sm.Lca

open Sm.Lin Sm.Dict

theorem idxsOf_mem {db : Db} {log : List Entry} (hq : QRep db log) (h idx : Nat) :
    idx ∈ db.idxsOf h ↔ ∃ e, log[idx]? = some e ∧ h ∈ e.kept := by
  rw [hq.index h]
  exact mem_idxsSpec

theorem sketches_log {db : Db} {log : List Entry} (hq : QRep db log) :
    (keys db.sketches).Nodup ∧
    (∀ j, ((get? db.sketches j).getD []).Pairwise (· < ·)) ∧
    (∀ j h, h ∈ (get? db.sketches j).getD [] ↔ ∃ e, log[j]? = some e ∧ h ∈ e.kept ∧ h ≤ mhR db.scaled) ∧
    (∀ j, j ∈ keys db.sketches ↔ ∃ e, log[j]? = some e) := by
  obtain ⟨h1, h2, h3, h4⟩ := sketches_spec db
  have hrel : ∀ j h, (∃ s, (h, s) ∈ db.hashvalToIdx ∧ j ∈ s) ↔ ∃ e, log[j]? = some e ∧ h ∈ e.kept := by
    intro j h
    rw [← idxsOf_mem hq h j]
    unfold Db.idxsOf
    constructor
    · rintro ⟨s, hs, hj⟩
      rw [get?_of_mem_nodup hq.hv_nodup hs]; exact hj
    · intro hj
      cases hg : get? db.hashvalToIdx h with
      | none => simp [hg] at hj
      | some s => simp [hg] at hj; exact ⟨s, mem_of_get? hg, hj⟩
  refine ⟨h1, h2, ?_, ?_⟩
  · intro j h
    have := h3 j h
    unfold M at this
    rw [this]
    constructor
    · rintro ⟨s, hs, hj, hle⟩
      obtain ⟨e, he, hk⟩ := (hrel j h).mp ⟨s, hs, hj⟩
      exact ⟨e, he, hk, hle⟩
    · rintro ⟨e, he, hk, hle⟩
      obtain ⟨s, hs, hj⟩ := (hrel j h).mpr ⟨e, he, hk⟩
      exact ⟨s, hs, hj, hle⟩
  · intro j
    rw [h4 j, hq.identToIdx, vals_identIdx, List.mem_range]
    constructor
    · rintro (⟨h, s, hs, hj⟩ | hlt)
      · obtain ⟨e, he, _⟩ := (hrel j h).mp ⟨s, hs, hj⟩
        exact ⟨e, he⟩
      · exact ⟨log[j], List.getElem?_eq_getElem hlt⟩
    · rintro ⟨e, he⟩
      exact Or.inr (List.getElem?_eq_some_iff.mp he).1

theorem signatures_named_log {db : Db} {log : List Entry} (hq : QRep db log) :
    db.signatures = .ok (db.sketches.map (fun p => (p.1, ((log[p.1]?).map Entry.name).getD "", p.2))) := by
  unfold Db.signatures
  rw [idxToIdent_eq hq]
  simp only
  obtain ⟨_, _, _, h4⟩ := sketches_log hq
  have hall : ∀ p ∈ db.sketches, ∃ e, log[p.1]? = some e := fun p hp => (h4 p.1).mp (mem_keys_of_mem hp)
  generalize db.sketches = l at hall
  induction l with
  | nil => simp [pure, Except.pure]
  | cons p ps ih =>
    obtain ⟨e, he⟩ := hall p (by simp)
    have hname : get? db.identToName e.ident = some e.name := by
      rw [hq.identToName]
      apply get?_of_mem_nodup
      · rw [keys_eq_map, List.map_map]; exact hq.idents_nodup
      · exact List.mem_map.mpr ⟨e, List.mem_of_getElem? he, rfl⟩
    rw [List.mapM_cons, get?_idxIdent, he]
    simp only [Option.map_some, hname, bind, Except.bind]
    rw [ih (fun q hq' => hall q (List.mem_cons_of_mem _ hq'))]
    simp [pure, Except.pure, he]

theorem signatures_count_log {db : Db} {log : List Entry} (hq : QRep db log) : db.sketches.length = log.length := by
  obtain ⟨h1, _, _, h4⟩ := sketches_log hq
  have hp : (keys db.sketches).Perm (List.range log.length) := by
    rw [List.perm_ext_iff_of_nodup h1 List.nodup_range]
    intro j
    rw [h4 j, List.mem_range]
    constructor
    · rintro ⟨e, he⟩; exact (List.getElem?_eq_some_iff.mp he).1
    · intro hlt; exact ⟨log[j], List.getElem?_eq_getElem hlt⟩
  have := hp.length_eq
  rw [keys_eq_map] at this
  simpa using this


end Sm.Lca
