/-
C05, downsampling relations: `similarity(downsample=True)` on two scaled sketches of different scaled
values equals `similarity` of the two sketches downsampled EXPLICITLY (Python `downsample(scaled=max)`)
— the Rust-internal `downsample_scaled` of a clone and the Python `downsample` produce sketches with the
same hashes, abundances and threshold (C03: both keep exactly the hashes `≤ max_hash(S)`), and the
comparison functions read nothing else.
-/
import SmVerif.Lemmas.CompareLemmas
import SmVerif.Lemmas.Downsample
import SmVerif.Lemmas.SetOpsApi
import SmVerif.Lemmas.ScaledNum

namespace Sm

open MH Cmp

/-- two sketches that agree in every field but the md5 cache -/
structure SameContent (s t : MH) : Prop where
  num : s.num = t.num
  maxHash : s.maxHash = t.maxHash
  ksize : s.ksize = t.ksize
  seed : s.seed = t.seed
  hf : s.hf = t.hf
  mins : s.mins = t.mins
  abunds : s.abunds = t.abunds

theorem SameContent.eq {s t : MH} (h : SameContent s t) : s = { t with md5 := s.md5 } := by
  obtain ⟨h1, h2, h3, h4, h5, h6, h7⟩ := h
  cases s; cases t
  simp_all

/-- the comparison functions do not read the md5 cache -/
theorem similarityNoDs_congr {s s' o o' : MH} (hs : SameContent s s') (ho : SameContent o o') (ia : Bool) :
    similarityNoDs s o ia = similarityNoDs s' o' ia := by
  rw [hs.eq, ho.eq]
  rfl

theorem countCommonNoDs_congr {s s' o o' : MH} (hs : SameContent s s') (ho : SameContent o o') :
    countCommonNoDs s o = countCommonNoDs s' o' := by
  rw [hs.eq, ho.eq]
  rfl

/-- Python `downsample(scaled=S)` of a scaled sketch whose threshold is at least `max_hash(S)`:
    invariant, threshold `max_hash(S)`, same parameters, exactly the hashes `≤ max_hash(S)` with their counts -/
theorem pyDownsample_content {s r : MH} {S : Nat} (hs : Inv s) (hn : s.num = 0) (hM : s.maxHash ≠ 0)
    (h1 : 1 ≤ S) (h2 : S ≤ 2 ^ 31) (hr : Py.downsample s none (some S) = .ok r) :
    Inv r ∧ r.num = 0 ∧ r.maxHash = mhR S ∧ r.trackAbundance = s.trackAbundance ∧
    (r.ksize = s.ksize ∧ r.hf = s.hf ∧ r.seed = s.seed) ∧
    ∀ x, count r x = if x ≤ mhR S then count s x else 0 := by
  have hS : scP (mhP S) = S := scP_mhP h1 h2
  have h0 : mhR (scP (mhP S)) ≠ 0 := by rw [hS]; exact mhR_pos h1 (le_trans h2 (by decide))
  obtain ⟨sr, htr, hmh, hfr, hcnt⟩ := pyDownsample_spec ⟨hs, hn, hM⟩ hr h0
  rw [hS] at hmh
  refine ⟨sr.inv, sr.num, hmh, htr, hfr, ?_⟩
  intro x
  rw [hcnt x, hmh]

/-- Rust `downsample_scaled(S)` of (a clone of) a finer scaled sketch: the same description -/
theorem rustDownsample_content {s d : MH} {S : Nat} (hs : Inv s) (hn : s.num = 0)
    (h0 : s.scaled ≠ 0) (hlt : s.scaled < S) (h1 : 1 ≤ S) (h2 : S ≤ 2 ^ 31)
    (hd : (s.clone.2).downsampleScaled S = .ok d) :
    Inv d ∧ d.num = 0 ∧ d.maxHash = mhR S ∧ d.trackAbundance = s.trackAbundance ∧
    (d.ksize = s.ksize ∧ d.hf = s.hf ∧ d.seed = s.seed) ∧
    ∀ x, count d x = if x ≤ mhR S then count s x else 0 := by
  have hc := clone_fields s
  have hci := (inv_clone hs).2
  have hsc : (s.clone.2).scaled = s.scaled := by unfold MH.scaled; rw [hc.2.2.2.1]
  have hne : mhR S ≠ 0 := mhR_pos h1 (le_trans h2 (by decide))
  obtain ⟨i1, i2, i3, i4, i5⟩ := downsample_ok hci (hc.2.2.2.2.trans hn) (by rw [hsc]; exact h0) S
    (by rw [hsc]; exact hlt) hne hd
  have htc : (s.clone.2).trackAbundance = s.trackAbundance := by
    unfold MH.trackAbundance; rw [hc.2.2.1]
  have hcount : ∀ x, count s.clone.2 x = count s x := by
    intro x
    unfold count MH.pairs
    rw [hc.2.1, hc.2.2.1]
  refine ⟨i1, i2, i3, i4.trans htc, clone_downsample_frame hd, ?_⟩
  intro x
  rw [i5 x, hcount x]

/-- same description ⇒ same content -/
theorem sameContent_of_desc {d y : MH} {M : Nat} {k hf seed : Nat} {tr : Bool} {f : Nat → Nat}
    (hd : Inv d ∧ d.num = 0 ∧ d.maxHash = M ∧ d.trackAbundance = tr ∧
      (d.ksize = k ∧ d.hf = hf ∧ d.seed = seed) ∧ ∀ x, count d x = f x)
    (hy : Inv y ∧ y.num = 0 ∧ y.maxHash = M ∧ y.trackAbundance = tr ∧
      (y.ksize = k ∧ y.hf = hf ∧ y.seed = seed) ∧ ∀ x, count y x = f x) : SameContent d y := by
  obtain ⟨d1, d2, d3, d4, ⟨d5, d6, d7⟩, d8⟩ := hd
  obtain ⟨y1, y2, y3, y4, ⟨y5, y6, y7⟩, y8⟩ := hy
  obtain ⟨hm, ha⟩ := ext_of_count' d1 y1 (d4.trans y4.symm) (fun x => (d8 x).trans (y8 x).symm)
  exact ⟨d2.trans y2.symm, d3.trans y3.symm, d5.trans y5.symm, d7.trans y7.symm, d6.trans y6.symm, hm, ha⟩

/-- a sketch already at the target value: downsampling it explicitly changes nothing but the object -/
theorem pyDownsample_same {a x : MH} {S : Nat} (ha : Inv a) (hn : a.num = 0) (hM : a.maxHash = mhR S)
    (h1 : 1 ≤ S) (h2 : S ≤ 2 ^ 31) (hx : Py.downsample a none (some S) = .ok x) : SameContent a x := by
  have hne : mhR S ≠ 0 := mhR_pos h1 (le_trans h2 (by decide))
  have hxc := pyDownsample_content ha hn (by rw [hM]; exact hne) h1 h2 hx
  apply sameContent_of_desc (M := mhR S) (k := a.ksize) (hf := a.hf) (seed := a.seed)
    (tr := a.trackAbundance) (f := fun h => if h ≤ mhR S then count a h else 0) _ hxc
  refine ⟨ha, hn, hM, rfl, ⟨rfl, rfl, rfl⟩, ?_⟩
  intro h
  by_cases hle : h ≤ mhR S
  · rw [if_pos hle]
  · rw [if_neg hle]
    by_contra hc
    have hmem := (mem_iff_count_pos' ha h).2 (Nat.pos_of_ne_zero hc)
    have := ha.bounded (by rw [hM]; exact hne) h hmem
    rw [hM] at this
    exact hle this

/-- **`similarity(downsample=True)` = `similarity` of the explicitly downsampled sketches**, both argument
    orders, for every pair of scaled values `Sb < Sa ≤ 2^31` (`a` the coarser sketch), with and without
    abundance, with and without `ignore_abundance`; likewise `count_common(downsample=True)` -/
theorem similarity_downsample_explicit {a b x y : MH} {Sa Sb : Nat}
    (ha : Inv a) (hb : Inv b) (hna : a.num = 0) (hnb : b.num = 0)
    (hMa : a.maxHash = mhR Sa) (hMb : b.maxHash = mhR Sb)
    (hb1 : 1 ≤ Sb) (hlt : Sb < Sa) (ha2 : Sa ≤ 2 ^ 31)
    (hx : Py.downsample a none (some Sa) = .ok x) (hy : Py.downsample b none (some Sa) = .ok y) (ia : Bool) :
    Cmp.similarity a b ia true = Cmp.similarity x y ia false ∧
    Cmp.similarity b a ia true = Cmp.similarity x y ia false ∧
    Cmp.countCommon a b true = Cmp.countCommon x y false ∧
    Cmp.countCommon b a true = Cmp.countCommon x y false := by
  have ha1 : 1 ≤ Sa := by omega
  have hb2 : Sb ≤ 2 ^ 31 := by omega
  have hsa : a.scaled = Sa := by unfold MH.scaled; rw [hMa]; exact scR_mhR ha1 ha2
  have hsb : b.scaled = Sb := by unfold MH.scaled; rw [hMb]; exact scR_mhR hb1 hb2
  have hMb0 : b.maxHash ≠ 0 := by rw [hMb]; exact mhR_pos hb1 (le_trans hb2 (by decide))
  -- the Rust-internal downsampled copy of b
  have hdeq := downsampleScaled_eq (s := b.clone.2) (sc := Sa)
    (by unfold MH.scaled; rw [(clone_fields b).2.2.2.1]; rw [← MH.scaled.eq_1 b, hsb]; omega)
    (by unfold MH.scaled; rw [(clone_fields b).2.2.2.1]; rw [← MH.scaled.eq_1 b, hsb]; exact hlt)
  obtain ⟨d, hd⟩ : ∃ d, (b.clone.2).downsampleScaled Sa = .ok d := ⟨_, hdeq⟩
  have hdc := rustDownsample_content hb hnb (by rw [hsb]; omega) (by rw [hsb]; exact hlt) ha1 ha2 hd
  have hyc := pyDownsample_content hb hnb hMb0 ha1 ha2 hy
  have hdy : SameContent d y := sameContent_of_desc hdc hyc
  have hax : SameContent a x := pyDownsample_same ha hna hMa ha1 ha2 hx
  have hne : a.scaled ≠ b.scaled := by rw [hsa, hsb]; omega
  have hgt : a.scaled > b.scaled := by rw [hsa, hsb]; exact hlt
  have hngt : ¬ b.scaled > a.scaled := by omega
  have hd' : (b.clone.2).downsampleScaled a.scaled = .ok d := by rw [hsa]; exact hd
  refine ⟨?_, ?_, ?_, ?_⟩
  · unfold Cmp.similarity
    simp only [true_and, ne_eq, hne, not_false_eq_true, if_true, hgt, hd', bind, Except.bind,
      Bool.false_eq_true, false_and, if_false]
    exact similarityNoDs_congr hax hdy ia
  · unfold Cmp.similarity
    simp only [true_and, ne_eq, hne.symm, not_false_eq_true, if_true, hngt, if_false, hd', bind, Except.bind,
      Bool.false_eq_true, false_and]
    exact similarityNoDs_congr hax hdy ia
  · unfold Cmp.countCommon
    simp only [true_and, ne_eq, hne, not_false_eq_true, if_true, hgt, hd', bind, Except.bind,
      Bool.false_eq_true, false_and, if_false]
    exact countCommonNoDs_congr hax hdy
  · unfold Cmp.countCommon
    simp only [true_and, ne_eq, hne.symm, not_false_eq_true, if_true, hngt, if_false, hd', bind, Except.bind,
      Bool.false_eq_true, false_and]
    exact countCommonNoDs_congr hax hdy

end Sm
