/-
`count_lca_for_assignments` and the aggregation loop of `summarize`: every hash is
credited to its LCA and to every (non-root) ancestor of it exactly once.
-/
import SmVerif.Lemmas.Dict
import SmVerif.Model.Lineage

namespace Sm.Lin

open Sm.Dict

/-- `counts[k]` of a `Counter` / `defaultdict(int)` (0 when absent) -/
def val (c : List (Lineage × Nat)) (k : Lineage) : Nat := (get? c k).getD 0

theorem val_bump (c : List (Lineage × Nat)) (k : Lineage) (w : Nat) (k' : Lineage) :
    val (bump c k w) k' = val c k' + if k' = k then w else 0 := by
  unfold val bump
  rw [get?_set]
  by_cases h : k' = k
  · subst h; simp
  · simp [h]

/-- the table entries an LCA is credited to: itself and each of its non-empty prefixes
    (its ancestors); the root `()` is credited only when it is the LCA itself -/
def credit (lca p : Lineage) : Prop := (lca = [] ∧ p = []) ∨ (p ≠ [] ∧ p <+: lca)

instance (lca p : Lineage) : Decidable (credit lca p) := by unfold credit; infer_instance

theorem val_climbRev (agg : List (Lineage × Nat)) (c : Nat) (rl p : Lineage) :
    val (climbRev agg c rl) p = val agg p + if p ≠ [] ∧ p.reverse <:+ rl then c else 0 := by
  induction rl generalizing agg with
  | nil =>
    have : ¬ (p ≠ [] ∧ p.reverse <:+ []) := by
      rintro ⟨h1, h2⟩
      exact h1 (by simpa using h2)
    simp [climbRev, this]
  | cons k ks ih =>
    simp only [climbRev]
    rw [ih, val_bump]
    by_cases hp : p.reverse = k :: ks
    · have hp' : p = (k :: ks).reverse := by rw [← hp]; simp
      have h1 : p ≠ [] := by rw [hp']; simp
      have h2 : ¬ (p.reverse <:+ ks) := by
        rw [hp]
        intro h
        have := h.length_le
        simp at this
        omega
      have h3 : p.reverse <:+ k :: ks := by rw [hp]; exact List.suffix_refl _
      rw [if_pos hp', if_neg (fun h => h2 h.2), if_pos ⟨h1, h3⟩]
      omega
    · have hp' : ¬ p = (k :: ks).reverse := by
        intro h; apply hp; rw [h]; simp
      have hiff : (p ≠ [] ∧ p.reverse <:+ k :: ks) ↔ (p ≠ [] ∧ p.reverse <:+ ks) := by
        rw [List.suffix_cons_iff]
        constructor
        · rintro ⟨h1, h2 | h2⟩
          · exact absurd h2 hp
          · exact ⟨h1, h2⟩
        · rintro ⟨h1, h2⟩; exact ⟨h1, Or.inr h2⟩
      rw [if_neg hp', Nat.add_zero]
      by_cases hq : p ≠ [] ∧ p.reverse <:+ ks
      · rw [if_pos hq, if_pos (hiff.mpr hq)]
      · rw [if_neg hq, if_neg (fun h => hq (hiff.mp h))]

theorem val_aggStep (agg : List (Lineage × Nat)) (lca : Lineage) (c : Nat) (p : Lineage) :
    val (aggStep agg lca c) p = val agg p + if credit lca p then c else 0 := by
  unfold aggStep
  cases lca with
  | nil =>
    simp only [List.isEmpty_nil, if_true, List.reverse_nil, climbRev]
    rw [val_bump]
    have : credit [] p ↔ p = [] := by
      unfold credit
      constructor
      · rintro (⟨_, h⟩ | ⟨h1, h2⟩)
        · exact h
        · exact absurd (by simpa using h2) h1
      · intro h; exact Or.inl ⟨rfl, h⟩
    by_cases hp : p = []
    · have hc : credit [] p := this.mpr hp
      rw [if_pos hp, if_pos hc]
    · have hc : ¬ credit [] p := fun h => hp (this.mp h)
      rw [if_neg hp, if_neg hc]
  | cons k ks =>
    simp only [List.isEmpty_cons, Bool.false_eq_true, if_false]
    rw [val_climbRev]
    have : credit (k :: ks) p ↔ (p ≠ [] ∧ p.reverse <:+ (k :: ks).reverse) := by
      unfold credit
      rw [List.reverse_suffix]
      constructor
      · rintro (⟨h, _⟩ | h)
        · cases h
        · exact h
      · intro h; exact Or.inr h
    by_cases hc : credit (k :: ks) p
    · rw [if_pos hc, if_pos (this.mp hc)]
    · rw [if_neg hc, if_neg (fun h => hc (this.mpr h))]

/-- what the LCAs of a list of (LCA, count) credit to table entry `p` -/
def creditSum (l : List (Lineage × Nat)) (p : Lineage) : Nat :=
  (l.map (fun x => if credit x.1 p then x.2 else 0)).sum

theorem val_aggLoop (thr : Nat) (l agg : List (Lineage × Nat)) (p : Lineage) :
    val (aggLoop thr l agg) p = val agg p + creditSum (l.takeWhile (fun x => !decide (x.2 < thr))) p := by
  induction l generalizing agg with
  | nil => simp [aggLoop, creditSum]
  | cons x xs ih =>
    obtain ⟨lca, count⟩ := x
    simp only [aggLoop, List.takeWhile_cons]
    by_cases h : count < thr
    · simp [h, creditSum]
    · simp only [h, if_false, decide_false, Bool.not_false, if_true]
      rw [ih, val_aggStep]
      simp [creditSum, Nat.add_assoc]

/-! ### `most_common()` -/

def Desc (l : List (Lineage × Nat)) : Prop := l.Pairwise (fun a b => b.2 ≤ a.2)

theorem insertDesc_perm (x : Lineage × Nat) (l : List (Lineage × Nat)) : (insertDesc x l).Perm (x :: l) := by
  induction l with
  | nil => simp [insertDesc]
  | cons y ys ih =>
    simp only [insertDesc]
    by_cases h : y.2 < x.2
    · simp [h]
    · simp only [h, if_false]
      exact (List.Perm.cons y ih).trans (List.Perm.swap x y ys)

theorem insertDesc_desc (x : Lineage × Nat) {l : List (Lineage × Nat)} (h : Desc l) : Desc (insertDesc x l) := by
  induction l with
  | nil => simp [insertDesc, Desc]
  | cons y ys ih =>
    unfold Desc at h ih ⊢
    rw [List.pairwise_cons] at h
    simp only [insertDesc]
    by_cases hxy : y.2 < x.2
    · simp only [hxy, if_true]
      rw [List.pairwise_cons]
      refine ⟨?_, List.pairwise_cons.mpr h⟩
      intro a ha
      simp only [List.mem_cons] at ha
      rcases ha with ha | ha
      · subst ha; omega
      · have := h.1 a ha; omega
    · simp only [hxy, if_false]
      rw [List.pairwise_cons]
      refine ⟨?_, ih h.2⟩
      intro a ha
      have := (insertDesc_perm x ys).mem_iff.mp ha
      simp only [List.mem_cons] at this
      rcases this with this | this
      · subst this; omega
      · exact h.1 a this

theorem mostCommon_aux (c acc : List (Lineage × Nat)) (hacc : Desc acc) :
    (c.foldl (fun acc x => insertDesc x acc) acc).Perm (acc ++ c) ∧
      Desc (c.foldl (fun acc x => insertDesc x acc) acc) := by
  induction c generalizing acc with
  | nil => simp [hacc]
  | cons x xs ih =>
    simp only [List.foldl_cons]
    obtain ⟨h1, h2⟩ := ih (insertDesc x acc) (insertDesc_desc x hacc)
    refine ⟨?_, h2⟩
    refine h1.trans ?_
    have : (insertDesc x acc ++ xs).Perm ((x :: acc) ++ xs) := List.Perm.append_right xs (insertDesc_perm x acc)
    refine this.trans ?_
    simp only [List.cons_append]
    exact (List.perm_middle (a := x) (l₁ := acc) (l₂ := xs)).symm

theorem mostCommon_perm (c : List (Lineage × Nat)) : (mostCommon c).Perm c := by
  have := (mostCommon_aux c [] (by simp [Desc])).1
  simpa [mostCommon] using this

theorem mostCommon_desc (c : List (Lineage × Nat)) : Desc (mostCommon c) :=
  (mostCommon_aux c [] (by simp [Desc])).2

/-- on a list sorted by descending count, `break` at the first count below the threshold
    is the same as skipping every count below the threshold -/
theorem takeWhile_eq_filter_of_desc {l : List (Lineage × Nat)} (h : Desc l) (thr : Nat) :
    l.takeWhile (fun x => !decide (x.2 < thr)) = l.filter (fun x => !decide (x.2 < thr)) := by
  induction l with
  | nil => rfl
  | cons x xs ih =>
    unfold Desc at h ih
    rw [List.pairwise_cons] at h
    simp only [List.takeWhile_cons, List.filter_cons]
    by_cases hx : x.2 < thr
    · simp only [hx, decide_true, Bool.not_true, Bool.false_eq_true, if_false]
      symm
      rw [List.filter_eq_nil_iff]
      intro a ha
      have := h.1 a ha
      simp; omega
    · simp only [hx, decide_false, Bool.not_false, if_true]
      rw [ih h.2]

theorem creditSum_perm {l₁ l₂ : List (Lineage × Nat)} (h : l₁.Perm l₂) (p : Lineage) :
    creditSum l₁ p = creditSum l₂ p :=
  (h.map _).sum_nat

/-- table-level statement: entry `p` of `summarize`'s result is the sum of the counts of the
    LCAs that reach the threshold and are credited to `p` -/
theorem val_aggregate (counts : List (Lineage × Nat)) (thr : Nat) (p : Lineage) :
    val (aggregate counts thr) p = creditSum (counts.filter (fun x => !decide (x.2 < thr))) p := by
  unfold aggregate
  rw [val_aggLoop, takeWhile_eq_filter_of_desc (mostCommon_desc counts)]
  have : val [] p = 0 := rfl
  rw [this, Nat.zero_add]
  exact creditSum_perm ((mostCommon_perm counts).filter _) p

/-! ### `count_lca_for_assignments` -/

/-- sum of the counts of the table entries selected by `S` -/
def selSum (S : Lineage → Bool) (c : List (Lineage × Nat)) : Nat :=
  (c.map (fun x => if S x.1 then x.2 else 0)).sum

theorem bump_cons (k' : Lineage) (v : Nat) (xs : List (Lineage × Nat)) (k : Lineage) (w : Nat) :
    bump ((k', v) :: xs) k w = if k = k' then (k', v + w) :: xs else (k', v) :: bump xs k w := by
  unfold bump
  by_cases h : k = k'
  · simp [h, get?, Dict.set]
  · simp [h, get?, Dict.set]

theorem selSum_bump (S : Lineage → Bool) (c : List (Lineage × Nat)) (k : Lineage) (w : Nat) :
    selSum S (bump c k w) = selSum S c + if S k then w else 0 := by
  induction c with
  | nil => simp [bump, Dict.set, selSum, get?]
  | cons x xs ih =>
    obtain ⟨k', v⟩ := x
    rw [bump_cons]
    by_cases h : k = k'
    · subst h
      simp only [if_true, selSum, List.map_cons, List.sum_cons]
      by_cases hs : S k
      · simp only [hs, if_true]; omega
      · simp only [hs, Bool.false_eq_true, if_false]; omega
    · simp only [h, if_false]
      simp only [selSum, List.map_cons, List.sum_cons] at ih ⊢
      rw [ih]; omega

/-- the weight a hash contributes (`hashval_counts[h]`, or 1 when unweighted) -/
def weightOf (weights : Option (List (Nat × Nat))) (h : Nat) : Nat := (wOf weights h).getD 0

/-- what the hashes of `asg` whose LCA is selected by `S` weigh together -/
def hashSum (weights : Option (List (Nat × Nat))) (S : Lineage → Bool) (asg : List (Nat × List Lineage)) : Nat :=
  (asg.map (fun a => if S (lcaOf a.2).1 then weightOf weights a.1 else 0)).sum

theorem countStep_ok {w : Option (List (Nat × Nat))} {counts counts' : List (Lineage × Nat)}
    {a : Nat × List Lineage} (h : countStep w counts a = .ok counts') :
    counts' = bump counts (lcaOf a.2).1 (weightOf w a.1) := by
  unfold countStep buildTree at h
  by_cases he : a.2.isEmpty
  · simp [he] at h
  · simp only [he, Bool.false_eq_true, if_false] at h
    unfold weightOf lcaOf
    cases hw : wOf w a.1 with
    | none => simp [hw] at h
    | some c => simp [hw] at h; simp [← h]

theorem foldlM_countStep {w : Option (List (Nat × Nat))} (asg : List (Nat × List Lineage))
    {acc counts : List (Lineage × Nat)} (h : asg.foldlM (countStep w) acc = .ok counts) :
    (∀ S, selSum S counts = selSum S acc + hashSum w S asg) ∧
      ((keys acc).Nodup → (keys counts).Nodup) := by
  induction asg generalizing acc with
  | nil =>
    simp only [List.foldlM_nil, pure, Except.pure, Except.ok.injEq] at h
    subst h
    simp [hashSum]
  | cons a as ih =>
    simp only [List.foldlM_cons, bind, Except.bind] at h
    cases hs : countStep w acc a with
    | error e => simp [hs] at h
    | ok acc' =>
      simp only [hs] at h
      obtain ⟨h1, h2⟩ := ih h
      have hb := countStep_ok hs
      refine ⟨?_, ?_⟩
      · intro S
        rw [h1 S, hb, selSum_bump]
        simp only [hashSum, List.map_cons, List.sum_cons]
        omega
      · intro hnd
        apply h2
        rw [hb]
        exact nodup_keys_set hnd _ _

theorem selSum_eq_val {c : List (Lineage × Nat)} (hnd : (keys c).Nodup) (l : Lineage) :
    selSum (fun x => decide (x = l)) c = val c l := by
  induction c with
  | nil => rfl
  | cons x xs ih =>
    obtain ⟨k, v⟩ := x
    simp only [keys, List.nodup_cons] at hnd
    have ih' := ih hnd.2
    simp only [selSum, val, decide_eq_true_eq] at ih' ⊢
    simp only [List.map_cons, List.sum_cons, get?]
    by_cases h : k = l
    · subst h
      rw [ih', get?_eq_none_iff.mpr hnd.1]
      simp
    · have h' : ¬ l = k := fun e => h e.symm
      rw [ih']
      simp [h, h']

theorem filter_sum_eq {α : Type} (q : α → Bool) (f : α → Nat) (l : List α) :
    ((l.filter q).map f).sum = (l.map (fun x => if q x then f x else 0)).sum := by
  induction l with
  | nil => rfl
  | cons x xs ih =>
    simp only [List.filter_cons]
    by_cases h : q x
    · simp [h, ih]
    · simp [h, ih]

theorem map_sum_congr {α : Type} {f g : α → Nat} {l : List α} (h : ∀ x ∈ l, f x = g x) :
    (l.map f).sum = (l.map g).sum := by
  induction l with
  | nil => rfl
  | cons x xs ih =>
    simp only [List.map_cons, List.sum_cons]
    rw [h x (by simp), ih (fun y hy => h y (List.mem_cons_of_mem _ hy))]

/-! ### `most_common()[0]`: the first entry with the largest count -/

def firstMaxStep (b : Option (Lineage × Nat)) (x : Lineage × Nat) : Option (Lineage × Nat) :=
  match b with
  | none => some x
  | some m => if m.2 < x.2 then some x else some m

/-- the first entry (in insertion order) whose count is maximal -/
def firstMax (l : List (Lineage × Nat)) : Option (Lineage × Nat) := l.foldl firstMaxStep none

theorem head?_insertDesc (x : Lineage × Nat) (acc : List (Lineage × Nat)) :
    (insertDesc x acc).head? = firstMaxStep acc.head? x := by
  cases acc with
  | nil => rfl
  | cons y ys =>
    simp only [insertDesc, List.head?_cons, firstMaxStep]
    by_cases h : y.2 < x.2 <;> simp [h]

theorem mostCommon_head? (c : List (Lineage × Nat)) : (mostCommon c).head? = firstMax c := by
  have : ∀ (c acc : List (Lineage × Nat)),
      (c.foldl (fun acc x => insertDesc x acc) acc).head? = c.foldl firstMaxStep acc.head? := by
    intro c
    induction c with
    | nil => intro acc; rfl
    | cons x xs ih =>
      intro acc
      simp only [List.foldl_cons]
      rw [ih, head?_insertDesc]
  exact this c []

/-- what it means to be `firstMax`: nothing before it reaches its count, nothing after it exceeds it -/
def IsFirstMax (l : List (Lineage × Nat)) (b : Option (Lineage × Nat)) : Prop :=
  match b with
  | none => l = []
  | some x => ∃ pre post, l = pre ++ x :: post ∧ (∀ y ∈ pre, y.2 < x.2) ∧ (∀ y ∈ post, y.2 ≤ x.2)

theorem isFirstMax_step {done : List (Lineage × Nat)} {b : Option (Lineage × Nat)} (h : IsFirstMax done b)
    (x : Lineage × Nat) : IsFirstMax (done ++ [x]) (firstMaxStep b x) := by
  cases b with
  | none =>
    simp only [IsFirstMax] at h
    subst h
    exact ⟨[], [], rfl, by simp, by simp⟩
  | some m =>
    obtain ⟨pre, post, hd, h1, h2⟩ := h
    simp only [firstMaxStep]
    by_cases hlt : m.2 < x.2
    · simp only [hlt, if_true]
      refine ⟨done, [], rfl, ?_, by simp⟩
      intro y hy
      rw [hd] at hy
      simp only [List.mem_append, List.mem_cons] at hy
      rcases hy with hy | hy | hy
      · have := h1 y hy; omega
      · subst hy; exact hlt
      · have := h2 y hy; omega
    · simp only [hlt, if_false]
      refine ⟨pre, post ++ [x], by rw [hd]; simp, h1, ?_⟩
      intro y hy
      simp only [List.mem_append, List.mem_cons, List.not_mem_nil, or_false] at hy
      rcases hy with hy | hy
      · exact h2 y hy
      · subst hy; omega

theorem firstMax_spec (l : List (Lineage × Nat)) : IsFirstMax l (firstMax l) := by
  have : ∀ (l done : List (Lineage × Nat)) (b : Option (Lineage × Nat)), IsFirstMax done b →
      IsFirstMax (done ++ l) (l.foldl firstMaxStep b) := by
    intro l
    induction l with
    | nil => intro done b h; simpa using h
    | cons x xs ih =>
      intro done b h
      simp only [List.foldl_cons]
      have := ih (done ++ [x]) _ (isFirstMax_step h x)
      simpa using this
  have h := this l [] none rfl
  simpa [firstMax] using h

theorem findLca_insertPath_nil (p : Lineage) : ((Tree.nil : Tree Key).insertPath p).findLca = (p, 0) := by
  induction p with
  | nil => rfl
  | cons k ks ih =>
    simp only [Tree.insertPath, Tree.upsert, Tree.findLca]
    rw [ih]

theorem classifyCounts_majority (counts : List (Lineage × Nat)) (thr : Nat) :
    classifyCounts counts thr true =
      match firstMax counts with
      | none => ([], Status.nomatch)
      | some vc => if vc.2 > thr ∧ canon vc.1 ≠ [] then (canon vc.1, Status.found) else ([], Status.nomatch) := by
  unfold classifyCounts
  cases counts with
  | nil => rfl
  | cons c cs =>
    simp only [List.isEmpty_cons, Bool.not_false, Bool.and_self, if_true]
    rw [← mostCommon_head?]
    cases hmc : mostCommon (c :: cs) with
    | nil =>
      have := (mostCommon_perm (c :: cs)).length_eq
      rw [hmc] at this
      simp at this
    | cons vc rest =>
      obtain ⟨vote, count⟩ := vc
      simp only [List.head?_cons]
      by_cases hgt : count > thr
      · simp only [hgt, if_true, true_and]
        simp only [buildTreeFrom, List.foldl_cons, List.foldl_nil]
        cases hcv : canon vote with
        | nil => simp [Tree.insertPath]
        | cons k ks =>
          have h1 := findLca_insertPath_nil (k :: ks)
          simp only [Tree.insertPath, Tree.upsert] at h1 ⊢
          simp [h1]
      · simp [hgt]

end Sm.Lin
