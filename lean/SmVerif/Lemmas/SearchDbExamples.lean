/-
Kernel-evaluated instances for C08.
-/
import SmVerif.Lemmas.SearchDbL
import SmVerif.Lemmas.GatherPartition
import SmVerif.Lemmas.GatherExamples

set_option autoImplicit false

namespace Sm.SearchDb

open Sm Sm.Gather

/-! ### the same hashes stored at two scaled values: same md5, different scores -/

def dupQuery : LS := ⟨2, [1, 2, 3, 4611686018427387905, 4611686018427387906, 4611686018427387907], none⟩
/-- `{1, 2}` sketched at scaled 2 and at scaled 4: identical hashes, hence identical md5 -/
def dupA : Sig LS := ⟨7, 1, ⟨2, [1, 2], none⟩⟩
def dupB : Sig LS := ⟨7, 2, ⟨4, [1, 2], none⟩⟩

/-- Jaccard against the query: 2/6 at scaled 2, 2/3 at scaled 4.  Regression for finding C08.1 (fixed
upstream): when `search` de-duplicated on md5 alone it reported ONE row for md5 7, with 2/6 for the collection
order A, B and with 2/3 for B, A or a single collection.  With the key `(md5, scaled, num)` every organisation
reports both rows. -/
def dupCheck : Bool :=
  match searchDatabases lsOps .jaccard [[dupA], [dupB]] dupQuery fzero false,
        searchDatabases lsOps .jaccard [[dupB], [dupA]] dupQuery fzero false,
        searchDatabases lsOps .jaccard [[dupA, dupB]] dupQuery fzero false with
  | .ok r1, .ok r2, .ok r3 =>
    decide (r1.map rowKey = [(7, 4, F64.divNat 2 3), (7, 2, F64.divNat 2 6)]) &&
    decide (r2.map rowKey = [(7, 4, F64.divNat 2 3), (7, 2, F64.divNat 2 6)]) &&
    decide (r3.map rowKey = [(7, 4, F64.divNat 2 3), (7, 2, F64.divNat 2 6)])
  | _, _, _ => false

theorem dupCheck_true : dupCheck = true := by decide +kernel

/-- the two stored copies satisfy `MD5OK` (same md5, same hashes) although their scores differ -/
theorem dup_md5ok : MD5OK [dupA, dupB] := by
  intro d hd d' hd' _
  simp only [List.mem_cons, List.mem_nil_iff, or_false] at hd hd'
  rcases hd with rfl | rfl <;> rcases hd' with rfl | rfl <;> rfl

/-! ### D6 makes the gather modes differ: query at scaled 2, database at scaled 4, `threshold_bp = 12` -/

def modeQuery : LS := ⟨2, (List.range 14).map (· + 1) ++ (List.range 10).map (· + 4611686018427387905), none⟩
def modeX : Sig LS := ⟨1, 1, ⟨4, (List.range 10).map (· + 1), none⟩⟩
def modeY : Sig LS := ⟨2, 2, ⟨4, [11, 12, 13], none⟩⟩

/-- prefetch mode reports X only (Y, 12 bp, was dropped by the prefetch pass: 3/14 < (12/2)/24);
on-demand mode reports X and then Y (in round 1 the query is at scaled 4: 3/4 ≥ (12/4)/4) -/
def modeCheck : Bool :=
  match counterGather lsOps [modeX, modeY] modeQuery 12 with
  | .ok c =>
    (match GD.init lsOps modeQuery [.cg c] 12 false none none, GD.init lsOps modeQuery [.idx [modeX, modeY]] 12 false none none with
     | .ok g, .ok h =>
       (match g.run lsOps ratOps 5, h.run lsOps ratOps 5 with
        | .ok (_, rs), .ok (_, rs') => decide (rs.map (·.name) = [1]) && decide (rs'.map (·.name) = [1, 2])
        | _, _ => false)
     | _, _ => false)
  | .error _ => false

theorem modeCheck_true : modeCheck = true := by decide +kernel

end Sm.SearchDb
