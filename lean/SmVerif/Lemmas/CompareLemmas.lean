/-
Helper lemmas for C05: the two-cursor loops of the comparison code
(`isizeL`, `interL`, `dotL`) against their list-level specifications.
-/
import SmVerif.Lemmas.MinHashInv
import SmVerif.Model.Compare

namespace Sm

open MH Cmp

/-! ### `drain`, `isizeL` -/

theorem drain_eq : ∀ (ys : List Nat) (u : Nat), drain ys u = u + ys.length := by
  intro ys
  induction ys with
  | nil => intro u; rfl
  | cons y ys ih => intro u; rw [drain, ih]; simp; omega

theorem isizeL_nil_left (ys : List Nat) (c u : Nat) : isizeL [] ys c u = (c, drain ys u) := rfl

theorem isizeL_cons_nil (x : Nat) (xs : List Nat) (c u : Nat) :
    isizeL (x :: xs) [] c u = isizeL xs [] c (u + 1) := rfl

theorem isizeL_cons_cons (x : Nat) (xs : List Nat) (y : Nat) (ys : List Nat) (c u : Nat) :
    isizeL (x :: xs) (y :: ys) c u =
      if x < y then isizeL xs (y :: ys) c (u + 1)
      else if y < x then isizeL (x :: xs) ys c (u + 1)
      else isizeL xs ys (c + 1) (u + 1) := rfl

theorem isizeL_nil_right : ∀ (xs : List Nat) (c u : Nat), isizeL xs [] c u = (c, u + xs.length) := by
  intro xs
  induction xs with
  | nil => intro c u; rfl
  | cons x xs ih => intro c u; rw [isizeL_cons_nil, ih]; simp; omega

theorem interL_length_le_left (xs ys : List Nat) : (interL xs ys).length ≤ xs.length :=
  (interL_sublist xs ys).length_le

theorem interL_length_le_right : ∀ (xs ys : List Nat), (interL xs ys).length ≤ ys.length := by
  apply two_cursor_induct
  · intro ys; simp
  · intro x xs; simp
  · intro x xs y ys ih1 ih2 ih3
    rw [interL_cons_cons]
    split
    · exact ih3
    · split
      · simp only [List.length_cons]; omega
      · simp only [List.length_cons]; omega

/-- the counting loop returns the length of the two-cursor intersection and
    `|xs| + |ys| - common` (no sortedness needed: same control flow) -/
theorem isizeL_eq : ∀ (xs ys : List Nat) (c u : Nat),
    isizeL xs ys c u =
      (c + (interL xs ys).length, u + (xs.length + ys.length - (interL xs ys).length)) := by
  apply two_cursor_induct
  · intro ys c u
    rw [isizeL_nil_left, drain_eq]; simp
  · intro x xs c u
    rw [isizeL_nil_right]; simp
  · intro x xs y ys ih1 ih2 ih3 c u
    rw [isizeL_cons_cons, interL_cons_cons]
    have h1 := interL_length_le_left (x :: xs) ys
    have h2 := interL_length_le_left xs ys
    have h3 := interL_length_le_left xs (y :: ys)
    simp only [List.length_cons] at h1 h3 ⊢
    split
    · rw [ih3]; simp only [List.length_cons]; congr 1; omega
    · split
      · rw [ih1]; simp only [List.length_cons]; congr 1; omega
      · rw [ih2]; simp only [List.length_cons]; congr 1 <;> omega

/-! ### `interL` on strictly ascending lists is the filter by membership -/

theorem interL_eq_filter : ∀ (xs ys : List Nat), Sorted xs → Sorted ys →
    interL xs ys = xs.filter (fun h => decide (h ∈ ys)) := by
  apply two_cursor_induct
  · intro ys _ _; simp
  · intro x xs _ _; simp
  · intro x xs y ys ih1 ih2 ih3 hx hy
    rw [interL_cons_cons]
    have hxs := hx.tail
    have hys := hy.tail
    have hxlt := hx.head_lt
    have hylt := hy.head_lt
    split
    · rename_i hlt
      -- x < y : x is in neither y nor ys
      rw [ih3 hxs hy]
      have : x ∉ y :: ys := by
        intro hm
        rcases List.mem_cons.1 hm with e | hm
        · omega
        · have := hylt x hm; omega
      rw [List.filter_cons_of_neg (by simpa using this)]
    · split
      · rename_i hnlt hlt
        -- y < x : y matches nothing in x :: xs
        rw [ih1 hx hys]
        apply List.filter_congr
        intro z hz
        have hzge : x ≤ z := by
          rcases List.mem_cons.1 hz with e | hz
          · omega
          · exact Nat.le_of_lt (hxlt z hz)
        have : z ≠ y := by omega
        simp [List.mem_cons, this]
      · rename_i hnlt hngt
        have hxy : x = y := by omega
        subst hxy
        rw [List.filter_cons_of_pos (by simp)]
        congr 1
        rw [ih2 hxs hys]
        apply List.filter_congr
        intro z hz
        have : z ≠ x := by have := hxlt z hz; omega
        simp [List.mem_cons, this]

theorem Sorted.filter {l : List Nat} (hs : Sorted l) (p : Nat → Bool) : Sorted (l.filter p) :=
  hs.sublist List.filter_sublist

theorem sorted_interL {xs ys : List Nat} (hx : Sorted xs) : Sorted (interL xs ys) :=
  hx.sublist (interL_sublist xs ys)

theorem mem_interL {xs ys : List Nat} (hx : Sorted xs) (hy : Sorted ys) (z : Nat) :
    z ∈ interL xs ys ↔ z ∈ xs ∧ z ∈ ys := by
  rw [interL_eq_filter xs ys hx hy]; simp

/-- the result does not depend on which vector goes left (the swap-by-size of `count_common`) -/
theorem interL_comm {xs ys : List Nat} (hx : Sorted xs) (hy : Sorted ys) :
    interL xs ys = interL ys xs := by
  apply Sorted.ext (sorted_interL hx) (sorted_interL hy)
  intro z
  rw [mem_interL hx hy, mem_interL hy hx]
  exact And.comm

theorem interL_self {xs : List Nat} (hx : Sorted xs) : interL xs xs = xs := by
  rw [interL_eq_filter xs xs hx hx]
  apply List.filter_eq_self.2
  intro a ha; simpa using ha

/-! ### `dotL`: the merge loop of `angular_similarity` -/

theorem dotL_nil_left (ys : List (Nat × Nat)) (p : Nat) : dotL [] ys p = p := rfl

theorem dotL_cons_nil (x : Nat × Nat) (xs : List (Nat × Nat)) (p : Nat) :
    dotL (x :: xs) [] p = dotL xs [] p := rfl

theorem dotL_cons_cons (x : Nat × Nat) (xs : List (Nat × Nat)) (y : Nat × Nat)
    (ys : List (Nat × Nat)) (p : Nat) :
    dotL (x :: xs) (y :: ys) p =
      if y.1 < x.1 then dotL (x :: xs) ys p
      else if y.1 = x.1 then dotL xs (y :: ys) (p + x.2 * y.2)
      else dotL xs (y :: ys) p := rfl

theorem dotL_nil_right : ∀ (xs : List (Nat × Nat)) (p : Nat), dotL xs [] p = p := by
  intro xs
  induction xs with
  | nil => intro p; rfl
  | cons x xs ih => intro p; rw [dotL_cons_nil, ih]

/-- Σ over the pairs of `xs` of (abundance × what `ys` carries for that hash) -/
def dotSpec (xs ys : List (Nat × Nat)) : Nat := (xs.map (fun q => q.2 * cnt ys q.1)).sum

theorem dotSpec_cons (x : Nat × Nat) (xs ys : List (Nat × Nat)) :
    dotSpec (x :: xs) ys = x.2 * cnt ys x.1 + dotSpec xs ys := by
  simp [dotSpec]

theorem dotSpec_congr {xs ys ys' : List (Nat × Nat)}
    (h : ∀ q ∈ xs, cnt ys q.1 = cnt ys' q.1) : dotSpec xs ys = dotSpec xs ys' := by
  unfold dotSpec
  congr 1
  apply List.map_congr_left
  intro q hq
  rw [h q hq]

theorem dotL_eq : ∀ (xs ys : List (Nat × Nat)), Sorted (xs.map Prod.fst) → Sorted (ys.map Prod.fst) →
    ∀ p, dotL xs ys p = p + dotSpec xs ys := by
  apply two_cursor_induct
  · intro ys _ _ p; simp [dotL_nil_left, dotSpec]
  · intro x xs _ _ p
    rw [dotL_nil_right]
    have : ∀ l : List (Nat × Nat), dotSpec l [] = 0 := by
      intro l
      induction l with
      | nil => rfl
      | cons q l ih => rw [dotSpec_cons, ih]; simp
    rw [this]; rfl
  · intro x xs y ys ih1 ih2 ih3 hx hy p
    rw [dotL_cons_cons]
    rw [List.map_cons] at hx hy
    have hxs := hx.tail
    have hys := hy.tail
    have hxlt := hx.head_lt
    have hylt := hy.head_lt
    split
    · rename_i hlt
      -- the other cursor is behind: skip y; nothing in x :: xs has key y.1
      rw [ih1 (by rw [List.map_cons]; exact hx) hys p]
      congr 1
      apply dotSpec_congr
      intro q hq
      have hge : x.1 ≤ q.1 := by
        rcases List.mem_cons.1 hq with e | hq
        · rw [e]; exact Nat.le_refl _
        · exact Nat.le_of_lt (hxlt q.1 (List.mem_map_of_mem hq))
      rw [cnt_cons', if_neg (by omega)]
    · split
      · rename_i hnlt heq
        rw [ih3 hxs (by rw [List.map_cons]; exact hy) _, dotSpec_cons, cnt_cons', if_pos heq.symm]
        omega
      · rename_i hnlt hne
        have hlt : x.1 < y.1 := by omega
        rw [ih3 hxs (by rw [List.map_cons]; exact hy) _, dotSpec_cons]
        have : cnt (y :: ys) x.1 = 0 := by
          apply cnt_eq_zero_of_lt
          intro k hk
          rw [List.map_cons] at hk
          rcases List.mem_cons.1 hk with e | hk
          · omega
          · have := hylt k hk; omega
        rw [this]; omega

/-- in an association list with strictly ascending keys every pair is what `cnt` reports -/
theorem cnt_of_mem {ps : List (Nat × Nat)} (hs : Sorted (ps.map Prod.fst)) :
    ∀ q ∈ ps, cnt ps q.1 = q.2 := by
  induction ps with
  | nil => intro q hq; cases hq
  | cons r ps ih =>
    intro q hq
    rw [List.map_cons] at hs
    rw [cnt_cons']
    rcases List.mem_cons.1 hq with e | hq
    · rw [e]; simp
    · have : r.1 < q.1 := hs.head_lt q.1 (List.mem_map_of_mem hq)
      rw [if_neg (by omega)]
      exact ih hs.tail q hq

theorem dotSpec_eq_sum_keys {xs ys : List (Nat × Nat)} (hs : Sorted (xs.map Prod.fst)) :
    dotSpec xs ys = ((xs.map Prod.fst).map (fun h => cnt xs h * cnt ys h)).sum := by
  unfold dotSpec
  rw [List.map_map]
  congr 1
  apply List.map_congr_left
  intro q hq
  simp only [Function.comp]
  rw [cnt_of_mem hs q hq]


/-! ### compatibility -/

/-- `check_compatible` succeeds -/
def Compatible (a b : MH) : Prop := a.checkCompatible b = .ok ()

theorem compatible_iff (a b : MH) :
    Compatible a b ↔ a.ksize = b.ksize ∧ a.hf = b.hf ∧ a.seed = b.seed ∧ a.maxHash = b.maxHash := by
  unfold Compatible
  constructor
  · intro h
    rcases checkCompatible_cases a b with ⟨e, he⟩ | ⟨_, h1, h2, h3, h4⟩
    · rw [he] at h; cases h
    · exact ⟨h1, h2, h4, h3⟩
  · rintro ⟨h1, h2, h4, h3⟩
    exact checkCompatible_ok_of h1 h2 h3 h4

theorem Compatible.symm {a b : MH} (h : Compatible a b) : Compatible b a := by
  rw [compatible_iff] at *
  exact ⟨h.1.symm, h.2.1.symm, h.2.2.1.symm, h.2.2.2.symm⟩

theorem Compatible.refl (a : MH) : Compatible a a := (compatible_iff a a).2 ⟨rfl, rfl, rfl, rfl⟩

theorem not_compatible_error {a b : MH} (h : ¬ Compatible a b) : ∃ e, a.checkCompatible b = .error e := by
  rcases checkCompatible_cases a b with he | ⟨hok, _⟩
  · exact he
  · exact absurd hok h

theorem isCompatible_iff (a b : MH) : isCompatible a b = true ↔ Compatible a b := by
  unfold isCompatible Compatible
  split
  · rename_i u hu; cases u; simp [hu]
  · rename_i e he; simp [he]

/-! ### `intersection_size`, `count_common` against the swap-free model of Model/MinHash.lean -/

theorem intersectionSize_eq_model (s o : MH) : Cmp.intersectionSize s o = MH.intersectionSize s o := by
  unfold Cmp.intersectionSize MH.intersectionSize MH.intersection
  rcases checkCompatible_cases s o with ⟨e, he⟩ | ⟨hok, _⟩
  · rw [he]; rfl
  · rw [hok]
    simp only [bind, Except.bind, pure, Except.pure]
    split
    · -- num sketch: same code
      cases h1 : (MH.new s.scaled s.ksize s.hf s.seed s.abunds.isSome s.num).merge s with
      | error e => rfl
      | ok c1 =>
        simp only []
        cases h2 : c1.merge o with
        | error e => rfl
        | ok c2 => rfl
    · simp only [MH.interUnion, isizeL_eq, Nat.zero_add]

theorem countCommonNoDs_eq {s o : MH} (hs : Sorted s.mins) (ho : Sorted o.mins) :
    Cmp.countCommonNoDs s o =
      (do s.checkCompatible o; pure (interL s.mins o.mins).length : Except Err Nat) := by
  unfold Cmp.countCommonNoDs
  rcases checkCompatible_cases s o with ⟨e, he⟩ | ⟨hok, _⟩
  · rw [he]; rfl
  · rw [hok]
    simp only [bind, Except.bind, pure, Except.pure]
    split
    · rfl
    · rw [interL_comm ho hs]

/-- the value of `count_common` without the downsample flag -/
theorem countCommonNoDs_ok {s o : MH} (hs : Sorted s.mins) (ho : Sorted o.mins) (hc : Compatible s o) :
    Cmp.countCommonNoDs s o = .ok (s.mins.filter (fun h => decide (h ∈ o.mins))).length := by
  rw [countCommonNoDs_eq hs ho, hc, ← interL_eq_filter _ _ hs ho]
  rfl


/-! ### the implicit downsample of `count_common` / `similarity` -/

theorem clone_frame (s : MH) :
    s.clone.2.ksize = s.ksize ∧ s.clone.2.hf = s.hf ∧ s.clone.2.seed = s.seed := by
  unfold MH.clone MH.md5sum
  cases s.md5 <;> simp

theorem downsampleScaled_frame {s r : MH} {sc : Nat} (h : s.downsampleScaled sc = .ok r) :
    r.ksize = s.ksize ∧ r.hf = s.hf ∧ r.seed = s.seed := by
  unfold MH.downsampleScaled at h
  split at h
  · cases h; exact ⟨rfl, rfl, rfl⟩
  · split at h
    · cases h
    · cases h
      split
      · have f := addManyAb_frame (MH.new sc s.ksize s.hf s.seed s.abunds.isSome s.num) s.pairs
        exact ⟨f.2.2.1, f.2.2.2.2.1, f.2.2.2.1⟩
      · have f := addMany_frame (MH.new sc s.ksize s.hf s.seed s.abunds.isSome s.num) s.mins
        exact ⟨f.2.2.1, f.2.2.2.2.1, f.2.2.2.1⟩

/-- the downsampled copy made by the `downsample` branch: same k-mer size, molecule, seed -/
theorem clone_downsample_frame {s d : MH} {sc : Nat} (h : (s.clone.2).downsampleScaled sc = .ok d) :
    d.ksize = s.ksize ∧ d.hf = s.hf ∧ d.seed = s.seed := by
  have f := downsampleScaled_frame h
  have c := clone_frame s
  exact ⟨f.1.trans c.1, f.2.1.trans c.2.1, f.2.2.trans c.2.2⟩

theorem inv_clone_downsample {s d : MH} {sc : Nat} (hs : Inv s) (hx : Excl s)
    (h : (s.clone.2).downsampleScaled sc = .ok d) : Inv d :=
  inv_downsampleScaled (inv_clone hs).2 (Excl.clone hx).2 h

theorem countCommon_eq_model {s o : MH} (hs : Inv s) (ho : Inv o) (hxs : Excl s) (hxo : Excl o)
    (ds : Bool) : Cmp.countCommon s o ds = MH.countCommon s o ds := by
  unfold Cmp.countCommon MH.countCommon
  split
  · by_cases hgt : s.scaled > o.scaled
    · simp only [hgt, if_true]
      cases hd : (o.clone.2).downsampleScaled s.scaled with
      | error e => rfl
      | ok d =>
        simp only [bind, Except.bind]
        rw [countCommonNoDs_eq hs.sorted (inv_clone_downsample ho hxo hd).sorted]
        rfl
    · simp only [hgt, if_false]
      cases hd : (s.clone.2).downsampleScaled o.scaled with
      | error e => rfl
      | ok d =>
        simp only [bind, Except.bind]
        rw [countCommonNoDs_eq ho.sorted (inv_clone_downsample hs hxs hd).sorted]
        rfl
  · exact countCommonNoDs_eq hs.sorted ho.sorted


/-! ### the num path of `intersection_size`: merge both into a fresh bottom-n sketch -/

theorem pairs_new (sc k hf seed : Nat) (tr : Bool) (n : Nat) : (MH.new sc k hf seed tr n).pairs = [] := by
  cases tr <;> rfl

/-- the combined sketch `combined_mh` of the num path: its hashes are the `num` smallest
    of the sorted union of the two operands -/
theorem num_combined {a b c1 c2 : MH} (ha : Inv a) (hb : Inv b) (hn : a.num ≠ 0)
    (h1 : (MH.new a.scaled a.ksize a.hf a.seed a.abunds.isSome a.num).merge a = .ok c1)
    (h2 : c1.merge b = .ok c2) :
    ∃ u : List Nat, Sorted u ∧ (∀ h, h ∈ u ↔ h ∈ a.mins ∨ h ∈ b.mins) ∧ c2.mins = u.take a.num := by
  have hi0 := inv_new a.scaled a.ksize a.hf a.seed a.abunds.isSome a.num
  have hi1 : Inv c1 := inv_merge hi0 ha h1
  have hi2 : Inv c2 := inv_merge hi1 hb h2
  have hn0 : (MH.new a.scaled a.ksize a.hf a.seed a.abunds.isSome a.num).num = a.num := rfl
  have hn1 : c1.num = a.num := (merge_frame h1).1.trans hn0
  -- c1 holds exactly a's hashes
  have hc1 : c1.mins = a.mins := by
    have := num_merge_take' h1 (by rw [hn0]; exact hn)
    rw [pairs_keys hi1.toW, pairs_new, mergeP_nil_left, hn0, List.map_take, pairs_keys ha.toW,
      List.take_of_length_le (ha.capped hn)] at this
    exact this
  have hk := num_merge_take' h2 (by rw [hn1]; exact hn)
  rw [pairs_keys hi2.toW, hn1, List.map_take] at hk
  refine ⟨(mergeP c1.pairs b.pairs).map Prod.fst, ?_, ?_, hk⟩
  · apply sorted_keys_mergeP
    · rw [pairs_keys hi1.toW]; exact hi1.sorted
    · rw [pairs_keys hb.toW]; exact hb.sorted
  · intro h
    rw [mem_keys_mergeP, pairs_keys hi1.toW, pairs_keys hb.toW, hc1]


/-! ### refusal of incompatible operands -/

theorem countCommonNoDs_error {s o : MH} (h : ¬ Compatible s o) : ∃ e, Cmp.countCommonNoDs s o = .error e := by
  obtain ⟨e, he⟩ := not_compatible_error h
  exact ⟨e, by unfold Cmp.countCommonNoDs; rw [he]; rfl⟩

theorem intersectionSize_error {s o : MH} (h : ¬ Compatible s o) : ∃ e, Cmp.intersectionSize s o = .error e := by
  obtain ⟨e, he⟩ := not_compatible_error h
  exact ⟨e, by unfold Cmp.intersectionSize; rw [he]; rfl⟩

theorem jaccardParts_error {s o : MH} (h : ¬ Compatible s o) : ∃ e, Cmp.jaccardParts s o = .error e := by
  obtain ⟨e, he⟩ := not_compatible_error h
  exact ⟨e, by unfold Cmp.jaccardParts; rw [he]; rfl⟩

theorem jaccard_error {s o : MH} (h : ¬ Compatible s o) : ∃ e, Cmp.jaccard s o = .error e := by
  obtain ⟨e, he⟩ := jaccardParts_error h
  exact ⟨e, by unfold Cmp.jaccard; rw [he]; rfl⟩

theorem angularParts_error {s o : MH} (h : ¬ Compatible s o) : ∃ e, Cmp.angularParts s o = .error e := by
  obtain ⟨e, he⟩ := not_compatible_error h
  exact ⟨e, by unfold Cmp.angularParts; rw [he]; rfl⟩

theorem similarityNoDs_error {s o : MH} (h : ¬ Compatible s o) (ia : Bool) :
    ∃ e, Cmp.similarityNoDs s o ia = .error e := by
  unfold Cmp.similarityNoDs
  split
  · obtain ⟨e, he⟩ := jaccardParts_error h
    exact ⟨e, by rw [he]; rfl⟩
  · obtain ⟨e, he⟩ := angularParts_error h
    exact ⟨e, by rw [he]; rfl⟩

/-- a mismatch the implicit downsample cannot repair -/
def CoreMismatch (a b : MH) : Prop := a.ksize ≠ b.ksize ∨ a.hf ≠ b.hf ∨ a.seed ≠ b.seed

theorem CoreMismatch.symm {a b : MH} (h : CoreMismatch a b) : CoreMismatch b a := by
  rcases h with h | h | h
  · exact Or.inl (Ne.symm h)
  · exact Or.inr (Or.inl (Ne.symm h))
  · exact Or.inr (Or.inr (Ne.symm h))

theorem CoreMismatch.not_compatible {a b : MH} (h : CoreMismatch a b) : ¬ Compatible a b := by
  intro hc
  obtain ⟨h1, h2, h3, _⟩ := (compatible_iff a b).1 hc
  rcases h with h | h | h
  · exact h h1
  · exact h h2
  · exact h h3

/-- the downsampled copy of `o` is still mismatched with `s` -/
theorem CoreMismatch.downsampled {s o d : MH} {sc : Nat} (h : CoreMismatch s o)
    (hd : (o.clone.2).downsampleScaled sc = .ok d) : CoreMismatch s d := by
  obtain ⟨h1, h2, h3⟩ := clone_downsample_frame hd
  unfold CoreMismatch
  rw [h1, h2, h3]; exact h

/-- generic shape of the `downsample` branch shared by `count_common` and `similarity` -/
theorem dsBranch_error {α} (f : MH → MH → Except Err α) (s o : MH) (ds : Bool)
    (hf : ∀ x y, CoreMismatch x y → ∃ e, f x y = .error e) (h : CoreMismatch s o) :
    ∃ e, (if ds = true ∧ s.scaled ≠ o.scaled then
            (match (if s.scaled > o.scaled then (s, o) else (o, s)) with
             | (first, second) => do
                let d ← (second.clone.2).downsampleScaled first.scaled
                f first d)
          else f s o) = .error e := by
  split
  · by_cases hgt : s.scaled > o.scaled
    · simp only [hgt, if_true]
      cases hd : (o.clone.2).downsampleScaled s.scaled with
      | error e => exact ⟨e, rfl⟩
      | ok d => exact hf s d (h.downsampled hd)
    · simp only [hgt, if_false]
      cases hd : (s.clone.2).downsampleScaled o.scaled with
      | error e => exact ⟨e, rfl⟩
      | ok d => exact hf o d (h.symm.downsampled hd)
  · exact hf s o h

theorem countCommon_coreMismatch_error {s o : MH} (h : CoreMismatch s o) (ds : Bool) :
    ∃ e, Cmp.countCommon s o ds = .error e :=
  dsBranch_error Cmp.countCommonNoDs s o ds (fun _ _ hm => countCommonNoDs_error hm.not_compatible) h

theorem similarity_coreMismatch_error {s o : MH} (h : CoreMismatch s o) (ia ds : Bool) :
    ∃ e, Cmp.similarity s o ia ds = .error e :=
  dsBranch_error (fun x y => Cmp.similarityNoDs x y ia) s o ds
    (fun _ _ hm => similarityNoDs_error hm.not_compatible ia) h


/-! ### `dotSpec` is symmetric on ascending keys -/

theorem dotSpec_nil_right (xs : List (Nat × Nat)) : dotSpec xs [] = 0 := by
  induction xs with
  | nil => rfl
  | cons q l ih => rw [dotSpec_cons, ih]; simp

theorem dotSpec_nil_left (ys : List (Nat × Nat)) : dotSpec [] ys = 0 := rfl

theorem dotSpec_comm : ∀ (xs ys : List (Nat × Nat)), Sorted (xs.map Prod.fst) → Sorted (ys.map Prod.fst) →
    dotSpec xs ys = dotSpec ys xs := by
  apply two_cursor_induct
  · intro ys _ _; rw [dotSpec_nil_left, dotSpec_nil_right]
  · intro x xs _ _; rw [dotSpec_nil_left, dotSpec_nil_right]
  · intro x xs y ys ih1 ih2 ih3 hx hy
    have hx' := hx
    have hy' := hy
    rw [List.map_cons] at hx hy
    have hxs := hx.tail
    have hys := hy.tail
    have hxlt := hx.head_lt
    have hylt := hy.head_lt
    -- keys of xs are above x.1, keys of ys above y.1
    have kx : ∀ q ∈ xs, x.1 < q.1 := fun q hq => hxlt q.1 (List.mem_map_of_mem hq)
    have ky : ∀ q ∈ ys, y.1 < q.1 := fun q hq => hylt q.1 (List.mem_map_of_mem hq)
    rcases Nat.lt_trichotomy x.1 y.1 with hlt | heq | hgt
    · -- x is matched by nothing in y :: ys; nothing in y :: ys is matched by x
      have h0 : cnt (y :: ys) x.1 = 0 := by
        apply cnt_eq_zero_of_lt
        intro k hk
        rw [List.map_cons] at hk
        rcases List.mem_cons.1 hk with e | hk
        · omega
        · have := hylt k hk; omega
      rw [dotSpec_cons, h0, Nat.mul_zero, Nat.zero_add, ih3 hxs hy']
      apply dotSpec_congr
      intro q hq
      have : x.1 < q.1 := by
        rcases List.mem_cons.1 hq with e | hq
        · rw [e]; exact hlt
        · have := ky q hq; omega
      rw [cnt_cons', if_neg (by omega)]
    · rw [dotSpec_cons, dotSpec_cons, cnt_cons', cnt_cons', if_pos heq, if_pos heq.symm]
      have e1 : dotSpec xs (y :: ys) = dotSpec xs ys := by
        apply dotSpec_congr
        intro q hq
        have := kx q hq
        rw [cnt_cons', if_neg (by omega)]
      have e2 : dotSpec ys (x :: xs) = dotSpec ys xs := by
        apply dotSpec_congr
        intro q hq
        have := ky q hq
        rw [cnt_cons', if_neg (by omega)]
      rw [e1, e2, ih2 hxs hys, Nat.mul_comm]
    · have h0 : cnt (x :: xs) y.1 = 0 := by
        apply cnt_eq_zero_of_lt
        intro k hk
        rw [List.map_cons] at hk
        rcases List.mem_cons.1 hk with e | hk
        · omega
        · have := hxlt k hk; omega
      rw [dotSpec_cons (x := y), h0, Nat.mul_zero, Nat.zero_add, ← ih1 hx' hys]
      apply dotSpec_congr
      intro q hq
      have : y.1 < q.1 := by
        rcases List.mem_cons.1 hq with e | hq
        · rw [e]; exact hgt
        · have := kx q hq; omega
      rw [cnt_cons', if_neg (by omega)]

/-- Σ of squares of the stored abundances, over the pairs -/
theorem sumSq_eq_pairs {l : List Nat} {ab : List Nat} (h : ab.length = l.length) :
    sumSq ab = ((l.zip ab).map (fun q => q.2 * q.2)).sum := by
  unfold sumSq
  have : (l.zip ab).map (fun q => q.2 * q.2) = ((l.zip ab).map Prod.snd).map (fun a => a * a) := by
    rw [List.map_map]; rfl
  rw [this, List.map_snd_zip (by omega)]


/-! ### comparison dataclasses: the Python `downsample` / `flatten` keep k-mer size, molecule, seed -/

theorem clear_frame (s : MH) : s.clear.ksize = s.ksize ∧ s.clear.hf = s.hf ∧ s.clear.seed = s.seed :=
  ⟨rfl, rfl, rfl⟩

theorem pyDownsampleWith_frame {s r : MH} {n mh : Nat} (h : Py.downsampleWith s n mh = .ok r) :
    r.ksize = s.ksize ∧ r.hf = s.hf ∧ r.seed = s.seed := by
  unfold Py.downsampleWith at h
  split at h
  · cases h
  · rename_i a ha
    have fa := mkMinHash_frame ha
    split at h
    · unfold Py.setAbundances at h
      split at h
      · cases h
        unfold MH.ffiSetAbundances
        simp only [if_true]
        have f := addManyAb_frame a.clear (MH.sortPairs s.pairs)
        exact ⟨f.2.2.1.trans fa.2.1, f.2.2.2.2.1.trans fa.2.2.1, f.2.2.2.1.trans fa.2.2.2.1⟩
      · cases h
    · cases h
      have f := addMany_frame a s.mins
      exact ⟨f.2.2.1.trans fa.2.1, f.2.2.2.2.1.trans fa.2.2.1, f.2.2.2.1.trans fa.2.2.2.1⟩

theorem pyDownsample_frame {s r : MH} {n sc : Option Nat} (h : Py.downsample s n sc = .ok r) :
    r.ksize = s.ksize ∧ r.hf = s.hf ∧ r.seed = s.seed := by
  unfold Py.downsample at h
  split at h
  · cases h
  · exact pyDownsampleWith_frame h

theorem flat_frame {s r : MH} (h : PyCmp.flat s = .ok r) :
    r.ksize = s.ksize ∧ r.hf = s.hf ∧ r.seed = s.seed := by
  unfold PyCmp.flat Py.flatten at h
  split at h
  · cases ha : Py.mkMinHash s.num s.ksize s.hf s.seed false s.maxHash 0 with
    | error e => simp [ha, bind, Except.bind] at h
    | ok a =>
      simp only [ha, bind, Except.bind, pure, Except.pure, Except.ok.injEq] at h
      subst h
      have fa := mkMinHash_frame ha
      have f := addMany_frame a s.mins
      exact ⟨f.2.2.1.trans fa.2.1, f.2.2.2.2.1.trans fa.2.2.1, f.2.2.2.1.trans fa.2.2.2.1⟩
  · simp only [bind, Except.bind, pure, Except.pure, Except.ok.injEq] at h
    subst h; exact ⟨rfl, rfl, rfl⟩

theorem inv_flat {s r : MH} (hs : Inv s) (h : PyCmp.flat s = .ok r) : Inv r := by
  unfold PyCmp.flat at h
  cases hf : Py.flatten s with
  | error e => simp [hf, bind, Except.bind] at h
  | ok o =>
    cases o with
    | none => simp only [hf, bind, Except.bind, pure, Except.pure, Except.ok.injEq] at h; subst h; exact hs
    | some f =>
      simp only [hf, bind, Except.bind, pure, Except.pure, Except.ok.injEq] at h
      subst h; exact inv_pyFlatten hf

theorem bind_ok {α β} {x : Except Err α} {f : α → Except Err β} {r : β} (h : x >>= f = .ok r) :
    ∃ a, x = .ok a ∧ f a = .ok r := by
  cases x with
  | error e => cases h
  | ok a => exact ⟨a, rfl, h⟩

/-- what `downsample_and_handle_ignore_abundance` hands on: invariant holds, core fields kept -/
theorem downsampleAndHandle_ok {a b x y : MH} {ia : Bool} {cn cs : Option Nat}
    (h : PyCmp.downsampleAndHandleIgnoreAbundance a b ia cn cs = .ok (x, y)) :
    (Inv x ∧ Inv y) ∧
    (x.ksize = a.ksize ∧ x.hf = a.hf ∧ x.seed = a.seed) ∧ (y.ksize = b.ksize ∧ y.hf = b.hf ∧ y.seed = b.seed) := by
  have fin : ∀ {a1 b1 : MH} {n sc : Option Nat},
      (a1.ksize = a.ksize ∧ a1.hf = a.hf ∧ a1.seed = a.seed) →
      (b1.ksize = b.ksize ∧ b1.hf = b.hf ∧ b1.seed = b.seed) →
      (do
        let a2 ← Py.downsample a1 n sc
        let b2 ← Py.downsample b1 n sc
        pure (a2, b2) : Except Err (MH × MH)) = .ok (x, y) →
      (Inv x ∧ Inv y) ∧
      (x.ksize = a.ksize ∧ x.hf = a.hf ∧ x.seed = a.seed) ∧
      (y.ksize = b.ksize ∧ y.hf = b.hf ∧ y.seed = b.seed) := by
    intro a1 b1 n sc fa1 fb1 hh
    obtain ⟨a2, ha2, hh⟩ := bind_ok hh
    obtain ⟨b2, hb2, hh⟩ := bind_ok hh
    simp only [pure, Except.pure, Except.ok.injEq, Prod.mk.injEq] at hh
    obtain ⟨rfl, rfl⟩ := hh
    have f1 := pyDownsample_frame ha2
    have f2 := pyDownsample_frame hb2
    exact ⟨⟨(invx_pyDownsample ha2).1, (invx_pyDownsample hb2).1⟩,
      ⟨f1.1.trans fa1.1, f1.2.1.trans fa1.2.1, f1.2.2.trans fa1.2.2⟩,
      ⟨f2.1.trans fb1.1, f2.2.1.trans fb1.2.1, f2.2.2.trans fb1.2.2⟩⟩
  have tail : ∀ {a1 b1 : MH},
      (a1.ksize = a.ksize ∧ a1.hf = a.hf ∧ a1.seed = a.seed) →
      (b1.ksize = b.ksize ∧ b1.hf = b.hf ∧ b1.seed = b.seed) →
      (match cs, cn with
        | some cs, _ => (do
          let a2 ← Py.downsample a1 none (some cs)
          let b2 ← Py.downsample b1 none (some cs)
          pure (a2, b2) : Except Err (MH × MH))
        | none, some cn => do
          let a2 ← Py.downsample a1 (some cn) none
          let b2 ← Py.downsample b1 (some cn) none
          pure (a2, b2)
        | none, none => .error .pyValue) = .ok (x, y) →
      (Inv x ∧ Inv y) ∧
      (x.ksize = a.ksize ∧ x.hf = a.hf ∧ x.seed = a.seed) ∧
      (y.ksize = b.ksize ∧ y.hf = b.hf ∧ y.seed = b.seed) := by
    intro a1 b1 fa1 fb1 hh
    cases cs with
    | some c => exact fin fa1 fb1 hh
    | none =>
      cases cn with
      | some c => exact fin fa1 fb1 hh
      | none => cases hh
  unfold PyCmp.downsampleAndHandleIgnoreAbundance at h
  cases ia
  · exact tail ⟨rfl, rfl, rfl⟩ ⟨rfl, rfl, rfl⟩ h
  · simp only [if_true] at h
    obtain ⟨a1, ha1, h⟩ := bind_ok h
    obtain ⟨b1, hb1, h⟩ := bind_ok h
    exact tail (flat_frame ha1) (flat_frame hb1) h

theorem checkCompatibilityAndDownsample_ok {a b x y : MH} {ia : Bool} {cn cs : Option Nat}
    (h : PyCmp.checkCompatibilityAndDownsample a b ia cn cs = .ok (x, y)) :
    Inv x ∧ Inv y ∧ Compatible x y ∧ ¬ CoreMismatch a b := by
  unfold PyCmp.checkCompatibilityAndDownsample at h
  split at h
  · cases h
  · obtain ⟨xy, hd, h⟩ := bind_ok h
    obtain ⟨x', y'⟩ := xy
    simp only at h
    split at h
    · cases h
    · rename_i hc
      simp only [pure, Except.pure, Except.ok.injEq, Prod.mk.injEq] at h
      obtain ⟨rfl, rfl⟩ := h
      obtain ⟨⟨hx, hy⟩, fx, fy⟩ := downsampleAndHandle_ok hd
      have hcomp : Compatible x' y' := by
        cases hh : isCompatible x' y'
        · exact absurd hh (by simpa using hc)
        · exact (isCompatible_iff _ _).1 hh
      refine ⟨hx, hy, hcomp, ?_⟩
      obtain ⟨h1, h2, h3, _⟩ := (compatible_iff _ _).1 hcomp
      intro hm
      rcases hm with hm | hm | hm
      · exact hm (by rw [← fx.1, ← fy.1]; exact h1)
      · exact hm (by rw [← fx.2.1, ← fy.2.1]; exact h2)
      · exact hm (by rw [← fx.2.2, ← fy.2.2]; exact h3)


/-! ### the head of `contained_by` / `max_containment` (`PyCmp.prepare`) -/

theorem prepare_noDs (s o : MH) : PyCmp.prepare s o false = .ok (s, o) := by
  unfold PyCmp.prepare; simp

theorem prepare_same {s o : MH} (h : Py.scaledProp s = Py.scaledProp o) (ds : Bool) :
    PyCmp.prepare s o ds = .ok (s, o) := by
  unfold PyCmp.prepare; simp [h]

/-- the threshold of a sketch produced by Python `downsample(scaled=sc)` depends on `sc` only -/
def pyDownMaxHash (sc : Nat) : Nat := mhR (if mhP sc ≠ 0 then scP (mhP sc) else 0)

theorem pyDownsample_maxHash {s r : MH} {sc : Nat} (h : Py.downsample s none (some sc) = .ok r) :
    r.maxHash = pyDownMaxHash sc := by
  unfold Py.downsample Py.downsampleParams at h
  simp only at h
  split at h
  · cases h
  · rename_i n mh hp
    split at hp
    · cases hp
    · split at hp
      · cases hp
      · simp only [Except.ok.injEq, Prod.mk.injEq] at hp
        obtain ⟨rfl, rfl⟩ := hp
        unfold Py.downsampleWith at h
        split at h
        · cases h
        · rename_i a ha
          have hm : a.maxHash = pyDownMaxHash sc := by
            unfold Py.mkMinHash at ha
            by_cases c1 : mhP sc ≠ 0 ∧ (0 : Nat) ≠ 0
            · exact absurd rfl c1.2
            · rw [if_neg c1] at ha
              simp only at ha
              generalize hsc : (if mhP sc ≠ 0 then scP (mhP sc) else 0) = sc' at ha
              by_cases c2 : sc' ≠ 0 ∧ (0 : Nat) ≠ 0
              · exact absurd rfl c2.2
              · rw [if_neg c2] at ha
                by_cases c3 : True ∧ sc' = 0
                · rw [if_pos c3] at ha; cases ha
                · rw [if_neg c3] at ha
                  cases ha
                  unfold pyDownMaxHash
                  rw [hsc]; rfl
          split at h
          · unfold Py.setAbundances at h
            split at h
            · cases h
              unfold MH.ffiSetAbundances
              simp only [if_true]
              exact ((addManyAb_frame a.clear (MH.sortPairs s.pairs)).2.1).trans hm
            · cases h
          · cases h
            exact ((addMany_frame a s.mins).2.1).trans hm

/-- with the flag set and different scaled values, `prepare` hands on two sketches that satisfy the
    invariant, kept k-mer size / molecule / seed, and share one threshold -/
theorem prepare_ds_ok {a b x y : MH} (hne : Py.scaledProp a ≠ Py.scaledProp b)
    (h : PyCmp.prepare a b true = .ok (x, y)) :
    Py.downsample a none (some (max (Py.scaledProp a) (Py.scaledProp b))) = .ok x ∧
    Py.downsample b none (some (max (Py.scaledProp a) (Py.scaledProp b))) = .ok y ∧
    Inv x ∧ Inv y ∧ x.maxHash = y.maxHash ∧
    (x.ksize = a.ksize ∧ x.hf = a.hf ∧ x.seed = a.seed) ∧ (y.ksize = b.ksize ∧ y.hf = b.hf ∧ y.seed = b.seed) := by
  unfold PyCmp.prepare at h
  simp only [true_and, ne_eq, hne, not_false_eq_true, if_true] at h
  cases hx : Py.downsample a none (some (max (Py.scaledProp a) (Py.scaledProp b))) with
  | error e => rw [hx] at h; cases h
  | ok x' =>
    cases hy : Py.downsample b none (some (max (Py.scaledProp a) (Py.scaledProp b))) with
    | error e => rw [hx, hy] at h; cases h
    | ok y' =>
      rw [hx, hy] at h
      simp only [Except.ok.injEq, Prod.mk.injEq] at h
      obtain ⟨rfl, rfl⟩ := h
      exact ⟨rfl, rfl, (invx_pyDownsample hx).1, (invx_pyDownsample hy).1,
        (pyDownsample_maxHash hx).trans (pyDownsample_maxHash hy).symm,
        pyDownsample_frame hx, pyDownsample_frame hy⟩

/-- whatever `prepare` returns kept k-mer size, molecule and seed of the operands -/
theorem prepare_frame {a b x y : MH} {ds : Bool} (h : PyCmp.prepare a b ds = .ok (x, y)) :
    (x.ksize = a.ksize ∧ x.hf = a.hf ∧ x.seed = a.seed) ∧ (y.ksize = b.ksize ∧ y.hf = b.hf ∧ y.seed = b.seed) := by
  by_cases hc : ds = true ∧ Py.scaledProp a ≠ Py.scaledProp b
  · obtain ⟨rfl, hne⟩ := hc
    have := prepare_ds_ok hne h
    exact ⟨this.2.2.2.2.2.1, this.2.2.2.2.2.2⟩
  · unfold PyCmp.prepare at h
    rw [if_neg hc] at h
    simp only [Except.ok.injEq, Prod.mk.injEq] at h
    obtain ⟨rfl, rfl⟩ := h
    exact ⟨⟨rfl, rfl, rfl⟩, ⟨rfl, rfl, rfl⟩⟩

theorem CoreMismatch.prepared {a b x y : MH} {ds : Bool} (hm : CoreMismatch a b)
    (h : PyCmp.prepare a b ds = .ok (x, y)) : CoreMismatch x y := by
  obtain ⟨fx, fy⟩ := prepare_frame h
  unfold CoreMismatch
  rw [fx.1, fx.2.1, fx.2.2, fy.1, fy.2.1, fy.2.2]; exact hm

theorem countCommon_false_error {x y : MH} (h : ¬ Compatible x y) : ∃ e, Cmp.countCommon x y false = .error e := by
  unfold Cmp.countCommon
  simp only [Bool.false_eq_true, false_and, if_false]
  exact countCommonNoDs_error h

theorem containedByCore_error {x y : MH} (h : ¬ Compatible x y) : ∃ e, PyCmp.containedByCore x y = .error e := by
  obtain ⟨e, he⟩ := countCommon_false_error h
  exact ⟨e, by unfold PyCmp.containedByCore; rw [he]⟩

theorem maxContainmentCore_error {x y : MH} (h : ¬ Compatible x y) : ∃ e, PyCmp.maxContainmentCore x y = .error e := by
  obtain ⟨e, he⟩ := countCommon_false_error h
  exact ⟨e, by unfold PyCmp.maxContainmentCore; rw [he]⟩

end Sm
