/-
C16 core: what every matrix builder of `Model/CompareMatrix.lean` returns.
-/
import SmVerif.Lemmas.CompareMatrix

namespace Sm.Compare

variable {α : Type}

/-- specification of the builders that fill `M[i][j] = M[j][i] = f i j` for `i < j` -/
def upperSpec (n : Nat) (f : Nat → Nat → α) (one : α) : Mat α :=
  Mat.ofFn n fun a b => if a = b then one else if a < b then f a b else f b a

/-- specification of the containment builder: row a, column b holds `f b a` -/
def contSpec (n : Nat) (f : Nat → Nat → α) (one : α) : Mat α :=
  Mat.ofFn n fun a b => if a = b then one else f b a

/-! ### serial, symmetric -/

def wsUpper (n : Nat) (f : Nat → Nat → α) : List (Nat × Nat × α) :=
  (pairsUpper n).flatMap fun p => [(p.1, p.2, f p.1 p.2), (p.2, p.1, f p.1 p.2)]

theorem applyWrites_wsUpper (n : Nat) (f : Nat → Nat → α) (one : α) :
    applyWrites (Mat.ones n one) (wsUpper n f) = upperSpec n f one := by
  apply applyWrites_eq_ofFn _ _ _ (Mat.wf_ones n one)
  · intro w hw
    simp only [wsUpper, List.mem_flatMap] at hw
    obtain ⟨p, hp, hw⟩ := hw
    have hp' := mem_pairsUpper.mp hp
    simp only [List.mem_cons, List.not_mem_nil, or_false] at hw
    rcases hw with rfl | rfl
    · refine ⟨show p.1 < n by omega, hp'.2, ?_⟩
      have h1 : ¬ p.1 = p.2 := by omega
      simp [h1, hp'.1]
    · refine ⟨hp'.2, show p.1 < n by omega, ?_⟩
      have h1 : ¬ p.2 = p.1 := by omega
      have h2 : ¬ p.2 < p.1 := by omega
      simp [h1, h2]
  · intro a b ha hb
    by_cases hab : a = b
    · right; subst hab; simp [Mat.get?_ones one ha ha]
    · left
      by_cases hlt : a < b
      · refine ⟨(a, b, f a b), ?_, rfl, rfl⟩
        simp only [wsUpper, List.mem_flatMap]
        exact ⟨(a, b), mem_pairsUpper.mpr ⟨hlt, hb⟩, by simp⟩
      · refine ⟨(a, b, f b a), ?_, rfl, rfl⟩
        simp only [wsUpper, List.mem_flatMap]
        exact ⟨(b, a), mem_pairsUpper.mpr ⟨by omega, ha⟩, by simp⟩

/-! what the regenerated constants select (these are the only places that look at `Sm.Gen.cmp*`;
    if compare.py changes one of the shapes, they stop being `rfl`) -/

theorem compareSerial_def (n : Nat) (cell : Nat → Nat → Except String α) (one : α) :
    compareSerial n cell one = (pairsUpper n).foldlM (stepSym cell) (Mat.ones n one) := rfl

theorem compareSerialMax_eq (n : Nat) (cell : Nat → Nat → Except String α) (one : α) :
    compareSerialMax n cell one = compareSerial n (fun i j => cell j i) one := rfl

theorem compareSerialAvg_eq (n : Nat) (cell : Nat → Nat → Except String α) (one : α) :
    compareSerialAvg n cell one = compareSerial n (fun i j => cell j i) one := rfl

theorem compareSerialAvgAni_eq (n : Nat) (cani : Nat → Nat → Except String (Option α)) (avg : α → α → α)
    (zero one : α) :
    compareSerialAvgAni n cani avg zero one =
      compareSerial n (fun i j => cani j i >>= fun r1 => cani i j >>= fun r2 => pure (avgOrZero avg zero r1 r2)) one :=
  rfl

theorem stepContainment_def (cell : Nat → Nat → Except String α) (one : α) (m : Mat α) (p : Nat × Nat) :
    stepContainment cell one m p =
      if p.1 = p.2 then pure (m.set2 p.1 p.2 one)
      else (cell p.2 p.1 >>= fun v => pure (m.set2 p.1 p.2 v)) := rfl

theorem simAtIndex_def (cell : Nat → Nat → Except String α) (n index : Nat) :
    simAtIndex cell n index = (List.range' (index + 1) (n - (index + 1))).mapM (cell index) := rfl

theorem placeRow_def (m : Mat α) (index : Nat) (row : List α) :
    placeRow m index row =
      row.zipIdx.foldl (fun m ic => (m.set2 index (index + 1 + ic.2) ic.1).set2 (ic.2 + (index + 1)) index ic.1) m :=
  rfl

theorem compareSerial_ok (n : Nat) (cell : Nat → Nat → Except String α) (f : Nat → Nat → α) (one : α)
    (h : ∀ i j, i < j → j < n → cell i j = .ok (f i j)) :
    compareSerial n cell one = .ok (upperSpec n f one) := by
  rw [compareSerial_def]
  rw [foldlM_ok (stepSym cell) (fun m p => (m.set2 p.1 p.2 (f p.1 p.2)).set2 p.2 p.1 (f p.1 p.2))]
  · congr 1
    rw [← applyWrites_wsUpper]
    simp only [applyWrites, wsUpper, List.foldl_flatMap, List.foldl_cons, List.foldl_nil]
  · intro m p hp
    have hp' := mem_pairsUpper.mp hp
    simp only [stepSym, h p.1 p.2 hp'.1 hp'.2]
    rfl

/-! ### serial average-containment ANI -/

theorem avgOrZero_comm (avg : α → α → α) (hc : ∀ x y, avg x y = avg y x) (zero : α) (a b : Option α) :
    avgOrZero avg zero a b = avgOrZero avg zero b a := by
  cases a <;> cases b <;> simp [avgOrZero, hc]

theorem compareSerialAvgAni_ok (n : Nat) (cani : Nat → Nat → Except String (Option α)) (g : Nat → Nat → Option α)
    (avg : α → α → α) (zero one : α)
    (h : ∀ i j, i ≠ j → i < n → j < n → cani i j = .ok (g i j)) :
    compareSerialAvgAni n cani avg zero one =
      .ok (upperSpec n (fun i j => avgOrZero avg zero (g j i) (g i j)) one) := by
  rw [compareSerialAvgAni_eq]
  apply compareSerial_ok
  intro i j hij hj
  rw [h j i (by omega) hj (by omega), h i j (by omega) (by omega) hj]
  rfl

/-! ### serial containment -/

theorem compareSerialContainment_ok (n : Nat) (cell : Nat → Nat → Except String α) (f : Nat → Nat → α) (one : α)
    (h : ∀ i j, i ≠ j → i < n → j < n → cell j i = .ok (f j i)) :
    compareSerialContainment n cell one = .ok (contSpec n f one) := by
  unfold compareSerialContainment
  rw [foldlM_ok (stepContainment cell one)
    (fun m p => m.set2 p.1 p.2 (if p.1 = p.2 then one else f p.2 p.1))]
  · congr 1
    have : (pairsAll n).foldl (fun m p => m.set2 p.1 p.2 (if p.1 = p.2 then one else f p.2 p.1)) (Mat.ones n one)
        = applyWrites (Mat.ones n one)
            ((pairsAll n).map fun p => (p.1, p.2, if p.1 = p.2 then one else f p.2 p.1)) := by
      simp only [applyWrites, List.foldl_map]
    rw [this]
    apply applyWrites_eq_ofFn _ _ _ (Mat.wf_ones n one)
    · intro w hw
      simp only [List.mem_map] at hw
      obtain ⟨p, hp, rfl⟩ := hw
      have hp' := mem_pairsAll.mp hp
      exact ⟨hp'.1, hp'.2, rfl⟩
    · intro a b ha hb
      left
      refine ⟨(a, b, if a = b then one else f b a), ?_, rfl, rfl⟩
      simp only [List.mem_map]
      exact ⟨(a, b), mem_pairsAll.mpr ⟨ha, hb⟩, rfl⟩
  · intro m p hp
    have hp' := mem_pairsAll.mp hp
    by_cases e : p.1 = p.2
    · simp only [stepContainment_def, e, if_true]; rfl
    · simp only [stepContainment_def, e, if_false, h p.1 p.2 e hp'.1 hp'.2]; rfl

/-! ### parallel -/

/-- the assignments performed by the inner placement loop for row `index` -/
def rowWrites (index : Nat) (row : List α) : List (Nat × Nat × α) :=
  row.zipIdx.flatMap fun ic => [(index, index + 1 + ic.2, ic.1), (ic.2 + (index + 1), index, ic.1)]

/-- all assignments of the placement loop of `compare_parallel` -/
def parWrites (rows : List (List α)) : List (Nat × Nat × α) :=
  rows.zipIdx.flatMap fun ri => rowWrites ri.2 ri.1

theorem placeRow_eq (m : Mat α) (index : Nat) (row : List α) :
    placeRow m index row = applyWrites m (rowWrites index row) := by
  simp only [placeRow_def, applyWrites, rowWrites, List.foldl_flatMap, List.foldl_cons, List.foldl_nil]

theorem placeRows_eq (m : Mat α) (rows : List (List α)) :
    placeRows m rows = applyWrites m (parWrites rows) := by
  simp only [placeRows, parWrites, applyWrites, List.foldl_flatMap]
  congr 1
  funext m ri
  exact placeRow_eq m ri.2 ri.1

/-- the rows `get_similarities_at_index` returns when every pairwise call succeeds -/
def rowsOf (n : Nat) (f : Nat → Nat → α) : List (List α) :=
  (List.range n).map fun i => (List.range' (i + 1) (n - (i + 1))).map (f i)

theorem mem_parWrites_rowsOf {n : Nat} {f : Nat → Nat → α} {w : Nat × Nat × α} :
    w ∈ parWrites (rowsOf n f) ↔
      ∃ i c, i < n ∧ c < n - (i + 1) ∧
        (w = (i, i + 1 + c, f i (i + 1 + c)) ∨ w = (c + (i + 1), i, f i (i + 1 + c))) := by
  simp only [parWrites, rowWrites, List.mem_flatMap, List.mem_zipIdx_iff_getElem?, rowsOf,
    List.getElem?_map, List.mem_cons, List.not_mem_nil, or_false]
  constructor
  · rintro ⟨ri, hri, ic, hic, hw⟩
    have hi : ri.2 < n := by
      by_cases h : ri.2 < n
      · exact h
      · rw [List.getElem?_eq_none (by simp; omega)] at hri; cases hri
    rw [List.getElem?_range hi] at hri
    simp only [Option.map_some, Option.some.injEq] at hri
    rw [← hri, List.getElem?_map] at hic
    have hc : ic.2 < n - (ri.2 + 1) := by
      by_cases h : ic.2 < n - (ri.2 + 1)
      · exact h
      · rw [List.getElem?_eq_none (by simp; omega)] at hic; cases hic
    rw [List.getElem?_range' hc] at hic
    simp only [Option.map_some, Option.some.injEq, Nat.one_mul] at hic
    refine ⟨ri.2, ic.2, hi, hc, ?_⟩
    rw [hic]
    exact hw
  · rintro ⟨i, c, hi, hc, hw⟩
    refine ⟨((List.range' (i + 1) (n - (i + 1))).map (f i), i), ?_, (f i (i + 1 + c), c), ?_, hw⟩
    · simp [List.getElem?_range hi]
    · simp [List.getElem?_map, List.getElem?_range' hc]

theorem applyWrites_parWrites (n : Nat) (f : Nat → Nat → α) (one zero : α) :
    applyWrites (Mat.eye n one zero) (parWrites (rowsOf n f)) = upperSpec n f one := by
  apply applyWrites_eq_ofFn _ _ _ (by rw [Mat.eye_eq_ofFn]; exact Mat.wf_ofFn _ _)
  · intro w hw
    obtain ⟨i, c, hi, hc, hw⟩ := mem_parWrites_rowsOf.mp hw
    rcases hw with rfl | rfl
    · refine ⟨hi, by simp only; omega, ?_⟩
      have h1 : ¬ i = i + 1 + c := by omega
      have h2 : i < i + 1 + c := by omega
      simp [h1, h2]
    · refine ⟨by simp only; omega, hi, ?_⟩
      have h1 : ¬ c + (i + 1) = i := by omega
      have h2 : ¬ c + (i + 1) < i := by omega
      have h3 : i + 1 + c = c + (i + 1) := by omega
      simp [h1, h2, h3]
  · intro a b ha hb
    by_cases hab : a = b
    · right; subst hab
      rw [Mat.eye_eq_ofFn, Mat.get?_ofFn _ ha ha]; simp
    · left
      by_cases hlt : a < b
      · refine ⟨(a, b, f a b), mem_parWrites_rowsOf.mpr ⟨a, b - a - 1, ha, by omega, Or.inl ?_⟩, rfl, rfl⟩
        have : a + 1 + (b - a - 1) = b := by omega
        rw [this]
      · refine ⟨(a, b, f b a), mem_parWrites_rowsOf.mpr ⟨b, a - b - 1, hb, by omega, Or.inr ?_⟩, rfl, rfl⟩
        have h1 : a - b - 1 + (b + 1) = a := by omega
        have h2 : b + 1 + (a - b - 1) = a := by omega
        rw [h1, h2]

theorem simAtIndex_ok (n : Nat) (cell : Nat → Nat → Except String α) (f : Nat → Nat → α)
    (h : ∀ i j, i < j → j < n → cell i j = .ok (f i j)) (i : Nat) :
    simAtIndex cell n i = .ok ((List.range' (i + 1) (n - (i + 1))).map (f i)) := by
  rw [simAtIndex_def]
  apply mapM_ok
  intro j hj
  have := List.mem_range'_1.mp hj
  exact h i j (by omega) (by omega)

theorem compareParallel_unfold (n jobs : Nat) (hn : 0 < n) (hj : 0 < jobs)
    (cell : Nat → Nat → Except String α) (one zero : α) :
    compareParallel n jobs cell one zero =
      ((List.range n).mapM (simAtIndex cell n)) >>= fun rows => pure (placeRows (Mat.eye n one zero) rows) := by
  have h1 : ¬ jobs = 0 := by omega
  have h2 : ¬ chunkSize n jobs = 0 := by have := chunkSize_pos hn hj; omega
  simp only [compareParallel, h1, h2, if_false]
  rw [imap_eq_mapM _ _ _ (chunkSize_pos hn hj)]

theorem compareParallel_ok (n jobs : Nat) (hn : 0 < n) (hj : 0 < jobs)
    (cell : Nat → Nat → Except String α) (f : Nat → Nat → α) (one zero : α)
    (h : ∀ i j, i < j → j < n → cell i j = .ok (f i j)) :
    compareParallel n jobs cell one zero = .ok (upperSpec n f one) := by
  rw [compareParallel_unfold n jobs hn hj]
  have : (List.range n).mapM (simAtIndex cell n) = .ok (rowsOf n f) :=
    mapM_ok _ _ _ (fun i _ => simAtIndex_ok n cell f h i)
  rw [this]
  show Except.ok _ = _
  rw [placeRows_eq, applyWrites_parWrites]

/-! ### parallel = serial, exceptions included -/

theorem pairsUpper_mapM (n : Nat) (cell : Nat → Nat → Except String α) :
    (pairsUpper n).mapM (fun p => cell p.1 p.2) =
      ((List.range n).mapM (simAtIndex cell n)) >>= fun rs => pure rs.flatten := by
  unfold pairsUpper
  rw [List.flatMap_def, mapM_flatten, List.mapM_map]
  congr 2
  funext i
  simp only [Function.comp, simAtIndex_def, List.mapM_map]
  rfl

theorem compareParallel_eq_serial (n jobs : Nat) (hn : 0 < n) (hj : 0 < jobs)
    (cell : Nat → Nat → Except String α) (one zero : α) :
    compareParallel n jobs cell one zero = compareSerial n cell one := by
  cases hm : (pairsUpper n).mapM (fun p => cell p.1 p.2) with
  | error e =>
    have hs : compareSerial n cell one = .error e := by
      rw [compareSerial_def]
      exact foldlM_error_of_mapM_error (fun p : Nat × Nat => cell p.1 p.2)
        (fun (m : Mat α) p v => (m.set2 p.1 p.2 v).set2 p.2 p.1 v) _ e hm _
    have hp : (List.range n).mapM (simAtIndex cell n) = .error e := by
      rw [pairsUpper_mapM] at hm
      cases hr : (List.range n).mapM (simAtIndex cell n) with
      | ok rs => rw [hr] at hm; cases hm
      | error e' => rw [hr] at hm; cases hm; rfl
    rw [hs, compareParallel_unfold n jobs hn hj, hp]
    rfl
  | ok vs =>
    have hall := mapM_ok_imp _ _ _ hm
    let f : Nat → Nat → α := fun i j => match cell i j with | .ok v => v | .error _ => one
    have h : ∀ i j, i < j → j < n → cell i j = .ok (f i j) := by
      intro i j h1 h2
      obtain ⟨v, hv⟩ := hall (i, j) (mem_pairsUpper.mpr ⟨h1, h2⟩)
      simp only at hv
      simp only [f, hv]
    rw [compareParallel_ok n jobs hn hj cell f one zero h, compareSerial_ok n cell f one h]

/-! ### permutations -/

theorem upperSpec_perm {n : Nat} (f : Nat → Nat → α) (one : α) (σ : Nat → Nat)
    (hσ : ∀ a, a < n → σ a < n) (inj : ∀ a b, a < n → b < n → σ a = σ b → a = b)
    (hsym : ∀ i j, i < n → j < n → f i j = f j i) {a b : Nat} (ha : a < n) (hb : b < n) :
    (upperSpec n (fun i j => f (σ i) (σ j)) one).get? a b = (upperSpec n f one).get? (σ a) (σ b) := by
  simp only [upperSpec]
  rw [Mat.get?_ofFn _ ha hb, Mat.get?_ofFn _ (hσ a ha) (hσ b hb)]
  by_cases hab : a = b
  · subst hab; simp
  · have hne : ¬ σ a = σ b := fun e => hab (inj a b ha hb e)
    simp only [hab, hne, if_false]
    have := hsym (σ a) (σ b) (hσ a ha) (hσ b hb)
    by_cases h1 : a < b <;> by_cases h2 : σ a < σ b <;> simp [h1, h2, this]

theorem contSpec_perm {n : Nat} (f : Nat → Nat → α) (one : α) (σ : Nat → Nat)
    (hσ : ∀ a, a < n → σ a < n) (inj : ∀ a b, a < n → b < n → σ a = σ b → a = b)
    {a b : Nat} (ha : a < n) (hb : b < n) :
    (contSpec n (fun i j => f (σ i) (σ j)) one).get? a b = (contSpec n f one).get? (σ a) (σ b) := by
  simp only [contSpec]
  rw [Mat.get?_ofFn _ ha hb, Mat.get?_ofFn _ (hσ a ha) (hσ b hb)]
  by_cases hab : a = b
  · subst hab; simp
  · have hne : ¬ σ a = σ b := fun e => hab (inj a b ha hb e)
    simp [hab, hne]

end Sm.Compare
