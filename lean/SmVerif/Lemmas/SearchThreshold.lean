/-
C06, the threshold test `score >= threshold` on binary64 values versus the comparison of the
rationals behind them.

* For an ARBITRARY double `t` (what `--threshold` is after `float(text)`): the float test accepts
  everything the rational test `a/b ≥ t` accepts (`float_pass_of_rational_pass`), and the only
  other scores it accepts are those that ROUND ONTO `t` (`float_test_char`).  That second case
  exists: `t = fl(1/10) > 1/10` and the score `1/10` (`float_tie_counterexample`).
* For a threshold that is itself the correctly rounded value of a rational `c/d` -- a decimal typed
  on the command line (`float("0.08") = fl(8/100)`), or a score boundary `n/d` -- the float test
  is EXACTLY the comparison of the two rationals `a/b ≥ c/d`, as long as `c * b < 2^51`
  (`float_test_eq_rational`): two different rationals with such small cross products never round
  to the same double.
-/
import SmVerif.Lemmas.CompareFloat

namespace Sm.F64

/-- a value at least a double `M · 2^E` (`M < 2^53`) rounds to at least that double -/
theorem IsRN.ge_double {x v : ℚ} {M : Nat} {E : Int} (h : IsRN x v) (hM0 : 0 < M) (hM : M < 2 ^ 53)
    (hx : (M : ℚ) * 2 ^ E ≤ x) : (M : ℚ) * 2 ^ E ≤ v := by
  have hs := h.scale (-E)
  have hE : (0 : ℚ) < 2 ^ E := two_zpow_pos E
  have hE' : (0 : ℚ) < 2 ^ (-E) := two_zpow_pos (-E)
  have hinv : (2 : ℚ) ^ E * 2 ^ (-E) = 1 := by rw [← zpow_add₀ two_ne_zero]; simp
  have hx' : (M : ℚ) ≤ x * 2 ^ (-E) := by
    have := mul_le_mul_of_nonneg_right hx hE'.le
    rwa [mul_assoc, hinv, mul_one] at this
  have := hs.ge_nat hM0 hM hx'
  have h2 := mul_le_mul_of_nonneg_right this hE.le
  rwa [mul_assoc, mul_comm (2 ^ (-E)) (2 ^ E), hinv, mul_one] at h2

/-- **the float test is at least as permissive as the rational test**, for any double threshold -/
theorem float_pass_of_rational_pass {a b : Nat} (ha : 0 < a) (hb : 0 < b) (t : F) (ht : t.m < 2 ^ 53)
    (h : t.val ≤ (a : ℚ) / b) : ge (divNat a b) t = true := by
  rw [ge_iff_val]
  by_cases h0 : t.m = 0
  · rw [val_zero_mant h0]; exact F.val_nonneg _
  · exact (isRN_divNat ha hb).ge_double (Nat.pos_of_ne_zero h0) ht h

/-- … and a score below the threshold never rounds above it -/
theorem float_le_of_rational_le {a b : Nat} (ha : 0 < a) (hb : 0 < b) (t : F) (h0 : 0 < t.m) (ht : t.m < 2 ^ 53)
    (h : (a : ℚ) / b ≤ t.val) : (divNat a b).val ≤ t.val :=
  (isRN_divNat ha hb).le_double h0 ht h

/-- **characterisation for an arbitrary double threshold**: the float test passes iff the rational
test passes or the score rounds exactly onto the threshold -/
theorem float_test_char {a b : Nat} (ha : 0 < a) (hb : 0 < b) (t : F) (h0 : 0 < t.m) (ht : t.m < 2 ^ 53) :
    ge (divNat a b) t = true ↔ (t.val ≤ (a : ℚ) / b ∨ (divNat a b).val = t.val) := by
  constructor
  · intro h
    rw [ge_iff_val] at h
    by_cases hc : t.val ≤ (a : ℚ) / b
    · exact Or.inl hc
    · right
      have := float_le_of_rational_le ha hb t h0 ht (le_of_lt (not_le.1 hc))
      exact le_antisymm this h
  · rintro (h | h)
    · exact float_pass_of_rational_pass ha hb t ht h
    · rw [ge_iff_val, h]

/-- the tie exists: the double nearest to 1/10 is above 1/10; a score of exactly 1/10 passes the
float test against it although 1/10 is below that threshold as a real number -/
theorem float_tie_counterexample :
    ge (divNat 1 10) (divNat 1 10) = true ∧ (1 : ℚ) / 10 < (divNat 1 10).val ∧ (divNat 1 10).m < 2 ^ 53 := by
  have e : divNat 1 10 = ⟨7205759403792794, -56⟩ := by decide +kernel
  refine ⟨ge_refl _, ?_, by rw [e]; decide⟩
  rw [e]
  simp only [F.val]
  norm_num

/-- two different rationals with a small cross product do not round to the same double -/
theorem divNat_strict_mono_cross {a b c d : Nat} (ha : 0 < a) (hb : 0 < b) (hc : 0 < c) (hd : 0 < d)
    (hlt : a * d < c * b) (hsmall : c * b < 2 ^ 51) : (divNat a b).val < (divNat c d).val := by
  have hx := isRN_divNat ha hb
  have hy := isRN_divNat hc hd
  have hbq : (0 : ℚ) < b := by exact_mod_cast hb
  have hdq : (0 : ℚ) < d := by exact_mod_cast hd
  have hcq : (0 : ℚ) < c := by exact_mod_cast hc
  have hxy : (a : ℚ) / b < c / d := by
    rw [div_lt_div_iff₀ hbq hdq]; exact_mod_cast hlt
  have hle := IsRN.mono hxy hx hy
  rcases lt_or_eq_of_le hle with h | h
  · exact h
  · exfalso
    obtain ⟨r1, p1⟩ := hx.rel
    obtain ⟨r2, _⟩ := hy.rel
    rw [h] at r1 p1
    generalize (divNat c d).val = v at *
    rw [abs_le] at r1 r2
    -- y - x ≥ 1/(b d), and both lie within v/2^53 of v, v ≤ 2 y
    have hgap : (1 : ℚ) / (b * d) ≤ c / d - a / b := by
      have hn : (a : ℚ) * d + 1 ≤ c * b := by exact_mod_cast hlt
      have e : (c : ℚ) / d - a / b = (c * b - a * d) / (b * d) := by field_simp
      rw [e]
      apply div_le_div_of_nonneg_right _ (by positivity)
      linarith
    have hv2 : v ≤ 2 * (c / d) := by
      have : v * (1 - 1 / 2 ^ 53) ≤ c / d := by linarith [r2.2]
      norm_num at this ⊢
      linarith
    have hclose : (c : ℚ) / d - a / b ≤ v / 2 ^ 52 := by
      have : (2 : ℚ) ^ 53 = 2 * 2 ^ 52 := by norm_num
      rw [this] at r1 r2
      have e : v / (2 * 2 ^ 52) = v / 2 ^ 52 / 2 := by ring
      rw [e] at r1 r2
      linarith [r1.1, r2.2]
    have hsm : (c : ℚ) * b < 2 ^ 51 := by exact_mod_cast hsmall
    -- 1/(b d) ≤ 2 (c/d) / 2^52  ⇒  2^51 ≤ c b
    have : (1 : ℚ) / (b * d) ≤ 2 * (c / d) / 2 ^ 52 := by
      calc (1 : ℚ) / (b * d) ≤ c / d - a / b := hgap
        _ ≤ v / 2 ^ 52 := hclose
        _ ≤ 2 * (c / d) / 2 ^ 52 := by apply div_le_div_of_nonneg_right hv2; positivity
    have e : 2 * ((c : ℚ) / d) / 2 ^ 52 = (2 * c * b) / (2 ^ 52 * (b * d)) := by field_simp
    rw [e, div_le_div_iff₀ (by positivity) (by positivity)] at this
    have h4 : (2 : ℚ) ^ 52 ≤ 2 * c * b := by
      have hbd : (0 : ℚ) < b * d := by positivity
      have : (2 : ℚ) ^ 52 * (b * d) ≤ 2 * c * b * (b * d) := by linarith
      exact le_of_mul_le_mul_right this hbd
    norm_num at h4 hsm
    linarith

/-- **thresholds that are correctly rounded rationals**: the float test IS the comparison of the
rationals (cross-multiplied), boundaries included -/
theorem float_test_eq_rational {a b c d : Nat} (ha : 0 < a) (hb : 0 < b) (hc : 0 < c) (hd : 0 < d)
    (ha53 : a < 2 ^ 53) (hsmall : c * b < 2 ^ 51) :
    ge (divNat a b) (divNat c d) = true ↔ c * b ≤ a * d := by
  rw [ge_iff_val]
  have hbq : (0 : ℚ) < b := by exact_mod_cast hb
  have hdq : (0 : ℚ) < d := by exact_mod_cast hd
  constructor
  · intro h
    by_contra hlt
    have := divNat_strict_mono_cross ha hb hc hd (by omega) hsmall
    linarith
  · intro h
    have hyx : (c : ℚ) / d ≤ a / b := by
      rw [div_le_div_iff₀ hdq hbq]; exact_mod_cast h
    exact IsRN.mono_le ha53 hb hyx (isRN_divNat hc hd) (isRN_divNat ha hb)

end Sm.F64
