/-
Order facts about the exact binary64 model: `F64.ge` compares the rationals the two
doubles stand for, and integers below 2^53 convert exactly (hence monotonically).
-/
import SmVerif.Lemmas.Float64Lemmas
import SmVerif.Lemmas.SearchFloat
import Mathlib.Tactic.Linarith

set_option autoImplicit false

namespace Sm.F64

theorem val_eq_shift (x : F) (emin : Int) (h : emin ≤ x.e) :
    x.val = ((x.m * 2 ^ (x.e - emin).toNat : Nat) : ℚ) * (2 : ℚ) ^ emin := by
  unfold F.val
  have e1 : x.e = ((x.e - emin).toNat : Int) + emin := by
    have : 0 ≤ x.e - emin := by omega
    rw [Int.toNat_of_nonneg this]; ring
  conv_lhs => rw [e1]
  rw [zpow_add₀ (two_ne_zero), zpow_natCast]
  push_cast
  ring

/-- `ge` decides the order of the denoted rationals -/
theorem ge_iff (x y : F) : ge x y = true ↔ y.val ≤ x.val := by
  unfold ge
  simp only [decide_eq_true_eq]
  have hx := val_eq_shift x (min x.e y.e) (min_le_left _ _)
  have hy := val_eq_shift y (min x.e y.e) (min_le_right _ _)
  rw [hx, hy]
  have hpos : (0 : ℚ) < 2 ^ (min x.e y.e) := two_zpow_pos _
  constructor
  · intro h
    have : ((y.m * 2 ^ (y.e - min x.e y.e).toNat : Nat) : ℚ) ≤ ((x.m * 2 ^ (x.e - min x.e y.e).toNat : Nat) : ℚ) := by
      exact_mod_cast h
    exact mul_le_mul_of_nonneg_right this hpos.le
  · intro h
    have := le_of_mul_le_mul_right h hpos
    exact_mod_cast this

theorem ofNat_zero_val : (ofNat 0).val = 0 := by
  have : ofNat 0 = ⟨0, 0⟩ := by decide
  rw [this]; simp [F.val]

theorem ofNat_val {n : Nat} (h : n < 2 ^ 53) : (ofNat n).val = n := by
  rcases Nat.eq_zero_or_pos n with rfl | h0
  · rw [ofNat_zero_val]; simp
  · exact (ofNat_exact n h0 h).1

-- `ge_trans`, `ge_total`, `ge_refl`: `Lemmas/SearchFloat.lean` (C06), same namespace

/-- integers below 2^53: `float(a) >= t` is monotone in `a` -/
theorem ge_ofNat_mono {a b : Nat} (hab : a ≤ b) (hb : b < 2 ^ 53) {t : F}
    (h : ge (ofNat a) t = true) : ge (ofNat b) t = true := by
  rw [ge_iff] at *
  rw [ofNat_val hb]
  rw [ofNat_val (by omega)] at h
  have : (a : ℚ) ≤ b := by exact_mod_cast hab
  linarith

theorem not_ge_iff (x y : F) : ge x y = false ↔ x.val < y.val := by
  rw [← Bool.not_eq_true, ge_iff]; exact not_le

theorem divNat_zero_val (n : Nat) : (divNat 0 n).val = 0 := by
  unfold divNat
  simp [F.val]

/-- two-sided bound of a correctly rounded quotient -/
theorem divNat_bounds (a b : Nat) (ha : 0 < a) (hb : 0 < b) :
    (divNat a b).val * (1 - 1 / 2 ^ 53) ≤ (a : ℚ) / b ∧ (a : ℚ) / b ≤ (divNat a b).val * (1 + 1 / 2 ^ 53) := by
  have h := (divNat_spec a b ha hb).2.2
  rw [abs_le] at h
  constructor <;> nlinarith [h.1, h.2]

/-- **strict monotonicity of `fl(k / n)` in `k`** for integers below `2^50`: consecutive integers are much
further apart (relatively) than the rounding error -/
theorem divNat_strict_mono {a b n : Nat} (hab : a < b) (hb : b < 2 ^ 50) (hn : 0 < n) :
    (divNat a n).val < (divNat b n).val := by
  have hbpos : 0 < b := by omega
  obtain ⟨_, hb2⟩ := divNat_bounds b n hbpos hn
  have hnq : (0 : ℚ) < n := by exact_mod_cast hn
  rcases Nat.eq_zero_or_pos a with rfl | ha
  · rw [divNat_zero_val]
    have : (0 : ℚ) < (b : ℚ) / n := by positivity
    have h1 : (0 : ℚ) < 1 + 1 / 2 ^ 53 := by norm_num
    by_contra hc
    push_neg at hc
    have : (divNat b n).val * (1 + 1 / 2 ^ 53) ≤ 0 := mul_nonpos_of_nonpos_of_nonneg hc h1.le
    linarith
  · obtain ⟨ha1, _⟩ := divNat_bounds a n ha hn
    have haq : (a : ℚ) + 1 ≤ b := by exact_mod_cast hab
    have hbq : (b : ℚ) < 2 ^ 50 := by exact_mod_cast hb
    have hapos : (0 : ℚ) < a := by exact_mod_cast ha
    -- V_a (1 - ε) ≤ a/n  and  b/n ≤ V_b (1 + ε)
    have e1 : (0 : ℚ) < 1 - 1 / 2 ^ 53 := by norm_num
    have e2 : (0 : ℚ) < 1 + 1 / 2 ^ 53 := by norm_num
    have hVa : (divNat a n).val ≤ (a : ℚ) / n / (1 - 1 / 2 ^ 53) := by
      rw [le_div_iff₀ e1]; exact ha1
    have hVb : (b : ℚ) / n / (1 + 1 / 2 ^ 53) ≤ (divNat b n).val := by
      rw [div_le_iff₀ e2]; exact hb2
    have key : (a : ℚ) / n / (1 - 1 / 2 ^ 53) < (b : ℚ) / n / (1 + 1 / 2 ^ 53) := by
      rw [div_lt_div_iff₀ e1 e2, div_mul_eq_mul_div, div_mul_eq_mul_div, div_lt_div_iff_of_pos_right hnq]
      nlinarith
    linarith

end Sm.F64
