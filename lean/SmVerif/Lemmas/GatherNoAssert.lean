/-
C07, the two `assert`s of `CounterGather.peek` after the lazy-refresh fix (finding D25, fixed upstream).

Before the fix a counter taken at a finer resolution than the one `peek` works at could be stale: `peek`
picked the entry, computed a containment of 0 for it and `assert cont` failed.  The patched `peek` re-counts
the entry it is about to return and accepts it only when the counter is exact, so the entry it returns
always has `|intersect_mh| = counter ≠ 0`.

This file proves, for a prefetch-mode run over ANY database (scaled values mixed freely), that no call of
`__next__` ends in an `AssertionError`:
* the first assert (`assert cont`, the one D25 hit) is unreachable given only that a non-empty overlap has a
  non-zero containment (`AssertLaws.nonzero`);
* the second assert (`assert cont >= threshold`) compares `contained_by` (libm `pow`) with a threshold that
  went through two float divisions; that an overlap which is not below `n_threshold_hashes` scores at least
  `threshold` is `AssertLaws.above`.  It is PROVED here (`assertLaws_of_debias`) from the monotonicity of the
  correctly rounded quotient (C06) for every score arithmetic whose containment is at least the plain double
  quotient `fl(c/d)` (`DebiasLaws.dominates`) -- the one statement that depends on libm `pow`: de-biasing
  divides by `1 − (1 − 1/s)^(d·s)`, which is `≤ 1` iff `pow` returns a value in `[0, 1]`.  `plainOps` (the
  double quotient without de-biasing, which is what the code computes once the bias factor rounds to 1.0)
  satisfies it for every threshold; `ratOps` / `qOps` (exact values) satisfy `AssertLaws` for threshold 0;
* the `assert`s of `GatherResult` (non-empty unique intersection) and of `__next__` (`match.scaled`) are
  unreachable because the returned intersection is non-empty at the counter's resolution, hence at the
  (finer or equal) resolution of the result.
-/
import SmVerif.Lemmas.GatherMixed
import SmVerif.Lemmas.GatherInit
import SmVerif.Lemmas.GatherExamples
import SmVerif.Lemmas.GatherDebias
import SmVerif.Lemmas.GatherThreshold

set_option autoImplicit false

namespace Sm.Gather

open Sm

variable {σ : Type} {ops : ScoreOps σ}

/-- what the two `assert`s of `peek` need from the score arithmetic, for a given `threshold_bp` -/
structure AssertLaws (ops : ScoreOps σ) (thrBp : Nat) : Prop where
  /-- a non-empty overlap has a non-zero containment -/
  nonzero : ∀ c d s : Nat, c ≠ 0 → c ≤ d → 1 ≤ s → ops.isZero (ops.contained c d s) = false
  /-- an overlap at least as large as one that is not below `n_threshold_hashes` scores at least `threshold` -/
  above : ∀ (c k d s : Nat) (t nT : F64.F), calcThreshold thrBp s d = .ok (t, nT) →
    belowThreshold (k : Int) nT = false → k ≠ 0 → k ≤ c → c ≤ d → 1 ≤ s → s ≤ 2 ^ 31 → d < 2 ^ 53 →
    ops.ge (ops.contained c d s) (ops.ofF t) = true

/-! ### the sketch operations never raise `AssertionError` -/

theorem LS.ds_na (x : LS) (sc : Nat) : LS.ds x sc ≠ .error .assertion := by
  unfold LS.ds; split <;> simp

theorem LS.and_na (a b : LS) : LS.and a b ≠ .error .assertion := by
  unfold LS.and
  split
  · simp
  · split <;> simp

theorem LS.cc_ok (a b : LS) : ∃ n, LS.cc a b = .ok n := by
  unfold LS.cc
  split
  · exact ⟨_, rfl⟩
  · split <;> exact ⟨_, rfl⟩

theorem abSum_na (d : List (Nat × Nat)) : ∀ ks : List Nat, abSum d ks ≠ .error .assertion := by
  intro ks
  induction ks with
  | nil => simp [abSum]
  | cons k ks ih =>
    intro h
    simp only [abSum, abLookup] at h
    cases hl : d.lookup k with
    | none => rw [hl] at h; cases h
    | some v =>
      rw [hl] at h
      simp only [] at h
      cases hs : abSum d ks with
      | error e => rw [hs] at h; cases h; exact ih hs
      | ok s => rw [hs] at h; cases h

theorem containedBy_na (a b : LS) : containedBy lsOps ops a b ≠ .error .assertion := by
  unfold containedBy
  split
  · simp
  · split
    · simp
    · obtain ⟨n, hn⟩ := LS.cc_ok a b
      rw [lsOps_cc, hn]
      simp

theorem calcThreshold_na (thr s n : Nat) : calcThreshold thr s n ≠ .error .assertion := by
  unfold calcThreshold
  split
  · simp
  · split
    · simp
    · simp only []
      split <;> simp

theorem ovl_mono_right {Q D D' : List Nat} (h : ∀ x, x ∈ D → x ∈ D') : ovl Q D ≤ ovl Q D' := by
  unfold ovl
  apply List.Sublist.length_le
  apply List.monotone_filter_right
  intro x hx
  exact inL_iff.2 (h x (inL_iff.1 hx))

/-- `count_common(downsample=True)` against a finer (or equal) sketch counts at least the overlap at the
coarser resolution (exactly that when the finer sketch is within its own bound) -/
theorem LS.cc_lower {a b : LS} (ha : Sorted a.hs) (hb : Sorted b.hs) (h : b.scaled ≤ a.scaled) :
    ∃ c, LS.cc a b = .ok c ∧ ovl a.hs (dn a.scaled b.hs) ≤ c ∧ c ≤ a.hs.length := by
  unfold LS.cc
  by_cases he : a.scaled = b.scaled
  · rw [if_pos he, interL_eq_filter _ _ ha hb]
    exact ⟨_, rfl, ovl_mono_right (fun x hx => (mem_dn.1 hx).1), ovl_le _ _⟩
  · rw [if_neg he, if_pos (by omega), interL_eq_filter _ _ ha (hb.filter _)]
    exact ⟨_, rfl, Nat.le_refl _, ovl_le _ _⟩

/-! ### `peek` -/

/-- an entry of a counter: sorted sketch, positive scaled, non-zero counter -/
def EntOK (e : CEntry LS) : Prop := Sorted e.sig.mh.hs ∧ 1 ≤ e.sig.mh.scaled ∧ e.count ≠ 0

theorem mem_setCount_cases {md5 : Nat} {v : Int} : ∀ {es : List (CEntry LS)} {e : CEntry LS},
    e ∈ setCount md5 v es → e ∈ es ∨ ∃ x ∈ es, e = { x with count := v } := by
  intro es
  induction es with
  | nil => intro e h; cases h
  | cons x xs ih =>
    intro e h
    simp only [setCount] at h
    split at h
    · rcases List.mem_cons.1 h with rfl | h
      · exact Or.inr ⟨x, List.mem_cons_self, rfl⟩
      · exact Or.inl (List.mem_cons_of_mem _ h)
    · rcases List.mem_cons.1 h with rfl | h
      · exact Or.inl List.mem_cons_self
      · rcases ih h with h | ⟨y, hy, rfl⟩
        · exact Or.inl (List.mem_cons_of_mem _ h)
        · exact Or.inr ⟨y, List.mem_cons_of_mem _ hy, rfl⟩

theorem peekLoop_na {cur : LS} {s : Nat} {nT : F64.F} :
    ∀ (fuel : Nat) (es : List (CEntry LS)), peekLoop lsOps cur s nT fuel es ≠ .error .assertion := by
  intro fuel
  induction fuel with
  | zero => intro es; simp [peekLoop]
  | succ n ih =>
    intro es h
    unfold peekLoop at h
    split at h
    · cases h
    · split at h
      · cases h
      · rw [lsOps_dsF] at h
        cases hd : LS.ds (‹CEntry LS›).sig.mh s with
        | error e => rw [hd] at h; cases h; exact LS.ds_na _ _ hd
        | ok m =>
          rw [hd] at h
          simp only [lsOps_flat, lsOps_and] at h
          cases ha : LS.and cur m.flat with
          | error e => rw [ha] at h; cases h; exact LS.and_na _ _ ha
          | ok inter =>
            rw [ha] at h
            simp only [] at h
            split at h
            · cases h
            · split at h
              · exact ih _ h
              · exact ih _ h

/-- the lazy-refresh loop keeps the entries well-formed with non-zero counters, and an entry it returns
carries an exact, non-zero counter -/
theorem peekLoop_nz {cur : LS} {s : Nat} {nT : F64.F} (hcs : Sorted cur.hs) :
    ∀ (fuel : Nat) {es es' : List (CEntry LS)} {r : Option (CEntry LS × LS)},
      (∀ e ∈ es, EntOK e) → peekLoop lsOps cur s nT fuel es = .ok (es', r) →
      (∀ e ∈ es', EntOK e) ∧
      ∀ best inter, r = some (best, inter) → EntOK best ∧ best.sig.mh.scaled ≤ s ∧ cur.scaled = s ∧
        belowThreshold best.count nT = false ∧
        inter.hs = cur.hs.filter (inL (dn s best.sig.mh.hs)) ∧ ((inter.hs.length : Nat) : Int) = best.count := by
  intro fuel
  induction fuel with
  | zero => intro es es' r _ h; simp [peekLoop] at h
  | succ n ih =>
    intro es es' r hent h
    unfold peekLoop at h
    cases hm : mostCommon es with
    | none =>
      rw [hm] at h
      simp only [Except.ok.injEq, Prod.mk.injEq] at h
      obtain ⟨rfl, rfl⟩ := h
      exact ⟨hent, fun _ _ hx => nomatch hx⟩
    | some best =>
      rw [hm] at h
      simp only [] at h
      have hbm := (mostCommon_some hm).1
      by_cases hbelow : belowThreshold best.count nT = true
      · rw [if_pos hbelow] at h
        simp only [Except.ok.injEq, Prod.mk.injEq] at h
        obtain ⟨rfl, rfl⟩ := h
        exact ⟨hent, fun _ _ hx => nomatch hx⟩
      · rw [if_neg hbelow, lsOps_dsF] at h
        cases hd : LS.ds best.sig.mh s with
        | error e => rw [hd] at h; cases h
        | ok m =>
          rw [hd] at h
          simp only [lsOps_flat, lsOps_and] at h
          obtain ⟨m1, m2, _⟩ := LS.ds_hs hd
          have hle := LS.ds_le hd
          cases ha : LS.and cur m.flat with
          | error e => rw [ha] at h; cases h
          | ok inter =>
            rw [ha] at h
            simp only [] at h
            have hms : Sorted m.flat.hs := by
              show Sorted m.hs
              rw [m2]; exact sorted_dn (hent best hbm).1 s
            obtain ⟨_, _, a3, a4⟩ := LS.and_ok hcs hms ha
            have hih : inter.hs = cur.hs.filter (inL (dn s best.sig.mh.hs)) := by
              rw [a4]
              show cur.hs.filter (inL m.hs) = _
              rw [m2]
            by_cases hlen : ((len lsOps inter : Nat) : Int) = best.count
            · rw [if_pos hlen] at h
              simp only [Except.ok.injEq, Prod.mk.injEq] at h
              obtain ⟨rfl, rfl⟩ := h
              refine ⟨hent, ?_⟩
              intro b i hx
              simp only [Option.some.injEq, Prod.mk.injEq] at hx
              obtain ⟨rfl, rfl⟩ := hx
              refine ⟨hent _ hbm, hle, ?_, by simpa using hbelow, hih, hlen⟩
              have : m.flat.scaled = s := m1
              omega
            · rw [if_neg hlen] at h
              by_cases hz : len lsOps inter ≠ 0
              · rw [if_pos hz] at h
                refine ih ?_ h
                intro e he
                rcases mem_setCount_cases he with he | ⟨x, hx, rfl⟩
                · exact hent e he
                · obtain ⟨x1, x2, _⟩ := hent x hx
                  exact ⟨x1, x2, by simpa using hz⟩
              · rw [if_neg hz] at h
                refine ih ?_ h
                intro e he
                exact hent e (mem_delEntry he)

/-- invariant of a prefetch counter that needs no relation between scaled values -/
structure CNZ (c : Counter LS) : Prop where
  scaled_le : c.scaled ≤ 2 ^ 31
  ent : ∀ e ∈ c.entries, EntOK e

/-- a `peek` result that hits the current query at some resolution `s` at least as coarse as both sides -/
def Hit (cur : LS) (x : σ × Sig LS × LS) : Prop :=
  Sorted x.2.1.mh.hs ∧ 1 ≤ x.2.1.mh.scaled ∧ ∃ s, x.2.1.mh.scaled ≤ s ∧ cur.scaled ≤ s ∧ s ≤ 2 ^ 31 ∧
    ∃ h, h ∈ dn s cur.hs ∧ h ∈ dn s x.2.1.mh.hs

/-- what a successful `peek` returns -/
theorem Counter.peek_hit {c c' : Counter LS} {cur : LS} {thr : Nat} {r : Option (σ × Sig LS × LS)}
    (hc : CNZ c) (hcs : Sorted cur.hs) (hcur : cur.scaled ≤ 2 ^ 31)
    (h : c.peek lsOps ops cur thr = .ok (c', r)) :
    CNZ c' ∧ ∀ x, r = some x → Hit cur x := by
  unfold Counter.peek at h
  by_cases hem : c.entries.isEmpty = true
  · rw [if_pos hem] at h
    simp only [Except.ok.injEq, Prod.mk.injEq] at h
    obtain ⟨rfl, rfl⟩ := h
    exact ⟨hc, fun _ hx => nomatch hx⟩
  rw [if_neg hem] at h
  simp only [lsOps_scaled, lsOps_dsF] at h
  have hsle : max c.scaled cur.scaled ≤ 2 ^ 31 := max_le hc.scaled_le hcur
  rw [LS.ds_eq (le_max_right _ _)] at h
  simp only [] at h
  have hnone : CNZ { c with scaled := max c.scaled cur.scaled } := ⟨hsle, hc.ent⟩
  split at h
  · simp only [Except.ok.injEq, Prod.mk.injEq] at h
    obtain ⟨rfl, rfl⟩ := h
    exact ⟨hnone, fun _ hx => nomatch hx⟩
  · split at h
    · cases h
    · split at h
      · cases h
      · split at h
        · simp only [Except.ok.injEq, Prod.mk.injEq] at h
          obtain ⟨rfl, rfl⟩ := h
          exact ⟨hnone, fun _ hx => nomatch hx⟩
        · cases h
        · rename_i t nT _
          have hds : Sorted (cur.dsv (max c.scaled cur.scaled)).hs := sorted_dn hcs _
          split at h
          · cases h
          · rename_i es hl
            obtain ⟨l1, _⟩ := peekLoop_nz hds _ hc.ent hl
            simp only [Except.ok.injEq, Prod.mk.injEq] at h
            obtain ⟨rfl, rfl⟩ := h
            exact ⟨⟨hsle, l1⟩, fun _ hx => nomatch hx⟩
          · rename_i es best inter hl
            obtain ⟨l1, l2⟩ := peekLoop_nz hds _ hc.ent hl
            obtain ⟨⟨b1, b2, b3⟩, b4, _, _, b7, b8⟩ := l2 best inter rfl
            split at h
            · cases h
            · split at h
              · cases h
              · split at h
                · cases h
                · simp only [Except.ok.injEq, Prod.mk.injEq] at h
                  obtain ⟨rfl, rfl⟩ := h
                  refine ⟨⟨hsle, l1⟩, ?_⟩
                  intro x hx
                  cases hx
                  refine ⟨b1, b2, max c.scaled cur.scaled, b4, le_max_right _ _, hsle, ?_⟩
                  have hne : inter.hs ≠ [] := by
                    intro he
                    rw [he] at b8
                    exact b3 b8.symm
                  obtain ⟨y, hy⟩ := List.exists_mem_of_ne_nil _ hne
                  rw [b7] at hy
                  obtain ⟨y1, y2⟩ := List.mem_filter.1 hy
                  exact ⟨y, y1, inL_iff.1 y2⟩

/-- **the patched `peek` raises no `AssertionError`** on a counter whose entries have non-zero counters -/
theorem Counter.peek_na {thr : Nat} (laws : AssertLaws ops thr) {c : Counter LS} {cur : LS}
    (hc : CNZ c) (hcs : Sorted cur.hs) (hcur : cur.scaled ≤ 2 ^ 31) (hlen : cur.hs.length < 2 ^ 53) :
    c.peek lsOps ops cur thr ≠ .error .assertion := by
  intro h
  unfold Counter.peek at h
  by_cases hem : c.entries.isEmpty = true
  · rw [if_pos hem] at h; cases h
  rw [if_neg hem] at h
  simp only [lsOps_scaled, lsOps_dsF] at h
  rw [LS.ds_eq (le_max_right _ _)] at h
  simp only [] at h
  split at h
  · cases h
  · rename_i hlen0
    split at h
    · rename_i e hce
      cases h
      exact containedBy_na _ _ hce
    · split at h
      · cases h
      · split at h
        · cases h
        · rename_i e _ hct
          cases h
          exact calcThreshold_na _ _ _ hct
        · rename_i t nT hct
          have hds : Sorted (cur.dsv (max c.scaled cur.scaled)).hs := sorted_dn hcs _
          split at h
          · rename_i e hl
            cases h
            exact peekLoop_na _ _ hl
          · cases h
          · rename_i es best inter hl
            obtain ⟨_, l2⟩ := peekLoop_nz hds _ hc.ent hl
            obtain ⟨⟨b1, b2, b3⟩, b4, _, b6, b7, b8⟩ := l2 best inter rfl
            -- the containment of the accepted entry
            obtain ⟨cc, hcc, hcc1, hcc2⟩ := LS.cc_lower (a := cur.dsv (max c.scaled cur.scaled)) hds b1 b4
            have hk : inter.hs.length ≤ cc := by
              rw [b7]
              exact hcc1
            have hcont : containedBy lsOps ops (cur.dsv (max c.scaled cur.scaled)) best.sig.mh =
                .ok (ops.contained cc (cur.dsv (max c.scaled cur.scaled)).hs.length (max c.scaled cur.scaled)) := by
              unfold containedBy
              rw [if_neg (by
                simp only [lsOps_scaled, LS.dsv_scaled]
                omega), if_neg hlen0, lsOps_cc, hcc]
              rfl
            rw [hcont] at h
            simp only [] at h
            have hk0 : inter.hs.length ≠ 0 := by
              intro he
              rw [he] at b8
              exact b3 b8.symm
            have hs1 : 1 ≤ max c.scaled cur.scaled := le_trans b2 b4
            have hz := laws.nonzero cc (cur.dsv (max c.scaled cur.scaled)).hs.length (max c.scaled cur.scaled)
              (by omega) hcc2 hs1
            rw [hz] at h
            simp only [Bool.false_eq_true, if_false] at h
            have hge := laws.above cc inter.hs.length (cur.dsv (max c.scaled cur.scaled)).hs.length
              (max c.scaled cur.scaled) t nT hct (by rw [b8]; exact b6) hk0 hk hcc2 hs1
              (max_le hc.scaled_le hcur)
              (lt_of_le_of_lt (by rw [LS.dsv_hs]; exact List.length_filter_le _ _) hlen)
            rw [hge] at h
            simp at h

/-! ### `consume` -/

theorem consumeEntries_ok (inter : LS) : ∀ es : List (CEntry LS), ∃ es', consumeEntries lsOps inter es = .ok es' := by
  intro es
  induction es with
  | nil => exact ⟨_, rfl⟩
  | cons e rest ih =>
    obtain ⟨rest', hr⟩ := ih
    obtain ⟨k, hk⟩ := LS.cc_ok inter e.sig.mh
    simp only [consumeEntries, lsOps_cc, hk, hr]
    split
    · split <;> exact ⟨_, rfl⟩
    · exact ⟨_, rfl⟩

theorem consumeEntries_nz {inter : LS} : ∀ {es es' : List (CEntry LS)}, (∀ e ∈ es, EntOK e) →
    consumeEntries lsOps inter es = .ok es' → ∀ e ∈ es', EntOK e := by
  intro es
  induction es with
  | nil => intro es' _ h; simp only [consumeEntries, Except.ok.injEq] at h; subst h; intro e he; cases he
  | cons e rest ih =>
    intro es' hent h
    obtain ⟨rest', hr⟩ := consumeEntries_ok inter rest
    obtain ⟨k, hk⟩ := LS.cc_ok inter e.sig.mh
    simp only [consumeEntries, lsOps_cc, hk, hr] at h
    have hrest := ih (fun x hx => hent x (List.mem_cons_of_mem _ hx)) hr
    obtain ⟨e1, e2, e3⟩ := hent e List.mem_cons_self
    split at h
    · split at h
      · cases h; exact hrest
      · rename_i hne
        cases h
        intro x hx
        rcases List.mem_cons.1 hx with rfl | hx
        · exact ⟨e1, e2, hne⟩
        · exact hrest x hx
    · cases h
      intro x hx
      rcases List.mem_cons.1 hx with rfl | hx
      · exact ⟨e1, e2, e3⟩
      · exact hrest x hx

theorem Counter.consume_nz {c : Counter LS} (inter : LS) (hc : CNZ c) :
    ∃ c', c.consume lsOps inter = .ok c' ∧ CNZ c' := by
  unfold Counter.consume
  split
  · exact ⟨c, rfl, hc⟩
  · obtain ⟨es', hes⟩ := consumeEntries_ok inter c.entries
    rw [hes]
    exact ⟨_, rfl, ⟨hc.scaled_le, consumeEntries_nz hc.ent hes⟩⟩

/-! ### `_find_best` over prefetch counters -/

/-- a `CounterGather` with the invariant -/
def CGOK (o : CObj LS) : Prop := ∃ c, o = .cg c ∧ CNZ c

theorem better_hit {cur : LS} {r acc : Option (σ × Sig LS × LS)}
    (hr : ∀ x, r = some x → Hit cur x) (ha : ∀ x, acc = some x → Hit cur x) :
    ∀ x, better ops r acc = some x → Hit cur x := by
  intro x hx
  cases r with
  | none => exact ha x (by simpa [better] using hx)
  | some y =>
    cases acc with
    | none => exact hr x (by simpa [better] using hx)
    | some b =>
      simp only [better] at hx
      split at hx
      · exact hr x hx
      · exact ha x hx

theorem peekAll_nz {thr : Nat} (laws : AssertLaws ops thr) {cur : LS} (hcs : Sorted cur.hs)
    (hcur : cur.scaled ≤ 2 ^ 31) (hlen : cur.hs.length < 2 ^ 53) :
    ∀ (cs : List (CObj LS)) (acc : Option (σ × Sig LS × LS)), (∀ o ∈ cs, CGOK o) →
      (∀ x, acc = some x → Hit cur x) →
      peekAll lsOps ops cur thr cs acc ≠ .error .assertion ∧
      ∀ cs' best, peekAll lsOps ops cur thr cs acc = .ok (cs', best) →
        (∀ o ∈ cs', CGOK o) ∧ ∀ x, best = some x → Hit cur x := by
  intro cs
  induction cs with
  | nil =>
    intro acc _ hacc
    refine ⟨by simp [peekAll], ?_⟩
    intro cs' best h
    simp only [peekAll, Except.ok.injEq, Prod.mk.injEq] at h
    obtain ⟨rfl, rfl⟩ := h
    exact ⟨fun o ho => (nomatch ho), hacc⟩
  | cons o rest ih =>
    intro acc hcg hacc
    obtain ⟨c, rfl, hc⟩ := hcg o List.mem_cons_self
    have hrest : ∀ o ∈ rest, CGOK o := fun o ho => hcg o (List.mem_cons_of_mem _ ho)
    simp only [peekAll, CObj.peek]
    cases hp : c.peek lsOps ops cur thr with
    | error e =>
      simp only []
      refine ⟨?_, fun _ _ h => nomatch h⟩
      intro h
      cases h
      exact Counter.peek_na laws hc hcs hcur hlen hp
    | ok pr =>
      obtain ⟨c', r⟩ := pr
      simp only []
      obtain ⟨hc', hr⟩ := Counter.peek_hit hc hcs hcur hp
      obtain ⟨i1, i2⟩ := ih (better ops r acc) hrest (better_hit hr hacc)
      cases hra : peekAll lsOps ops cur thr rest (better ops r acc) with
      | error e =>
        simp only []
        refine ⟨?_, fun _ _ h => nomatch h⟩
        intro h
        cases h
        exact i1 hra
      | ok rr =>
        obtain ⟨rest', b⟩ := rr
        simp only []
        refine ⟨by simp, ?_⟩
        intro cs' best h
        simp only [Except.ok.injEq, Prod.mk.injEq] at h
        obtain ⟨rfl, rfl⟩ := h
        obtain ⟨j1, j2⟩ := i2 _ _ hra
        refine ⟨?_, j2⟩
        intro o ho
        rcases List.mem_cons.1 ho with rfl | ho
        · exact ⟨c', rfl, hc'⟩
        · exact j1 o ho

theorem consumeAll_nz (inter : LS) : ∀ cs : List (CObj LS), (∀ o ∈ cs, CGOK o) →
    ∃ cs', consumeAll lsOps inter cs = .ok cs' ∧ ∀ o ∈ cs', CGOK o := by
  intro cs
  induction cs with
  | nil => intro _; exact ⟨[], rfl, fun o ho => nomatch ho⟩
  | cons o rest ih =>
    intro hcg
    obtain ⟨c, rfl, hc⟩ := hcg o List.mem_cons_self
    obtain ⟨rest', hr, hr2⟩ := ih (fun o ho => hcg o (List.mem_cons_of_mem _ ho))
    obtain ⟨c', hc1, hc2⟩ := Counter.consume_nz inter hc
    refine ⟨.cg c' :: rest', ?_, ?_⟩
    · simp only [consumeAll, CObj.consume, hc1, hr]
    · intro o ho
      rcases List.mem_cons.1 ho with rfl | ho
      · exact ⟨c', rfl, hc2⟩
      · exact hr2 o ho

/-- `_find_best` raises no `AssertionError`, keeps the counters' invariant, and what it returns hits the query -/
theorem findBest_nz {thr : Nat} (laws : AssertLaws ops thr) {cur : LS} (hcs : Sorted cur.hs)
    (hcur : cur.scaled ≤ 2 ^ 31) (hlen : cur.hs.length < 2 ^ 53) {cs : List (CObj LS)}
    (hcg : ∀ o ∈ cs, CGOK o) :
    findBest lsOps ops cs cur thr ≠ .error .assertion ∧
    ∀ cs' r, findBest lsOps ops cs cur thr = .ok (cs', r) →
      (∀ o ∈ cs', CGOK o) ∧ ∀ x, r = some x → Hit cur x := by
  obtain ⟨p1, p2⟩ := peekAll_nz laws hcs hcur hlen cs none hcg (fun _ hx => nomatch hx)
  unfold findBest
  cases hp : peekAll lsOps ops cur thr cs none with
  | error e =>
    simp only []
    refine ⟨?_, fun _ _ h => nomatch h⟩
    intro h
    cases h
    exact p1 hp
  | ok pr =>
    obtain ⟨cs1, b⟩ := pr
    obtain ⟨q1, q2⟩ := p2 _ _ hp
    cases b with
    | none =>
      simp only []
      refine ⟨by simp, ?_⟩
      intro cs' r h
      simp only [Except.ok.injEq, Prod.mk.injEq] at h
      obtain ⟨rfl, rfl⟩ := h
      exact ⟨q1, fun _ hx => nomatch hx⟩
    | some x =>
      obtain ⟨sc, sg, inter⟩ := x
      simp only []
      obtain ⟨cs2, hc, hc2⟩ := consumeAll_nz inter cs1 q1
      rw [hc]
      simp only []
      refine ⟨by simp, ?_⟩
      intro cs' r h
      simp only [Except.ok.injEq, Prod.mk.injEq] at h
      obtain ⟨rfl, rfl⟩ := h
      exact ⟨hc2, fun y hy => by cases hy; exact q2 _ rfl⟩

/-! ### `__next__`: `_update_scaled`, `GatherResult` -/

theorem fracCmpCore_na (a b : LS) (cs : Nat) : fracCmpCore lsOps a b cs ≠ .error .assertion := by
  intro h
  unfold fracCmpCore at h
  simp only [lsOps_dsF, lsOps_flat, lsOps_and] at h
  cases ha : LS.ds a cs with
  | error e => rw [ha] at h; cases h; exact LS.ds_na _ _ ha
  | ok a' =>
    rw [ha] at h
    simp only [] at h
    cases hb : LS.ds b cs with
    | error e => rw [hb] at h; cases h; exact LS.ds_na _ _ hb
    | ok b' =>
      rw [hb] at h
      simp only [] at h
      split at h
      · cases h
      · cases hi : LS.and a'.flat b'.flat with
        | error e => rw [hi] at h; cases h; exact LS.and_na _ _ hi
        | ok i => rw [hi] at h; cases h

theorem fracCmp_na (a b : LS) (cs : Nat) (ign : Bool) : fracCmp lsOps a b cs ign ≠ .error .assertion := by
  intro h
  unfold fracCmp at h
  split at h
  · cases h
  · cases ign with
    | false =>
      simp only [Bool.false_eq_true, if_false] at h
      exact fracCmpCore_na _ _ _ h
    | true =>
      simp only [if_true, lsOps_flat] at h
      exact fracCmpCore_na _ _ _ h

theorem updateScaled_na (g : GD LS) (sc : Nat) : g.updateScaled lsOps sc ≠ .error .assertion := by
  intro h
  unfold GD.updateScaled at h
  simp only [lsOps_dsM, lsOps_dsF, lsOps_mins] at h
  split at h
  · cases h1 : LS.ds g.origQueryMh sc with
    | error e => rw [h1] at h; cases h; exact LS.ds_na _ _ h1
    | ok oq =>
      rw [h1] at h
      simp only [] at h
      cases h2 : LS.ds g.noidentMh sc with
      | error e => rw [h2] at h; cases h; exact LS.ds_na _ _ h2
      | ok ni =>
        rw [h2] at h
        simp only [] at h
        cases h3 : abSum g.origQueryAbunds ni.hs with
        | error e => rw [h3] at h; cases h; exact abSum_na _ _ h3
        | ok nsum =>
          rw [h3] at h
          simp only [] at h
          cases h4 : abSum g.origQueryAbunds oq.hs with
          | error e => rw [h4] at h; cases h; exact abSum_na _ _ h4
          | ok tot => rw [h4] at h; cases h
  · cases h

/-- the `assert`s of `GatherResult` are unreachable when the match shares a hash with the remaining query at
the result's resolution -/
theorem buildResult_na {g : GD LS} {best : Sig LS} {scaled : Nat} {gq : LS} {swf N noidLen : Nat}
    (hb : Sorted best.mh.hs) (hq : Sorted gq.hs)
    (hx : ∃ h, h ∈ dn (max gq.scaled best.mh.scaled) gq.hs ∧ h ∈ dn (max gq.scaled best.mh.scaled) best.mh.hs) :
    buildResult lsOps ops g best scaled gq swf N noidLen ≠ .error .assertion := by
  intro h
  unfold buildResult at h
  simp only [] at h
  split at h
  · cases h
  split at h
  · cases h
  split at h
  · cases h
  cases hf1 : fracCmp lsOps g.origSigMh best.mh scaled (!g.trackAbundance) with
  | error e => rw [hf1] at h; cases h; exact fracCmp_na _ _ _ _ hf1
  | ok r1 =>
    obtain ⟨m1, m2, i0⟩ := r1
    rw [hf1] at h
    simp only [lsOps_flat, lsOps_scaled] at h
    cases hf2 : fracCmp lsOps gq best.mh.flat (max gq.scaled best.mh.flat.scaled) false with
    | error e => rw [hf2] at h; cases h; exact fracCmp_na _ _ _ _ hf2
    | ok r2 =>
      obtain ⟨g1, g2, i1⟩ := r2
      rw [hf2] at h
      simp only [] at h
      split at h
      · cases h
      · split at h
        · rename_i hl
          obtain ⟨_, _, _, _, _, _, hi⟩ := fracCmp_ls hq (b := best.mh.flat) hb hf2
          simp only [] at hi
          obtain ⟨y, y1, y2⟩ := hx
          have : y ∈ i1.hs := by
            rw [hi]
            exact List.mem_filter.2 ⟨y1, inL_iff.2 y2⟩
          have hl' : i1.hs.length = 0 := hl
          rw [List.length_eq_zero_iff.1 hl'] at this
          cases this
        · cases h

theorem Hit.finer {cur : LS} {x : σ × Sig LS × LS} (hit : Hit cur x) :
    ∃ h, h ∈ dn (max cur.scaled x.2.1.mh.scaled) cur.hs ∧ h ∈ dn (max cur.scaled x.2.1.mh.scaled) x.2.1.mh.hs := by
  obtain ⟨_, h1, s, h2, h3, h4, y, y1, y2⟩ := hit
  have hm := mhR_anti (s1 := max cur.scaled x.2.1.mh.scaled) (s2 := s) (by omega) (by omega) h4
  refine ⟨y, mem_dn.2 ⟨(mem_dn.1 y1).1, ?_⟩, mem_dn.2 ⟨(mem_dn.1 y2).1, ?_⟩⟩
  · exact le_trans (mem_dn.1 y1).2 hm
  · exact le_trans (mem_dn.1 y2).2 hm

/-- the part of `__next__` after `_find_best`: no `AssertionError` for a match that hits the query -/
theorem report_na {g : GD LS} {x : σ × Sig LS × LS} (hq : Sorted g.query.hs)
    (hqs : g.query.scaled = g.cmpScaled) (hit : Hit g.query x) :
    GD.report lsOps ops g x.2.1 ≠ .error .assertion := by
  intro h
  have hfin := hit.finer
  obtain ⟨hb, hb1, _⟩ := hit
  unfold GD.report at h
  simp only [] at h
  rw [if_neg (by simp only [lsOps_scaled]; omega)] at h
  cases hu : g.updateScaled lsOps (lsOps.scaled x.2.1.mh) with
  | error e => rw [hu] at h; cases h; exact updateScaled_na _ _ hu
  | ok g1 =>
    rw [hu] at h
    simp only [lsOps_dsF, lsOps_flat, lsOps_toMutable, lsOps_removeFrom, lsOps_mins] at h
    obtain ⟨u1, u2, _⟩ := updateScaled_ls hu
    cases h1 : LS.ds g1.query g1.cmpScaled with
    | error e => rw [h1] at h; cases h; exact LS.ds_na _ _ h1
    | ok qm =>
      rw [h1] at h
      simp only [] at h
      cases h2 : LS.ds x.2.1.mh g1.cmpScaled with
      | error e => rw [h2] at h; cases h; exact LS.ds_na _ _ h2
      | ok f0 =>
        rw [h2] at h
        simp only [] at h
        split at h
        · rename_i e h3
          cases h
          exact abSum_na _ _ h3
        · split at h
          · rename_i e h4
            cases h
            refine buildResult_na (ops := ops) hb (by rw [u2]; exact hq) ?_ h4
            rw [u2]
            exact hfin
          · cases h

/-! ### the run -/

/-- invariant of a prefetch-mode run over any database (no relation between scaled values assumed) -/
structure NInv (thr : Nat) (g : GD LS) : Prop where
  q_sorted : Sorted g.query.hs
  q_scaled : g.query.scaled = g.cmpScaled
  q_le : g.cmpScaled ≤ 2 ^ 31
  q_small : g.query.hs.length < 2 ^ 53
  thr_eq : g.thresholdBp = thr
  cg : ∀ o ∈ g.counters, CGOK o

theorem next_na {thr : Nat} (laws : AssertLaws ops thr) {g : GD LS} (hinv : NInv thr g) :
    g.next lsOps ops ≠ .error .assertion := by
  intro h
  unfold GD.next at h
  split at h
  · cases h
  · have laws' : AssertLaws ops g.thresholdBp := by rw [hinv.thr_eq]; exact laws
    obtain ⟨f1, f2⟩ := findBest_nz laws' hinv.q_sorted (by rw [hinv.q_scaled]; exact hinv.q_le) hinv.q_small hinv.cg
    cases hf : findBest lsOps ops g.counters g.query g.thresholdBp with
    | error e => rw [hf] at h; cases h; exact f1 hf
    | ok fr =>
      obtain ⟨cs, b⟩ := fr
      rw [hf] at h
      obtain ⟨_, f3⟩ := f2 _ _ hf
      cases b with
      | none => cases h
      | some x =>
        obtain ⟨sc, best, inter⟩ := x
        simp only [] at h
        exact report_na (g := { g with counters := cs }) (x := (sc, best, inter)) hinv.q_sorted hinv.q_scaled
          (f3 _ rfl) h

theorem next_ninv {thr : Nat} (laws : AssertLaws ops thr) {g g' : GD LS} {r : Option (GRes σ)}
    (hinv : NInv thr g) (h : g.next lsOps ops = .ok (g', r)) : NInv thr g' := by
  unfold GD.next at h
  by_cases h0 : len lsOps g.query = 0
  · rw [if_pos h0] at h
    simp only [Except.ok.injEq, Prod.mk.injEq] at h
    obtain ⟨rfl, rfl⟩ := h
    exact hinv
  rw [if_neg h0] at h
  have laws' : AssertLaws ops g.thresholdBp := by rw [hinv.thr_eq]; exact laws
  obtain ⟨_, f2⟩ := findBest_nz laws' hinv.q_sorted (by rw [hinv.q_scaled]; exact hinv.q_le) hinv.q_small hinv.cg
  cases hf : findBest lsOps ops g.counters g.query g.thresholdBp with
  | error e => rw [hf] at h; cases h
  | ok fr =>
    obtain ⟨cs, b⟩ := fr
    rw [hf] at h
    obtain ⟨f3, f4⟩ := f2 _ _ hf
    cases b with
    | none =>
      simp only [Except.ok.injEq, Prod.mk.injEq] at h
      obtain ⟨rfl, rfl⟩ := h
      exact ⟨hinv.q_sorted, hinv.q_scaled, hinv.q_le, hinv.q_small, hinv.thr_eq, f3⟩
    | some x =>
      obtain ⟨sc, best, inter⟩ := x
      simp only [] at h
      obtain ⟨_, _, s, s1, _, s3, _⟩ := f4 _ rfl
      obtain ⟨_, g1, res, hu, _, _, hg', _, _⟩ := report_ls h
      obtain ⟨u1, u2, u3, _, u5, _⟩ := updateScaled_ls hu
      simp only [] at u1 u2 u3 u5 s1
      refine ⟨?_, ?_, ?_, ?_, ?_, ?_⟩
      · rw [hg']
        show Sorted (LS.removeFrom (g1.query.dsv g1.cmpScaled) (best.mh.dsv g1.cmpScaled).flat).hs
        rw [LS.removeFrom_hs]
        show Sorted (diffL (dn g1.cmpScaled g1.query.hs) _)
        rw [u2]
        exact sorted_diffL (sorted_dn hinv.q_sorted _) _
      · subst hg'; rfl
      · rw [hg']
        show g1.cmpScaled ≤ 2 ^ 31
        rw [u1]
        have := hinv.q_le
        exact max_le this (le_trans s1 s3)
      · rw [hg']
        show (LS.removeFrom (g1.query.dsv g1.cmpScaled) (best.mh.dsv g1.cmpScaled).flat).hs.length < 2 ^ 53
        rw [LS.removeFrom_hs]
        show (diffL (dn g1.cmpScaled g1.query.hs) _).length < 2 ^ 53
        rw [u2]
        exact lt_of_le_of_lt (le_trans (List.length_filter_le _ _) (List.length_filter_le _ _)) hinv.q_small
      · rw [hg']
        show g1.thresholdBp = thr
        rw [u5]
        exact hinv.thr_eq
      · rw [hg']
        show ∀ o ∈ g1.counters, CGOK o
        rw [u3]
        exact f3

/-- **a prefetch-mode gather run over any database raises no `AssertionError`** -/
theorem run_na {thr : Nat} (laws : AssertLaws ops thr) : ∀ (n : Nat) (g : GD LS), NInv thr g →
    g.run lsOps ops n ≠ .error .assertion := by
  intro n
  induction n with
  | zero => intro g _; simp [GD.run]
  | succ n ih =>
    intro g hinv h
    simp only [GD.run] at h
    cases hn : g.next lsOps ops with
    | error e => rw [hn] at h; cases h; exact next_na laws hinv hn
    | ok pr =>
      obtain ⟨g', r⟩ := pr
      rw [hn] at h
      cases r with
      | none => cases h
      | some res =>
        simp only [] at h
        have hinv' := next_ninv laws hinv hn
        cases hr : g'.run lsOps ops n with
        | error e => rw [hr] at h; cases h; exact ih g' hinv' hr
        | ok x => rw [hr] at h; cases h

/-! ### establishment: `counter_gather` per database, `GatherDatabases.__init__` -/

theorem addAll_cnz : ∀ (l : List (F64.F × Sig LS)) (c c' : Counter LS), CNZ c →
    (∀ p ∈ l, Sorted p.2.mh.hs ∧ 1 ≤ p.2.mh.scaled ∧ p.2.mh.scaled ≤ 2 ^ 31) →
    addAll lsOps c l = .ok c' → CNZ c' := by
  intro l
  induction l with
  | nil => intro c c' hc _ h; simp only [addAll, Except.ok.injEq] at h; subst h; exact hc
  | cons p rest ih =>
    intro c c' hc hl h
    obtain ⟨sc, sg⟩ := p
    simp only [addAll] at h
    cases ha : c.add lsOps sg with
    | error e => rw [ha] at h; cases h
    | ok c1 =>
      rw [ha] at h
      simp only [] at h
      refine ih c1 c' ?_ (fun p hp => hl p (List.mem_cons_of_mem _ hp)) h
      obtain ⟨p1, p2, p3⟩ := hl (sc, sg) List.mem_cons_self
      unfold Counter.add at ha
      obtain ⟨k, hk⟩ := LS.cc_ok c.origQuery sg.mh
      rw [lsOps_cc, hk] at ha
      simp only [] at ha
      split at ha
      · rename_i hk0
        cases ha
        refine ⟨max_le hc.scaled_le p3, ?_⟩
        intro e he
        rcases mem_upsert he with rfl | he
        · exact ⟨p1, p2, by simpa using hk0⟩
        · exact hc.ent e he
      · cases ha

theorem counterGather_cnz {q : LS} (hq : q.scaled ≤ 2 ^ 31) {thr : Nat} {db : List (Sig LS)} {c : Counter LS}
    (hdb : ∀ d ∈ db, Sorted d.mh.hs ∧ 1 ≤ d.mh.scaled ∧ d.mh.scaled ≤ 2 ^ 31)
    (h : counterGather lsOps db q thr = .ok c) : CNZ c := by
  unfold counterGather at h
  simp only [lsOps_flat] at h
  unfold Counter.new at h
  by_cases hz : lsOps.scaled q.flat = 0
  · rw [if_pos hz] at h; cases h
  rw [if_neg hz] at h
  simp only [lsOps_flat] at h
  cases hp : prefetch lsOps db q.flat thr false with
  | error e => rw [hp] at h; cases h
  | ok l =>
    rw [hp] at h
    simp only [] at h
    have hc0 : CNZ ({ origQuery := q.flat.flat, scaled := lsOps.scaled q.flat, entries := [] } : Counter LS) :=
      ⟨hq, fun e he => nomatch he⟩
    refine addAll_cnz l _ c hc0 ?_ h
    intro p hpm
    have hmem : p.2 ∈ db := by
      unfold prefetch at hp
      repeat' split at hp
      all_goals first | cases hp | exact findLoop_sub hp _ hpm
    exact hdb _ hmem

/-- the invariant holds after `counter_gather` per database and `GatherDatabases.__init__` -/
theorem ninv_init {q : LS} (hq : q.WF) {thr : Nat} {dbs : List (List (Sig LS))} {cs : List (Counter LS)}
    {ign : Bool} {g : GD LS}
    (hdb : ∀ db ∈ dbs, ∀ d ∈ db, Sorted d.mh.hs ∧ 1 ≤ d.mh.scaled ∧ d.mh.scaled ≤ 2 ^ 31)
    (hcs : List.Forall₂ (fun db c => counterGather lsOps db q thr = .ok c) dbs cs)
    (hsize : q.hs.length < 2 ^ 53)
    (h : GD.init lsOps q (cs.map CObj.cg) thr ign none none = .ok g) : NInv thr g := by
  obtain ⟨i1, i2, i3, i4, i5, _⟩ := init_plain hq h
  refine ⟨by rw [i1]; exact hq.sorted, by rw [i2, i3], by rw [i3]; exact hq.hi, by rw [i1]; exact hsize, i5, ?_⟩
  rw [i4]
  intro o ho
  obtain ⟨c, hc, rfl⟩ := List.mem_map.1 ho
  refine ⟨c, rfl, ?_⟩
  clear h ho i4
  induction hcs with
  | nil => cases hc
  | @cons db c0 dbs' cs' hd _ ih =>
    rcases List.mem_cons.1 hc with rfl | hc
    · exact counterGather_cnz hq.hi (hdb db List.mem_cons_self) hd
    · exact ih (fun db hdbm => hdb db (List.mem_cons_of_mem _ hdbm)) hc

/-! ### the laws hold for `threshold_bp = 0` in exact arithmetic -/

theorem ratOps_assertLaws_zero : AssertLaws ratOps 0 := by
  constructor
  · intro c d s hc _ _
    show decide (c = 0) = false
    simpa using hc
  · intro c k d s t nT hct _ _ _ _ _ _ _
    rw [calcThreshold_zero] at hct
    cases hct
    show decide (c * 1 ≥ 0 * d) = true
    simp

theorem qOps_assertLaws_zero : AssertLaws qOps 0 := by
  have hpos : ∀ c d s : Nat, c ≠ 0 → c ≤ d → 1 ≤ s → 0 < containedQ c d s := by
    intro c d s hc hcd hs
    have hd : 0 < d := by omega
    obtain ⟨_, hb, _⟩ := bias_close hd hs
    have hc' : (0 : ℚ) < c := by exact_mod_cast Nat.pos_of_ne_zero hc
    have hd' : (0 : ℚ) < d := by exact_mod_cast hd
    unfold containedQ
    exact lt_min one_pos (div_pos hc' (mul_pos hd' hb))
  constructor
  · intro c d s hc hcd hs
    show decide (containedQ c d s = 0) = false
    have := hpos c d s hc hcd hs
    simp only [decide_eq_false_iff_not]
    exact ne_of_gt this
  · intro c k d s t nT hct _ hk hkc hcd hs _ _
    rw [calcThreshold_zero] at hct
    cases hct
    show decide (((fzero.m : ℚ)) * (2 : ℚ) ^ fzero.e ≤ containedQ c d s) = true
    have := hpos c d s (by omega) hcd hs
    have h0 : ((fzero.m : ℚ)) * (2 : ℚ) ^ fzero.e = 0 := by simp [fzero]
    rw [h0]
    simp only [decide_eq_true_eq]
    exact le_of_lt this

/-! ### `AssertLaws` for every threshold, from the libm-dependent core -/

/-- what is left to assume about the score arithmetic: an order that extends the one on doubles, and
`dominates` -- the de-biased containment is at least the plain double quotient `fl(c/d)`.  In the code
`cont = c / (d · (1 − (1 − 1/s)^(d·s)))` in doubles: `≥ fl(c/d)` because multiplication and division round
monotonically, PROVIDED libm `pow` returns a value in `[0, 1]` (the only unmodelled operation). -/
structure DebiasLaws (ops : ScoreOps σ) : Prop where
  nonzero : ∀ c d s : Nat, c ≠ 0 → c ≤ d → 1 ≤ s → ops.isZero (ops.contained c d s) = false
  ge_trans : ∀ a b c : σ, ops.ge a b = true → ops.ge b c = true → ops.ge a c = true
  ofF_mono : ∀ x y : F64.F, F64.ge x y = true → ops.ge (ops.ofF x) (ops.ofF y) = true
  dominates : ∀ c d s : Nat, c ≠ 0 → c ≤ d → 1 ≤ s →
    ops.ge (ops.contained c d s) (ops.ofF (F64.divNat c d)) = true

/-- **the second assert of `peek` (`cont >= threshold`) holds for every threshold**: `match_size` not below
`fl(bp/scaled)` ⇒ `fl(match_size / n) ≥ fl(fl(bp/scaled) / n)` by monotone rounding, and the containment
dominates `fl(match_size / n)` -/
theorem assertLaws_of_debias (L : DebiasLaws ops) {thr : Nat} (hthr : thr < 2 ^ 53) : AssertLaws ops thr := by
  refine ⟨L.nonzero, ?_⟩
  intro c k d s t nT hct hnb hk0 hkc hcd hs1 hs2 hd
  have hc0 : c ≠ 0 := by omega
  have hperm := prefetchPermissive_calc hthr (lt_of_le_of_lt hs2 (by decide)) hd hct
  have hc53 : c < 2 ^ 53 := lt_of_le_of_lt hcd hd
  have hk53 : k < 2 ^ 53 := lt_of_le_of_lt hkc hc53
  have hnbc : belowThreshold (c : Int) nT = false := by
    rw [not_below_iff hc53]
    have h1 := (not_below_iff hk53 nT).1 hnb
    have h2 : (k : ℚ) ≤ c := by exact_mod_cast hkc
    linarith
  have hp := hperm c hcd hc0 hnbc
  unfold passes scoreContainment at hp
  rw [if_neg (by omega)] at hp
  simp only [Bool.and_eq_true, decide_eq_true_eq] at hp
  exact L.ge_trans _ _ _ (L.dominates c d s hc0 hcd hs1) (L.ofF_mono _ _ hp.2)

/-- the containment without de-biasing: the double quotient `fl(c/d)` -/
def plainOps : ScoreOps F64.F where
  contained := fun c d _ => F64.divNat c d
  ofF := fun x => x
  gt := fun a b => !F64.ge b a
  ge := F64.ge
  isZero := fun a => decide (a.m = 0)
  ltOne := fun a => !F64.ge a fone
  std := fun _ => fzero
  str := fun _ => ""

theorem plainOps_debias : DebiasLaws plainOps := by
  refine ⟨?_, ?_, ?_, ?_⟩
  · intro c d s hc hcd _
    show decide ((F64.divNat c d).m = 0) = false
    simp only [decide_eq_false_iff_not]
    exact (F64.divNat_m_ne_zero_iff c d).2 ⟨hc, by omega⟩
  · intro a b c h1 h2
    exact F64.ge_trans h1 h2
  · intro x y h
    exact h
  · intro c d s _ _ _
    exact F64.ge_refl _

theorem plainOps_assertLaws {thr : Nat} (hthr : thr < 2 ^ 53) : AssertLaws plainOps thr :=
  assertLaws_of_debias plainOps_debias hthr

end Sm.Gather
