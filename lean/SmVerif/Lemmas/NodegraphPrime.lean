/-
`isPrime` (trial division, standing for the deterministic Miller-Rabin of `primal_check`)
decides primality.
-/
import SmVerif.Lemmas.NodegraphSizes
import Mathlib.Data.Nat.Prime.Basic

namespace Sm
namespace NG

/-- the trial-division loop from `k`, with enough fuel, tests the candidates `k, k+2, ...` -/
theorem isPrime_go_iff (n : Nat) : ∀ (fuel k : Nat), 1 ≤ k → n < k + fuel →
    (isPrime.go n k fuel = true ↔ ∀ t, (k + 2 * t) * (k + 2 * t) ≤ n → ¬ (k + 2 * t) ∣ n)
  | 0, k, hk, hf => by
    simp only [isPrime.go, true_iff]
    intro t ht
    have : k + 2 * t ≤ (k + 2 * t) * (k + 2 * t) := Nat.le_mul_self _
    omega
  | fuel + 1, k, hk, hf => by
    unfold isPrime.go
    split
    · rename_i hgt
      simp only [true_iff]
      intro t ht
      have : k * k ≤ (k + 2 * t) * (k + 2 * t) := Nat.mul_le_mul (by omega) (by omega)
      omega
    · rename_i hle
      split
      · rename_i hdiv
        simp only [Bool.false_eq_true, false_iff]
        intro h
        exact h 0 (by simpa using Nat.le_of_not_lt hle) (by simpa using Nat.dvd_of_mod_eq_zero hdiv)
      · rename_i hnd
        rw [isPrime_go_iff n fuel (k + 2) (by omega) (by omega)]
        constructor
        · intro h t
          cases t with
          | zero => intro _ hd; exact hnd (Nat.mod_eq_zero_of_dvd (by simpa using hd))
          | succ t =>
            have e : k + 2 * (t + 1) = k + 2 + 2 * t := by omega
            rw [e]; exact h t
        · intro h t
          have e : k + 2 + 2 * t = k + 2 * (t + 1) := by omega
          rw [e]; exact h (t + 1)

theorem isPrime_correct (n : Nat) : isPrime n = true ↔ Nat.Prime n := by
  unfold isPrime
  split
  · rename_i heven
    simp only [decide_eq_true_eq]
    constructor
    · rintro rfl; exact Nat.prime_two
    · intro hp
      rcases hp.eq_two_or_odd with h | h
      · exact h
      · omega
  · rename_i hodd
    split
    · rename_i h1
      subst h1
      simp [Nat.not_prime_one]
    · rename_i h1
      rw [isPrime_go_iff n n 3 (by omega) (by omega), Nat.prime_def_le_sqrt]
      constructor
      · intro h
        refine ⟨by omega, ?_⟩
        intro m hm hsq hdvd
        rw [Nat.le_sqrt] at hsq
        have hmodd : m % 2 = 1 := by
          rcases Nat.mod_two_eq_zero_or_one m with h0 | h0
          · exfalso
            have : 2 ∣ n := Nat.dvd_trans (Nat.dvd_of_mod_eq_zero h0) hdvd
            omega
          · exact h0
        have e : m = 3 + 2 * ((m - 3) / 2) := by omega
        rw [e] at hsq hdvd
        exact h _ hsq hdvd
      · rintro ⟨_, h⟩ t hsq hdvd
        exact h (3 + 2 * t) (by omega) (Nat.le_sqrt.mpr hsq) hdvd

/-- the sizes chosen by `with_tables` are primes -/
theorem tableSizesLoop_prime (n : Nat) : ∀ (fuel i : Nat) (acc : List Nat),
    (∀ s ∈ acc, Nat.Prime s) → ∀ s ∈ tableSizesLoop n fuel i acc, Nat.Prime s
  | 0, _, _, hacc => by simpa [tableSizesLoop] using hacc
  | fuel + 1, i, acc, hacc => by
    have hacc' : ∀ s ∈ (if isPrime i = true then acc ++ [i] else acc), Nat.Prime s := by
      split
      · rename_i hp
        intro s hs
        rcases List.mem_append.mp hs with h | h
        · exact hacc s h
        · simp only [List.mem_singleton] at h
          subst h
          exact (isPrime_correct s).mp hp
      · exact hacc
    unfold tableSizesLoop
    split
    · exact hacc
    · simp only
      split
      · exact hacc'
      · exact tableSizesLoop_prime n fuel (i - 2) _ hacc'

theorem tableSizes_prime (ts n : Nat) : ∀ s ∈ tableSizes ts n, Nat.Prime s := by
  unfold tableSizes
  exact tableSizesLoop_prime n _ _ [] (by simp)

end NG
end Sm
