/-
C12 helper lemmas: ZipFileLinearIndex with a manifest — filtering the manifest *before* loading gives
the signatures that filtering the loaded signatures gives.
-/
import SmVerif.Lemmas.SelectColl

namespace Sm.Select

theorem eraseDups_of_nodup {l : List Nat} (h : l.Nodup) : l.eraseDups = l := by
  induction l with
  | nil => rfl
  | cons a t ih =>
    rw [List.eraseDups_cons]
    have hn := List.nodup_cons.mp h
    have : t.filter (fun b => !b == a) = t := by
      apply List.filter_eq_self.mpr
      intro b hb
      have : b ≠ a := fun e => hn.1 (e ▸ hb)
      simp [this]
    rw [this, ih hn.2]

/-- the zip a list of signatures is saved into: one file per signature, one manifest row per file -/
def storeOf (rs : List (Row × Sig)) : Store := rs.map (fun x => (x.1.loc, [x.2]))

/-- rows were made from the stored signatures, and locations are distinct -/
structure ZipOk (rs : List (Row × Sig)) : Prop where
  rows : ∀ x ∈ rs, x.1 = mkRow x.2 x.1.loc
  nodup : (rs.map (·.1.loc)).Nodup

theorem storeOf_load {rs : List (Row × Sig)} (hnd : (rs.map (·.1.loc)).Nodup) {x : Row × Sig} (hx : x ∈ rs) :
    (storeOf rs).load x.1.loc = [x.2] := by
  induction rs with
  | nil => cases hx
  | cons y t ih =>
    simp only [List.map_cons, List.nodup_cons] at hnd
    simp only [storeOf, List.map_cons, Store.load, List.find?_cons]
    rcases List.mem_cons.mp hx with rfl | hx
    · simp
    · have hne : (y.1.loc == x.1.loc) = false := by
        simp only [beq_eq_false_iff_ne, ne_eq]
        intro e
        exact hnd.1 (e ▸ List.mem_map_of_mem (f := fun z => z.1.loc) hx)
      simp only [hne]
      have := ih hnd.2 hx
      simpa [storeOf, Store.load] using this

/-- the signatures of a zip opened on a *sub-manifest* (the store is never filtered) -/
theorem zipM_signatures {rs sub : List (Row × Sig)} (hok : ZipOk rs) (hsub : sub.Sublist rs) :
    (Coll.zipM (sub.map (·.1)) (storeOf rs)).signatures = .ok (sub.map (·.2)) := by
  have hmem : ∀ x ∈ sub, x ∈ rs := fun x hx => hsub.subset hx
  have hnd : ((sub.map (·.1)).map (·.loc)).Nodup := by
    rw [List.map_map]
    exact (hsub.map _).nodup hok.nodup
  simp only [Coll.signatures, locations, eraseDups_of_nodup hnd]
  congr 1
  rw [List.map_map]
  -- every listed location holds exactly its signature, whose md5 is in the manifest
  have key : ∀ x ∈ sub, ((storeOf rs).load x.1.loc).filter
      (fun s => (sub.map (·.1)).any (·.md5 == s.md5)) = [x.2] := by
    intro x hx
    rw [storeOf_load hok.nodup (hmem x hx)]
    have : (sub.map (·.1)).any (·.md5 == x.2.md5) = true := by
      rw [List.any_eq_true]
      refine ⟨x.1, List.mem_map_of_mem (f := (·.1)) hx, ?_⟩
      rw [hok.rows x (hmem x hx)]
      simp [mkRow]
    rw [List.filter_cons, List.filter_nil, if_pos this]
  clear hnd hsub hmem
  generalize hP : (fun s : Sig => (sub.map (·.1)).any (·.md5 == s.md5)) = P at key
  clear hP
  induction sub with
  | nil => rfl
  | cons x t ih =>
    simp only [List.map_cons, List.flatMap_cons, Function.comp]
    rw [key x (List.mem_cons_self ..)]
    have := ih (fun y hy => key y (List.mem_cons_of_mem _ hy))
    simpa [Function.comp] using this

theorem filterE_map {α β : Type} (f : α → β) (p : β → Except Err Bool) (l : List α) :
    filterE p (l.map f) = (match filterE (fun a => p (f a)) l with
      | .ok r => .ok (r.map f)
      | .error e => .error e) := by
  induction l with
  | nil => rfl
  | cons a t ih =>
    simp only [List.map_cons, filterE, ih]
    cases p (f a) with
    | error e => rfl
    | ok b =>
      cases filterE (fun a => p (f a)) t with
      | error e => rfl
      | ok r => cases b <;> rfl

/-- `ZipFileLinearIndex.select` on the manifest, then loading: never refuses, loads exactly the satisfying signatures -/
theorem zipM_select_signatures {rs : List (Row × Sig)} (c : Crit) (hok : ZipOk rs) :
    ∃ y, ((Coll.zipM (rs.map (·.1)) (storeOf rs)).select c).2 = .ok y ∧
      y.signatures = .ok ((rs.map (·.2)).filter (Sat c)) := by
  have hf : filterE (fun a : Row × Sig => rowPasses a.1 c) rs = .ok (rs.filter (fun x => Sat c x.2)) := by
    apply filterE_ok_of_forall
    intro x hx
    rw [hok.rows x hx]
    exact rowPasses_total x.2 c _
  refine ⟨.zipM ((rs.filter (fun x => Sat c x.2)).map (·.1)) (storeOf rs), ?_, ?_⟩
  · simp only [Coll.select]
    rw [filterE_map, hf]
  · rw [zipM_signatures hok List.filter_sublist, List.filter_map]
    rfl

/-! ### SBT saved with a manifest -/

theorem passesAll_cons (pl : Picklist) (t : List Picklist) (s : Sig) :
    passesAll (pl :: t) s = (pl.hasSig s && passesAll t s) := by
  simp [passesAll]

theorem Sat_only_picklist (pl : Picklist) (s : Sig) : Sat { picklist := some pl } s = pl.hasSig s := by
  simp [Sat, Crit.ksizeBad, Crit.molBad, Crit.scaledV, Crit.cont, Crit.numV, Crit.abundReq]

/-- the manifest of an SBT after its picklists were applied one after the other -/
theorem sbtRows_eq {rs : List (Row × Sig)} (hrows : ∀ x ∈ rs, x.1 = mkRow x.2 x.1.loc) (pls : List Picklist) :
    sbtRows (rs.map (·.1)) pls = .ok ((rs.filter (fun x => passesAll pls x.2)).map (·.1)) := by
  induction pls generalizing rs with
  | nil =>
    simp only [sbtRows, passesAll, List.all_nil]
    rw [List.filter_eq_self.mpr (fun _ _ => rfl)]
  | cons pl t ih =>
    simp only [sbtRows]
    rw [filterE_map]
    have hf : filterE (fun a : Row × Sig => rowPasses a.1 { picklist := some pl }) rs
        = .ok (rs.filter (fun x => pl.hasSig x.2)) := by
      apply filterE_ok_of_forall
      intro x hx
      rw [hrows x hx, rowPasses_total, Sat_only_picklist]
    rw [hf]
    simp only
    rw [ih (fun x hx => hrows x (List.mem_filter.mp hx).1), List.filter_filter]
    congr 3
    funext x
    rw [passesAll_cons, Bool.and_comm]

/-- every listed location of a consistent store holds exactly its signature -/
theorem load_listed {rs sub : List (Row × Sig)} (hok : ZipOk rs) (hsub : sub.Sublist rs) :
    (locations (sub.map (·.1))).flatMap (fun loc => ((storeOf rs).load loc).take 1) = sub.map (·.2) := by
  have hmem : ∀ x ∈ sub, x ∈ rs := fun x hx => hsub.subset hx
  have hnd : ((sub.map (·.1)).map (·.loc)).Nodup := by
    rw [List.map_map]
    exact (hsub.map _).nodup hok.nodup
  simp only [locations, eraseDups_of_nodup hnd]
  rw [List.map_map]
  have key : ∀ x ∈ sub, ((storeOf rs).load x.1.loc).take 1 = [x.2] := by
    intro x hx
    rw [storeOf_load hok.nodup (hmem x hx)]
    rfl
  clear hnd hsub hmem
  induction sub with
  | nil => rfl
  | cons x t ih =>
    simp only [List.map_cons, List.flatMap_cons, Function.comp]
    rw [key x (List.mem_cons_self ..)]
    have := ih (fun y hy => key y (List.mem_cons_of_mem _ hy))
    simpa [Function.comp] using this

/-- an SBT reloaded from its zip lists, through its manifest, the leaves passing its picklists -/
theorem sbtM_signatures {rs : List (Row × Sig)} (hok : ZipOk rs) (pls : List Picklist) :
    (Coll.sbtM (rs.map (·.1)) (storeOf rs) (rs.map (·.2)) pls).signatures
      = .ok ((rs.map (·.2)).filter (passesAll pls)) := by
  simp only [Coll.signatures]
  rw [sbtRows_eq hok.rows]
  simp only
  rw [load_listed hok List.filter_sublist, List.filter_map]
  rfl

/-! ### SqliteIndex -/

theorem sqlRowPasses_empty (r : Row) : sqlRowPasses r {} = .ok true := by
  rw [sqlRowPasses_eq]
  rfl

theorem abundReq_eq_abundTrue (c : Crit) : c.abundReq = c.abundTrue := by
  unfold Crit.abundReq Crit.abundTrue
  rcases c.abund with _ | _ | (_ | _) <;> rfl

theorem Sat_forSql {c : Crit} (hn : c.numV = 0) (ha : c.abundReq = false) (s : Sig) : Sat c.forSql s = Sat c s := by
  unfold Sat
  have h0 : Crit.numV c.forSql = 0 := rfl
  have h1 : Crit.abundReq c.forSql = false := rfl
  rw [h0, h1, hn, ha]
  rfl

/-- `SqliteIndex.select`: a `num` or `abund=True` request is refused, anything else merges into the selection dict -/
theorem sqlite_select {all : List (Row × Sig)} {sel c : Crit} {y : Coll}
    (h : ((Coll.sqlite all sel).select c).2 = .ok y) :
    c.numV = 0 ∧ c.abundReq = false ∧ ∃ d, mergeZip sel c.forSql = .ok d ∧ y = .sqlite all d := by
  simp only [Coll.select] at h
  by_cases hc : sqliteRefuses c = true
  · rw [if_pos hc] at h; cases h
  · rw [if_neg hc] at h
    simp only [sqliteRefuses, Bool.or_eq_true, not_or, Bool.not_eq_true] at hc
    have hn : c.numV = 0 := by
      have := hc.1
      simpa [Crit.numV] using this
    have ha : c.abundReq = false := by rw [abundReq_eq_abundTrue]; exact hc.2
    refine ⟨hn, ha, ?_⟩
    cases hm : mergeZip sel c.forSql with
    | error e => simp [hm] at h
    | ok d =>
      simp only [hm] at h
      refine ⟨d, rfl, ?_⟩
      split at h
      · split at h
        · injection h with h; exact h.symm
        · cases h
      · injection h with h; exact h.symm

/-- `SqliteIndex.signatures()`: exactly the stored sketches satisfying the merged selection dict; never raises -/
theorem sqlite_signatures {all : List (Row × Sig)} (d : Crit) (hrows : RowsOf all) (hwf : ∀ x ∈ all, WF x.2) :
    (Coll.sqlite all d).signatures = .ok ((all.map (·.2)).filter (Sat d)) ∧
      filterE (fun rs : Row × Sig => sqlRowPasses rs.1 d) all = .ok (all.filter (fun x => Sat d x.2)) := by
  have hf : filterE (fun rs : Row × Sig => sqlRowPasses rs.1 d) all = .ok (all.filter (fun x => Sat d x.2)) := by
    apply filterE_ok_of_forall
    intro x hx
    obtain ⟨loc, hloc⟩ := hrows x hx
    rw [hloc]
    exact sqlRowPasses_total d loc (hwf x hx)
  refine ⟨?_, hf⟩
  simp only [Coll.signatures, hf, List.filter_map]
  rfl

end Sm.Select
