/-
`pop_to_rank` on a lineage that lists the ranks of `taxlist()` in order: the prefix down to
(and including) the requested rank; unchanged when the lineage ends above it.
-/
import SmVerif.Lemmas.LcaDbJson

namespace Sm.Lca

open Sm.Lin Sm.Dict

theorem beforeRank_eq : ∀ r : Fin 8, (List.range nRanks).takeWhile (· != r.val) = List.range r.val := by
  decide

theorem lastRank_positional {l : Lineage} (h : l.map Prod.fst = List.range l.length) (hne : l ≠ []) :
    lastRank l = some (l.length - 1) := by
  unfold lastRank
  rw [← List.getLast?_map, h]
  cases hn : l.length with
  | zero => exact absurd (List.eq_nil_of_length_eq_zero hn) hne
  | succ n => simp [List.range_succ]

theorem popWhileRev_positional (r : Nat) (l : Lineage) (h : l.map Prod.fst = List.range l.length)
    (hr : r < l.length) : (popWhileRev r l.reverse).reverse = l.take (r + 1) := by
  induction l using rev_ind with
  | h0 => simp at hr
  | hs l' x ih =>
    obtain ⟨k, v⟩ := x
    simp only [List.map_append, List.map_cons, List.map_nil, List.length_append, List.length_cons,
      List.length_nil, Nat.zero_add, List.range_succ] at h
    have hlen : (l'.map Prod.fst).length = (List.range l'.length).length := by simp
    obtain ⟨h1, h2⟩ := List.append_inj h hlen
    simp only [List.cons.injEq, and_true] at h2
    subst h2
    rw [List.reverse_append]
    simp only [List.reverse_cons, List.reverse_nil, List.nil_append, List.singleton_append, popWhileRev]
    by_cases he : l'.length = r
    · simp only [he, if_true, List.reverse_cons, List.reverse_reverse]
      rw [List.take_of_length_le (by simp [he])]
    · simp only [he, if_false]
      simp only [List.length_append, List.length_cons, List.length_nil] at hr
      have hr' : r < l'.length := by omega
      rw [ih h1 hr', List.take_append_of_le_length (by omega)]

/-- `pop_to_rank(lin, rank)` for a rank of `taxlist()` -/
theorem popToRank_positional {l : Lineage} (hp : Positional l) (r : Nat) (hr : r < 8) :
    popToRank l r = l.take (r + 1) := by
  obtain ⟨h1, h2⟩ := hp
  unfold popToRank
  simp only
  rw [beforeRank_eq ⟨r, hr⟩]
  by_cases hne : l = []
  · subst hne; simp [lastRank]
  · rw [lastRank_positional h1 hne]
    simp only
    by_cases hc : l.length - 1 < r
    · have : (List.range r).contains (l.length - 1) = true := by simp [hc]
      rw [this]
      simp only [if_true]
      rw [List.take_of_length_le (by omega)]
    · have : (List.range r).contains (l.length - 1) = false := by simp [hc]
      rw [this]
      simp only [Bool.false_eq_true, if_false]
      have hlen : 0 < l.length := List.length_pos_iff.mpr hne
      exact popWhileRev_positional r l h1 (by omega)

end Sm.Lca
