/-
Insertion into a tree loaded from a SPARSE save (current source: `add_node` first rebuilds every
node recorded in `_missing_nodes`, `_rebuild_node` merges every child): the repair step turns
the loaded tree back into an insertion-shaped covered tree, so the insertion succeeds, keeps
`Cover`, and loses no stored signature.
-/
import SmVerif.Lemmas.SBTRebuild
import SmVerif.Lemmas.SBTInsert

namespace Sm.SBT

/-! ### where `rebuild` can create nodes -/

theorem rebuild_dom (fixed : Bool) : ∀ (fuel : Nat) (t t' : Tree) (pos : Nat),
    rebuild fixed fuel t pos = .ok t' →
    ∀ q, (t'.nodes.get? q).isSome = true → (t.nodes.get? q).isSome = true ∨ q = pos ∨ q ∈ t.missing := by
  intro fuel
  induction fuel with
  | zero => intro t t' pos h; rw [rebuild_zero] at h; cases h
  | succ fuel ih =>
    intro t t' pos h
    rw [rebuild_succ] at h
    split at h
    · cases h; intro q hq; exact Or.inl hq
    · rename_i hnone
      have key := foldlM_range_inv (rbStep fixed fuel pos)
        (fun _ (s : Tree) => s.missing = t.missing ∧
          ∀ q, (s.nodes.get? q).isSome = true → (t.nodes.get? q).isSome = true ∨ q = pos ∨ q ∈ t.missing)
        t.d ?_ ?_ h
      · exact key.2
      · intro i s s' _ ⟨hm, hdom⟩ hstep
        have modcase : ∀ (f : INode → INode), (s.modNode pos f).missing = t.missing ∧
            ∀ q, ((s.modNode pos f).nodes.get? q).isSome = true →
              (t.nodes.get? q).isSome = true ∨ q = pos ∨ q ∈ t.missing := by
          intro f
          refine ⟨by rw [(modNode_fields s pos f).2.1, hm], ?_⟩
          intro q hq
          rw [modNode_get?] at hq
          split at hq
          · rename_i hqp; exact Or.inr (Or.inl hqp)
          · exact hdom q hq
        rcases rbStep_cases hstep with ⟨l, _, rfl⟩ | ⟨_, cn, _, rfl⟩ | ⟨_, _, _, _, rfl⟩ |
            ⟨_, _, hmc, s1, cn, hr, _, rfl⟩ | ⟨_, _, _, rfl⟩
        · exact modcase _
        · exact modcase _
        · exact ⟨hm, hdom⟩
        · have hfr := rebuild_frame hr
          have hs1m : s1.missing = t.missing := by rw [hfr.2.1, hm]
          have hdom1 := ih s s1 _ hr
          refine ⟨by rw [(modNode_fields s1 pos _).2.1, hs1m], ?_⟩
          intro q hq
          rw [modNode_get?] at hq
          split at hq
          · rename_i hqp; exact Or.inr (Or.inl hqp)
          · rcases hdom1 q hq with h1 | h1 | h1
            · exact hdom q h1
            · right; right
              rw [h1, ← hm]
              exact List.contains_iff_mem.mp hmc
            · right; right; rw [← hm]; exact h1
        · exact ⟨hm, hdom⟩
      · refine ⟨rfl, ?_⟩
        intro q hq
        simp only [PMap.get?_set] at hq
        split at hq
        · rename_i hqp; exact Or.inr (Or.inl hqp)
        · exact Or.inl hq

/-! ### the repair step of `add_node` -/

theorem mem_sortAsc_ins {x y : Nat} : ∀ {l : List Nat}, (y = x ∨ y ∈ l) → y ∈ sortAsc.ins x l := by
  intro l
  induction l with
  | nil =>
    intro h
    rcases h with h | h
    · simp [sortAsc.ins, h]
    · cases h
  | cons z zs ih =>
    intro h
    simp only [sortAsc.ins]
    split
    · rcases h with h | h
      · simp [h]
      · exact List.mem_cons_of_mem _ h
    · rcases h with h | h
      · exact List.mem_cons_of_mem _ (ih (Or.inl h))
      · rcases List.mem_cons.mp h with h | h
        · simp [h]
        · exact List.mem_cons_of_mem _ (ih (Or.inr h))

theorem mem_sortAsc_of_mem {l : List Nat} {y : Nat} (h : y ∈ l) : y ∈ sortAsc l := by
  unfold sortAsc
  have gen : ∀ (l acc : List Nat), (y ∈ acc ∨ y ∈ l) → y ∈ l.foldl (fun acc x => sortAsc.ins x acc) acc := by
    intro l
    induction l with
    | nil =>
      intro acc h
      rcases h with h | h
      · exact h
      · cases h
    | cons x xs ih =>
      intro acc h
      simp only [List.foldl_cons]
      apply ih
      rcases h with h | h
      · exact Or.inl (mem_sortAsc_ins (Or.inr h))
      · rcases List.mem_cons.mp h with h | h
        · exact Or.inl (mem_sortAsc_ins (Or.inl h))
        · exact Or.inr h
  exact gen l [] (Or.inr h)

/-- the repair loop with the repaired `_rebuild_node`: never fails, keeps `Base`/`Cover` and
the frame, keeps every node, leaves a node at every listed position, and creates nodes only at
listed or missing positions -/
theorem rebuildMissing_spec : ∀ (ps : List Nat) (t : Tree), Base t → Cover t →
    ∃ t', rebuildMissing true ps t = .ok t' ∧ Base t' ∧ Cover t' ∧ t'.leaves = t.leaves ∧
      t'.missing = t.missing ∧ t'.d = t.d ∧ t'.sizes = t.sizes ∧
      (∀ q n, t.nodes.get? q = some n → t'.nodes.get? q = some n) ∧
      (∀ p ∈ ps, (t'.nodes.get? p).isSome = true) ∧
      (∀ q, (t'.nodes.get? q).isSome = true → (t.nodes.get? q).isSome = true ∨ q ∈ ps ∨ q ∈ t.missing) := by
  intro ps
  induction ps with
  | nil =>
    intro t hb hc
    exact ⟨t, rfl, hb, hc, rfl, rfl, rfl, rfl, fun _ _ h => h, by simp, fun q h => Or.inl h⟩
  | cons p ps ih =>
    intro t hb hc
    obtain ⟨t1, h1⟩ := rebuild_fuel_enough (fixed := true) (t := t) (pos := p)
    obtain ⟨hb1, hc1⟩ := rebuild_fixed_cover hb hc h1
    obtain ⟨hl1, hm1, hd1, hs1, _, _, _, hkeep1, hpos1, _⟩ := rebuild_frame h1
    have hdom1 := rebuild_dom true _ _ _ _ h1
    obtain ⟨t', h2, hb', hc', hl', hm', hd', hs', hkeep', hps', hdom'⟩ := ih t1 hb1 hc1
    refine ⟨t', ?_, hb', hc', hl'.trans hl1, hm'.trans hm1, hd'.trans hd1, hs'.trans hs1, ?_, ?_, ?_⟩
    · simp only [rebuildMissing, h1, bind, Except.bind]
      exact h2
    · intro q n hq; exact hkeep' q n (hkeep1 q n hq)
    · intro x hx
      rcases List.mem_cons.mp hx with hx | hx
      · subst hx
        obtain ⟨n, hn⟩ := Option.isSome_iff_exists.mp hpos1
        rw [hkeep' x n hn]; rfl
      · exact hps' x hx
    · intro q hq
      rcases hdom' q hq with h | h | h
      · rcases hdom1 q h with h | h | h
        · exact Or.inl h
        · exact Or.inr (Or.inl (by rw [h]; exact List.mem_cons_self))
        · exact Or.inr (Or.inr h)
      · exact Or.inr (Or.inl (List.mem_cons_of_mem _ h))
      · exact Or.inr (Or.inr (by rw [← hm1]; exact h))

/-! ### the shape of a sparse-loaded insertion-built tree -/

/-- as `Shape`, but an internal position may be absent when it is listed in `missing` -/
structure LShape (t : Tree) (m M : Nat) : Prop where
  m1 : 1 ≤ m
  mM : m ≤ M
  Mdm : M ≤ t.d * m
  nodesLt : ∀ p, (t.nodes.get? p).isSome = true → p < m
  nodesOr : ∀ p, p < m → (t.nodes.get? p).isSome = true ∨ p ∈ t.missing
  leaves : ∀ p, (t.leaves.get? p).isSome = true ↔ (m ≤ p ∧ p ≤ M)
  missing : ∀ a ∈ t.missing, a < m

theorem Shape.toLShape {t : Tree} {m M : Nat} (h : Shape t m M) : LShape t m M :=
  ⟨h.m1, h.mM, h.Mdm, fun p hp => (h.nodes p).mp hp, fun p hp => Or.inl ((h.nodes p).mpr hp), h.leaves, h.missing⟩

/-- the repair step makes an insertion shape out of a loaded shape -/
theorem repair_lshape {t : Tree} {m M : Nat} (hb : Base t) (hc : Cover t) (hs : LShape t m M) :
    ∃ t', rebuildMissing true (sortAsc t.missing) t = .ok t' ∧ Base t' ∧ Cover t' ∧ Shape t' m M ∧
      t'.leaves = t.leaves ∧ t'.d = t.d ∧ t'.sizes = t.sizes ∧ t'.missing = t.missing ∧
      (∀ q n, t.nodes.get? q = some n → t'.nodes.get? q = some n) := by
  obtain ⟨t', h1, hb', hc', hl', hm', hd', hsz', hkeep, hps, hdom⟩ := rebuildMissing_spec (sortAsc t.missing) t hb hc
  refine ⟨t', h1, hb', hc', ?_, hl', hd', hsz', hm', hkeep⟩
  refine ⟨hs.m1, hs.mM, by rw [hd']; exact hs.Mdm, ?_, by rw [hl']; exact hs.leaves, by rw [hm']; exact hs.missing⟩
  intro p
  constructor
  · intro hp
    rcases hdom p hp with h | h | h
    · exact hs.nodesLt p h
    · exact hs.missing p (mem_of_mem_sortAsc h)
    · exact hs.missing p h
  · intro hp
    rcases hs.nodesOr p hp with h | h
    · obtain ⟨n, hn⟩ := Option.isSome_iff_exists.mp h
      rw [hkeep p n hn]; rfl
    · exact hps p (mem_sortAsc_of_mem h)

/-- **insertion into a loaded-shape tree** (current source: repaired `_rebuild_node`, repair step
first): succeeds, gives an insertion-shaped covered tree, keeps every stored leaf -/
theorem addNode_lshape {t : Tree} {m M : Nat} (hb : Base t) (hc : Cover t) (hs : LShape t m M) (l : Leaf) :
    ∃ t', addNode true true t l = .ok t' ∧ InsInv t' ∧ t'.d = t.d ∧ t'.sizes = t.sizes ∧
      t'.missing = t.missing ∧
      (∃ p, t'.leaves.get? p = some l) ∧
      (∀ p0 l0, t.leaves.get? p0 = some l0 → ∃ p', t'.leaves.get? p' = some l0) := by
  obtain ⟨t1, h1, hb1, hc1, hs1, hl1, hd1, hsz1, hm1, _⟩ := repair_lshape hb hc hs
  obtain ⟨t', h2, hinv, hd', hsz', hm', hnew, hold⟩ :=
    addNodeCore_inv (fixed := true) (t := t1) ⟨hb1, hc1, Or.inr ⟨m, M, hs1⟩⟩ l
  refine ⟨t', ?_, hinv, hd'.trans hd1, hsz'.trans hsz1, hm'.trans hm1, hnew, ?_⟩
  · unfold addNode
    simp only [↓reduceIte, h1, bind, Except.bind]
    exact h2
  · intro p0 l0 h0
    exact hold p0 l0 (by rw [hl1]; exact h0)

/-! ### a sparse save + load of an insertion-built tree has the loaded shape -/

theorem listMax_zero_cons_le' {l : List Nat} {B : Nat} (h : ∀ x ∈ l, x ≤ B) : listMax (0 :: l) ≤ B := by
  show l.foldl max 0 ≤ B
  rcases foldl_max_mem l 0 with h0 | h0
  · rw [h0]; exact Nat.zero_le _
  · exact h _ h0

theorem lshape_after_load {fixed : Bool} {t t' : Tree} {m M : Nat} (omitted : Nat → Bool) {ver : Nat}
    (cm : Option Nat) (hv : ver ≠ 3) (hs : Shape t m M) (h : load fixed (save t omitted) ver cm = .ok t') :
    LShape t' m M := by
  have ht' := load_ok hv h
  subst ht'
  have hget := loadNodes_save_get? t omitted
  have hleaves : (save t omitted).leaves = t.leaves := rfl
  have hnodesLt : ∀ p, (PMap.get? (loadNodes (save t omitted)) p).isSome = true → p < m := by
    intro p hp
    rw [hget p] at hp
    split at hp
    · cases hp
    · rw [Option.isSome_map] at hp; exact (hs.nodes p).mp hp
  have hmaxle : listMax (0 :: (PMap.keys (save t omitted).nodes ++ PMap.keys (save t omitted).leaves)) ≤ M := by
    apply listMax_zero_cons_le'
    intro x hx
    rcases List.mem_append.mp hx with hx | hx
    · have h1 : (PMap.get? (save t omitted).nodes x).isSome = true := PMap.mem_keys_iff.mp hx
      have e2 : PMap.get? (save t omitted).nodes x = _ :=
        PMap.get?_map_val (t.nodes.filter (fun kv => !omitted kv.1))
          (fun n : INode => (⟨n.data t.sizes, n.minN⟩ : SavedNode)) x
      have e3 := PMap.get?_filter_key t.nodes (fun k => !omitted k) x
      rw [e2, e3] at h1
      have : (t.nodes.get? x).isSome = true := by
        split at h1
        · simpa using h1
        · cases h1
      have := (hs.nodes x).mp this
      have := hs.mM
      omega
    · have h1 : (t.leaves.get? x).isSome = true := PMap.mem_keys_iff.mp hx
      exact ((hs.leaves x).mp h1).2
  have hmaxge : M ≤ listMax (0 :: (PMap.keys (save t omitted).nodes ++ PMap.keys (save t omitted).leaves)) := by
    apply le_listMax
    apply List.mem_cons_of_mem
    apply List.mem_append_right
    exact PMap.mem_keys_iff.mpr ((hs.leaves M).mpr ⟨hs.mM, Nat.le_refl _⟩)
  refine ⟨hs.m1, hs.mM, hs.Mdm, hnodesLt, ?_, hs.leaves, ?_⟩
  · intro p hp
    cases hn : PMap.get? (loadNodes (save t omitted)) p with
    | some n => left; rfl
    | none =>
      right
      show p ∈ loadMissing (save t omitted)
      unfold loadMissing
      rw [List.mem_filter, List.mem_range]
      have hlp : PMap.get? t.leaves p = none := (hs.node_at hp).2
      have := hs.mM
      refine ⟨by omega, ?_⟩
      simp [PMap.has, hn, hleaves, hlp]
  · intro a ha
    change a ∈ loadMissing (save t omitted) at ha
    unfold loadMissing at ha
    rw [List.mem_filter, List.mem_range] at ha
    obtain ⟨hlt, hno⟩ := ha
    simp only [PMap.has, hleaves, Bool.and_eq_true, Bool.not_eq_true', Option.isSome_eq_false_iff,
      Option.isNone_iff_eq_none] at hno
    have hnl : ¬ (m ≤ a ∧ a ≤ M) := by
      intro hc
      have := (hs.leaves a).mpr hc
      rw [hno.2] at this; cases this
    omega

/-- **insert after a sparse load** (any omitted subset, index versions 4-6, any cache bound):
the insertion succeeds, the result is an insertion-shaped covered tree, the new leaf is there
and every signature that was stored still is -/
theorem insert_after_sparse_load {fixed0 : Bool} {t t1 : Tree} (omitted : Nat → Bool) {ver : Nat}
    (cm : Option Nat) (hv : ver ≠ 3) (h : InsInv t) (hl : load fixed0 (save t omitted) ver cm = .ok t1) (l : Leaf) :
    ∃ t2, addNode true true t1 l = .ok t2 ∧ InsInv t2 ∧ Cover t2 ∧ t2.d = t.d ∧ t2.sizes = t.sizes ∧
      (∃ p, t2.leaves.get? p = some l) ∧
      (∀ p0 l0, t.leaves.get? p0 = some l0 → ∃ p', t2.leaves.get? p' = some l0) := by
  obtain ⟨hb, hc, hsh⟩ := h
  obtain ⟨hb1, hc1, _, hle, hd, hsz, _, _⟩ := load_save_cover omitted cm hv hb hc hl
  rcases hsh with he | ⟨m, M, hs⟩
  · exfalso
    unfold load at hl
    have : (save t omitted).leaves = [] := he.2.1
    simp [this] at hl
  · have hls := lshape_after_load omitted cm hv hs hl
    obtain ⟨t2, h2, hinv, hd2, hsz2, _, hnew, hold⟩ := addNode_lshape hb1 hc1 hls l
    exact ⟨t2, h2, hinv, hinv.2.1, hd2.trans hd, hsz2.trans hsz, hnew,
      fun p0 l0 h0 => hold p0 l0 (by rw [hle]; exact h0)⟩

end Sm.SBT
