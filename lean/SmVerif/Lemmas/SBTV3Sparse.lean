/-
Index version 3 after a SPARSE save, with the repaired `_rebuild_node`: `_fill_min_n_below` rebuilds every omitted
internal node on the way up and establishes `Cover`.
-/
import SmVerif.Lemmas.SBTV3Core

namespace Sm.SBT

open Sm.NG

/-! ### `_rebuild_node` when no child needs rebuilding -/

theorem rebuild_flat {fuel : Nat} {s s1 : Tree} {pos : Nat} (hd : 1 ≤ s.d) (hnone : s.nodes.get? pos = none)
    (hflat : ∀ i, i < s.d → s.leaves.get? (child s.d pos i) = none → s.nodes.get? (child s.d pos i) = none →
      s.missing.contains (child s.d pos i) = false)
    (h : rebuild true (fuel + 1) s pos = .ok s1) : ∀ q, q ≠ pos → s1.nodes.get? q = s.nodes.get? q := by
  rw [rebuild_succ, hnone] at h
  simp only at h
  have key := foldlM_range_inv (rbStep true fuel pos)
    (fun _ (st : Tree) => SameF s st ∧ ∀ q, q ≠ pos → st.nodes.get? q = s.nodes.get? q) s.d ?_ ?_ h
  · exact key.2
  · intro i st st' hi ⟨hsame, hget⟩ hstep
    have hmod : ∀ f : INode → INode, SameF s (st.modNode pos f) ∧
        ∀ q, q ≠ pos → (st.modNode pos f).nodes.get? q = s.nodes.get? q := by
      intro f
      refine ⟨hsame.trans (SameF.modNode _ _ _), ?_⟩
      intro q hq
      rw [modNode_get?, if_neg hq]; exact hget q hq
    rcases rbStep_cases hstep with ⟨l, _, rfl⟩ | ⟨_, cn, _, rfl⟩ | ⟨_, _, hfx, _, rfl⟩ |
      ⟨hl0, hcn, hm, _⟩ | ⟨_, _, _, rfl⟩
    · exact hmod _
    · exact hmod _
    · cases hfx
    · exfalso
      obtain ⟨e1, e2, e3, _⟩ := hsame
      rw [e3] at hl0 hcn hm
      rw [e1] at hl0
      rw [e2] at hm
      have hne : child s.d pos i ≠ pos := by have := child_gt s.d pos i hd; omega
      rw [hget _ hne] at hcn
      rw [hflat i hi hl0 hcn] at hm
      cases hm
    · exact ⟨hsame, hget⟩
  · refine ⟨⟨rfl, rfl, rfl, rfl, rfl, rfl, rfl⟩, ?_⟩
    intro q hq
    show PMap.get? (PMap.set s.nodes pos INode.fresh) q = _
    rw [PMap.get?_set_ne _ _ hq]

/-! ### one iteration of `_fill_up` when the parent is missing and gets rebuilt -/

theorem fillUpLoop_step_rebuild {fixed : Bool} {fn : Tree → Nat → INode → INode × Bool} {fuel : Nat} {s s1 : Tree}
    {visited rest : List Nat} {c : Nat} {n1 : INode} (hc : c ≠ 0) (hl : s.leaves.get? (parent s.d c) = none)
    (hn : s.nodes.get? (parent s.d c) = none) (hm : s.missing.contains (parent s.d c) = true)
    (hr : rebuild fixed s.rebuildFuel s (parent s.d c) = .ok s1) (hv : visited.contains c = false)
    (hl1 : s1.leaves.get? (parent s.d c) = none) (hn1 : s1.nodes.get? (parent s.d c) = some n1) :
    fillUpLoop fixed fn (fuel + 1) s visited (c :: rest) =
      fillUpLoop fixed fn fuel { s1 with nodes := s1.nodes.set (parent s.d c) (fn s1 (parent s.d c) n1).1 }
        (((List.range s1.d).map (child s1.d (parent s.d c))).reverse ++ c :: visited)
        (((List.range s1.d).map (child s1.d (parent s.d c))).foldl (fun q x => removeFirst x q) rest ++ [parent s.d c]) := by
  rw [fillUpLoop_cons, if_neg hc]
  have hat : s.at (parent s.d c) = .none := by simp [Tree.at, hl, hn]
  have hfs : fillStep fixed s (parent s.d c) = .ok (some (s1, true)) := by
    unfold fillStep; rw [hat]; simp only [hm, ↓reduceIte, hr, bind, Except.bind]; rfl
  rw [hfs]
  have hat1 : s1.at (parent s.d c) = .node n1 := at_node hl1 hn1
  simp only [hv, Bool.false_eq_true, ↓reduceIte, hat1, Bool.or_true]

/-! ### the invariant on the tree -/

/-- present nodes answer "present" for every hash of every leaf below them -/
def CoverBits (t0 s : Tree) : Prop :=
  ∀ p l, t0.leaves.get? p = some l → ∀ a ∈ ancestors t0.d p, ∀ n, s.nodes.get? a = some n →
    ∀ h ∈ l.hashes, (n.data t0.sizes).has h = true

/-- what is fixed during the run -/
structure SHyp (t0 : Tree) (m M : Nat) : Prop where
  d2 : 2 ≤ t0.d
  m1 : 1 ≤ m
  mM : m ≤ M
  Mdm : M ≤ t0.d * m
  low : t0.d * (m - 1) + 1 ≤ M
  leaves : ∀ p, (t0.leaves.get? p).isSome = true ↔ (m ≤ p ∧ p ≤ M)
  missing : ∀ a ∈ t0.missing, a < m
  small : SmallLeaves t0

structure SInv (t0 : Tree) (m M : Nat) (s : Tree) (visited queue : List Nat) : Prop where
  same : SameF t0 s
  base : Base s
  clean : Clean s
  q : QInv t0.d m M (minAt s) visited queue
  pos : ∀ x, minAt s x ≠ some 0
  dom : ∀ p, (s.nodes.get? p).isSome = true → p < m
  absent : ∀ p, p < m → s.nodes.get? p = none → p ∈ t0.missing
  bits : CoverBits t0 s
  final : ∀ x, (minAt s x).isSome = true → Final t0 s x

theorem minAt_isSome {s : Tree} {x : Nat} (h : (minAt s x).isSome = true) :
    ∃ n v, s.nodes.get? x = some n ∧ n.minN = some v ∧ minAt s x = some v := by
  unfold minAt at h ⊢
  cases hn : s.nodes.get? x with
  | none => rw [hn] at h; cases h
  | some n =>
    rw [hn] at h
    cases hv : n.minN with
    | none => simp [hv] at h
    | some v => exact ⟨n, v, rfl, hv, by simp [hv]⟩

theorem SHyp.leaf_none {t0 : Tree} {m M : Nat} (hh : SHyp t0 m M) {p : Nat} (hp : p < m) : t0.leaves.get? p = none := by
  cases h : t0.leaves.get? p with
  | none => rfl
  | some l => have := (hh.leaves p).mp (by rw [h]; rfl); omega

/-- the value `fill_min_n_below` computes at the parent of the head of the queue is a proper bound -/
theorem s_vbound {t0 : Tree} {m M : Nat} (hh : SHyp t0 m M) {ns ns1 : PMap INode} {visited rest : List Nat} {c : Nat}
    (hc0 : c ≠ 0) (hinv : SInv t0 m M { t0 with nodes := ns } visited (c :: rest))
    (hkids : ∀ i, i < t0.d → ns1.get? (child t0.d (parent t0.d c) i) = ns.get? (child t0.d (parent t0.d c) i))
    (init : Nat) :
    minFold { t0 with nodes := ns1 } (parent t0.d c) init < maxsize ∧
    ∀ p l, t0.leaves.get? p = some l → parent t0.d c ∈ ancestors t0.d p →
      minFold { t0 with nodes := ns1 } (parent t0.d c) init ≤ max 1 l.hashes.length := by
  have hd := hh.d2
  have hd0 : 0 < t0.d := by omega
  have hc1 : 0 < c := Nat.pos_of_ne_zero hc0
  have hcM : c ≤ M := hinv.q.qle c List.mem_cons_self
  obtain ⟨hb1, hb2⟩ := child_block (d := t0.d) hd0 hc1
  generalize hF : minFold { t0 with nodes := ns1 } (parent t0.d c) init = F
  constructor
  · have hci : c - (t0.d * parent t0.d c + 1) < t0.d := by omega
    have e : child t0.d (parent t0.d c) (c - (t0.d * parent t0.d c + 1)) = c := by unfold child; omega
    have hk := hkids _ hci
    rw [e] at hk
    by_cases hcm : c < m
    · have h1 := hinv.q.qproc c List.mem_cons_self hcm
      obtain ⟨cn, v, hcn, hv, hmv⟩ := minAt_isSome h1
      obtain ⟨v', hv', hvlt, _⟩ := hinv.final c h1
      rw [hmv] at hv'; cases hv'
      have := minFold_le_node (s := { t0 with nodes := ns1 }) (pp := parent t0.d c) init hci
        (by rw [e]; exact hh.leaf_none hcm) (by rw [e]; exact hk.trans hcn)
      rw [hF, hv] at this
      simp only [Option.getD_some] at this
      omega
    · obtain ⟨l, hl⟩ := Option.isSome_iff_exists.mp ((hh.leaves c).mpr ⟨by omega, hcM⟩)
      have := minFold_le_leaf (s := { t0 with nodes := ns1 }) (pp := parent t0.d c) init hci (by rw [e]; exact hl)
      rw [hF] at this
      have := hh.small c l hl
      omega
  · intro p l hl ha
    obtain ⟨i, hi, hcase⟩ := below_cases hd0 ha
    rcases hcase with rfl | hy
    · have := minFold_le_leaf (s := { t0 with nodes := ns1 }) (pp := parent t0.d c) init hi hl
      rw [hF] at this; omega
    · have hpM : p ≤ M := ((hh.leaves p).mp (by rw [hl]; rfl)).2
      have hym : child t0.d (parent t0.d c) i < m := ancestor_lt hd0 (Nat.le_trans hpM hh.Mdm) hy
      have hyproc := hinv.q.child_proc hd hh.low hc1 hym
      obtain ⟨cy, vy, hcy, hvy, hmvy⟩ := minAt_isSome hyproc
      obtain ⟨v', hv', _, hvyle⟩ := hinv.final _ hyproc
      rw [hmvy] at hv'; cases hv'
      have := minFold_le_node (s := { t0 with nodes := ns1 }) (pp := parent t0.d c) init hi
        (hh.leaf_none hym) ((hkids i hi).trans hcy)
      rw [hF, hvy] at this
      simp only [Option.getD_some] at this
      have := hvyle p l hl hy
      omega

/-- bookkeeping for one processed pop: the node at the parent of the head is replaced (or created) -/
theorem s_process {t0 : Tree} {m M : Nat} (hh : SHyp t0 m M) {ns ns' : PMap INode} {visited rest : List Nat} {c : Nat}
    (hc0 : c ≠ 0) (hinv : SInv t0 m M { t0 with nodes := ns } visited (c :: rest)) {n' : INode} {V : Nat}
    (hget : ∀ x, ns'.get? x = if x = parent t0.d c then some n' else ns.get? x)
    (hdata : DataOK t0.sizes n') (hclean : n'.hasStorage = true → n'.mem = none) (hmin : n'.minN = some V)
    (hV0 : V ≠ 0) (hVlt : V < maxsize)
    (hVle : ∀ p l, t0.leaves.get? p = some l → parent t0.d c ∈ ancestors t0.d p → V ≤ max 1 l.hashes.length)
    (hbits : ∀ p l, t0.leaves.get? p = some l → parent t0.d c ∈ ancestors t0.d p →
      ∀ h ∈ l.hashes, (n'.data t0.sizes).has h = true) :
    SInv t0 m M { t0 with nodes := ns' } (((List.range t0.d).map (child t0.d (parent t0.d c))).reverse ++ c :: visited)
      (((List.range t0.d).map (child t0.d (parent t0.d c))).foldl (fun q x => removeFirst x q) rest ++ [parent t0.d c]) ∧
    ∀ x ∈ ((List.range t0.d).map (child t0.d (parent t0.d c))).foldl (fun q x => removeFirst x q) rest ++ [parent t0.d c],
      x < c := by
  obtain ⟨hpp, _, hunproc, hq⟩ := q_step hh.d2 hh.mM hh.Mdm hh.low hc0 hinv.q
  have hmin' : ∀ x, minAt { t0 with nodes := ns' } x =
      if x = parent t0.d c then some V else minAt { t0 with nodes := ns } x := by
    intro x
    unfold minAt
    show (PMap.get? ns' x).bind _ = _
    rw [hget]
    split
    · exact hmin
    · rfl
  obtain ⟨hq', hlt⟩ := hq V _ hmin'
  refine ⟨⟨⟨rfl, rfl, rfl, rfl, rfl, rfl, rfl⟩, ⟨hinv.base.d2, hinv.base.sizes, ?_⟩, ?_, hq', ?_, ?_, ?_, ?_, ?_⟩, hlt⟩
  · intro p n hn
    have hn' : PMap.get? ns' p = some n := hn
    rw [hget] at hn'
    split at hn'
    · cases hn'; exact hdata
    · exact hinv.base.nodesOK p n hn'
  · intro p n hn
    have hn' : PMap.get? ns' p = some n := hn
    rw [hget] at hn'
    split at hn'
    · cases hn'; exact hclean
    · exact hinv.clean p n hn'
  · intro x
    rw [hmin']
    split
    · intro h; cases h; exact hV0 rfl
    · exact hinv.pos x
  · intro p hp
    have hp' : (PMap.get? ns' p).isSome = true := hp
    rw [hget] at hp'
    split at hp'
    · rename_i h; rw [h]; exact hpp
    · exact hinv.dom p hp'
  · intro p hp hn
    have hn' : PMap.get? ns' p = none := hn
    rw [hget] at hn'
    split at hn'
    · cases hn'
    · exact hinv.absent p hp hn'
  · intro p l hl a ha n hn
    have hn' : PMap.get? ns' a = some n := hn
    rw [hget] at hn'
    split at hn'
    · rename_i h; subst h; cases hn'; exact hbits p l hl ha
    · exact hinv.bits p l hl a ha n hn'
  · intro x hx
    by_cases hxp : x = parent t0.d c
    · subst hxp
      exact ⟨V, by rw [hmin', if_pos rfl], hVlt, hVle⟩
    · rw [hmin', if_neg hxp] at hx
      obtain ⟨v, hv, hvlt, hvle⟩ := hinv.final x hx
      exact ⟨v, by rw [hmin', if_neg hxp]; exact hv, hvlt, hvle⟩

/-- one pop of `_fill_up` (repaired `_rebuild_node`) from a state satisfying the invariant -/
theorem s_step {t0 : Tree} {m M : Nat} (hh : SHyp t0 m M) {ns : PMap INode} {visited rest : List Nat} {c : Nat}
    (hc0 : c ≠ 0) (hinv : SInv t0 m M { t0 with nodes := ns } visited (c :: rest)) :
    ∃ s' visited' Q', (∀ fuel, fillUpLoop true fillMinFn (fuel + 1) { t0 with nodes := ns } visited (c :: rest) =
        fillUpLoop true fillMinFn fuel s' visited' Q') ∧ SInv t0 m M s' visited' Q' ∧ ∀ x ∈ Q', x < c := by
  have hd := hh.d2
  have hd0 : 0 < t0.d := by omega
  have hc1 : 0 < c := Nat.pos_of_ne_zero hc0
  obtain ⟨hpp, hv, hunproc, _⟩ := q_step hh.d2 hh.mM hh.Mdm hh.low hc0 hinv.q
  have hl : t0.leaves.get? (parent t0.d c) = none := hh.leaf_none hpp
  cases hn : ns.get? (parent t0.d c) with
  | some n =>
    -- the parent is present and has no value yet
    have hnmin : n.minN = none := by
      rw [← minAt_of_get (s := { t0 with nodes := ns }) hn]; exact hunproc
    obtain ⟨hFlt, hFle⟩ := s_vbound hh hc0 hinv (ns1 := ns) (fun _ _ => rfl) maxsize
    generalize hF : minFold { t0 with nodes := ns } (parent t0.d c) maxsize = F at hFlt hFle
    have hfn : fillMinFn { t0 with nodes := ns } (parent t0.d c) n =
        ({ n with minN := some (clamp F) }, maxsize != clamp F) := by
      rw [fillMinFn_eq, hnmin]; simp only [Option.getD_none, hF]
    have hagain : (maxsize != clamp F) = true := by
      have := clamp_lt_maxsize hFlt
      simp only [bne_iff_ne, ne_eq]; omega
    have hdn := hinv.base.nodesOK _ n hn
    obtain ⟨hinv', hlt⟩ := s_process hh hc0 hinv (ns' := ns.set (parent t0.d c) { n with minN := some (clamp F) })
      (n' := { n with minN := some (clamp F) }) (V := clamp F) (fun x => PMap.get?_set _ _ _ _)
      ⟨hdn.1, hdn.2⟩ (hinv.clean _ n hn) rfl (fun h => clamp_ne_zero F (by rw [h])) (clamp_lt_maxsize hFlt)
      (fun p l hl ha => clamp_le_max (hFle p l hl ha))
      (fun p l hl ha => hinv.bits p l hl _ ha n hn)
    refine ⟨_, _, _, ?_, hinv', hlt⟩
    intro fuel
    rw [fillUpLoop_step (s := { t0 with nodes := ns }) hc0 hl hn hv, hfn]
    simp only [hagain, ↓reduceIte]
  | none =>
    -- the parent was omitted from the save: it is rebuilt first
    have hmiss : parent t0.d c ∈ t0.missing := hinv.absent _ hpp hn
    obtain ⟨s1, hr⟩ := rebuild_fuel_enough (fixed := true) (t := { t0 with nodes := ns }) (pos := parent t0.d c)
    have hfr := rebuild_frame_aux true _ _ s1 _ hr
    obtain ⟨ns1, rfl⟩ : ∃ ns1, s1 = { t0 with nodes := ns1 } := ⟨s1.nodes, hfr.1.eq⟩
    obtain ⟨n1, hn1⟩ : ∃ n1, ns1.get? (parent t0.d c) = some n1 := Option.isSome_iff_exists.mp hfr.2.2.1
    -- no child needs rebuilding
    have hflat : ∀ i, i < t0.d → t0.leaves.get? (child t0.d (parent t0.d c) i) = none →
        ns.get? (child t0.d (parent t0.d c) i) = none → t0.missing.contains (child t0.d (parent t0.d c) i) = false := by
      intro i hi _ hnn
      cases hcont : t0.missing.contains (child t0.d (parent t0.d c) i) with
      | false => rfl
      | true =>
        exfalso
        have hym : child t0.d (parent t0.d c) i < m := hh.missing _ (List.contains_iff_mem.mp hcont)
        obtain ⟨cy, _, hcy, _⟩ := minAt_isSome (hinv.q.child_proc hd hh.low hc1 hym)
        have : ns.get? (child t0.d (parent t0.d c) i) = some cy := hcy
        rw [hnn] at this; cases this
    have hflatq : ∀ q, q ≠ parent t0.d c → ns1.get? q = ns.get? q := by
      rw [rebuildFuel_succ] at hr
      exact rebuild_flat (s := { t0 with nodes := ns }) (by show 1 ≤ t0.d; omega) hn hflat hr
    -- the rebuilt node covers every leaf below it
    have hcx : CoverX (fun a => a < parent t0.d c ∧ (minAt { t0 with nodes := ns } a).isSome = false)
        { t0 with nodes := ns } := by
      intro p l hl' a ha
      have hpM : p ≤ M := ((hh.leaves p).mp (by rw [show t0.leaves.get? p = some l from hl']; rfl)).2
      have ham : a < m := ancestor_lt hd0 (Nat.le_trans hpM hh.Mdm) ha
      refine ⟨hh.leaf_none ham, ?_⟩
      intro hnx
      unfold CovAt
      cases hna : ns.get? a with
      | none =>
        show a ∈ t0.missing
        exact hinv.absent a ham hna
      | some na =>
        show Holds t0.sizes na l
        cases hproc : (minAt { t0 with nodes := ns } a).isSome with
        | true =>
          obtain ⟨na', v, hna', hv', hmv⟩ := minAt_isSome hproc
          have : na' = na := by
            have h1 : ns.get? a = some na' := hna'
            rw [hna] at h1; cases h1; rfl
          subst this
          obtain ⟨v', hv'', _, hvle⟩ := hinv.final a hproc
          rw [hmv] at hv''; cases hv''
          exact ⟨hinv.bits p l hl' a ha na' hna, v, hv', hvle p l hl' ha⟩
        | false =>
          exfalso
          have hle := hinv.q.unproc_le hd hh.low ham hproc
          have : ¬ a < parent t0.d c := fun h => hnx ⟨h, hproc⟩
          have : a = parent t0.d c := by omega
          rw [this, hn] at hna; cases hna
    obtain ⟨hb1, hcx1, _⟩ := rebuild_cover_aux true _ _ _ _ _ (fun a ha => ha.1) hinv.base hcx
      (fun hf => by cases hf) hr
    have hholds : ∀ p l, t0.leaves.get? p = some l → parent t0.d c ∈ ancestors t0.d p → Holds t0.sizes n1 l := by
      intro p l hl' ha
      have := (hcx1 p l hl' _ ha).2 (fun h => Nat.lt_irrefl _ h.1)
      unfold CovAt at this
      rw [show ({ t0 with nodes := ns1 } : Tree).nodes.get? (parent t0.d c) = some n1 from hn1] at this
      exact this
    have hcl1 : Clean { t0 with nodes := ns1 } := rebuild_clean hinv.clean hr
    obtain ⟨hFlt, hFle⟩ := s_vbound hh hc0 hinv (ns1 := ns1)
      (fun i _ => hflatq _ (by have := child_gt t0.d (parent t0.d c) i hd0; omega)) (n1.minN.getD maxsize)
    generalize hF : minFold { t0 with nodes := ns1 } (parent t0.d c) (n1.minN.getD maxsize) = F at hFlt hFle
    have hfn : (fillMinFn { t0 with nodes := ns1 } (parent t0.d c) n1).1 = { n1 with minN := some (clamp F) } := by
      rw [fillMinFn_eq, hF]
    have hdn := hb1.nodesOK _ n1 hn1
    obtain ⟨hinv', hlt⟩ := s_process hh hc0 hinv (ns' := ns1.set (parent t0.d c) { n1 with minN := some (clamp F) })
      (n' := { n1 with minN := some (clamp F) }) (V := clamp F)
      (fun x => by
        rw [PMap.get?_set]
        split
        · rfl
        · rename_i hx; exact hflatq x hx)
      ⟨hdn.1, hdn.2⟩ (hcl1 _ n1 hn1) rfl (fun h => clamp_ne_zero F (by rw [h])) (clamp_lt_maxsize hFlt)
      (fun p l hl ha => clamp_le_max (hFle p l hl ha))
      (fun p l hl' ha => (hholds p l hl' ha).1)
    refine ⟨_, _, _, ?_, hinv', hlt⟩
    intro fuel
    rw [fillUpLoop_step_rebuild (s := { t0 with nodes := ns }) (s1 := { t0 with nodes := ns1 }) hc0 hl hn
      (List.contains_iff_mem.mpr hmiss) hr hv hl hn1, hfn]

/-! ### the whole run -/

structure SPost (t0 : Tree) (m : Nat) (s : Tree) : Prop where
  same : SameF t0 s
  base : Base s
  clean : Clean s
  pos : ∀ x, minAt s x ≠ some 0
  dom : ∀ p, (s.nodes.get? p).isSome = true ↔ p < m
  bits : CoverBits t0 s
  final : ∀ x, x < m → Final t0 s x

theorem s_done {t0 : Tree} {m M : Nat} (hh : SHyp t0 m M) {s : Tree} {visited queue : List Nat}
    (hinv : SInv t0 m M s visited queue) (hq : ∀ x ∈ queue, x = 0) : SPost t0 m s := by
  have hproc : ∀ x, x < m → (minAt s x).isSome = true := fun x hx => hinv.q.done hh.d2 hh.low hq hx
  refine ⟨hinv.same, hinv.base, hinv.clean, hinv.pos, ?_, hinv.bits, fun x hx => hinv.final x (hproc x hx)⟩
  intro p
  constructor
  · exact hinv.dom p
  · intro hp
    obtain ⟨n, _, hn, _⟩ := minAt_isSome (hproc p hp)
    rw [hn]; rfl

theorem fillLoop_sparse {t0 : Tree} {m M : Nat} (hh : SHyp t0 m M) : ∀ (fuel : Nat) (s : Tree) (visited queue : List Nat),
    SInv t0 m M s visited queue → 1 ≤ fuel → (∀ x ∈ queue, x + 2 ≤ fuel) →
    ∃ s', fillUpLoop true fillMinFn fuel s visited queue = .ok s' ∧ SPost t0 m s' := by
  intro fuel
  induction fuel with
  | zero => intro s visited queue _ h; omega
  | succ fuel ih =>
    intro s visited queue hinv _ hfuel
    cases queue with
    | nil => exact ⟨s, fillUpLoop_nil _ _ _ _ _, s_done hh hinv (fun x hx => by cases hx)⟩
    | cons c rest =>
      by_cases hc0 : c = 0
      · subst hc0
        have hrest : rest = [] := by
          cases rest with
          | nil => rfl
          | cons y ys =>
            have := (List.pairwise_cons.mp hinv.q.sorted).1 y List.mem_cons_self
            omega
        subst hrest
        refine ⟨s, ?_, s_done hh hinv (fun x hx => by simpa using hx)⟩
        rw [fillUpLoop_cons]; simp
      · obtain ⟨ns, rfl⟩ : ∃ ns, s = { t0 with nodes := ns } := ⟨s.nodes, hinv.same.eq⟩
        obtain ⟨s', visited', Q', hstep, hinv', hlt⟩ := s_step hh hc0 hinv
        rw [hstep]
        have hcf := hfuel c List.mem_cons_self
        exact ih _ _ _ hinv' (by omega) (fun x hx => by have := hlt x hx; omega)

/-! ### the sparse-loaded tree before `_fill_min_n_below` runs -/

theorem v3Tree_save_get?' (t : Tree) (omitted : Nat → Bool) (cm : Option Nat) (p : Nat) :
    (v3Tree (save t omitted) cm).nodes.get? p =
      if omitted p = true then none else (t.nodes.get? p).map (reloaded3 t.sizes) := by
  show PMap.get? (loadNodes3 _) p = _
  rw [loadNodes3_get?, save_nodes_get?]
  split
  · rfl
  · simp only [Option.map_map]; rfl

theorem load_v4_ok (fixed : Bool) (im : Image) (cm : Option Nat) (h : im.leaves.isEmpty = false) :
    ∃ t4, load fixed im 4 cm = .ok t4 := by
  unfold load
  rw [h]
  simp

theorem v3Tree_lshape {t : Tree} {m M : Nat} (hs : Shape t m M) (omitted : Nat → Bool) (cm : Option Nat) :
    LShape (v3Tree (save t omitted) cm) m M := by
  have hne : (save t omitted).leaves.isEmpty = false :=
    not_isEmpty_of_get? (m := t.leaves) ((hs.leaves m).mpr ⟨Nat.le_refl _, hs.mM⟩)
  obtain ⟨t4, h4⟩ := load_v4_ok true (save t omitted) cm hne
  have hl4 := lshape_after_load omitted cm (by decide) hs h4
  have e4 := load_ok (by decide) h4
  have hn4 : t4.nodes = loadNodes (save t omitted) := by rw [e4]
  have hm4 : t4.missing = loadMissing (save t omitted) := by rw [e4]
  have hiso : ∀ p, ((v3Tree (save t omitted) cm).nodes.get? p).isSome = (t4.nodes.get? p).isSome := by
    intro p
    rw [v3Tree_save_get?', hn4, loadNodes_save_get?]
    split
    · rfl
    · simp
  have hmiss : (v3Tree (save t omitted) cm).missing = t4.missing := by rw [v3Tree_missing, hm4]
  refine ⟨hl4.m1, hl4.mM, hs.Mdm, ?_, ?_, hs.leaves, ?_⟩
  · intro p hp; rw [hiso] at hp; exact hl4.nodesLt p hp
  · intro p hp; rw [hiso, hmiss]; exact hl4.nodesOr p hp
  · intro a ha; rw [hmiss] at ha; exact hl4.missing a ha

/-- **`save` (any sparseness) + `load … 3 …` of an insertion-built tree with the repaired `_rebuild_node`**:
the load terminates without raising and `_fill_min_n_below` rebuilds every omitted internal node and establishes
`Cover`; the result is clean, has a positive `min_n_below` on every node, and every position listed as missing
is present again -/
theorem load_v3_sparse_spec {d : Nat} {sizes : List Nat} (hd : 2 ≤ d) (hsz : SizesOK sizes) {t : Tree}
    (hr : Reach d sizes t) (hsm : SmallLeaves t) (hne : t.leaves ≠ []) (omitted : Nat → Bool) (cm : Option Nat) :
    ∃ t', load true (save t omitted) 3 cm = .ok t' ∧
      t'.leaves = t.leaves ∧ t'.d = t.d ∧ t'.sizes = t.sizes ∧ t'.cache = [] ∧ t'.cacheMax = cm ∧
      (∀ p, (t'.nodes.get? p).isSome = (t.nodes.get? p).isSome) ∧
      Base t' ∧ Cover t' ∧ Clean t' ∧ MinPos t' ∧ MinSome t' ∧ AllPresent t' := by
  obtain ⟨⟨hb, hc, _⟩, hdd, _, _⟩ := reach_inv hd hsz hr
  have hnd := reach_leaves_nodup hd hsz hr
  rcases reach_lowInv hd hsz hr with he | ⟨m, M, hs, hlow⟩
  · exact absurd he.2.1 hne
  · generalize ht0 : v3Tree (save t omitted) cm = t0
    have hls : LShape t0 m M := by rw [← ht0]; exact v3Tree_lshape hs omitted cm
    have e_d : t0.d = t.d := by rw [← ht0]; rfl
    have e_sz : t0.sizes = t.sizes := by rw [← ht0]; rfl
    have e_l : t0.leaves = t.leaves := by rw [← ht0]; rfl
    have e_c : t0.cache = [] := by rw [← ht0]; rfl
    have e_cm : t0.cacheMax = cm := by rw [← ht0]; rfl
    have hget : ∀ p, t0.nodes.get? p = if omitted p = true then none else (t.nodes.get? p).map (reloaded3 t.sizes) := by
      intro p; rw [← ht0]; exact v3Tree_save_get?' t omitted cm p
    have hnode : ∀ p n0, t0.nodes.get? p = some n0 → ∃ n, t.nodes.get? p = some n ∧ n0 = reloaded3 t.sizes n := by
      intro p n0 hn0
      rw [hget] at hn0
      split at hn0
      · cases hn0
      · cases hn : t.nodes.get? p with
        | none => rw [hn] at hn0; cases hn0
        | some n => rw [hn] at hn0; cases hn0; exact ⟨n, rfl, rfl⟩
    have hh : SHyp t0 m M :=
      ⟨by rw [e_d]; exact hb.d2, hs.m1, hs.mM, by rw [e_d]; exact hs.Mdm, by rw [e_d]; exact hlow,
       by intro p; rw [e_l]; exact hs.leaves p, hls.missing, by intro p l hl; rw [e_l] at hl; exact hsm p l hl⟩
    have hmin0 : ∀ x, minAt t0 x = none := by
      intro x
      unfold minAt
      cases hn : t0.nodes.get? x with
      | none => rfl
      | some n0 =>
        obtain ⟨n, _, rfl⟩ := hnode x n0 hn
        rfl
    have hq : ∀ x, x ∈ sortDesc (PMap.keys t0.leaves) ↔ (m ≤ x ∧ x ≤ M) := by
      intro x
      rw [e_l, mem_sortDesc hnd, PMap.mem_keys_iff]
      exact hs.leaves x
    have hinit : SInv t0 m M t0 [] (sortDesc (PMap.keys t0.leaves)) := by
      refine ⟨SameF.refl _, ⟨by rw [e_d]; exact hb.d2, by rw [e_sz]; exact hb.sizes, ?_⟩, ?_,
        QInv.init hs.mM hmin0 (by rw [e_l]; exact sortDesc_sorted hnd) hq, ?_, hls.nodesLt, ?_, ?_, ?_⟩
      · intro p n0 hn0
        obtain ⟨n, hn, rfl⟩ := hnode p n0 hn0
        rw [e_sz]
        have := data_ok hb.sizes (hb.nodesOK p n hn)
        exact ⟨fun g hg => (by cases hg), fun g hg => (by cases hg; exact this)⟩
      · intro p n0 hn0 _
        obtain ⟨n, _, rfl⟩ := hnode p n0 hn0
        rfl
      · intro x; rw [hmin0]; simp
      · intro p hp hn
        rcases hls.nodesOr p hp with h | h
        · rw [hn] at h; cases h
        · exact h
      · intro p l hl a ha n0 hn0 x hx
        rw [e_l] at hl
        rw [e_d] at ha
        obtain ⟨n, hn, rfl⟩ := hnode a n0 hn0
        obtain ⟨_, na, hna, hhl⟩ := hs.cover_some hc hl ha
        rw [hn] at hna; cases hna
        rw [e_sz]
        exact hhl.1 x hx
      · intro x hx; rw [hmin0] at hx; cases hx
    have hM : M ∈ PMap.keys t0.leaves := by
      rw [e_l]; exact PMap.mem_keys_iff.mpr ((hs.leaves M).mpr ⟨hs.mM, Nat.le_refl _⟩)
    have hf := fillFuel_ge hM
    have hfuel : ∀ x ∈ sortDesc (PMap.keys t0.leaves), x + 2 ≤ t0.fillFuel := by
      intro x hx
      have := ((hq x).mp hx).2
      omega
    obtain ⟨t', hrun, hpost⟩ := fillLoop_sparse hh _ _ _ _ hinit (by omega) hfuel
    obtain ⟨e1, e2, e3, e4, _, e6, e7⟩ := hpost.same
    have hiso : ∀ p, (t'.nodes.get? p).isSome = (t.nodes.get? p).isSome := by
      intro p
      cases h1 : (t'.nodes.get? p).isSome with
      | true => exact ((hs.nodes p).mpr ((hpost.dom p).mp h1)).symm
      | false =>
        cases h2 : (t.nodes.get? p).isSome with
        | false => rfl
        | true => rw [(hpost.dom p).mpr ((hs.nodes p).mp h2)] at h1; cases h1
    have hfinal : ∀ p n', t'.nodes.get? p = some n' → ∃ v, n'.minN = some v ∧ v ≠ 0 := by
      intro p n' hn'
      obtain ⟨v, hv, _⟩ := hpost.final p ((hpost.dom p).mp (by rw [hn']; rfl))
      rw [minAt_of_get hn'] at hv
      refine ⟨v, hv, ?_⟩
      intro h0
      have := hpost.pos p
      rw [minAt_of_get hn', hv, h0] at this
      exact this rfl
    refine ⟨t', ?_, e1.trans e_l, e3.trans e_d, e4.trans e_sz, e7.trans e_c, e6.trans e_cm, hiso,
      hpost.base, ?_, hpost.clean, ?_, ?_, ?_⟩
    · rw [load_v3_eq, if_neg, ht0]
      · exact hrun
      · have : List.isEmpty t.leaves = false := not_isEmpty_of_get? ((hs.leaves m).mpr ⟨Nat.le_refl _, hs.mM⟩)
        show ¬ (List.isEmpty t.leaves = true)
        rw [this]; simp
    · -- Cover
      intro p l hl a ha
      rw [e1] at hl
      rw [e3] at ha
      have hpM : p ≤ M := ((hh.leaves p).mp (by rw [hl]; rfl)).2
      have ham : a < m := ancestor_lt (by have := hh.d2; omega) (Nat.le_trans hpM hh.Mdm) ha
      refine ⟨by rw [e1]; exact hh.leaf_none ham, ?_⟩
      obtain ⟨n', hn'⟩ : ∃ n', t'.nodes.get? a = some n' := Option.isSome_iff_exists.mp ((hpost.dom a).mpr ham)
      rw [hn']
      simp only
      obtain ⟨v, hv, _, hvle⟩ := hpost.final a ham
      rw [minAt_of_get hn'] at hv
      rw [e4]
      exact ⟨hpost.bits p l hl a ha n' hn', v, hv, hvle p l hl ha⟩
    · -- MinPos
      intro p n' hn'
      obtain ⟨v, hv, hv0⟩ := hfinal p n' hn'
      rw [hv]; intro h; cases h; exact hv0 rfl
    · -- MinSome
      intro p n' hn'
      obtain ⟨v, hv, _⟩ := hfinal p n' hn'
      rw [hv]; rfl
    · -- AllPresent
      intro a ha
      rw [e2] at ha
      exact (hpost.dom a).mpr (hh.missing a ha)

end Sm.SBT
