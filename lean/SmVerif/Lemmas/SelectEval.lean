/-
C12 helper lemmas: closed forms of the three interpreted selection routines
(`select_signature`, `CollectionManifest._select`, the SQL WHERE of `_make_select`)
for the programs the translator extracted.
-/
import SmVerif.Model.Select

namespace Sm.Select

open Sm.Gen (SelParam SelAttr SelExpr SelStmt StrOp PreFn Coltype PickSrc)

/-! ### combinators -/

@[simp] theorem condE_ok {α : Type} (b : Bool) (t f : Except Err α) :
    condE (.ok b) t f = if b then t else f := by cases b <;> rfl

@[simp] theorem condE_error {α : Type} (e : Err) (t f : Except Err α) :
    condE (.error e) t f = .error e := rfl

@[simp] theorem condE_ite {α : Type} (p : Prop) [Decidable p] (x y : Except Err Bool) (t f : Except Err α) :
    condE (if p then x else y) t f = if p then condE x t f else condE y t f := by split <;> rfl

@[simp] theorem condE_id (x : Except Err Bool) : condE x (.ok true) (.ok false) = x := by
  rcases x with e | b
  · rfl
  · cases b <;> rfl

@[simp] theorem notE_ok (b : Bool) : notE (.ok b) = .ok (!b) := rfl
@[simp] theorem notE_error (e : Err) : notE (.error e) = .error e := rfl
@[simp] theorem notE_ite (p : Prop) [Decidable p] (x y : Except Err Bool) :
    notE (if p then x else y) = if p then notE x else notE y := by split <;> rfl

@[simp] theorem thenS_none (y : Except Err (Option Bool)) : thenS (.ok none) y = y := rfl
@[simp] theorem thenS_some (b : Bool) (y : Except Err (Option Bool)) : thenS (.ok (some b)) y = .ok (some b) := rfl
@[simp] theorem thenS_error (e : Err) (y : Except Err (Option Bool)) : thenS (.error e) y = .error e := rfl
@[simp] theorem thenS_ite (p : Prop) [Decidable p] (x x' y : Except Err (Option Bool)) :
    thenS (if p then x else x') y = if p then thenS x y else thenS x' y := by split <;> rfl

@[simp] theorem finishS_some (b : Bool) : finishS (.ok (some b)) = .ok b := rfl
@[simp] theorem finishS_none : finishS (.ok none) = .ok false := rfl
@[simp] theorem finishS_error (e : Err) : finishS (.error e) = .error e := rfl
@[simp] theorem finishS_ite (p : Prop) [Decidable p] (x y : Except Err (Option Bool)) :
    finishS (if p then x else y) = if p then finishS x else finishS y := by split <;> rfl

/-! ### readable accessors of a criteria record -/

/-- `ksize` given and truthy and different from the sketch's -/
def Crit.ksizeBad (c : Crit) (k : Nat) : Bool :=
  match c.ksize with
  | .val v => v != 0 && v != k
  | _ => false

def Crit.molBad (c : Crit) (m : Mol) : Bool :=
  match c.moltype with
  | .val v => v != m
  | _ => false

def Crit.cont (c : Crit) : Bool := c.containment.getD false
def Crit.scaledV (c : Crit) : Nat := c.scaled.getD 0
def Crit.numV (c : Crit) : Nat := c.num.getD 0
def Crit.abundReq (c : Crit) : Bool :=
  match c.abund with
  | .val true => true
  | _ => false

/-- closed form of `select_signature` -/
def refSel (s : Sig) (c : Crit) : Except Err Bool :=
  if c.ksizeBad s.ksize then .ok false
  else if c.molBad s.mol then .ok false
  else if c.cont && c.scaledV == 0 then .error .value
  else if c.cont && s.scaled == 0 then .ok false
  else if c.scaledV != 0 && s.num != 0 then .ok false
  else if c.numV != 0 && (s.scaled != 0 || c.numV != s.num) then .ok false
  else if c.abundReq && !s.abund then .ok false
  else match c.picklist with
    | some pl => .ok (pl.hasSig s)
    | none => .ok true

/-! ### atoms of the signature path -/

@[simp] theorem truthy_int (n : Nat) : (PyVal.int n).truthy = (n != 0) := rfl
@[simp] theorem truthy_bool (b : Bool) : (PyVal.bool b).truthy = b := rfl
@[simp] theorem truthy_mol (m : Mol) : (PyVal.mol m).truthy = true := rfl
@[simp] theorem truthy_none : PyVal.none.truthy = false := rfl

section sigpath
variable (s : Sig) (c : Crit)

@[simp] theorem val_scaled_truthy : (c.val .scaled).truthy = (c.scaledV != 0) := rfl
@[simp] theorem val_num_truthy : (c.val .num).truthy = (c.numV != 0) := rfl
@[simp] theorem val_cont_truthy : (c.val .containment).truthy = c.cont := rfl
@[simp] theorem val_abund_truthy : (c.val .abund).truthy = c.abundReq := by
  rcases c with ⟨ks, mt, sc, nm, ab, ct, pl⟩
  rcases ab with _ | _ | (_ | _) <;> rfl

theorem ksize_atom (k : Nat) :
    (if (c.val .ksize).truthy = true then (Except.ok (!(c.val .ksize).eq (.int k)) : Except Err Bool) else .ok false)
      = .ok (c.ksizeBad k) := by
  rcases c with ⟨ks, mt, sc, nm, ab, ct, pl⟩
  cases ks <;> simp [Crit.val, Crit.ksizeBad, PyVal.truthy, PyVal.eq]
  split <;> simp_all [bne]

theorem mol_atom (m : Mol) :
    (if (c.val .moltype).truthy = true then (Except.ok (!(c.val .moltype).eq (.mol m)) : Except Err Bool) else .ok false)
      = .ok (c.molBad m) := by
  rcases c with ⟨ks, mt, sc, nm, ab, ct, pl⟩
  cases mt <;> simp [Crit.val, Crit.molBad, PyVal.truthy, PyVal.eq, bne]

theorem num_atom (n : Nat) : (!(c.val .num).eq (.int n)) = (c.numV != n) := by
  simp [Crit.val, Crit.numV, PyVal.eq, bne]

end sigpath

theorem selectSignature_eq_ref (s : Sig) (c : Crit) : selectSignature s c = refSel s c := by
  simp only [selectSignature, Gen.selectSignatureProg, evalS, evalE, sigEnv, sigAttrVal, condE_ok, notE_ok,
    ksize_atom, mol_atom, num_atom, val_scaled_truthy, val_num_truthy, val_cont_truthy, val_abund_truthy,
    truthy_int, truthy_bool, refSel]
  cases c.ksizeBad s.ksize <;> simp
  cases c.molBad s.mol <;> simp
  cases c.cont <;> cases hs : (c.scaledV == 0) <;> cases hs2 : (s.scaled == 0) <;> cases hn : (s.num == 0) <;>
    cases hnv : (c.numV == 0) <;> simp_all
  all_goals
    cases c.abundReq <;> cases s.abund <;> cases hp : c.picklist <;> simp_all
  all_goals (rename_i pl; cases pl.hasSig s <;> rfl)

/-! ### the manifest-row path -/

/-- closed form of one row through `CollectionManifest._select` -/
def refRow (r : Row) (c : Crit) : Except Err Bool :=
  if c.ksizeBad r.ksize then .ok false
  else if c.molBad r.mol then .ok false
  else if (c.scaledV != 0 || c.cont) && !(r.scaled != 0 && r.num == 0) then .ok false
  else if c.numV != 0 && !(c.numV == r.num && r.scaled == 0) then .ok false
  else if c.abundReq && !r.withAbund then .ok false
  else match c.picklist with
    | some pl => pl.matchesRow r
    | none => .ok true

section clauses
variable (c : Crit) (r : Row) (ip : Except Err Bool)

theorem cl_ksize_m :
    clauseOk ⟨c, rowAttrVal r, ip⟩ (.param .ksize, .eq .ksize .ksize) = .ok (!c.ksizeBad r.ksize) := by
  rcases c with ⟨ks, mt, sc, nm, ab, ct, pl⟩
  cases ks <;> simp [clauseOk, evalE, Crit.val, Crit.ksizeBad, PyVal.truthy, PyVal.eq, rowAttrVal]
  rename_i a
  by_cases h0 : a = 0 <;> by_cases h1 : a = r.ksize <;> simp_all [bne]

theorem cl_mol_m :
    clauseOk ⟨c, rowAttrVal r, ip⟩ (.param .moltype, .eq .moltype .moltype) = .ok (!c.molBad r.mol) := by
  rcases c with ⟨ks, mt, sc, nm, ab, ct, pl⟩
  cases mt <;> simp [clauseOk, evalE, Crit.val, Crit.molBad, PyVal.truthy, PyVal.eq, rowAttrVal, bne]

theorem cl_scaled_m :
    clauseOk ⟨c, rowAttrVal r, ip⟩ (.or (.param .scaled) (.param .containment), .and (.attr .scaled) (.not (.attr .num)))
      = .ok (!((c.scaledV != 0 || c.cont) && !(r.scaled != 0 && r.num == 0))) := by
  simp only [clauseOk, evalE, condE_ok, notE_ok, val_scaled_truthy, val_cont_truthy, rowAttrVal, truthy_int, bne]
  cases c.cont <;> cases (c.scaledV == 0) <;> cases (r.scaled == 0) <;> cases (r.num == 0) <;> rfl

theorem cl_num_m :
    clauseOk ⟨c, rowAttrVal r, ip⟩ (.param .num, .and (.eq .num .num) (.not (.attr .scaled)))
      = .ok (!(c.numV != 0 && !(c.numV == r.num && r.scaled == 0))) := by
  simp only [clauseOk, evalE, condE_ok, notE_ok, val_num_truthy, rowAttrVal, truthy_int, bne, Crit.val, PyVal.eq]
  show (if (!(c.numV == 0)) = true then
      (if (c.numV == r.num) = true then (Except.ok (!!(r.scaled == 0)) : Except Err Bool) else .ok false)
      else .ok true) = _
  cases (c.numV == 0) <;> cases (r.scaled == 0) <;> cases (c.numV == r.num) <;> rfl

theorem cl_abund_m :
    clauseOk ⟨c, rowAttrVal r, ip⟩ (.param .abund, .attr .abund) = .ok (!(c.abundReq && !r.withAbund)) := by
  simp only [clauseOk, evalE, condE_ok, val_abund_truthy, rowAttrVal, truthy_bool]
  cases c.abundReq <;> cases r.withAbund <;> rfl

theorem cl_picklist_m :
    clauseOk ⟨c, rowAttrVal r, ip⟩ (.hasPicklist, .inPicklist) = if c.picklist.isSome then ip else .ok true := by
  simp only [clauseOk, evalE, condE_ok]

theorem cl_ksize_s :
    clauseOk ⟨c, rowAttrVal r, ip⟩ (.and (.has .ksize) (.param .ksize), .eq .ksize .ksize) = .ok (!c.ksizeBad r.ksize) := by
  rcases c with ⟨ks, mt, sc, nm, ab, ct, pl⟩
  cases ks <;> simp [clauseOk, evalE, Crit.val, Crit.has, Crit.ksizeBad, PyVal.truthy, PyVal.eq, rowAttrVal]
  rename_i a
  by_cases h0 : a = 0 <;> by_cases h1 : a = r.ksize <;> simp_all [bne]

theorem cl_num_s :
    clauseOk ⟨c, rowAttrVal r, ip⟩ (.and (.has .num) (.gt0 .num), .eq .num .num)
      = .ok (!(c.numV != 0 && !(c.numV == r.num))) := by
  rcases c with ⟨ks, mt, sc, n, ab, ct, pl⟩
  cases n with
  | none => simp [clauseOk, evalE, Crit.val, Crit.has, Crit.numV]
  | some a =>
    simp only [clauseOk, evalE, Crit.val, Crit.has, Crit.numV, rowAttrVal, condE_ok, truthy_int, Option.isSome,
      Option.getD, bne, PyVal.eq]
    rcases Nat.eq_zero_or_pos a with h | h
    · subst h; rfl
    · have : (a == 0) = false := by simp; omega
      simp [this, h]

theorem cl_abund_s :
    clauseOk ⟨c, rowAttrVal r, ip⟩ (.and (.has .abund) (.param .abund), .attr .abund)
      = .ok (!(c.abundReq && !r.withAbund)) := by
  rcases c with ⟨ks, mt, sc, n, ab, ct, pl⟩
  rcases ab with _ | _ | (_ | _) <;>
    simp [clauseOk, evalE, Crit.val, Crit.has, Crit.abundReq, rowAttrVal, PyVal.truthy]

theorem cl_scaled_s :
    clauseOk ⟨c, rowAttrVal r, ip⟩ (.and (.has .scaled) (.gt0 .scaled), .attr .scaled)
      = .ok (!(c.scaledV != 0 && r.scaled == 0)) := by
  rcases c with ⟨ks, mt, sc, n, ab, ct, pl⟩
  cases sc with
  | none => simp [clauseOk, evalE, Crit.val, Crit.has, Crit.scaledV]
  | some a =>
    simp only [clauseOk, evalE, Crit.val, Crit.has, Crit.scaledV, rowAttrVal, condE_ok, truthy_int, Option.isSome,
      Option.getD, bne]
    rcases Nat.eq_zero_or_pos a with h | h
    · subst h; rfl
    · have : (a == 0) = false := by simp; omega
      simp [this, h]

theorem cl_cont_s :
    clauseOk ⟨c, rowAttrVal r, ip⟩ (.and (.has .containment) (.param .containment), .attr .scaled)
      = .ok (!(c.cont && r.scaled == 0)) := by
  rcases c with ⟨ks, mt, sc, n, ab, ct, pl⟩
  cases ct with
  | none => simp [clauseOk, evalE, Crit.val, Crit.has, Crit.cont]
  | some a =>
    simp only [clauseOk, evalE, Crit.val, Crit.has, Crit.cont, rowAttrVal, condE_ok, truthy_int, truthy_bool,
      Option.isSome, Option.getD, bne]
    cases a <;> cases (r.scaled == 0) <;> rfl

theorem cl_mol_s :
    clauseOk ⟨c, rowAttrVal r, ip⟩ (.and (.has .moltype) (.notNone .moltype), .eq .moltype .moltype) = .ok (!c.molBad r.mol) := by
  rcases c with ⟨ks, mt, sc, n, ab, ct, pl⟩
  cases mt <;> simp [clauseOk, evalE, Crit.val, Crit.has, Crit.molBad, PyVal.eq, rowAttrVal, bne]

end clauses

@[simp] theorem ite_ok_false (b x : Bool) :
    (if b = true then (Except.ok x : Except Err Bool) else .ok false) = .ok (b && x) := by cases b <;> rfl

theorem rowPasses_eq_ref (r : Row) (c : Crit) : rowPasses r c = refRow r c := by
  simp only [rowPasses, Gen.manifestSelectProg, clausesPass, rowEnv,
    cl_ksize_m, cl_mol_m, cl_scaled_m, cl_num_m, cl_abund_m, cl_picklist_m, condE_ok, refRow]
  cases c.ksizeBad r.ksize <;> simp
  cases c.molBad r.mol <;> simp
  cases c.cont <;> cases hs : (c.scaledV == 0) <;> cases hs2 : (r.scaled == 0) <;> cases hn : (r.num == 0) <;>
    cases hnv : (c.numV == 0) <;> cases hnq : (c.numV == r.num) <;> simp_all
  all_goals
    cases c.abundReq <;> cases r.withAbund <;> cases hp : c.picklist <;> simp_all

/-! ### the SQL path -/

/-- closed form of the SQL `WHERE` built by `_make_select` -/
def refSqlWhere (r : Row) (c : Crit) : Bool :=
  !(c.ksizeBad r.ksize) && (!(c.numV != 0 && !(c.numV == r.num)) && (!(c.scaledV != 0 && r.scaled == 0)
    && (!(c.cont && r.scaled == 0) && (!(c.abundReq && !r.withAbund) && (!(c.molBad r.mol) && true)))))

theorem sqlWherePasses_eq_ref (r : Row) (c : Crit) : sqlWherePasses r c = .ok (refSqlWhere r c) := by
  simp only [sqlWherePasses, Gen.sqlSelectProg, clausesPass,
    cl_ksize_s, cl_num_s, cl_scaled_s, cl_cont_s, cl_abund_s, cl_mol_s, condE_ok, ite_ok_false, refSqlWhere]

end Sm.Select
