/-
Index version 3 of the SBT (`load … 3 …`): the internal nodes come back WITHOUT `min_n_below`, and
`_fill_min_n_below` (`_fill_up(fill_min_n_below)`) has to ESTABLISH the size half of `Cover`, not merely keep it.

Files: `SBTV3Aux` (position arithmetic, `removeFirst` / `sortDesc` on duplicate-free lists, duplicate-free leaf
keys of insertion-built trees), `SBTV3Full` (full save: loop invariant `V3Inv`, `v3_step`, `fillLoop_v3`,
`load_v3_spec`, (a)–(c), (e), and the necessity of `SmallLeaves`), `SBTV3Core` (the queue discipline abstracted from
the tree, `QInv`, `q_step`), `SBTV3Sparse` (sparse save + repaired `_rebuild_node`: `SInv`, `s_step`,
`load_v3_sparse_spec`), and this file ((d) headline statements, the counterexample for the shipped `_rebuild_node`).

Results (all for every `d ≥ 2`, every filter shape, every cache bound):
* `load_v3_total` — (c) a full save + version-3 load of an insertion-built tree never raises, either `_rebuild_node`,
  no side condition.
* `cover_after_load_v3` — (a)+(b) it yields `Base`, `Cover`, same leaves / node positions, nothing missing.
  ADDED HYPOTHESIS `SmallLeaves t` (no signature has `sys.maxsize = 2^63-1` or more hashes).
* `cover_after_load_v3_needs_small` — the hypothesis is needed: four signatures of `sys.maxsize` hashes, `d = 2`;
  the load succeeds, the root keeps no `min_n_below`, `Cover` fails.  (`v3_giant_inner`: in general, with such
  leaves no internal node without a leaf child is ever processed.)
* `searchable_after_load_v3`, `search_after_load_v3` — (e) the loaded tree is `Searchable keep`; a search never
  raises and returns exactly the passing stored signatures.
* `cover_after_sparse_load_v3`, `load_v3_sparse_total`, `search_after_sparse_load_v3` — (d) the same after a save
  with ANY set of omitted internal nodes, with the repaired `_rebuild_node` (`fixed = true`); also under
  `SmallLeaves`.
* `sparse_load_v3_shipped_cex` — (d) is false for the shipped `_rebuild_node` (`fixed = false`): three one-hash
  signatures, `d = 2`, root omitted; the load succeeds and the rebuilt root misses the hashes below node 1.
-/
import SmVerif.Lemmas.SBTV3Sparse

namespace Sm.SBT

open Sm.NG

/-! ### (d) sparse save, repaired `_rebuild_node` -/

/-- **(d) termination**: `load true (save t omitted) 3 cm` never raises -/
theorem load_v3_sparse_total {d : Nat} {sizes : List Nat} (hd : 2 ≤ d) (hsz : SizesOK sizes) {t : Tree}
    (hr : Reach d sizes t) (hsm : SmallLeaves t) (hne : t.leaves ≠ []) (omitted : Nat → Bool) (cm : Option Nat) :
    ∃ t', load true (save t omitted) 3 cm = .ok t' := by
  obtain ⟨t', h, _⟩ := load_v3_sparse_spec hd hsz hr hsm hne omitted cm
  exact ⟨t', h⟩

/-- **(d) `_fill_min_n_below` establishes `Cover` after a sparse version-3 load** (repaired `_rebuild_node`): every
omitted internal node is rebuilt on the way up -/
theorem cover_after_sparse_load_v3 {d : Nat} {sizes : List Nat} (hd : 2 ≤ d) (hsz : SizesOK sizes) {t t' : Tree}
    (hr : Reach d sizes t) (hsm : SmallLeaves t) (omitted : Nat → Bool) (cm : Option Nat)
    (h : load true (save t omitted) 3 cm = .ok t') :
    Base t' ∧ Cover t' ∧ t'.leaves = t.leaves ∧ t'.d = t.d ∧ t'.sizes = t.sizes ∧ AllPresent t' ∧
    (∀ p, (t'.nodes.get? p).isSome = (t.nodes.get? p).isSome) := by
  obtain ⟨t2, h2, hl, hdd, hss, _, _, hiso, hb, hc, _, _, _, hap⟩ :=
    load_v3_sparse_spec hd hsz hr hsm (load_v3_nonempty h) omitted cm
  rw [h2] at h; cases h
  exact ⟨hb, hc, hl, hdd, hss, hap, hiso⟩

theorem searchable_after_sparse_load_v3 {d : Nat} {sizes : List Nat} (hd : 2 ≤ d) (hsz : SizesOK sizes) {t t' : Tree}
    (hr : Reach d sizes t) (hsm : SmallLeaves t) (omitted : Nat → Bool) (cm : Option Nat)
    (h : load true (save t omitted) 3 cm = .ok t') (keep : Bool) : Searchable keep t' ∧ t'.leaves = t.leaves := by
  obtain ⟨t2, h2, hl, _, _, hcache, _, _, hb, hc, hcl, hmp, hms, hap⟩ :=
    load_v3_sparse_spec hd hsz hr hsm (load_v3_nonempty h) omitted cm
  rw [h2] at h; cases h
  refine ⟨⟨hb, hc, CleanV.of_clean hcl, hmp, hms, ?_, hap⟩, hl⟩
  intro c hc'; rw [hcache] at hc'; cases hc'

/-- **(d)+(e)**: after a sparse save and a version-3 load with the repaired `_rebuild_node`, a search (either
`_rebuild_node`, either `unload`, any query) never raises and returns exactly the passing stored signatures -/
theorem search_after_sparse_load_v3 {d : Nat} {sizes : List Nat} (hd : 2 ≤ d) (hsz : SizesOK sizes) {t t' : Tree}
    (hr : Reach d sizes t) (hsm : SmallLeaves t) (omitted : Nat → Bool) (cm : Option Nat)
    (h : load true (save t omitted) 3 cm = .ok t') (fixed' keep : Bool) (q : Query) :
    Searchable keep (search fixed' keep t' q).1 ∧ (search fixed' keep t' q).1.leaves = t.leaves ∧
    ∃ ls, (search fixed' keep t' q).2 = .ok ls ∧
      ∀ l, l ∈ ls ↔ (leafPasses q l = true ∧ ∃ p, t.leaves.get? p = some l) := by
  obtain ⟨hs, hl⟩ := searchable_after_sparse_load_v3 hd hsz hr hsm omitted cm h keep
  obtain ⟨h1, h2, ls, h3, h4⟩ := search_exact (fixed := fixed') hs q
  refine ⟨h1, h2.trans hl, ls, h3, ?_⟩
  intro l
  rw [h4 l, hl]

/-! ### (d) fails for the shipped `_rebuild_node` -/

namespace V3Cex

def l0 : Leaf := ⟨0, [5]⟩
def l1 : Leaf := ⟨1, [7]⟩
def l2 : Leaf := ⟨2, [9]⟩

def tA : Tree :=
  { d := 2, sizes := [3],
    nodes := [(0, ⟨some ⟨[⟨3, 4⟩], 1, 1, 1⟩, none, false, some 1⟩)],
    leaves := [(1, l0)], missing := [], nextNode := 2, cacheMax := none, cache := [] }

def tB : Tree :=
  { d := 2, sizes := [3],
    nodes := [(0, ⟨some ⟨[⟨3, 6⟩], 1, 2, 2⟩, none, false, some 1⟩)],
    leaves := [(2, l1), (1, l0)], missing := [], nextNode := 2, cacheMax := none, cache := [] }

def tC : Tree :=
  { d := 2, sizes := [3],
    nodes := [(0, ⟨some ⟨[⟨3, 7⟩], 1, 3, 3⟩, none, false, some 1⟩),
              (1, ⟨some ⟨[⟨3, 5⟩], 1, 2, 2⟩, none, false, some 1⟩)],
    leaves := [(4, l2), (3, l0), (2, l1)], missing := [], nextNode := 3, cacheMax := none, cache := [] }

/-- what the shipped code makes of `tC` saved without its root: the rebuilt root only has the hash of leaf 2 -/
def tC' : Tree :=
  { d := 2, sizes := [3],
    nodes := [(0, ⟨some ⟨[⟨3, 2⟩], 1, 1, 1⟩, none, false, some 1⟩),
              (1, ⟨none, some ⟨[⟨3, 5⟩], 1, 2, 2⟩, true, some 1⟩)],
    leaves := [(4, l2), (3, l0), (2, l1)], missing := [0], nextNode := 0, cacheMax := none, cache := [] }

theorem reach_tC : Reach 2 [3] tC :=
  Reach.ins false true l2 (Reach.ins false true l1 (Reach.ins false true l0 Reach.new
    (t' := tA) (by rfl)) (t' := tB) (by rfl)) (t' := tC) (by rfl)

theorem small_tC : SmallLeaves tC := by
  intro p l h
  have hm := PMap.get?_mem h
  have : l = l2 ∨ l = l0 ∨ l = l1 := by
    simp only [tC, List.mem_cons, Prod.mk.injEq, List.not_mem_nil, or_false] at hm
    rcases hm with ⟨_, h⟩ | ⟨_, h⟩ | ⟨_, h⟩
    · exact Or.inl h
    · exact Or.inr (Or.inl h)
    · exact Or.inr (Or.inr h)
  rcases this with rfl | rfl | rfl <;> decide

end V3Cex

/-- **(d) is false for the shipped `_rebuild_node`**: three one-hash signatures inserted into an empty binary tree,
saved without the root, loaded as index version 3 with `fixed = false`: the load succeeds, but the root rebuilt
inside `_fill_up` skips the present internal child 1 (it is not listed in `_missing_nodes`), so it does not cover the
signatures at 3 and 4: `Cover` fails (a search for `{5}` or `{9}` would miss them) -/
theorem sparse_load_v3_shipped_cex :
    ∃ t t', Reach 2 [3] t ∧ SmallLeaves t ∧ load false (save t (fun p => p == 0)) 3 none = .ok t' ∧ ¬ Cover t' := by
  refine ⟨V3Cex.tC, V3Cex.tC', V3Cex.reach_tC, V3Cex.small_tC, by rfl, ?_⟩
  rw [cover_iff_coverB]
  decide

end Sm.SBT
