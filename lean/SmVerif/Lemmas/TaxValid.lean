/-
C19 helper lemmas, part 3: what the tables hold for a *valid gather result*
(`f_i = k_i/N`, `fw_i = w_i/W`, `bp_i = k_i*scaled`, positive unique overlaps,
`Σk ≤ N`, `Σw ≤ W`, everything found iff all weight found).
-/
import SmVerif.Lemmas.TaxBuild

namespace Sm.Tax

set_option linter.unusedSectionVars false
set_option linter.unusedSimpArgs false
variable {ν : Type} [DecidableEq ν]

/-- the gather rows as exact rationals -/
def GRow.toQ (N W scaled : Nat) (x : GRow ν) : RowV ℚ ν :=
  ⟨(x.k : ℚ) / N, (x.w : ℚ) / W, x.k * scaled, x.lin⟩

def Gather.toQ (g : Gather ν) : List (RowV ℚ ν) := g.rows.map (GRow.toQ g.N g.W g.scaled)

def ksum (l : List (GRow ν)) : Nat := (l.map (·.k)).sum
def wsum (l : List (GRow ν)) : Nat := (l.map (·.w)).sum

/-- what gather guarantees about its own output (property C07) -/
structure Gather.Valid (g : Gather ν) : Prop where
  hN : 0 < g.N
  hW : 0 < g.W
  pos : ∀ x ∈ g.rows, 0 < x.k ∧ 0 < x.w
  kle : ksum g.rows ≤ g.N
  wle : wsum g.rows ≤ g.W
  full : ksum g.rows = g.N ↔ wsum g.rows = g.W

/-- the gather rows summarised under a lineage in the set `P` at rank `r`: rank `r` is filled
in the match's lineage and the lineage cut at `r` is in `P` -/
def under (P : Lineage ν → Bool) (r : Nat) (x : GRow ν) : Bool :=
  (hasLineage x.lin && filledAt x.lin r) && P (popTo x.lin r)

theorem rowsUnder_toQ (g : Gather ν) (P : Lineage ν → Bool) (r : Nat) :
    rowsUnder P r g.toQ = (g.rows.filter (under P r)).map (GRow.toQ g.N g.W g.scaled) := by
  unfold rowsUnder Gather.toQ
  rw [List.filter_map]
  rfl

theorem sum_toQ_f (N W s : Nat) (l : List (GRow ν)) :
    ((l.map (GRow.toQ N W s)).map (projF (ν := ν)).row).sum = (ksum l : ℚ) / N := by
  induction l with
  | nil => simp [ksum]
  | cons x t ih =>
    simp only [List.map_cons, List.sum_cons, ih, ksum]
    simp only [projF, GRow.toQ]
    push_cast
    rw [add_div]

theorem sum_toQ_fw (N W s : Nat) (l : List (GRow ν)) :
    ((l.map (GRow.toQ N W s)).map (projFw (ν := ν)).row).sum = (wsum l : ℚ) / W := by
  induction l with
  | nil => simp [wsum]
  | cons x t ih =>
    simp only [List.map_cons, List.sum_cons, ih, wsum]
    simp only [projFw, GRow.toQ]
    push_cast
    rw [add_div]

theorem sum_toQ_bp (N W s : Nat) (l : List (GRow ν)) :
    ((l.map (GRow.toQ N W s)).map (projBp (ν := ν)).row).sum = ((ksum l * s : Nat) : ℚ) := by
  induction l with
  | nil => simp [ksum]
  | cons x t ih =>
    simp only [List.map_cons, List.sum_cons, ih, ksum]
    simp only [projBp, GRow.toQ]
    push_cast
    ring

/-- the rank-`r` table of a gather result -/
def Gather.tbl (g : Gather ν) (r : Nat) : Tbl ℚ ν := sumAtRank ratA g.toQ r

theorem psum_f (g : Gather ν) (P : Lineage ν → Bool) (r : Nat) :
    psum P (projF (ν := ν)).acc (g.tbl r) = (ksum (g.rows.filter (under P r)) : ℚ) / g.N := by
  unfold Gather.tbl; rw [psum_sumAtRank, rowsUnder_toQ, sum_toQ_f]

theorem psum_fw (g : Gather ν) (P : Lineage ν → Bool) (r : Nat) :
    psum P (projFw (ν := ν)).acc (g.tbl r) = (wsum (g.rows.filter (under P r)) : ℚ) / g.W := by
  unfold Gather.tbl; rw [psum_sumAtRank, rowsUnder_toQ, sum_toQ_fw]

theorem psum_bp (g : Gather ν) (P : Lineage ν → Bool) (r : Nat) :
    psum P (projBp (ν := ν)).acc (g.tbl r) = ((ksum (g.rows.filter (under P r)) * g.scaled : Nat) : ℚ) := by
  unfold Gather.tbl; rw [psum_sumAtRank, rowsUnder_toQ, sum_toQ_bp]

/-! sums over a filtered list of rows -/

theorem ksum_filter_le (p : GRow ν → Bool) (l : List (GRow ν)) : ksum (l.filter p) ≤ ksum l := by
  induction l with
  | nil => simp
  | cons x t ih =>
    by_cases h : p x
    · simp only [List.filter_cons, h, if_true, ksum, List.map_cons, List.sum_cons] at *; omega
    · simp only [List.filter_cons, h, ksum, List.map_cons, List.sum_cons] at *; simp; omega

theorem wsum_filter_le (p : GRow ν → Bool) (l : List (GRow ν)) : wsum (l.filter p) ≤ wsum l := by
  induction l with
  | nil => simp
  | cons x t ih =>
    by_cases h : p x
    · simp only [List.filter_cons, h, if_true, wsum, List.map_cons, List.sum_cons] at *; omega
    · simp only [List.filter_cons, h, wsum, List.map_cons, List.sum_cons] at *; simp; omega

/-- with positive `k`, a filter that keeps the whole `k`-sum keeps every row -/
theorem filter_eq_of_ksum_eq (p : GRow ν → Bool) (l : List (GRow ν)) (hpos : ∀ x ∈ l, 0 < x.k)
    (h : ksum (l.filter p) = ksum l) : l.filter p = l := by
  induction l with
  | nil => rfl
  | cons x t ih =>
    have hx := hpos x (List.mem_cons_self ..)
    have ht : ∀ y ∈ t, 0 < y.k := fun y hy => hpos y (List.mem_cons_of_mem _ hy)
    by_cases hp : p x
    · simp only [List.filter_cons, hp, if_true, ksum, List.map_cons, List.sum_cons] at h ⊢
      rw [ih ht (by unfold ksum; omega)]
    · exfalso
      simp only [List.filter_cons, hp, ksum, List.map_cons, List.sum_cons] at h
      have := ksum_filter_le p t
      simp only [Bool.false_eq_true, if_false] at h
      unfold ksum at this
      omega

/-- with positive `w`, a filter that drops a row loses weight -/
theorem wsum_filter_lt (p : GRow ν → Bool) (l : List (GRow ν)) (hpos : ∀ x ∈ l, 0 < x.w)
    (h : l.filter p ≠ l) : wsum (l.filter p) < wsum l := by
  induction l with
  | nil => exact absurd rfl h
  | cons x t ih =>
    have hx := hpos x (List.mem_cons_self ..)
    have ht : ∀ y ∈ t, 0 < y.w := fun y hy => hpos y (List.mem_cons_of_mem _ hy)
    by_cases hp : p x
    · simp only [List.filter_cons, hp, if_true, wsum, List.map_cons, List.sum_cons] at h ⊢
      have : t.filter p ≠ t := fun e => h (by rw [e])
      have := ih ht this
      unfold wsum at this
      omega
    · simp only [List.filter_cons, hp, wsum, List.map_cons, List.sum_cons]
      have := wsum_filter_le p t
      unfold wsum at this
      simp only [Bool.false_eq_true, if_false]
      omega

theorem ksum_pos_of_mem (l : List (GRow ν)) (hpos : ∀ x ∈ l, 0 < x.k) (x : GRow ν) (hx : x ∈ l) :
    0 < ksum l := by
  induction l with
  | nil => cases hx
  | cons y t ih =>
    have := hpos y (List.mem_cons_self ..)
    simp only [ksum, List.map_cons, List.sum_cons]; omega

theorem wsum_pos_of_mem (l : List (GRow ν)) (hpos : ∀ x ∈ l, 0 < x.w) (x : GRow ν) (hx : x ∈ l) :
    0 < wsum l := by
  induction l with
  | nil => cases hx
  | cons y t ih =>
    have := hpos y (List.mem_cons_self ..)
    simp only [wsum, List.map_cons, List.sum_cons]; omega

/-! the whole table of a rank -/

def allL : Lineage ν → Bool := fun _ => true

theorem psum_all (g : Acc ℚ → ℚ) (t : Tbl ℚ ν) : psum allL g t = (t.map (fun x => g x.2)).sum := by
  unfold psum allL; simp

/-- `K_r`, `W_r`: hashes / weight of the matches that have rank `r` -/
def Gather.kAt (g : Gather ν) (r : Nat) : Nat := ksum (g.rows.filter (under allL r))
def Gather.wAt (g : Gather ν) (r : Nat) : Nat := wsum (g.rows.filter (under allL r))

theorem tblF_eq (g : Gather ν) (r : Nat) : tblF (g.tbl r) = (g.kAt r : ℚ) / g.N := by
  have := psum_f g allL r
  rw [psum_all] at this
  exact this

theorem tblFw_eq (g : Gather ν) (r : Nat) : tblFw (g.tbl r) = (g.wAt r : ℚ) / g.W := by
  have := psum_fw g allL r
  rw [psum_all] at this
  exact this

theorem tblBp_eq (g : Gather ν) (r : Nat) : tblBp (g.tbl r) = ((g.kAt r * g.scaled : Nat) : Int) := by
  have h := psum_bp g allL r
  rw [psum_all] at h
  unfold tblBp
  have h2 : (((g.tbl r).map (fun x => (x.2.bp : Int))).sum : ℚ) = ((g.tbl r).map (fun x => (projBp (ν := ν)).acc x.2)).sum := by
    simp only [projBp]
    induction (g.tbl r) with
    | nil => simp
    | cons x t ih => simp only [List.map_cons, List.sum_cons]; push_cast; rw [ih]
  have h3 : ((((g.tbl r).map (fun x => (x.2.bp : Int))).sum : Int) : ℚ) = (((g.kAt r * g.scaled : Nat) : Int) : ℚ) := by
    rw [h2, h]; push_cast; rfl
  exact_mod_cast h3

theorem kAt_le (g : Gather ν) (hv : g.Valid) (r : Nat) : g.kAt r ≤ g.N :=
  le_trans (ksum_filter_le _ _) hv.kle

theorem wAt_le (g : Gather ν) (hv : g.Valid) (r : Nat) : g.wAt r ≤ g.W :=
  le_trans (wsum_filter_le _ _) hv.wle

/-- everything at rank `r` found ⇒ all weight at rank `r` found -/
theorem wAt_eq_of_kAt_eq (g : Gather ν) (hv : g.Valid) (r : Nat) (h : g.kAt r = g.N) : g.wAt r = g.W := by
  have h1 : ksum (g.rows.filter (under allL r)) = ksum g.rows := by
    have := ksum_filter_le (under allL r) g.rows
    have := hv.kle
    unfold Gather.kAt at h; omega
  have h2 := filter_eq_of_ksum_eq _ _ (fun x hx => (hv.pos x hx).1) h1
  unfold Gather.wAt; rw [h2]
  apply hv.full.mp
  unfold Gather.kAt at h; rw [h2] at h; exact h

/-- something at rank `r` missing ⇒ some weight at rank `r` missing -/
theorem wAt_lt_of_kAt_lt (g : Gather ν) (hv : g.Valid) (r : Nat) (h : g.kAt r < g.N) : g.wAt r < g.W := by
  by_cases he : g.rows.filter (under allL r) = g.rows
  · unfold Gather.wAt Gather.kAt at *
    rw [he] at h ⊢
    have h1 : ksum g.rows ≠ g.N := by omega
    have h2 : wsum g.rows ≠ g.W := fun e => h1 (hv.full.mpr e)
    have := hv.wle
    omega
  · have := wsum_filter_lt _ _ (fun x hx => (hv.pos x hx).2) he
    have := hv.wle
    unfold Gather.wAt; omega

/-- a key of the rank-`r` table comes from a gather row under it -/
theorem exists_row_of_mem (g : Gather ν) (r : Nat) (L : Lineage ν) (a : Acc ℚ) (hm : (L, a) ∈ g.tbl r) :
    ∃ x ∈ g.rows, under (fun K => decide (K = L)) r x = true := by
  have hk : L ∈ (g.tbl r).map Prod.fst := List.mem_map_of_mem (f := Prod.fst) hm
  unfold Gather.tbl at hk
  rw [mem_keys] at hk
  obtain ⟨row, hrow, hc, hp⟩ := hk
  unfold Gather.toQ at hrow
  obtain ⟨x, hx, rfl⟩ := List.mem_map.mp hrow
  refine ⟨x, hx, ?_⟩
  unfold under
  have : counted (GRow.toQ g.N g.W g.scaled x) r = (hasLineage x.lin && filledAt x.lin r) := rfl
  rw [this] at hc
  have hp' : popTo x.lin r = L := hp
  simp [hc, hp']

theorem entry_f (g : Gather ν) (r : Nat) (L : Lineage ν) (a : Acc ℚ) (hm : (L, a) ∈ g.tbl r) :
    a.f = (ksum (g.rows.filter (under (fun K => decide (K = L)) r)) : ℚ) / g.N := by
  rw [← psum_f]
  exact (psum_eq_of_mem (projF (ν := ν)).acc _ (keys_nodup r g.toQ) L a hm).symm

theorem entry_fw (g : Gather ν) (r : Nat) (L : Lineage ν) (a : Acc ℚ) (hm : (L, a) ∈ g.tbl r) :
    a.fw = (wsum (g.rows.filter (under (fun K => decide (K = L)) r)) : ℚ) / g.W := by
  rw [← psum_fw]
  exact (psum_eq_of_mem (projFw (ν := ν)).acc _ (keys_nodup r g.toQ) L a hm).symm

theorem entry_bp (g : Gather ν) (r : Nat) (L : Lineage ν) (a : Acc ℚ) (hm : (L, a) ∈ g.tbl r) :
    a.bp = ksum (g.rows.filter (under (fun K => decide (K = L)) r)) * g.scaled := by
  have h := psum_bp g (fun K => decide (K = L)) r
  have h' := psum_eq_of_mem (projBp (ν := ν)).acc (g.tbl r) (keys_nodup r g.toQ) L a hm
  rw [h'] at h
  simp only [projBp] at h
  exact_mod_cast h

/-- **bounds on the table**: every accumulator of a valid gather result passes `check_values` -/
theorem good_tbl (g : Gather ν) (hv : g.Valid) (r : Nat) : Good (g.tbl r) := by
  intro x hx
  obtain ⟨L, a⟩ := x
  obtain ⟨y, hy, hu⟩ := exists_row_of_mem g r L a hx
  have hmem : y ∈ g.rows.filter (under (fun K => decide (K = L)) r) := List.mem_filter.mpr ⟨hy, hu⟩
  have hposk : ∀ z ∈ g.rows.filter (under (fun K => decide (K = L)) r), 0 < z.k :=
    fun z hz => (hv.pos z (List.mem_filter.mp hz).1).1
  have hposw : ∀ z ∈ g.rows.filter (under (fun K => decide (K = L)) r), 0 < z.w :=
    fun z hz => (hv.pos z (List.mem_filter.mp hz).1).2
  have hk := ksum_pos_of_mem _ hposk y hmem
  have hw := wsum_pos_of_mem _ hposw y hmem
  have hkle : ksum (g.rows.filter (under (fun K => decide (K = L)) r)) ≤ g.N :=
    le_trans (ksum_filter_le _ _) hv.kle
  have hwle : wsum (g.rows.filter (under (fun K => decide (K = L)) r)) ≤ g.W :=
    le_trans (wsum_filter_le _ _) hv.wle
  have hN : (0 : ℚ) < g.N := by exact_mod_cast hv.hN
  have hW : (0 : ℚ) < g.W := by exact_mod_cast hv.hW
  simp only
  rw [entry_f g r L a hx, entry_fw g r L a hx]
  refine ⟨div_pos (by exact_mod_cast hk) hN, ?_, div_pos (by exact_mod_cast hw) hW, ?_⟩
  · rw [div_le_iff₀ hN, one_mul]; exact_mod_cast hkle
  · rw [div_le_iff₀ hW, one_mul]; exact_mod_cast hwle

end Sm.Tax
