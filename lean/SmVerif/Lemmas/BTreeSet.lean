/-
Helper lemmas for C14: the `BTreeSet` / `BTreeMap` primitives of
`Model/MinHashBTree.lean` (ascending lists) expressed through the positional edits
(`insertIdx` / `eraseIdx` / `modify` at `lowerBound`, `dropLast`, `take`) that the
array-backed sketch makes, so that the lemma library of C01 applies to both.
-/
import SmVerif.Model.MinHashBTree
import SmVerif.Lemmas.PairLemmas

namespace Sm

/-! ### `BSet.insert` -/

theorem BSet.insert_eq (h : Nat) (l : List Nat) :
    BSet.insert h l =
      if l[lowerBound l h]? = some h then l else l.insertIdx (lowerBound l h) h := by
  induction l with
  | nil => simp [BSet.insert]
  | cons x xs ih =>
    unfold BSet.insert
    by_cases h1 : h < x
    · have hx : ¬ x < h := by omega
      rw [if_pos h1, lowerBound_cons_ge hx]
      have : ¬ x = h := by omega
      simp [this]
    · rw [if_neg h1]
      by_cases h2 : h = x
      · subst h2
        rw [if_pos rfl, lowerBound_cons_ge (Nat.lt_irrefl _)]
        simp
      · have hx : x < h := by omega
        rw [if_neg h2, lowerBound_cons_lt hx, ih]
        simp only [List.getElem?_cons_succ]
        split
        · rfl
        · rw [List.insertIdx_succ_cons]

theorem BSet.insert_of_mem {l : List Nat} (hs : Sorted l) {h : Nat} (hm : h ∈ l) :
    BSet.insert h l = l := by
  rw [BSet.insert_eq, if_pos ((getElem?_lowerBound_iff_mem hs h).2 hm)]

theorem BSet.insert_of_not_mem {l : List Nat} (hs : Sorted l) {h : Nat} (hm : h ∉ l) :
    BSet.insert h l = l.insertIdx (lowerBound l h) h := by
  rw [BSet.insert_eq, if_neg (fun e => hm ((getElem?_lowerBound_iff_mem hs h).1 e))]

theorem contains_iff_mem (l : List Nat) (h : Nat) : l.contains h = true ↔ h ∈ l := by
  simp

/-! ### `BSet.remove` -/

theorem BSet.remove_of_not_mem {l : List Nat} {h : Nat} (hm : h ∉ l) : BSet.remove h l = l := by
  induction l with
  | nil => rfl
  | cons x xs ih =>
    unfold BSet.remove
    have hx : ¬ x = h := fun e => hm (by simp [e])
    rw [if_neg hx, ih (fun e => hm (List.mem_cons_of_mem _ e))]

theorem BSet.remove_of_mem {l : List Nat} (hs : Sorted l) {h : Nat} (hm : h ∈ l) :
    BSet.remove h l = l.eraseIdx (lowerBound l h) := by
  induction l with
  | nil => simp at hm
  | cons x xs ih =>
    unfold BSet.remove
    by_cases hx : x = h
    · subst hx
      rw [if_pos rfl, lowerBound_cons_ge (Nat.lt_irrefl _)]
      simp
    · rw [if_neg hx]
      have hm' : h ∈ xs := by
        rcases List.mem_cons.1 hm with e | hm'
        · exact absurd e.symm hx
        · exact hm'
      have hlt : x < h := hs.head_lt h hm'
      rw [lowerBound_cons_lt hlt, ih hs.tail hm']
      simp

/-- removing the largest element of a strictly ascending list is `pop()` -/
theorem BSet.remove_last {l : List Nat} (hs : Sorted l) (hne : l ≠ []) :
    BSet.remove (lastOr l 0) l = l.dropLast := by
  induction l with
  | nil => exact absurd rfl hne
  | cons x xs ih =>
    by_cases hxs : xs = []
    · subst hxs
      simp [BSet.remove, lastOr]
    · have hl : lastOr (x :: xs) 0 = lastOr xs 0 := by
        rw [lastOr_eq_getLast (by simp), lastOr_eq_getLast hxs, List.getLast_cons hxs]
      have hlt : x < lastOr xs 0 := by
        rw [lastOr_eq_getLast hxs]
        exact hs.head_lt _ (List.getLast_mem hxs)
      unfold BSet.remove
      rw [hl, if_neg (by omega), ih hs.tail hxs]
      obtain ⟨y, ys, rfl⟩ := List.exists_cons_of_ne_nil hxs
      simp

theorem lastOr_insertIdx_lowerBound {l : List Nat} (hs : Sorted l) (hne : l ≠ []) (h : Nat)
    (hnm : h ∉ l) :
    lastOr (l.insertIdx (lowerBound l h) h) 0 = if h > lastOr l 0 then h else lastOr l 0 := by
  induction l with
  | nil => exact absurd rfl hne
  | cons x xs ih =>
    have hxh : x ≠ h := fun e => hnm (by simp [e])
    by_cases hxs : xs = []
    · subst hxs
      by_cases hx : x < h
      · rw [lowerBound_cons_lt hx]
        simp [lastOr, hx]
      · rw [lowerBound_cons_ge hx]
        have : ¬ h > x := by omega
        simp [lastOr, this]
    · have hl : lastOr (x :: xs) 0 = lastOr xs 0 := by
        rw [lastOr_eq_getLast (by simp), lastOr_eq_getLast hxs, List.getLast_cons hxs]
      have hlt : x < lastOr xs 0 := by
        rw [lastOr_eq_getLast hxs]
        exact hs.head_lt _ (List.getLast_mem hxs)
      by_cases hx : x < h
      · rw [lowerBound_cons_lt hx, List.insertIdx_succ_cons, hl]
        have hne' : xs.insertIdx (lowerBound xs h) h ≠ [] := by
          intro e
          have := congrArg List.length e
          simp [List.length_insertIdx, lowerBound_le_length] at this
        have : lastOr (x :: xs.insertIdx (lowerBound xs h) h) 0 =
            lastOr (xs.insertIdx (lowerBound xs h) h) 0 := by
          rw [lastOr_eq_getLast (by simp), lastOr_eq_getLast hne', List.getLast_cons hne']
        rw [this]
        exact ih hs.tail hxs (fun e => hnm (List.mem_cons_of_mem _ e))
      · rw [lowerBound_cons_ge hx, List.insertIdx_zero, hl]
        have : ¬ h > lastOr xs 0 := by omega
        rw [if_neg this]
        rw [lastOr_eq_getLast (by simp), lastOr_eq_getLast hxs,
          List.getLast_cons (by simp), List.getLast_cons hxs]

theorem lastOr_eraseIdx_of_ne {l : List Nat} (hs : Sorted l) {h : Nat} (hm : h ∈ l)
    (hne : h ≠ lastOr l 0) :
    l.eraseIdx (lowerBound l h) ≠ [] ∧ lastOr (l.eraseIdx (lowerBound l h)) 0 = lastOr l 0 := by
  induction l with
  | nil => simp at hm
  | cons x xs ih =>
    by_cases hxs : xs = []
    · subst hxs
      simp at hm
      subst hm
      simp [lastOr] at hne
    · have hl : lastOr (x :: xs) 0 = lastOr xs 0 := by
        rw [lastOr_eq_getLast (by simp), lastOr_eq_getLast hxs, List.getLast_cons hxs]
      by_cases hx : x = h
      · subst hx
        rw [lowerBound_cons_ge (Nat.lt_irrefl _)]
        simp only [List.eraseIdx_cons_zero]
        exact ⟨hxs, hl.symm⟩
      · have hm' : h ∈ xs := by
          rcases List.mem_cons.1 hm with e | hm'
          · exact absurd e.symm hx
          · exact hm'
        have hlt : x < h := hs.head_lt h hm'
        rw [lowerBound_cons_lt hlt]
        simp only [List.eraseIdx_cons_succ]
        have := ih hs.tail hm' (by rw [← hl]; exact hne)
        refine ⟨by simp, ?_⟩
        rw [hl, ← this.2, lastOr_eq_getLast (by simp), lastOr_eq_getLast this.1,
          List.getLast_cons this.1]

/-! ### `BSet.union` is the key sequence of `mergeP` -/

theorem BSet.union_nil_right (xs : List Nat) : BSet.union xs [] = xs := by
  cases xs <;> rfl

theorem BSet.union_cons_cons (x : Nat) (xs : List Nat) (y : Nat) (ys : List Nat) :
    BSet.union (x :: xs) (y :: ys) =
      if y < x then y :: BSet.union (x :: xs) ys
      else if y = x then x :: BSet.union xs ys
      else x :: BSet.union xs (y :: ys) := rfl

theorem keys_mergeP : ∀ (ps qs : List (Nat × Nat)),
    (mergeP ps qs).map Prod.fst = BSet.union (ps.map Prod.fst) (qs.map Prod.fst) := by
  apply two_cursor_induct
  · intro ys; rfl
  · intro x xs; simp [BSet.union_nil_right]
  · intro x xs y ys ih1 ih2 ih3
    rw [mergeP_cons_cons]
    simp only [List.map_cons] at ih1 ih3 ⊢
    rw [BSet.union_cons_cons]
    split
    · simp [ih1]
    · split
      · simp [ih2]
      · simp [ih3]

/-! ### `BSet.ofList`, `BMap.ofList`, the sorts: identity on ascending input -/

theorem BSet.insert_append_of_lt (acc : List Nat) (h : Nat) (hall : ∀ y ∈ acc, y < h) :
    BSet.insert h acc = acc ++ [h] := by
  induction acc with
  | nil => rfl
  | cons x xs ih =>
    unfold BSet.insert
    have hx : x < h := hall x (by simp)
    rw [if_neg (by omega), if_neg (by omega), ih (fun y hy => hall y (List.mem_cons_of_mem _ hy))]
    rfl

theorem BSet.ofList_of_sorted {l : List Nat} (hs : Sorted l) : BSet.ofList l = l := by
  unfold BSet.ofList
  suffices h : ∀ (l acc : List Nat), Sorted (acc ++ l) →
      l.foldl (fun acc h => BSet.insert h acc) acc = acc ++ l by
    simpa using h l [] (by simpa using hs)
  intro l
  induction l with
  | nil => intro acc _; simp
  | cons x xs ih =>
    intro acc hsa
    simp only [List.foldl_cons]
    have hall : ∀ y ∈ acc, y < x := by
      intro y hy
      have := List.pairwise_append.1 hsa
      exact this.2.2 y hy x (by simp)
    rw [BSet.insert_append_of_lt acc x hall, ih (acc ++ [x]) (by simpa using hsa)]
    simp

theorem BMap.insert_append_of_lt (acc : List (Nat × Nat)) (h v : Nat)
    (hall : ∀ y ∈ acc.map Prod.fst, y < h) : BMap.insert h v acc = acc ++ [(h, v)] := by
  induction acc with
  | nil => rfl
  | cons x xs ih =>
    unfold BMap.insert
    have hx : x.1 < h := hall x.1 (by simp)
    rw [if_neg (by omega), if_neg (by omega),
      ih (fun y hy => hall y (by simp only [List.map_cons]; exact List.mem_cons_of_mem _ hy))]
    rfl

theorem BMap.ofList_of_sorted {m : List (Nat × Nat)} (hs : Sorted (m.map Prod.fst)) :
    BMap.ofList m = m := by
  unfold BMap.ofList
  suffices h : ∀ (l acc : List (Nat × Nat)), Sorted ((acc ++ l).map Prod.fst) →
      l.foldl (fun acc p => BMap.insert p.1 p.2 acc) acc = acc ++ l by
    simpa using h m [] (by simpa using hs)
  intro l
  induction l with
  | nil => intro acc _; simp
  | cons x xs ih =>
    intro acc hsa
    simp only [List.foldl_cons]
    have hall : ∀ y ∈ acc.map Prod.fst, y < x.1 := by
      intro y hy
      rw [List.map_append] at hsa
      have := List.pairwise_append.1 hsa
      exact this.2.2 y hy x.1 (by simp)
    rw [BMap.insert_append_of_lt acc x.1 x.2 hall, ih (acc ++ [(x.1, x.2)]) (by simpa using hsa)]
    simp

theorem sortPairs_of_sorted {m : List (Nat × Nat)} (hs : Sorted (m.map Prod.fst)) :
    MH.sortPairs m = m := by
  unfold MH.sortPairs
  induction m with
  | nil => rfl
  | cons p ps ih =>
    simp only [List.foldr_cons]
    rw [ih (by simpa using (Sorted.tail (by simpa using hs)))]
    cases ps with
    | nil => rfl
    | cons q qs =>
      have : p.1 < q.1 := by
        have := Sorted.head_lt (by simpa using hs : Sorted (p.1 :: (q :: qs).map Prod.fst)) q.1
          (by simp)
        exact this
      unfold MH.insertPair
      rw [if_pos (Or.inl this)]

theorem sortNats_of_sorted {l : List Nat} (hs : Sorted l) : MH.sortNats l = l := by
  unfold MH.sortNats
  induction l with
  | nil => rfl
  | cons x xs ih =>
    simp only [List.foldr_cons]
    rw [ih hs.tail]
    cases xs with
    | nil => rfl
    | cons y ys =>
      have : x < y := hs.head_lt y (by simp)
      unfold MH.sortNats.ins
      rw [if_pos (by omega)]

/-! ### `BMap` edits through `map Prod.fst` / `map Prod.snd` -/

theorem BMap.keys_addTo (h a : Nat) (m : List (Nat × Nat)) :
    (BMap.addTo h a m).map Prod.fst = BSet.insert h (m.map Prod.fst) := by
  induction m with
  | nil => rfl
  | cons p ps ih =>
    unfold BMap.addTo
    simp only [List.map_cons]
    unfold BSet.insert
    by_cases h1 : h < p.1
    · simp [h1]
    · rw [if_neg h1, if_neg h1]
      by_cases h2 : h = p.1
      · simp [h2]
      · rw [if_neg h2, if_neg h2]
        simp [ih]

theorem BMap.vals_addTo (h a : Nat) (m : List (Nat × Nat)) :
    (BMap.addTo h a m).map Prod.snd =
      if (m.map Prod.fst)[lowerBound (m.map Prod.fst) h]? = some h
      then (m.map Prod.snd).modify (lowerBound (m.map Prod.fst) h) (· + a)
      else (m.map Prod.snd).insertIdx (lowerBound (m.map Prod.fst) h) a := by
  induction m with
  | nil => simp [BMap.addTo]
  | cons p ps ih =>
    unfold BMap.addTo
    simp only [List.map_cons]
    by_cases h1 : h < p.1
    · have hx : ¬ p.1 < h := by omega
      rw [if_pos h1, lowerBound_cons_ge hx]
      have : ¬ p.1 = h := by omega
      simp [this]
    · rw [if_neg h1]
      by_cases h2 : h = p.1
      · rw [if_pos h2, h2, lowerBound_cons_ge (Nat.lt_irrefl _)]
        simp
      · have hx : p.1 < h := by omega
        rw [if_neg h2, lowerBound_cons_lt hx]
        simp only [List.getElem?_cons_succ, List.map_cons, ih]
        split
        · simp
        · rw [List.insertIdx_succ_cons]

theorem BMap.keys_remove (h : Nat) (m : List (Nat × Nat)) :
    (BMap.remove h m).map Prod.fst = BSet.remove h (m.map Prod.fst) := by
  induction m with
  | nil => rfl
  | cons p ps ih =>
    unfold BMap.remove
    simp only [List.map_cons]
    unfold BSet.remove
    by_cases h1 : p.1 = h
    · simp [h1]
    · rw [if_neg h1, if_neg h1]
      simp [ih]

theorem BMap.remove_of_not_mem {m : List (Nat × Nat)} {h : Nat} (hm : h ∉ m.map Prod.fst) :
    BMap.remove h m = m := by
  induction m with
  | nil => rfl
  | cons p ps ih =>
    unfold BMap.remove
    have hx : ¬ p.1 = h := fun e => hm (by simp [e])
    rw [if_neg hx, ih (fun e => hm (by simp only [List.map_cons]; exact List.mem_cons_of_mem _ e))]

theorem BMap.vals_remove_of_mem {m : List (Nat × Nat)} (hs : Sorted (m.map Prod.fst)) {h : Nat}
    (hm : h ∈ m.map Prod.fst) :
    (BMap.remove h m).map Prod.snd = (m.map Prod.snd).eraseIdx (lowerBound (m.map Prod.fst) h) := by
  induction m with
  | nil => simp at hm
  | cons p ps ih =>
    unfold BMap.remove
    simp only [List.map_cons] at hs hm ⊢
    by_cases hx : p.1 = h
    · rw [if_pos hx, hx, lowerBound_cons_ge (Nat.lt_irrefl _)]
      simp
    · rw [if_neg hx]
      have hm' : h ∈ ps.map Prod.fst := by
        rcases List.mem_cons.1 hm with e | hm'
        · exact absurd e.symm hx
        · exact hm'
      have hlt : p.1 < h := hs.head_lt h hm'
      rw [lowerBound_cons_lt hlt]
      simp [ih hs.tail hm']

theorem BMap.remove_last {m : List (Nat × Nat)} (hs : Sorted (m.map Prod.fst)) (hne : m ≠ []) :
    BMap.remove (lastOr (m.map Prod.fst) 0) m = m.dropLast := by
  induction m with
  | nil => exact absurd rfl hne
  | cons p ps ih =>
    simp only [List.map_cons] at hs
    by_cases hps : ps = []
    · subst hps
      simp [BMap.remove, lastOr]
    · have hk : ps.map Prod.fst ≠ [] := by simpa using hps
      have hl : lastOr ((p :: ps).map Prod.fst) 0 = lastOr (ps.map Prod.fst) 0 := by
        simp only [List.map_cons]
        rw [lastOr_eq_getLast (by simp), lastOr_eq_getLast hk, List.getLast_cons hk]
      have hlt : p.1 < lastOr (ps.map Prod.fst) 0 := by
        rw [lastOr_eq_getLast hk]
        exact hs.head_lt _ (List.getLast_mem hk)
      unfold BMap.remove
      rw [hl, if_neg (by omega), ih hs.tail hps]
      obtain ⟨y, ys, rfl⟩ := List.exists_cons_of_ne_nil hps
      simp

/-- an association list with strictly ascending keys stores, at each key, its `lookup` -/
theorem vals_eq_map_cnt {m : List (Nat × Nat)} (hs : Sorted (m.map Prod.fst)) :
    m.map Prod.snd = (m.map Prod.fst).map (cnt m) := by
  induction m with
  | nil => rfl
  | cons p ps ih =>
    simp only [List.map_cons] at hs ⊢
    congr 1
    · rw [cnt_cons', if_pos rfl]
    · rw [ih hs.tail]
      apply List.map_congr_left
      intro k hk
      have := hs.head_lt k hk
      rw [cnt_cons', if_neg (by omega)]

end Sm
