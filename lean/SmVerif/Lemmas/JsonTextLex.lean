/-
C09 (JSON text layer): lexing the printed form of a token list gives the token list back.

`lex (printToks ts) = ts` for token lists without `err`, whose number tokens are well-formed
(`NumOk`) and in which a number or literal is followed by punctuation (always the case in
compact JSON).  Strings are ARBITRARY lists of Unicode scalar values: every character survives
escaping and unescaping.  Unsigned integers are printed in decimal and read back exactly.
-/
import SmVerif.Model.JsonText
import Mathlib.Tactic.IntervalCases

namespace Sm.JsonText

/-! ### decimal digits -/

theorem isDigit_digitChar {k : Nat} (h : k < 10) : isDigit (Nat.digitChar k) = true := by
  interval_cases k <;> rfl

theorem digitChar_ne_minus {k : Nat} (h : k < 10) : Nat.digitChar k ≠ '-' := by
  interval_cases k <;> decide

theorem isDigit_of_mem_toDigits (n : Nat) : ∀ c ∈ Nat.toDigits 10 n, isDigit c = true := by
  induction n using Nat.strongRecOn with
  | _ n ih =>
    rw [Nat.toDigits_eq_if (by decide)]
    split
    · rename_i h
      intro c hc
      simp only [List.mem_singleton] at hc
      subst hc
      exact isDigit_digitChar h
    · rename_i h
      intro c hc
      simp only [List.mem_append, List.mem_singleton] at hc
      rcases hc with hc | hc
      · exact ih (n / 10) (by omega) c hc
      · subst hc
        exact isDigit_digitChar (Nat.mod_lt n (by decide))

theorem digitsVal_append (l : List Char) (c : Char) (acc : Nat) :
    digitsVal (l ++ [c]) acc = digitsVal l acc * 10 + (c.toNat - 48) := by
  induction l generalizing acc with
  | nil => rfl
  | cons d ds ih => simp [digitsVal, ih]

theorem digitsVal_toDigits (n : Nat) : digitsVal (Nat.toDigits 10 n) 0 = n := by
  induction n using Nat.strongRecOn with
  | _ n ih =>
    rw [Nat.toDigits_eq_if (by decide)]
    split
    · rename_i h
      simp [digitsVal, Nat.toNat_digitChar_sub_48_of_lt_ten h]
    · rename_i h
      rw [digitsVal_append, ih (n / 10) (by omega),
        Nat.toNat_digitChar_sub_48_of_lt_ten (Nat.mod_lt n (by decide))]
      omega

/-- a positive number is printed without a leading zero -/
theorem toDigits_head (n : Nat) (h : 0 < n) : ∃ c r, Nat.toDigits 10 n = c :: r ∧ c ≠ '0' := by
  induction n using Nat.strongRecOn with
  | _ n ih =>
    rw [Nat.toDigits_eq_if (by decide)]
    split
    · rename_i hlt
      refine ⟨Nat.digitChar n, [], rfl, ?_⟩
      intro hz
      have := Nat.digitChar_eq_zero.mp hz
      omega
    · rename_i hge
      obtain ⟨c, r, hcr, hc⟩ := ih (n / 10) (by omega) (by omega)
      exact ⟨c, r ++ [Nat.digitChar (n % 10)], by rw [hcr]; rfl, hc⟩

theorem toDigits_ne_nil (n : Nat) : Nat.toDigits 10 n ≠ [] := Nat.toDigits_ne_nil

theorem takeDigits_all : ∀ (l : List Char), (∀ c ∈ l, isDigit c = true) → takeDigits l = (l, [])
  | [], _ => rfl
  | c :: cs, h => by
    have h1 := h c (by simp)
    have h2 := takeDigits_all cs (fun d hd => h d (by simp [hd]))
    simp [takeDigits, h1, h2]

/-- the number grammar accepts the decimal form of every natural number -/
theorem classifyNum_toDigits (n : Nat) :
    classifyNum (Nat.toDigits 10 n) =
      some (if n < 2 ^ 64 then .nat n else .other (Nat.toDigits 10 n)) := by
  have hdig := isDigit_of_mem_toDigits n
  have hval := digitsVal_toDigits n
  have htake := takeDigits_all _ hdig
  have hne := toDigits_ne_nil n
  -- shape of the token
  have hshape : intPartOk (Nat.toDigits 10 n) = true ∧ stripMinus (Nat.toDigits 10 n) = (false, Nat.toDigits 10 n) := by
    by_cases hz : n = 0
    · subst hz; exact ⟨rfl, rfl⟩
    · obtain ⟨c, r, hcr, hc⟩ := toDigits_head n (by omega)
      have hcd := hdig c (by rw [hcr]; simp)
      rw [hcr]
      constructor
      · cases r with
        | nil => rfl
        | cons d ds => simp [intPartOk, hc]
      · have : c ≠ '-' := by
          intro h; subst h; simp [isDigit] at hcd
        unfold stripMinus
        split
        · rename_i heq
          injection heq with h1 _
          exact absurd h1 this
        · rfl
  unfold classifyNum
  simp only [hshape.2, htake, hshape.1, Bool.not_true, Bool.false_eq_true, if_false, fracPart, expPart,
    List.isEmpty_nil, Bool.or_self, hval]
  split <;> rfl

/-! ### what may follow a number or a literal -/

/-- the text goes on with something that ends a number / literal token (or ends) -/
def Delim (cs : List Char) : Prop :=
  match cs with
  | [] => True
  | c :: _ => isNumChar c = false ∧ isLower c = false

/-- well-formed number tokens: the printed form is read back as the same token -/
structure NumOk (n : Num) : Prop where
  classify : classifyNum (printNum n) = some n
  chars : ∀ c ∈ printNum n, isNumChar c = true
  start : ∃ c r, printNum n = c :: r ∧ (isDigit c = true ∨ c = '-')

theorem numOk_nat {n : Nat} (h : n < 2 ^ 64) : NumOk (.nat n) := by
  refine ⟨?_, ?_, ?_⟩
  · show classifyNum (Nat.toDigits 10 n) = _
    rw [classifyNum_toDigits, if_pos h]
  · intro c hc
    have := isDigit_of_mem_toDigits n c hc
    simp [isNumChar, this]
  · have hne := toDigits_ne_nil n
    cases hd : Nat.toDigits 10 n with
    | nil => exact absurd hd hne
    | cons c r =>
      exact ⟨c, r, hd, Or.inl (isDigit_of_mem_toDigits n c (by rw [hd]; simp))⟩

theorem numOk_big {n : Nat} (h : ¬ n < 2 ^ 64) : NumOk (.other (Nat.toDigits 10 n)) := by
  refine ⟨?_, ?_, ?_⟩
  · show classifyNum (Nat.toDigits 10 n) = _
    rw [classifyNum_toDigits, if_neg h]
  · intro c hc
    have := isDigit_of_mem_toDigits n c hc
    simp [isNumChar, this]
  · show ∃ c r, Nat.toDigits 10 n = c :: r ∧ _
    have hne := toDigits_ne_nil n
    have hdig := isDigit_of_mem_toDigits n
    generalize Nat.toDigits 10 n = l at hne hdig
    cases l with
    | nil => exact absurd rfl hne
    | cons c r => exact ⟨c, r, rfl, Or.inl (hdig c (by simp))⟩

/-! ### running the lexer -/

/-- lex to the end, from a given state -/
def lexAll (st : LS) (out : List Tok) (cs : List Char) : List Tok :=
  let r := lexRun st out cs
  lexFinish r.1 r.2

theorem lexAll_cons (st : LS) (out : List Tok) (c : Char) (cs : List Char) :
    lexAll st out (c :: cs) = lexAll (lexStep st out c).1 (lexStep st out c).2 cs := rfl

theorem lexRun_append (st : LS) (out : List Tok) (l cs : List Char) :
    lexRun st out (l ++ cs) = lexRun (lexRun st out l).1 (lexRun st out l).2 cs := by
  induction l generalizing st out with
  | nil => rfl
  | cons c l ih => simp only [List.cons_append, lexRun]; exact ih _ _

theorem lexAll_append (st : LS) (out : List Tok) (l cs : List Char) :
    lexAll st out (l ++ cs) = lexAll (lexRun st out l).1 (lexRun st out l).2 cs := by
  unfold lexAll
  rw [lexRun_append]

/-! #### strings: every character survives -/

theorem hexVal_hexDigit {k : Nat} (h : k < 16) : hexVal (hexDigit k) = some k := by
  interval_cases k <;> rfl

/-- control characters: the short escapes and `\u00xx` -/
theorem lexRun_escape_ctrl (n : Nat) (h : n < 32) (acc : List Char) (out : List Tok) :
    lexRun (.str acc) out (escapeChar (Char.ofNat n)) = (.str (Char.ofNat n :: acc), out) := by
  interval_cases n <;> rfl

theorem lexRun_escapeChar (c : Char) (acc : List Char) (out : List Tok) :
    lexRun (.str acc) out (escapeChar c) = (.str (c :: acc), out) := by
  by_cases hq : c = '"'
  · subst hq; rfl
  · by_cases hb : c = '\\'
    · subst hb; rfl
    · by_cases hc : c.toNat < 32
      · have := lexRun_escape_ctrl c.toNat hc acc out
        rw [Char.ofNat_toNat] at this
        exact this
      · have he : escapeChar c = [c] := by simp [escapeChar, hq, hb, hc]
        rw [he]
        simp [lexRun, lexStep, hq, hb, hc]

theorem lexRun_escapeStr (s : List Char) (acc : List Char) (out : List Tok) :
    lexRun (.str acc) out (escapeStr s) = (.str (s.reverse ++ acc), out) := by
  induction s generalizing acc with
  | nil => rfl
  | cons c cs ih =>
    simp only [escapeStr]
    rw [lexRun_append, lexRun_escapeChar, ih]
    simp

/-! #### one token -/

/-- does the token need a delimiter after it -/
def needsDelim : Tok → Bool
  | .num _ => true
  | .tru => true
  | .fls => true
  | .nul => true
  | _ => false

def TokOk (t : Tok) : Prop :=
  match t with
  | .err => False
  | .num n => NumOk n
  | _ => True

theorem lexRun_numChars (l : List Char) (h : ∀ c ∈ l, isNumChar c = true) (acc : List Char) (out : List Tok) :
    lexRun (.num acc) out l = (.num (l.reverse ++ acc), out) := by
  induction l generalizing acc with
  | nil => rfl
  | cons c cs ih =>
    have hc := h c (by simp)
    simp only [lexRun, lexStep, hc, if_true]
    rw [ih (fun d hd => h d (by simp [hd]))]
    simp

/-- after the characters of a well-formed number: the token is produced by what follows -/
theorem lexAll_num_finish (n : Num) (hn : NumOk n) (out : List Tok) (cs : List Char) (hd : Delim cs) :
    lexAll (.num (printNum n).reverse) out cs = lexAll .top (.num n :: out) cs := by
  have hnt : numTok (printNum n).reverse = .num n := by
    unfold numTok
    rw [List.reverse_reverse, hn.classify]
  cases cs with
  | nil => simp [lexAll, lexRun, lexFinish, hnt]
  | cons c cs =>
    have hc : isNumChar c = false := hd.1
    rw [lexAll_cons, lexAll_cons]
    simp only [lexStep, hc, hnt, Bool.false_eq_true, if_false]

theorem lexAll_tok_num (n : Num) (hn : NumOk n) (out : List Tok) (cs : List Char) (hd : Delim cs) :
    lexAll .top out (printNum n ++ cs) = lexAll .top (.num n :: out) cs := by
  obtain ⟨c, r, hcr, hc⟩ := hn.start
  have hchars := hn.chars
  rw [hcr] at hchars
  have htop : topChar c = (none, .num [c]) := by
    rcases hc with hc | hc
    · have h1 : isWs c = false := by
        simp only [isDigit, decide_eq_true_eq] at hc
        simp only [isWs, Bool.or_eq_false_iff, decide_eq_false_iff_not]
        refine ⟨⟨⟨?_, ?_⟩, ?_⟩, ?_⟩ <;> (intro h; subst h; revert hc; decide)
      unfold topChar
      simp only [h1, Bool.false_eq_true, if_false, hc, Bool.true_or, if_true]
      have hne : ∀ d : Char, isDigit d = false → c ≠ d := by
        intro d hd h; subst h; rw [hc] at hd; cases hd
      simp [hne '[' rfl, hne ']' rfl, hne '{' rfl, hne '}' rfl, hne ':' rfl, hne ',' rfl, hne '"' rfl]
    · subst hc; rfl
  rw [hcr, List.cons_append, lexAll_cons]
  simp only [lexStep, htop, push]
  rw [lexAll_append, lexRun_numChars r (fun d hd => hchars d (by simp [hd]))]
  have : r.reverse ++ [c] = (printNum n).reverse := by rw [hcr]; simp
  rw [this]
  exact lexAll_num_finish n hn out cs hd

theorem lexAll_lit (w : List Char) (t : Tok) (hw : ∀ c ∈ w, isLower c = true) (hne : w ≠ [])
    (ht : litTok w.reverse = t) (hterr : t ≠ .err)
    (htop : ∀ c r, w = c :: r → topChar c = (none, .lit [c]))
    (out : List Tok) (cs : List Char) (hd : Delim cs) :
    lexAll .top out (w ++ cs) = lexAll .top (t :: out) cs := by
  cases w with
  | nil => exact absurd rfl hne
  | cons c r =>
    rw [List.cons_append, lexAll_cons]
    simp only [lexStep, htop c r rfl, push]
    have hrun : ∀ (l acc : List Char), (∀ d ∈ l, isLower d = true) →
        lexRun (.lit acc) out l = (.lit (l.reverse ++ acc), out) := by
      intro l
      induction l with
      | nil => intro acc _; rfl
      | cons d ds ih =>
        intro acc h
        have hd' := h d (by simp)
        simp only [lexRun, lexStep, hd', if_true]
        rw [ih _ (fun e he => h e (by simp [he]))]
        simp
    rw [lexAll_append, hrun r [c] (fun d hd' => hw d (by simp [hd']))]
    have hrev : r.reverse ++ [c] = (c :: r).reverse := by simp
    rw [hrev]
    cases cs with
    | nil =>
      simp only [lexAll, lexRun, lexFinish, ht]
    | cons e es =>
      have he : isLower e = false := hd.2
      rw [lexAll_cons, lexAll_cons]
      simp only [lexStep, he, Bool.false_eq_true, if_false, ht]

/-- **one token**: lexing the printed token, followed by anything that delimits it, yields the token -/
theorem lexAll_tok (t : Tok) (ht : TokOk t) (out : List Tok) (cs : List Char)
    (hd : needsDelim t = true → Delim cs) :
    lexAll .top out (printTok t ++ cs) = lexAll .top (t :: out) cs := by
  cases t with
  | lbrack => rfl
  | rbrack => rfl
  | lbrace => rfl
  | rbrace => rfl
  | colon => rfl
  | comma => rfl
  | err => exact absurd ht (by simp [TokOk])
  | str s =>
    show lexAll .top out ('"' :: (escapeStr s ++ ['"']) ++ cs) = _
    rw [List.cons_append, lexAll_cons]
    have h1 : lexStep .top out '"' = (.str [], out) := rfl
    rw [h1, List.append_assoc, lexAll_append, lexRun_escapeStr]
    simp only [List.append_nil, List.singleton_append]
    rw [lexAll_cons]
    simp [lexStep]
  | num n => exact lexAll_tok_num n ht out cs (hd rfl)
  | tru =>
    exact lexAll_lit "true".toList .tru (by decide) (by decide) (by decide) (by decide)
      (by intro c r h; injection h with h1 _; subst h1; rfl) out cs (hd rfl)
  | fls =>
    exact lexAll_lit "false".toList .fls (by decide) (by decide) (by decide) (by decide)
      (by intro c r h; injection h with h1 _; subst h1; rfl) out cs (hd rfl)
  | nul =>
    exact lexAll_lit "null".toList .nul (by decide) (by decide) (by decide) (by decide)
      (by intro c r h; injection h with h1 _; subst h1; rfl) out cs (hd rfl)

/-! ### a whole token list -/

def isPunct : Tok → Bool
  | .lbrack | .rbrack | .lbrace | .rbrace | .colon | .comma => true
  | _ => false

/-- numbers and literals are followed by punctuation (or by nothing) -/
def Sep : List Tok → Prop
  | [] => True
  | [_] => True
  | a :: b :: r => (needsDelim a = true → isPunct b = true) ∧ Sep (b :: r)

theorem delim_printToks_of_punct (b : Tok) (r : List Tok) (h : isPunct b = true) :
    Delim (printToks (b :: r)) := by
  cases b <;> simp [isPunct] at h <;> simp [printToks, printTok, Delim, isNumChar, isLower, isDigit]

theorem lexAll_printToks (ts : List Tok) (hok : ∀ t ∈ ts, TokOk t) (hsep : Sep ts) (out : List Tok) :
    lexAll .top out (printToks ts) = ts.reverse ++ out := by
  induction ts generalizing out with
  | nil => rfl
  | cons t ts ih =>
    have h1 := lexAll_tok t (hok t (by simp)) out (printToks ts) (by
      intro hn
      cases ts with
      | nil => trivial
      | cons b r => exact delim_printToks_of_punct b r (hsep.1 hn))
    show lexAll .top out (printTok t ++ printToks ts) = _
    rw [h1, ih (fun u hu => hok u (by simp [hu])) (by
      cases ts with
      | nil => trivial
      | cons b r => exact hsep.2)]
    simp

/-- **lex ∘ print = id** -/
theorem lex_printToks (ts : List Tok) (hok : ∀ t ∈ ts, TokOk t) (hsep : Sep ts) : lex (printToks ts) = ts := by
  have := lexAll_printToks ts hok hsep []
  unfold lex
  unfold lexAll at this
  simp only at this ⊢
  rw [this]
  simp

end Sm.JsonText
