/-
C15, layers 2 and 3: the world well-formedness invariant (every reference held by a handle, a view or a
manifest row points to an existing cell) is preserved by every operation, and — given it — what a view
YIELDS (`viewSigs`) is stable under every operation that is not invoked on the view, on the index it wraps,
or on a signature object it refers to (`view_obs_stable'`).
-/
import SmVerif.Lemmas.OwnObj

namespace Sm.Obj

open Sm.Own (Heap Cell Res)

/-! ### the invariant -/

structure Lens where
  sig : Nat
  view : Nat
  row : Nat
  store : Nat

def World.lens (w : World) : Lens :=
  ⟨w.sigs.cells.length, w.views.cells.length, w.rows.length, w.stores.length⟩

def Lens.le (a b : Lens) : Prop := a.sig ≤ b.sig ∧ a.view ≤ b.view ∧ a.row ≤ b.row ∧ a.store ≤ b.store

/-- kinds whose answers are read from a store -/
def VKind.usesStore : VKind → Bool
  | .zipnm | .zipm | .standalone | .sqlite | .lcasql | .sbtdisk => true
  | _ => false

def ViewOkL (L : Lens) (vc : ViewCell) : Prop :=
  (∀ x, x ∈ vc.sigs → x < L.sig) ∧ (vc.kind = .lazy → vc.db < L.view) ∧
  (∀ r, r ∈ vc.rows → r < L.row) ∧ (vc.kind.usesStore = true → vc.store < L.store)

def RowOkL (L : Lens) (row : Row) : Prop :=
  (∀ c, row.sig = some c → c < L.sig) ∧ (∀ st i, row.loc = some (st, i) → st < L.store)

/-- every reference points to an existing cell -/
structure World.WF (w : World) : Prop where
  sigH : ∀ (h c : Nat), w.sigs.cid h = some c → c < w.sigs.cells.length
  viewH : ∀ (h c : Nat), w.views.cid h = some c → c < w.views.cells.length
  views : ∀ (c : Nat) (vc : ViewCell), w.views.cells[c]? = some vc → ViewOkL w.lens vc
  rows : ∀ (i : Nat) (row : Row), w.rows[i]? = some row → RowOkL w.lens row

theorem ViewOkL.mono {a b : Lens} (h : a.le b) {vc : ViewCell} (ok : ViewOkL a vc) : ViewOkL b vc := by
  obtain ⟨h1, h2, h3, h4⟩ := h
  obtain ⟨o1, o2, o3, o4⟩ := ok
  exact ⟨fun x hx => Nat.lt_of_lt_of_le (o1 x hx) h1, fun hk => Nat.lt_of_lt_of_le (o2 hk) h2,
         fun r hr => Nat.lt_of_lt_of_le (o3 r hr) h3, fun hk => Nat.lt_of_lt_of_le (o4 hk) h4⟩

theorem RowOkL.mono {a b : Lens} (h : a.le b) {row : Row} (ok : RowOkL a row) : RowOkL b row := by
  obtain ⟨h1, _, _, h4⟩ := h
  obtain ⟨o1, o2⟩ := ok
  exact ⟨fun c hc => Nat.lt_of_lt_of_le (o1 c hc) h1, fun st i hl => Nat.lt_of_lt_of_le (o2 st i hl) h4⟩

theorem wf_empty : World.empty.WF := by
  refine ⟨?_, ?_, ?_, ?_⟩
  · intro h c hc; simp [World.empty, Tab.empty, Tab.cid] at hc
  · intro h c hc; simp [World.empty, Tab.empty, Tab.cid] at hc
  · intro c vc hc; simp [World.empty, Tab.empty] at hc
  · intro i row hr; simp [World.empty] at hr

/-! ### handle tables -/

def Tab.HWF {α : Type} (t : Tab α) : Prop := ∀ h c, t.cid h = some c → c < t.cells.length

theorem Tab.hwf_alloc {α : Type} (t : Tab α) (r : Nat) (x : α) (h : t.HWF) : (t.alloc r x).HWF := by
  intro h' c' hc'
  by_cases hr : h' = r
  · subst hr
    rw [Tab.cid_alloc_self] at hc'
    cases hc'
    simp [Tab.cells_alloc]
  · rw [Tab.cid_alloc_ne _ _ _ _ hr] at hc'
    have := h h' c' hc'
    simp [Tab.cells_alloc]; omega

theorem Tab.hwf_bind {α : Type} (t : Tab α) (r c : Nat) (h : t.HWF) (hc : c < t.cells.length) :
    (t.bind r c).HWF := by
  intro h' c' hc'
  by_cases hr : h' = r
  · subst hr
    rw [Tab.cid_bind_self] at hc'
    cases hc'
    exact hc
  · rw [Tab.cid_bind_ne _ _ _ _ hr] at hc'
    exact h h' c' hc'

theorem Tab.hwf_setCell {α : Type} (t : Tab α) (c : Nat) (x : α) (h : t.HWF) : (t.setCell c x).HWF := by
  intro h' c' hc'
  have := h h' c' hc'
  simpa [Tab.setCell] using this

/-! ### general builder: the signature table untouched, rows / stores appended, views changed in a controlled way -/

theorem wf_build (w w' : World) (hwf : w.WF)
    (hsig : w'.sigs = w.sigs)
    (hstores : ∃ ns, w'.stores = w.stores ++ ns)
    (hrows : ∃ nr, w'.rows = w.rows ++ nr ∧ ∀ row, row ∈ nr → RowOkL w'.lens row)
    (hlen : w.views.cells.length ≤ w'.views.cells.length)
    (hvh : w'.views.HWF)
    (hvok : ∀ (c : Nat) (vc : ViewCell), w'.views.cells[c]? = some vc → w.views.cells[c]? = some vc ∨ ViewOkL w'.lens vc) :
    w'.WF := by
  obtain ⟨ns, hns⟩ := hstores
  obtain ⟨nr, hnr, hnrok⟩ := hrows
  have hle : w.lens.le w'.lens := by
    refine ⟨?_, hlen, ?_, ?_⟩
    · simp [World.lens, hsig]
    · simp [World.lens, hnr]
    · simp [World.lens, hns]
  refine ⟨?_, hvh, ?_, ?_⟩
  · intro h c hc
    rw [hsig] at hc ⊢
    exact hwf.sigH h c hc
  · intro c vc hc
    rcases hvok c vc hc with hold | hnew
    · exact (hwf.views c vc hold).mono hle
    · exact hnew
  · intro i row hr
    rw [hnr] at hr
    by_cases hi : i < w.rows.length
    · rw [List.getElem?_append_left hi] at hr
      exact (hwf.rows i row hr).mono hle
    · have hi' : w.rows.length ≤ i := Nat.le_of_not_lt hi
      rw [List.getElem?_append_right hi'] at hr
      exact hnrok row (List.mem_of_getElem? hr)

/-- a new view cell -/
theorem wf_viewFresh (w : World) (hwf : w.WF) (r : Nat) (vc : ViewCell)
    (hok : ViewOkL ⟨w.sigs.cells.length, w.views.cells.length + 1, w.rows.length, w.stores.length⟩ vc) :
    (w.viewFresh r vc).WF := by
  refine wf_build w (w.viewFresh r vc) hwf rfl ⟨[], by simp⟩ ⟨[], by simp, by simp⟩ ?_ ?_ ?_
  · simp [Tab.cells_alloc]
  · exact Tab.hwf_alloc _ _ _ hwf.viewH
  · intro c vc' hc
    simp only [viewFresh_views, Tab.cells_alloc] at hc
    by_cases hlt : c < w.views.cells.length
    · rw [List.getElem?_append_left hlt] at hc
      exact .inl hc
    · have hge : w.views.cells.length ≤ c := Nat.le_of_not_lt hlt
      rw [List.getElem?_append_right hge] at hc
      have : vc' = vc := by
        have := List.mem_of_getElem? hc
        simpa using this
      subst this
      right
      simpa [World.lens, Tab.cells_alloc] using hok

/-- an existing view cell rewritten -/
theorem wf_viewSet (w : World) (hwf : w.WF) (c : Nat) (vc' : ViewCell) (hok : ViewOkL w.lens vc') :
    (w.viewSet c vc').WF := by
  refine wf_build w (w.viewSet c vc') hwf rfl ⟨[], by simp⟩ ⟨[], by simp, by simp⟩ ?_ ?_ ?_
  · simp [Tab.setCell]
  · exact Tab.hwf_setCell _ _ _ hwf.viewH
  · intro c' vc'' hc
    simp only [viewSet_views, Tab.cells_setCell] at hc
    by_cases e : c = c'
    · subst e
      have hlt : c < w.views.cells.length := by
        rcases Nat.lt_or_ge c w.views.cells.length with h | h
        · exact h
        · rw [List.getElem?_eq_none (by simpa using h)] at hc; cases hc
      rw [List.getElem?_set_self hlt] at hc
      cases hc
      right
      simpa [World.lens, Tab.setCell] using hok
    · rw [List.getElem?_set_ne e] at hc
      exact .inl hc

theorem wf_viewAlias (w : World) (hwf : w.WF) (r c : Nat) (hc : c < w.views.cells.length) :
    (w.viewAlias r c).WF := by
  refine wf_build w (w.viewAlias r c) hwf rfl ⟨[], by simp⟩ ⟨[], by simp, by simp⟩ ?_ ?_ ?_
  · simp [Tab.cells_bind]
  · exact Tab.hwf_bind _ _ _ hwf.viewH hc
  · intro c' vc hc'
    exact .inl hc'

/-- stores / rows appended (no view touched yet) -/
theorem wf_append (w : World) (hwf : w.WF) (ns : List (List SigVal)) (nr : List Row)
    (hnr : ∀ row, row ∈ nr → RowOkL ⟨w.sigs.cells.length, w.views.cells.length, w.rows.length + nr.length,
                                       w.stores.length + ns.length⟩ row) :
    ({ w with stores := w.stores ++ ns, rows := w.rows ++ nr } : World).WF := by
  refine wf_build w { w with stores := w.stores ++ ns, rows := w.rows ++ nr } hwf rfl ⟨ns, rfl⟩ ⟨nr, rfl, ?_⟩
    (Nat.le_refl _) hwf.viewH (fun c vc hc => .inl hc)
  intro row hrow
  simpa [World.lens] using hnr row hrow

/-! ### operations that can change the view table -/

def isViewOp : Op → Bool
  | .vLinear .. | .vLazy .. | .vZip .. | .vMulti .. | .vStandalone .. | .vSbt .. | .vLca .. | .vSbtLoad ..
  | .vSqlite .. | .vLcaLoad .. | .vInsert .. | .vSelect .. | .vSelectPick .. | .vZipGroups ..
  | .vMultiOf .. | .vFrom .. | .vStandOf .. | .vMPath .. => true
  | _ => false

/-- every other operation leaves views, rows and stores exactly as they were -/
theorem nonview_others (hsrc : SourceOk) (w : World) (op : Op) (h : isViewOp op = false) :
    (step w op).1.views = w.views ∧ (step w op).1.rows = w.rows ∧ (step w op).1.stores = w.stores := by
  cases op <;> simp only [isViewOp] at h <;> first | cases h | skip
  case sGatherInit r s =>
    simp only [step]
    rcases gatherInit_eq hsrc w r s with e | ⟨_, e⟩ | ⟨_, _, _, e⟩ <;> rw [e] <;> exact ⟨rfl, rfl, rfl⟩
  all_goals
    simp only [step, toMutableSig_eq hsrc, toMutableSigCopy, updateWith_eq hsrc, updateCopy] <;> (repeat' split) <;>
      first
      | exact ⟨rfl, rfl, rfl⟩
      | exact ⟨trivial, trivial, trivial⟩
      | exact ⟨(sigMutate_others _ _ _).2.1, (sigMutate_others _ _ _).2.2.1, (sigMutate_others _ _ _).2.2.2⟩

theorem sigs_len_le (hsrc : SourceOk) (w : World) (op : Op) :
    w.sigs.cells.length ≤ (step w op).1.sigs.cells.length := by
  have hs := step_sigs_shape hsrc w op
  generalize (step w op).1.sigs = t' at hs
  cases hs <;> simp [Tab.setCell, Tab.alloc, Tab.bind]

/-- the cells `signatures()` hands out of a well-formed view exist -/
theorem heldIds_valid (w : World) (hwf : w.WF) (vc : ViewCell) (l : List Nat) (h : heldIds w vc = some l) :
    ∀ x, x ∈ l → x < w.sigs.cells.length := by
  unfold heldIds at h
  cases hk : vc.kind <;> simp only [hk] at h
  case linear =>
    injection h with h; subst h
    intro x hx
    have := (List.mem_filter.mp hx).2
    cases hc : w.sigs.cells[x]? with
    | none => simp [hc] at this
    | some cell => exact lt_of_getElem? _ _ _ hc
  case multi =>
    injection h with h; subst h
    intro x hx
    simp only [List.mem_filterMap] at hx
    obtain ⟨r, _, hr⟩ := hx
    cases hrow : w.rows[r]? with
    | none => simp [hrow] at hr
    | some row =>
      simp only [hrow, Option.bind_some] at hr
      exact (hwf.rows r row hrow).1 x hr
  case lazy =>
    split at h
    · injection h with h; subst h; intro x hx; cases hx
    · next dbc _ =>
      cases hf : filterSel (vc.sel.getD []) (fun (p : Nat × SigCell) => p.2.val.mh)
          (dbc.sigs.filterMap (fun c => (w.sigs.cells[c]?).map (fun x => (c, x)))) with
      | none => simp [hf] at h
      | some l' =>
        simp only [hf, Option.map_some, Option.some.injEq] at h
        subst h
        intro x hx
        simp only [List.mem_map] at hx
        obtain ⟨p, hp, rfl⟩ := hx
        have := filterSel_subset _ _ _ _ hf p hp
        simp only [List.mem_filterMap] at this
        obtain ⟨c, _, hcp⟩ := this
        cases hcc : w.sigs.cells[c]? with
        | none => simp [hcc] at hcp
        | some cell =>
          simp [hcc] at hcp
          subst hcp
          exact lt_of_getElem? _ _ _ hcc
  all_goals
    injection h with h; subst h; intro x hx; cases hx

theorem sigH_step (hsrc : SourceOk) (w : World) (hwf : w.WF) (op : Op) : (step w op).1.sigs.HWF := by
  by_cases hget : ∃ r v i, op = .vGet r v i
  · obtain ⟨r, v, i, rfl⟩ := hget
    simp only [step]
    split
    · next vc hv =>
      split
      · exact hwf.sigH
      · split
        · split
          · exact hwf.sigH
          · next l hl =>
            split
            · next x hx =>
              exact Tab.hwf_bind _ _ _ hwf.sigH (heldIds_valid w hwf vc l hl x (List.mem_of_getElem? hx))
            · exact hwf.sigH
        · split
          · split
            · exact hwf.sigH
            · split
              · exact Tab.hwf_alloc _ _ _ hwf.sigH
              · exact hwf.sigH
          · exact hwf.sigH
    · exact hwf.sigH
  · have hs := step_sigs_shape hsrc w op
    generalize (step w op).1.sigs = t' at hs
    cases hs with
    | same => exact hwf.sigH
    | write s c cell v _ _ _ _ _ => exact Tab.hwf_setCell _ _ _ hwf.sigH
    | freeze s c cell _ _ _ => exact Tab.hwf_setCell _ _ _ hwf.sigH
    | alloc r v fr _ => exact Tab.hwf_alloc _ _ _ hwf.sigH
    | alias r c _ hwhy =>
      rcases hwhy with ⟨cell, hcell, _⟩ | ⟨v, i, e⟩
      · exact Tab.hwf_bind _ _ _ hwf.sigH (lt_of_getElem? _ _ _ hcell)
      · exact absurd ⟨r, v, i, e⟩ hget

/-- operations outside the view layer preserve well-formedness -/
theorem wf_step_nonview (hsrc : SourceOk) (w : World) (hwf : w.WF) (op : Op) (h : isViewOp op = false) :
    (step w op).1.WF := by
  obtain ⟨hv, hr, hst⟩ := nonview_others hsrc w op h
  have hle : w.lens.le (step w op).1.lens := by
    refine ⟨sigs_len_le hsrc w op, ?_, ?_, ?_⟩ <;> simp [World.lens, hv, hr, hst]
  refine ⟨sigH_step hsrc w hwf op, ?_, ?_, ?_⟩
  · rw [hv]; exact hwf.viewH
  · intro c vc hc
    rw [hv] at hc
    exact (hwf.views c vc hc).mono hle
  · intro i row hrow
    rw [hr] at hrow
    exact (hwf.rows i row hrow).mono hle

/-! ### helpers for the view constructors -/

theorem mapM_cid_valid {α : Type} (t : Tab α) (ht : t.HWF) (ss cs : List Nat)
    (h : ss.mapM t.cid = some cs) : ∀ c, c ∈ cs → c < t.cells.length := by
  induction ss generalizing cs with
  | nil => simp at h; subst h; intro c hc; cases hc
  | cons s ss ih =>
    simp only [List.mapM_cons] at h
    cases hs : t.cid s with
    | none => simp [hs] at h
    | some c0 =>
      cases hr : ss.mapM t.cid with
      | none => simp [hs, hr] at h
      | some cs0 =>
        simp [hs, hr] at h
        subst h
        intro c hc
        rcases List.mem_cons.mp hc with e | hc
        · subst e; exact ht s c hs
        · exact ih cs0 hr c hc

theorem mem_rowIdsFrom (start n x : Nat) (h : x ∈ rowIdsFrom start n) : x < start + n := by
  simp [rowIdsFrom] at h
  obtain ⟨a, ha, rfl⟩ := h
  omega

theorem mem_diskRows (st : Nat) (vs : List SigVal) (k : Bool) (f : Nat → SigVal → Loc) (row : Row)
    (h : row ∈ diskRows st vs k f) :
    row.sig = none ∧ ∃ i, row.loc = some (st, i) := by
  simp only [diskRows, List.mem_filterMap] at h
  obtain ⟨i, _, hi⟩ := h
  cases hv : vs[i]? with
  | none => simp [hv] at hi
  | some v => simp [hv] at hi; subst hi; exact ⟨rfl, i, rfl⟩

theorem wf_appendRows (w : World) (hwf : w.WF) (nr : List Row)
    (hnr : ∀ row, row ∈ nr → RowOkL ⟨w.sigs.cells.length, w.views.cells.length, w.rows.length + nr.length,
                                       w.stores.length⟩ row) :
    ({ w with rows := w.rows ++ nr } : World).WF := by
  refine wf_build w { w with rows := w.rows ++ nr } hwf rfl ⟨[], by simp⟩ ⟨nr, rfl, ?_⟩
    (Nat.le_refl _) hwf.viewH (fun c vc hc => .inl hc)
  intro row hrow
  simpa [World.lens] using hnr row hrow

theorem wf_appendStore (w : World) (hwf : w.WF) (ns : List (List SigVal)) :
    ({ w with stores := w.stores ++ ns } : World).WF := by
  refine wf_build w { w with stores := w.stores ++ ns } hwf rfl ⟨ns, rfl⟩ ⟨[], by simp, by simp⟩
    (Nat.le_refl _) hwf.viewH (fun c vc hc => .inl hc)

/-- `pickOutcome` only ever changes `picks` -/
theorem pickOutcome_fields (w : World) (vc vc' : ViewCell) (names : List String) (r : Res)
    (h : pickOutcome w vc names = some (vc', r)) :
    vc'.sigs = vc.sigs ∧ vc'.kind = vc.kind ∧ vc'.rows = vc.rows ∧ vc'.db = vc.db ∧ vc'.store = vc.store := by
  unfold pickOutcome at h
  cases hk : vc.kind <;> simp only [hk] at h <;> try (cases h; done)
  case sbt =>
    split at h <;>
      (simp only [Option.some.injEq, Prod.mk.injEq] at h; obtain ⟨h1, _⟩ := h; subst h1; exact ⟨rfl, by simp [hk], rfl, rfl, rfl⟩)
  case sbtdisk =>
    split at h <;>
      (simp only [Option.some.injEq, Prod.mk.injEq] at h; obtain ⟨h1, _⟩ := h; subst h1; exact ⟨rfl, by simp [hk], rfl, rfl, rfl⟩)
  case lca =>
    simp only [Option.some.injEq, Prod.mk.injEq] at h
    obtain ⟨h1, _⟩ := h
    subst h1
    exact ⟨rfl, by simp [hk], rfl, rfl, rfl⟩

theorem viewOk_of_cell (w : World) (hwf : w.WF) (v c : Nat) (vc : ViewCell)
    (hcid : w.views.cid v = some c) (hv : w.views.cell v = some vc) : ViewOkL w.lens vc := by
  rw [Tab.cell_of_cid _ _ _ hcid] at hv
  exact hwf.views c vc hv

theorem lens_le_succ_view (w : World) :
    w.lens.le ⟨w.sigs.cells.length, w.views.cells.length + 1, w.rows.length, w.stores.length⟩ :=
  ⟨Nat.le_refl _, Nat.le_succ _, Nat.le_refl _, Nat.le_refl _⟩

/-- the cells `signatures()` hands out of a well-formed view exist -/
theorem members_valid (w : World) (hwf : w.WF) (vc : ViewCell) (ms : List (Sum Nat SigVal))
    (h : members w vc = .ok ms) : ∀ c, Sum.inl c ∈ ms → c < w.sigs.cells.length := by
  unfold members at h
  cases hk : vc.kind <;> simp only [hk] at h
  case linear =>
    injection h with h; subst h
    intro c hc
    simp only [List.mem_append, List.mem_map] at hc
    rcases hc with ⟨x, _, hx⟩ | ⟨x, hx, e⟩
    · cases hx
    · injection e with e; subst e
      have := (List.mem_filter.mp hx).2
      cases hcc : w.sigs.cells[x]? with
      | none => simp [hcc] at this
      | some cell => exact lt_of_getElem? _ _ _ hcc
  case lazy =>
    cases hh : heldIds w vc with
    | none => simp [hh] at h
    | some l =>
      simp only [hh] at h
      injection h with h; subst h
      intro c hc
      simp only [List.mem_map] at hc
      obtain ⟨x, hx, e⟩ := hc
      injection e with e; subst e
      exact heldIds_valid w hwf vc l hh x hx
  case multi =>
    injection h with h; subst h
    intro c hc
    simp only [List.mem_filterMap] at hc
    obtain ⟨r, _, hr⟩ := hc
    cases hrow : w.rows[r]? with
    | none => simp [hrow] at hr
    | some row =>
      simp only [hrow] at hr
      cases hsg : row.sig with
      | none =>
        simp only [hsg] at hr
        split at hr <;> simp at hr
      | some c' =>
        simp only [hsg] at hr
        cases hcc : w.sigs.cells[c']? with
        | none => simp [hcc] at hr
        | some cell =>
          simp [hcc] at hr
          subst hr
          exact lt_of_getElem? _ _ _ hcc
  all_goals
    cases hv : viewSigs w vc with
    | error e => simp [hv, Except.map] at h
    | ok l =>
      simp only [hv, Except.map] at h
      injection h with h; subst h
      intro c hc
      simp only [List.mem_map] at hc
      obtain ⟨_, _, e⟩ := hc
      cases e

theorem memberRow_ok (w : World) (iloc : Loc) (m : Sum Nat SigVal) (row : Row) (h : memberRow w iloc m = some row) :
    row.loc = none ∧ ∀ c, row.sig = some c → c < w.sigs.cells.length := by
  cases m with
  | inl c =>
    simp only [memberRow] at h
    cases hcc : w.sigs.cells[c]? with
    | none => simp [hcc] at h
    | some cell =>
      simp [hcc] at h
      subst h
      exact ⟨rfl, by intro c' hc'; cases hc'; exact lt_of_getElem? _ _ _ hcc⟩
  | inr v =>
    simp only [memberRow, Option.some.injEq] at h
    subst h
    exact ⟨rfl, by intro c' hc'; cases hc'⟩

theorem multiRows_ok (w : World) (l : List (ViewCell × Option String)) (rs : List Row)
    (h : multiRows w l = .ok rs) :
    ∀ row, row ∈ rs → row.loc = none ∧ ∀ c, row.sig = some c → c < w.sigs.cells.length := by
  induction l generalizing rs with
  | nil => simp [multiRows] at h; subst h; intro row hr; cases hr
  | cons p l ih =>
    obtain ⟨vc, lab⟩ := p
    simp only [multiRows] at h
    cases hm : members w vc with
    | error e => simp [hm] at h
    | ok ms =>
      simp only [hm] at h
      cases hr : multiRows w l with
      | error e => simp [hr] at h
      | ok rs' =>
        simp only [hr] at h
        injection h with h; subst h
        intro row hrow
        rcases List.mem_append.mp hrow with hrow | hrow
        · simp only [List.mem_filterMap] at hrow
          obtain ⟨m, _, hm'⟩ := hrow
          exact memberRow_ok w _ m row hm'
        · exact ih rs' hr row hrow

theorem mem_anonRows (vs : List SigVal) (f : Nat → Loc) (row : Row) (h : row ∈ anonRows vs f) :
    row.loc = none ∧ row.sig = none := by
  simp only [anonRows, List.mem_map] at h
  obtain ⟨p, _, rfl⟩ := h
  exact ⟨rfl, rfl⟩

theorem rowOk_of (L : Lens) (row : Row) (h1 : row.loc = none) (h2 : ∀ c, row.sig = some c → c < L.sig) : RowOkL L row :=
  ⟨h2, by intro st i hl; rw [h1] at hl; cases hl⟩

/-- the view-layer operations preserve well-formedness -/
theorem wf_step_view (w : World) (hwf : w.WF) (op : Op) (h : isViewOp op = true) : (step w op).1.WF := by
  cases op <;> simp only [isViewOp] at h <;> first | cases h | skip
  case vLinear r ss =>
    simp only [step]; split
    · next cs hcs =>
      refine wf_viewFresh w hwf r _ ⟨?_, by simp, by simp, by simp [VKind.usesStore]⟩
      exact mapM_cid_valid w.sigs hwf.sigH ss cs hcs
    · exact hwf
  case vLazy r v =>
    simp only [step]; split
    · next c vc hcid _ =>
      split
      · refine wf_viewFresh w hwf r _ ⟨by simp, ?_, by simp, by simp [VKind.usesStore]⟩
        intro _
        exact Nat.lt_succ_of_lt (hwf.viewH v c hcid)
      · exact hwf
    · exact hwf
  case vZip r m ss =>
    simp only [step]; split
    · next vs _ =>
      split
      · exact hwf
      · split
        · refine wf_viewFresh _ (wf_append w hwf [vs] _ ?_) r _ ⟨by simp, by simp, ?_, ?_⟩
          · intro row hrow
            obtain ⟨h1, i, h2⟩ := mem_diskRows _ _ _ _ _ hrow
            exact ⟨(by intro c hc; rw [h1] at hc; cases hc),
                   (by intro st j hl; rw [h2] at hl; cases hl; simp)⟩
          · intro x hx
            have := mem_rowIdsFrom _ _ _ hx
            simpa using this
          · intro _; simp
        · exact wf_viewFresh _ (wf_appendStore w hwf [vs]) r _ ⟨by simp, by simp, by simp, by intro _; simp⟩
    · exact hwf
  case vZipGroups r m k ss =>
    simp only [step]; split
    · next vs _ =>
      split
      · exact hwf
      · split
        · refine wf_viewFresh _ (wf_append w hwf [vs] _ ?_) r _ ⟨by simp, by simp, ?_, ?_⟩
          · intro row hrow
            obtain ⟨h1, i, h2⟩ := mem_diskRows _ _ _ _ _ hrow
            exact ⟨(by intro c hc; rw [h1] at hc; cases hc),
                   (by intro st j hl; rw [h2] at hl; cases hl; simp)⟩
          · intro x hx
            have := mem_rowIdsFrom _ _ _ hx
            simpa using this
          · intro _; simp
        · exact wf_viewFresh _ (wf_appendStore w hwf [vs]) r _ ⟨by simp, by simp, by simp, by intro _; simp⟩
    · exact hwf
  case vStandalone r ss =>
    simp only [step]; split
    · next vs _ =>
      split
      · exact hwf
      · refine wf_viewFresh _ (wf_append w hwf [vs] _ ?_) r _ ⟨by simp, by simp, ?_, ?_⟩
        · intro row hrow
          obtain ⟨h1, i, h2⟩ := mem_diskRows _ _ _ _ _ hrow
          exact ⟨(by intro c hc; rw [h1] at hc; cases hc),
                 (by intro st j hl; rw [h2] at hl; cases hl; simp)⟩
        · intro x hx
          have := mem_rowIdsFrom _ _ _ hx
          simpa using this
        · intro _; simp
    · exact hwf
  case vMulti r vs =>
    simp only [step]; split
    · split
      · exact hwf
      · refine wf_viewFresh _ (wf_appendRows w hwf _ ?_) r _ ⟨by simp, by simp, ?_, by simp [VKind.usesStore]⟩
        · intro row hrow
          simp only [List.mem_flatMap, List.mem_filterMap] at hrow
          obtain ⟨p, _, c, _, hc⟩ := hrow
          cases hcc : w.sigs.cells[c]? with
          | none => simp [hcc] at hc
          | some sc =>
            simp [hcc] at hc
            subst hc
            exact ⟨(by intro c' hc'; cases hc'; exact lt_of_getElem? _ _ _ hcc), (by intro st i hl; cases hl)⟩
        · intro x hx
          have := mem_rowIdsFrom _ _ _ hx
          simpa using this
    · exact hwf
  case vSbt r ss =>
    simp only [step]; split
    · next cs vs hcs _ =>
      split
      · exact hwf
      · split
        · exact hwf
        · refine wf_viewFresh w hwf r _ ⟨?_, by simp, by simp, by simp [VKind.usesStore]⟩
          exact mapM_cid_valid w.sigs hwf.sigH ss cs hcs
    · exact hwf
  case vLca r ss =>
    simp only [step]; split
    · split
      · exact hwf
      · split
        · exact hwf
        · exact wf_viewFresh w hwf r _ ⟨by simp, by simp, by simp, by simp [VKind.usesStore]⟩
    · exact hwf
  case vSbtLoad r fmt cache ss =>
    simp only [step]; split
    · split
      · exact hwf
      · split
        · exact hwf
        · exact wf_viewFresh _ (wf_appendStore w hwf _) r _ ⟨by simp, by simp, by simp, by intro _; simp⟩
    · exact hwf
  case vSqlite r ss =>
    simp only [step]; split
    · split
      · exact hwf
      · split
        · exact hwf
        · exact wf_viewFresh _ (wf_appendStore w hwf _) r _ ⟨by simp, by simp, by simp, by intro _; simp⟩
    · exact hwf
  case vLcaLoad r fmt ss =>
    simp only [step]; split
    · split
      · exact hwf
      · split
        · exact hwf
        · split
          · exact wf_viewFresh _ (wf_appendStore w hwf _) r _ ⟨by simp, by simp, by simp, by simp [VKind.usesStore]⟩
          · exact wf_viewFresh _ (wf_appendStore w hwf _) r _ ⟨by simp, by simp, by simp, by intro _; simp⟩
    · exact hwf
  case vMultiOf r pre ins =>
    simp only [step]; split
    · exact hwf
    · split
      · exact hwf
      · split
        · exact hwf
        · next rs hrs =>
          refine wf_viewFresh _ (wf_appendRows w hwf rs ?_) r _ ⟨by simp, by simp, ?_, by simp [VKind.usesStore]⟩
          · intro row hrow
            obtain ⟨h1, h2⟩ := multiRows_ok w _ rs hrs row hrow
            exact rowOk_of _ row h1 h2
          · intro x hx
            have := mem_rowIdsFrom _ _ _ hx
            simpa using this
  case vMPath r mode v =>
    simp only [step]; split
    · exact hwf
    · split
      · exact hwf
      · split
        · exact hwf
        · split
          · exact hwf
          · refine wf_viewFresh _ (wf_append w hwf [_] _ ?_) r _ ⟨by simp, by simp, ?_, by simp [VKind.usesStore]⟩
            · intro row hrow
              have hr : row.loc = none ∧ row.sig = none := by
                split at hrow
                · exact mem_anonRows _ _ row hrow
                · split at hrow
                  · exact mem_anonRows _ _ row hrow
                  · rcases List.mem_append.mp hrow with h | h <;> exact mem_anonRows _ _ row h
              exact rowOk_of _ row hr.1 (by intro c hc; rw [hr.2] at hc; cases hc)
            · intro x hx
              have := mem_rowIdsFrom _ _ _ hx
              simpa using this
  case vStandOf r v =>
    simp only [step]; split
    · exact hwf
    · next vc hv =>
      obtain ⟨c, hcid, hcell⟩ := Tab.cell_eq w.views v vc hv
      obtain ⟨o1, o2, o3, o4⟩ := hwf.views c vc hcell
      split
      · exact hwf
      · next hk =>
        have hkind : vc.kind = .standalone := by
          cases hkk : vc.kind <;> simp_all
        refine wf_viewFresh _ (wf_append w hwf [[]] _ ?_) r _ ⟨by simp, by simp, ?_, ?_⟩
        · intro row hrow
          simp only [List.mem_filterMap] at hrow
          obtain ⟨r0, _, hr0⟩ := hrow
          cases hrow0 : w.rows[r0]? with
          | none => simp [hrow0] at hr0
          | some row0 =>
            simp [hrow0] at hr0
            subst hr0
            obtain ⟨q1, q2⟩ := hwf.rows r0 row0 hrow0
            exact ⟨fun c hc => q1 c hc, fun st i hl => Nat.lt_of_lt_of_le (q2 st i hl) (by simp [World.lens])⟩
        · intro x hx
          have := mem_rowIdsFrom _ _ _ hx
          simpa using this
        · intro _
          have := o4 (by simp [hkind, VKind.usesStore])
          simp only [World.lens] at this
          simp; omega
  case vFrom r kind v =>
    simp only [step]; split
    · exact hwf
    · next vc hv =>
      split
      · exact hwf
      · split
        · exact hwf
        · next ms hms =>
          have hids : ∀ x, x ∈ ms.filterMap (fun m => match m with | .inl c => some c | .inr _ => none) →
              x < w.sigs.cells.length := by
            intro x hx
            simp only [List.mem_filterMap] at hx
            obtain ⟨m, hm, hmx⟩ := hx
            cases m with
            | inl c => simp at hmx; subst hmx; exact members_valid w hwf vc ms hms c hm
            | inr y => simp at hmx
          (repeat' split) <;>
            first
            | exact hwf
            | exact wf_viewFresh w hwf r _ ⟨hids, by simp, by simp, by simp [VKind.usesStore]⟩
            | exact wf_viewFresh w hwf r _ ⟨by simp, by simp, by simp, by simp [VKind.usesStore]⟩
  case vInsert v s =>
    simp only [step]; split
    · next c vc sc scell hcid hv hscid _ =>
      have hok := viewOk_of_cell w hwf v c vc hcid hv
      have hsc := hwf.sigH s sc hscid
      obtain ⟨o1, o2, o3, o4⟩ := hok
      have hins : ViewOkL w.lens { vc with sigs := vc.sigs ++ [sc] } := by
        refine ⟨?_, o2, o3, o4⟩
        intro x hx
        rcases List.mem_append.mp hx with hx | hx
        · exact o1 x hx
        · simp at hx; subst hx; exact hsc
      split
      · exact wf_viewSet w hwf c _ hins
      · split
        · exact hwf
        · exact wf_viewSet w hwf c _ hins
      · split
        · exact hwf
        · split
          · exact hwf
          · exact wf_viewSet w hwf c _ ⟨o1, o2, o3, o4⟩
      · exact hwf
      · exact hwf
      · exact hwf
    · exact hwf
  case vSelect r v kw =>
    simp only [step]; split
    · next c vc hcid hv =>
      have hok := viewOk_of_cell w hwf v c vc hcid hv
      split
      · next vc' ho =>
        obtain ⟨hk, hs, hr, hdb, hst, _, _⟩ := select_shares' w vc vc' kw ho
        obtain ⟨o1, o2, o3, o4⟩ := hok.mono (lens_le_succ_view w)
        refine wf_viewFresh w hwf r vc' ⟨fun x hx => o1 x (hs x hx), ?_, fun x hx => o3 x (hr x hx), ?_⟩
        · intro hl
          rw [hk] at hl
          rw [hdb hl]
          exact o2 hl
        · intro hu
          rw [hk] at hu
          have hd : vc.kind.onDisk = true := by
            have hf := selectOutcome_fresh w vc vc' kw ho
            cases hkk : vc.kind <;> simp_all [VKind.usesStore, VKind.onDisk, VKind.inPlace]
          rw [hst hd]
          exact o4 hu
      · next vc' ho =>
        have := (selectOutcome_inplace w vc vc' kw ho).2
        subst this
        have hw1 := wf_viewSet w hwf c vc' hok
        refine wf_viewAlias _ hw1 r c ?_
        simpa [Tab.setCell] using hwf.viewH v c hcid
      · exact hwf
    · exact hwf
  case vSelectPick r v names =>
    simp only [step]; split
    · next c vc hcid hv =>
      have hok := viewOk_of_cell w hwf v c vc hcid hv
      have hfields : ∀ vc' res, pickOutcome w vc names = some (vc', res) → ViewOkL w.lens vc' := by
        intro vc' res ho
        obtain ⟨f1, f2, f3, f4, f5⟩ := pickOutcome_fields w vc vc' names res ho
        obtain ⟨o1, o2, o3, o4⟩ := hok
        exact ⟨by rw [f1]; exact o1, by rw [f2, f4]; exact o2, by rw [f3]; exact o3, by rw [f2, f5]; exact o4⟩
      split
      · next vc' ho =>
        have hw1 := wf_viewSet w hwf c vc' (hfields vc' _ ho)
        refine wf_viewAlias _ hw1 r c ?_
        simpa [Tab.setCell] using hwf.viewH v c hcid
      · next vc' e _ ho => exact wf_viewSet w hwf c vc' (hfields vc' _ ho)
      · exact hwf
    · exact hwf

/-- **every operation preserves well-formedness**, hence every reachable world is well-formed -/
theorem wf_step (hsrc : SourceOk) (w : World) (hwf : w.WF) (op : Op) : (step w op).1.WF := by
  by_cases h : isViewOp op = true
  · exact wf_step_view w hwf op h
  · exact wf_step_nonview hsrc w hwf op (by simpa using h)

theorem wf_foldl (hsrc : SourceOk) (ops : List Op) (w : World) (hwf : w.WF) :
    (ops.foldl (fun w op => (step w op).1) w).WF := by
  induction ops generalizing w with
  | nil => exact hwf
  | cons op ops ih => exact ih _ (wf_step hsrc w hwf op)

/-! ### what a view yields is stable -/

/-- the signature cells a view's answer is read from (by reference) -/
def deps (w : World) (vc : ViewCell) : List Nat :=
  match vc.kind with
  | .linear | .sbt => vc.sigs
  | .lazy =>
    match w.views.cells[vc.db]? with
    | some dbc => dbc.sigs
    | none => []
  | .multi => vc.rows.filterMap (fun r => (w.rows[r]?).bind (·.sig))
  | _ => []

theorem exists_of_lt {α : Type} (l : List α) (i : Nat) (h : i < l.length) : ∃ x, l[i]? = some x :=
  ⟨l[i], by simp [h]⟩

theorem sig_cell_stable (hsrc : SourceOk) (w : World) (op : Op) (x : Nat) (hx : x < w.sigs.cells.length)
    (hne : ∀ s, sigReceiver op = some s → w.sigs.cid s ≠ some x) :
    (step w op).1.sigs.cells[x]? = w.sigs.cells[x]? := by
  obtain ⟨cell, hcell⟩ := exists_of_lt _ _ hx
  rw [hcell]; exact sig_frame' hsrc w op x cell hcell hne

theorem view_cell_stable (hsrc : SourceOk) (w : World) (op : Op) (x : Nat) (hx : x < w.views.cells.length)
    (hne : ∀ v, viewReceiver op = some v → w.views.cid v ≠ some x) :
    (step w op).1.views.cells[x]? = w.views.cells[x]? := by
  obtain ⟨cell, hcell⟩ := exists_of_lt _ _ hx
  rw [hcell]; exact view_frame' hsrc w op x cell hcell hne

theorem row_stable' (hsrc : SourceOk) (w : World) (op : Op) (i : Nat) (hi : i < w.rows.length) :
    (step w op).1.rows[i]? = w.rows[i]? := by
  obtain ⟨row, hrow⟩ := exists_of_lt _ _ hi
  rw [hrow]; exact rows_stable hsrc w op i row hrow

theorem store_stable' (hsrc : SourceOk) (w : World) (op : Op) (i : Nat) (hi : i < w.stores.length) :
    (step w op).1.stores[i]? = w.stores[i]? := by
  obtain ⟨st, hst⟩ := exists_of_lt _ _ hi
  rw [hst]; exact stores_stable hsrc w op i st hst

theorem filterMap_congr' {α β : Type} (f g : α → Option β) (l : List α) (h : ∀ x, x ∈ l → f x = g x) :
    l.filterMap f = l.filterMap g := by
  induction l with
  | nil => rfl
  | cons a l ih =>
    have ha := h a List.mem_cons_self
    have ih' := ih (fun x hx => h x (List.mem_cons_of_mem _ hx))
    simp only [List.filterMap_cons, ha, ih']

theorem sigCellsOf_congr (w w' : World) (ids : List Nat)
    (h : ∀ x, x ∈ ids → w'.sigs.cells[x]? = w.sigs.cells[x]?) : sigCellsOf w' ids = sigCellsOf w ids := by
  unfold sigCellsOf
  apply filterMap_congr'
  intro x hx
  exact h x hx

/-- **observational stability**: in a well-formed world (every reachable world is, `wf_foldl`) what a view yields —
    `list(view.signatures())`, contents, frozen flags and order, or the exception it raises — is unchanged by every
    operation that is not invoked on that view (insert / in-place select), on the index it wraps (lazy), or on a
    signature object it refers to -/
theorem view_obs_stable' (hsrc : SourceOk) (w : World) (hwf : w.WF) (op : Op) (c : Nat) (vc : ViewCell)
    (hc : w.views.cells[c]? = some vc)
    (hv : ∀ v cv, viewReceiver op = some v → w.views.cid v = some cv → cv ≠ c ∧ (vc.kind = .lazy → cv ≠ vc.db))
    (hs : ∀ s cs, sigReceiver op = some s → w.sigs.cid s = some cs → cs ∉ deps w vc) :
    (step w op).1.views.cells[c]? = some vc ∧ viewSigs (step w op).1 vc = viewSigs w vc := by
  have hcell : (step w op).1.views.cells[c]? = some vc := by
    apply view_frame' hsrc w op c vc hc
    intro v hr e
    exact (hv v c hr e).1 rfl
  refine ⟨hcell, ?_⟩
  obtain ⟨o1, o2, o3, o4⟩ := hwf.views c vc hc
  -- signature cells the answer is read from
  have hsig : ∀ x, x ∈ deps w vc → x < w.sigs.cells.length →
      (step w op).1.sigs.cells[x]? = w.sigs.cells[x]? := by
    intro x hx hlt
    apply sig_cell_stable hsrc w op x hlt
    intro s hr e
    exact hs s x hr e hx
  have hrows : ∀ r, r ∈ vc.rows → (step w op).1.rows[r]? = w.rows[r]? :=
    fun r hr => row_stable' hsrc w op r (o3 r hr)
  have hstore : vc.kind.usesStore = true → (step w op).1.stores[vc.store]? = w.stores[vc.store]? :=
    fun hu => store_stable' hsrc w op vc.store (o4 hu)
  cases hk : vc.kind
  case linear =>
    simp only [viewSigs, hk]
    rw [sigCellsOf_congr w _ vc.sigs (fun x hx => hsig x (by simp [deps, hk, hx]) (o1 x hx))]
  case sbt =>
    simp only [viewSigs, hk]
    rw [sigCellsOf_congr w _ vc.sigs (fun x hx => hsig x (by simp [deps, hk, hx]) (o1 x hx))]
  case lazy =>
    have hdb : (step w op).1.views.cells[vc.db]? = w.views.cells[vc.db]? := by
      apply view_cell_stable hsrc w op vc.db (o2 hk)
      intro v hr e
      exact (hv v vc.db hr e).2 hk rfl
    simp only [viewSigs, hk, hdb]
    cases hd : w.views.cells[vc.db]? with
    | none => rfl
    | some dbc =>
      simp only
      have hdbok := hwf.views vc.db dbc hd
      rw [sigCellsOf_congr w _ dbc.sigs (fun x hx => hsig x (by simp [deps, hk, hd, hx]) (hdbok.1 x hx))]
  case zipnm =>
    simp only [viewSigs, hk, hstore (by simp [hk, VKind.usesStore])]
  case sbtdisk =>
    simp only [viewSigs, hk, hstore (by simp [hk, VKind.usesStore])]
  case sqlite =>
    simp only [viewSigs, hk, hstore (by simp [hk, VKind.usesStore])]
  case lcasql =>
    simp only [viewSigs, hk, hstore (by simp [hk, VKind.usesStore])]
  case lca => simp only [viewSigs, hk]
  case zipm =>
    simp only [viewSigs, hk]
    congr 2
    apply filterMap_congr'
    intro r hr
    rw [hrows r hr]
    cases hrow : w.rows[r]? with
    | none => rfl
    | some row =>
      simp only
      cases hl : row.loc with
      | none => rfl
      | some p =>
        obtain ⟨st, i⟩ := p
        simp only
        rw [store_stable' hsrc w op st ((hwf.rows r row hrow).2 st i hl)]
  case standalone =>
    simp only [viewSigs, hk]
    congr 2
    apply filterMap_congr'
    intro r hr
    rw [hrows r hr]
    cases hrow : w.rows[r]? with
    | none => rfl
    | some row =>
      simp only
      cases hl : row.loc with
      | none => rfl
      | some p =>
        obtain ⟨st, i⟩ := p
        simp only
        rw [store_stable' hsrc w op st ((hwf.rows r row hrow).2 st i hl)]
  case multi =>
    simp only [viewSigs, hk]
    congr 1
    apply filterMap_congr'
    intro r hr
    rw [hrows r hr]
    cases hrow : w.rows[r]? with
    | none => rfl
    | some row =>
      simp only
      cases hsg : row.sig with
      | none => rfl
      | some cs =>
        simp only
        rw [hsig cs (by
              simp only [deps, hk, List.mem_filterMap]
              exact ⟨r, hr, by simp [hrow, hsg]⟩) ((hwf.rows r row hrow).1 cs hsg)]

/-- … and so are the LOCATIONS it reports for them (`signatures_with_location()`, hence the locations of search results) -/
theorem view_locs_stable' (hsrc : SourceOk) (w : World) (hwf : w.WF) (op : Op) (c : Nat) (vc : ViewCell)
    (hc : w.views.cells[c]? = some vc)
    (hv : ∀ v cv, viewReceiver op = some v → w.views.cid v = some cv → cv ≠ c ∧ (vc.kind = .lazy → cv ≠ vc.db))
    (hs : ∀ s cs, sigReceiver op = some s → w.sigs.cid s = some cs → cs ∉ deps w vc) :
    viewLocs (step w op).1 vc = viewLocs w vc := by
  have hobs := (view_obs_stable' hsrc w hwf op c vc hc hv hs).2
  obtain ⟨o1, o2, o3, o4⟩ := hwf.views c vc hc
  have hrows : ∀ r, r ∈ vc.rows → (step w op).1.rows[r]? = w.rows[r]? :=
    fun r hr => row_stable' hsrc w op r (o3 r hr)
  cases hk : vc.kind <;> simp only [viewLocs, hk] <;> first | rw [hobs] | skip
  case multi =>
    congr 1
    apply filterMap_congr'
    intro r hr
    rw [hrows r hr]
    cases hrow : w.rows[r]? with
    | none => rfl
    | some row =>
      simp only
      cases hsg : row.sig with
      | none => rfl
      | some cs =>
        simp only
        have hsig : (step w op).1.sigs.cells[cs]? = w.sigs.cells[cs]? := by
          apply sig_cell_stable hsrc w op cs ((hwf.rows r row hrow).1 cs hsg)
          intro s hr' e
          apply hs s cs hr' e
          simp only [deps, hk, List.mem_filterMap]
          exact ⟨r, hr, by simp [hrow, hsg]⟩
        rw [hsig]
  case standalone =>
    congr 1
    apply filterMap_congr'
    intro r hr
    rw [hrows r hr]
    cases hrow : w.rows[r]? with
    | none => rfl
    | some row =>
      simp only
      cases hl : row.loc with
      | none => rfl
      | some p =>
        obtain ⟨st, i⟩ := p
        simp only
        rw [store_stable' hsrc w op st ((hwf.rows r row hrow).2 st i hl)]
  case lazy =>
    have hdb : (step w op).1.views.cells[vc.db]? = w.views.cells[vc.db]? := by
      apply view_cell_stable hsrc w op vc.db (o2 hk)
      intro v hr e
      exact (hv v vc.db hr e).2 hk rfl
    rw [hdb]

theorem any_congr' {α : Type} (f g : α → Bool) (l : List α) (h : ∀ x, x ∈ l → f x = g x) : l.any f = l.any g := by
  induction l with
  | nil => rfl
  | cons a l ih =>
    simp only [List.any_cons, h a List.mem_cons_self, ih (fun x hx => h x (List.mem_cons_of_mem _ hx))]

/-- the other answers of a view — `len(view)`, `ss in view.manifest` for EVERY sketch, and the containment search with the
    dump's probe query (when the probe is still the same signature) — are stable under exactly the same conditions -/
theorem view_answers_stable' (hsrc : SourceOk) (w : World) (hwf : w.WF) (op : Op) (c : Nat) (vc : ViewCell)
    (hc : w.views.cells[c]? = some vc)
    (hv : ∀ v cv, viewReceiver op = some v → w.views.cid v = some cv → cv ≠ c ∧ (vc.kind = .lazy → cv ≠ vc.db))
    (hs : ∀ s cs, sigReceiver op = some s → w.sigs.cid s = some cs → cs ∉ deps w vc) :
    viewLen (step w op).1 vc = viewLen w vc ∧ (∀ m, viewMember (step w op).1 vc m = viewMember w vc m) ∧
    (probeOf (step w op).1 = probeOf w → viewFind (step w op).1 vc = viewFind w vc) := by
  have hobs := (view_obs_stable' hsrc w hwf op c vc hc hv hs).2
  obtain ⟨o1, o2, o3, o4⟩ := hwf.views c vc hc
  have hsig : ∀ x, x ∈ deps w vc → x < w.sigs.cells.length →
      (step w op).1.sigs.cells[x]? = w.sigs.cells[x]? := by
    intro x hx hlt
    apply sig_cell_stable hsrc w op x hlt
    intro s hr e
    exact hs s x hr e hx
  have hrows : ∀ r, r ∈ vc.rows → (step w op).1.rows[r]? = w.rows[r]? :=
    fun r hr => row_stable' hsrc w op r (o3 r hr)
  have hstore : vc.kind.usesStore = true → (step w op).1.stores[vc.store]? = w.stores[vc.store]? :=
    fun hu => store_stable' hsrc w op vc.store (o4 hu)
  have hcells : (vc.kind = .linear ∨ vc.kind = .sbt) →
      sigCellsOf (step w op).1 vc.sigs = sigCellsOf w vc.sigs := by
    intro hk
    apply sigCellsOf_congr
    intro x hx
    apply hsig x _ (o1 x hx)
    rcases hk with hk | hk <;> simp [deps, hk, hx]
  refine ⟨?_, ?_, ?_⟩
  · cases hk : vc.kind <;> simp only [viewLen, hk]
    case linear => rw [hcells (.inl hk)]
    case sbt => rw [hcells (.inr hk)]
    case lazy => rw [hobs]
    case zipnm => rw [hobs]
    case sqlite => rw [hobs]
    case lcasql => rw [hobs]
    case sbtdisk => rw [hstore (by simp [hk, VKind.usesStore])]
  · intro m
    cases hk : vc.kind <;> simp only [viewMember, hk]
    case zipm =>
      congr 1; apply any_congr'; intro r hr; rw [hrows r hr]
    case multi =>
      congr 1; apply any_congr'; intro r hr; rw [hrows r hr]
    case standalone =>
      congr 1; apply any_congr'; intro r hr; rw [hrows r hr]
    case sbtdisk => rw [hstore (by simp [hk, VKind.usesStore])]
    case sqlite => rw [hstore (by simp [hk, VKind.usesStore])]
    case lcasql => rw [hstore (by simp [hk, VKind.usesStore])]
  · intro hp
    unfold viewFind
    rw [hp, hobs, view_locs_stable' hsrc w hwf op c vc hc hv hs]
    by_cases hk : vc.kind = .sbt
    · rw [hcells (.inr hk)]
    · have : (vc.kind == VKind.sbt) = false := by
        cases hkk : vc.kind <;> simp_all
      simp only [this, Bool.false_and]

/-! ### what loaders hand out -/

theorem mem_frozenOut (vs : List SigVal) (o : SigOut) (h : o ∈ frozenOut vs) : o.1 = true := by
  simp only [frozenOut, List.mem_map] at h
  obtain ⟨v, _, rfl⟩ := h
  rfl

theorem mem_mutableOut (vs : List SigVal) (o : SigOut) (h : o ∈ mutableOut vs) :
    o.1 = !Gen.ownSqliteHandsOutMutable := by
  simp only [mutableOut, List.mem_map] at h
  obtain ⟨v, _, rfl⟩ := h
  rfl

/-- zip collections (with / without manifest) and standalone manifests yield FROZEN signatures only -/
theorem viewSigs_frozen (w : World) (vc : ViewCell) (l : List SigOut)
    (hk : vc.kind = .zipnm ∨ vc.kind = .zipm ∨ vc.kind = .standalone)
    (h : viewSigs w vc = .ok l) : ∀ o, o ∈ l → o.1 = true := by
  unfold viewSigs at h
  rcases hk with hk | hk | hk <;> simp only [hk] at h
  · split at h
    · injection h with h; subst h; exact fun o ho => mem_frozenOut _ o ho
    · injection h with h; subst h; exact fun o ho => mem_frozenOut _ o ho
    · next kw _ _ =>
      cases hf : filterSel kw (fun (v : SigVal) => v.mh) ((w.stores[vc.store]?).getD []) with
      | none => simp [hf, optErr] at h
      | some l' =>
        simp only [hf, Option.map_some, optErr] at h
        injection h with h; subst h; exact fun o ho => mem_frozenOut _ o ho
  · injection h with h; subst h; exact fun o ho => mem_frozenOut _ o ho
  · injection h with h; subst h; exact fun o ho => mem_frozenOut _ o ho

/-- a SqliteIndex / LCA_SqliteDatabase yields what the current source makes it yield -/
theorem viewSigs_sqlite (w : World) (vc : ViewCell) (l : List SigOut)
    (hk : vc.kind = .sqlite ∨ vc.kind = .lcasql)
    (h : viewSigs w vc = .ok l) : ∀ o, o ∈ l → o.1 = !Gen.ownSqliteHandsOutMutable := by
  unfold viewSigs at h
  rcases hk with hk | hk <;> simp only [hk] at h <;>
    (cases hf : filterSql (vc.sel.getD []) ((w.stores[vc.store]?).getD []) with
     | error e => simp [hf, Except.map] at h
     | ok l' =>
       simp only [hf, Except.map] at h
       injection h with h; subst h; exact fun o ho => mem_mutableOut _ o ho)

/-- `signatures()[i]` of a collection read back from disk: a NEW signature cell whose frozen flag is the one
    `viewSigs` reports -/
theorem vGet_disk (w : World) (r v i : Nat) (vc : ViewCell) (hv : w.views.cell v = some vc)
    (hh : vc.kind.holdsObjects = false) (hr : vc.kind.readsInOrder = true)
    (hok : (step w (.vGet r v i)).2 = .ok) :
    ∃ l o, viewSigs w vc = .ok l ∧ o ∈ l ∧ (step w (.vGet r v i)).1.sigs = w.sigs.alloc r ⟨o.2, o.1⟩ := by
  simp only [step, hv, hh, hr, Bool.false_eq_true, if_false, if_true] at hok ⊢
  cases hs : viewSigs w vc with
  | error e => simp [hs] at hok
  | ok l =>
    simp only [hs] at hok ⊢
    cases hi : l[i]? with
    | none => simp [hi] at hok
    | some o => exact ⟨l, o, rfl, List.mem_of_getElem? hi, rfl⟩

end Sm.Obj
