/-
C06, `SqliteIndex.find` end to end (plain search): the matches are exactly the stored sketches whose
score passes, where the score is built from `n = |subject ∩ query|` (the SQL join count) and the
subject size `_load_sketch_size` reports; that score is the specification score of the pair
(before the fix of finding D12 the size was wrong for a scaled-1 database queried at scaled 2).
-/
import SmVerif.Lemmas.SearchSql
import SmVerif.Lemmas.SearchCounter

namespace Sm.Search

open Sm

/-- the database `SqliteIndex.insert` builds from sketches with their ids -/
def sqlOf (sc : Nat) (sks : List (Nat × MH)) : SqlDb :=
  ⟨some sc, sks.flatMap (fun p => rowsOf p.1 p.2), sks⟩

theorem rowsOf_id {i : Nat} {s : MH} {r : Int × Nat} (h : r ∈ rowsOf i s) : r.2 = i := by
  unfold rowsOf at h
  obtain ⟨_, _, rfl⟩ := List.mem_map.1 h
  rfl

/-- the rows of one sketch inside the whole table -/
theorem rows_of_sketch (P : Int → Bool) (i : Nat) (s : MH) :
    ∀ sks : List (Nat × MH), (sks.map Prod.fst).Nodup → (i, s) ∈ sks →
      (sks.flatMap (fun p => rowsOf p.1 p.2)).filter (fun r => decide (r.2 = i) && P r.1) =
        (rowsOf i s).filter (fun r => P r.1) := by
  intro sks
  induction sks with
  | nil => intro _ h; cases h
  | cons p rest ih =>
    intro hn hmem
    obtain ⟨j, s'⟩ := p
    simp only [List.map_cons, List.nodup_cons] at hn
    simp only [List.flatMap_cons, List.filter_append]
    rcases List.mem_cons.1 hmem with heq | hmem'
    · cases heq
      have h1 : (rowsOf i s).filter (fun r => decide (r.2 = i) && P r.1) = (rowsOf i s).filter (fun r => P r.1) := by
        apply List.filter_congr
        intro r hr
        rw [rowsOf_id hr]; simp
      have h2 : (rest.flatMap (fun p => rowsOf p.1 p.2)).filter (fun r => decide (r.2 = i) && P r.1) = [] := by
        apply List.filter_eq_nil_iff.2
        intro r hr
        obtain ⟨p, hp, hrp⟩ := List.mem_flatMap.1 hr
        have := rowsOf_id hrp
        have hne : r.2 ≠ i := by
          intro e
          apply hn.1
          rw [← e, this]
          exact List.mem_map.2 ⟨p, hp, rfl⟩
        simp [hne]
      rw [h1, h2, List.append_nil]
    · have hne : j ≠ i := by
        intro e
        apply hn.1
        rw [e]
        exact List.mem_map.2 ⟨(i, s), hmem', rfl⟩
      have h1 : (rowsOf j s').filter (fun r => decide (r.2 = i) && P r.1) = [] := by
        apply List.filter_eq_nil_iff.2
        intro r hr
        rw [rowsOf_id hr]
        simp [hne]
      rw [h1, List.nil_append]
      exact ih hn.2 hmem'

/-- both branches of `_load_sketch_size` report the number of stored hashes `≤ max_hash` -/
theorem loadSketchSize_of {sc : Nat} {sks : List (Nat × MH)} (hn : (sks.map Prod.fst).Nodup)
    {i : Nat} {s : MH} (hmem : (i, s) ∈ sks) (hU : ∀ h ∈ s.mins, h < 2 ^ 64) (M : Nat) :
    (sqlOf sc sks).loadSketchSize i M = (s.mins.filter (fun h => decide (h ≤ M))).length := by
  unfold SqlDb.loadSketchSize sqlOf
  simp only []
  by_cases hM : M ≤ Gen.sqlMaxInt
  · rw [if_pos hM]
    have := rows_of_sketch (fun v => decide (v ≥ 0 ∧ v ≤ (M : Int))) i s sks hn hmem
    have e : (sks.flatMap (fun p => rowsOf p.1 p.2)).filter (fun r => decide (r.2 = i ∧ r.1 ≥ 0 ∧ r.1 ≤ (M : Int))) =
        (sks.flatMap (fun p => rowsOf p.1 p.2)).filter (fun r => decide (r.2 = i) && decide (r.1 ≥ 0 ∧ r.1 ≤ (M : Int))) := by
      apply List.filter_congr
      intro r _
      simp [Bool.decide_and]
    rw [e, this]
    have := size_clause_le (id := i) hM hU
    rw [← this]
    congr 1
    apply List.filter_congr
    intro r hr
    rw [rowsOf_id hr]; simp
  · rw [if_neg hM]
    have := rows_of_sketch (fun v => decide (v ≥ 0 ∨ v ≤ convTo M)) i s sks hn hmem
    have e : (sks.flatMap (fun p => rowsOf p.1 p.2)).filter (fun r => decide (r.2 = i ∧ (r.1 ≥ 0 ∨ r.1 ≤ convTo M))) =
        (sks.flatMap (fun p => rowsOf p.1 p.2)).filter (fun r => decide (r.2 = i) && decide (r.1 ≥ 0 ∨ r.1 ≤ convTo M)) := by
      apply List.filter_congr
      intro r _
      simp [Bool.decide_and]
    rw [e, this]
    have := size_clause_gt (id := i) (M := M) (by omega) hU
    rw [← this]
    congr 1
    apply List.filter_congr
    intro r hr
    rw [rowsOf_id hr]; simp

/-- the score `SqliteIndex.find` gives sketch `s` for the prepared query `q'` -/
def sqlScore (m : Mode) (q' s : MH) : Ratio :=
  let n := (s.mins.filter (fun h => decide (h ∈ q'.mins))).length
  let size := (s.mins.filter (fun h => decide (h ≤ q'.maxHash))).length
  scoreFn m q'.mins.length n size (q'.mins.length + size - n)

theorem scoreFn_n_zero (m : Mode) (q su t : Nat) : (scoreFn m q 0 su t).n = 0 := by
  cases m
  · rw [scoreFn_jaccard]; split <;> rfl
  · rw [scoreFn_containment]; split <;> rfl
  · rw [scoreFn_maxContainment]; split <;> rfl

theorem sqlLoop_eq_scan (db : SqlDb) (q' : MH) (m : Mode) :
    ∀ (cands : List (Nat × Nat)) (js : JS), js.mode = m →
      sqlLoop db q' js cands = scan js (cands.map (fun p =>
        ⟨p.1, scoreFn m q'.mins.length p.2 (db.loadSketchSize p.1 q'.maxHash)
          (q'.mins.length + db.loadSketchSize p.1 q'.maxHash - p.2)⟩)) := by
  intro cands
  induction cands with
  | nil => intro js _; rfl
  | cons p rest ih =>
    intro js hm
    obtain ⟨id, n⟩ := p
    simp only [sqlLoop, List.map_cons, scan, hm]
    split
    · rw [ih (js.collect _) ((collect_mode js _).trans hm)]
    · exact ih js hm

/-- the candidates: every stored sketch that shares a hash with the query, with the number of
shared hashes, each once -/
theorem matchingSketches_spec {sc : Nat} {sks : List (Nat × MH)} (hn : (sks.map Prod.fst).Nodup)
    (hU : ∀ p ∈ sks, ∀ h ∈ p.2.mins, h < 2 ^ 64) {Q : List Nat} {maxHash : Nat} (hQne : Q ≠ [])
    (hQb : ∀ h ∈ Q, h ≤ maxHash) (hQU : ∀ h ∈ Q, h < 2 ^ 64) :
    ∃ cands, (sqlOf sc sks).matchingSketches Q maxHash = .ok cands ∧
      (cands.map Prod.fst).Nodup ∧
      ∀ i n, (i, n) ∈ cands ↔ ∃ s, (i, s) ∈ sks ∧ n = (s.mins.filter (fun h => decide (h ∈ Q))).length ∧ 0 < n := by
  unfold SqlDb.matchingSketches
  cases hmx : Q.max? with
  | none => exact absurd (List.max?_eq_none_iff.1 hmx) hQne
  | some mx =>
    simp only []
    have hmxle : ∀ h ∈ Q, h ≤ mx := fun h hh => (List.max?_eq_some_iff.1 hmx).2 h hh
    -- the range clause is redundant
    have hjoin : (sqlOf sc sks).rows.filter (fun r =>
          (if min maxHash mx ≤ Gen.sqlMaxInt then decide (r.1 ≥ 0 ∧ r.1 ≤ ((min maxHash mx : Nat) : Int)) else true) &&
          (Q.map convTo).contains r.1) =
        (sqlOf sc sks).rows.filter (fun r => (Q.map convTo).contains r.1) := by
      apply List.filter_congr
      intro r _
      by_cases hc : (Q.map convTo).contains r.1 = true
      · rw [hc, Bool.and_true]
        by_cases hle : min maxHash mx ≤ Gen.sqlMaxInt
        · rw [if_pos hle]
          have := range_clause_redundant hQb hmxle hQU (List.contains_iff_mem.1 hc) hle
          exact decide_eq_true this
        · rw [if_neg hle]
      · have : (Q.map convTo).contains r.1 = false := by
          cases h : (Q.map convTo).contains r.1 with
          | true => exact absurd h hc
          | false => rfl
        rw [this, Bool.and_false]
    rw [hjoin]
    refine ⟨_, rfl, ?_, ?_⟩
    · have := (mostCommon_perm (List.foldl (fun c r => counterIncr c r.2) []
        ((sqlOf sc sks).rows.filter (fun r => (Q.map convTo).contains r.1)))).map Prod.fst
      refine (List.Perm.nodup_iff this).2 ?_
      have e : List.foldl (fun c (r : Int × Nat) => counterIncr c r.2) []
          ((sqlOf sc sks).rows.filter (fun r => (Q.map convTo).contains r.1)) =
          countAll (((sqlOf sc sks).rows.filter (fun r => (Q.map convTo).contains r.1)).map Prod.snd) := by
        unfold countAll; rw [List.foldl_map]
      rw [e]
      exact countAll_nodup _
    · intro i n
      have e : List.foldl (fun c (r : Int × Nat) => counterIncr c r.2) []
          ((sqlOf sc sks).rows.filter (fun r => (Q.map convTo).contains r.1)) =
          countAll (((sqlOf sc sks).rows.filter (fun r => (Q.map convTo).contains r.1)).map Prod.snd) := by
        unfold countAll; rw [List.foldl_map]
      rw [(mostCommon_perm _).mem_iff, e, mem_countAll]
      -- the number of joined rows carrying id `i`
      have hcount : List.count i (((sqlOf sc sks).rows.filter (fun r => (Q.map convTo).contains r.1)).map Prod.snd) =
          ((sqlOf sc sks).rows.filter (fun r => decide (r.2 = i) && (Q.map convTo).contains r.1)).length := by
        rw [List.count, List.countP_map, List.countP_eq_length_filter, List.filter_filter]
        congr 1
      rw [hcount]
      constructor
      · intro ⟨h1, h2⟩
        -- some row with id i exists, hence a sketch with id i
        have hex : ∃ r, r ∈ (sqlOf sc sks).rows.filter (fun r => decide (r.2 = i) && (Q.map convTo).contains r.1) := by
          apply List.exists_mem_of_length_pos
          omega
        obtain ⟨r, hr⟩ := hex
        have hr' := List.mem_filter.1 hr
        obtain ⟨p, hp, hrp⟩ := List.mem_flatMap.1 hr'.1
        have hid : p.1 = i := by
          have := rowsOf_id hrp
          have h3 : r.2 = i := of_decide_eq_true ((Bool.and_eq_true _ _ ▸ hr'.2).1)
          rw [← this, h3]
        obtain ⟨j, s⟩ := p
        simp only [] at hid
        subst hid
        refine ⟨s, hp, ?_, h2⟩
        rw [h1]
        show ((sks.flatMap (fun p => rowsOf p.1 p.2)).filter _).length = _
        rw [rows_of_sketch (fun v => (Q.map convTo).contains v) j s sks hn hp]
        exact join_count (hU _ hp) hQU
      · intro ⟨s, hs, h1, h2⟩
        refine ⟨?_, h2⟩
        rw [h1]
        show _ = ((sks.flatMap (fun p => rowsOf p.1 p.2)).filter _).length
        rw [rows_of_sketch (fun v => (Q.map convTo).contains v) i s sks hn hs]
        exact (join_count (hU _ hs) hQU).symm

/-- `find` after the query has been prepared -/
def sqlCore (db : SqlDb) (js : JS) (q' : MH) : Except SErr (JS × List Hit) :=
  match db.matchingSketches q'.mins q'.maxHash with
  | .error e => .error e
  | .ok xx => .ok (sqlLoop db q' js xx)

/-- **plain SqliteIndex search**: a hit is returned iff it is a stored sketch whose `sqlScore`
passes (each stored sketch at most once) -/
theorem sqlCore_plain {sc : Nat} {sks : List (Nat × MH)} (hn : (sks.map Prod.fst).Nodup)
    (hU : ∀ p ∈ sks, ∀ h ∈ p.2.mins, h < 2 ^ 64) {q' : MH} (hQne : q'.mins ≠ [])
    (hQb : ∀ h ∈ q'.mins, h ≤ q'.maxHash) (hQU : ∀ h ∈ q'.mins, h < 2 ^ 64)
    (js : JS) (hb : js.bestOnly = false) :
    ∃ hits, sqlCore (sqlOf sc sks) js q' = .ok (js, hits) ∧ (hits.map Hit.idx).Nodup ∧
      ∀ x, x ∈ hits ↔ ∃ s, (x.idx, s) ∈ sks ∧ x.score = sqlScore js.mode q' s ∧ js.passes x.score = true := by
  obtain ⟨cands, hc, hnd, hmem⟩ := matchingSketches_spec (sc := sc) hn hU hQne hQb hQU
  unfold sqlCore
  rw [hc]
  simp only []
  rw [sqlLoop_eq_scan _ _ js.mode cands js rfl, scan_plain hb]
  refine ⟨_, rfl, ?_, ?_⟩
  · unfold bruteHits
    have : ((cands.map (fun p => (⟨p.1, scoreFn js.mode q'.mins.length p.2 ((sqlOf sc sks).loadSketchSize p.1 q'.maxHash)
        (q'.mins.length + (sqlOf sc sks).loadSketchSize p.1 q'.maxHash - p.2)⟩ : Hit))).map Hit.idx) = cands.map Prod.fst := by
      rw [List.map_map]; rfl
    exact (List.Nodup.sublist (List.Sublist.map _ List.filter_sublist) (this ▸ hnd))
  · intro x
    unfold bruteHits
    rw [List.mem_filter, List.mem_map]
    constructor
    · intro ⟨⟨p, hp, hx⟩, hpass⟩
      obtain ⟨i, n⟩ := p
      obtain ⟨s, hs, hn', _⟩ := (hmem i n).1 hp
      subst hx
      refine ⟨s, hs, ?_, hpass⟩
      simp only [sqlScore]
      rw [loadSketchSize_of hn hs (hU _ hs), hn']
    · intro ⟨s, hs, hsc, hpass⟩
      have hnpos : 0 < (s.mins.filter (fun h => decide (h ∈ q'.mins))).length := by
        rw [hsc] at hpass
        have := (passes_iff js _).1 hpass
        -- the numerator of every score function is the shared count
        unfold sqlScore at this
        simp only [] at this
        by_contra h0
        have h0' : (s.mins.filter (fun h => decide (h ∈ q'.mins))).length = 0 := by omega
        rw [h0'] at this
        exact this.1.1 (scoreFn_n_zero _ _ _ _)
      refine ⟨⟨(x.idx, (s.mins.filter (fun h => decide (h ∈ q'.mins))).length), (hmem _ _).2 ⟨s, hs, rfl, hnpos⟩, ?_⟩, hpass⟩
      obtain ⟨xi, xs⟩ := x
      simp only [] at hsc hs ⊢
      rw [hsc]
      simp only [sqlScore]
      rw [loadSketchSize_of hn hs (hU _ hs)]

/-! ### the SQLite score is the specification score -/

theorem filter_mem_symm {A B : List Nat} (hA : Sorted A) (hB : Sorted B) :
    (A.filter (fun z => decide (z ∈ B))).length = (B.filter (fun z => decide (z ∈ A))).length := by
  rw [← interL_eq_filter hA hB, ← interL_eq_filter hB hA]
  congr 1
  apply Sorted.ext (hA.sublist (interL_sublist A B)) (hB.sublist (interL_sublist B A))
  intro z
  constructor
  · intro hz
    exact interL_mem B A hB hA z (interL_subset_right A B z hz) ((interL_sublist A B).subset hz)
  · intro hz
    exact interL_mem A B hA hB z (interL_subset_right B A z hz) ((interL_sublist B A).subset hz)

theorem Flat.u64 {s : MH} {S : Nat} (h : Flat s S) : ∀ x ∈ s.mins, x < 2 ^ 64 := by
  intro x hx
  have h1 := h.inv.bounded h.mh_ne x hx
  rw [h.mh] at h1
  have h2 := mhR_lt_two64 S
  omega

/-- for a query prepared at `S = max Sq Sd` and a stored sketch at `Sd`: the score SQLite computes
is the specification score -/
theorem sqlScore_eq_spec (m : Mode) {q q' s : MH} {Sq Sd : Nat} (hq' : Flat q' (max Sq Sd))
    (hqm : q'.mins = q.mins.filter (fun x => decide (x ≤ mhR (max Sq Sd)))) (hs : Flat s Sd) :
    sqlScore m q' s = specScore m Sq Sd q.mins s.mins := by
  unfold sqlScore specScore specSizes
  simp only []
  rw [← hqm, hq'.mh]
  -- the overlap
  have hshared : (s.mins.filter (fun h => decide (h ∈ q'.mins))).length =
      (q'.mins.filter (fun z => decide (z ∈ s.mins.filter (fun x => decide (x ≤ mhR (max Sq Sd)))))).length := by
    rw [← filter_mem_symm (sorted_filter hs.inv.sorted _) hq'.inv.sorted, List.filter_filter]
    congr 1
    apply List.filter_congr
    intro h _
    by_cases hm : h ∈ q'.mins
    · have hb := hq'.inv.bounded hq'.mh_ne h hm
      rw [hq'.mh] at hb
      simp [hm, hb]
    · simp [hm]
  rw [hshared]

end Sm.Search
