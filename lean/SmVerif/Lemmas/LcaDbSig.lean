/-
`_signatures`: the inversion of `hashval_to_idx` (with its batches of
`lcaSigBatch` hashes) rebuilds, for every signature index that occurs in the index at
all, exactly the ascending list of the hashes filed under it.
-/
import SmVerif.Lemmas.LcaDbQuery

namespace Sm.Lca

open Sm.Lin Sm.Dict

/-! ### `erase` -/

theorem get?_erase {β : Type} {d : List (Nat × β)} (hnd : (keys d).Nodup) (k j : Nat) :
    get? (erase d k) j = if j = k then none else get? d j := by
  induction d with
  | nil => simp [erase]
  | cons p rest ih =>
    obtain ⟨k', v⟩ := p
    simp only [keys, List.nodup_cons] at hnd
    simp only [erase]
    by_cases hk : k = k'
    · subst hk
      simp only [if_true, get?]
      by_cases hj : j = k
      · subst hj; simp [get?_eq_none_iff.mpr hnd.1]
      · simp [hj]
    · simp only [hk, if_false, get?]
      by_cases hj : j = k'
      · subst hj
        have : ¬ j = k := fun e => hk e.symm
        simp [this]
      · simp only [hj, if_false]
        exact ih hnd.2

theorem keys_erase_sublist {β : Type} (d : List (Nat × β)) (k : Nat) : (keys (erase d k)).Sublist (keys d) := by
  induction d with
  | nil => simp [erase]
  | cons p rest ih =>
    obtain ⟨k', v⟩ := p
    simp only [erase]
    by_cases hk : k = k'
    · simp only [hk, if_true, keys]; exact List.sublist_cons_self _ _
    · simp only [hk, if_false, keys]; exact ih.cons_cons _

theorem mem_keys_iff_get? {β : Type} {d : List (Nat × β)} {j : Nat} : j ∈ keys d ↔ (get? d j).isSome :=
  get?_isSome_iff.symm

/-! ### the state of the inversion -/

def insFold (mx : Nat) (acc : List Nat) (hs : List Nat) : List Nat :=
  hs.foldl (fun acc h => if h ≤ mx then insertAsc acc h else acc) acc

theorem mem_insFold (mx : Nat) (hs acc : List Nat) (h : Nat) :
    h ∈ insFold mx acc hs ↔ h ∈ acc ∨ (h ∈ hs ∧ h ≤ mx) := by
  unfold insFold
  induction hs generalizing acc with
  | nil => simp
  | cons x xs ih =>
    simp only [List.foldl_cons]
    rw [ih]
    by_cases hx : x ≤ mx
    · simp only [hx, if_true, mem_insertAsc, List.mem_cons]
      constructor
      · rintro ((h1 | h1) | h1)
        · exact Or.inl h1
        · exact Or.inr ⟨Or.inl h1, h1 ▸ hx⟩
        · exact Or.inr ⟨Or.inr h1.1, h1.2⟩
      · rintro (h1 | ⟨h1 | h1, h2⟩)
        · exact Or.inl (Or.inl h1)
        · exact Or.inl (Or.inr h1)
        · exact Or.inr ⟨h1, h2⟩
    · simp only [hx, if_false, List.mem_cons]
      constructor
      · rintro (h1 | h1)
        · exact Or.inl h1
        · exact Or.inr ⟨Or.inr h1.1, h1.2⟩
      · rintro (h1 | ⟨h1 | h1, h2⟩)
        · exact Or.inl h1
        · exact absurd (h1 ▸ h2) hx
        · exact Or.inr ⟨h1, h2⟩

theorem sorted_insFold (mx : Nat) (hs : List Nat) {acc : List Nat} (h : acc.Pairwise (· < ·)) :
    (insFold mx acc hs).Pairwise (· < ·) := by
  unfold insFold
  induction hs generalizing acc with
  | nil => exact h
  | cons x xs ih =>
    simp only [List.foldl_cons]
    apply ih
    by_cases hx : x ≤ mx
    · simp only [hx, if_true]; exact sorted_insertAsc h x
    · simp only [hx, if_false]; exact h

theorem addManyTo_eq (mhd : List (Nat × List Nat)) (mx idx : Nat) (hs : List Nat) :
    addManyTo mhd mx idx hs = set mhd idx (insFold mx ((get? mhd idx).getD []) hs) := rfl

/-- hashes filed under `j` so far -/
def M (mhd : List (Nat × List Nat)) (j : Nat) : List Nat := (get? mhd j).getD []

structure SInv (mx : Nat) (st : SigState) : Prop where
  temp_nodup : (keys st.temp).Nodup
  mhd_nodup : (keys st.mhd).Nodup
  sorted : ∀ j, (M st.mhd j).Pairwise (· < ·)

/-- the hashes collected for `j` so far (those of the pending batch count if they pass the threshold) -/
def content (mx : Nat) (st : SigState) (j h : Nat) : Prop :=
  h ∈ M st.mhd j ∨ (h ∈ M st.temp j ∧ h ≤ mx)

def present (st : SigState) (j : Nat) : Prop := j ∈ keys st.mhd ∨ j ∈ keys st.temp

theorem M_set (d : List (Nat × List Nat)) (k j : Nat) (v : List Nat) :
    M (set d k v) j = if j = k then v else M d j := by
  unfold M
  rw [get?_set]
  by_cases h : j = k <;> simp [h]

theorem sigStep_spec {mx hashval : Nat} {st : SigState} (hs : SInv mx st) (idx : Nat) :
    SInv mx (sigStep mx hashval st idx) ∧
      (∀ j h, content mx (sigStep mx hashval st idx) j h ↔
        content mx st j h ∨ (j = idx ∧ h = hashval ∧ h ≤ mx)) ∧
      (∀ j, present (sigStep mx hashval st idx) j ↔ present st j ∨ j = idx) := by
  unfold sigStep
  simp only
  by_cases hb : ((get? st.temp idx).getD [] ++ [hashval]).length > Gen.lcaSigBatch
  · simp only [hb, if_true]
    have hnd' : (keys (set st.temp idx ((get? st.temp idx).getD [] ++ [hashval]))).Nodup :=
      nodup_keys_set hs.temp_nodup _ _
    refine ⟨⟨?_, ?_, ?_⟩, ?_, ?_⟩
    · exact (keys_erase_sublist _ _).nodup hnd'
    · rw [addManyTo_eq]; exact nodup_keys_set hs.mhd_nodup _ _
    · intro j
      rw [addManyTo_eq, M_set]
      by_cases hj : j = idx
      · simp only [hj, if_true]
        exact sorted_insFold _ _ (hs.sorted idx)
      · simp only [hj, if_false]; exact hs.sorted j
    · intro j h
      unfold content
      simp only
      rw [addManyTo_eq, M_set]
      have hT : M (erase (set st.temp idx ((get? st.temp idx).getD [] ++ [hashval])) idx) j =
          if j = idx then [] else M st.temp j := by
        unfold M
        rw [get?_erase hnd', get?_set]
        by_cases hj : j = idx <;> simp [hj]
      rw [hT]
      by_cases hj : j = idx
      · subst hj
        simp only [if_true, List.not_mem_nil, false_and, or_false, true_and]
        rw [mem_insFold]
        simp only [List.mem_append, List.mem_cons, List.not_mem_nil, or_false]
        unfold M
        constructor
        · rintro (h1 | ⟨h1 | h1, h2⟩)
          · exact Or.inl (Or.inl h1)
          · exact Or.inl (Or.inr ⟨h1, h2⟩)
          · exact Or.inr ⟨h1, h2⟩
        · rintro ((h1 | ⟨h1, h2⟩) | ⟨h1, h2⟩)
          · exact Or.inl h1
          · exact Or.inr ⟨Or.inl h1, h2⟩
          · exact Or.inr ⟨Or.inr h1, h2⟩
      · simp [hj]
    · intro j
      unfold present
      simp only
      rw [addManyTo_eq, mem_keys_set]
      have hk : j ∈ keys (erase (set st.temp idx ((get? st.temp idx).getD [] ++ [hashval])) idx) ↔
          j ∈ keys st.temp ∧ j ≠ idx := by
        rw [mem_keys_iff_get?, get?_erase hnd', get?_set]
        by_cases hj : j = idx
        · simp [hj]
        · simp [hj, mem_keys_iff_get?]
      rw [hk]
      constructor
      · rintro ((h1 | h1) | ⟨h1, _⟩)
        · exact Or.inl (Or.inl h1)
        · exact Or.inr h1
        · exact Or.inl (Or.inr h1)
      · rintro ((h1 | h1) | h1)
        · exact Or.inl (Or.inl h1)
        · by_cases hj : j = idx
          · exact Or.inl (Or.inr hj)
          · exact Or.inr ⟨h1, hj⟩
        · exact Or.inl (Or.inr h1)
  · simp only [hb, if_false]
    refine ⟨⟨nodup_keys_set hs.temp_nodup _ _, hs.mhd_nodup, hs.sorted⟩, ?_, ?_⟩
    · intro j h
      unfold content
      simp only
      rw [M_set]
      by_cases hj : j = idx
      · subst hj
        simp only [if_true, List.mem_append, List.mem_cons, List.not_mem_nil, or_false, true_and]
        unfold M
        constructor
        · rintro (h1 | ⟨h1 | h1, h2⟩)
          · exact Or.inl (Or.inl h1)
          · exact Or.inl (Or.inr ⟨h1, h2⟩)
          · exact Or.inr ⟨h1, h2⟩
        · rintro ((h1 | ⟨h1, h2⟩) | ⟨h1, h2⟩)
          · exact Or.inl h1
          · exact Or.inr ⟨Or.inl h1, h2⟩
          · exact Or.inr ⟨Or.inr h1, h2⟩
      · simp [hj]
    · intro j
      unfold present
      simp only
      rw [mem_keys_set]
      constructor
      · rintro (h1 | h1 | h1)
        · exact Or.inl (Or.inl h1)
        · exact Or.inl (Or.inr h1)
        · exact Or.inr h1
      · rintro ((h1 | h1) | h1)
        · exact Or.inl h1
        · exact Or.inr (Or.inl h1)
        · exact Or.inr (Or.inr h1)

theorem inner_spec {mx hashval : Nat} (s : List Nat) {st : SigState} (hs : SInv mx st) :
    SInv mx (s.foldl (sigStep mx hashval) st) ∧
      (∀ j h, content mx (s.foldl (sigStep mx hashval) st) j h ↔
        content mx st j h ∨ (j ∈ s ∧ h = hashval ∧ h ≤ mx)) ∧
      (∀ j, present (s.foldl (sigStep mx hashval) st) j ↔ present st j ∨ j ∈ s) := by
  induction s generalizing st with
  | nil => simp [hs]
  | cons i is ih =>
    simp only [List.foldl_cons]
    obtain ⟨a1, a2, a3⟩ := sigStep_spec (hashval := hashval) hs i
    obtain ⟨b1, b2, b3⟩ := ih a1
    refine ⟨b1, ?_, ?_⟩
    · intro j h
      rw [b2, a2]
      simp only [List.mem_cons]
      constructor
      · rintro ((h1 | ⟨h1, h2⟩) | ⟨h1, h2⟩)
        · exact Or.inl h1
        · exact Or.inr ⟨Or.inl h1, h2⟩
        · exact Or.inr ⟨Or.inr h1, h2⟩
      · rintro (h1 | ⟨h1 | h1, h2⟩)
        · exact Or.inl (Or.inl h1)
        · exact Or.inl (Or.inr ⟨h1, h2⟩)
        · exact Or.inr ⟨h1, h2⟩
    · intro j
      rw [b3, a3]
      simp only [List.mem_cons]
      constructor
      · rintro ((h1 | h1) | h1)
        · exact Or.inl h1
        · exact Or.inr (Or.inl h1)
        · exact Or.inr (Or.inr h1)
      · rintro (h1 | h1 | h1)
        · exact Or.inl (Or.inl h1)
        · exact Or.inl (Or.inr h1)
        · exact Or.inr h1

theorem outer_spec {mx : Nat} (d : List (Nat × List Nat)) {st : SigState} (hs : SInv mx st) :
    let st' := d.foldl (fun st (p : Nat × List Nat) => p.2.foldl (sigStep mx p.1) st) st
    SInv mx st' ∧
      (∀ j h, content mx st' j h ↔ content mx st j h ∨ (∃ s, (h, s) ∈ d ∧ j ∈ s ∧ h ≤ mx)) ∧
      (∀ j, present st' j ↔ present st j ∨ ∃ h s, (h, s) ∈ d ∧ j ∈ s) := by
  induction d generalizing st with
  | nil => simp [hs]
  | cons p rest ih =>
    obtain ⟨hv, s⟩ := p
    simp only [List.foldl_cons]
    obtain ⟨a1, a2, a3⟩ := inner_spec (hashval := hv) s hs
    obtain ⟨b1, b2, b3⟩ := ih a1
    refine ⟨b1, ?_, ?_⟩
    · intro j h
      rw [b2, a2]
      simp only [List.mem_cons, Prod.mk.injEq]
      constructor
      · rintro ((h1 | ⟨h1, h2, h3⟩) | ⟨s', h1, h2⟩)
        · exact Or.inl h1
        · exact Or.inr ⟨s, Or.inl ⟨h2, rfl⟩, h1, h3⟩
        · exact Or.inr ⟨s', Or.inr h1, h2⟩
      · rintro (h1 | ⟨s', ⟨h1, h1'⟩ | h1, h2, h3⟩)
        · exact Or.inl (Or.inl h1)
        · subst h1'; exact Or.inl (Or.inr ⟨h2, h1, h3⟩)
        · exact Or.inr ⟨s', h1, h2, h3⟩
    · intro j
      rw [b3, a3]
      simp only [List.mem_cons, Prod.mk.injEq]
      constructor
      · rintro ((h1 | h1) | ⟨h', s', h1, h2⟩)
        · exact Or.inl h1
        · exact Or.inr ⟨hv, s, Or.inl ⟨rfl, rfl⟩, h1⟩
        · exact Or.inr ⟨h', s', Or.inr h1, h2⟩
      · rintro (h1 | ⟨h', s', ⟨h1, h1'⟩ | h1, h2⟩)
        · exact Or.inl (Or.inl h1)
        · subst h1'; exact Or.inl (Or.inr h2)
        · exact Or.inr ⟨h', s', h1, h2⟩

/-- the second loop: every pending batch goes into its sketch -/
theorem final_spec (mx : Nat) (tl : List (Nat × List Nat)) (htl : (keys tl).Nodup)
    {mhd : List (Nat × List Nat)} (hnd : (keys mhd).Nodup) (hsorted : ∀ j, (M mhd j).Pairwise (· < ·)) :
    let R := tl.foldl (fun mhd (p : Nat × List Nat) => addManyTo mhd mx p.1 p.2) mhd
    (keys R).Nodup ∧ (∀ j, (M R j).Pairwise (· < ·)) ∧
      (∀ j h, h ∈ M R j ↔ h ∈ M mhd j ∨ (h ∈ M tl j ∧ h ≤ mx)) ∧
      (∀ j, j ∈ keys R ↔ j ∈ keys mhd ∨ j ∈ keys tl) := by
  induction tl generalizing mhd with
  | nil => exact ⟨hnd, hsorted, by simp [M], by simp [keys]⟩
  | cons p rest ih =>
    obtain ⟨k, hs⟩ := p
    simp only [keys, List.nodup_cons] at htl
    simp only [List.foldl_cons]
    have hnd1 : (keys (addManyTo mhd mx k hs)).Nodup := by rw [addManyTo_eq]; exact nodup_keys_set hnd _ _
    have hs1 : ∀ j, (M (addManyTo mhd mx k hs) j).Pairwise (· < ·) := by
      intro j
      rw [addManyTo_eq, M_set]
      by_cases hj : j = k
      · simp only [hj, if_true]; exact sorted_insFold _ _ (hsorted k)
      · simp only [hj, if_false]; exact hsorted j
    obtain ⟨c1, c2, c3, c4⟩ := ih htl.2 hnd1 hs1
    refine ⟨c1, c2, ?_, ?_⟩
    · intro j h
      rw [c3, addManyTo_eq, M_set]
      have hMtl : M ((k, hs) :: rest) j = if j = k then hs else M rest j := by
        unfold M; simp only [get?]; by_cases hj : j = k <;> simp [hj]
      rw [hMtl]
      by_cases hj : j = k
      · subst hj
        have hr : M rest j = [] := by
          unfold M; rw [get?_eq_none_iff.mpr htl.1]; rfl
        simp only [if_true, hr, List.not_mem_nil, false_and, or_false]
        rw [mem_insFold]; rfl
      · simp [hj]
    · intro j
      rw [c4, addManyTo_eq, mem_keys_set]
      simp only [keys, List.mem_cons]
      constructor
      · rintro ((h1 | h1) | h1)
        · exact Or.inl h1
        · exact Or.inr (Or.inl h1)
        · exact Or.inr (Or.inr h1)
      · rintro (h1 | h1 | h1)
        · exact Or.inl (Or.inl h1)
        · exact Or.inl (Or.inr h1)
        · exact Or.inr h1

/-- the two inversion loops: the sketch rebuilt for every index that occurs in the inverted index -/
theorem sketchesCore_spec (db : Db) :
    (keys db.sketchesCore).Nodup ∧ (∀ j, (M db.sketchesCore j).Pairwise (· < ·)) ∧
      (∀ j h, h ∈ M db.sketchesCore j ↔ ∃ s, (h, s) ∈ db.hashvalToIdx ∧ j ∈ s ∧ h ≤ mhR db.scaled) ∧
      (∀ j, j ∈ keys db.sketchesCore ↔ ∃ h s, (h, s) ∈ db.hashvalToIdx ∧ j ∈ s) := by
  unfold Db.sketchesCore
  simp only
  have h0 : SInv (mhR db.scaled) ({ temp := [], mhd := [] } : SigState) :=
    ⟨by simp [keys], by simp [keys], by intro j; simp [M]⟩
  obtain ⟨a1, a2, a3⟩ := outer_spec db.hashvalToIdx h0
  obtain ⟨c1, c2, c3, c4⟩ := final_spec (mhR db.scaled) _ a1.temp_nodup a1.mhd_nodup a1.sorted
  refine ⟨c1, c2, ?_, ?_⟩
  · intro j h
    rw [c3]
    have := a2 j h
    unfold content at this
    rw [this]
    simp [M]
  · intro j
    rw [c4]
    have := a3 j
    unfold present at this
    rw [this]
    simp [keys]

/-- `for idx in self._idx_to_ident: mhd[idx]` adds the missing indices with an empty sketch and
    changes nothing else -/
theorem touchAll_spec (idxs : List Nat) {mhd : List (Nat × List Nat)} (hnd : (keys mhd).Nodup) :
    (keys (touchAll mhd idxs)).Nodup ∧ (∀ j, M (touchAll mhd idxs) j = M mhd j) ∧
      (∀ j, j ∈ keys (touchAll mhd idxs) ↔ j ∈ keys mhd ∨ j ∈ idxs) := by
  unfold touchAll
  induction idxs generalizing mhd with
  | nil => simp [hnd]
  | cons i is ih =>
    simp only [List.foldl_cons]
    by_cases hc : contains mhd i = true
    · simp only [hc, if_true]
      obtain ⟨a, b, c⟩ := ih hnd
      refine ⟨a, b, ?_⟩
      intro j
      rw [c]
      have hi : i ∈ keys mhd := get?_isSome_iff.mp hc
      simp only [List.mem_cons]
      constructor
      · rintro (h | h)
        · exact Or.inl h
        · exact Or.inr (Or.inr h)
      · rintro (h | h | h)
        · exact Or.inl h
        · exact Or.inl (h ▸ hi)
        · exact Or.inr h
    · simp only [hc, Bool.false_eq_true, if_false]
      have hi : get? mhd i = none := by
        unfold contains at hc
        cases hg : get? mhd i with
        | none => rfl
        | some v => simp [hg] at hc
      obtain ⟨a, b, c⟩ := ih (nodup_keys_set hnd i [])
      refine ⟨a, ?_, ?_⟩
      · intro j
        rw [b, M_set]
        by_cases hj : j = i
        · subst hj; simp [M, hi]
        · simp [hj]
      · intro j
        rw [c, mem_keys_set]
        simp only [List.mem_cons]
        constructor
        · rintro ((h | h) | h)
          · exact Or.inl h
          · exact Or.inr (Or.inl h)
          · exact Or.inr (Or.inr h)
        · rintro (h | h | h)
          · exact Or.inl (Or.inl h)
          · exact Or.inl (Or.inr h)
          · exact Or.inr h

/-- `_signatures` before names: the sketch rebuilt for index `j`; an index is present iff it occurs in the
    inverted index or is the index of some identifier -/
theorem sketches_spec (db : Db) :
    (keys db.sketches).Nodup ∧ (∀ j, (M db.sketches j).Pairwise (· < ·)) ∧
      (∀ j h, h ∈ M db.sketches j ↔ ∃ s, (h, s) ∈ db.hashvalToIdx ∧ j ∈ s ∧ h ≤ mhR db.scaled) ∧
      (∀ j, j ∈ keys db.sketches ↔ (∃ h s, (h, s) ∈ db.hashvalToIdx ∧ j ∈ s) ∨ j ∈ vals db.identToIdx) := by
  obtain ⟨c1, c2, c3, c4⟩ := sketchesCore_spec db
  obtain ⟨t1, t2, t3⟩ := touchAll_spec (vals db.identToIdx) c1
  unfold Db.sketches
  refine ⟨t1, ?_, ?_, ?_⟩
  · intro j; rw [t2]; exact c2 j
  · intro j h; rw [t2]; exact c3 j h
  · intro j; rw [t3, c4]

end Sm.Lca
