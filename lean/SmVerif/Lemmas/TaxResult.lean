/-
C19 helper lemmas, part 7: membership in the result of one rank, children sums, writer sorting.
-/
import SmVerif.Lemmas.TaxClassify

namespace Sm.Tax

set_option linter.unusedSectionVars false
set_option linter.unusedSimpArgs false
variable {ν : Type} [DecidableEq ν]

theorem mem_result (rp : Option (Repair ℚ)) (g : Gather ν) (hv : g.Valid) (hrp : RepairOK rp g.N) (r : Nat) (es : List (Entry ℚ ν))
    (h : buildRank ratA rp g.qbp r (g.tbl r) = .ok es) (e : Entry ℚ ν) :
    e ∈ es ↔ (∃ x ∈ g.tbl r, e = toEntry r x) ∨ e ∈ g.rem r := by
  rw [buildRank_valid rp g hv hrp r] at h
  cases h
  rw [List.mem_append, List.mem_map]
  constructor
  · rintro (⟨x, hx, rfl⟩ | h)
    · exact Or.inl ⟨x, (sortDesc_perm ratA _).mem_iff.mp hx, rfl⟩
    · exact Or.inr h
  · rintro (⟨x, hx, rfl⟩ | h)
    · exact Or.inl ⟨x, (sortDesc_perm ratA _).mem_iff.mpr hx, rfl⟩
    · exact Or.inr h

theorem rem_lin (g : Gather ν) (r : Nat) (e : Entry ℚ ν) (h : e ∈ g.rem r) : e.lin = [] := by
  unfold Gather.rem at h
  split at h
  · simp at h; subst h; rfl
  · cases h

/-- the reported children of `L` (entries at the lower rank `r'` whose lineage cut at `r` is `L`) -/
def childrenOf (L : Lineage ν) (r : Nat) (es' : List (Entry ℚ ν)) : List (Entry ℚ ν) :=
  es'.filter (fun c => !isUnclassified c && decide (popTo c.lin r = L))

theorem children_sum (rp : Option (Repair ℚ)) (g : Gather ν) (hv : g.Valid) (hrp : RepairOK rp g.N) (r r' : Nat) (es' : List (Entry ℚ ν))
    (h' : buildRank ratA rp g.qbp r' (g.tbl r') = .ok es') (L : Lineage ν) (p : Proj ν)
    (gE : Entry ℚ ν → ℚ) (hgE : ∀ x : Lineage ν × Acc ℚ, gE (toEntry r' x) = p.acc x.2) :
    ((childrenOf L r es').map gE).sum = psum (fun C => decide (popTo C r = L)) p.acc (g.tbl r') := by
  rw [buildRank_valid rp g hv hrp r'] at h'
  cases h'
  unfold childrenOf
  rw [List.filter_append]
  have hrem : (g.rem r').filter (fun c => !isUnclassified c && decide (popTo c.lin r = L)) = [] := by
    rw [List.filter_eq_nil_iff]
    intro c hc
    have := rem_lin g r' c hc
    simp [isUnclassified, this]
  rw [hrem, List.append_nil, List.filter_map, List.map_map]
  rw [psum_perm _ _ (sortDesc_perm ratA (g.tbl r')).symm]
  unfold psum
  have hf : (sortDesc ratA (g.tbl r')).filter ((fun c => !isUnclassified c && decide (popTo c.lin r = L)) ∘ toEntry r')
      = (sortDesc ratA (g.tbl r')).filter (fun x => decide (popTo x.1 r = L)) := by
    apply List.filter_congr
    intro x hx
    have hx' := (sortDesc_perm ratA _).mem_iff.mp hx
    have hne := key_ne_nil g r' x.1 x.2 hx'
    have hemp : x.1.isEmpty = false := by
      cases hl : x.1 with
      | nil => exact absurd hl hne
      | cons a t => rfl
    simp only [Function.comp, toEntry, isUnclassified, hemp, Bool.not_false, Bool.true_and]
    exact decide_eq_decide.mpr Iff.rfl
  rw [hf]
  congr 1
  apply List.map_congr_left
  intro x _
  exact hgE x

theorem insertEntryDesc_perm {α : Type} (A : Arith α) (x : Entry α ν) (l : List (Entry α ν)) :
    (insertEntryDesc A x l).Perm (x :: l) := by
  induction l with
  | nil => simp [insertEntryDesc]
  | cons y t ih =>
    unfold insertEntryDesc
    by_cases h : A.lt y.f x.f
    · simp [h]
    · simp only [h]
      exact (List.Perm.cons y ih).trans (List.Perm.swap x y t)

theorem sortEntriesDesc_perm {α : Type} (A : Arith α) (l : List (Entry α ν)) : (sortEntriesDesc A l).Perm l := by
  unfold sortEntriesDesc
  suffices h : ∀ acc : List (Entry α ν), (l.foldl (fun acc x => insertEntryDesc A x acc) acc).Perm (acc ++ l) by
    simpa using h []
  induction l with
  | nil => intro acc; simp
  | cons x t ih =>
    intro acc
    simp only [List.foldl_cons]
    refine (ih _).trans ?_
    have h1 : (insertEntryDesc A x acc ++ t).Perm ((x :: acc) ++ t) :=
      List.Perm.append_right t (insertEntryDesc_perm A x acc)
    refine h1.trans ?_
    simp only [List.cons_append]
    exact List.perm_middle.symm

end Sm.Tax
