/-
C19 helper lemmas, part 2: `sortDesc`, `classified`, `buildRank` over exact rationals.
-/
import SmVerif.Lemmas.TaxTable

namespace Sm.Tax

set_option linter.unusedSectionVars false
set_option linter.unusedSimpArgs false
variable {ν : Type} [DecidableEq ν] {α : Type}

/-! sorting is a permutation (any arithmetic) -/

theorem insertDesc_perm (A : Arith α) (x : Lineage ν × Acc α) (l : Tbl α ν) :
    (insertDesc A x l).Perm (x :: l) := by
  induction l with
  | nil => simp [insertDesc]
  | cons y t ih =>
    unfold insertDesc
    by_cases h : A.lt y.2.f x.2.f
    · simp [h]
    · simp only [h]
      exact (List.Perm.cons y ih).trans (List.Perm.swap x y t)

theorem sortDesc_perm_aux (A : Arith α) (l acc : Tbl α ν) :
    (l.foldl (fun acc x => insertDesc A x acc) acc).Perm (acc ++ l) := by
  induction l generalizing acc with
  | nil => simp
  | cons x t ih =>
    simp only [List.foldl_cons]
    refine (ih _).trans ?_
    have h1 : (insertDesc A x acc ++ t).Perm ((x :: acc) ++ t) := List.Perm.append_right t (insertDesc_perm A x acc)
    refine h1.trans ?_
    simp only [List.cons_append]
    exact List.perm_middle.symm

theorem sortDesc_perm (A : Arith α) (l : Tbl α ν) : (sortDesc A l).Perm l := by
  unfold sortDesc
  simpa using sortDesc_perm_aux A l []

/-! the head of the sorted list carries a maximal fraction (for a strict order that is
irreflexive-transitive-total: the rationals, and the doubles) -/

/-- what the proofs need from the comparison -/
structure GoodLt (A : Arith α) : Prop where
  trans : ∀ a b c, A.lt a b = true → A.lt b c = true → A.lt a c = true
  total : ∀ a b, A.lt a b = false → A.lt b a = false → ∀ c, A.lt a c = A.lt b c
  asymm : ∀ a b, A.lt a b = true → A.lt b a = false

/-- descending: no element is smaller than a later one -/
def DescSorted (A : Arith α) : Tbl α ν → Prop
  | [] => True
  | x :: t => (∀ y ∈ t, A.lt x.2.f y.2.f = false) ∧ DescSorted A t

theorem mem_insertDesc (A : Arith α) (x : Lineage ν × Acc α) (l : Tbl α ν) (y : Lineage ν × Acc α) :
    y ∈ insertDesc A x l ↔ y = x ∨ y ∈ l := by
  rw [(insertDesc_perm A x l).mem_iff]; simp

theorem insertDesc_sorted (A : Arith α) (hA : GoodLt A) (x : Lineage ν × Acc α) (l : Tbl α ν)
    (h : DescSorted A l) : DescSorted A (insertDesc A x l) := by
  induction l with
  | nil => simp [insertDesc, DescSorted]
  | cons y t ih =>
    unfold insertDesc
    by_cases hlt : A.lt y.2.f x.2.f
    · simp only [hlt, if_true]
      refine ⟨?_, h⟩
      intro z hz
      rcases List.mem_cons.mp hz with hz | hz
      · subst hz; exact hA.asymm _ _ hlt
      · -- x > y ≥ z
        have hyz := h.1 z hz
        cases hxz : A.lt x.2.f z.2.f with
        | false => rfl
        | true =>
          have := hA.trans _ _ _ hlt hxz
          rw [this] at hyz; cases hyz
    · simp only [hlt]
      have hlt' : A.lt y.2.f x.2.f = false := by simpa using hlt
      refine ⟨?_, ih h.2⟩
      intro z hz
      rcases (mem_insertDesc A x t z).mp hz with hz | hz
      · subst hz; exact hlt'
      · exact h.1 z hz

theorem sortDesc_sorted_aux (A : Arith α) (hA : GoodLt A) (l acc : Tbl α ν) (h : DescSorted A acc) :
    DescSorted A (l.foldl (fun acc x => insertDesc A x acc) acc) := by
  induction l generalizing acc with
  | nil => simpa
  | cons x t ih => exact ih _ (insertDesc_sorted A hA x acc h)

theorem sortDesc_sorted (A : Arith α) (hA : GoodLt A) (l : Tbl α ν) : DescSorted A (sortDesc A l) :=
  sortDesc_sorted_aux A hA l [] trivial

/-- the first entry of the sorted table is a best-supported lineage -/
theorem sortDesc_head_max (A : Arith α) (hA : GoodLt A) (l : Tbl α ν) (x : Lineage ν × Acc α) (t : Tbl α ν)
    (h : sortDesc A l = x :: t) : x ∈ l ∧ ∀ y ∈ l, A.lt x.2.f y.2.f = false := by
  have hp := sortDesc_perm A l
  have hs := sortDesc_sorted A hA l
  rw [h] at hp hs
  refine ⟨hp.mem_iff.mp (List.mem_cons_self ..), ?_⟩
  intro y hy
  rcases List.mem_cons.mp (hp.mem_iff.mpr hy) with hy | hy
  · subst hy
    cases hxx : A.lt y.2.f y.2.f with
    | false => rfl
    | true => have := hA.asymm _ _ hxx; rw [hxx] at this; cases this
  · exact hs.1 y hy

theorem ratA_goodLt : GoodLt ratA := by
  refine ⟨?_, ?_, ?_⟩
  · intro a b c h1 h2; simp at *; exact lt_trans h1 h2
  · intro a b h1 h2 c; simp at *; have : a = b := le_antisymm h2 h1; rw [this]
  · intro a b h; simp at *; exact le_of_lt h

/-! rationals: totals are sums -/

theorem foldl_add_sum {β : Type} (g : β → ℚ) (l : List β) (c : ℚ) :
    l.foldl (fun s e => s + g e) c = c + (l.map g).sum := by
  induction l generalizing c with
  | nil => simp
  | cons x t ih => simp only [List.foldl_cons, ih, List.map_cons, List.sum_cons]; ring

theorem foldl_add_sum_int {β : Type} (g : β → Int) (l : List β) (c : Int) :
    l.foldl (fun s e => s + g e) c = c + (l.map g).sum := by
  induction l generalizing c with
  | nil => simp
  | cons x t ih => simp only [List.foldl_cons, ih, List.map_cons, List.sum_cons]; ring

theorem totalF_eq (t : Tbl ℚ ν) : totalF ratA t = (t.map (·.2.f)).sum := by
  unfold totalF; simp only [ratA_add, ratA_zero]
  have := foldl_add_sum (fun x : Lineage ν × Acc ℚ => x.2.f) t 0
  simpa using this

theorem totalFw_eq (t : Tbl ℚ ν) : totalFw ratA t = (t.map (·.2.fw)).sum := by
  unfold totalFw; simp only [ratA_add, ratA_zero]
  have := foldl_add_sum (fun x : Lineage ν × Acc ℚ => x.2.fw) t 0
  simpa using this

theorem totalBp_eq (t : Tbl ℚ ν) : totalBp t = (t.map (fun x => (x.2.bp : Int))).sum := by
  unfold totalBp
  have := foldl_add_sum_int (fun x : Lineage ν × Acc ℚ => (x.2.bp : Int)) t 0
  simpa using this

/-- the `SummarizedGatherResult` of a table entry -/
def toEntry (r : Nat) (x : Lineage ν × Acc ℚ) : Entry ℚ ν := ⟨r, x.1, x.2.f, x.2.fw, (x.2.bp : Int)⟩

/-- every accumulator passes `check_values` -/
def Good (t : Tbl ℚ ν) : Prop := ∀ x ∈ t, 0 < x.2.f ∧ x.2.f ≤ 1 ∧ 0 < x.2.fw ∧ x.2.fw ≤ 1

/-- a tolerance repair that is sane for queries of `N` hashes: non-negative tolerance below `1/N`,
`1 + tol` not below 1.  (`none`, the code as it is, always qualifies.) -/
def RepairOK (rp : Option (Repair ℚ)) (N : Nat) : Prop :=
  ∀ p, rp = some p → 0 ≤ p.tol ∧ 1 ≤ p.onePlus ∧ p.tol * N < 1

theorem checkValues_ok (rp : Option (Repair ℚ)) (hrp : ∀ p, rp = some p → 1 ≤ p.onePlus) (f fw : ℚ)
    (h1 : 0 < f) (h2 : f ≤ 1) (h3 : 0 < fw) (h4 : fw ≤ 1) :
    checkValues ratA rp f fw = .ok (f, fw) := by
  unfold checkValues
  cases rp with
  | none => simp [not_lt.mpr h2, not_lt.mpr h4, not_le.mpr h1, not_le.mpr h3]
  | some p =>
    have hp := hrp p rfl
    have a1 : ¬ p.onePlus < f := not_lt.mpr (le_trans h2 hp)
    have a2 : ¬ p.onePlus < fw := not_lt.mpr (le_trans h4 hp)
    cases hs : p.strict <;>
      simp [a1, a2, not_lt.mpr h2, not_lt.mpr h4, not_le.mpr h1, not_lt.mpr (le_of_lt h3), not_le.mpr h3, hs]

/-- the unrepaired check accepts exactly the values in (0, 1] -/
theorem checkValues_ok_iff (f fw : ℚ) :
    checkValues ratA none f fw = .ok (f, fw) ↔ (0 < f ∧ f ≤ 1 ∧ 0 < fw ∧ fw ≤ 1) := by
  constructor
  · intro h
    unfold checkValues at h
    by_cases h1 : (1 : ℚ) < f
    · simp [h1] at h
    by_cases h2 : (1 : ℚ) < fw
    · simp [h2] at h
    by_cases h3 : f ≤ 0
    · simp [h1, h2, h3] at h
    by_cases h4 : fw ≤ 0
    · simp [h1, h2, h3, h4] at h
    exact ⟨not_le.mp h3, not_lt.mp h1, not_le.mp h4, not_lt.mp h2⟩
  · rintro ⟨a, b, c, d⟩; exact checkValues_ok none (by intro p hp; cases hp) f fw a b c d

theorem classified_ok (rp : Option (Repair ℚ)) (hrp : ∀ p, rp = some p → 1 ≤ p.onePlus) (r : Nat) (t : Tbl ℚ ν)
    (h : Good t) : classified ratA rp r t = .ok (t.map (toEntry r)) := by
  induction t with
  | nil => rfl
  | cons x t ih =>
    obtain ⟨lin, a⟩ := x
    have hx := h (lin, a) (List.mem_cons_self ..)
    have ht : Good t := fun y hy => h y (List.mem_cons_of_mem _ hy)
    unfold classified
    rw [checkValues_ok rp hrp a.f a.fw hx.1 hx.2.1 hx.2.2.1 hx.2.2.2, ih ht]
    rfl

theorem good_perm {t t' : Tbl ℚ ν} (hp : t.Perm t') (h : Good t) : Good t' :=
  fun x hx => h x (hp.mem_iff.mpr hx)

theorem nonzero_good (t : Tbl ℚ ν) (h : Good t) : nonzero ratA t = t := by
  unfold nonzero
  rw [List.filter_eq_self]
  intro x hx
  simp [ne_of_gt (h x hx).1]

/-- sums of the three projections over a table -/
def tblF (t : Tbl ℚ ν) : ℚ := (t.map (·.2.f)).sum
def tblFw (t : Tbl ℚ ν) : ℚ := (t.map (·.2.fw)).sum
def tblBp (t : Tbl ℚ ν) : Int := (t.map (fun x => (x.2.bp : Int))).sum

theorem tblF_perm {t t' : Tbl ℚ ν} (hp : t.Perm t') : tblF t = tblF t' := (hp.map _).sum_eq
theorem tblFw_perm {t t' : Tbl ℚ ν} (hp : t.Perm t') : tblFw t = tblFw t' := (hp.map _).sum_eq
theorem tblBp_perm {t t' : Tbl ℚ ν} (hp : t.Perm t') : tblBp t = tblBp t' := (hp.map _).sum_eq

theorem sum_map_toEntry_f (r : Nat) (t : Tbl ℚ ν) : ((t.map (toEntry r)).map (·.f)).sum = tblF t := by
  unfold tblF; rw [List.map_map]; rfl
theorem sum_map_toEntry_fw (r : Nat) (t : Tbl ℚ ν) : ((t.map (toEntry r)).map (·.fw)).sum = tblFw t := by
  unfold tblFw; rw [List.map_map]; rfl
theorem sum_map_toEntry_bp (r : Nat) (t : Tbl ℚ ν) : ((t.map (toEntry r)).map (·.bp)).sum = tblBp t := by
  unfold tblBp; rw [List.map_map]; rfl

theorem tblF_nonneg (t : Tbl ℚ ν) (h : Good t) : 0 ≤ tblF t := by
  unfold tblF
  apply List.sum_nonneg
  intro x hx
  obtain ⟨y, hy, rfl⟩ := List.mem_map.mp hx
  exact le_of_lt (h y hy).1

theorem tblFw_nonneg (t : Tbl ℚ ν) (h : Good t) : 0 ≤ tblFw t := by
  unfold tblFw
  apply List.sum_nonneg
  intro x hx
  obtain ⟨y, hy, rfl⟩ := List.mem_map.mp hx
  exact le_of_lt (h y hy).2.2.1

/-- the unclassified remainder of a rank -/
def remainder (qbp r : Nat) (t : Tbl ℚ ν) : Entry ℚ ν := ⟨r, [], 1 - tblF t, 1 - tblFw t, (qbp : Int) - tblBp t⟩

/-- a rank with something left over (more than the tolerance, if any): the sorted classified entries, then the remainder -/
theorem buildRank_lt (rp : Option (Repair ℚ)) (qbp r : Nat) (t : Tbl ℚ ν)
    (hrp : ∀ p, rp = some p → 1 ≤ p.onePlus ∧ p.tol < 1 - tblF t) (h : Good t) (hf : tblF t < 1) (hfw : tblFw t < 1) :
    buildRank ratA rp qbp r t = .ok ((sortDesc ratA t).map (toEntry r) ++ [remainder qbp r t]) := by
  have hp := sortDesc_perm ratA t
  have hgs := good_perm hp.symm h
  have hone : ∀ p, rp = some p → 1 ≤ p.onePlus := fun p hp => (hrp p hp).1
  unfold buildRank
  simp only [nonzero_good _ hgs]
  rw [classified_ok rp hone r _ hgs]
  simp only [totalF_eq, totalFw_eq, totalBp_eq]
  have e1 : ((sortDesc ratA t).map (·.2.f)).sum = tblF t := tblF_perm hp
  have e2 : ((sortDesc ratA t).map (·.2.fw)).sum = tblFw t := tblFw_perm hp
  have e3 : ((sortDesc ratA t).map (fun x => (x.2.bp : Int))).sum = tblBp t := tblBp_perm hp
  rw [e1, e2, e3]
  simp only [ratA_sub, ratA_one, ratA_zero, ratA_lt]
  have h1 : (0 : ℚ) < 1 - tblF t := by linarith
  have h2 : (0 : ℚ) < 1 - tblFw t := by linarith
  have hcv := checkValues_ok rp hone (1 - tblF t) (1 - tblFw t) h1 (by linarith [tblF_nonneg t h]) h2
    (by linarith [tblFw_nonneg t h])
  cases rp with
  | none => simp [h1, hcv, remainder]
  | some p =>
    have := (hrp p rfl).2
    simp [this, h2, hcv, remainder]

/-- a fully classified rank: no remainder -/
theorem buildRank_eq1 (rp : Option (Repair ℚ)) (qbp r : Nat) (t : Tbl ℚ ν)
    (hrp : ∀ p, rp = some p → 1 ≤ p.onePlus ∧ 0 ≤ p.tol) (h : Good t) (hf : tblF t = 1) :
    buildRank ratA rp qbp r t = .ok ((sortDesc ratA t).map (toEntry r)) := by
  have hp := sortDesc_perm ratA t
  have hgs := good_perm hp.symm h
  have hone : ∀ p, rp = some p → 1 ≤ p.onePlus := fun p hp => (hrp p hp).1
  unfold buildRank
  simp only [nonzero_good _ hgs]
  rw [classified_ok rp hone r _ hgs]
  simp only [totalF_eq]
  have e1 : ((sortDesc ratA t).map (·.2.f)).sum = tblF t := tblF_perm hp
  rw [e1, hf]
  simp only [ratA_sub, ratA_one, ratA_zero, ratA_lt, sub_self]
  cases rp with
  | none => simp
  | some p =>
    have := (hrp p rfl).2
    simp [not_lt.mpr this]

end Sm.Tax
