/-
Helper lemmas for C04 (set operations), part 1: pure facts about association
lists, the two-cursor loops on *sorted* input, and folds of `specAdd` (the
abstract effect of a block of additions on the `count` function).
-/
import SmVerif.Lemmas.MinHashInv
import SmVerif.Model.SigOps

namespace Sm

open MH

theorem ite_congr_prop {α : Type} {p q : Prop} [Decidable p] [Decidable q] (h : p ↔ q) (a b : α) :
    (if p then a else b) = if q then a else b := by
  by_cases hp : p
  · rw [if_pos hp, if_pos (h.1 hp)]
  · rw [if_neg hp, if_neg (fun hq => hp (h.2 hq))]

/-! ### sorted lists -/

theorem Sorted.nodup {l : List Nat} (h : Sorted l) : l.Nodup :=
  List.Pairwise.imp (fun hlt => Nat.ne_of_lt hlt) h

theorem Sorted.filter {l : List Nat} (h : Sorted l) (p : Nat → Bool) : Sorted (l.filter p) :=
  h.sublist List.filter_sublist

/-- on strictly ascending input the two-cursor intersection is the intersection -/
theorem mem_interL : ∀ (xs ys : List Nat), Sorted xs → Sorted ys →
    ∀ z, z ∈ interL xs ys ↔ z ∈ xs ∧ z ∈ ys := by
  apply two_cursor_induct
  · intro ys _ _ z; simp
  · intro x xs _ _ z; simp
  · intro x xs y ys ih1 ih2 ih3 hx hy z
    have hxt := hx.tail
    have hyt := hy.tail
    have hxh := hx.head_lt
    have hyh := hy.head_lt
    rw [interL_cons_cons]
    split
    · rename_i hlt
      rw [ih3 hxt hy z]
      simp only [List.mem_cons]
      constructor
      · rintro ⟨h1, h2⟩; exact ⟨Or.inr h1, h2⟩
      · rintro ⟨h1 | h1, h2⟩
        · subst h1
          rcases h2 with h2 | h2
          · omega
          · have := hyh z h2; omega
        · exact ⟨h1, h2⟩
    · split
      · rename_i _ hlt
        rw [ih1 hx hyt z]
        simp only [List.mem_cons]
        constructor
        · rintro ⟨h1, h2⟩; exact ⟨h1, Or.inr h2⟩
        · rintro ⟨h1, h2 | h2⟩
          · subst h2
            rcases h1 with h1 | h1
            · omega
            · have := hxh z h1; omega
          · exact ⟨h1, h2⟩
      · rename_i h1 h2
        have hxy : x = y := by omega
        subst hxy
        simp only [List.mem_cons]
        rw [ih2 hxt hyt z]
        constructor
        · rintro (h | ⟨h3, h4⟩)
          · exact ⟨Or.inl h, Or.inl h⟩
          · exact ⟨Or.inr h3, Or.inr h4⟩
        · rintro ⟨h3 | h3, h4 | h4⟩
          · exact Or.inl h3
          · exact Or.inl h3
          · exact Or.inl h4
          · exact Or.inr ⟨h3, h4⟩

theorem sorted_interL (xs ys : List Nat) (hx : Sorted xs) : Sorted (interL xs ys) :=
  hx.sublist (interL_sublist xs ys)

/-- on ascending input `inflate`'s merge-join keeps exactly the hashes of the left
    operand, with the abundance of the right one -/
theorem cnt_inflateJoin (z : Nat) : ∀ (xs : List Nat) (ys : List (Nat × Nat)),
    Sorted xs → Sorted (ys.map Prod.fst) →
    cnt (MH.inflateJoin xs ys) z = if z ∈ xs then cnt ys z else 0 := by
  apply two_cursor_induct
  · intro ys _ _; simp
  · intro x xs _ _; simp
  · intro x xs y ys ih1 ih2 ih3 hx hy
    have hxt := hx.tail
    have hyt : Sorted (ys.map Prod.fst) := Sorted.tail hy
    have hxh := hx.head_lt
    have hyh := Sorted.head_lt hy
    rw [inflateJoin_cons_cons]
    split
    · rename_i hlt
      rw [ih3 hxt hy]
      by_cases hz : z = x
      · subst hz
        have h0 : cnt (y :: ys) z = 0 := by
          apply cnt_eq_zero_of_lt
          intro k hk
          rw [List.map_cons] at hk
          rcases List.mem_cons.1 hk with rfl | hk
          · exact hlt
          · have := hyh k hk; omega
        simp [h0]
      · simp [hz]
    · split
      · rename_i _ hlt
        rw [ih1 hx hyt, cnt_cons']
        by_cases hz : z = y.1
        · have hnm : z ∉ x :: xs := by
            intro hm
            rcases List.mem_cons.1 hm with h | h
            · omega
            · have := hxh _ h; omega
          rw [if_neg hnm, if_neg hnm]
        · simp [hz]
      · rename_i h1 h2
        have hxy : x = y.1 := by omega
        rw [cnt_cons, ih2 hxt hyt, cnt_cons']
        by_cases hz : z = x
        · subst hz
          simp [hxy]
        · have hz' : ¬ z = y.1 := by omega
          simp [hz, hz']

theorem pos_inflateJoin (xs : List Nat) (ys : List (Nat × Nat)) (hpos : ∀ q ∈ ys, 0 < q.2) :
    ∀ q ∈ MH.inflateJoin xs ys, 0 < q.2 :=
  fun q hq => hpos q (inflateJoin_subset xs ys q hq)

/-! ### `mergeP` only looks at the first `n` entries of each side to produce its first `n` -/

theorem take_mergeP_take : ∀ (n a b : Nat) (xs ys : List (Nat × Nat)), n ≤ a → n ≤ b →
    (mergeP (xs.take a) (ys.take b)).take n = (mergeP xs ys).take n := by
  intro n
  induction n with
  | zero => intros; simp
  | succ n ih =>
    intro a b xs ys ha hb
    obtain ⟨a', rfl⟩ : ∃ a', a = a' + 1 := ⟨a - 1, by omega⟩
    obtain ⟨b', rfl⟩ : ∃ b', b = b' + 1 := ⟨b - 1, by omega⟩
    cases xs with
    | nil =>
      simp only [List.take_nil, mergeP_nil_left, List.take_take]
      congr 1; omega
    | cons x xs =>
      cases ys with
      | nil =>
        simp only [List.take_nil, mergeP_nil_right, List.take_take]
        congr 1; omega
      | cons y ys =>
        simp only [List.take_succ_cons, mergeP_cons_cons]
        split
        · simp only [List.take_succ_cons]
          congr 1
          have := ih (a' + 1) b' (x :: xs) ys (by omega) (by omega)
          simpa only [List.take_succ_cons] using this
        · split
          · simp only [List.take_succ_cons]
            congr 1
            exact ih a' b' xs ys (by omega) (by omega)
          · simp only [List.take_succ_cons]
            congr 1
            have := ih a' (b' + 1) xs (y :: ys) (by omega) (by omega)
            simpa only [List.take_succ_cons] using this

/-! ### association lists with distinct keys -/

theorem cnt_of_mem_nodup {ps : List (Nat × Nat)} (hnd : (ps.map Prod.fst).Nodup) {x a : Nat}
    (hm : (x, a) ∈ ps) : cnt ps x = a := by
  induction ps with
  | nil => simp at hm
  | cons q ps ih =>
    rw [List.map_cons, List.nodup_cons] at hnd
    rw [cnt_cons']
    rcases List.mem_cons.1 hm with h | h
    · subst h; simp
    · have hk : x ∈ ps.map Prod.fst := List.mem_map.2 ⟨(x, a), h, rfl⟩
      have : x ≠ q.1 := fun e => hnd.1 (e ▸ hk)
      rw [if_neg this]
      exact ih hnd.2 h

theorem mem_of_mem_keys {ps : List (Nat × Nat)} {x : Nat} (h : x ∈ ps.map Prod.fst) :
    (x, cnt ps x) ∈ ps := by
  induction ps with
  | nil => simp at h
  | cons q ps ih =>
    rw [cnt_cons']
    by_cases hx : x = q.1
    · rw [if_pos hx, hx]; exact List.mem_cons_self
    · rw [if_neg hx]
      rw [List.map_cons] at h
      rcases List.mem_cons.1 h with h | h
      · exact absurd h hx
      · exact List.mem_cons_of_mem _ (ih h)

/-- with distinct keys the count function does not depend on the order of the pairs -/
theorem cnt_perm_nodup {ps qs : List (Nat × Nat)} (hp : ps.Perm qs)
    (hnd : (ps.map Prod.fst).Nodup) (x : Nat) : cnt ps x = cnt qs x := by
  by_cases hx : x ∈ ps.map Prod.fst
  · have h1 := mem_of_mem_keys hx
    have h2 : (x, cnt ps x) ∈ qs := hp.mem_iff.1 h1
    have hndq : (qs.map Prod.fst).Nodup := (hp.map Prod.fst).nodup_iff.1 hnd
    exact (cnt_of_mem_nodup hndq h2).symm
  · have hx' : x ∉ qs.map Prod.fst := fun h => hx ((hp.map Prod.fst).mem_iff.2 h)
    rw [cnt_eq_zero_of_not_mem hx, cnt_eq_zero_of_not_mem hx']

/-- filtering the pairs by a predicate on the abundance -/
theorem cnt_filter_snd {ps : List (Nat × Nat)} (hnd : (ps.map Prod.fst).Nodup) (f : Nat → Bool)
    (x : Nat) :
    cnt (ps.filter (fun p => f p.2)) x = if f (cnt ps x) then cnt ps x else 0 := by
  induction ps with
  | nil => simp only [List.filter_nil, cnt_nil]; exact (ite_self 0).symm
  | cons q ps ih =>
    rw [List.map_cons, List.nodup_cons] at hnd
    have ih' := ih hnd.2
    rw [cnt_cons' q ps]
    by_cases hx : x = q.1
    · rw [if_pos hx]
      have hz : cnt (ps.filter (fun p => f p.2)) x = 0 := by
        apply cnt_eq_zero_of_not_mem
        intro hm
        obtain ⟨p, hp, hpx⟩ := List.mem_map.1 hm
        have : p ∈ ps := (List.mem_filter.1 hp).1
        exact hnd.1 (hx ▸ hpx ▸ List.mem_map.2 ⟨p, this, rfl⟩)
      rw [List.filter_cons]
      by_cases hf : f q.2 = true
      · simp [hf, cnt_cons', hx]
      · simp only [hf]
        simp [hz]
    · rw [if_neg hx, ← ih']
      rw [List.filter_cons]
      split
      · rw [cnt_cons', if_neg hx]
      · rfl

theorem keys_filter_sublist (ps : List (Nat × Nat)) (p : Nat × Nat → Bool) :
    ((ps.filter p).map Prod.fst).Sublist (ps.map Prod.fst) :=
  (List.filter_sublist).map Prod.fst

/-! ### folds of `specAdd` -/

/-- the abstract effect of `add_many_with_abund(ps)` on the count function -/
def specFold (M : Nat) (tr : Bool) (m : Nat → Nat) (ps : List (Nat × Nat)) : Nat → Nat :=
  ps.foldl (fun m p => specAdd M tr m p.1 p.2) m

@[simp] theorem specFold_nil (M : Nat) (tr : Bool) (m : Nat → Nat) : specFold M tr m [] = m := rfl

theorem specFold_cons (M : Nat) (tr : Bool) (m : Nat → Nat) (p : Nat × Nat)
    (ps : List (Nat × Nat)) :
    specFold M tr m (p :: ps) = specFold M tr (specAdd M tr m p.1 p.2) ps := rfl

theorem specAdd_other (M : Nat) (tr : Bool) (m : Nat → Nat) (h a x : Nat) (hx : x ≠ h) :
    specAdd M tr m h a x = m x := by
  unfold specAdd
  split
  · rfl
  · split <;> simp [hx]

theorem specAdd_same (M : Nat) (tr : Bool) (m : Nat → Nat) (h a : Nat) :
    specAdd M tr m h a h =
      if M ≠ 0 ∧ h > M then m h else if a = 0 then 0 else if tr then m h + a else 1 := by
  unfold specAdd
  split
  · rfl
  · split <;> simp

/-- pairs with distinct keys added to a function that is 0 on those keys -/
theorem specFold_nodup (M : Nat) (tr : Bool) : ∀ (ps : List (Nat × Nat)) (m0 : Nat → Nat),
    (ps.map Prod.fst).Nodup → (∀ k ∈ ps.map Prod.fst, m0 k = 0) → ∀ x,
    specFold M tr m0 ps x =
      if x ∈ ps.map Prod.fst then
        (if M ≠ 0 ∧ x > M then 0 else if tr then cnt ps x else min 1 (cnt ps x))
      else m0 x := by
  intro ps
  induction ps with
  | nil => intro m0 _ _ x; simp
  | cons p ps ih =>
    intro m0 hnd h0 x
    rw [List.map_cons, List.nodup_cons] at hnd
    rw [specFold_cons]
    have h1 : ∀ k ∈ ps.map Prod.fst, specAdd M tr m0 p.1 p.2 k = 0 := by
      intro k hk
      have hne : k ≠ p.1 := fun e => hnd.1 (e ▸ hk)
      rw [specAdd_other _ _ _ _ _ _ hne]
      exact h0 k (by rw [List.map_cons]; exact List.mem_cons_of_mem _ hk)
    rw [ih _ hnd.2 h1 x]
    by_cases hx : x ∈ ps.map Prod.fst
    · have hne : x ≠ p.1 := fun e => hnd.1 (e ▸ hx)
      have hm : x ∈ (p :: ps).map Prod.fst := by
        rw [List.map_cons]; exact List.mem_cons_of_mem _ hx
      rw [if_pos hx, if_pos hm, cnt_cons', if_neg hne]
    · rw [if_neg hx]
      by_cases he : x = p.1
      · have hm : x ∈ (p :: ps).map Prod.fst := by rw [List.map_cons, he]; exact List.mem_cons_self
        rw [if_pos hm, he, specAdd_same, cnt_cons', if_pos rfl,
          h0 p.1 (by rw [List.map_cons]; exact List.mem_cons_self)]
        by_cases c1 : M ≠ 0 ∧ p.1 > M
        · rw [if_pos c1, if_pos c1]
        · rw [if_neg c1, if_neg c1]
          by_cases c2 : p.2 = 0
          · rw [if_pos c2, c2]; cases tr <;> simp
          · rw [if_neg c2]
            cases tr
            · simp; omega
            · simp
      · have hm : x ∉ (p :: ps).map Prod.fst := by
          rw [List.map_cons]
          intro h
          rcases List.mem_cons.1 h with h | h
          · exact he h
          · exact hx h
        rw [if_neg hm, specAdd_other _ _ _ _ _ _ he]

/-- a list of hashes (duplicates allowed), each added once -/
theorem specFold_ones (M : Nat) (tr : Bool) : ∀ (l : List Nat) (m0 : Nat → Nat) (x : Nat),
    specFold M tr m0 (ones l) x =
      if M ≠ 0 ∧ x > M then m0 x
      else if tr then m0 x + l.count x
      else if x ∈ l then 1 else m0 x := by
  intro l
  induction l with
  | nil => intro m0 x; simp [ones]
  | cons y ys ih =>
    intro m0 x
    have : ones (y :: ys) = (y, 1) :: ones ys := rfl
    rw [this, specFold_cons, ih]
    by_cases c1 : M ≠ 0 ∧ x > M
    · rw [if_pos c1, if_pos c1]
      by_cases he : x = y
      · rw [he, specAdd_same, if_pos (he ▸ c1)]
      · exact specAdd_other _ _ _ _ _ _ he
    · rw [if_neg c1, if_neg c1]
      by_cases he : x = y
      · subst he
        rw [specAdd_same, if_neg c1]
        cases tr
        · simp
        · simp; omega
      · rw [specAdd_other _ _ _ _ _ _ he]
        have hc : (y :: ys).count x = ys.count x := by
          rw [List.count_cons]; simp; intro h; exact absurd h.symm he
        rw [hc]
        simp [he]

end Sm
