/-
Searching several collections on list sketches (C08): `Index.find` is a per-signature
filter, `Index.search` sorts it, `search_databases_with_flat_query` concatenates,
de-duplicates on (md5, scaled, num) and sorts again.
-/
import SmVerif.Lemmas.GatherInit
import SmVerif.Model.SearchDb

set_option autoImplicit false

namespace Sm.SearchDb

open Sm Sm.Gather

/-- the score `Index.find` computes for database sketch `d` against the flat query `pq` -/
def findScoreS (st : SearchType) (pq d : LS) : F64.F :=
  let s := max pq.scaled d.scaled
  let n := (dn s pq.hs).length
  let m := (dn s d.hs).length
  let k := ovl (dn s pq.hs) (dn s d.hs)
  scoreFn st n k m (n + m - k)

theorem findOneS_ls (st : SearchType) {pq : LS} (hp : pq.WF) {d : Sig LS} (hd : d.mh.WF) (thr : F64.F) :
    findOneS lsOps st pq d thr = .ok (findScoreS st pq d.mh, passes (findScoreS st pq d.mh) thr) := by
  obtain ⟨smh, e1, s1, s2, s3⟩ := flattenAndDownsample_ls hd hp.lo
  unfold findOneS
  simp only [lsOps_scaled]
  rw [e1]
  simp only []
  have hs1 : 1 ≤ smh.scaled := by rw [s1]; have := hd.lo; omega
  obtain ⟨qmh, e2, q1, q2, q3⟩ := flattenAndDownsample_ls hp hs1
  rw [e2]
  simp only [lsOps_track, q3, s3, Option.isSome_none, Bool.false_eq_true, or_self, if_false]
  have hsc : qmh.scaled = smh.scaled := by rw [q1, s1]; omega
  have hmax : max pq.scaled smh.scaled = max pq.scaled d.mh.scaled := by rw [s1]; omega
  have hmax' : max d.mh.scaled pq.scaled = max pq.scaled d.mh.scaled := by omega
  rw [lsOps_compatible, hsc]
  simp only [decide_true, Bool.not_true, Bool.false_eq_true, if_false, lsOps_interSize, LS.interSize]
  have hqs : Sorted qmh.hs := by rw [q2]; exact sorted_dn hp.sorted _
  have hss : Sorted smh.hs := by rw [s2]; exact sorted_dn hd.sorted _
  rw [interL_eq_filter _ _ hqs hss]
  have hlenq : len lsOps qmh = (dn (max pq.scaled d.mh.scaled) pq.hs).length := by
    unfold len; rw [lsOps_mins, q2, hmax]
  have hlens : len lsOps smh = (dn (max pq.scaled d.mh.scaled) d.mh.hs).length := by
    unfold len; rw [lsOps_mins, s2, hmax']
  have hov : (qmh.hs.filter (inL smh.hs)).length
      = ovl (dn (max pq.scaled d.mh.scaled) pq.hs) (dn (max pq.scaled d.mh.scaled) d.mh.hs) := by
    rw [q2, s2, hmax, hmax']; rfl
  have hq2 : qmh.hs.length = (dn (max pq.scaled d.mh.scaled) pq.hs).length := by rw [q2, hmax]
  have hs2 : smh.hs.length = (dn (max pq.scaled d.mh.scaled) d.mh.hs).length := by rw [s2, hmax']
  rw [hlenq, hlens, hov, hq2, hs2]
  rfl

/-- the rows `find` yields for one collection, in collection order -/
def findRows (st : SearchType) (pq : LS) (thr : F64.F) (db : List (Sig LS)) : List (F64.F × Sig LS) :=
  (db.filter (fun d => passes (findScoreS st pq d.mh) thr)).map (fun d => (findScoreS st pq d.mh, d))

theorem findLoopS_ls (st : SearchType) {pq : LS} (hp : pq.WF) (thr : F64.F) :
    ∀ (db : List (Sig LS)), (∀ d ∈ db, d.mh.WF) →
      findLoopS lsOps st pq false db thr = .ok (findRows st pq thr db) := by
  intro db
  induction db with
  | nil => intro _; rfl
  | cons d rest ih =>
    intro hall
    unfold findLoopS
    rw [findOneS_ls st hp (hall d List.mem_cons_self)]
    simp only [Bool.false_eq_true, if_false]
    rw [ih (fun x hx => hall x (List.mem_cons_of_mem _ hx))]
    by_cases hpass : passes (findScoreS st pq d.mh) thr = true
    · simp [findRows, hpass]
    · simp [findRows, hpass]

theorem findRows_append (st : SearchType) (pq : LS) (thr : F64.F) (a b : List (Sig LS)) :
    findRows st pq thr (a ++ b) = findRows st pq thr a ++ findRows st pq thr b := by
  simp [findRows]

theorem findRows_perm (st : SearchType) (pq : LS) (thr : F64.F) {a b : List (Sig LS)} (h : a.Perm b) :
    (findRows st pq thr a).Perm (findRows st pq thr b) :=
  (h.filter _).map _

theorem findRows_flatten (st : SearchType) (pq : LS) (thr : F64.F) (dbs : List (List (Sig LS))) :
    findRows st pq thr dbs.flatten = (dbs.map (findRows st pq thr)).flatten := by
  induction dbs with
  | nil => rfl
  | cons db rest ih => simp [findRows_append, ih]

/-! ### the two sorts are permutations -/

theorem insertDesc_perm {β : Type} (x : F64.F × β) : ∀ (l : List (F64.F × β)), (insertDesc x l).Perm (x :: l) := by
  intro l
  induction l with
  | nil => exact List.Perm.refl _
  | cons y ys ih =>
    simp only [insertDesc]
    split
    · exact ((List.Perm.cons y ih).trans (List.Perm.swap x y ys))
    · exact List.Perm.refl _

theorem sortDesc_perm {β : Type} : ∀ (l : List (F64.F × β)), (sortDesc l).Perm l := by
  intro l
  induction l with
  | nil => exact List.Perm.refl _
  | cons x xs ih =>
    show (insertDesc x (sortDesc xs)).Perm (x :: xs)
    exact (insertDesc_perm x _).trans (List.Perm.cons x ih)

/-! ### `search` of one collection and of several -/

theorem searchDb_ls (st : SearchType) {pq : LS} (hp : pq.WF) (hflat : pq.ab = none) (thr : F64.F)
    {db : List (Sig LS)} (hdb : ∀ d ∈ db, d.mh.WF) :
    searchDb lsOps st db pq thr false = .ok (sortDesc (findRows st pq thr db)) := by
  unfold searchDb
  have h1 := hp.lo
  rw [if_neg (by simp only [lsOps_scaled]; omega), if_neg (by simp [lsOps_track, hflat]),
    if_neg (by simp only [lsOps_scaled]; omega), findLoopS_ls st hp thr db hdb]

theorem searchEach_ls (st : SearchType) {pq : LS} (hp : pq.WF) (hflat : pq.ab = none) (thr : F64.F) :
    ∀ (dbs : List (List (Sig LS))), (∀ db ∈ dbs, ∀ d ∈ db, d.mh.WF) →
      searchEach lsOps st pq thr false dbs = .ok ((dbs.map (fun db => sortDesc (findRows st pq thr db))).flatten) := by
  intro dbs
  induction dbs with
  | nil => intro _; rfl
  | cons db rest ih =>
    intro h
    unfold searchEach
    rw [searchDb_ls st hp hflat thr (h db List.mem_cons_self), ih (fun d hd => h d (List.mem_cons_of_mem _ hd))]
    simp

/-- the rows before de-duplication are a permutation of `find` over all sketches -/
theorem preDedup_perm (st : SearchType) (pq : LS) (thr : F64.F) (dbs : List (List (Sig LS))) :
    ((dbs.map (fun db => sortDesc (findRows st pq thr db))).flatten).Perm (findRows st pq thr dbs.flatten) := by
  induction dbs with
  | nil => exact List.Perm.refl _
  | cons db rest ih =>
    simp only [List.map_cons, List.flatten_cons, findRows_append]
    exact List.Perm.append (sortDesc_perm _) ih

/-! ### de-duplication on `(md5, scaled, num)` -/

/-- what C08 compares: the md5, the scaled value and the score of a row -/
def rowKey (x : F64.F × Sig LS) : Nat × Nat × F64.F := (x.2.md5, x.2.mh.scaled, x.1)

/-- the de-duplication key of a row's signature -/
abbrev keyOf (x : F64.F × Sig LS) : Nat × Nat × Nat := sigKey lsOps x.2

theorem keyOf_eq (x : F64.F × Sig LS) : keyOf x = (x.2.md5, x.2.mh.scaled, 0) := rfl

theorem mem_dedupKey {x : F64.F × Sig LS} : ∀ {l : List (F64.F × Sig LS)} {seen : List (Nat × Nat × Nat)},
    x ∈ dedupKey lsOps seen l → x ∈ l ∧ keyOf x ∉ seen := by
  intro l
  induction l with
  | nil => intro seen h; simp [dedupKey] at h
  | cons y ys ih =>
    intro seen h
    simp only [dedupKey] at h
    split at h
    · obtain ⟨h1, h2⟩ := ih h
      exact ⟨List.mem_cons_of_mem _ h1, h2⟩
    · rename_i hns
      rcases List.mem_cons.1 h with rfl | h
      · exact ⟨List.mem_cons_self, by simpa using hns⟩
      · obtain ⟨h1, h2⟩ := ih h
        exact ⟨List.mem_cons_of_mem _ h1, fun hm => h2 (List.mem_cons_of_mem _ hm)⟩

theorem dedupKey_nodup : ∀ (l : List (F64.F × Sig LS)) (seen : List (Nat × Nat × Nat)),
    ((dedupKey lsOps seen l).map keyOf).Nodup := by
  intro l
  induction l with
  | nil => intro seen; simp [dedupKey]
  | cons y ys ih =>
    intro seen
    simp only [dedupKey]
    split
    · exact ih seen
    · simp only [List.map_cons, List.nodup_cons]
      refine ⟨?_, ih _⟩
      intro hm
      obtain ⟨z, hz, hzm⟩ := List.mem_map.1 hm
      have := (mem_dedupKey hz).2
      apply this
      rw [hzm]; exact List.mem_cons_self

theorem dedupKey_complete : ∀ {l : List (F64.F × Sig LS)} {seen : List (Nat × Nat × Nat)} {x : F64.F × Sig LS},
    x ∈ l → keyOf x ∉ seen → ∃ y ∈ dedupKey lsOps seen l, keyOf y = keyOf x := by
  intro l
  induction l with
  | nil => intro seen x h; cases h
  | cons y ys ih =>
    intro seen x hx hns
    simp only [dedupKey]
    by_cases hy : seen.contains (sigKey lsOps y.2) = true
    · rw [if_pos hy]
      rcases List.mem_cons.1 hx with rfl | hx
      · exact absurd (by simpa using hy) hns
      · exact ih hx hns
    · rw [if_neg hy]
      rcases List.mem_cons.1 hx with rfl | hx
      · exact ⟨x, List.mem_cons_self, rfl⟩
      · by_cases he : keyOf x = keyOf y
        · exact ⟨y, List.mem_cons_self, he.symm⟩
        · obtain ⟨z, hz, hzm⟩ := ih (seen := sigKey lsOps y.2 :: seen) hx (by
            intro hm
            rcases List.mem_cons.1 hm with h | h
            · exact he h
            · exact hns h)
          exact ⟨z, List.mem_cons_of_mem _ hz, hzm⟩

/-- rows with the same de-duplication key carry the same score -/
def KeyOK (l : List (F64.F × Sig LS)) : Prop :=
  ∀ x ∈ l, ∀ y ∈ l, keyOf x = keyOf y → x.1 = y.1

theorem mem_dedup_keys {l : List (F64.F × Sig LS)} (hk : KeyOK l) (k : Nat × Nat × F64.F) :
    k ∈ (dedupKey lsOps [] l).map rowKey ↔ k ∈ l.map rowKey := by
  constructor
  · intro h
    obtain ⟨x, hx, rfl⟩ := List.mem_map.1 h
    exact List.mem_map.2 ⟨x, (mem_dedupKey hx).1, rfl⟩
  · intro h
    obtain ⟨x, hx, rfl⟩ := List.mem_map.1 h
    obtain ⟨y, hy, hm⟩ := dedupKey_complete hx (seen := []) (by simp)
    refine List.mem_map.2 ⟨y, hy, ?_⟩
    have hs := hk y (mem_dedupKey hy).1 x hx hm
    rw [keyOf_eq, keyOf_eq] at hm
    simp only [Prod.mk.injEq, and_true] at hm
    simp [rowKey, hm.1, hm.2, hs]

theorem dedup_keys_nodup (l : List (F64.F × Sig LS)) : ((dedupKey lsOps [] l).map rowKey).Nodup := by
  apply List.Nodup.of_map (fun k : Nat × Nat × F64.F => ((k.1, k.2.1, 0) : Nat × Nat × Nat))
  rw [List.map_map]
  exact dedupKey_nodup l []

/-- de-duplicating two permutations of the same rows gives the same (md5, scaled, score) triples -/
theorem dedup_keys_perm {l l' : List (F64.F × Sig LS)} (hp : l.Perm l') (hk : KeyOK l) :
    ((dedupKey lsOps [] l).map rowKey).Perm ((dedupKey lsOps [] l').map rowKey) := by
  have hk' : KeyOK l' := by
    intro x hx y hy hm
    exact hk x (hp.mem_iff.2 hx) y (hp.mem_iff.2 hy) hm
  rw [List.perm_ext_iff_of_nodup (dedup_keys_nodup l) (dedup_keys_nodup l')]
  intro k
  rw [mem_dedup_keys hk, mem_dedup_keys hk']
  exact (hp.map rowKey).mem_iff

/-- **equal key ⇒ equal score, from the model**: the score `find` computes depends on the database sketch only
through its scaled value and its hashes; sketches with the same md5 have the same hashes (`MD5OK`: md5 is
computed from the hashes), so rows with the same `(md5, scaled)` score equally -/
theorem findScoreS_congr (st : SearchType) (pq : LS) {d d' : LS} (hs : d.scaled = d'.scaled)
    (hh : d.hs = d'.hs) : findScoreS st pq d = findScoreS st pq d' := by
  unfold findScoreS
  rw [hs, hh]

theorem keyOK_findRows (st : SearchType) (pq : LS) (thr : F64.F) {db : List (Sig LS)} (hmd5 : MD5OK db) :
    KeyOK (findRows st pq thr db) := by
  intro x hx y hy hm
  simp only [findRows, List.mem_map, List.mem_filter] at hx hy
  obtain ⟨d, ⟨hd, _⟩, rfl⟩ := hx
  obtain ⟨d', ⟨hd', _⟩, rfl⟩ := hy
  rw [keyOf_eq, keyOf_eq] at hm
  simp only [Prod.mk.injEq, and_true] at hm
  exact findScoreS_congr st pq hm.2 (hmd5 d hd d' hd' hm.1)

/-! ### searching several collections -/

/-- `search_databases_with_flat_query` on list sketches: concatenate the per-collection sorted rows,
de-duplicate on `(md5, scaled, num)`, sort -/
theorem searchDatabases_ls (st : SearchType) {pq : LS} (hp : pq.WF) (hflat : pq.ab = none) (thr : F64.F)
    {dbs : List (List (Sig LS))} (hwf : ∀ db ∈ dbs, ∀ d ∈ db, d.mh.WF) :
    searchDatabases lsOps st dbs pq thr false =
      .ok (sortDesc (dedupKey lsOps [] ((dbs.map (fun db => sortDesc (findRows st pq thr db))).flatten))) := by
  unfold searchDatabases
  rw [searchEach_ls st hp hflat thr dbs hwf]

/-- **search does not depend on the organisation**: two organisations of the same sketches (any partition
into collections, any insertion orders) return the same (md5, scaled, score) triples.  The only hypothesis
about md5 values is `MD5OK`: sketches with equal md5 have equal hashes. -/
theorem search_perm (st : SearchType) {pq : LS} (hp : pq.WF) (hflat : pq.ab = none) (thr : F64.F)
    {dbs dbs' : List (List (Sig LS))} (hwf : ∀ db ∈ dbs, ∀ d ∈ db, d.mh.WF)
    (hwf' : ∀ db ∈ dbs', ∀ d ∈ db, d.mh.WF) (hperm : dbs.flatten.Perm dbs'.flatten)
    (hmd5 : MD5OK dbs.flatten) :
    ∃ r r', searchDatabases lsOps st dbs pq thr false = .ok r ∧
      searchDatabases lsOps st dbs' pq thr false = .ok r' ∧ (r.map rowKey).Perm (r'.map rowKey) := by
  refine ⟨_, _, searchDatabases_ls st hp hflat thr hwf, searchDatabases_ls st hp hflat thr hwf', ?_⟩
  have hL := preDedup_perm st pq thr dbs
  have hL' := preDedup_perm st pq thr dbs'
  have hLL : ((dbs.map (fun db => sortDesc (findRows st pq thr db))).flatten).Perm
      ((dbs'.map (fun db => sortDesc (findRows st pq thr db))).flatten) :=
    hL.trans ((findRows_perm st pq thr hperm).trans hL'.symm)
  have hk : KeyOK ((dbs.map (fun db => sortDesc (findRows st pq thr db))).flatten) := by
    intro x hx y hy hm
    exact keyOK_findRows st pq thr hmd5 x (hL.mem_iff.1 hx) y (hL.mem_iff.1 hy) hm
  exact ((sortDesc_perm _).map rowKey).trans ((dedup_keys_perm hLL hk).trans ((sortDesc_perm _).map rowKey).symm)

/-- `Index.prefetch` of a non-empty collection on list sketches -/
theorem prefetch_ls {pq : LS} (hp : pq.WF) (hflat : pq.ab = none) (hne : pq.hs ≠ []) {thr : Nat}
    {t nT : F64.F} (hthr : calcThreshold thr pq.scaled pq.hs.length = .ok (t, nT))
    {db : List (Sig LS)} (hdb : ∀ d ∈ db, d.mh.WF) (hdne : db ≠ []) :
    prefetch lsOps db pq thr false =
      .ok ((db.filter (fun d => passes (findScore pq d.mh) t)).map (fun d => (findScore pq d.mh, d))) := by
  unfold prefetch
  have h1 := hp.lo
  have e1 : lsOps.scaled pq = pq.scaled := rfl
  have e2 : len lsOps pq = pq.hs.length := rfl
  rw [if_neg (by simpa using hdne), if_neg (by rw [e2]; intro h; exact hne (List.eq_nil_of_length_eq_zero h)),
    if_neg (by rw [e1]; omega), e1, e2, hthr]
  simp only []
  rw [if_neg (by simp [lsOps_track, hflat]), findLoop_ls hp t db hdb]

/-- multi-database prefetch = `find` over all sketches in collection order -/
theorem prefetchDatabases_ls {pq : LS} (hp : pq.WF) (hflat : pq.ab = none) (hne : pq.hs ≠ []) {thr : Nat}
    {t nT : F64.F} (hthr : calcThreshold thr pq.scaled pq.hs.length = .ok (t, nT)) :
    ∀ (dbs : List (List (Sig LS))), (∀ db ∈ dbs, ∀ d ∈ db, d.mh.WF) →
      prefetchDatabases lsOps pq thr dbs =
        .ok ((dbs.flatten.filter (fun d => passes (findScore pq d.mh) t)).map (fun d => (findScore pq d.mh, d))) := by
  intro dbs
  induction dbs with
  | nil => intro _; rfl
  | cons db rest ih =>
    intro h
    unfold prefetchDatabases
    by_cases he : db.isEmpty = true
    · rw [if_pos he, ih (fun d hd => h d (List.mem_cons_of_mem _ hd))]
      have : db = [] := by simpa using he
      subst this
      simp
    · rw [if_neg he, prefetch_ls hp hflat hne hthr (h db List.mem_cons_self) (by simpa using he),
        ih (fun d hd => h d (List.mem_cons_of_mem _ hd))]
      simp

end Sm.SearchDb
