/-
Helper lemmas for C14: the grouping / naming decisions of `sourmash sketch` (`Model/SketchNames.lean`).
-/
import SmVerif.Model.SketchNames

namespace Sm.Sketch

theorem plan_merge (nm : List Char) (files : List SeqFile)
    (h : (files.flatMap (fun f => f.records.map Prod.snd)) ≠ []) :
    plan (.merge nm) files =
      [⟨some nm, recordedFilename (lastName files), files.flatMap (fun f => f.records.map Prod.snd), lastName files⟩] := by
  unfold plan
  simp only []
  rw [if_neg]
  simpa using h

theorem plan_merge_empty (nm : List Char) (files : List SeqFile)
    (h : (files.flatMap (fun f => f.records.map Prod.snd)) = []) : plan (.merge nm) files = [] := by
  unfold plan
  simp only []
  rw [if_pos]
  simpa using h

theorem unitsOfFile_singleton (f : SeqFile) :
    unitsOfFile true false f = f.records.map (fun r => ⟨some r.1, recordedFilename f.name, [r.2], f.name⟩) := by
  unfold unitsOfFile
  cases f.records with
  | nil => rfl
  | cons a as => simp

theorem unitsOfFile_perFile (nff : Bool) (f : SeqFile) (first : List Char × List Nat)
    (rest : List (List Char × List Nat)) (h : f.records = first :: rest) :
    unitsOfFile false nff f =
      [⟨if nff then some first.1 else none, recordedFilename f.name, f.records.map Prod.snd, f.name⟩] := by
  unfold unitsOfFile
  rw [h]
  simp

theorem unitsOfFile_empty (s nff : Bool) (f : SeqFile) (h : f.records = []) : unitsOfFile s nff f = [] := by
  unfold unitsOfFile
  rw [h]

theorem plan_singleton_length (files : List SeqFile) :
    (plan .singleton files).length = (files.map (fun f => f.records.length)).sum := by
  unfold plan
  simp only []
  induction files with
  | nil => rfl
  | cons f fs ih =>
    simp only [List.flatMap_cons, List.length_append, List.map_cons, List.sum_cons, ih,
      unitsOfFile_singleton, List.length_map]

end Sm.Sketch
