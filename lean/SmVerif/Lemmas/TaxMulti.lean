/-
C19 helper lemmas, part 11: several queries — `aggregate_by_lineage_at_rank` over exact rationals.
-/
import SmVerif.Lemmas.TaxResult

namespace Sm.Tax

set_option linter.unusedSectionVars false
set_option linter.unusedSimpArgs false
variable {ν : Type} [DecidableEq ν] {κ : Type} [DecidableEq κ]

theorem aggBump_sum (key : κ) (v : ℚ) (t : List (κ × ℚ)) :
    ((aggBump ratA key v t).map Prod.snd).sum = (t.map Prod.snd).sum + v := by
  induction t with
  | nil => simp [aggBump]
  | cons x t ih =>
    obtain ⟨k, a⟩ := x
    unfold aggBump
    by_cases hk : k = key
    · simp [hk]; ring
    · simp only [hk, if_false, List.map_cons, List.sum_cons, ih]; ring

theorem agg_foldl_sum (keyOf : Lineage ν → κ) (l : List (Entry ℚ ν)) (t0 : List (κ × ℚ)) :
    ((l.foldl (fun acc e => aggBump ratA (keyOf e.lin) e.f acc) t0).map Prod.snd).sum =
      (t0.map Prod.snd).sum + (l.map (·.f)).sum := by
  induction l generalizing t0 with
  | nil => simp
  | cons e l ih => simp only [List.foldl_cons, ih, aggBump_sum, List.map_cons, List.sum_cons]; ring

theorem sum_map_div (m : ℚ) (t : List (κ × ℚ)) :
    ((t.map (fun p => (p.1, p.2 / m))).map Prod.snd).sum = (t.map Prod.snd).sum / m := by
  induction t with
  | nil => simp
  | cons x t ih => simp only [List.map_cons, List.sum_cons, ih]; rw [add_div]

/-- the aggregated values sum to (the sum of all rank-`r` fractions of all queries) / (number of queries) -/
theorem aggregateAt_sum (keyOf : Lineage ν → κ) (r : Nat) (qs : List (List (Entry ℚ ν))) :
    ((aggregateAt ratA (fun x n => x / (n : ℚ)) keyOf r qs).map Prod.snd).sum =
      ((qs.flatMap (fun es => es.filter (fun e => e.rank = r))).map (·.f)).sum / (qs.length : ℚ) := by
  unfold aggregateAt
  simp only
  rw [sum_map_div, agg_foldl_sum]
  simp

theorem sum_flatMap_const (qs : List (List (Entry ℚ ν))) (r : Nat)
    (h : ∀ es ∈ qs, ((es.filter (fun e => e.rank = r)).map (·.f)).sum = 1) :
    ((qs.flatMap (fun es => es.filter (fun e => e.rank = r))).map (·.f)).sum = (qs.length : ℚ) := by
  induction qs with
  | nil => simp
  | cons es qs ih =>
    simp only [List.flatMap_cons, List.map_append, List.sum_append, List.length_cons]
    rw [h es (List.mem_cons_self ..), ih (fun e he => h e (List.mem_cons_of_mem _ he))]
    push_cast; ring

end Sm.Tax
