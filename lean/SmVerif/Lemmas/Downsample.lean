/-
Content of a downsampled sketch (C03, part A): `downsampleScaled` keeps exactly the
hashes at or below the new threshold, with their counts; hence it equals the sketch
built directly at the coarser value, and it composes.
-/
import SmVerif.Lemmas.MinHashInv
import SmVerif.Lemmas.ScaledNum

namespace Sm

open MH

theorem addMany_eq_addManyAb (s : MH) (l : List Nat) : s.addMany l = s.addManyAb (ones l) := by
  unfold MH.addMany MH.addManyAb ones
  rw [List.foldl_map]
  rfl

theorem count_new (sc k hf seed : Nat) (tr : Bool) (n x : Nat) :
    count (MH.new sc k hf seed tr n) x = 0 := by
  cases tr <;> simp [count, MH.new, MH.pairs, ones]

theorem new_trackAbundance (sc k hf seed : Nat) (tr : Bool) (n : Nat) :
    (MH.new sc k hf seed tr n).trackAbundance = tr := by
  cases tr <;> simp [MH.new, MH.trackAbundance]

/-- `downsample_scaled` when it really downsamples: a fresh sketch at the new value, fed the
(hash, abundance) pairs of the old one -/
theorem downsampleScaled_eq {s : MH} {sc : Nat} (h0 : s.scaled ≠ 0) (hlt : s.scaled < sc) :
    s.downsampleScaled sc =
      .ok ((MH.new sc s.ksize s.hf s.seed s.abunds.isSome s.num).addManyAb s.pairs) := by
  unfold MH.downsampleScaled
  rw [if_neg (by omega), if_neg (by omega)]
  simp only []
  cases hab : s.abunds with
  | none =>
    simp only [Option.isSome_none, Bool.false_eq_true, if_false]
    rw [addMany_eq_addManyAb, pairs_none hab]
  | some ab => simp only [Option.isSome_some, if_true]

/-- feeding pairs with ascending keys and positive counts to a scaled sketch that holds
none of the keys -/
theorem count_addManyAb_fresh (ps : List (Nat × Nat)) :
    ∀ {t : MH}, Inv t → t.num = 0 → t.maxHash ≠ 0 → Sorted (ps.map Prod.fst) →
      (∀ p ∈ ps, 0 < p.2) → (∀ k, cnt ps k ≠ 0 → count t k = 0) → ∀ x,
      count (t.addManyAb ps) x =
        if cnt ps x ≠ 0 ∧ x ≤ t.maxHash then (if t.trackAbundance then cnt ps x else 1)
        else count t x := by
  induction ps with
  | nil => intro t _ _ _ _ _ _ x; simp [MH.addManyAb]
  | cons p ps ih =>
    intro t ht hn hM hsort hpos hfresh x
    have hp : 0 < p.2 := hpos p (by simp)
    have hp0 : ¬ p.2 = 0 := by omega
    have fr := addHashAb_frame t p.1 p.2
    have hcnt : ∀ y, count (t.addHashAb p.1 p.2) y =
        specAdd t.maxHash t.trackAbundance (count t) p.1 p.2 y :=
      count_addHashAb_scaled' ht hn hM p.1 p.2
    have hsort' : Sorted (ps.map Prod.fst) := Sorted.tail hsort
    have hhead : cnt ps p.1 = 0 := cnt_eq_zero_of_lt (Sorted.head_lt hsort)
    have hother : ∀ y, y ≠ p.1 → count (t.addHashAb p.1 p.2) y = count t y := by
      intro y hy
      rw [hcnt]; unfold specAdd
      split
      · rfl
      · simp [hy]
    have hfresh' : ∀ k, cnt ps k ≠ 0 → count (t.addHashAb p.1 p.2) k = 0 := by
      intro k hk
      have hne : k ≠ p.1 := by
        intro e; rw [e] at hk; exact hk hhead
      rw [hother k hne]
      apply hfresh
      rw [cnt_cons', if_neg hne]; exact hk
    have step : (t.addManyAb (p :: ps)) = (t.addHashAb p.1 p.2).addManyAb ps := rfl
    rw [step, ih (inv_addHashAb ht (Or.inl hn) p.1 p.2) (fr.1.trans hn) (by rw [fr.2.1]; exact hM)
      hsort' (fun q hq => hpos q (List.mem_cons_of_mem _ hq)) hfresh' x]
    rw [fr.2.1, fr.2.2.2.2.2, cnt_cons']
    by_cases hx : x = p.1
    · subst hx
      have h0 : count t p.1 = 0 := by
        apply hfresh; rw [cnt_cons', if_pos rfl]; exact hp0
      rw [hhead, if_pos rfl, hcnt]
      unfold specAdd
      rw [if_neg hp0]
      by_cases hle : p.1 ≤ t.maxHash
      · have : ¬ (t.maxHash ≠ 0 ∧ p.1 > t.maxHash) := by omega
        simp [this, hle, hp0, h0]
      · have : t.maxHash ≠ 0 ∧ p.1 > t.maxHash := ⟨hM, by omega⟩
        simp [this, hle]
    · rw [if_neg hx, hother x hx]

/-- the sketch `downsample_scaled` builds: threshold, flag and content -/
theorem downsample_result {s : MH} (hs : Inv s) (hn : s.num = 0) (sc : Nat) (hne : mhR sc ≠ 0)
    (x : Nat) :
    let r := (MH.new sc s.ksize s.hf s.seed s.abunds.isSome s.num).addManyAb s.pairs
    r.maxHash = mhR sc ∧ r.trackAbundance = s.trackAbundance ∧ r.num = 0 ∧
    count r x = if x ≤ mhR sc then count s x else 0 := by
  intro r
  have fr := addManyAb_frame (MH.new sc s.ksize s.hf s.seed s.abunds.isSome s.num) s.pairs
  have hmax : (MH.new sc s.ksize s.hf s.seed s.abunds.isSome s.num).maxHash = mhR sc := rfl
  have hnum : (MH.new sc s.ksize s.hf s.seed s.abunds.isSome s.num).num = s.num := rfl
  have htr := new_trackAbundance sc s.ksize s.hf s.seed s.abunds.isSome s.num
  refine ⟨fr.2.1.trans hmax, fr.2.2.2.2.2.trans htr, fr.1.trans (hnum.trans hn), ?_⟩
  have hkeys : Sorted (s.pairs.map Prod.fst) := by rw [pairs_keys hs.toW]; exact hs.sorted
  have := count_addManyAb_fresh s.pairs (inv_new sc s.ksize s.hf s.seed s.abunds.isSome s.num)
    (hnum.trans hn) (by rw [hmax]; exact hne) hkeys (pairs_pos hs.toW)
    (fun k _ => count_new ..) x
  show count ((MH.new sc s.ksize s.hf s.seed s.abunds.isSome s.num).addManyAb s.pairs) x = _
  rw [this, hmax, htr, count_new, count_eq_cnt s x]
  by_cases hle : x ≤ mhR sc
  · rw [if_pos hle]
    by_cases hc : cnt s.pairs x = 0
    · simp [hc]
    · rw [if_pos ⟨hc, hle⟩]
      cases htrk : s.abunds.isSome with
      | true => simp
      | false =>
        have hflat := count_flat hs (show s.trackAbundance = false from htrk) x
        rw [count_eq_cnt] at hflat
        simp only [Bool.false_eq_true, if_false]
        rw [hflat] at hc ⊢
        split
        · rfl
        · rename_i hmem; simp [hmem] at hc
  · rw [if_neg hle, if_neg (fun h => hle h.2)]

/-- what a real downsampling step returns -/
theorem downsample_ok {s r : MH} (hs : Inv s) (hn : s.num = 0)
    (h0 : s.scaled ≠ 0) (sc : Nat) (hlt : s.scaled < sc) (hne : mhR sc ≠ 0)
    (hr : s.downsampleScaled sc = .ok r) :
    Inv r ∧ r.num = 0 ∧ r.maxHash = mhR sc ∧ r.trackAbundance = s.trackAbundance ∧
    ∀ x, count r x = if x ≤ mhR sc then count s x else 0 := by
  have hinv := inv_downsampleScaled hs (Or.inl hn) hr
  rw [downsampleScaled_eq h0 hlt] at hr
  cases hr
  have := fun x => downsample_result hs hn sc hne x
  exact ⟨hinv, (this 0).2.2.1, (this 0).1, (this 0).2.1, fun x => (this x).2.2.2⟩

/-- Rust's `scaled()` of a non-zero `u64` threshold is non-zero -/
theorem scaled_ne_zero {s : MH} (hM : s.maxHash ≠ 0) (hU : s.maxHash < 2 ^ 64) : s.scaled ≠ 0 :=
  scR_ne_zero hM hU

theorem mhR_lt_two64 (S : Nat) : mhR S < 2 ^ 64 := by
  have := mhR_le_u64max S
  have : 0 < 2 ^ 64 := by decide
  omega

theorem downsample_count' {s r : MH} (hs : Inv s) (hn : s.num = 0) (hM : s.maxHash ≠ 0)
    (hU : s.maxHash < 2 ^ 64) (sc : Nat)
    (hlt : s.scaled < sc) (hne : mhR sc ≠ 0) (hr : s.downsampleScaled sc = .ok r) (x : Nat) :
    r.maxHash = mhR sc ∧ r.trackAbundance = s.trackAbundance ∧
    count r x = if x ≤ mhR sc then count s x else 0 := by
  have := downsample_ok hs hn (scaled_ne_zero hM hU) sc hlt hne hr
  exact ⟨this.2.2.1, this.2.2.2.1, this.2.2.2.2 x⟩

/-! ### downsampling equals sketching at the coarser value -/

theorem specAdd_restrict {M1 M2 : Nat} (tr : Bool) {m1 m2 : Nat → Nat} (h a : Nat)
    (hM1 : M1 ≠ 0) (hM2 : M2 ≠ 0) (hle : M2 ≤ M1) (ha : 0 < a)
    (hrel : ∀ x, m2 x = if x ≤ M2 then m1 x else 0) (x : Nat) :
    specAdd M2 tr m2 h a x = if x ≤ M2 then specAdd M1 tr m1 h a x else 0 := by
  unfold specAdd
  have ha0 : ¬ a = 0 := by omega
  simp only [if_neg ha0]
  by_cases c1 : h > M1
  · have c2 : h > M2 := by omega
    rw [if_pos (show M2 ≠ 0 ∧ h > M2 from ⟨hM2, c2⟩), if_pos (show M1 ≠ 0 ∧ h > M1 from ⟨hM1, c1⟩)]
    exact hrel x
  · have n1 : ¬ (M1 ≠ 0 ∧ h > M1) := fun hc => c1 hc.2
    rw [if_neg n1]
    by_cases c2 : h > M2
    · rw [if_pos (show M2 ≠ 0 ∧ h > M2 from ⟨hM2, c2⟩), hrel x]
      by_cases hx : x ≤ M2
      · have : x ≠ h := by omega
        simp [hx, this]
      · simp [hx]
    · have n2 : ¬ (M2 ≠ 0 ∧ h > M2) := fun hc => c2 hc.2
      rw [if_neg n2]
      have hh : m2 h = m1 h := by rw [hrel h, if_pos (by omega)]
      by_cases hx : x = h
      · subst hx
        have : x ≤ M2 := by omega
        simp [this, hh]
      · simp only [if_neg hx]
        exact hrel x

theorem count_addManyAb_restrict (ps : List (Nat × Nat)) :
    ∀ {s t : MH}, Inv s → Inv t → s.num = 0 → t.num = 0 → s.maxHash ≠ 0 → t.maxHash ≠ 0 →
      t.maxHash ≤ s.maxHash → s.trackAbundance = t.trackAbundance → (∀ p ∈ ps, 0 < p.2) →
      (∀ x, count t x = if x ≤ t.maxHash then count s x else 0) →
      ∀ x, count (t.addManyAb ps) x = if x ≤ t.maxHash then count (s.addManyAb ps) x else 0 := by
  induction ps with
  | nil => intro s t _ _ _ _ _ _ _ _ _ hrel x; exact hrel x
  | cons p ps ih =>
    intro s t hs ht hsn htn hsM htM hle htr hpos hrel x
    have fs := addHashAb_frame s p.1 p.2
    have ft := addHashAb_frame t p.1 p.2
    have step1 : t.addManyAb (p :: ps) = (t.addHashAb p.1 p.2).addManyAb ps := rfl
    have step2 : s.addManyAb (p :: ps) = (s.addHashAb p.1 p.2).addManyAb ps := rfl
    rw [step1, step2]
    have := ih (inv_addHashAb hs (Or.inl hsn) p.1 p.2) (inv_addHashAb ht (Or.inl htn) p.1 p.2)
      (fs.1.trans hsn) (ft.1.trans htn) (by rw [fs.2.1]; exact hsM) (by rw [ft.2.1]; exact htM)
      (by rw [fs.2.1, ft.2.1]; exact hle) (by rw [fs.2.2.2.2.2, ft.2.2.2.2.2]; exact htr)
      (fun q hq => hpos q (List.mem_cons_of_mem _ hq))
      (by
        intro y
        rw [count_addHashAb_scaled' ht htn htM, count_addHashAb_scaled' hs hsn hsM, ft.2.1, ← htr]
        exact specAdd_restrict _ _ _ hsM htM hle (hpos p (by simp)) hrel y) x
    rw [this, ft.2.1]

theorem downsample_eq_direct' (k hf seed : Nat) (tr : Bool) (S1 S2 : Nat) (ps : List (Nat × Nat))
    (hpos : ∀ p ∈ ps, 0 < p.2) (h1 : mhR S1 ≠ 0) (h2 : mhR S2 ≠ 0) (hle : mhR S2 ≤ mhR S1)
    (hlt : scR (mhR S1) < S2) {r : MH}
    (hr : ((MH.new S1 k hf seed tr 0).addManyAb ps).downsampleScaled S2 = .ok r) :
    r.mins = ((MH.new S2 k hf seed tr 0).addManyAb ps).mins ∧
    r.abunds = ((MH.new S2 k hf seed tr 0).addManyAb ps).abunds ∧
    r.maxHash = mhR S2 := by
  have f1 := addManyAb_frame (MH.new S1 k hf seed tr 0) ps
  have f2 := addManyAb_frame (MH.new S2 k hf seed tr 0) ps
  have i1 : Inv ((MH.new S1 k hf seed tr 0).addManyAb ps) :=
    inv_addManyAb (inv_new ..) (Or.inl rfl) ps
  have i2 : Inv ((MH.new S2 k hf seed tr 0).addManyAb ps) :=
    inv_addManyAb (inv_new ..) (Or.inl rfl) ps
  have m1 : ((MH.new S1 k hf seed tr 0).addManyAb ps).maxHash = mhR S1 := f1.2.1
  have m2 : ((MH.new S2 k hf seed tr 0).addManyAb ps).maxHash = mhR S2 := f2.2.1
  have n1 : ((MH.new S1 k hf seed tr 0).addManyAb ps).num = 0 := f1.1
  have t1 : ((MH.new S1 k hf seed tr 0).addManyAb ps).trackAbundance = tr :=
    f1.2.2.2.2.2.trans (new_trackAbundance ..)
  have t2 : ((MH.new S2 k hf seed tr 0).addManyAb ps).trackAbundance = tr :=
    f2.2.2.2.2.2.trans (new_trackAbundance ..)
  have hsc : ((MH.new S1 k hf seed tr 0).addManyAb ps).scaled = scR (mhR S1) := by
    unfold MH.scaled; rw [m1]
  have h0 : ((MH.new S1 k hf seed tr 0).addManyAb ps).scaled ≠ 0 := by
    rw [hsc]; exact scR_ne_zero h1 (mhR_lt_two64 S1)
  obtain ⟨ir, -, rM, rT, rC⟩ := downsample_ok i1 n1 h0 S2 (by rw [hsc]; exact hlt) h2 hr
  have hdirect := count_addManyAb_restrict ps (inv_new S1 k hf seed tr 0) (inv_new S2 k hf seed tr 0)
    rfl rfl (show mhR S1 ≠ 0 from h1) (show mhR S2 ≠ 0 from h2) (show mhR S2 ≤ mhR S1 from hle)
    (by rw [new_trackAbundance, new_trackAbundance]) hpos
    (by intro x; rw [count_new, count_new]; simp)
  have hm : (MH.new S2 k hf seed tr 0).maxHash = mhR S2 := rfl
  have := ext_of_count' ir i2 (by rw [rT, t1, t2])
    (by intro x; rw [rC x, hdirect x, hm])
  exact ⟨this.1, this.2, rM⟩

/-! ### downsampling composes -/

theorem downsample_compose' {s r1 r2 r3 : MH} (hs : Inv s) (hn : s.num = 0) (_hM : s.maxHash ≠ 0)
    (S2 S3 : Nat) (h12 : s.scaled < S2) (h23 : r1.scaled < S3) (h13 : s.scaled < S3)
    (hne2 : mhR S2 ≠ 0) (hne3 : mhR S3 ≠ 0) (hle : mhR S3 ≤ mhR S2)
    (hr1 : s.downsampleScaled S2 = .ok r1) (hr2 : r1.downsampleScaled S3 = .ok r2)
    (hr3 : s.downsampleScaled S3 = .ok r3) :
    r2.mins = r3.mins ∧ r2.abunds = r3.abunds ∧ r2.maxHash = r3.maxHash := by
  by_cases h0 : s.scaled = 0
  · -- "no threshold reported": `downsample_scaled` returns the sketch unchanged
    have e1 : s.downsampleScaled S2 = .ok s := by
      unfold MH.downsampleScaled; rw [if_pos (Or.inr h0)]
    rw [e1] at hr1
    cases hr1
    rw [hr2] at hr3
    cases hr3
    exact ⟨rfl, rfl, rfl⟩
  · obtain ⟨i1, n1, M1, T1, C1⟩ := downsample_ok hs hn h0 S2 h12 hne2 hr1
    have h01 : r1.scaled ≠ 0 := by
      unfold MH.scaled; rw [M1]; exact scR_ne_zero hne2 (mhR_lt_two64 S2)
    obtain ⟨i2, -, M2, T2, C2⟩ := downsample_ok i1 n1 h01 S3 h23 hne3 hr2
    obtain ⟨i3, -, M3, T3, C3⟩ := downsample_ok hs hn h0 S3 h13 hne3 hr3
    have := ext_of_count' i2 i3 (by rw [T2, T1, T3])
      (by
        intro x
        rw [C2 x, C3 x, C1 x]
        by_cases hx : x ≤ mhR S3
        · have : x ≤ mhR S2 := by omega
          simp [hx, this]
        · simp [hx])
    exact ⟨this.1, this.2, by rw [M2, M3]⟩

end Sm
