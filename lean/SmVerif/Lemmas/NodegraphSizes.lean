/-
`with_tables`: the table sizes are odd (hence never a multiple of 32) and at least 3.
-/
import SmVerif.Lemmas.NodegraphBloom

namespace Sm
namespace NG

/-- an odd `i` accepted by `isPrime` is at least 3 -/
theorem isPrime_odd_ge3 {i : Nat} (hodd : i % 2 = 1) (hp : isPrime i = true) : 3 ≤ i := by
  unfold isPrime at hp
  rw [if_neg (by omega)] at hp
  split at hp
  · cases hp
  · omega

theorem tableSizesLoop_mem (n : Nat) : ∀ (fuel i : Nat) (acc : List Nat), i % 2 = 1 →
    (∀ s ∈ acc, s % 2 = 1 ∧ 3 ≤ s) → ∀ s ∈ tableSizesLoop n fuel i acc, s % 2 = 1 ∧ 3 ≤ s
  | 0, _, _, _, hacc => by simpa [tableSizesLoop] using hacc
  | fuel + 1, i, acc, hi, hacc => by
    have hacc' : ∀ s ∈ (if isPrime i = true then acc ++ [i] else acc), s % 2 = 1 ∧ 3 ≤ s := by
      split
      · rename_i hp
        intro s hs
        rcases List.mem_append.mp hs with h | h
        · exact hacc s h
        · simp only [List.mem_singleton] at h
          subst h
          exact ⟨hi, isPrime_odd_ge3 hi hp⟩
      · exact hacc
    unfold tableSizesLoop
    split
    · exact hacc
    · simp only
      split
      · exact hacc'
      · exact tableSizesLoop_mem n fuel (i - 2) _ (by omega) hacc'

theorem tableSizesLoop_length (n : Nat) : ∀ (fuel i : Nat) (acc : List Nat),
    acc.length ≤ n → (tableSizesLoop n fuel i acc).length ≤ n
  | 0, _, _, h => by simpa [tableSizesLoop] using h
  | fuel + 1, i, acc, h => by
    unfold tableSizesLoop
    split
    · exact h
    · rename_i hne
      have h' : (if isPrime i = true then acc ++ [i] else acc).length ≤ n := by
        split
        · simp only [List.length_append, List.length_singleton]; omega
        · exact h
      simp only
      split
      · exact h'
      · exact tableSizesLoop_length n fuel (i - 2) _ h'

theorem tableSizesLoop_le (n B : Nat) : ∀ (fuel i : Nat) (acc : List Nat), i ≤ B →
    (∀ s ∈ acc, s ≤ B) → ∀ s ∈ tableSizesLoop n fuel i acc, s ≤ B
  | 0, _, _, _, hacc => by simpa [tableSizesLoop] using hacc
  | fuel + 1, i, acc, hi, hacc => by
    have hacc' : ∀ s ∈ (if isPrime i = true then acc ++ [i] else acc), s ≤ B := by
      split
      · intro s hs
        rcases List.mem_append.mp hs with h | h
        · exact hacc s h
        · simp only [List.mem_singleton] at h
          omega
      · exact hacc
    unfold tableSizesLoop
    split
    · exact hacc
    · simp only
      split
      · exact hacc'
      · exact tableSizesLoop_le n B fuel (i - 2) _ (by omega) hacc'

theorem tableSizes_start_odd (ts : Nat) :
    (if max (ts - 1) 2 % 2 = 0 then max (ts - 1) 2 - 1 else max (ts - 1) 2) % 2 = 1 := by
  have : 2 ≤ max (ts - 1) 2 := Nat.le_max_right _ _
  split <;> omega

/-- every size produced by `with_tables` is odd and at least 3.  (`1 ≤ ts` is not used by the
model proof; it is the precondition under which the model matches the Rust code.) -/
theorem tableSizes_odd {ts n : Nat} (_h1 : 1 ≤ ts) : ∀ s ∈ tableSizes ts n, s % 2 = 1 ∧ 3 ≤ s := by
  unfold tableSizes
  exact tableSizesLoop_mem n _ _ [] (tableSizes_start_odd ts) (by simp)

/-- every size is strictly below the requested `tablesize` -/
theorem tableSizes_lt {ts n : Nat} (h1 : 1 ≤ ts) : ∀ s ∈ tableSizes ts n, s < ts := by
  intro s hs
  have h3 := (tableSizes_odd h1 s hs).2
  have hle : s ≤ max (ts - 1) 2 := by
    unfold tableSizes at hs
    refine tableSizesLoop_le n _ _ _ [] ?_ (by simp) s hs
    split <;> omega
  have : max (ts - 1) 2 ≤ ts - 1 ∨ max (ts - 1) 2 ≤ 2 := by
    rcases Nat.le_total (ts - 1) 2 with h | h
    · right; rw [Nat.max_eq_right h]; exact Nat.le_refl _
    · left; rw [Nat.max_eq_left h]; exact Nat.le_refl _
  omega

theorem tableSizes_length_le (ts n : Nat) : (tableSizes ts n).length ≤ n := by
  unfold tableSizes
  exact tableSizesLoop_length n _ _ [] (by simp)

theorem withTables_sizes (ts n k : Nat) : (withTables ts n k).sizes = tableSizes ts n :=
  new_sizes _ _

theorem withTables_wf {ts n k : Nat} (h1 : 1 ≤ ts) : WF (withTables ts n k) :=
  new_wf (fun s hs => by have := (tableSizes_odd h1 s hs).2; omega) k

theorem withTables_not_mult32 {ts n k : Nat} (h1 : 1 ≤ ts) :
    ∀ b ∈ (withTables ts n k).bs, b.length % 32 ≠ 0 := by
  intro b hb
  have hm : b.length ∈ (withTables ts n k).sizes := List.mem_map.mpr ⟨b, hb, rfl⟩
  rw [withTables_sizes] at hm
  have := (tableSizes_odd h1 _ hm).1
  omega

end NG
end Sm
