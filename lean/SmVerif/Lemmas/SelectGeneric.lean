/-
C12 helper lemmas: one `select` step on any container — the container stays well-formed and what it then lists is
(a permutation of) what it listed before, filtered by `Sat c`.
-/
import SmVerif.Lemmas.SelectExact

namespace Sm.Select

open Sm.Gen (Coltype)

/-! ### SBT / LCA: the checks against the first signature -/

/-- all leaves share the indexing parameters (what `sourmash index` enforces) -/
def Homogeneous (leaves : List Sig) : Prop :=
  ∀ s ∈ leaves, ∀ t ∈ leaves, s.ksize = t.ksize ∧ s.mol = t.mol ∧ s.num = t.num ∧ s.scaled = t.scaled

theorem sbtChecks_sound {first : Sig} {c : Crit} (hwf : WF first) (h : sbtChecks first c = .ok ()) :
    satCore c first = true ∧ c.abundReq = false := by
  unfold sbtChecks at h
  have hr : sbtRefuses first c = false := by
    cases hq : sbtRefuses first c
    · rfl
    · rw [hq] at h; cases h
  clear h
  unfold sbtRefuses at hr
  unfold satCore Crit.ksizeBad Crit.molBad Crit.abundReq Crit.cont Crit.scaledV Crit.numV
  unfold WF at hwf
  rcases c with ⟨ks, mt, sc, nm, ab, ct, pl⟩
  simp only [Bool.or_eq_false_iff] at hr
  obtain ⟨⟨⟨⟨⟨h1, h2⟩, h3⟩, h4⟩, h5⟩, h6⟩ := hr
  cases ks <;> cases mt <;> rcases ab with _ | _ | (_ | _) <;> simp_all
  all_goals (
    cases hc : ct.getD false <;> simp_all <;>
    by_cases e1 : sc.getD 0 = 0 <;> by_cases e2 : first.scaled = 0 <;> by_cases e3 : first.num = 0 <;>
    by_cases e4 : nm.getD 0 = 0 <;> simp_all <;> omega)

theorem lcaChecks_sound {k sc : Nat} {m : Mol} {c : Crit} {s : Sig} (hk : s.ksize = k) (hm : s.mol = m)
    (hs : s.scaled ≠ 0) (hn : s.num = 0) (h : lcaChecks k m sc c = .ok ()) : satCore c s = true := by
  unfold lcaChecks at h
  have hr : lcaRefuses k m sc c = false := by
    cases hq : lcaRefuses k m sc c
    · rfl
    · rw [hq] at h; cases h
  clear h
  unfold lcaRefuses at hr
  unfold satCore Crit.ksizeBad Crit.molBad Crit.abundReq Crit.cont Crit.scaledV Crit.numV
  rcases c with ⟨ks, mt, scl, nm, ab, ct, pl⟩
  simp only [Bool.or_eq_false_iff] at hr
  obtain ⟨⟨⟨⟨h1, h2⟩, h3⟩, h4⟩, h5⟩ := hr
  subst hk hm
  cases ks <;> cases mt <;> rcases ab with _ | _ | (_ | _) <;> simp_all

theorem passesAll_toList (c : Crit) (s : Sig) : passesAll c.picklist.toList s = plOk c s := by
  unfold plOk
  cases c.picklist <;> simp [passesAll]

/-- adding the request's picklist to the stored ones = filtering the current listing by `Sat c`, once every listed
    signature is known to satisfy the non-picklist part of the request -/
theorem filter_step (sigs : List Sig) (pls : List Picklist) (c : Crit)
    (hcore : ∀ s ∈ sigs.filter (passesAll pls), satCore c s = true) :
    sigs.filter (passesAll (pls ++ c.picklist.toList)) = (sigs.filter (passesAll pls)).filter (Sat c) := by
  rw [List.filter_filter]
  apply List.filter_congr
  intro s hs
  rw [passesAll_append, passesAll_toList, Sat_eq]
  cases hp : passesAll pls s with
  | false => simp
  | true =>
    rw [hcore s (List.mem_filter.mpr ⟨hs, hp⟩)]
    simp

theorem core_of_first {leaves : List Sig} {c : Crit} {first : Sig} (hwf : ∀ s ∈ leaves, WF s)
    (hh : Homogeneous leaves) (hfirst : first ∈ leaves) (hc : sbtChecks first c = .ok ()) :
    ∀ s ∈ leaves, satCore c s = true := by
  intro s hs
  obtain ⟨this, hab⟩ := sbtChecks_sound (hwf first hfirst) hc
  obtain ⟨a, b, c', d⟩ := hh s hs first hfirst
  unfold satCore at this ⊢
  rw [a, b, c', d]
  simp only [hab] at this ⊢
  simpa using this

/-- the common shape of `SBT.select` once the current listing `cur` is known -/
theorem tree_select_shape {leaves : List Sig} {pls : List Picklist} {c : Crit} (hwf : ∀ s ∈ leaves, WF s)
    (hh : Homogeneous leaves) (cur : List Sig) (hcur : cur = leaves.filter (passesAll pls))
    (pls' : List Picklist)
    (hshape : (cur = [] ∧ pls' = pls) ∨
      (∃ first rest, cur = first :: rest ∧ sbtChecks first c = .ok () ∧ pls' = pls ++ c.picklist.toList)) :
    leaves.filter (passesAll pls') = (leaves.filter (passesAll pls)).filter (Sat c) := by
  rcases hshape with ⟨hnil, rfl⟩ | ⟨first, rest, hcons, hc, rfl⟩
  · rw [← hcur, hnil]; rfl
  · have hfirst : first ∈ leaves := by
      have : first ∈ cur := hcons ▸ List.mem_cons_self ..
      rw [hcur] at this
      exact (List.mem_filter.mp this).1
    exact filter_step leaves pls c (fun s hs => core_of_first hwf hh hfirst hc s (List.mem_filter.mp hs).1)

theorem sbt_select_shape {leaves : List Sig} {pls : List Picklist} {c : Crit} {y : Coll}
    (h : ((Coll.sbt leaves pls).select c).2 = .ok y) :
    ∃ pls', y = .sbt leaves pls' ∧
      ((leaves.filter (passesAll pls) = [] ∧ pls' = pls) ∨
        (∃ first rest, leaves.filter (passesAll pls) = first :: rest ∧ sbtChecks first c = .ok () ∧
          pls' = pls ++ c.picklist.toList)) := by
  simp only [Coll.select] at h
  cases hf : leaves.filter (passesAll pls) with
  | nil =>
    simp only [hf] at h
    injection h with h
    exact ⟨pls, h.symm, Or.inl ⟨rfl, rfl⟩⟩
  | cons first rest =>
    simp only [hf] at h
    cases hc : sbtChecks first c with
    | error e => simp [hc] at h
    | ok u =>
      cases u
      simp only [hc] at h
      cases hp : c.picklist with
      | none =>
        simp only [hp] at h
        injection h with h
        exact ⟨pls, h.symm, Or.inr ⟨first, rest, rfl, hc, by simp [hp]⟩⟩
      | some pl =>
        simp only [hp] at h
        split at h
        · cases h
        · injection h with h
          exact ⟨pls ++ [pl], h.symm, Or.inr ⟨first, rest, rfl, hc, by simp [hp]⟩⟩

theorem sbtM_select_shape {rows : List Row} {store : Store} {leaves cur : List Sig} {pls : List Picklist} {c : Crit}
    {y : Coll} (hcur : (Coll.sbtM rows store leaves pls).signatures = .ok cur)
    (h : ((Coll.sbtM rows store leaves pls).select c).2 = .ok y) :
    ∃ pls', y = .sbtM rows store leaves pls' ∧
      ((cur = [] ∧ pls' = pls) ∨
        (∃ first rest, cur = first :: rest ∧ sbtChecks first c = .ok () ∧ pls' = pls ++ c.picklist.toList)) := by
  simp only [Coll.select, hcur] at h
  cases cur with
  | nil =>
    simp only at h
    injection h with h
    exact ⟨pls, h.symm, Or.inl ⟨rfl, rfl⟩⟩
  | cons first rest =>
    simp only at h
    cases hc : sbtChecks first c with
    | error e => simp [hc] at h
    | ok u =>
      cases u
      simp only [hc] at h
      cases hp : c.picklist with
      | none =>
        simp only [hp] at h
        injection h with h
        exact ⟨pls, h.symm, Or.inr ⟨first, rest, rfl, hc, by simp [hp]⟩⟩
      | some pl =>
        simp only [hp] at h
        split at h
        · cases h
        · injection h with h
          exact ⟨pls ++ [pl], h.symm, Or.inr ⟨first, rest, rfl, hc, by simp [hp]⟩⟩

theorem lca_select_shape {k sc : Nat} {m : Mol} {sigs : List Sig} {pls : List Picklist} {cache : Option (List Sig)}
    {c : Crit} {y : Coll} (h : ((Coll.lca k m sc sigs pls cache).select c).2 = .ok y) :
    lcaChecks k m sc c = .ok () ∧ y = .lca k m sc sigs (pls ++ c.picklist.toList) cache := by
  simp only [Coll.select] at h
  cases hc : lcaChecks k m sc c with
  | error e => simp [hc] at h
  | ok u =>
    simp only [hc] at h
    refine ⟨rfl, ?_⟩
    cases hp : c.picklist with
    | none =>
      simp only [hp] at h
      injection h with h
      simp [← h]
    | some pl =>
      simp only [hp] at h
      split at h
      · cases h
      · injection h with h
        simp [← h]

/-! ### well-formed containers -/

/-- what the generator builds and what `select` preserves -/
def Coll.Ok : Coll → Prop
  | .linear sigs => ∀ s ∈ sigs, WF s
  | .lazy sigs _ => ∀ s ∈ sigs, WF s
  | .multi rows => RowsOf rows
  | .zipM rows store => ∃ (rs sub : List (Row × Sig)), ZipOk rs ∧ sub.Sublist rs ∧ rows = sub.map (·.1) ∧ store = storeOf rs
  | .zipNM sigs _ => ∀ s ∈ sigs, WF s
  | .smi rows store => ∃ (rs : List (Row × Sig)) (P : Row × Sig → Bool), SmiOk rs store ∧ rows = (rs.filter P).map (·.1) ∧ SmiExact Gen.toPicklistExactCsv rs P
  | .sqlmf all d store => ∃ (rs : List (Row × Sig)), SmiOk rs store ∧ all = rs.map (·.1) ∧ (∀ x ∈ rs, WF x.2) ∧ SqlmfExact Gen.toPicklistExactSql rs d
  | .sbt leaves _ => (∀ s ∈ leaves, WF s) ∧ Homogeneous leaves
  | .sbtM rows store leaves _ =>
    (∃ (rs : List (Row × Sig)), ZipOk rs ∧ rows = rs.map (·.1) ∧ store = storeOf rs ∧ leaves = rs.map (·.2)) ∧
      (∀ s ∈ leaves, WF s) ∧ Homogeneous leaves
  | .lca k m _ sigs pls cache =>
    (∀ s ∈ sigs, s.ksize = k ∧ s.mol = m ∧ s.scaled ≠ 0 ∧ s.num = 0) ∧ CacheOk sigs pls cache
  | .sqlite all _ => RowsOf all ∧ ∀ x ∈ all, WF x.2

/-- the explicit exclusions for one request: picklists are objects (same identity = same picklist); a standalone
    manifest must not, after this request, re-read a deselected signature sharing its key -- (name, md5) since cff7217 --
    with a selected one (what is left of known finding C12.3) -/
def Coll.Compat : Coll → Crit → Prop
  | .lazy _ d, c => SamePl d c
  | .zipNM _ d, c => SamePl d c
  | .sqlite _ d, c => SamePl d c.forSql
  | .smi rows store, c =>
    ∀ (rs : List (Row × Sig)) (P : Row × Sig → Bool), SmiOk rs store → rows = (rs.filter P).map (·.1) →
      SmiExact Gen.toPicklistExactCsv rs (fun x => P x && Sat c x.2)
  | .sqlmf all d store, c =>
    SamePl d c ∧ ∀ (rs : List (Row × Sig)) (d' : Crit), SmiOk rs store → all = rs.map (·.1) →
      mergeZip d c = .ok d' → SqlmfExact Gen.toPicklistExactSql rs d'
  | _, _ => True

/-- what the container lists: `signatures()`, except that the two lazily selecting containers — whose `signatures()`
    may still refuse — are read off their stored selection dict -/
def Coll.listing : Coll → List Sig
  | .lazy sigs d => sigs.filter (Sat d)
  | .zipNM sigs d => sigs.filter (Sat d)
  | x => match x.signatures with
    | .ok l => l
    | .error _ => []

theorem listing_of_signatures {x : Coll} {l : List Sig} (hok : x.Ok) (h : x.signatures = .ok l) : l = x.listing := by
  cases x with
  | lazy sigs d => exact lazy_signatures (by simpa [Coll.Ok] using hok) h
  | zipNM sigs d => exact zipNM_signatures (by simpa [Coll.Ok] using hok) h
  | _ => simp only [Coll.listing, h]

theorem filter_and_eq {sigs : List Sig} {f g h : Sig → Bool} (hfg : ∀ s, h s = (f s && g s)) :
    sigs.filter h = (sigs.filter f).filter g := by
  rw [List.filter_filter]
  apply List.filter_congr
  intro s _
  rw [hfg, Bool.and_comm]

/-- one `select` on any well-formed container, outside the explicit exclusions: the result is again well-formed and
    lists (a permutation of) what was listed, filtered by `Sat c` -/
theorem select_step {x y : Coll} {c : Crit} (hok : x.Ok) (hc : x.Compat c) (h : (x.select c).2 = .ok y) :
    y.Ok ∧ y.listing.Perm (x.listing.filter (Sat c)) := by
  cases x with
  | linear sigs =>
    have hok' : ∀ s ∈ sigs, WF s := hok
    have hy := linear_select_ok hok' h
    subst hy
    exact ⟨fun s hs => hok' s (List.mem_filter.mp hs).1, List.Perm.refl _⟩
  | lazy sigs d =>
    have hok' : ∀ s ∈ sigs, WF s := hok
    obtain ⟨d', hm, rfl⟩ := lazy_select h
    refine ⟨hok', List.Perm.of_eq ?_⟩
    exact filter_and_eq (fun s => mergeLazy_sat s hc hm)
  | zipNM sigs d =>
    have hok' : ∀ s ∈ sigs, WF s := hok
    obtain ⟨d', hm, rfl⟩ := zipNM_select h
    refine ⟨hok', List.Perm.of_eq ?_⟩
    exact filter_and_eq (fun s => mergeZip_sat s hc hm)
  | multi rows =>
    have hrows : RowsOf rows := hok
    rw [multi_select_total c hrows] at h
    injection h with h
    subst h
    refine ⟨fun rs hrs => hrows rs (List.mem_filter.mp hrs).1, List.Perm.of_eq ?_⟩
    simp only [Coll.listing, Coll.signatures, List.filter_map]
    rfl
  | zipM rows store =>
    obtain ⟨rs, sub, hz, hsub, rfl, rfl⟩ := hok
    have hf : filterE (fun a : Row × Sig => rowPasses a.1 c) sub = .ok (sub.filter (fun x => Sat c x.2)) := by
      apply filterE_ok_of_forall
      intro x hx
      rw [hz.rows x (hsub.subset hx)]
      exact rowPasses_total x.2 c _
    simp only [Coll.select] at h
    rw [filterE_map, hf] at h
    injection h with h
    subst h
    have hsub' : (sub.filter (fun x => Sat c x.2)).Sublist rs := List.filter_sublist.trans hsub
    refine ⟨⟨rs, _, hz, hsub', rfl, rfl⟩, List.Perm.of_eq ?_⟩
    simp only [Coll.listing, zipM_signatures hz hsub', zipM_signatures hz hsub, List.filter_map]
    rfl
  | smi rows store =>
    obtain ⟨rs, P, hsm, rfl, hex⟩ := hok
    let P' : Row × Sig → Bool := fun x => P x && Sat c x.2
    have hex' : SmiExact Gen.toPicklistExactCsv rs P' := hc rs P hsm rfl
    have hsel : (rs.filter P).filter (fun x => Sat c x.2) = rs.filter P' := by
      rw [List.filter_filter]
      apply List.filter_congr
      intro x _
      exact Bool.and_comm _ _
    have hf : filterE (fun a : Row × Sig => rowPasses a.1 c) (rs.filter P) = .ok (rs.filter P') := by
      rw [← hsel]
      apply filterE_ok_of_forall
      intro x hx
      rw [hsm.rows x (List.mem_filter.mp hx).1]
      exact rowPasses_total x.2 c _
    simp only [Coll.select] at h
    rw [filterE_map, hf] at h
    injection h with h
    subst h
    refine ⟨⟨rs, P', hsm, rfl, hex'⟩, ?_⟩
    obtain ⟨l, hl, hperm⟩ := smi_signatures_exact hsm P hex
    obtain ⟨l', hl', hperm'⟩ := smi_signatures_exact hsm P' hex'
    simp only [Coll.listing, hl, hl']
    refine hperm'.trans ?_
    rw [← hsel]
    have hmap : ((rs.filter P).filter (fun x => Sat c x.2)).map (·.2) = ((rs.filter P).map (·.2)).filter (Sat c) := by
      rw [List.filter_map]; rfl
    rw [hmap]
    exact (hperm.filter (Sat c)).symm
  | sqlmf all d store =>
    obtain ⟨rs, hsm, rfl, hwf, hex⟩ := hok
    obtain ⟨d', hm, rfl⟩ := sqlmf_select h
    have hex' : SqlmfExact Gen.toPicklistExactSql rs d' := hc.2 rs d' hsm rfl hm
    refine ⟨⟨rs, hsm, rfl, hwf, hex'⟩, ?_⟩
    obtain ⟨l, hl, hperm⟩ := sqlmf_signatures_exact d hsm hwf hex
    obtain ⟨l', hl', hperm'⟩ := sqlmf_signatures_exact d' hsm hwf hex'
    simp only [Coll.listing, hl, hl']
    refine hperm'.trans ?_
    rw [filter_and_eq (fun s => mergeZip_sat s hc.1 hm)]
    exact (hperm.filter (Sat c)).symm
  | sbt leaves pls =>
    obtain ⟨hwf, hh⟩ := hok
    obtain ⟨pls', rfl, hshape⟩ := sbt_select_shape h
    refine ⟨⟨hwf, hh⟩, List.Perm.of_eq ?_⟩
    exact tree_select_shape hwf hh _ rfl pls' hshape
  | sbtM rows store leaves pls =>
    obtain ⟨⟨rs, hz, rfl, rfl, rfl⟩, hwf, hh⟩ := hok
    obtain ⟨pls', rfl, hshape⟩ := sbtM_select_shape (sbtM_signatures hz pls) h
    refine ⟨⟨⟨rs, hz, rfl, rfl, rfl⟩, hwf, hh⟩, List.Perm.of_eq ?_⟩
    simp only [Coll.listing, sbtM_signatures hz]
    exact tree_select_shape hwf hh _ rfl pls' hshape
  | lca k m sc sigs pls cache =>
    obtain ⟨hdb, hcache⟩ := hok
    obtain ⟨hchk, rfl⟩ := lca_select_shape h
    refine ⟨⟨hdb, cacheOk_append _ hcache⟩, List.Perm.of_eq ?_⟩
    simp only [Coll.listing, Coll.signatures]
    rw [lcaCached_filter (cacheOk_append _ hcache), lcaCached_filter hcache]
    apply filter_step
    intro s hs
    have hs' := (List.mem_filter.mp hs).1
    exact lcaChecks_sound (hdb s hs').1 (hdb s hs').2.1 (hdb s hs').2.2.1 (hdb s hs').2.2.2 hchk
  | sqlite all d =>
    obtain ⟨hrows, hwf⟩ := hok
    obtain ⟨hn, ha, d', hm, rfl⟩ := sqlite_select h
    refine ⟨⟨hrows, hwf⟩, List.Perm.of_eq ?_⟩
    simp only [Coll.listing, (sqlite_signatures _ hrows hwf).1]
    apply filter_and_eq
    intro s
    rw [mergeZip_sat s hc hm, Sat_forSql hn ha]

end Sm.Select
