/-
The amino-acid branch (`is_protein`) and the translate branch of the `SeqToHashes` iterator
equal their specifications (`proteinSpec`, `translateSpec`).
-/
import SmVerif.Lemmas.SeqWindows
import SmVerif.Lemmas.SeqSpec

namespace Sm.Seq

/-! ### amino-acid input -/

/-- the re-encoding the `is_protein` branch applies to the whole sequence -/
def protEnc (hf : HashFn) (s : List Nat) : List Nat :=
  match hf with
  | .dayhoff => s.map aaToDayhoff
  | .hp => s.map aaToHp
  | _ => s

theorem length_protEnc (hf : HashFn) (s : List Nat) : (protEnc hf s).length = s.length := by
  cases hf <;> simp [protEnc]

def protState (s : List Nat) (k : Nat) (force : Bool) (hf : HashFn) (aa : List Nat) (i : Nat) : St :=
  { sequence := s, kmerIndex := i, kSize := k,
    maxIndex := if s.length ≥ k then s.length - k + 1 else 0,
    force := force, isProtein := true, hf := hf, hashesBuffer := [], dnaConfigured := false,
    dnaRc := [], dnaKsize := 0, dnaLen := 0, dnaLastPositionCheck := 0,
    protConfigured := false, aaSeq := aa, translateIterStep := 0 }

theorem slice?_window' {α : Type} (s : List α) (i k : Nat) (h : i + k ≤ s.length) :
    slice? s i (i + k) = some ((s.drop i).take k) := by
  unfold slice?
  rw [if_pos ⟨by omega, h⟩]
  congr 2; omega

theorem next_protState (hash : List Nat → Nat) (s : List Nat) (k : Nat) (force : Bool) (hf : HashFn)
    (hhf : hf ≠ .dna) (aa : List Nat) (i : Nat) (h : i + k ≤ s.length) :
    ∃ aa', next hash (protState s k force hf aa i) =
      some (.ok (hash (((protEnc hf s).drop i).take k)), protState s k force hf aa' (i + 1)) := by
  have hmax : i < (if k ≤ s.length then s.length - k + 1 else 0) := by
    rw [if_pos (by omega)]; omega
  cases hf with
  | dna => exact absurd rfl hhf
  | protein =>
    refine ⟨aa, ?_⟩
    simp [next, protState, hmax, nextProtein, HashFn.isProtein, slice?_window' s i k h, protEnc]
  | dayhoff =>
    refine ⟨s.map aaToDayhoff, ?_⟩
    have hs := slice?_window' (s.map aaToDayhoff) i k (by simpa using h)
    simp [next, protState, hmax, nextProtein, HashFn.isProtein, hs, protEnc]
  | hp =>
    refine ⟨s.map aaToHp, ?_⟩
    have hs := slice?_window' (s.map aaToHp) i k (by simpa using h)
    simp [next, protState, hmax, nextProtein, HashFn.isProtein, hs, protEnc]

theorem next_protState_end (hash : List Nat → Nat) (s : List Nat) (k : Nat) (force : Bool) (hf : HashFn)
    (aa : List Nat) (i : Nat) (h : (if s.length ≥ k then s.length - k + 1 else 0) ≤ i) :
    next hash (protState s k force hf aa i) = none := by
  simp only [ge_iff_le] at h
  simp [next, protState]
  omega

theorem collect_protState (hash : List Nat → Nat) (s : List Nat) (k : Nat) (force : Bool) (hf : HashFn)
    (hhf : hf ≠ .dna) :
    ∀ (m i : Nat) (aa : List Nat) (fuel : Nat), i + m = (windows k (protEnc hf s)).length → m + 1 ≤ fuel →
      collect hash fuel (protState s k force hf aa i) =
        (((windows k (protEnc hf s)).drop i).map hash, .done) := by
  intro m
  induction m with
  | zero =>
    intro i aa fuel hm hfuel
    obtain ⟨f, rfl⟩ : ∃ f, fuel = f + 1 := ⟨fuel - 1, by omega⟩
    have hend : next hash (protState s k force hf aa i) = none := by
      apply next_protState_end
      rw [length_windows, length_protEnc] at hm
      split <;> omega
    rw [List.drop_eq_nil_of_le (by omega)]
    simp [collect, hend]
  | succ m ih =>
    intro i aa fuel hm hfuel
    obtain ⟨f, rfl⟩ : ∃ f, fuel = f + 1 := ⟨fuel - 1, by omega⟩
    have hlen := length_windows (k := k) (protEnc hf s)
    have hl := length_protEnc hf s
    have hik : i + k ≤ s.length := by omega
    have hget : (windows k (protEnc hf s))[i]? = some (((protEnc hf s).drop i).take k) :=
      getElem?_windows _ i (by omega)
    have hilt : i < (windows k (protEnc hf s)).length := by omega
    have hdrop : (windows k (protEnc hf s)).drop i =
        ((protEnc hf s).drop i).take k :: (windows k (protEnc hf s)).drop (i + 1) := by
      rw [List.drop_eq_getElem_cons hilt]
      congr 1
      have := List.getElem?_eq_getElem hilt
      rw [hget] at this
      exact (Option.some.inj this).symm
    obtain ⟨aa', hn⟩ := next_protState hash s k force hf hhf aa i hik
    rw [hdrop]
    simp only [collect, hn, List.map_cons]
    rw [ih (i + 1) aa' f (by omega) (by omega)]

theorem new_protein (seq : List Nat) (K : Nat) (force : Bool) (hf : HashFn) :
    new seq K force true hf = protState (upper seq) (K / 3) force hf [] 0 := by
  simp [new, protState, upper]

theorem iterate_protein_eq_spec (hash : List Nat → Nat) (seq : List Nat) (K : Nat) (force : Bool)
    (hf : HashFn) (hhf : hf ≠ .dna) :
    iterate hash seq K force true hf = (proteinSpec hash hf seq (K / 3), .done) := by
  unfold iterate fuelFor
  rw [new_protein]
  have hl : (upper seq).length = seq.length := by simp [upper]
  have := collect_protState hash (upper seq) (K / 3) force hf hhf
    (windows (K / 3) (protEnc hf (upper seq))).length 0 [] (2 * seq.length + 4) (by omega)
    (by rw [length_windows, length_protEnc, hl]; omega)
  rw [this]
  cases hf <;> simp [proteinSpec, protEnc] at hhf ⊢

/-- `add_protein` on a DNA sketch: `InvalidHashFunction` as soon as there is a window position -/
theorem iterate_protein_dna (hash : List Nat → Nat) (seq : List Nat) (K : Nat) (force : Bool) :
    iterate hash seq K force true .dna =
      if K / 3 ≤ seq.length then ([], .err .invalidHashFunction) else ([], .done) := by
  unfold iterate fuelFor
  rw [new_protein]
  have hl : (upper seq).length = seq.length := by simp [upper]
  by_cases h : K / 3 ≤ seq.length
  · simp [collect, next, protState, nextProtein, HashFn.isProtein, hl, h]
  · simp [collect, next, protState, hl, h]

/-! ### translated DNA -/

theorem length_codons : ∀ (s : List Nat), (codons s).length = s.length / 3
  | [] => by simp [codons]
  | [_] => by simp [codons]
  | [_, _] => by simp [codons]
  | _ :: _ :: _ :: rest => by simp [codons, length_codons rest]; omega

theorem toAA_eq (hf : HashFn) : ∀ (s : List Nat),
    toAA hf.isDayhoff hf.isHp s =
      if (codons s).all utf8Valid then .ok ((codons s).map (residue hf)) else .error .panicUtf8
  | [] => by simp [toAA, codons]
  | [_] => by simp [toAA, codons]
  | [_, _] => by simp [toAA, codons]
  | a :: b :: c :: rest => by
    have ih := toAA_eq hf rest
    by_cases h1 : utf8Valid [a, b, c] = true
    · by_cases h2 : (codons rest).all utf8Valid = true
      · simp [toAA, codons, translateCodon, h1, h2, ih, residue]
      · simp [toAA, codons, translateCodon, h1, h2, ih]
    · simp [toAA, codons, translateCodon, h1]

/-- ASCII bytes always form valid UTF-8 -/
theorem utf8Valid_of_ascii : ∀ (l : List Nat), (∀ b ∈ l, b < 128) → utf8Valid l = true
  | [], _ => by simp [utf8Valid]
  | b :: l, h => by
    have hb : b < 128 := h b (List.mem_cons_self ..)
    have ih := utf8Valid_of_ascii l (fun x hx => h x (List.mem_cons_of_mem _ hx))
    unfold utf8Valid
    simp [hb, ih]

theorem lookup_getD_lt (l : List (Nat × Nat)) (b d n : Nat) (hd : d < n) (h : ∀ p ∈ l, p.2 < n) :
    (l.lookup b).getD d < n := by
  induction l with
  | nil => simpa [List.lookup] using hd
  | cons p l ih =>
    obtain ⟨k, v⟩ := p
    simp only [List.lookup]
    split
    · simpa using h (k, v) (List.mem_cons_self ..)
    · exact ih (fun p hp => h p (List.mem_cons_of_mem _ hp))

/-- every entry of the regenerated COMPLEMENT table is ASCII (re-checked by `decide`) -/
theorem complement_lt (b : Nat) : complement b < 128 :=
  lookup_getD_lt Gen.complementEntries b 0 128 (by omega) (by decide)

theorem mem_of_mem_codons : ∀ {s : List Nat} {c : List Nat}, c ∈ codons s → ∀ x ∈ c, x ∈ s
  | [], c, h, _, _ => by simp [codons] at h
  | [_], c, h, _, _ => by simp [codons] at h
  | [_, _], c, h, _, _ => by simp [codons] at h
  | a :: b :: d :: rest, c, h, x, hx => by
    simp only [codons, List.mem_cons] at h
    rcases h with rfl | h
    · simp at hx; rcases hx with rfl | rfl | rfl <;> simp
    · have := mem_of_mem_codons h x hx
      simp [this]

theorem codons_revcomp_utf8 (s : List Nat) (f : Nat) :
    (codons ((revcomp s).drop f)).all utf8Valid = true := by
  rw [List.all_eq_true]
  intro c hc
  apply utf8Valid_of_ascii
  intro x hx
  have hmem : x ∈ revcomp s := List.mem_of_mem_drop (mem_of_mem_codons hc x hx)
  simp only [revcomp, List.mem_map] at hmem
  obtain ⟨b, _, rfl⟩ := hmem
  exact complement_lt b

/-- the configured state of the translate branch -/
def trState (s : List Nat) (k : Nat) (force : Bool) (hf : HashFn) (buf : List Nat) (step ki : Nat) : St :=
  { sequence := s, kmerIndex := ki, kSize := k,
    maxIndex := if s.length ≥ k then s.length - k + 1 else 0,
    force := force, isProtein := false, hf := hf, hashesBuffer := buf, dnaConfigured := true,
    dnaRc := revcomp s, dnaKsize := k, dnaLen := s.length, dnaLastPositionCheck := 0,
    protConfigured := false, aaSeq := [], translateIterStep := step }

theorem frameHashes_eq (hash : List Nat → Nat) (s : List Nat) (k : Nat) (force : Bool) (hf : HashFn)
    (hk : 1 ≤ k) (f : Nat) :
    frameHashes hash (trState s k force hf [] 0 0) f =
      if (codons (s.drop f)).all utf8Valid then
        .ok (frameSpec hash hf k s f ++ frameSpec hash hf k (revcomp s) f)
      else .error .panicUtf8 := by
  have hk0 : k ≠ 0 := by omega
  have hrc := codons_revcomp_utf8 s f
  by_cases h : (codons (s.drop f)).all utf8Valid = true
  · simp [frameHashes, trState, toAA_eq, h, hrc, hk0, frameSpec]
  · simp [frameHashes, trState, toAA_eq, h]

theorem fillBuffer_eq (hash : List Nat → Nat) (seq : List Nat) (k : Nat) (force : Bool) (hf : HashFn)
    (hk : 1 ≤ k) :
    fillBuffer hash (trState (upper seq) k force hf [] 0 0) =
      if codonsUtf8 seq then .ok (sixFrames hash hf k seq) else .error .panicUtf8 := by
  unfold fillBuffer
  rw [frameHashes_eq hash (upper seq) k force hf hk 0, frameHashes_eq hash (upper seq) k force hf hk 1,
    frameHashes_eq hash (upper seq) k force hf hk 2]
  unfold codonsUtf8
  simp only [List.all_cons, List.all_nil, Bool.and_true]
  generalize (codons ((upper seq).drop 0)).all utf8Valid = c0
  generalize (codons ((upper seq).drop 1)).all utf8Valid = c1
  generalize (codons ((upper seq).drop 2)).all utf8Valid = c2
  cases c0 <;> cases c1 <;> cases c2 <;> simp [sixFrames, trState]

theorem length_frameSpec (hash : List Nat → Nat) (hf : HashFn) (k : Nat) (strand : List Nat) (f : Nat) :
    (frameSpec hash hf k strand f).length = (strand.length - f) / 3 + 1 - k := by
  simp [frameSpec, length_windows, length_codons]

theorem length_sixFrames (hash : List Nat → Nat) (hf : HashFn) (k : Nat) (seq : List Nat) :
    (sixFrames hash hf k seq).length =
      2 * (((seq.length - 0) / 3 + 1 - k) + ((seq.length - 1) / 3 + 1 - k) + ((seq.length - 2) / 3 + 1 - k)) := by
  have hl : (upper seq).length = seq.length := by simp [upper]
  simp [sixFrames, length_frameSpec, length_revcomp', hl]
  omega
where
  length_revcomp' (w : List Nat) : (revcomp w).length = w.length := by simp [revcomp]

/-- draining the buffer: the remaining hashes, then the iterator is finished -/
theorem collect_drain (hash : List Nat → Nat) (s : List Nat) (k : Nat) (force : Bool) (hf : HashFn)
    (hhf : hf ≠ .dna) (buf : List Nat) (hbuf : buf ≠ []) :
    ∀ (m j ki fuel : Nat), j + m = buf.length → m + 1 ≤ fuel →
      collect hash fuel (trState s k force hf buf j ki) = (buf.drop j, .done) := by
  have hne : buf.isEmpty = false := by cases buf <;> simp at hbuf ⊢
  have hdna : hf.isDna = false := by cases hf <;> simp [HashFn.isDna] at hhf ⊢
  intro m
  induction m with
  | zero =>
    intro j ki fuel hm hfuel
    obtain ⟨f, rfl⟩ : ∃ f, fuel = f + 1 := ⟨fuel - 1, by omega⟩
    have hj : j = buf.length := by omega
    subst hj
    rw [List.drop_eq_nil_of_le (Nat.le_refl _)]
    simp [collect, next, trState, nextTranslate, hne, hdna]
  | succ m ih =>
    intro j ki fuel hm hfuel
    obtain ⟨f, rfl⟩ : ∃ f, fuel = f + 1 := ⟨fuel - 1, by omega⟩
    have hjlt : j < buf.length := by omega
    have hjne : ¬ (j = buf.length) := by omega
    have hget : buf[j]? = some buf[j] := List.getElem?_eq_getElem hjlt
    have hstep : next hash (trState s k force hf buf j ki) =
        some (.ok buf[j], trState s k force hf buf (j + 1) ki) := by
      simp [next, trState, nextTranslate, hne, hdna, hjne, hget]
    rw [List.drop_eq_getElem_cons hjlt]
    simp only [collect, hstep]
    rw [ih (j + 1) ki f (by omega) (by omega)]

theorem next_new_translate (hash : List Nat → Nat) (seq : List Nat) (K : Nat) (force : Bool) (hf : HashFn)
    (hhf : hf ≠ .dna) (h : 3 * (K / 3) ≤ seq.length) :
    next hash (new seq K force false hf) = nextTranslate hash (trState (upper seq) (K / 3) force hf [] 0 0) := by
  have hl : (upper seq).length = seq.length := by simp [upper]
  have hdna : hf.isDna = false := by cases hf <;> simp [HashFn.isDna] at hhf ⊢
  have h1 : K / 3 ≤ seq.length := by omega
  have h2 : ¬ seq.length < K / 3 := by omega
  have h3 : ¬ seq.length < K / 3 * 3 := by omega
  simp [next, new, trState, hdna, hl, h1, h2, h3]

theorem next_new_translate_short (hash : List Nat → Nat) (seq : List Nat) (K : Nat) (force : Bool)
    (hf : HashFn) (hhf : hf ≠ .dna) (h : seq.length < 3 * (K / 3)) :
    next hash (new seq K force false hf) = none := by
  have hl : (upper seq).length = seq.length := by simp [upper]
  have hdna : hf.isDna = false := by cases hf <;> simp [HashFn.isDna] at hhf ⊢
  by_cases h1 : K / 3 ≤ seq.length
  · have h3 : seq.length < K / 3 * 3 := by omega
    simp [next, new, hdna, hl, h1, h3]
  · simp [next, new, hdna, h1]

theorem collect_succ_ok {hash : List Nat → Nat} {f : Nat} {st st' : St} {h : Nat}
    (hn : next hash st = some (.ok h, st')) :
    collect hash (f + 1) st = (h :: (collect hash f st').1, (collect hash f st').2) := by
  simp [collect, hn]

theorem collect_succ_err {hash : List Nat → Nat} {f : Nat} {st st' : St} {e : Err}
    (hn : next hash st = some (.error e, st')) : collect hash (f + 1) st = ([], .err e) := by
  simp [collect, hn]

theorem iterate_translate_eq_spec (hash : List Nat → Nat) (seq : List Nat) (K : Nat) (force : Bool)
    (hf : HashFn) (hhf : hf ≠ .dna) (hk : 1 ≤ K / 3) :
    iterate hash seq K force false hf = translateSpec hash hf seq (K / 3) := by
  unfold iterate translateSpec fuelFor
  by_cases h : seq.length < 3 * (K / 3)
  · simp [collect, next_new_translate_short hash seq K force hf hhf h, h]
  · have h' : 3 * (K / 3) ≤ seq.length := by omega
    rw [if_neg h]
    rw [show 2 * seq.length + 4 = (2 * seq.length + 3) + 1 by omega]
    have hfill := fillBuffer_eq hash seq (K / 3) force hf hk
    have hnext := next_new_translate hash seq K force hf hhf h'
    by_cases hu : codonsUtf8 seq = true
    · rw [hu] at hfill
      have hlen := length_sixFrames hash hf (K / 3) seq
      have hbuf : sixFrames hash hf (K / 3) seq ≠ [] := by
        intro he; rw [he] at hlen; simp at hlen; omega
      have hpos : 0 < (sixFrames hash hf (K / 3) seq).length := by
        cases hs : sixFrames hash hf (K / 3) seq with
        | nil => exact absurd hs hbuf
        | cons _ _ => simp
      have hd := collect_drain hash (upper seq) (K / 3) force hf hhf _ hbuf
        ((sixFrames hash hf (K / 3) seq).length - 1) 1 0 (2 * seq.length + 3) (by omega) (by omega)
      have hget : (sixFrames hash hf (K / 3) seq)[0]? = some (sixFrames hash hf (K / 3) seq)[0] :=
        List.getElem?_eq_getElem hpos
      have hn : next hash (new seq K force false hf) =
          some (.ok (sixFrames hash hf (K / 3) seq)[0],
                trState (upper seq) (K / 3) force hf (sixFrames hash hf (K / 3) seq) 1 0) := by
        rw [hnext]
        generalize hst : trState (upper seq) (K / 3) force hf [] 0 0 = st at hfill ⊢
        have hb : st.hashesBuffer = [] := by rw [← hst]; rfl
        have hs : st.translateIterStep = 0 := by rw [← hst]; rfl
        have hne0 : ¬ (0 = (sixFrames hash hf (K / 3) seq).length) := by omega
        simp only [nextTranslate, hb, hs, hfill]
        simp [hne0, hget, ← hst, trState]
      rw [collect_succ_ok hn, hd]
      simp only [hu, Bool.not_true, Bool.false_eq_true, if_false]
      rw [← List.drop_eq_getElem_cons hpos]
      simp
    · have hu' : codonsUtf8 seq = false := by simpa using hu
      rw [hu'] at hfill
      have hn : next hash (new seq K force false hf) =
          some (.error .panicUtf8, trState (upper seq) (K / 3) force hf [] 0 0) := by
        rw [hnext]
        generalize hst : trState (upper seq) (K / 3) force hf [] 0 0 = st at hfill ⊢
        have hb : st.hashesBuffer = [] := by rw [← hst]; rfl
        have hs : st.translateIterStep = 0 := by rw [← hst]; rfl
        simp only [nextTranslate, hb, hs, hfill]
        simp
      rw [collect_succ_err hn]
      simp [hu']

end Sm.Seq
