/-
On-demand mode (`Index.peek` = `best_containment` every round) on list sketches.
-/
import SmVerif.Lemmas.GatherMixed
import SmVerif.Lemmas.GatherReach

set_option autoImplicit false

namespace Sm.Gather

open Sm

theorem ge_refl (x : F64.F) : F64.ge x x = true := by rw [F64.ge_iff]

theorem passes_mono {x t t' : F64.F} (h : passes x t' = true) (ht : F64.ge t' t = true) : passes x t = true := by
  unfold passes at *
  simp only [Bool.and_eq_true, decide_eq_true_eq] at *
  exact ⟨h.1, F64.ge_trans h.2 ht⟩

/-- `find` with the best-only threshold raising: every row passes the initial threshold, and every sketch
that passes it is dominated by some row -/
theorem findLoop_true_ls {pq : LS} (hp : pq.WF) :
    ∀ (db : List (Sig LS)) (thr : F64.F) (l : List (F64.F × Sig LS)), (∀ d ∈ db, d.mh.WF) →
      findLoop lsOps pq true db thr = .ok l →
      (∀ p ∈ l, p.2 ∈ db ∧ p.1 = findScore pq p.2.mh ∧ passes p.1 thr = true) ∧
      (∀ d ∈ db, passes (findScore pq d.mh) thr = true → ∃ p ∈ l, F64.ge p.1 (findScore pq d.mh) = true) := by
  intro db
  induction db with
  | nil =>
    intro thr l _ h
    simp only [findLoop, Except.ok.injEq] at h
    subst h
    exact ⟨fun p hp => (nomatch hp), fun d hd => (nomatch hd)⟩
  | cons d rest ih =>
    intro thr l hall h
    unfold findLoop at h
    rw [findOne_ls hp (hall d List.mem_cons_self)] at h
    simp only [if_true] at h
    by_cases hpass : passes (findScore pq d.mh) thr = true
    · rw [if_pos hpass] at h
      cases hr : findLoop lsOps pq true rest
          (if F64.ge thr (findScore pq d.mh) = true then thr else findScore pq d.mh) with
      | error e => rw [hr] at h; cases h
      | ok l' =>
        rw [hr] at h
        simp only [Except.ok.injEq] at h
        subst h
        obtain ⟨i1, i2⟩ := ih _ l' (fun x hx => hall x (List.mem_cons_of_mem _ hx)) hr
        have hthr' : F64.ge (if F64.ge thr (findScore pq d.mh) = true then thr else findScore pq d.mh) thr = true := by
          split
          · exact ge_refl _
          · rename_i hng
            rcases F64.ge_total thr (findScore pq d.mh) with h1 | h1
            · exact absurd h1 hng
            · exact h1
        constructor
        · intro p hp
          rcases List.mem_cons.1 hp with rfl | hp
          · exact ⟨List.mem_cons_self, rfl, hpass⟩
          · obtain ⟨a, b, c⟩ := i1 p hp
            exact ⟨List.mem_cons_of_mem _ a, b, passes_mono c hthr'⟩
        · intro d' hd' hp'
          rcases List.mem_cons.1 hd' with rfl | hd'
          · exact ⟨_, List.mem_cons_self, ge_refl _⟩
          · by_cases hp2 : passes (findScore pq d'.mh)
                (if F64.ge thr (findScore pq d.mh) = true then thr else findScore pq d.mh) = true
            · obtain ⟨p, hp, hge⟩ := i2 d' hd' hp2
              exact ⟨p, List.mem_cons_of_mem _ hp, hge⟩
            · refine ⟨_, List.mem_cons_self, ?_⟩
              -- d' passes thr but not the raised threshold, which therefore is d's score
              by_cases hg : F64.ge thr (findScore pq d.mh) = true
              · rw [if_pos hg] at hp2; exact absurd hp' hp2
              · rw [if_neg hg] at hp2
                unfold passes at hp' hp2
                simp only [Bool.and_eq_true, decide_eq_true_eq, not_and] at hp' hp2
                have := hp2 hp'.1
                rcases F64.ge_total (findScore pq d.mh) (findScore pq d'.mh) with h1 | h1
                · exact h1
                · exact absurd h1 this
    · rw [if_neg hpass] at h
      obtain ⟨i1, i2⟩ := ih thr l (fun x hx => hall x (List.mem_cons_of_mem _ hx)) h
      constructor
      · intro p hp
        obtain ⟨a, b, c⟩ := i1 p hp
        exact ⟨List.mem_cons_of_mem _ a, b, c⟩
      · intro d' hd' hp'
        rcases List.mem_cons.1 hd' with rfl | hd'
        · exact absurd hp' hpass
        · exact i2 d' hd' hp'

/-- `sorted(..., key=(-score, md5))[0]` has the largest score -/
theorem bestOf_max {α : Type} : ∀ {l : List (F64.F × Sig α)} {x : F64.F × Sig α}, bestOf l = some x →
    ∀ y ∈ l, F64.ge x.1 y.1 = true := by
  intro l
  induction l with
  | nil => intro x h; simp [bestOf] at h
  | cons y ys ih =>
    intro x h z hz
    simp only [bestOf] at h
    cases hb : bestOf ys with
    | none =>
      rw [hb] at h
      simp only [Option.some.injEq] at h
      subst h
      have : ys = [] := by
        cases ys with
        | nil => rfl
        | cons a as =>
          simp only [bestOf] at hb
          cases h2 : bestOf as with
          | none => rw [h2] at hb; cases hb
          | some w => rw [h2] at hb; simp only [] at hb; split at hb <;> cases hb
      subst this
      simp only [List.mem_singleton] at hz
      subst hz
      exact ge_refl _
    | some w =>
      rw [hb] at h
      simp only [] at h
      have hw := ih hb
      split at h
      · rename_i hc
        simp only [Option.some.injEq] at h
        subst h
        rcases List.mem_cons.1 hz with rfl | hz
        · simp only [Bool.or_eq_true, Bool.and_eq_true] at hc
          rcases hc with ⟨h1, _⟩ | ⟨h1, _⟩
          · exact h1
          · unfold F64.eq at h1
            simp only [Bool.and_eq_true] at h1
            exact h1.1
        · exact hw z hz
      · rename_i hc
        simp only [Option.some.injEq] at h
        subst h
        have hyw : F64.ge y.1 w.1 = true := by
          rcases F64.ge_total y.1 w.1 with h1 | h1
          · exact h1
          · by_cases h2 : F64.ge y.1 w.1 = true
            · exact h2
            · exfalso
              apply hc
              simp only [Bool.or_eq_true, Bool.and_eq_true, Bool.not_eq_true']
              left
              exact ⟨h1, by simpa using h2⟩
        rcases List.mem_cons.1 hz with rfl | hz
        · exact ge_refl _
        · exact F64.ge_trans hyw (hw z hz)

/-- the part of the run invariant that does not concern the counters -/
structure GBasic (sq sd : Nat) (g : GD LS) : Prop where
  orig_sorted : Sorted g.origSigMh.hs
  q_wf : g.query.WF
  q_flat : g.query.ab = none
  q_scaled : g.query.scaled = g.cmpScaled
  cmp : g.cmpScaled = sq ∨ g.cmpScaled = max sq sd
  size : g.query.hs.length < 2 ^ 53

variable {σ : Type} {ops : ScoreOps σ}

/-- the second half of `__next__` (after `_find_best` returned `best`), for any kind of counters -/
theorem report_round {sq sd : Nat} {g g' : GD LS} {best : Sig LS} {r : Option (GRes σ)} {Q0 NI0 : List Nat}
    {cs : List (CObj LS)} (hb : GBasic sq sd g) (ha : AInv sq sd Q0 NI0 g)
    (hbwf : best.mh.WF) (hbsd : best.mh.scaled = sd)
    (h : GD.report lsOps ops { g with counters := cs } best = .ok (g', r)) :
    ∃ res, r = some res ∧ res.name = best.name ∧ res.md5 = best.md5 ∧
      res.isectCur = (g.unassigned sq sd).filter (inL (dn (max sq sd) best.mh.hs)) ∧ res.isectCur ≠ [] ∧
      g'.unassigned sq sd = diffL (g.unassigned sq sd) (dn (max sq sd) best.mh.hs) ∧
      g'.counters = cs ∧ g'.resultN = g.resultN + 1 ∧ g'.thresholdBp = g.thresholdBp ∧
      g'.origSigMh = g.origSigMh ∧ g'.origQueryAbunds = g.origQueryAbunds ∧
      g'.trackAbundance = g.trackAbundance ∧ GBasic sq sd g' ∧ AInv sq sd Q0 NI0 g' ∧
      g'.query.hs.length ≤ g.query.hs.length ∧
      ColsOK ops res best (max sq sd) (max sq sd) g.origSigMh.hs g.query.hs g.origQueryAbunds
        g.trackAbundance g.resultN
        (wsum g.origQueryAbunds (dn (max sq sd) Q0) + wsum g.origQueryAbunds (dn (max sq sd) NI0)
          - (wsum g.origQueryAbunds (diffL (g.unassigned sq sd) (dn (max sq sd) best.mh.hs))
              + wsum g.origQueryAbunds (dn (max sq sd) NI0)))
        ((dn (max sq sd) Q0).length + (dn (max sq sd) NI0).length) ((dn (max sq sd) NI0).length * max sq sd)
        (wsum g.origQueryAbunds (dn (max sq sd) Q0) + wsum g.origQueryAbunds (dn (max sq sd) NI0))
        g.origSigMh.scaled := by
  have hQs : Sorted (g.unassigned sq sd) := sorted_dn hb.q_wf.sorted _
  obtain ⟨_, g1, res, hu, hq1, hb1, hg', hr, hbuild⟩ := report_ls h
  subst hr
  obtain ⟨u1, u2, u3, u4, u5, u6, u7, u8, _, _⟩ := updateScaled_ls hu
  simp only [] at u1 u2 u3 u4 u5 u6 u7 u8 hq1
  have hcs : g1.cmpScaled = max sq sd := by
    rw [u1, hbsd]
    rcases hb.cmp with h1 | h1 <;> rw [h1] <;> omega
  have hq1s : Sorted g1.query.hs := by rw [u2]; exact hb.q_wf.sorted
  have hs2 : max g1.query.scaled best.mh.scaled = max sq sd := by
    rw [u2]
    show max g.query.scaled best.mh.scaled = _
    rw [hb.q_scaled, hbsd]
    rcases hb.cmp with h1 | h1 <;> rw [h1] <;> omega
  have hbr := buildResult_ls (by rw [u4]; exact hb.orig_sorted) hbwf.sorted hq1s hbuild
  rw [hs2, hcs] at hbr
  have ha0 : AInv sq sd Q0 NI0 { g with counters := cs } :=
    ⟨ha.bounds, ha.oq_hs, ha.oq_sc, ha.ni_hs, ha.ni_sc, ha.nsum, ha.tot⟩
  rw [hbsd] at hu
  obtain ⟨ha1, _⟩ := ha0.updateScaled hb.cmp hu
  have hQ' : g.unassigned sq sd = dn (max sq sd) g.query.hs := rfl
  have hcols : ColsOK ops res best (max sq sd) (max sq sd) g.origSigMh.hs g.query.hs g.origQueryAbunds
      g.trackAbundance g.resultN
      (wsum g.origQueryAbunds (dn (max sq sd) Q0) + wsum g.origQueryAbunds (dn (max sq sd) NI0)
        - (wsum g.origQueryAbunds (diffL (g.unassigned sq sd) (dn (max sq sd) best.mh.hs))
            + wsum g.origQueryAbunds (dn (max sq sd) NI0)))
      ((dn (max sq sd) Q0).length + (dn (max sq sd) NI0).length) ((dn (max sq sd) NI0).length * max sq sd)
      (wsum g.origQueryAbunds (dn (max sq sd) Q0) + wsum g.origQueryAbunds (dn (max sq sd) NI0))
      g.origSigMh.scaled := by
    have e1 := ha1.oq_hs
    have e2 := ha1.ni_hs
    have e3 := ha1.ni_sc
    have e4 := ha1.nsum
    have e5 := ha1.tot
    rw [hcs] at e1 e2 e3 e4 e5
    rw [e4] at e5
    rw [e1, e2, e3, e4, e5, u2, u4, u6, u7, u8] at hbr
    exact hbr
  have hbr' := hbr
  unfold ColsOK at hbr'
  simp only [] at hbr'
  obtain ⟨r1, r2, _, _, _, r6, _, _, _, _, _, _, _, _, _, _, _, _, _, _, _, _, _, r24, _, _⟩ := hbr'
  have hq1hs : g1.query.hs = g.query.hs := by rw [u2]
  rw [hq1hs] at r6 r24
  rw [← r6] at r24
  have hg'q : g'.query.hs = diffL (g.unassigned sq sd) (dn (max sq sd) best.mh.hs) := by
    rw [hg']
    show (LS.removeFrom (g1.query.dsv g1.cmpScaled) (best.mh.dsv g1.cmpScaled).flat).hs = _
    rw [LS.removeFrom_hs, hcs]
    show diffL (dn (max sq sd) g1.query.hs) (dn (max sq sd) best.mh.hs) = _
    rw [hq1hs]; rfl
  have hun : g'.unassigned sq sd = diffL (g.unassigned sq sd) (dn (max sq sd) best.mh.hs) := by
    unfold GD.unassigned
    rw [hg'q]
    exact dn_diffL _ _ _
  have hg'cs : g'.cmpScaled = max sq sd := by rw [hg']; exact hcs
  obtain ⟨b1, b2, b3, b4⟩ := ha.bounds
  refine ⟨res, rfl, r1, r2, r6, r24, hun, ?_, ?_, ?_, ?_, ?_, ?_, ?_, ?_, ?_, hcols⟩
  · rw [hg']; exact u3
  · rw [hg']; show g1.resultN + 1 = _; rw [u6]
  · rw [hg']; exact u5
  · rw [hg']; exact u4
  · rw [hg']; exact u7
  · rw [hg']; exact u8
  · refine ⟨?_, ⟨?_, ?_, ?_, ?_, ?_⟩, ?_, ?_, Or.inr hg'cs, ?_⟩
    · rw [hg']; show Sorted g1.origSigMh.hs; rw [u4]; exact hb.orig_sorted
    · rw [hg']; show 1 ≤ g1.cmpScaled; rw [hcs]; omega
    · rw [hg']; show g1.cmpScaled ≤ 2 ^ 31; rw [hcs]; omega
    · rw [hg'q]; exact sorted_diffL hQs _
    · intro x hx
      rw [hg'q] at hx
      have hx1 := (mem_diffL.1 hx).1
      have : g'.query.scaled = max sq sd := by rw [hg']; exact hcs
      rw [this]
      exact (mem_dn.1 hx1).2
    · intro ab hab
      have : g'.query.ab = none := by
        rw [hg']
        show (LS.removeFrom (g1.query.dsv g1.cmpScaled) (best.mh.dsv g1.cmpScaled).flat).ab = none
        have : g1.query.ab = none := by rw [u2]; exact hb.q_flat
        simp [LS.removeFrom, LS.filterH, LS.dsv, this]
      rw [this] at hab; cases hab
    · rw [hg']
      show (LS.removeFrom (g1.query.dsv g1.cmpScaled) (best.mh.dsv g1.cmpScaled).flat).ab = none
      have : g1.query.ab = none := by rw [u2]; exact hb.q_flat
      simp [LS.removeFrom, LS.filterH, LS.dsv, this]
    · rw [hg']; rfl
    · rw [hg'q]
      exact Nat.lt_of_le_of_lt (List.length_filter_le _ _)
        (Nat.lt_of_le_of_lt (List.length_filter_le _ _) hb.size)
  · rw [hg']
    exact ⟨ha1.bounds, ha1.oq_hs, ha1.oq_sc, ha1.ni_hs, ha1.ni_sc, ha1.nsum, ha1.tot⟩
  · rw [hg'q]
    exact Nat.le_trans (List.length_filter_le _ _) (List.length_filter_le _ _)

/-- the comparison law the on-demand mode needs from scores that are plain doubles -/
structure IdxLaws {σ : Type} (ops : ScoreOps σ) : Prop where
  gt_ofF : ∀ x y : F64.F, ops.gt (ops.ofF x) (ops.ofF y) = (F64.ge x y && !F64.ge y x)

/-- a collection none of whose sketches passes the containment threshold `t` -/
def NonePass (cur : LS) (t : F64.F) (db : List (Sig LS)) : Prop :=
  ∀ d ∈ db, passes (findScore cur d.mh) t = false

/-- a result of `Index.peek` / `_find_best` in on-demand mode that is correct w.r.t. the sketches `pool` -/
def GoodI (ops : ScoreOps σ) (cur : LS) (t : F64.F) (pool : List (Sig LS)) (x : σ × Sig LS × LS) : Prop :=
  x.2.1 ∈ pool ∧ x.1 = ops.ofF (findScore cur x.2.1.mh) ∧ passes (findScore cur x.2.1.mh) t = true ∧
  ∀ d ∈ pool, passes (findScore cur d.mh) t = true →
    F64.ge (findScore cur x.2.1.mh) (findScore cur d.mh) = true

/-- `Index.peek` on a collection of well-formed sketches, threshold attainable -/
theorem idxPeek_ls {cur : LS} (hc : cur.WF) (hflat : cur.ab = none) (hne : cur.hs ≠ []) {thr : Nat}
    {t nT : F64.F} (hthr : calcThreshold thr cur.scaled cur.hs.length = .ok (t, nT))
    {db : List (Sig LS)} (hdb : ∀ d ∈ db, d.mh.WF) {r : Option (σ × Sig LS × LS)}
    (h : idxPeek lsOps ops db cur thr = .ok r) :
    match r with
    | none => NonePass cur t db
    | some x => GoodI ops cur t db x := by
  unfold idxPeek bestContainment at h
  by_cases hde : db = []
  · subst hde
    simp only [prefetch, List.isEmpty_nil, if_true] at h
    cases h
    intro d hd; cases hd
  · have hp : prefetch lsOps db cur thr true = findLoop lsOps cur true db t := by
      unfold prefetch
      have e1 : lsOps.scaled cur = cur.scaled := rfl
      have e2 : len lsOps cur = cur.hs.length := rfl
      have h1 := hc.lo
      rw [if_neg (by simpa using hde),
        if_neg (by rw [e2]; intro h0; exact hne (List.eq_nil_of_length_eq_zero h0)),
        if_neg (by rw [e1]; omega), e1, e2, hthr]
      simp only []
      rw [if_neg (by simp [lsOps_track, hflat])]
    rw [hp] at h
    cases hl : findLoop lsOps cur true db t with
    | error e =>
      rw [hl] at h
      cases e <;> simp at h
      all_goals (subst h; exact absurd hl (by
        intro hcon
        -- `find` cannot fail on well-formed list sketches
        have : ∀ (db : List (Sig LS)) (thr : F64.F), (∀ d ∈ db, d.mh.WF) →
            ∃ l, findLoop lsOps cur true db thr = .ok l := by
          intro db
          induction db with
          | nil => intro _ _; exact ⟨[], rfl⟩
          | cons d rest ih =>
            intro thr hall
            unfold findLoop
            rw [findOne_ls hc (hall d List.mem_cons_self)]
            simp only [if_true]
            split
            · obtain ⟨l', hl'⟩ := ih _ (fun x hx => hall x (List.mem_cons_of_mem _ hx))
              rw [hl']; exact ⟨_, rfl⟩
            · exact ih _ (fun x hx => hall x (List.mem_cons_of_mem _ hx))
        obtain ⟨l, hl2⟩ := this db t hdb
        rw [hl2] at hcon; cases hcon))
    | ok l =>
      rw [hl] at h
      simp only [] at h
      obtain ⟨f1, f2⟩ := findLoop_true_ls hc db t l hdb hl
      cases hb : bestOf l with
      | none =>
        rw [hb] at h
        simp only [Except.ok.injEq] at h
        subst h
        intro d hd
        by_cases hp2 : passes (findScore cur d.mh) t = true
        · obtain ⟨p, hpm, _⟩ := f2 d hd hp2
          have : l = [] := by
            cases l with
            | nil => rfl
            | cons a as =>
              simp only [bestOf] at hb
              cases h2 : bestOf as with
              | none => rw [h2] at hb; cases hb
              | some w => rw [h2] at hb; simp only [] at hb; split at hb <;> cases hb
          rw [this] at hpm; cases hpm
        · simpa using hp2
      | some bx =>
        rw [hb] at h
        obtain ⟨score, best⟩ := bx
        simp only [] at h
        split at h
        · cases h
        · simp only [Except.ok.injEq] at h
          subst h
          have hm := bestOf_mem hb
          obtain ⟨a1, a2, a3⟩ := f1 _ hm
          simp only [] at a1 a2 a3
          refine ⟨a1, by rw [a2], by rw [← a2]; exact a3, ?_⟩
          intro d hd hpd
          obtain ⟨p, hpm, hge⟩ := f2 d hd hpd
          have := bestOf_max hb p hpm
          simp only [] at this
          rw [← a2]
          exact F64.ge_trans this hge

/-- accumulator of the first loop of `_find_best` over on-demand collections -/
def AccI (ops : ScoreOps σ) (cur : LS) (t : F64.F) (seen : List (List (Sig LS))) :
    Option (σ × Sig LS × LS) → Prop
  | none => ∀ db ∈ seen, NonePass cur t db
  | some x => GoodI ops cur t seen.flatten x

theorem GoodI.extend_none {cur : LS} {t : F64.F} {pool db : List (Sig LS)} {x : σ × Sig LS × LS}
    (hx : GoodI ops cur t pool x) (hn : NonePass cur t db) : GoodI ops cur t (pool ++ db) x := by
  obtain ⟨x1, x2, x3, x4⟩ := hx
  refine ⟨List.mem_append_left _ x1, x2, x3, ?_⟩
  intro d hd hp
  rcases List.mem_append.1 hd with hd | hd
  · exact x4 d hd hp
  · rw [hn d hd] at hp; cases hp

theorem GoodI.of_none_seen {cur : LS} {t : F64.F} {seen : List (List (Sig LS))} {db : List (Sig LS)}
    {x : σ × Sig LS × LS} (hx : GoodI ops cur t db x) (hn : ∀ s ∈ seen, NonePass cur t s) :
    GoodI ops cur t (seen.flatten ++ db) x := by
  obtain ⟨x1, x2, x3, x4⟩ := hx
  refine ⟨List.mem_append_right _ x1, x2, x3, ?_⟩
  intro d hd hp
  rcases List.mem_append.1 hd with hd | hd
  · obtain ⟨s, hs, hds⟩ := List.mem_flatten.1 hd
    rw [hn s hs d hds] at hp; cases hp
  · exact x4 d hd hp

theorem peekAll_idx (laws : IdxLaws ops) {cur : LS} (hc : cur.WF) (hflat : cur.ab = none) (hne : cur.hs ≠ [])
    {thr : Nat} {t nT : F64.F} (hthr : calcThreshold thr cur.scaled cur.hs.length = .ok (t, nT)) :
    ∀ (dbs seen : List (List (Sig LS))) (acc : Option (σ × Sig LS × LS)) {objs' : List (CObj LS)}
      {best : Option (σ × Sig LS × LS)},
      (∀ db ∈ dbs, ∀ d ∈ db, d.mh.WF) → AccI ops cur t seen acc →
      peekAll lsOps ops cur thr (dbs.map CObj.idx) acc = .ok (objs', best) →
      objs' = dbs.map CObj.idx ∧ AccI ops cur t (seen ++ dbs) best := by
  intro dbs
  induction dbs with
  | nil =>
    intro seen acc objs' best _ hacc h
    simp only [List.map_nil, peekAll, Except.ok.injEq, Prod.mk.injEq] at h
    obtain ⟨rfl, rfl⟩ := h
    exact ⟨rfl, by simpa using hacc⟩
  | cons db rest ih =>
    intro seen acc objs' best hwf hacc h
    simp only [List.map_cons, peekAll, CObj.peek] at h
    cases hp : idxPeek lsOps ops db cur thr with
    | error e => rw [hp] at h; cases h
    | ok r =>
      rw [hp] at h
      simp only [] at h
      have hspec := idxPeek_ls hc hflat hne hthr (hwf db List.mem_cons_self) hp
      cases hr : peekAll lsOps ops cur thr (rest.map CObj.idx) (better ops r acc) with
      | error e => rw [hr] at h; cases h
      | ok rr =>
        obtain ⟨rest', b⟩ := rr
        rw [hr] at h
        simp only [Except.ok.injEq, Prod.mk.injEq] at h
        obtain ⟨rfl, rfl⟩ := h
        have hacc' : AccI ops cur t (seen ++ [db]) (better ops r acc) := by
          cases r with
          | none =>
            simp only [] at hspec
            cases acc with
            | none =>
              simp only [better, AccI] at hacc ⊢
              intro s hs
              rcases List.mem_append.1 hs with hs | hs
              · exact hacc s hs
              · simp only [List.mem_singleton] at hs; subst hs; exact hspec
            | some a =>
              simp only [better, AccI] at hacc ⊢
              rw [List.flatten_append]
              simp only [List.flatten_cons, List.flatten_nil, List.append_nil]
              exact hacc.extend_none hspec
          | some x =>
            simp only [] at hspec
            cases acc with
            | none =>
              simp only [better, AccI] at hacc ⊢
              rw [List.flatten_append]
              simp only [List.flatten_cons, List.flatten_nil, List.append_nil]
              exact hspec.of_none_seen hacc
            | some a =>
              simp only [better, AccI] at hacc ⊢
              rw [List.flatten_append]
              simp only [List.flatten_cons, List.flatten_nil, List.append_nil]
              obtain ⟨x1, x2, x3, x4⟩ := hspec
              obtain ⟨a1, a2, a3, a4⟩ := hacc
              have hgt := laws.gt_ofF (findScore cur x.2.1.mh) (findScore cur a.2.1.mh)
              rw [← x2, ← a2] at hgt
              by_cases hg : ops.gt x.1 a.1 = true
              · rw [if_pos hg]
                rw [hg] at hgt
                have hge : F64.ge (findScore cur x.2.1.mh) (findScore cur a.2.1.mh) = true := by
                  have := hgt.symm
                  simp only [Bool.and_eq_true] at this
                  exact this.1
                refine ⟨List.mem_append_right _ x1, x2, x3, ?_⟩
                intro d hd hp
                rcases List.mem_append.1 hd with hd | hd
                · exact F64.ge_trans hge (a4 d hd hp)
                · exact x4 d hd hp
              · rw [if_neg hg]
                have hge : F64.ge (findScore cur a.2.1.mh) (findScore cur x.2.1.mh) = true := by
                  rcases F64.ge_total (findScore cur a.2.1.mh) (findScore cur x.2.1.mh) with h1 | h1
                  · exact h1
                  · by_cases h2 : F64.ge (findScore cur a.2.1.mh) (findScore cur x.2.1.mh) = true
                    · exact h2
                    · exfalso
                      apply hg
                      rw [hgt, h1]
                      simpa using h2
                refine ⟨List.mem_append_left _ a1, a2, a3, ?_⟩
                intro d hd hp
                rcases List.mem_append.1 hd with hd | hd
                · exact a4 d hd hp
                · exact F64.ge_trans hge (x4 d hd hp)
        obtain ⟨i1, i2⟩ := ih (seen ++ [db]) (better ops r acc) (fun s hs => hwf s (List.mem_cons_of_mem _ hs)) hacc' hr
        refine ⟨by rw [i1]; rfl, ?_⟩
        simpa [List.append_assoc] using i2

theorem consumeAll_idx {inter : LS} : ∀ (dbs : List (List (Sig LS))),
    consumeAll lsOps inter (dbs.map CObj.idx) = .ok (dbs.map CObj.idx) := by
  intro dbs
  induction dbs with
  | nil => rfl
  | cons db rest ih => simp only [List.map_cons, consumeAll, CObj.consume, ih]

/-- `_find_best` over on-demand collections -/
theorem findBest_idx (laws : IdxLaws ops) {cur : LS} (hc : cur.WF) (hflat : cur.ab = none) (hne : cur.hs ≠ [])
    {thr : Nat} {t nT : F64.F} (hthr : calcThreshold thr cur.scaled cur.hs.length = .ok (t, nT))
    {dbs : List (List (Sig LS))} (hwf : ∀ db ∈ dbs, ∀ d ∈ db, d.mh.WF)
    {objs' : List (CObj LS)} {r : Option (σ × Sig LS × LS)}
    (h : findBest lsOps ops (dbs.map CObj.idx) cur thr = .ok (objs', r)) :
    objs' = dbs.map CObj.idx ∧
    match r with
    | none => ∀ db ∈ dbs, NonePass cur t db
    | some x => GoodI ops cur t dbs.flatten x := by
  unfold findBest at h
  cases hp : peekAll lsOps ops cur thr (dbs.map CObj.idx) none with
  | error e => rw [hp] at h; cases h
  | ok pr =>
    obtain ⟨cs, b⟩ := pr
    rw [hp] at h
    have hacc0 : AccI ops cur t [] (none : Option (σ × Sig LS × LS)) := by intro db hdb; cases hdb
    obtain ⟨e1, hacc⟩ := peekAll_idx laws hc hflat hne hthr dbs [] none hwf hacc0 hp
    simp only [List.nil_append] at hacc
    subst e1
    cases b with
    | none =>
      simp only [Except.ok.injEq, Prod.mk.injEq] at h
      obtain ⟨rfl, rfl⟩ := h
      exact ⟨rfl, hacc⟩
    | some x =>
      obtain ⟨sc, sg, inter⟩ := x
      simp only [] at h
      rw [consumeAll_idx] at h
      simp only [Except.ok.injEq, Prod.mk.injEq] at h
      obtain ⟨rfl, rfl⟩ := h
      exact ⟨rfl, hacc⟩

/-- invariant of an on-demand run: the counters are the collections themselves -/
structure GInvI (sq sd : Nat) (dbs : List (List (Sig LS))) (g : GD LS) : Prop where
  basic : GBasic sq sd g
  counters : g.counters = dbs.map CObj.idx
  db_ok : ∀ db ∈ dbs, ∀ d ∈ db, d.mh.WF ∧ d.mh.scaled = sd

/-- one call of `__next__` in on-demand mode (threshold attainable for the current query) -/
theorem next_idx (laws : IdxLaws ops) {sq sd : Nat} {dbs : List (List (Sig LS))} {g g' : GD LS}
    {r : Option (GRes σ)} {Q0 NI0 : List Nat} (hinv : GInvI sq sd dbs g) (ha : AInv sq sd Q0 NI0 g)
    {t nT : F64.F} (hthr : calcThreshold g.thresholdBp g.query.scaled g.query.hs.length = .ok (t, nT))
    (h : g.next lsOps ops = .ok (g', r)) :
    match r with
    | none => g'.query = g.query ∧ g'.resultN = g.resultN ∧ g'.thresholdBp = g.thresholdBp ∧
        g'.origSigMh = g.origSigMh ∧ g'.origQueryAbunds = g.origQueryAbunds ∧
        g'.trackAbundance = g.trackAbundance ∧ GInvI sq sd dbs g' ∧ AInv sq sd Q0 NI0 g' ∧
        (g.query.hs = [] ∨ ∀ db ∈ dbs, NonePass g.query t db)
    | some res => ∃ best ∈ dbs.flatten,
        passes (findScore g.query best.mh) t = true ∧
        (∀ d ∈ dbs.flatten, passes (findScore g.query d.mh) t = true →
          F64.ge (findScore g.query best.mh) (findScore g.query d.mh) = true) ∧
        res.name = best.name ∧ res.md5 = best.md5 ∧
        res.isectCur = (g.unassigned sq sd).filter (inL (dn (max sq sd) best.mh.hs)) ∧ res.isectCur ≠ [] ∧
        g'.unassigned sq sd = diffL (g.unassigned sq sd) (dn (max sq sd) best.mh.hs) ∧
        g'.resultN = g.resultN + 1 ∧ g'.thresholdBp = g.thresholdBp ∧
        g'.origSigMh = g.origSigMh ∧ g'.origQueryAbunds = g.origQueryAbunds ∧
        g'.trackAbundance = g.trackAbundance ∧ GInvI sq sd dbs g' ∧ AInv sq sd Q0 NI0 g' ∧
        g'.query.hs.length ≤ g.query.hs.length ∧
        ColsOK ops res best (max sq sd) (max sq sd) g.origSigMh.hs g.query.hs g.origQueryAbunds
          g.trackAbundance g.resultN
          (wsum g.origQueryAbunds (dn (max sq sd) Q0) + wsum g.origQueryAbunds (dn (max sq sd) NI0)
            - (wsum g.origQueryAbunds (diffL (g.unassigned sq sd) (dn (max sq sd) best.mh.hs))
                + wsum g.origQueryAbunds (dn (max sq sd) NI0)))
          ((dn (max sq sd) Q0).length + (dn (max sq sd) NI0).length) ((dn (max sq sd) NI0).length * max sq sd)
          (wsum g.origQueryAbunds (dn (max sq sd) Q0) + wsum g.origQueryAbunds (dn (max sq sd) NI0))
          g.origSigMh.scaled := by
  unfold GD.next at h
  by_cases h0 : len lsOps g.query = 0
  · rw [if_pos h0] at h
    simp only [Except.ok.injEq, Prod.mk.injEq] at h
    obtain ⟨rfl, rfl⟩ := h
    exact ⟨rfl, rfl, rfl, rfl, rfl, rfl, hinv, ha, Or.inl (List.eq_nil_of_length_eq_zero h0)⟩
  rw [if_neg h0] at h
  have hne : g.query.hs ≠ [] := by
    intro hnil; apply h0; show g.query.hs.length = 0; rw [hnil]; rfl
  have hwf : ∀ db ∈ dbs, ∀ d ∈ db, d.mh.WF := fun db hdb d hd => (hinv.db_ok db hdb d hd).1
  rw [hinv.counters] at h
  cases hf : findBest lsOps ops (dbs.map CObj.idx) g.query g.thresholdBp with
  | error e => rw [hf] at h; cases h
  | ok fr =>
    obtain ⟨cs, b⟩ := fr
    rw [hf] at h
    obtain ⟨e1, hb⟩ := findBest_idx laws hinv.basic.q_wf hinv.basic.q_flat hne hthr hwf hf
    subst e1
    cases b with
    | none =>
      simp only [Except.ok.injEq, Prod.mk.injEq] at h
      obtain ⟨rfl, rfl⟩ := h
      simp only [] at hb
      refine ⟨rfl, rfl, rfl, rfl, rfl, rfl, ⟨?_, rfl, hinv.db_ok⟩, ?_, Or.inr hb⟩
      · exact ⟨hinv.basic.orig_sorted, hinv.basic.q_wf, hinv.basic.q_flat, hinv.basic.q_scaled,
          hinv.basic.cmp, hinv.basic.size⟩
      · exact ⟨ha.bounds, ha.oq_hs, ha.oq_sc, ha.ni_hs, ha.ni_sc, ha.nsum, ha.tot⟩
    | some x =>
      obtain ⟨sc, best, inter⟩ := x
      simp only [] at h hb
      obtain ⟨b1, _, b3, b4⟩ := hb
      simp only [] at b1 b3 b4
      obtain ⟨db, hdb, hbd⟩ := List.mem_flatten.1 b1
      obtain ⟨hbwf, hbsd⟩ := hinv.db_ok db hdb best hbd
      obtain ⟨res, hr, r1, r2, r3, r4, r5, r6, r7, r8, r9, r10, r11, r12, r13, r13b, r14⟩ :=
        report_round hinv.basic ha hbwf hbsd h
      subst hr
      exact ⟨best, b1, b3, b4, r1, r2, r3, r4, r5, r7, r8, r9, r10, r11, ⟨r12, r6, hinv.db_ok⟩, r13, r13b, r14⟩

end Sm.Gather
