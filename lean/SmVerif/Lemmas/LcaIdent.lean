/-
The two version cuts `lca index --split-identifiers` could apply to an identifier:
`split(".")[0]` (everything before the FIRST period) and `rsplit(".", 1)[0]` (everything
before the LAST one).  They agree exactly on strings with at most one period.
-/
import SmVerif.Lemmas.LcaSql
import SmVerif.Model.LcaIndex

namespace Sm.LcaIndex

open Sm.Lca

theorem dropWhile_ne_append {c : Char} (r t : List Char) (h : ∀ y ∈ r, y ≠ c) :
    (r ++ c :: t).dropWhile (· != c) = c :: t := by
  induction r with
  | nil => simp [List.dropWhile_cons]
  | cons y ys ih =>
    have hy : y ≠ c := h y (by simp)
    simp only [List.cons_append, List.dropWhile_cons]
    have : (y != c) = true := by simpa using hy
    rw [if_pos this]
    exact ih (fun z hz => h z (List.mem_cons_of_mem _ hz))

/-- everything before the last `c`, when the part after it has no `c` -/
theorem beforeLast_append {c : Char} (x d : List Char) (hd : c ∉ d) : beforeLast c (x ++ c :: d) = x := by
  unfold beforeLast
  have hc : (x ++ c :: d).contains c = true := by simp
  rw [if_pos hc]
  have hrev : (x ++ c :: d).reverse = d.reverse ++ c :: x.reverse := by simp
  rw [hrev, dropWhile_ne_append _ _ (by intro y hy e; exact hd (e ▸ (List.mem_reverse.mp hy)))]
  simp

theorem beforeLast_of_not_mem {c : Char} {l : List Char} (h : c ∉ l) : beforeLast c l = l := by
  unfold beforeLast
  have : l.contains c = false := by simpa using h
  rw [this]
  simp

/-- no period: both cuts leave the string alone -/
theorem cuts_agree_no_period {c : Char} {l : List Char} (h : c ∉ l) : headUntil c l = beforeLast c l := by
  rw [headUntil_of_not_mem h, beforeLast_of_not_mem h]

/-- exactly one period: both cuts return the part before it -/
theorem cuts_agree_one_period {c : Char} (a b : List Char) (ha : c ∉ a) (hb : c ∉ b) :
    headUntil c (a ++ c :: b) = beforeLast c (a ++ c :: b) := by
  rw [headUntil_append b ha, beforeLast_append a b hb]

/-- two or more periods: the cuts differ (first-period cut `a`, last-period cut `a.b…`) -/
theorem cuts_differ_two_periods {c : Char} (a b d : List Char) (ha : c ∉ a) (hd : c ∉ d) :
    headUntil c (a ++ c :: (b ++ c :: d)) = a ∧ beforeLast c (a ++ c :: (b ++ c :: d)) = a ++ c :: b ∧
      headUntil c (a ++ c :: (b ++ c :: d)) ≠ beforeLast c (a ++ c :: (b ++ c :: d)) := by
  have h1 := headUntil_append (b ++ c :: d) ha
  have h2 : beforeLast c (a ++ c :: (b ++ c :: d)) = a ++ c :: b := by
    have := beforeLast_append (a ++ c :: b) d hd
    simpa using this
  refine ⟨h1, h2, ?_⟩
  rw [h1, h2]
  intro e
  have := congrArg List.length e
  simp at this

end Sm.LcaIndex
