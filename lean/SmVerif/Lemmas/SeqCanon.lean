/-
Order facts about `lexLt` / `canon`, `complement` on valid bases, reverse complement of
windows, and the consequences for `dnaGo` (all-valid input, append, reverse complement).
-/
import SmVerif.Lemmas.SeqWindows
import SmVerif.Lemmas.SeqSpec

namespace Sm.Seq

theorem lexLt_asymm : ∀ (a b : List Nat), lexLt a b = true → lexLt b a = false
  | _, [], h => by simp [lexLt] at h
  | [], _ :: _, _ => by simp [lexLt]
  | a :: as, b :: bs, h => by
    simp only [lexLt] at h ⊢
    by_cases h1 : a < b
    · have : ¬ b < a := Nat.lt_asymm h1
      simp [this, h1]
    · by_cases h2 : b < a
      · simp [h1, h2] at h
      · simp only [h1, h2, if_false] at h ⊢
        exact lexLt_asymm as bs h

theorem lexLt_total : ∀ (a b : List Nat), lexLt a b = false → lexLt b a = false → a = b
  | [], [], _, _ => rfl
  | [], _ :: _, h, _ => by simp [lexLt] at h
  | _ :: _, [], _, h => by simp [lexLt] at h
  | a :: as, b :: bs, h1, h2 => by
    simp only [lexLt] at h1 h2
    by_cases ha : a < b
    · simp [ha] at h1
    · by_cases hb : b < a
      · simp [hb] at h2
      · simp only [ha, hb, if_false] at h1 h2
        have : a = b := Nat.le_antisymm (Nat.le_of_not_lt hb) (Nat.le_of_not_lt ha)
        subst this
        rw [lexLt_total as bs h1 h2]

/-- `min` does not care about the order of its arguments -/
theorem lexMin_comm (a b : List Nat) : lexMin a b = lexMin b a := by
  unfold lexMin
  cases h1 : lexLt b a <;> cases h2 : lexLt a b <;> simp
  · exact lexLt_total a b h2 h1
  · rw [lexLt_asymm a b h2] at h1; cases h1

theorem valid_iff (b : Nat) : valid b = true ↔ b = 65 ∨ b = 67 ∨ b = 71 ∨ b = 84 := by
  simp [valid, Gen.validEntries]

theorem complement_complement {b : Nat} (h : valid b = true) : complement (complement b) = b := by
  rcases (valid_iff b).1 h with rfl | rfl | rfl | rfl <;> decide

theorem valid_complement {b : Nat} (h : valid b = true) : valid (complement b) = true := by
  rcases (valid_iff b).1 h with rfl | rfl | rfl | rfl <;> decide

theorem revcomp_revcomp {w : List Nat} (h : w.all valid = true) : revcomp (revcomp w) = w := by
  unfold revcomp
  simp only [List.map_reverse, List.reverse_reverse, List.map_map]
  rw [List.all_eq_true] at h
  conv => rhs; rw [← List.map_id w]
  apply List.map_congr_left
  intro b hb
  exact complement_complement (h b hb)

theorem revcomp_all_valid {w : List Nat} (h : w.all valid = true) : (revcomp w).all valid = true := by
  rw [List.all_eq_true] at h ⊢
  intro x hx
  simp only [revcomp, List.mem_map, List.mem_reverse] at hx
  obtain ⟨b, hb, rfl⟩ := hx
  exact valid_complement (h b hb)

/-- a k-mer and its reverse complement have the same canonical form -/
theorem canon_revcomp {w : List Nat} (h : w.all valid = true) : canon (revcomp w) = canon w := by
  unfold canon
  rw [revcomp_revcomp h, lexMin_comm]

theorem length_revcomp (w : List Nat) : (revcomp w).length = w.length := by simp [revcomp]

/-- the windows of the reverse complement are the reverse complements of the windows, last first -/
theorem windows_revcomp (k : Nat) (s : List Nat) :
    windows k (revcomp s) = ((windows k s).map revcomp).reverse := by
  unfold revcomp
  rw [windows_map, windows_reverse]
  simp [List.map_reverse, List.map_map, Function.comp_def]

theorem mem_of_mem_windows {α : Type} {k : Nat} : ∀ {s : List α} {w : List α}, w ∈ windows k s → ∀ x ∈ w, x ∈ s
  | [], w, h, x, hx => by
    by_cases hk : k = 0
    · simp [windows, hk] at h; subst h; simp at hx
    · simp [windows, hk] at h
  | a :: s, w, h, x, hx => by
    by_cases hk : k ≤ s.length + 1
    · rw [windows_cons_of_le hk] at h
      rcases List.mem_cons.1 h with h | h
      · subst h; exact List.mem_of_mem_take hx
      · exact List.mem_cons_of_mem _ (mem_of_mem_windows h x hx)
    · rw [windows_of_length_lt (by simp; omega)] at h; simp at h

theorem windows_all_valid {k : Nat} {s : List Nat} (h : s.all valid = true) :
    ∀ w ∈ windows k s, w.all valid = true := by
  intro w hw
  rw [List.all_eq_true] at h ⊢
  exact fun x hx => h x (mem_of_mem_windows hw x hx)

/-- on windows that are all valid the walk is a plain `map` -/
theorem dnaGo_all_valid (hash : List Nat → Nat) (force : Bool) :
    ∀ (ws : List (List Nat)), (∀ w ∈ ws, w.all valid = true) →
      dnaGo hash force ws = (ws.map (fun w => hash (canon w)), .done)
  | [], _ => rfl
  | w :: ws, h => by
    have hw := h w (List.mem_cons_self ..)
    have ih := dnaGo_all_valid hash force ws (fun w' hw' => h w' (List.mem_cons_of_mem _ hw'))
    simp [dnaGo, hw, ih]

/-- walking a concatenation = walking the first part, then (if that ended normally) the second -/
theorem dnaGo_append (hash : List Nat → Nat) (force : Bool) :
    ∀ (l1 l2 : List (List Nat)),
      dnaGo hash force (l1 ++ l2) = seqThen (dnaGo hash force l1) (dnaGo hash force l2)
  | [], l2 => by simp [dnaGo, seqThen]
  | w :: l1, l2 => by
    have ih := dnaGo_append hash force l1 l2
    simp only [List.cons_append, dnaGo]
    rw [ih]
    rcases hd : dnaGo hash force l1 with ⟨hs, st⟩
    by_cases hw : w.all valid = true
    · cases st <;> simp [hw, seqThen]
    · by_cases hf : force = true
      · cases st <;> simp [hw, hf, seqThen]
      · simp [hw, hf, seqThen]

/-- with `force`, the walk never fails, and its items are: hash for a valid window, 0 otherwise -/
theorem dnaGo_force (hash : List Nat → Nat) :
    ∀ (ws : List (List Nat)),
      dnaGo hash true ws = (ws.map (fun w => if w.all valid then hash (canon w) else 0), .done)
  | [] => rfl
  | w :: ws => by
    have ih := dnaGo_force hash ws
    by_cases hw : w.all valid = true
    · simp only [dnaGo, hw, if_true, ih, List.map_cons]
    · have hw' : w.all valid = false := by simpa using hw
      simp only [dnaGo, hw', ih, List.map_cons]
      simp

/-- without `force`: either every window is valid (all hashed), or the walk ends with the error
    of the FIRST invalid window after the hashes of the windows before it -/
theorem dnaGo_noforce (hash : List Nat → Nat) :
    ∀ (ws : List (List Nat)),
      (∀ w ∈ ws, w.all valid = true) ∧ dnaGo hash false ws = (ws.map (fun w => hash (canon w)), .done) ∨
      ∃ pre w post, ws = pre ++ w :: post ∧ (∀ v ∈ pre, v.all valid = true) ∧ w.all valid = false ∧
        dnaGo hash false ws = (pre.map (fun v => hash (canon v)), .err (dnaErr w))
  | [] => Or.inl ⟨by simp, rfl⟩
  | w :: ws => by
    by_cases hw : w.all valid = true
    · rcases dnaGo_noforce hash ws with ⟨hall, hgo⟩ | ⟨pre, v, post, rfl, hpre, hv, hgo⟩
      · left
        refine ⟨?_, by simp [dnaGo, hw, hgo]⟩
        intro x hx
        rcases List.mem_cons.1 hx with rfl | hx
        · exact hw
        · exact hall x hx
      · right
        refine ⟨w :: pre, v, post, by simp, ?_, hv, by simp [dnaGo, hw, hgo]⟩
        intro x hx
        rcases List.mem_cons.1 hx with rfl | hx
        · exact hw
        · exact hpre x hx
    · right
      refine ⟨[], w, ws, by simp, by simp, by simpa using hw, by simp [dnaGo, hw]⟩

end Sm.Seq
