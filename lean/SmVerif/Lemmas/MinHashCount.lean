/-
The `count` abstraction through `addHashAb` / `removeHash` / `clear`,
membership, extensionality, and order / batching independence of scaled sketches.
-/
import SmVerif.Lemmas.MinHashAdd

namespace Sm

open MH

/-! ### counts through the positional edits -/

theorem cnt_pairs_insAt {s : MH} (hs : InvW s) (h a x : Nat) :
    cnt (s.insAt (lowerBound s.mins h) h a).pairs x =
      if x = h then stored s a else cnt s.pairs x := by
  rw [pairs_insAt hs]
  have := cnt_insertIdx_lowerBound s.pairs h (stored s a) x
  rwa [pairs_keys hs] at this

theorem cnt_pairs_modAt {s : MH} (hs : InvW s) (h a x : Nat)
    (hf : s.mins[lowerBound s.mins h]? = some h) :
    cnt (s.modAt (lowerBound s.mins h) a).pairs x =
      if x = h then (if s.trackAbundance then cnt s.pairs h + a else cnt s.pairs h)
      else cnt s.pairs x := by
  rw [pairs_modAt]
  split
  · have := cnt_modify_lowerBound s.pairs h x (· + a) (by rw [pairs_keys hs]; exact hf)
    rwa [pairs_keys hs] at this
  · split
    · rename_i hx; rw [hx]
    · rfl

theorem cnt_pairs_eraseAt {s : MH} (hs : InvW s) (h x : Nat)
    (hf : s.mins[lowerBound s.mins h]? = some h) :
    cnt ({ s with mins := s.mins.eraseIdx (lowerBound s.mins h),
                  abunds := s.abunds.map (fun ab => ab.eraseIdx (lowerBound s.mins h)),
                  md5 := none } : MH).pairs x = if x = h then 0 else cnt s.pairs x := by
  rw [pairs_eraseAt hs]
  have := cnt_eraseIdx_lowerBound s.pairs h x (by rw [pairs_keys hs]; exact hs.sorted)
    (by rw [pairs_keys hs]; exact hf)
  rwa [pairs_keys hs] at this

theorem cnt_pairs_eq_zero_of_not_found {s : MH} (hs : InvW s) {h : Nat}
    (hnf : s.mins[lowerBound s.mins h]? ≠ some h) : cnt s.pairs h = 0 :=
  cnt_eq_zero_of_not_found (by rw [pairs_keys hs]; exact hs.sorted)
    (by rw [pairs_keys hs]; exact hnf)

/-- a hash is present iff its count is positive -/
theorem mem_iff_count_pos' {s : MH} (hs : Inv s) (x : Nat) : x ∈ s.mins ↔ 0 < count s x := by
  rw [count_eq_cnt, cnt_pos_iff (pairs_pos hs.toW), pairs_keys hs.toW]

theorem count_flat {s : MH} (_hs : Inv s) (ht : s.trackAbundance = false) (x : Nat) :
    count s x = if x ∈ s.mins then 1 else 0 := by
  have : s.abunds = none := by
    simpa [MH.trackAbundance] using ht
  rw [count_eq_cnt, pairs_none this, cnt_ones]

theorem count_removeHash' {s : MH} (hs : Inv s) (h x : Nat) :
    count (s.removeHash h) x = if x = h then 0 else count s x := by
  unfold MH.removeHash
  split
  · rename_i pos hpos
    obtain ⟨rfl, hf⟩ := findPos_eq_some_iff.1 hpos
    exact cnt_pairs_eraseAt hs.toW h x hf
  · rename_i hnone
    have hnf := findPos_eq_none_iff.1 hnone
    split
    · rename_i hx
      rw [hx, count_eq_cnt]
      exact cnt_pairs_eq_zero_of_not_found hs.toW hnf
    · rfl

theorem count_clear' (s : MH) (x : Nat) : count s.clear x = 0 := by
  obtain ⟨num, maxHash, ksize, seed, hf, mins, abunds, md5⟩ := s
  cases abunds <;> simp [count, MH.clear, MH.pairs, ones]

/-- adding hash `h` with abundance `a` to the abstract content of a sketch with
threshold `M` (same body as `Sm.C01.Spec.add`) -/
def specAdd (M : Nat) (track : Bool) (m : Nat → Nat) (h a : Nat) : Nat → Nat :=
  if M ≠ 0 ∧ h > M then m
  else if a = 0 then fun x => if x = h then 0 else m x
  else fun x => if x = h then (if track then m h + a else 1) else m x

theorem count_addHashAb_scaled' {s : MH} (hs : Inv s) (hn : s.num = 0) (hM : s.maxHash ≠ 0)
    (h a x : Nat) :
    count (s.addHashAb h a) x = specAdd s.maxHash s.trackAbundance (count s) h a x := by
  rw [addHashAb_eq hs (Or.inl hn)]
  unfold specAdd
  by_cases h1 : h > s.maxHash ∧ s.maxHash ≠ 0
  · rw [if_pos h1, if_pos ⟨h1.2, h1.1⟩]
  have h1' : ¬ (s.maxHash ≠ 0 ∧ h > s.maxHash) := fun hc => h1 ⟨hc.2, hc.1⟩
  have h2 : ¬ (s.num = 0 ∧ s.maxHash = 0) := fun hc => hM hc.2
  rw [if_neg h1, if_neg h1', if_neg h2]
  by_cases h3 : a = 0
  · rw [if_pos h3, if_pos h3]
    exact count_removeHash' hs h x
  rw [if_neg h3, if_neg h3]
  have hle : h ≤ s.maxHash := by omega
  have hcap : ¬ (s.num ≠ 0 ∧ s.mins.length + 1 > s.num) := fun hc => hc.1 hn
  rw [if_pos (Or.inr (Or.inl hle)), if_neg hcap]
  split
  · rename_i hf
    rw [count_eq_cnt, cnt_pairs_modAt hs.toW h a x hf]
    split
    · split
      · rfl
      · rename_i ht
        have ht' : s.trackAbundance = false := by simpa using ht
        have := count_flat hs ht' h
        rw [if_pos ((getElem?_lowerBound_iff_mem hs.sorted h).1 hf)] at this
        exact this
    · rfl
  · rename_i hnf
    rw [count_eq_cnt, cnt_pairs_insAt hs.toW h a x]
    split
    · unfold stored
      split
      · rw [count_eq_cnt, cnt_pairs_eq_zero_of_not_found hs.toW hnf, Nat.zero_add]
      · rfl
    · rfl

/-! ### extensionality -/

theorem zip_map_fst_snd {α β} (l : List (α × β)) : (l.map Prod.fst).zip (l.map Prod.snd) = l := by
  induction l with
  | nil => rfl
  | cons q qs ih => simp [ih]

theorem pairs_eq_of_count {s t : MH} (hs : Inv s) (ht : Inv t)
    (h : ∀ x, count s x = count t x) : s.pairs = t.pairs :=
  pairs_ext (by rw [pairs_keys hs.toW]; exact hs.sorted) (by rw [pairs_keys ht.toW]; exact ht.sorted)
    (pairs_pos hs.toW) (pairs_pos ht.toW) h

/-- the abstraction is injective on valid sketches: same counts, same vectors -/
theorem ext_of_count' {s t : MH} (hs : Inv s) (ht : Inv t)
    (htr : s.trackAbundance = t.trackAbundance) (h : ∀ x, count s x = count t x) :
    s.mins = t.mins ∧ s.abunds = t.abunds := by
  have hp := pairs_eq_of_count hs ht h
  have hm : s.mins = t.mins := by
    rw [← pairs_keys hs.toW, ← pairs_keys ht.toW, hp]
  refine ⟨hm, ?_⟩
  cases hsa : s.abunds with
  | none =>
    cases hta : t.abunds with
    | none => rfl
    | some ab' => simp [MH.trackAbundance, hsa, hta] at htr
  | some ab =>
    cases hta : t.abunds with
    | none => simp [MH.trackAbundance, hsa, hta] at htr
    | some ab' =>
      rw [pairs_some hsa, pairs_some hta] at hp
      have h1 := hs.aligned ab hsa
      have h2 := ht.aligned ab' hta
      have := congrArg (List.map Prod.snd) hp
      rw [List.map_snd_zip (Nat.le_of_eq h1), List.map_snd_zip (Nat.le_of_eq h2)] at this
      rw [this]

/-! ### order independence -/

/-- two valid scaled sketches with the same parameters and the same counts -/
structure Sim (s t : MH) : Prop where
  invL : Inv s
  invR : Inv t
  numL : s.num = 0
  numR : t.num = 0
  maxL : s.maxHash ≠ 0
  maxEq : s.maxHash = t.maxHash
  track : s.trackAbundance = t.trackAbundance
  counts : ∀ x, count s x = count t x

theorem Sim.refl {s : MH} (hs : Inv s) (hn : s.num = 0) (hM : s.maxHash ≠ 0) : Sim s s :=
  ⟨hs, hs, hn, hn, hM, rfl, rfl, fun _ => rfl⟩

theorem Sim.trans {s t u : MH} (h1 : Sim s t) (h2 : Sim t u) : Sim s u :=
  ⟨h1.invL, h2.invR, h1.numL, h2.numR, h1.maxL, h1.maxEq.trans h2.maxEq,
    h1.track.trans h2.track, fun x => (h1.counts x).trans (h2.counts x)⟩

theorem Sim.addHashAb {s t : MH} (h : Sim s t) (y a : Nat) :
    Sim (s.addHashAb y a) (t.addHashAb y a) := by
  have fs := addHashAb_frame s y a
  have ft := addHashAb_frame t y a
  refine ⟨inv_addHashAb h.invL (Or.inl h.numL) y a, inv_addHashAb h.invR (Or.inl h.numR) y a,
    fs.1.trans h.numL, ft.1.trans h.numR, by rw [fs.2.1]; exact h.maxL,
    by rw [fs.2.1, ft.2.1]; exact h.maxEq,
    by rw [fs.2.2.2.2.2, ft.2.2.2.2.2]; exact h.track, ?_⟩
  intro x
  rw [count_addHashAb_scaled' h.invL h.numL h.maxL,
    count_addHashAb_scaled' h.invR h.numR (by rw [← h.maxEq]; exact h.maxL),
    ← h.maxEq, ← h.track]
  have : count s = count t := funext h.counts
  rw [this]

theorem Sim.addManyAb {s t : MH} (h : Sim s t) (l : List (Nat × Nat)) :
    Sim (s.addManyAb l) (t.addManyAb l) := by
  unfold MH.addManyAb
  induction l generalizing s t with
  | nil => exact h
  | cons p ps ih => exact ih (h.addHashAb p.1 p.2)

/-- two additions with positive abundances commute on the abstract content -/
theorem specAdd_comm (M : Nat) (tr : Bool) (m : Nat → Nat) (h a h' a' : Nat)
    (ha : 0 < a) (ha' : 0 < a') (x : Nat) :
    specAdd M tr (specAdd M tr m h a) h' a' x = specAdd M tr (specAdd M tr m h' a') h a x := by
  unfold specAdd
  have h0 : ¬ a = 0 := by omega
  have h0' : ¬ a' = 0 := by omega
  simp only [if_neg h0, if_neg h0']
  by_cases c1 : M ≠ 0 ∧ h > M <;> by_cases c2 : M ≠ 0 ∧ h' > M
  · simp only [if_pos c1, if_pos c2]
  · simp only [if_pos c1, if_neg c2]
  · simp only [if_neg c1, if_pos c2]
  · simp only [if_neg c1, if_neg c2]
    by_cases e : h = h'
    · subst e
      cases tr
      · simp
      · simp only [if_true]
        split <;> omega
    · have e' : ¬ h' = h := fun hc => e hc.symm
      by_cases e1 : x = h
      · subst e1; simp [e]
      · by_cases e2 : x = h'
        · subst e2; simp [e']
        · simp [e1, e2]

theorem Sim.swap {s : MH} (hs : Inv s) (hn : s.num = 0) (hM : s.maxHash ≠ 0)
    (p q : Nat × Nat) (hp : 0 < p.2) (hq : 0 < q.2) :
    Sim ((s.addHashAb p.1 p.2).addHashAb q.1 q.2) ((s.addHashAb q.1 q.2).addHashAb p.1 p.2) := by
  have h1 := (Sim.refl hs hn hM).addHashAb p.1 p.2
  have h2 := (Sim.refl hs hn hM).addHashAb q.1 q.2
  have h12 := h1.addHashAb q.1 q.2
  have h21 := h2.addHashAb p.1 p.2
  have fp := addHashAb_frame s p.1 p.2
  have fq := addHashAb_frame s q.1 q.2
  have fpq := addHashAb_frame (s.addHashAb p.1 p.2) q.1 q.2
  have fqp := addHashAb_frame (s.addHashAb q.1 q.2) p.1 p.2
  refine ⟨h12.invL, h21.invL, h12.numL, h21.numL, h12.maxL, ?_, ?_, ?_⟩
  · rw [fpq.2.1, fqp.2.1, fp.2.1, fq.2.1]
  · rw [fpq.2.2.2.2.2, fqp.2.2.2.2.2, fp.2.2.2.2.2, fq.2.2.2.2.2]
  · intro x
    rw [count_addHashAb_scaled' h1.invL h1.numL h1.maxL,
      count_addHashAb_scaled' h2.invL h2.numL h2.maxL]
    have e1 : count (s.addHashAb p.1 p.2) = specAdd s.maxHash s.trackAbundance (count s) p.1 p.2 :=
      funext (count_addHashAb_scaled' hs hn hM p.1 p.2)
    have e2 : count (s.addHashAb q.1 q.2) = specAdd s.maxHash s.trackAbundance (count s) q.1 q.2 :=
      funext (count_addHashAb_scaled' hs hn hM q.1 q.2)
    rw [e1, e2, fp.2.1, fq.2.1, fp.2.2.2.2.2, fq.2.2.2.2.2]
    exact specAdd_comm _ _ _ _ _ _ _ hp hq x

theorem Sim.perm {ps qs : List (Nat × Nat)} (hperm : ps.Perm qs) :
    ∀ {s t : MH}, Sim s t → (∀ p ∈ ps, 0 < p.2) → Sim (s.addManyAb ps) (t.addManyAb qs) := by
  induction hperm with
  | nil => intro s t h _; exact h
  | cons p _ ih =>
    intro s t h hpos
    exact ih (h.addHashAb p.1 p.2) (fun r hr => hpos r (List.mem_cons_of_mem _ hr))
  | swap p q l =>
    intro s t h hpos
    have hp := hpos p (by simp)
    have hq := hpos q (by simp)
    have h1 : Sim ((s.addHashAb q.1 q.2).addHashAb p.1 p.2) ((s.addHashAb p.1 p.2).addHashAb q.1 q.2) :=
      Sim.swap h.invL h.numL h.maxL q p hq hp
    have h2 : Sim ((s.addHashAb p.1 p.2).addHashAb q.1 q.2) ((t.addHashAb p.1 p.2).addHashAb q.1 q.2) :=
      (h.addHashAb p.1 p.2).addHashAb q.1 q.2
    exact (h1.trans h2).addManyAb l
  | @trans l1 l2 l3 h12 _ ih1 ih2 =>
    intro s t h hpos
    have hpos2 : ∀ p ∈ l2, 0 < p.2 := fun p hp => hpos p (h12.mem_iff.2 hp)
    exact (ih1 h hpos).trans (ih2 (Sim.refl h.invR h.numR (by rw [← h.maxEq]; exact h.maxL)) hpos2)

/-- insertion order and duplicates do not matter -/
theorem scaled_order_independent' {s : MH} (hs : Inv s) (hn : s.num = 0) (hM : s.maxHash ≠ 0)
    (ps qs : List (Nat × Nat)) (hp : ps.Perm qs) (hpos : ∀ p ∈ ps, 0 < p.2) :
    (s.addManyAb ps).mins = (s.addManyAb qs).mins ∧
    (s.addManyAb ps).abunds = (s.addManyAb qs).abunds := by
  have h := Sim.perm hp (Sim.refl hs hn hM) hpos
  exact ext_of_count' h.invL h.invR h.track h.counts

/-- batching does not matter -/
theorem scaled_batching_independent' {s : MH} (hs : Inv s) (hn : s.num = 0) (hM : s.maxHash ≠ 0)
    (ps : List (Nat × Nat)) (hpos : ∀ p ∈ ps, 0 < p.2) :
    (s.ffiSetAbundances ps false).mins = (s.addManyAb ps).mins ∧
    (s.ffiSetAbundances ps false).abunds = (s.addManyAb ps).abunds := by
  have hperm := sortPairs_perm ps
  have : s.ffiSetAbundances ps false = s.addManyAb (MH.sortPairs ps) := by
    simp [MH.ffiSetAbundances]
  rw [this]
  exact scaled_order_independent' hs hn hM _ _ hperm
    (fun p hp => hpos p (hperm.mem_iff.1 hp))

end Sm
