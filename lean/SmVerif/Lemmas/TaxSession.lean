/-
C19 helper lemmas, part 12: the writers on one shared `QueryTaxResult`.  `make_full_summary` and `make_human_summary`
sort the shared per-rank lists in place; what survives any sequence of such sorts is the content of every list
(`SamePerRank`), and every writer prints the same rows (as a multiset) on any two states with the same content.
-/
import SmVerif.Lemmas.TaxResult

namespace Sm.Tax

open Sm.F64

set_option linter.unusedSectionVars false
set_option linter.unusedSimpArgs false
variable {ν : Type} [DecidableEq ν] {α : Type}

/-- two session states hold, rank by rank, the same entries (in any order) -/
def SamePerRank (a b : List (List (Entry α ν))) : Prop := List.Forall₂ List.Perm a b

theorem samePerRank_refl (a : List (List (Entry α ν))) : SamePerRank a a := by
  induction a with
  | nil => exact List.Forall₂.nil
  | cons x t ih => exact List.Forall₂.cons (List.Perm.refl x) ih

theorem samePerRank_trans {a b c : List (List (Entry α ν))} (h1 : SamePerRank a b) (h2 : SamePerRank b c) :
    SamePerRank a c := by
  induction h1 generalizing c with
  | nil => cases h2; exact List.Forall₂.nil
  | cons hab _ ih =>
    cases h2 with
    | cons hbc htl => exact List.Forall₂.cons (hab.trans hbc) (ih htl)

theorem samePerRank_symm {a b : List (List (Entry α ν))} (h : SamePerRank a b) : SamePerRank b a := by
  induction h with
  | nil => exact List.Forall₂.nil
  | cons hab _ ih => exact List.Forall₂.cons hab.symm ih

theorem samePerRank_flatten {a b : List (List (Entry α ν))} (h : SamePerRank a b) : a.flatten.Perm b.flatten := by
  induction h with
  | nil => simp
  | cons hab _ ih => simp only [List.flatten_cons]; exact hab.append ih

theorem insertEntryDescW_perm (A : Arith α) (x : Entry α ν) (l : List (Entry α ν)) :
    (insertEntryDescW A x l).Perm (x :: l) := by
  induction l with
  | nil => simp [insertEntryDescW]
  | cons y t ih =>
    unfold insertEntryDescW
    by_cases h : A.lt y.fw x.fw
    · simp [h]
    · simp only [h]
      exact (List.Perm.cons y ih).trans (List.Perm.swap x y t)

theorem sortEntriesDescW_perm (A : Arith α) (l : List (Entry α ν)) : (sortEntriesDescW A l).Perm l := by
  unfold sortEntriesDescW
  suffices h : ∀ acc : List (Entry α ν), (l.foldl (fun acc x => insertEntryDescW A x acc) acc).Perm (acc ++ l) by
    simpa using h []
  induction l with
  | nil => intro acc; simp
  | cons x t ih =>
    intro acc
    simp only [List.foldl_cons]
    refine (ih _).trans ?_
    have h1 : (insertEntryDescW A x acc ++ t).Perm ((x :: acc) ++ t) :=
      List.Perm.append_right t (insertEntryDescW_perm A x acc)
    refine h1.trans ?_
    simp only [List.cons_append]
    exact List.perm_middle.symm

theorem writerOrder_perm (A : Arith α) (es : List (Entry α ν)) : (writerOrder A es).Perm es := by
  unfold writerOrder
  have h := sortEntriesDesc_perm A es
  refine List.Perm.trans ?_ h
  have := List.filter_append_perm (fun e : Entry α ν => !isUnclassified e) (sortEntriesDesc A es)
  simpa using this

theorem isRank_perm (r : Nat) {es es' : List (Entry α ν)} (h : es.Perm es') : isRank r es = isRank r es' := by
  unfold isRank
  cases h1 : es.any (fun e => e.rank = r) with
  | true =>
    rw [List.any_eq_true] at h1
    obtain ⟨x, hx, hp⟩ := h1
    symm; rw [List.any_eq_true]; exact ⟨x, h.mem_iff.mp hx, hp⟩
  | false =>
    symm
    rw [← Bool.not_eq_true, List.any_eq_true] at h1 ⊢
    rintro ⟨x, hx, hp⟩
    exact h1 ⟨x, h.mem_iff.mpr hx, hp⟩

/-! ### the two sorting writers keep the content of the state -/

theorem sessCsv_state (A : Arith α) (ess : List (List (Entry α ν))) : SamePerRank (sessCsv A ess).1 ess := by
  unfold sessCsv
  simp only
  induction ess with
  | nil => exact List.Forall₂.nil
  | cons x t ih => exact List.Forall₂.cons (sortEntriesDesc_perm A x) ih

theorem sessHuman_state (A : Arith α) (r : Nat) (ess : List (List (Entry α ν))) :
    SamePerRank (sessHuman A r ess).1 ess := by
  unfold sessHuman
  simp only
  induction ess with
  | nil => exact List.Forall₂.nil
  | cons x t ih =>
    simp only [List.map_cons]
    refine List.Forall₂.cons ?_ ih
    split
    · exact sortEntriesDescW_perm A x
    · exact List.Perm.refl x

/-! ### every writer prints the same rows on states with the same content -/

theorem sessCsv_rows (A : Arith α) {a b : List (List (Entry α ν))} (h : SamePerRank a b) :
    (sessCsv A a).2.Perm (sessCsv A b).2 := by
  unfold sessCsv
  simp only
  induction h with
  | nil => simp
  | cons hab _ ih =>
    simp only [List.map_cons, List.flatten_cons]
    refine List.Perm.append ?_ ih
    have hs : (sortEntriesDesc A _).Perm (sortEntriesDesc A _) :=
      ((sortEntriesDesc_perm A _).trans hab).trans (sortEntriesDesc_perm A _).symm
    exact (hs.filter _).append (hs.filter _)

theorem filter_isRank_flatten (r : Nat) {a b : List (List (Entry α ν))} (h : SamePerRank a b) :
    ((a.filter (isRank r)).flatten).Perm ((b.filter (isRank r)).flatten) := by
  induction h with
  | nil => simp
  | @cons x y xs ys hab _ ih =>
    simp only [List.filter_cons, isRank_perm r hab]
    by_cases hr : isRank r y
    · simp only [hr, if_true, List.flatten_cons]; exact hab.append ih
    · simp only [hr]; exact ih

theorem sessKrona_rows (A : Arith α) (r : Nat) {a b : List (List (Entry α ν))} (h : SamePerRank a b) :
    (sessKrona A r a).Perm (sessKrona A r b) := by
  unfold sessKrona
  exact ((writerOrder_perm A _).trans (filter_isRank_flatten r h)).trans
    (writerOrder_perm A _).symm

theorem sessHuman_rows (A : Arith α) (r : Nat) {a b : List (List (Entry α ν))} (h : SamePerRank a b) :
    (sessHuman A r a).2.Perm (sessHuman A r b).2 := by
  have ha := sessHuman_state A r a
  have hb := sessHuman_state A r b
  have hab : SamePerRank (sessHuman A r a).1 (sessHuman A r b).1 :=
    samePerRank_trans ha (samePerRank_trans h (samePerRank_symm hb))
  have : (sessHuman A r a).2 = ((sessHuman A r a).1.filter (isRank r)).flatten := rfl
  rw [this]
  have : (sessHuman A r b).2 = ((sessHuman A r b).1.filter (isRank r)).flatten := rfl
  rw [this]
  exact filter_isRank_flatten r hab

/-! ### kreport -/

/-- what the kreport loop prints, as a multiset: every classified entry, and the first unclassified one (if any and if
none was printed before) -/
theorem kreportGo_perm (T : Nat) (l : List (Entry SF String)) (seen : Bool) :
    (kreportGo T l seen).Perm
      ((l.filter (fun e => !e.lin.isEmpty)).map (kreportRowC T) ++
       (if seen then [] else ((l.find? (fun e => e.lin.isEmpty)).toList.map (kreportRowU T)))) := by
  induction l generalizing seen with
  | nil => cases seen <;> simp [kreportGo]
  | cons e t ih =>
    unfold kreportGo
    by_cases he : e.lin.isEmpty = true
    · simp only [he, if_true, List.filter_cons, Bool.not_true, Bool.false_eq_true, if_false, List.find?_cons_of_pos]
      cases seen with
      | true => simpa using ih true
      | false =>
        simp only [Bool.false_eq_true, if_false, Option.toList_some, List.map_cons, List.map_nil]
        have := ih true
        simp only [if_true, List.append_nil] at this
        exact (List.Perm.cons _ this).trans (List.perm_append_singleton _ _).symm
    · have he' : e.lin.isEmpty = false := by simpa using he
      simp only [he', Bool.false_eq_true, if_false, List.filter_cons, Bool.not_false, if_true, List.map_cons,
        List.cons_append]
      rw [List.find?_cons_of_neg (by simp [he'])]
      exact List.Perm.cons _ (ih seen)

/-- every rank's list holds at most one unclassified entry (true of every state `build_summarized_result` produces) -/
def OneRemainder (ess : List (List (Entry SF String))) : Prop :=
  ∀ es ∈ ess, (es.filter (fun e => e.lin.isEmpty)).length ≤ 1

theorem find_eq_of_perm_le_one {β : Type} (q : β → Bool) {l l' : List β} (h : l.Perm l')
    (h1 : (l.filter q).length ≤ 1) : l.find? q = l'.find? q := by
  have hp := h.filter q
  have e1 : l.find? q = (l.filter q).head? := by rw [List.head?_filter]
  have e2 : l'.find? q = (l'.filter q).head? := by rw [List.head?_filter]
  rw [e1, e2]
  cases hf : l.filter q with
  | nil => rw [hf] at hp; rw [List.nil_perm.mp hp]
  | cons x t =>
    rw [hf] at h1 hp
    have ht : t = [] := by
      cases t with
      | nil => rfl
      | cons _ _ => simp at h1
    subst ht
    rw [List.singleton_perm.mp hp]

theorem find_flatten_perm (p q : Entry SF String → Bool) {a b : List (List (Entry SF String))} (h : SamePerRank a b)
    (h1 : ∀ es ∈ a, (es.filter q).length ≤ 1) :
    (a.flatten.filter p).find? q = (b.flatten.filter p).find? q := by
  induction h with
  | nil => rfl
  | @cons x y xs ys hab _ ih =>
    simp only [List.flatten_cons, List.filter_append, List.find?_append]
    have hx := h1 x (List.mem_cons_self ..)
    have hle : ((x.filter p).filter q).length ≤ 1 := by
      have : ((x.filter p).filter q).length ≤ (x.filter q).length :=
        (List.Sublist.filter q (List.filter_sublist (l := x) (p := p))).length_le
      omega
    rw [find_eq_of_perm_le_one q (hab.filter p) hle, ih (fun es hes => h1 es (List.mem_cons_of_mem _ hes))]

/-- kreport prints the same rows (as a multiset) on any two states with the same content -/
theorem kreportRows_perm (T : Nat) {a b : List (List (Entry SF String))} (h : SamePerRank a b) (h1 : OneRemainder a) :
    (kreportRows T a).Perm (kreportRows T b) := by
  unfold kreportRows
  refine (kreportGo_perm T _ false).trans (List.Perm.trans ?_ (kreportGo_perm T _ false).symm)
  simp only [Bool.false_eq_true, if_false]
  have hfl := (samePerRank_flatten h).filter (fun e => decide (e.rank < 7))
  refine List.Perm.append ((hfl.filter _).map _) ?_
  rw [find_flatten_perm (fun e => decide (e.rank < 7)) (fun e => e.lin.isEmpty) h h1]

end Sm.Tax
